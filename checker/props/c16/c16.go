// Package c16: spatial index queries agree with exhaustive search (structural clauses).
package c16

import (
	"strings"

	"golang.org/x/tools/go/ssa"

	"polycheck/eng"
	"polycheck/ob"
	"polycheck/props"
	"polycheck/ssau"
)

func init() {
	props.Register(&props.Prop{
		ID: "C16",
		Explanation: "Identity plumbing of the spatial indices, decided on source: ORD-2 — no query keeps the address of a per-loop " +
			"variable (go.mod selects pre-1.22 loop semantics) in a queue item / slice / map that outlives the iteration, so the element a " +
			"query returns is the element it measured. Decides a necessary condition of 'same element identities as exhaustive search'; " +
			"does not decide geometric correctness of pruning, the slab test, or tie handling.",
		Controls: controls,
		Run:      run,
	})
}

func controls() map[string]string {
	return map[string]string{
		"trees/zz_verif_control_c16.go": `package trees

type verifCtlItem struct{ e *elementReference }

// must fire: address of the range variable kept in a slice that outlives the iteration
func verifControlORD2Bad(es []elementReference) []verifCtlItem {
	var out []verifCtlItem
	for _, e := range es {
		out = append(out, verifCtlItem{e: &e})
	}
	return out
}

// must stay silent: per-iteration copy, immediate return, index-based address
func verifControlORD2Good(es []elementReference) []verifCtlItem {
	var out []verifCtlItem
	for _, e := range es {
		e := e
		out = append(out, verifCtlItem{e: &e})
	}
	for i := range es {
		out = append(out, verifCtlItem{e: &es[i]})
	}
	for _, e := range es {
		if e.originalIndex == 3 {
			return []verifCtlItem{{e: &e}}
		}
	}
	return out
}
`,
	}
}

var scope = []string{"trees", "rendering", "math/geometry", "modeling"}

func run(c *props.Ctx) {
	var fns []*ssa.Function
	for _, rel := range scope {
		sp := c.P.SSAPkg(rel)
		if sp == nil {
			c.R.Failf("anchor package %s not found", rel)
			continue
		}
		fns = append(fns, c.P.FuncsOf(sp)...)
	}
	ord2(c, fns)
}

func ord2(c *props.Ctx, fns []*ssa.Function) {
	escs, st := eng.LoopVarAddrEscapes(fns)
	byFn := map[*ssa.Function][]eng.LoopVarEscape{}
	for _, e := range escs {
		byFn[e.Fn] = append(byFn[e.Fn], e)
	}
	ctlBad, ctlGood := false, true
	loopsFns := 0
	for _, fn := range fns {
		if len(ssau.Loops(fn)) == 0 {
			continue
		}
		name := c.P.FuncName(fn)
		isCtl := c.P.IsControl(fn.Pos())
		es := byFn[fn]
		if isCtl {
			if strings.Contains(name, "verifControlORD2Bad") && len(es) > 0 {
				ctlBad = true
			}
			if strings.Contains(name, "verifControlORD2Good") && len(es) > 0 {
				ctlGood = false
			}
			continue
		}
		loopsFns++
		if len(es) == 0 {
			c.R.Hold("ORD-2", name, c.P.Pos(fn.Pos()))
			continue
		}
		for _, e := range es {
			c.R.Violate("ORD-2", name+"#"+e.Var.Comment, c.P.Pos(ssau.PosOf(e.At)),
				"address of per-loop variable '"+e.Var.Comment+"' "+e.How+" while the loop continues: every kept pointer ends up naming the last iteration's value",
				"variable declared at "+c.P.Pos(e.Var.Pos()))
		}
	}
	c.R.Extra["ord2_loops_examined"] = st.Loops
	c.R.Extra["ord2_reassigned_outer_vars"] = st.Candidates
	c.R.Extra["ord2_address_taken"] = st.AddrTaken
	if len(c.P.Controls) > 0 {
		v := ob.Holds
		if ctlBad {
			v = ob.Violation
		}
		c.R.Control("ORD-2", "control:bad", "trees/zz_verif_control_c16.go", v, ob.Violation, "positive control must be reported")
		v = ob.Holds
		if !ctlGood {
			v = ob.Violation
		}
		c.R.Control("ORD-2", "control:good", "trees/zz_verif_control_c16.go", v, ob.Holds, "accepted idioms must stay silent")
	}
	c.R.Floor("ORD-2", 20)
}
