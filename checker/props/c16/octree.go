package c16

// Octree query rules: ORD-3 / KEY-1 (queue keys), PRUNE-1 (cell predicate = element
// predicate), CHILD-1 (every child / element visited), IDENT-1 (returned indices are
// the stored original indices).

import (
	"fmt"
	"go/token"
	"go/types"
	"regexp"
	"sort"
	"strings"

	"golang.org/x/tools/go/ssa"

	"polycheck/props"
	"polycheck/ssau"
)

type anchors struct {
	c    *props.Ctx
	pkg  *ssa.Package
	fns  []*ssa.Function
	aabb *types.Named

	tree                          *types.Named
	fChildren, fElements, fBounds *types.Var

	elem                    *types.Named
	fPrim, fEBounds, fIndex *types.Var

	item                          *types.Named // queue item struct
	fKey, fCell, fElemPtr, fPoint *types.Var
}

const geomPath = "github.com/EliCDavis/polyform/math/geometry"
const vecModule = "github.com/EliCDavis/vector"

func isAABB(t types.Type) bool { return ssau.IsNamed(t, geomPath, "AABB") && !isPointer(t) }

func isPointer(t types.Type) bool {
	_, ok := t.Underlying().(*types.Pointer)
	return ok
}

func isVector3(t types.Type) bool {
	n := ssau.NamedOf(t)
	if n == nil || isPointer(t) {
		return false
	}
	o := n.Origin().Obj()
	return o.Name() == "Vector" && o.Pkg() != nil && o.Pkg().Path() == vecModule+"/vector3"
}

func sameNamed(t types.Type, n *types.Named) bool {
	m, ok := types.Unalias(t).(*types.Named)
	return ok && m.Obj() == n.Obj()
}

// resolveAnchors finds the tree node, element record and queue item types by their structure.
func resolveAnchors(c *props.Ctx) *anchors {
	a := &anchors{c: c}
	a.pkg = c.P.SSAPkg("trees")
	if a.pkg == nil {
		c.R.Failf("anchor package trees not found")
		return nil
	}
	a.fns = c.P.FuncsOf(a.pkg)
	scope := a.pkg.Pkg.Scope()
	names := scope.Names()
	sort.Strings(names)
	// tree node: a struct with a field []*Self
	for _, nm := range names {
		tn, ok := scope.Lookup(nm).(*types.TypeName)
		if !ok || c.P.IsControl(tn.Pos()) {
			continue
		}
		named, ok := tn.Type().(*types.Named)
		if !ok {
			continue
		}
		st, ok := named.Underlying().(*types.Struct)
		if !ok {
			continue
		}
		for i := 0; i < st.NumFields(); i++ {
			if sl, ok := st.Field(i).Type().Underlying().(*types.Slice); ok {
				if p, ok := sl.Elem().Underlying().(*types.Pointer); ok && sameNamed(p.Elem(), named) {
					if a.tree != nil && a.tree != named {
						c.R.Failf("anchor: more than one self-recursive tree node type in package trees (%s, %s)", a.tree.Obj().Name(), nm)
						return nil
					}
					a.tree = named
					a.fChildren = st.Field(i)
				}
			}
		}
	}
	if a.tree == nil {
		c.R.Failf("anchor: no tree node type (struct with a []*Self field) found in package trees")
		return nil
	}
	st := a.tree.Underlying().(*types.Struct)
	for i := 0; i < st.NumFields(); i++ {
		f := st.Field(i)
		if isAABB(f.Type()) {
			if a.fBounds != nil {
				c.R.Failf("anchor: tree node has more than one AABB field")
				return nil
			}
			a.fBounds = f
		}
		if sl, ok := f.Type().Underlying().(*types.Slice); ok {
			if en, ok := types.Unalias(sl.Elem()).(*types.Named); ok {
				if est, ok := en.Underlying().(*types.Struct); ok {
					var prim, eb, idx *types.Var
					nInt := 0
					for j := 0; j < est.NumFields(); j++ {
						ef := est.Field(j)
						switch {
						case isAABB(ef.Type()):
							eb = ef
						case types.IsInterface(ef.Type()):
							prim = ef
						default:
							if b, ok := ef.Type().Underlying().(*types.Basic); ok && b.Kind() == types.Int {
								idx = ef
								nInt++
							}
						}
					}
					if prim != nil && eb != nil && idx != nil && nInt == 1 {
						a.elem, a.fElements = en, f
						a.fPrim, a.fEBounds, a.fIndex = prim, eb, idx
					}
				}
			}
		}
	}
	if a.fBounds == nil || a.elem == nil {
		c.R.Failf("anchor: tree node %s lacks an AABB bounds field or a slice of element records {primitive, bounds, index}", a.tree.Obj().Name())
		return nil
	}
	if g := c.P.Pkg("math/geometry"); g != nil {
		if tn, ok := g.Types.Scope().Lookup("AABB").(*types.TypeName); ok {
			a.aabb, _ = tn.Type().(*types.Named)
		}
	}
	if a.aabb == nil {
		c.R.Failf("anchor type geometry.AABB not found")
		return nil
	}
	// queue item: element type of a named slice type with a Less method
	for _, nm := range names {
		tn, ok := scope.Lookup(nm).(*types.TypeName)
		if !ok || c.P.IsControl(tn.Pos()) {
			continue
		}
		named, ok := tn.Type().(*types.Named)
		if !ok {
			continue
		}
		sl, ok := named.Underlying().(*types.Slice)
		if !ok {
			continue
		}
		itemN, ok := types.Unalias(sl.Elem()).(*types.Named)
		if !ok {
			continue
		}
		ist, ok := itemN.Underlying().(*types.Struct)
		if !ok {
			continue
		}
		var less *ssa.Function
		for i := 0; i < named.NumMethods(); i++ {
			if named.Method(i).Name() == "Less" {
				less = c.P.SSA.FuncValue(named.Method(i))
			}
		}
		if less == nil || less.Blocks == nil {
			continue
		}
		keys := map[*types.Var]bool{}
		ssau.AllInstrs(less, func(in ssa.Instruction) {
			if fa, ok := in.(*ssa.FieldAddr); ok {
				if fv := ssau.FieldOf(fa); fv != nil {
					for j := 0; j < ist.NumFields(); j++ {
						if ist.Field(j) == fv {
							keys[fv] = true
						}
					}
				}
			}
			if f, ok := in.(*ssa.Field); ok {
				if fv := ssau.FieldOf(f); fv != nil {
					for j := 0; j < ist.NumFields(); j++ {
						if ist.Field(j) == fv {
							keys[fv] = true
						}
					}
				}
			}
		})
		if len(keys) != 1 {
			continue
		}
		for kf := range keys {
			a.fKey = kf
		}
		a.item = itemN
		for j := 0; j < ist.NumFields(); j++ {
			f := ist.Field(j)
			if p, ok := f.Type().Underlying().(*types.Pointer); ok {
				if sameNamed(p.Elem(), a.tree) {
					a.fCell = f
				}
				if sameNamed(p.Elem(), a.elem) {
					a.fElemPtr = f
				}
			}
			if isVector3(f.Type()) {
				a.fPoint = f
			}
		}
	}
	if a.item == nil || a.fCell == nil || a.fElemPtr == nil || a.fPoint == nil {
		c.R.Failf("anchor: no priority-queue item type {key compared by Less, *%s cell, *%s element, point} found in package trees", a.tree.Obj().Name(), a.elem.Obj().Name())
		return nil
	}
	return a
}

func (a *anchors) isTreeRecv(fn *ssa.Function) bool {
	if fn.Signature.Recv() == nil {
		return false
	}
	n := ssau.NamedOf(fn.Signature.Recv().Type())
	return n != nil && n.Obj() == a.tree.Obj()
}

// strip removes address-of / dereference wrappers.
func strip(t *term) *term {
	for t != nil && (t.op == "addr" || t.op == "deref") && len(t.args) == 1 {
		t = t.args[0]
	}
	return t
}

func isNilCheck(t *term) bool {
	if t.op != "cmp" || (t.name != "==" && t.name != "!=") {
		return false
	}
	return t.args[0].op == "nil" || t.args[1].op == "nil"
}

// holeOf finds the unique bounds-field subterm of t (tree bounds or element bounds).
func (a *anchors) holeOf(t *term) (hole *term, n int) {
	t.walk(func(s *term) {
		if s.op == "field" && (s.obj == a.fBounds || s.obj == a.fEBounds) {
			hole = s
			n++
		}
	})
	return hole, n
}

type query struct {
	fn        *ssa.Function
	tm        *termer
	loops     []*ssau.Loop
	recursive []*ssa.Call
}

func (a *anchors) queries() []*query {
	var out []*query
	for _, fn := range a.fns {
		if !a.isTreeRecv(fn) || fn.Parent() != nil {
			continue
		}
		q := &query{fn: fn}
		ssau.AllInstrs(fn, func(in ssa.Instruction) {
			if c, ok := in.(*ssa.Call); ok && c.Common().StaticCallee() == fn {
				q.recursive = append(q.recursive, c)
			}
		})
		if len(q.recursive) == 0 || !emitsIndices(fn) {
			continue
		}
		q.tm = newTermer(fn)
		q.loops = ssau.Loops(fn)
		out = append(out, q)
	}
	return out
}

// emitsIndices: the function hands element indices to its caller ([]int result or an index callback).
func emitsIndices(fn *ssa.Function) bool {
	res := fn.Signature.Results()
	for i := 0; i < res.Len(); i++ {
		if sl, ok := res.At(i).Type().Underlying().(*types.Slice); ok {
			if b, ok := sl.Elem().Underlying().(*types.Basic); ok && b.Kind() == types.Int {
				return true
			}
		}
	}
	ps := fn.Signature.Params()
	for i := 0; i < ps.Len(); i++ {
		if sig, ok := ps.At(i).Type().Underlying().(*types.Signature); ok {
			for j := 0; j < sig.Params().Len(); j++ {
				if b, ok := sig.Params().At(j).Type().Underlying().(*types.Basic); ok && b.Kind() == types.Int {
					return true
				}
			}
		}
	}
	return false
}

// loopOver classifies a recognised loop by the field its slice is loaded from.
func (a *anchors) loopOver(tm *termer, il *indexLoop) (field *types.Var, owner *term) {
	if il.slice == nil {
		return nil, nil
	}
	t := tm.of(il.slice)
	if t.op == "field" && (t.obj == a.fChildren || t.obj == a.fElements) {
		return t.obj.(*types.Var), strip(t.args[0])
	}
	return nil, nil
}

// skippable: can the latch/header be reached from the body entry without passing `must`,
// when the only branch outcomes allowed to skip it are the opposites of `allowed` guards?
func skippable(l *ssau.Loop, must *ssa.BasicBlock, allowed []guard) bool {
	body := l.Header.Succs[0]
	forbidden := map[[2]*ssa.BasicBlock]bool{}
	for _, g := range allowed {
		// the edge taken when the guard does NOT hold is a legitimate skip
		other := g.at.Succs[1]
		if !g.pol {
			other = g.at.Succs[0]
		}
		forbidden[[2]*ssa.BasicBlock{g.at, other}] = true
	}
	seen := map[*ssa.BasicBlock]bool{}
	stack := []*ssa.BasicBlock{body}
	for len(stack) > 0 {
		n := stack[len(stack)-1]
		stack = stack[:len(stack)-1]
		if n == must || seen[n] {
			continue
		}
		if n == l.Header {
			return true
		}
		seen[n] = true
		for _, s := range n.Succs {
			if forbidden[[2]*ssa.BasicBlock{n, s}] {
				continue
			}
			if !l.Blocks[s] {
				continue
			}
			stack = append(stack, s)
		}
	}
	return false
}

func (a *anchors) checkQueries() {
	c := a.c
	P := c.P
	R := c.R
	nPrune := 0
	for _, q := range a.queries() {
		fn := q.fn
		name := P.FuncName(fn)
		isCtl := P.IsControl(fn.Pos())
		rec := newRecorder(c, isCtl)
		tm := q.tm
		var childLoops, elemLoops []*indexLoop
		loopOf := map[*ssau.Loop]*indexLoop{}
		for _, l := range q.loops {
			il := recogniseIndexLoop(l)
			loopOf[l] = il
			f, owner := a.loopOver(tm, il)
			if il.why != "" {
				// is it a loop over children/elements at all? look at what it subscripts
				continue
			}
			if owner == nil || owner.op != "param" || owner.name != "#0" {
				continue
			}
			switch f {
			case a.fChildren:
				childLoops = append(childLoops, il)
			case a.fElements:
				elemLoops = append(elemLoops, il)
			}
		}
		// ---------------- CHILD-1 (children)
		var visitAtoms []*term // conjuncts under which a cell's content is visited
		var visitDesc []string
		childOK := true
		for _, call := range q.recursive {
			l := ssau.InnermostLoop(q.loops, call.Block())
			il := loopOf[l]
			if l == nil || il == nil {
				rec.violate("CHILD-1", name+"#children", call.Pos(), "the recursive call is not inside a loop over the node's children")
				childOK = false
				continue
			}
			if il.why != "" {
				rec.loopVerdict(il, "CHILD-1", name+"#children", call.Pos(), "the loop around the recursive call is not a recognised full-range loop: "+il.why)
				childOK = false
				continue
			}
			if f, owner := a.loopOver(tm, il); f != a.fChildren || owner == nil || owner.op != "param" || owner.name != "#0" {
				rec.violate("CHILD-1", name+"#children", call.Pos(), "the loop around the recursive call does not range over the receiver's children ("+tm.of(il.slice).String()+")")
				childOK = false
				continue
			}
			if ex := earlyExits(l); len(ex) > 0 {
				rec.violate("CHILD-1", name+"#children", call.Pos(), fmt.Sprintf("the loop over the children can be left early (from block %d): later children are never searched", ex[0].Index))
				childOK = false
				continue
			}
			// receiver of the recursive call = children[index]
			recv := strip(tm.of(call.Common().Args[0]))
			if recv.op != "elem" || recv.args[1].val != il.index || tm.of(il.slice).String() != recv.args[0].String() {
				rec.violate("CHILD-1", name+"#children", call.Pos(), "the recursive call is not made on children[i] of the loop's own index (receiver: "+recv.String()+")")
				childOK = false
				continue
			}
			// guards inside the loop
			var allowed []guard
			for _, g := range guardsOf(call.Block(), l.Blocks) {
				if g.at == l.Header {
					continue
				}
				t := tm.of(g.cond)
				if !g.pol {
					t = negate(t)
				}
				if isNilCheck(t) {
					allowed = append(allowed, g)
					continue
				}
				if h, n := a.holeOf(t); n == 1 && h.obj == a.fBounds {
					owner := strip(h.args[0])
					if owner.String() == recv.String() {
						allowed = append(allowed, g)
						visitAtoms = append(visitAtoms, t)
						visitDesc = append(visitDesc, "guard of the recursive call")
						continue
					}
				}
				rec.violate("CHILD-1", name+"#children", call.Pos(), "a child is skipped under a condition that is neither a nil check nor a predicate on that child's bounds: "+t.String())
				childOK = false
			}
			if skippable(l, call.Block(), allowed) {
				rec.violate("CHILD-1", name+"#children", call.Pos(), "an iteration over the children can complete without the recursive call although no nil check / bounds predicate excluded the child")
				childOK = false
			}
		}
		if childOK {
			rec.hold("CHILD-1", name+"#children", fn.Pos(), fmt.Sprintf("%d recursive call(s), each on children[i] inside a full-range loop without early exit; skips only by nil check / bounds predicate", len(q.recursive)))
		}
		// ---------------- emissions (elements)
		type emission struct {
			at  ssa.Instruction
			val ssa.Value
		}
		var emits []emission
		ssau.AllInstrs(fn, func(in ssa.Instruction) {
			call, ok := in.(*ssa.Call)
			if !ok {
				return
			}
			if _, vals, _, ok := appendedValues(call); ok && vals != nil {
				if sl, isSl := call.Type().Underlying().(*types.Slice); isSl {
					if b, isB := sl.Elem().Underlying().(*types.Basic); isB && b.Kind() == types.Int {
						for _, v := range vals {
							emits = append(emits, emission{call, v})
						}
					}
				}
				return
			}
			// iterator callback: a call of a function-typed parameter
			if p, ok := call.Common().Value.(*ssa.Parameter); ok && !call.Common().IsInvoke() {
				if _, isSig := p.Type().Underlying().(*types.Signature); isSig {
					for _, arg := range call.Common().Args {
						if b, isB := arg.Type().Underlying().(*types.Basic); isB && b.Kind() == types.Int {
							emits = append(emits, emission{call, arg})
						}
					}
				}
			}
		})
		var acceptAtoms []*term
		elemOK, identOK := true, true
		if len(emits) == 0 {
			rec.violate("IDENT-1", name, fn.Pos(), "the query never emits an element index of its own node")
			identOK = false
		}
		for _, em := range emits {
			l := ssau.InnermostLoop(q.loops, em.at.Block())
			il := loopOf[l]
			if l == nil || il == nil {
				rec.violate("CHILD-1", name+"#elements", em.at.Pos(), "an index is emitted outside a loop over the node's elements")
				elemOK = false
				continue
			}
			if il.why != "" {
				rec.loopVerdict(il, "CHILD-1", name+"#elements", em.at.Pos(), "the loop over the elements is not a recognised full-range loop: "+il.why)
				elemOK = false
				continue
			}
			if f, owner := a.loopOver(tm, il); f != a.fElements || owner == nil || owner.op != "param" || owner.name != "#0" {
				rec.violate("CHILD-1", name+"#elements", em.at.Pos(), "the loop that emits indices does not range over the receiver's elements ("+tm.of(il.slice).String()+")")
				elemOK = false
				continue
			}
			if ex := earlyExits(l); len(ex) > 0 {
				rec.violate("CHILD-1", name+"#elements", em.at.Pos(), fmt.Sprintf("the loop over the elements can be left early (from block %d): later elements are never tested", ex[0].Index))
				elemOK = false
			}
			// IDENT-1: the emitted value is elements[i].originalIndex of the loop's own index
			vt := tm.of(em.val)
			cur := func(t *term) bool {
				e := strip(t)
				return e.op == "elem" && e.args[1].val == il.index && e.args[0].String() == tm.of(il.slice).String()
			}
			if !(vt.op == "field" && vt.obj == a.fIndex && cur(vt.args[0])) {
				rec.violate("IDENT-1", name, em.at.Pos(), "the value emitted is "+vt.String()+", not the original index stored with the element under test (elements[i]."+a.fIndex.Name()+")")
				identOK = false
			}
			// accept guards
			var allowed []guard
			for _, g := range guardsOf(em.at.Block(), l.Blocks) {
				if g.at == l.Header {
					continue
				}
				t := tm.of(g.cond)
				if !g.pol {
					t = negate(t)
				}
				h, n := a.holeOf(t)
				if n == 1 && h.obj == a.fEBounds && cur(h.args[0]) {
					acceptAtoms = append(acceptAtoms, t)
					allowed = append(allowed, g)
					continue
				}
				rec.undecide("PRUNE-1", name, em.at.Pos(), "an element is accepted under a condition that is not a predicate on that element's bounds: "+t.String())
				elemOK = false
			}
			if skippable(l, em.at.Block(), allowed) {
				rec.violate("CHILD-1", name+"#elements", em.at.Pos(), "an iteration over the elements can complete without emitting the element although its bounds predicate did not reject it")
				elemOK = false
			}
		}
		if elemOK && len(emits) > 0 {
			rec.hold("CHILD-1", name+"#elements", fn.Pos(), fmt.Sprintf("%d emission site(s) inside a full-range loop over the receiver's elements without early exit", len(emits)))
		}
		// the []int results are built from emissions and recursive results only
		merged := map[*ssa.Call]bool{}
		if identOK {
			if why := a.resultProvenance(q, loopOf, merged); why != "" {
				if strings.HasPrefix(why, "?") {
					rec.undecide("IDENT-1", name, fn.Pos(), why[1:])
				} else {
					rec.violate("IDENT-1", name, fn.Pos(), why)
				}
				identOK = false
			}
		}
		if identOK && fn.Signature.Results().Len() > 0 {
			for _, rc := range q.recursive {
				if !merged[rc] {
					rec.violate("CHILD-1", name+"#children", rc.Pos(), "the indices found below a child are not merged into the result that is returned")
					identOK = false
				}
			}
		}
		if identOK {
			rec.hold("IDENT-1", name, fn.Pos(), fmt.Sprintf("%d emitted value(s) are loads of elements[i].%s; results are built only from them and from recursive results", len(emits), a.fIndex.Name()))
		}
		// ---------------- PRUNE-1: entry guards of the loops
		seenGuard := map[ssa.Value]bool{}
		pruneOK := true
		for _, il := range append(append([]*indexLoop{}, childLoops...), elemLoops...) {
			for _, g := range guardsOf(il.loop.Header, nil) {
				if il.loop.Blocks[g.at] || seenGuard[g.cond] {
					continue
				}
				// guards that belong to an enclosing loop are not entry guards
				if ssau.InnermostLoop(q.loops, g.at) != nil {
					continue
				}
				seenGuard[g.cond] = true
				t := tm.of(g.cond)
				if !g.pol {
					t = negate(t)
				}
				if isNilCheck(t) {
					continue
				}
				h, n := a.holeOf(t)
				if n == 1 && h.obj == a.fBounds {
					if o := strip(h.args[0]); o.op == "param" && o.name == "#0" {
						visitAtoms = append(visitAtoms, t)
						visitDesc = append(visitDesc, "entry test of the cell")
						continue
					}
				}
				rec.undecide("PRUNE-1", name, g.cond.Pos(), "the cell's content is visited only under a condition the rule does not understand: "+t.String())
				pruneOK = false
			}
		}
		accepted := map[string]bool{}
		var accList []string
		for _, t := range acceptAtoms {
			h, _ := a.holeOf(t)
			s := t.render(h)
			if !accepted[s] {
				accepted[s] = true
				accList = append(accList, s)
			}
		}
		sort.Strings(accList)
		for i, t := range visitAtoms {
			h, _ := a.holeOf(t)
			s := t.render(h)
			if !accepted[s] {
				rec.violate("PRUNE-1", name, fn.Pos(), fmt.Sprintf("%s requires %s of the cell bounds □, but elements are accepted under {%s}: the cell test is not the element test applied to the cell (an element on the boundary of the difference is lost or pruning is unsound)", visitDesc[i], s, strings.Join(accList, "; ")))
				pruneOK = false
			}
		}
		if pruneOK {
			if len(visitAtoms) > 0 {
				if !isCtl {
					nPrune++
				}
				rec.hold("PRUNE-1", name, fn.Pos(), fmt.Sprintf("%d cell test(s) equal the element test with the cell bounds substituted: %s", len(visitAtoms), strings.Join(accList, "; ")))
			} else if !isCtl {
				c.R.Note("PRUNE-1: %s prunes no cell (nothing to compare)", name)
			}
		}
		rec.finishControl(name)
	}
	R.Extra["prune1_queries_with_cell_tests"] = nPrune
}

// resultProvenance checks that every []int the query returns (or stores in a receiver
// buffer) is built from: nil / empty, emissions, and results of the recursive call.
// Returns "" if fine, "?…" if undecided, otherwise a violation message.
func (a *anchors) resultProvenance(q *query, loopOf map[*ssau.Loop]*indexLoop, merged map[*ssa.Call]bool) string {
	fn := q.fn
	isIntSlice := func(t types.Type) bool {
		sl, ok := t.Underlying().(*types.Slice)
		if !ok {
			return false
		}
		b, ok := sl.Elem().Underlying().(*types.Basic)
		return ok && b.Kind() == types.Int
	}
	var work []ssa.Value
	ssau.AllInstrs(fn, func(in ssa.Instruction) {
		if r, ok := in.(*ssa.Return); ok {
			for _, v := range r.Results {
				if isIntSlice(v.Type()) {
					work = append(work, v)
				}
			}
		}
	})
	seen := map[ssa.Value]bool{}
	for len(work) > 0 {
		v := work[len(work)-1]
		work = work[:len(work)-1]
		if seen[v] {
			continue
		}
		seen[v] = true
		switch x := v.(type) {
		case *ssa.Const:
			if x.Value != nil {
				return "?unexpected constant result"
			}
		case *ssa.Phi:
			work = append(work, x.Edges...)
		case *ssa.Slice:
			// s[:0] of a buffer, or the empty-slice literal
			if al, ok := x.X.(*ssa.Alloc); ok {
				if at, ok := al.Type().Underlying().(*types.Pointer).Elem().Underlying().(*types.Array); ok && at.Len() == 0 {
					continue
				}
				return "the result starts from a non-empty array literal"
			}
			if x.High != nil && isConstInt(x.High, 0) {
				continue // buffer[:0]: reuse of storage, no old content visible
			}
			work = append(work, x.X)
		case *ssa.MakeSlice:
			if !isConstInt(x.Len, 0) {
				return "the result is made with a non-zero length: it starts with fabricated zero indices"
			}
		case *ssa.Call:
			if base, vals, spread, ok := appendedValues(x); ok {
				work = append(work, base)
				if vals == nil {
					// append(base, s...): s must be the result of the recursive call
					sc, isCall := spread.(*ssa.Call)
					if !isCall || sc.Common().StaticCallee() != fn {
						work = append(work, spread)
					} else {
						merged[sc] = true
					}
				}
				continue
			}
			if x.Common().StaticCallee() == fn {
				merged[x] = true
				continue
			}
			return "?a result slice comes from " + q.tm.of(x).String()
		case *ssa.UnOp:
			// load of a receiver buffer field: follow what this function stores there
			if x.Op == token.MUL {
				if fa, ok := x.X.(*ssa.FieldAddr); ok {
					// persistent storage of the receiver: it must have been emptied by this call before it is read
					reset := false
					ssau.AllInstrs(fn, func(in ssa.Instruction) {
						st, ok := in.(*ssa.Store)
						if !ok {
							return
						}
						fa2, ok := st.Addr.(*ssa.FieldAddr)
						if !ok || fa2.Field != fa.Field || fa2.X != fa.X {
							return
						}
						empty := isNilConst(st.Val)
						if sl, isSl := st.Val.(*ssa.Slice); isSl && sl.High != nil && isConstInt(sl.High, 0) {
							empty = true
						}
						if ms, isMS := st.Val.(*ssa.MakeSlice); isMS && isConstInt(ms.Len, 0) {
							empty = true
						}
						if empty && ssau.Before(st, x) {
							reset = true
						}
					})
					if !reset {
						return "the results are collected in the receiver's field " + q.tm.of(x).String() + " without emptying it first: indices found by a previous query are returned again"
					}
					found := false
					ssau.AllInstrs(fn, func(in ssa.Instruction) {
						if st, ok := in.(*ssa.Store); ok {
							if fa2, ok := st.Addr.(*ssa.FieldAddr); ok && fa2.Field == fa.Field && fa2.X == fa.X {
								work = append(work, st.Val)
								found = true
							}
						}
					})
					if found {
						continue
					}
				}
			}
			return "?a result slice is loaded from " + q.tm.of(x).String()
		case *ssa.Parameter:
			// accumulator handed down the recursion: inside the query it is the query's own running result; every
			// other caller must start it empty (nil, make([]int, 0), buf[:0])
			idx := -1
			for i, p := range fn.Params {
				if p == x {
					idx = i
				}
			}
			sites := 0
			bad := ""
			for _, g := range a.fns {
				ssau.AllInstrs(g, func(in ssa.Instruction) {
					call, ok := in.(ssa.CallInstruction)
					if !ok || call.Common().StaticCallee() != fn || idx < 0 || idx >= len(call.Common().Args) {
						return
					}
					sites++
					arg := call.Common().Args[idx]
					if g == fn {
						// the recursive call continues the running result: every value it can be handed is the
						// accumulator itself, extended by appends or by earlier recursive calls — never a fresh slice
						// (which would drop what was collected so far)
						chain := []ssa.Value{arg}
						cseen := map[ssa.Value]bool{}
						for len(chain) > 0 {
							y := chain[len(chain)-1]
							chain = chain[:len(chain)-1]
							if cseen[y] {
								continue
							}
							cseen[y] = true
							switch z := y.(type) {
							case *ssa.Parameter:
								if z != x && bad == "" {
									bad = "!the recursive call is handed " + q.tm.of(z).String() + ", not the running result"
								}
							case *ssa.Phi:
								chain = append(chain, z.Edges...)
							case *ssa.Call:
								if base, _, _, ok := appendedValues(z); ok {
									chain = append(chain, base)
								} else if z.Common().StaticCallee() != fn && bad == "" {
									bad = "!the recursive call is handed " + q.tm.of(z).String() + ", not the running result"
								}
							default:
								if bad == "" {
									bad = "!the recursive call restarts the result (" + q.tm.of(y).String() + "): the indices collected so far are dropped"
								}
							}
						}
						work = append(work, arg)
						return
					}
					empty := isNilConst(arg)
					if ms, ok := arg.(*ssa.MakeSlice); ok && isConstInt(ms.Len, 0) {
						empty = true
					}
					if sl, ok := arg.(*ssa.Slice); ok && sl.High != nil && isConstInt(sl.High, 0) {
						empty = true
					}
					if !empty && bad == "" {
						bad = "the accumulator " + g.Name() + " hands to " + fn.Name() + " is not empty (nil, make([]int, 0) or buf[:0]): " + q.tm.of(arg).String()
					}
				})
			}
			if sites == 0 || idx < 0 {
				return "?a result slice is produced by " + q.tm.of(v).String() + " and no caller in the package was found"
			}
			if strings.HasPrefix(bad, "!") {
				return bad[1:]
			}
			if bad != "" {
				return "?" + bad
			}
		default:
			return "?a result slice is produced by " + q.tm.of(v).String()
		}
	}
	return ""
}

// ---------------------------------------------------------------- ORD-3 / KEY-1

type itemLit struct {
	fn     *ssa.Function
	alloc  *ssa.Alloc
	fields map[*types.Var]ssa.Value
	pos    token.Pos
}

func (a *anchors) itemLiterals() []*itemLit {
	var out []*itemLit
	for _, fn := range a.fns {
		ssau.AllInstrs(fn, func(in ssa.Instruction) {
			al, ok := in.(*ssa.Alloc)
			if !ok {
				return
			}
			el := al.Type().Underlying().(*types.Pointer).Elem()
			if !sameNamed(el, a.item) {
				return
			}
			lit := &itemLit{fn: fn, alloc: al, fields: map[*types.Var]ssa.Value{}, pos: al.Pos()}
			for _, r := range ssau.Refs(al) {
				fa, ok := r.(*ssa.FieldAddr)
				if !ok || fa.X != al {
					continue
				}
				fv := ssau.FieldOf(fa)
				for _, r2 := range ssau.Refs(fa) {
					if st, ok := r2.(*ssa.Store); ok && st.Addr == fa {
						lit.fields[fv] = st.Val
						if !lit.pos.IsValid() {
							lit.pos = st.Pos()
						}
					}
				}
			}
			if len(lit.fields) > 0 {
				out = append(out, lit)
			}
		})
		// element stores pq[k] = item{…} build the literal in place: stores through IndexAddr + FieldAddr
		ssau.AllInstrs(fn, func(in ssa.Instruction) {
			ia, ok := in.(*ssa.IndexAddr)
			if !ok {
				return
			}
			pt, ok := ia.Type().Underlying().(*types.Pointer)
			if !ok || !sameNamed(pt.Elem(), a.item) {
				return
			}
			lit := &itemLit{fn: fn, fields: map[*types.Var]ssa.Value{}, pos: ia.Pos()}
			for _, r := range ssau.Refs(ia) {
				fa, ok := r.(*ssa.FieldAddr)
				if !ok {
					continue
				}
				fv := ssau.FieldOf(fa)
				for _, r2 := range ssau.Refs(fa) {
					if st, ok := r2.(*ssa.Store); ok && st.Addr == fa {
						lit.fields[fv] = st.Val
					}
				}
			}
			if len(lit.fields) > 0 {
				out = append(out, lit)
			}
		})
	}
	return out
}

func isZeroConst(v ssa.Value) bool {
	c, ok := v.(*ssa.Const)
	if !ok || c.Value == nil {
		return false
	}
	return c.Value.ExactString() == "0"
}

func isNilConst(v ssa.Value) bool {
	c, ok := v.(*ssa.Const)
	return ok && c.Value == nil
}

func (a *anchors) checkKeys() {
	c := a.c
	P := c.P
	lits := a.itemLiterals()
	classes := map[string][]string{} // callee -> sites
	nRepo := 0
	ctl := map[string]*recorder{}
	for _, lit := range lits {
		isCtl := P.IsControl(lit.fn.Pos())
		name := P.FuncName(lit.fn)
		var rec *recorder
		if isCtl {
			if ctl[name] == nil {
				ctl[name] = newRecorder(c, true)
			}
			rec = ctl[name]
		} else {
			rec = newRecorder(c, false)
			nRepo++
		}
		tm := newTermer(lit.fn)
		site := fmt.Sprintf("%s→%s@%s", name, a.item.Obj().Name(), roleOf(a, lit))
		pos := lit.pos
		if !pos.IsValid() {
			pos = lit.fn.Pos()
		}
		kv, ok := lit.fields[a.fKey]
		isCell := roleOf(a, lit) == "root" || roleOf(a, lit) == "child"
		if !ok || isZeroConst(kv) {
			if isCell {
				// 0 is a (trivial) lower bound of every distance inside the cell: best-first search stays exact
				rec.hold("KEY-1", site, pos, "cell key 0: a trivial lower bound")
			} else {
				rec.violate("KEY-1", site, pos, "an element is queued without its distance as priority key (it sorts as 0, before every nearer cell and element)")
			}
			continue
		}
		kt := tm.of(kv)
		// the key is dist(P, q)
		if kt.op != "call" || kt.obj == nil || !isDistanceFn(kt.obj) || len(kt.args) != 2 {
			rec.undecide("ORD-3", site, pos, "the priority key is not a direct distance call: "+kt.String())
			continue
		}
		callee := kt.obj.(*types.Func).Name()
		if !isCtl {
			classes[callee] = append(classes[callee], site)
		} else {
			// controls are judged against the repository's class below
			rec.note = callee
		}
		pt, qt := kt.args[0], kt.args[1]
		if qt.op != "param" {
			// allow dist(q, P)
			if pt.op == "param" {
				pt, qt = qt, pt
			} else {
				rec.undecide("KEY-1", site, pos, "neither operand of the key's distance is the query parameter: "+kt.String())
				continue
			}
		}
		cellV, hasCell := lit.fields[a.fCell]
		elemV, hasElem := lit.fields[a.fElemPtr]
		hasCell = hasCell && !isNilConst(cellV)
		hasElem = hasElem && !isNilConst(elemV)
		switch {
		case hasCell == hasElem:
			rec.undecide("KEY-1", site, pos, "a queue item must name exactly one of cell / element")
		case hasCell:
			// P = AABB.ClosestPoint(cell.bounds, q)
			okShape := pt.op == "call" && pt.obj != nil && ssau.IsMethod(pt.obj.(*types.Func), geomPath, "AABB", "ClosestPoint") && len(pt.args) == 2
			if !okShape {
				rec.violate("KEY-1", site, pos, "the key of a cell is not the distance from the query to the closest point of the cell's bounds (it is "+kt.String()+"): it is not a lower bound for the elements inside, so best-first search may return a farther element")
				continue
			}
			b := pt.args[0]
			if !(b.op == "field" && b.obj == a.fBounds) || strip(b.args[0]).String() != strip(tm.of(cellV)).String() {
				rec.violate("KEY-1", site, pos, "the key of a cell is computed from "+b.String()+", not from the bounds of the cell that is queued ("+strip(tm.of(cellV)).String()+")")
				continue
			}
			if pt.args[1].String() != qt.String() {
				rec.violate("KEY-1", site, pos, "the closest point is taken for "+pt.args[1].String()+" but the distance is measured to "+qt.String())
				continue
			}
			rec.hold("KEY-1", site, pos, "cell key = "+callee+"(cell.bounds.ClosestPoint(q), q)")
		default:
			// P = element.primitive.ClosestPoint(q); point = P
			okShape := pt.op == "invoke" && pt.name == "ClosestPoint" && len(pt.args) == 2
			if !okShape {
				rec.violate("KEY-1", site, pos, "the key of an element is not the distance from the query to the primitive's closest point (it is "+kt.String()+")")
				continue
			}
			pr := pt.args[0]
			if !(pr.op == "field" && pr.obj == a.fPrim) || strip(pr.args[0]).String() != strip(tm.of(elemV)).String() {
				rec.violate("KEY-1", site, pos, "the key of an element is computed from "+pr.String()+", not from the primitive of the element that is queued ("+strip(tm.of(elemV)).String()+")")
				continue
			}
			if pt.args[1].String() != qt.String() {
				rec.violate("KEY-1", site, pos, "the closest point is taken for "+pt.args[1].String()+" but the distance is measured to "+qt.String())
				continue
			}
			pv, hasPoint := lit.fields[a.fPoint]
			if !hasPoint || tm.of(pv).String() != pt.String() {
				got := "nothing"
				if hasPoint {
					got = tm.of(pv).String()
				}
				rec.violate("KEY-1", site, pos, "the point stored with the element ("+got+") is not the point its key was measured from ("+pt.String()+")")
				continue
			}
			rec.hold("KEY-1", site, pos, "element key = "+callee+"(element.primitive.ClosestPoint(q), q), stored point = that closest point")
		}
	}
	// ORD-3: homogeneity over the repository's sites
	var cs []string
	for k := range classes {
		cs = append(cs, k)
	}
	sort.Strings(cs)
	construct := "trees." + a.item.Obj().Name() + "." + a.fKey.Name()
	if len(cs) > 1 {
		var detail []string
		for _, k := range cs {
			detail = append(detail, k+": "+strings.Join(classes[k], ", "))
		}
		c.R.Violate("ORD-3", construct, P.Pos(a.fKey.Pos()), "priority keys of one queue mix distance functions ("+strings.Join(cs, " and ")+"): squared and plain distances do not order consistently", detail...)
	} else if len(cs) == 1 {
		c.R.Hold("ORD-3", construct, P.Pos(a.fKey.Pos()), append([]string{fmt.Sprintf("all %d key stores use %s", len(classes[cs[0]]), cs[0])}, classes[cs[0]]...)...)
	}
	c.R.Extra["key1_item_constructions"] = nRepo
	// controls: a control is "bad" if its recorder saw a violation or it uses another distance function
	var names []string
	for n := range ctl {
		names = append(names, n)
	}
	sort.Strings(names)
	for _, n := range names {
		r := ctl[n]
		// a control that uses distance function X is a seeded defect iff the repository uses another one
		for _, k := range cs {
			if strings.Contains(n, "verifControlORD") && r.note != "" && r.note != k {
				r.violations++
				break
			}
		}
		r.finishControl(n)
	}
}

func roleOf(a *anchors, lit *itemLit) string {
	if v, ok := lit.fields[a.fElemPtr]; ok && !isNilConst(v) {
		return "element"
	}
	if v, ok := lit.fields[a.fCell]; ok && !isNilConst(v) {
		// root or child?
		if _, isAlloc := v.(*ssa.Alloc); isAlloc {
			return "root"
		}
		return "child"
	}
	return "item"
}

func isDistanceFn(o types.Object) bool {
	f, ok := o.(*types.Func)
	if !ok {
		return false
	}
	for _, n := range []string{"DistanceSquared", "Distance"} {
		if ssau.IsMethod(f, vecModule+"/vector3", "Vector", n) {
			return true
		}
	}
	return false
}

// ---------------------------------------------------------------- best-first query (queue): IDENT-1 / CHILD-1 on the pop side

func (a *anchors) checkQueueQueries() {
	c := a.c
	P := c.P
	byFn := map[*ssa.Function][]*itemLit{}
	var order []*ssa.Function
	for _, lit := range a.itemLiterals() {
		if byFn[lit.fn] == nil {
			order = append(order, lit.fn)
		}
		byFn[lit.fn] = append(byFn[lit.fn], lit)
	}
	n := 0
	for _, fn := range order {
		// only functions that return an index (the query itself), not helpers that build one item
		res := fn.Signature.Results()
		if res.Len() < 1 {
			continue
		}
		if b, ok := res.At(0).Type().Underlying().(*types.Basic); !ok || b.Kind() != types.Int {
			continue
		}
		isCtl := P.IsControl(fn.Pos())
		rec := newRecorder(c, isCtl)
		name := P.FuncName(fn)
		tm := newTermer(fn)
		loops := ssau.Loops(fn)
		if !isCtl {
			n++
		}
		// IDENT-1: the index returned is the popped item's element's original index (or a negative constant)
		identOK := true
		ssau.AllInstrs(fn, func(in ssa.Instruction) {
			ret, ok := in.(*ssa.Return)
			if !ok || len(ret.Results) < 1 {
				return
			}
			t := tm.of(ret.Results[0])
			if t.op == "const" {
				if strings.HasPrefix(t.name, "-") {
					return
				}
				rec.violate("IDENT-1", name, ret.Pos(), "the query returns the constant index "+t.name)
				identOK = false
				return
			}
			ok2 := t.op == "field" && t.obj == a.fIndex
			var item *term
			if ok2 {
				e := strip(t.args[0])
				ok2 = e.op == "field" && e.obj == a.fElemPtr
				if ok2 {
					item = strip(e.args[0])
				}
			}
			if !ok2 {
				rec.violate("IDENT-1", name, ret.Pos(), "the index returned is "+t.String()+", not the original index of the element taken from the queue")
				identOK = false
				return
			}
			if len(ret.Results) >= 2 && isVector3(ret.Results[1].Type()) {
				pt := tm.of(ret.Results[1])
				if !(pt.op == "field" && pt.obj == a.fPoint && strip(pt.args[0]).String() == item.String()) {
					rec.violate("IDENT-1", name, ret.Pos(), "the point returned ("+pt.String()+") does not come from the same queue item as the index")
					identOK = false
				}
			}
		})
		if identOK {
			rec.hold("IDENT-1", name, fn.Pos(), "returns (item.element."+a.fIndex.Name()+", item.point) of one popped item, or a negative constant")
		}
		// CHILD-1: every child and every element of a popped cell is queued
		roles := map[string]bool{}
		ok := true
		for _, lit := range byFn[fn] {
			role := roleOf(a, lit)
			if role != "child" && role != "element" {
				continue
			}
			var at *ssa.BasicBlock
			var pos token.Pos
			if lit.alloc != nil {
				at, pos = lit.alloc.Block(), lit.alloc.Pos()
			} else {
				continue
			}
			l := ssau.InnermostLoop(loops, at)
			if l == nil {
				rec.violate("CHILD-1", name+"#"+role, pos, "a "+role+" is queued outside a loop over the popped cell's "+role+"s")
				ok = false
				continue
			}
			il := recogniseIndexLoop(l)
			if il.why != "" {
				rec.loopVerdict(il, "CHILD-1", name+"#"+role, pos, "the loop that queues the "+role+"s is not a recognised full-range loop: "+il.why)
				ok = false
				continue
			}
			st := tm.of(il.slice)
			wantField := a.fChildren
			if role == "element" {
				wantField = a.fElements
			}
			if !(st.op == "field" && st.obj == wantField) {
				rec.violate("CHILD-1", name+"#"+role, pos, "the loop that queues "+role+"s ranges over "+st.String())
				ok = false
				continue
			}
			// what is queued is slice[i]
			var qv ssa.Value
			if role == "child" {
				qv = lit.fields[a.fCell]
			} else {
				qv = lit.fields[a.fElemPtr]
			}
			if !curElem(tm, il, tm.of(qv)) {
				rec.violate("CHILD-1", name+"#"+role, pos, "the "+role+" queued is "+strip(tm.of(qv)).String()+", not the one under the loop index")
				ok = false
				continue
			}
			if ex := earlyExits(l); len(ex) > 0 {
				rec.violate("CHILD-1", name+"#"+role, pos, fmt.Sprintf("the loop that queues the %ss can be left early (block %d): later %ss are never considered", role, ex[0].Index, role))
				ok = false
				continue
			}
			var allowed []guard
			for _, g := range guardsOf(at, l.Blocks) {
				if g.at == l.Header {
					continue
				}
				t := tm.of(g.cond)
				if !g.pol {
					t = negate(t)
				}
				if isNilCheck(t) {
					allowed = append(allowed, g)
					continue
				}
				rec.violate("CHILD-1", name+"#"+role, pos, "a "+role+" is queued only under "+t.String()+" (only a nil check may skip one)")
				ok = false
			}
			if skippable(l, at, allowed) {
				rec.violate("CHILD-1", name+"#"+role, pos, "an iteration can complete without queueing the "+role)
				ok = false
			}
			// the item built must actually be pushed
			pushed := false
			for _, r := range ssau.Refs(lit.alloc) {
				if ld, isLoad := r.(*ssa.UnOp); isLoad && ld.Op == token.MUL {
					for _, r2 := range ssau.Refs(ld) {
						switch u := r2.(type) {
						case *ssa.MakeInterface:
							for _, r3 := range ssau.Refs(u) {
								if _, isCall := r3.(*ssa.Call); isCall {
									pushed = true
								}
							}
						case *ssa.Call, *ssa.Store:
							pushed = true
						}
					}
				}
			}
			if !pushed {
				rec.violate("CHILD-1", name+"#"+role, pos, "the item built for the "+role+" is never pushed on the queue")
				ok = false
			}
			roles[role] = true
		}
		for _, role := range []string{"child", "element"} {
			if !roles[role] && ok {
				rec.violate("CHILD-1", name+"#"+role, fn.Pos(), "the best-first search never queues the "+role+"s of a popped cell")
				ok = false
			}
		}
		if ok {
			rec.hold("CHILD-1", name+"#queue", fn.Pos(), "every non-nil child and every element of a popped cell is queued (full-range loops, no early exit)")
		}
		rec.finishControl(name)
	}
	c.R.Extra["queue_queries"] = n
}

// ---------------------------------------------------------------- HEAP-1: the queue honours container/heap's contract

// checkHeap: Less orders by the key with <, Push appends its argument, Pop removes and returns the
// last element, and queries add/remove items only through container/heap.
func (a *anchors) checkHeap() {
	c := a.c
	P := c.P
	// the named queue type: slice of item with Less
	var queue *types.Named
	scope := a.pkg.Pkg.Scope()
	for _, nm := range scope.Names() {
		tn, ok := scope.Lookup(nm).(*types.TypeName)
		if !ok || P.IsControl(tn.Pos()) {
			continue
		}
		named, ok := tn.Type().(*types.Named)
		if !ok {
			continue
		}
		if sl, ok := named.Underlying().(*types.Slice); ok && sameNamed(sl.Elem(), a.item) {
			queue = named
		}
	}
	if queue == nil {
		c.R.Failf("anchor: no named slice type of %s found", a.item.Obj().Name())
		return
	}
	method := func(name string) *ssa.Function {
		for i := 0; i < queue.NumMethods(); i++ {
			if queue.Method(i).Name() == name {
				return P.SSA.FuncValue(queue.Method(i))
			}
		}
		return nil
	}
	qn := "trees." + queue.Obj().Name()
	// Less
	if fn := method("Less"); fn != nil && fn.Blocks != nil {
		tm := newTermer(fn)
		ok := false
		var got string
		ssau.AllInstrs(fn, func(in ssa.Instruction) {
			ret, isRet := in.(*ssa.Return)
			if !isRet || len(ret.Results) != 1 {
				return
			}
			t := tm.of(ret.Results[0])
			got = t.String()
			if t.op == "cmp" && t.name == "<" {
				l, r := t.args[0], t.args[1]
				if l.op == "field" && r.op == "field" && l.obj == a.fKey && r.obj == a.fKey {
					le, re := strip(l.args[0]), strip(r.args[0])
					if le.op == "elem" && re.op == "elem" && le.args[1].String() == "param:#1" && re.args[1].String() == "param:#2" &&
						strip(le.args[0]).String() == "param:#0" && strip(re.args[0]).String() == "param:#0" {
						ok = true
					}
				}
			}
		})
		if ok {
			c.R.Hold("HEAP-1", qn+".Less", P.Pos(fn.Pos()), "Less(i,j) = q[i]."+a.fKey.Name()+" < q[j]."+a.fKey.Name()+" (min-heap on the key)")
		} else {
			c.R.Violate("HEAP-1", qn+".Less", P.Pos(fn.Pos()), "Less(i,j) is "+got+", not q[i]."+a.fKey.Name()+" < q[j]."+a.fKey.Name()+": the queue does not pop the nearest item first, so the first element popped is not the closest")
		}
	} else {
		c.R.Failf("anchor: %s.Less has no body", qn)
	}
	// Push
	if fn := method("Push"); fn != nil && fn.Blocks != nil {
		tm := newTermer(fn)
		ok := false
		ssau.AllInstrs(fn, func(in ssa.Instruction) {
			st, isSt := in.(*ssa.Store)
			if !isSt || st.Addr != ssa.Value(fn.Params[0]) {
				return
			}
			call, isCall := st.Val.(*ssa.Call)
			if !isCall {
				return
			}
			base, vals, _, okA := appendedValues(call)
			if okA && len(vals) == 1 && strip(tm.of(base)).String() == "param:#0" {
				v := tm.of(vals[0])
				if v.op == "assert" && v.args[0].String() == "param:#1" {
					ok = true
				}
			}
		})
		if ok {
			c.R.Hold("HEAP-1", qn+".Push", P.Pos(fn.Pos()), "Push(x) appends x at the end")
		} else {
			c.R.Violate("HEAP-1", qn+".Push", P.Pos(fn.Pos()), "Push(x) does not store append(*q, x) back: container/heap expects the new item at index Len()-1")
		}
	}
	// Pop
	if fn := method("Pop"); fn != nil && fn.Blocks != nil {
		tm := newTermer(fn)
		retOK, shrinkOK := false, false
		lenQ := "len:(param:#0)"
		last := "bin:-(" + lenQ + ", const:1)"
		ssau.AllInstrs(fn, func(in ssa.Instruction) {
			switch x := in.(type) {
			case *ssa.Return:
				if len(x.Results) == 1 {
					t := strip(tm.of(x.Results[0]))
					if t.op == "elem" && strip(t.args[0]).String() == "param:#0" && normLen(t.args[1].String()) == last {
						retOK = true
					}
				}
			case *ssa.Store:
				if x.Addr == ssa.Value(fn.Params[0]) {
					t := tm.of(x.Val)
					if t.op == "slice" && strip(t.args[0]).String() == "param:#0" && (t.args[1].op == "nil" || t.args[1].String() == "const:0") && normLen(t.args[2].String()) == last {
						shrinkOK = true
					}
				}
			}
		})
		if retOK && shrinkOK {
			c.R.Hold("HEAP-1", qn+".Pop", P.Pos(fn.Pos()), "Pop() returns q[len-1] and stores q[:len-1]")
		} else {
			c.R.Violate("HEAP-1", qn+".Pop", P.Pos(fn.Pos()), fmt.Sprintf("Pop() must return the last element and shrink the queue by it (returns last: %v, stores q[:len-1]: %v): container/heap moves the minimum there before calling Pop", retOK, shrinkOK))
		}
	}
	// queries use the queue only through container/heap
	direct := 0
	for _, fn := range a.fns {
		if P.IsControl(fn.Pos()) {
			continue
		}
		if fn.Signature.Recv() != nil {
			if n := ssau.NamedOf(fn.Signature.Recv().Type()); n != nil && n.Obj() == queue.Obj() {
				continue
			}
		}
		ssau.AllInstrs(fn, func(in ssa.Instruction) {
			call, ok := in.(*ssa.Call)
			if !ok {
				return
			}
			obj := ssau.CalleeObj(call)
			if obj == nil {
				return
			}
			if n := ssau.RecvNamed(obj); n != nil && n.Obj() == queue.Obj() && (obj.Name() == "Pop" || obj.Name() == "Push") {
				direct++
				c.R.Violate("HEAP-1", P.FuncName(fn)+"→"+queue.Obj().Name()+"."+obj.Name(), P.Pos(call.Pos()), "the queue's own "+obj.Name()+" is called directly instead of container/heap."+obj.Name()+": the heap order is not restored, the next item popped is not the nearest")
			}
		})
	}
	if direct == 0 {
		c.R.Hold("HEAP-1", qn+"#clients", P.Pos(queue.Obj().Pos()), "no function calls the queue's Push/Pop directly (only container/heap does)")
	}
	c.R.Floor("HEAP-1", 3)
}

// normLen removes address-of / dereference wrappers around atoms in a rendered term.
func normLen(s string) string {
	for {
		n := wrapRE.ReplaceAllString(s, "$2")
		if n == s {
			return s
		}
		s = n
	}
}

var wrapRE = regexp.MustCompile(`(addr|deref):\(([^()]*)\)`)
