package c16

// Structural terms over go/ssa values, guards of a block, and the full-range
// index loop recogniser. Terms are keyed by type-resolved objects (callee
// *types.Func, field *types.Var, parameter position), never by local names.

import (
	"fmt"
	"go/token"
	"go/types"
	"sort"
	"strings"

	"golang.org/x/tools/go/ssa"

	"polycheck/ssau"
)

type term struct {
	op   string // param const nil call invoke dyncall field elem not cmp bin neg len slice addr phi local zero assert extract global freevar unknown
	name string
	obj  types.Object
	args []*term
	typ  types.Type
	val  ssa.Value
}

func (t *term) String() string { return t.render(nil) }

// render prints the term; the subterm `hole` (pointer identity) prints as □.
func (t *term) render(hole *term) string {
	if t == nil {
		return "?"
	}
	if t == hole {
		return "□"
	}
	var parts []string
	for _, a := range t.args {
		parts = append(parts, a.render(hole))
	}
	switch t.op {
	case "param", "const", "global", "freevar", "unknown", "zero", "nil":
		return t.op + ":" + t.name
	case "field":
		return parts[0] + "." + t.name
	case "elem":
		if len(t.args) > 1 && t.args[1].op == "const" {
			return parts[0] + "[" + t.args[1].name + "]"
		}
		return parts[0] + "[·]"
	case "not":
		return "!(" + parts[0] + ")"
	case "cmp":
		return "(" + parts[0] + " " + t.name + " " + parts[1] + ")"
	}
	return t.op + ":" + t.name + "(" + strings.Join(parts, ", ") + ")"
}

type termer struct {
	fn    *ssa.Function
	memo  map[ssa.Value]*term
	depth int
	// subst: parameter terms of an inlined single-block helper; inl: inlining depth
	subst map[*ssa.Parameter]*term
	inl   int
	// stores by address value
	stores map[ssa.Value][]*ssa.Store
}

func newTermer(fn *ssa.Function) *termer {
	t := &termer{fn: fn, memo: map[ssa.Value]*term{}, stores: map[ssa.Value][]*ssa.Store{}}
	ssau.AllInstrs(fn, func(in ssa.Instruction) {
		if s, ok := in.(*ssa.Store); ok {
			t.stores[s.Addr] = append(t.stores[s.Addr], s)
		}
	})
	return t
}

func (tm *termer) of(v ssa.Value) *term {
	if t, ok := tm.memo[v]; ok {
		if t == nil {
			return &term{op: "unknown", name: "cycle", val: v, typ: v.Type()}
		}
		return t
	}
	tm.memo[v] = nil
	tm.depth++
	var t *term
	if tm.depth > 40 {
		t = &term{op: "unknown", name: "deep", val: v, typ: v.Type()}
	} else {
		t = tm.build(v)
	}
	tm.depth--
	if t.val == nil {
		t.val = v
	}
	if t.typ == nil {
		t.typ = v.Type()
	}
	tm.memo[v] = t
	return t
}

func fieldVar(t types.Type, i int) *types.Var {
	if p, ok := t.Underlying().(*types.Pointer); ok {
		t = p.Elem()
	}
	if st, ok := t.Underlying().(*types.Struct); ok && i < st.NumFields() {
		return st.Field(i)
	}
	return nil
}

// allocValue: the term of what a local cell holds when read, if all whole-cell stores agree.
func (tm *termer) allocValue(a *ssa.Alloc) *term {
	sts := tm.stores[a]
	if len(sts) == 0 {
		return &term{op: "zero", name: a.Comment, typ: a.Type().Underlying().(*types.Pointer).Elem()}
	}
	first := tm.of(sts[0].Val)
	for _, s := range sts[1:] {
		if tm.of(s.Val).String() != first.String() {
			var alts []string
			for _, s2 := range sts {
				alts = append(alts, tm.of(s2.Val).String())
			}
			sort.Strings(alts)
			return &term{op: "local", name: strings.Join(uniq(alts), "|"), typ: first.typ}
		}
	}
	return first
}

func uniq(s []string) []string {
	var out []string
	for i, x := range s {
		if i == 0 || x != s[i-1] {
			out = append(out, x)
		}
	}
	return out
}

// loadFrom: the term of *addr.
func (tm *termer) loadFrom(addr ssa.Value) *term {
	switch a := addr.(type) {
	case *ssa.Alloc:
		return tm.allocValue(a)
	case *ssa.FieldAddr:
		fv := fieldVar(a.X.Type(), a.Field)
		name := fmt.Sprint(a.Field)
		if fv != nil {
			name = fv.Name()
		}
		// composite literal / field assignment on a local: the value stored into this very field
		if base, ok := a.X.(*ssa.Alloc); ok {
			var vals []*term
			for addr2, sts := range tm.stores {
				if fa, ok := addr2.(*ssa.FieldAddr); ok && fa.X == base && fa.Field == a.Field {
					for _, s := range sts {
						vals = append(vals, tm.of(s.Val))
					}
				}
			}
			if len(vals) > 0 && len(tm.stores[base]) == 0 {
				sort.Slice(vals, func(i, j int) bool { return vals[i].String() < vals[j].String() })
				if len(vals) == 1 || vals[0].String() == vals[len(vals)-1].String() {
					return vals[0]
				}
			}
			if len(vals) == 0 {
				return &term{op: "field", name: name, obj: fv, args: []*term{tm.allocValue(base)}}
			}
			return &term{op: "field", name: name, obj: fv, args: []*term{{op: "local", name: base.Comment}}}
		}
		return &term{op: "field", name: name, obj: fv, args: []*term{tm.loadFrom(a.X)}}
	case *ssa.IndexAddr:
		return &term{op: "elem", args: []*term{tm.of(a.X), tm.of(a.Index)}}
	}
	// pointer value: dereference
	t := tm.of(addr)
	if t.op == "addr" && len(t.args) == 1 {
		return t.args[0]
	}
	return &term{op: "deref", name: "", args: []*term{t}}
}

func canonCmp(op token.Token, l, r *term) *term {
	switch op {
	case token.GTR:
		return &term{op: "cmp", name: "<", args: []*term{r, l}}
	case token.GEQ:
		return &term{op: "cmp", name: "<=", args: []*term{r, l}}
	case token.LSS:
		return &term{op: "cmp", name: "<", args: []*term{l, r}}
	case token.LEQ:
		return &term{op: "cmp", name: "<=", args: []*term{l, r}}
	}
	// == and != : order operands canonically
	if l.String() > r.String() {
		l, r = r, l
	}
	return &term{op: "cmp", name: op.String(), args: []*term{l, r}}
}

// negate returns the canonical negation of a boolean term.
func negate(t *term) *term {
	switch t.op {
	case "not":
		return t.args[0]
	case "cmp":
		switch t.name {
		case "<":
			return &term{op: "cmp", name: "<=", args: []*term{t.args[1], t.args[0]}, typ: t.typ}
		case "<=":
			return &term{op: "cmp", name: "<", args: []*term{t.args[1], t.args[0]}, typ: t.typ}
		case "==":
			return &term{op: "cmp", name: "!=", args: t.args, typ: t.typ}
		case "!=":
			return &term{op: "cmp", name: "==", args: t.args, typ: t.typ}
		}
	}
	return &term{op: "not", args: []*term{t}, typ: t.typ}
}

func (tm *termer) build(v ssa.Value) *term {
	switch x := v.(type) {
	case *ssa.Parameter:
		if t, ok := tm.subst[x]; ok {
			return t
		}
		for i, p := range tm.fn.Params {
			if p == x {
				return &term{op: "param", name: fmt.Sprintf("#%d", i)}
			}
		}
		return &term{op: "param", name: x.Name()}
	case *ssa.Const:
		if x.Value == nil {
			return &term{op: "nil", name: ""}
		}
		return &term{op: "const", name: x.Value.ExactString()}
	case *ssa.Global:
		return &term{op: "global", name: x.Name()}
	case *ssa.FreeVar:
		return &term{op: "freevar", name: x.Name()}
	case *ssa.Function:
		return &term{op: "const", name: "func " + x.String()}
	case *ssa.Alloc:
		return &term{op: "addr", args: []*term{tm.allocValue(x)}}
	case *ssa.FieldAddr:
		return &term{op: "addr", args: []*term{tm.loadFrom(x)}}
	case *ssa.IndexAddr:
		return &term{op: "addr", args: []*term{tm.loadFrom(x)}}
	case *ssa.UnOp:
		switch x.Op {
		case token.MUL:
			return tm.loadFrom(x.X)
		case token.NOT:
			return negate(tm.of(x.X))
		case token.SUB:
			return &term{op: "neg", args: []*term{tm.of(x.X)}}
		}
		return &term{op: "unknown", name: x.Op.String()}
	case *ssa.BinOp:
		l, r := tm.of(x.X), tm.of(x.Y)
		switch x.Op {
		case token.LSS, token.LEQ, token.GTR, token.GEQ, token.EQL, token.NEQ:
			return canonCmp(x.Op, l, r)
		}
		return &term{op: "bin", name: x.Op.String(), args: []*term{l, r}}
	case *ssa.Index:
		return &term{op: "elem", args: []*term{tm.of(x.X), tm.of(x.Index)}}
	case *ssa.Field:
		fv := fieldVar(x.X.Type(), x.Field)
		name := fmt.Sprint(x.Field)
		if fv != nil {
			name = fv.Name()
		}
		return &term{op: "field", name: name, obj: fv, args: []*term{tm.of(x.X)}}
	case *ssa.ChangeType:
		return tm.of(x.X)
	case *ssa.Convert:
		return tm.of(x.X)
	case *ssa.MakeInterface:
		return tm.of(x.X)
	case *ssa.ChangeInterface:
		return tm.of(x.X)
	case *ssa.TypeAssert:
		return &term{op: "assert", name: x.AssertedType.String(), args: []*term{tm.of(x.X)}}
	case *ssa.Extract:
		return &term{op: "extract", name: fmt.Sprint(x.Index), args: []*term{tm.of(x.Tuple)}}
	case *ssa.Slice:
		args := []*term{tm.of(x.X)}
		for _, b := range []ssa.Value{x.Low, x.High} {
			if b == nil {
				args = append(args, &term{op: "nil", name: ""})
			} else {
				args = append(args, tm.of(b))
			}
		}
		return &term{op: "slice", args: args}
	case *ssa.Phi:
		var alts []*term
		seen := map[string]bool{}
		for _, e := range x.Edges {
			if e == x {
				continue
			}
			t := tm.of(e)
			if t.op == "unknown" && t.name == "cycle" {
				continue
			}
			if !seen[t.String()] {
				seen[t.String()] = true
				alts = append(alts, t)
			}
		}
		if len(alts) == 1 {
			return alts[0]
		}
		sort.Slice(alts, func(i, j int) bool { return alts[i].String() < alts[j].String() })
		return &term{op: "phi", name: x.Comment, args: alts}
	case *ssa.MakeSlice:
		return &term{op: "call", name: "make", args: []*term{tm.of(x.Len)}}
	case *ssa.Call:
		cc := x.Common()
		var args []*term
		for _, a := range cc.Args {
			args = append(args, tm.of(a))
		}
		if b := ssau.Builtin(x); b != "" {
			if b == "len" && len(args) == 1 {
				return &term{op: "len", args: args}
			}
			return &term{op: "call", name: "builtin " + b, args: args}
		}
		if cc.IsInvoke() {
			return &term{op: "invoke", name: cc.Method.Name(), obj: cc.Method, args: append([]*term{tm.of(cc.Value)}, args...)}
		}
		// a straight-line helper of the same package is read through (extract-helper refactors)
		if callee := cc.StaticCallee(); callee != nil && callee != tm.fn && callee.Pkg != nil && callee.Pkg == tm.fn.Pkg &&
			len(callee.Blocks) == 1 && tm.inl < 2 && len(callee.Params) == len(args) && callee.Signature.Results().Len() == 1 {
			if ret, ok := callee.Blocks[0].Instrs[len(callee.Blocks[0].Instrs)-1].(*ssa.Return); ok && len(ret.Results) == 1 {
				hasCall := false
				for _, in := range callee.Blocks[0].Instrs {
					if c2, ok := in.(*ssa.Call); ok && c2.Common().StaticCallee() == callee {
						hasCall = true
					}
				}
				if !hasCall {
					sub := newTermer(callee)
					sub.inl = tm.inl + 1
					sub.subst = map[*ssa.Parameter]*term{}
					for i, p := range callee.Params {
						sub.subst[p] = args[i]
					}
					return sub.of(ret.Results[0])
				}
			}
		}
		if obj := ssau.CalleeObj(x); obj != nil {
			return &term{op: "call", name: obj.FullName(), obj: obj, args: args}
		}
		if callee := cc.StaticCallee(); callee != nil {
			return &term{op: "call", name: callee.String(), args: args}
		}
		return &term{op: "dyncall", name: "", args: append([]*term{tm.of(cc.Value)}, args...)}
	}
	return &term{op: "unknown", name: fmt.Sprintf("%T", v)}
}

// walk visits every subterm.
func (t *term) walk(f func(*term)) {
	if t == nil {
		return
	}
	f(t)
	for _, a := range t.args {
		a.walk(f)
	}
}

// ---------------------------------------------------------------- guards

type guard struct {
	cond ssa.Value
	pol  bool
	at   *ssa.BasicBlock
}

// guardsOf returns the branch outcomes that every path from the function entry to b
// must have taken (edge dominance), innermost first, restricted to blocks in `within` (nil = all).
func guardsOf(b *ssa.BasicBlock, within map[*ssa.BasicBlock]bool) []guard {
	var out []guard
	for n := b; n != nil; n = n.Idom() {
		if len(n.Preds) != 1 {
			continue
		}
		p := n.Preds[0]
		if within != nil && !within[p] {
			continue
		}
		if len(p.Instrs) == 0 {
			continue
		}
		ifi, ok := p.Instrs[len(p.Instrs)-1].(*ssa.If)
		if !ok {
			continue
		}
		if p.Succs[0] == p.Succs[1] {
			continue
		}
		out = append(out, guard{cond: ifi.Cond, pol: p.Succs[0] == n, at: p})
	}
	return out
}

// ---------------------------------------------------------------- index loops

type indexLoop struct {
	loop  *ssau.Loop
	index ssa.Value // the value used as subscript inside the body
	slice ssa.Value // the slice whose length bounds the loop
	why   string    // non-empty: not a recognised full-range loop
	// partial: the loop shape is understood and it provably does not cover [0,len): a violation, not an unknown idiom
	partial bool
}

func lenOf(v ssa.Value) ssa.Value {
	if c, ok := v.(*ssa.Call); ok && ssau.Builtin(c) == "len" && len(c.Common().Args) == 1 {
		return c.Common().Args[0]
	}
	return nil
}

func isConstInt(v ssa.Value, n int64) bool {
	k, ok := ssau.ConstInt(v)
	return ok && k == n
}

// recogniseIndexLoop: `for i := 0; i < len(s); i++` or `for i(, v) := range s` over a slice.
func recogniseIndexLoop(l *ssau.Loop) *indexLoop {
	il := &indexLoop{loop: l}
	h := l.Header
	if len(h.Instrs) == 0 {
		il.why = "empty header"
		return il
	}
	ifi, ok := h.Instrs[len(h.Instrs)-1].(*ssa.If)
	if !ok {
		il.why = "the loop condition is not tested in the loop header"
		return il
	}
	cmp, ok := ifi.Cond.(*ssa.BinOp)
	if !ok || cmp.Op != token.LSS {
		il.why = "the loop condition is not `index < len(slice)`"
		return il
	}
	if !l.Blocks[h.Succs[0]] || l.Blocks[h.Succs[1]] {
		il.why = "the loop is not entered on the true branch of its condition"
		return il
	}
	s := lenOf(cmp.Y)
	if s == nil {
		il.why = "the loop bound is not len(slice)"
		if b, ok := cmp.Y.(*ssa.BinOp); ok && b.Op == token.SUB && lenOf(b.X) != nil {
			if k, isC := ssau.ConstInt(b.Y); isC && k > 0 {
				il.why = fmt.Sprintf("the loop stops %d short of len(slice)", k)
				il.partial = true
				il.slice = lenOf(b.X)
			}
		}
		return il
	}
	il.slice = s
	// index: phi [0, phi+1]  or  (phi [-1, phi+1]) + 1
	var phi *ssa.Phi
	var init int64
	switch x := cmp.X.(type) {
	case *ssa.Phi:
		phi, init = x, 0
	case *ssa.BinOp:
		if p, ok := x.X.(*ssa.Phi); ok && x.Op == token.ADD && isConstInt(x.Y, 1) {
			phi, init = p, -1
		}
	}
	if phi == nil || phi.Block() != h {
		il.why = "the loop index is not a counter of this loop"
		return il
	}
	for i, e := range phi.Edges {
		pred := h.Preds[i]
		if !l.Blocks[pred] {
			if !isConstInt(e, init) {
				il.why = "the loop does not start at the first element"
				if k, isC := ssau.ConstInt(e); isC && k > init {
					il.partial = true
				}
				return il
			}
			continue
		}
		inc, ok := e.(*ssa.BinOp)
		if !ok || inc.Op != token.ADD || !isConstInt(inc.Y, 1) || inc.X != phi {
			il.why = "the counter is not advanced by exactly 1 on every back edge"
			return il
		}
		if init == -1 && e != cmp.X {
			il.why = "the range counter is advanced irregularly"
			return il
		}
	}
	il.index = cmp.X
	return il
}

// recogniseConstLoop: `for i := 0; i < K; i++` / `for i := range [K]T` with a constant K.
// Returns the value used as subscript in the body, K, and "" — or why the loop is something else.
func recogniseConstLoop(l *ssau.Loop) (index ssa.Value, bound int64, why string) {
	h := l.Header
	ifi, ok := h.Instrs[len(h.Instrs)-1].(*ssa.If)
	if !ok {
		return nil, 0, "the loop condition is not tested in the loop header"
	}
	cmp, ok := ifi.Cond.(*ssa.BinOp)
	if !ok || cmp.Op != token.LSS {
		return nil, 0, "the loop condition is not `index < constant`"
	}
	if !l.Blocks[h.Succs[0]] || l.Blocks[h.Succs[1]] {
		return nil, 0, "the loop is not entered on the true branch of its condition"
	}
	k, isC := ssau.ConstInt(cmp.Y)
	if !isC {
		return nil, 0, "the loop bound is not a constant"
	}
	var phi *ssa.Phi
	var init int64
	switch x := cmp.X.(type) {
	case *ssa.Phi:
		phi, init = x, 0
	case *ssa.BinOp:
		if p, ok := x.X.(*ssa.Phi); ok && x.Op == token.ADD && isConstInt(x.Y, 1) {
			phi, init = p, -1
		}
	}
	if phi == nil || phi.Block() != h {
		return nil, 0, "the loop index is not a counter of this loop"
	}
	for i, e := range phi.Edges {
		if !l.Blocks[h.Preds[i]] {
			if !isConstInt(e, init) {
				return nil, 0, "the loop does not start at the first element"
			}
			continue
		}
		inc, ok := e.(*ssa.BinOp)
		if !ok || inc.Op != token.ADD || !isConstInt(inc.Y, 1) || inc.X != phi {
			return nil, 0, "the counter is not advanced by exactly 1 on every back edge"
		}
		if init == -1 && e != cmp.X {
			return nil, 0, "the range counter is advanced irregularly"
		}
	}
	return cmp.X, k, ""
}

// exitsOnlyFromHeader reports blocks other than the header from which the loop can be left.
func earlyExits(l *ssau.Loop) []*ssa.BasicBlock {
	var out []*ssa.BasicBlock
	for b := range l.Blocks {
		if b == l.Header {
			continue
		}
		for _, s := range b.Succs {
			if !l.Blocks[s] {
				out = append(out, b)
				break
			}
		}
		if len(b.Instrs) > 0 {
			switch b.Instrs[len(b.Instrs)-1].(type) {
			case *ssa.Return, *ssa.Panic:
				out = append(out, b)
			}
		}
	}
	sort.Slice(out, func(i, j int) bool { return out[i].Index < out[j].Index })
	return out
}

// appendedValues: for `append(base, v1, …, vk)` returns base and the values; spread=true for append(base, s...).
func appendedValues(c *ssa.Call) (base ssa.Value, vals []ssa.Value, spread ssa.Value, ok bool) {
	if ssau.Builtin(c) != "append" || len(c.Common().Args) != 2 {
		return nil, nil, nil, false
	}
	base = c.Common().Args[0]
	sl, isSlice := c.Common().Args[1].(*ssa.Slice)
	if isSlice {
		if arr, isAlloc := sl.X.(*ssa.Alloc); isAlloc && arr.Comment == "varargs" {
			at, _ := arr.Type().Underlying().(*types.Pointer).Elem().Underlying().(*types.Array)
			if at != nil {
				vals = make([]ssa.Value, at.Len())
				for _, r := range ssau.Refs(arr) {
					ia, ok := r.(*ssa.IndexAddr)
					if !ok {
						continue
					}
					k, isC := ssau.ConstInt(ia.Index)
					if !isC || int(k) >= len(vals) {
						continue
					}
					for _, r2 := range ssau.Refs(ia) {
						if st, ok := r2.(*ssa.Store); ok && st.Addr == ia {
							vals[k] = st.Val
						}
					}
				}
				for _, v := range vals {
					if v == nil {
						return base, nil, nil, false
					}
				}
				return base, vals, nil, true
			}
		}
	}
	return base, nil, c.Common().Args[1], true
}

// reachableAvoiding: can `to` be reached from `from` (following ≥ 0 edges) without entering a block in avoid?
func reachableAvoiding(from, to *ssa.BasicBlock, avoid map[*ssa.BasicBlock]bool) bool {
	seen := map[*ssa.BasicBlock]bool{}
	stack := []*ssa.BasicBlock{from}
	for len(stack) > 0 {
		n := stack[len(stack)-1]
		stack = stack[:len(stack)-1]
		if avoid[n] || seen[n] {
			continue
		}
		if n == to {
			return true
		}
		seen[n] = true
		stack = append(stack, n.Succs...)
	}
	return false
}
