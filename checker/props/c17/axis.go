package c17

// AXIS-1 / AXIS-2 on math/geometry/aabb.go: a purely intra-procedural component-tag
// dataflow (no polynomial reasoning). Tags {X,Y,Z,W} start at the vector
// accessors of the dependency (resolved by object), flow through arithmetic,
// conversions, math.* calls, phis, local cells and scalar helpers of the same
// package, and are checked where components meet: comparisons, math.Min/Max,
// scalar helper calls (clamp, slab component test), SetX/SetY/SetZ and New slots.

import (
	"fmt"
	"go/token"
	"go/types"
	"sort"
	"strings"

	"golang.org/x/tools/go/ssa"

	"polycheck/ssau"
)

type axTag uint8

func (t axTag) single() (int, bool) {
	switch t {
	case 1:
		return 0, true
	case 2:
		return 1, true
	case 4:
		return 2, true
	case 8:
		return 3, true
	}
	return 0, false
}

func (t axTag) String() string {
	if t == 0 {
		return "-"
	}
	var s []string
	for i, n := range []string{"X", "Y", "Z", "W"} {
		if t&(1<<uint(i)) != 0 {
			s = append(s, n)
		}
	}
	return strings.Join(s, "")
}

func vectorMember(obj *types.Func) (kind string, axis int) {
	if obj == nil || obj.Pkg() == nil || !strings.HasPrefix(obj.Pkg().Path(), vectorModule+"/vector") {
		return "", 0
	}
	sig := obj.Type().(*types.Signature)
	if sig.Recv() == nil {
		if obj.Name() == "New" {
			return "new", sig.Params().Len()
		}
		return "", 0
	}
	n := ssau.RecvNamed(obj)
	if n == nil || n.Origin().Obj().Name() != "Vector" {
		return "", 0
	}
	names := []string{"X", "Y", "Z", "W"}
	for i, nm := range names {
		if obj.Name() == nm && sig.Params().Len() == 0 {
			return "get", i
		}
		if obj.Name() == "Set"+nm && sig.Params().Len() == 1 {
			return "set", i
		}
	}
	return "", 0
}

func allFloatScalars(sig *types.Signature) bool {
	if sig.Params().Len() < 2 {
		return false
	}
	n := 0
	for i := 0; i < sig.Params().Len(); i++ {
		t := sig.Params().At(i).Type()
		if b, ok := t.Underlying().(*types.Basic); ok && b.Info()&types.IsFloat != 0 {
			n++
		}
	}
	return n >= 2
}

type axisFinding struct {
	rule string
	msg  string
	pos  token.Pos
}

type axisStats struct {
	sinks    int
	perClass map[string]*[4]int
}

func (k *checker) axisFunction(fn *ssa.Function) (findings []axisFinding, st axisStats) {
	st.perClass = map[string]*[4]int{}
	tags := map[ssa.Value]axTag{}
	isFloat := func(t types.Type) bool {
		b, ok := t.Underlying().(*types.Basic)
		return ok && b.Info()&types.IsFloat != 0
	}
	samePkgHelper := func(c *ssa.Call) *ssa.Function {
		callee := c.Common().StaticCallee()
		if callee == nil || callee.Pkg == nil || callee.Pkg != fn.Pkg || callee == fn {
			return nil
		}
		if !allFloatScalars(callee.Signature) {
			return nil
		}
		return callee
	}
	// stores per address root (flow-insensitive)
	stored := map[ssa.Value][]ssa.Value{}
	ssau.AllInstrs(fn, func(in ssa.Instruction) {
		if s, ok := in.(*ssa.Store); ok {
			stored[s.Addr] = append(stored[s.Addr], s.Val)
		}
	})
	get := func(v ssa.Value) axTag { return tags[v] }
	changed := true
	for iter := 0; changed && iter < 50; iter++ {
		changed = false
		set := func(v ssa.Value, t axTag) {
			if tags[v]|t != tags[v] {
				tags[v] |= t
				changed = true
			}
		}
		ssau.AllInstrs(fn, func(in ssa.Instruction) {
			switch x := in.(type) {
			case *ssa.Call:
				obj := ssau.CalleeObj(x)
				if kind, ax := vectorMember(obj); kind == "get" {
					set(x, 1<<uint(ax))
					return
				}
				if obj != nil && obj.Pkg() != nil && obj.Pkg().Path() == "math" && isFloat(x.Type()) {
					var t axTag
					for _, a := range x.Common().Args {
						t |= get(a)
					}
					set(x, t)
					return
				}
				if h := samePkgHelper(x); h != nil && isFloat(x.Type()) {
					var t axTag
					for _, a := range x.Common().Args {
						t |= get(a)
					}
					set(x, t)
				}
			case *ssa.BinOp:
				switch x.Op {
				case token.ADD, token.SUB, token.MUL, token.QUO:
					set(x, get(x.X)|get(x.Y))
				}
			case *ssa.UnOp:
				switch x.Op {
				case token.SUB:
					set(x, get(x.X))
				case token.MUL:
					var t axTag
					for _, v := range stored[x.X] {
						t |= get(v)
					}
					set(x, t)
				}
			case *ssa.Convert:
				set(x, get(x.X))
			case *ssa.ChangeType:
				set(x, get(x.X))
			case *ssa.Phi:
				var t axTag
				for _, e := range x.Edges {
					t |= get(e)
				}
				set(x, t)
			}
		})
	}
	count := func(class string, ax int) {
		c := st.perClass[class]
		if c == nil {
			c = &[4]int{}
			st.perClass[class] = c
		}
		c[ax]++
	}
	pair := func(class string, a, b axTag, what string, pos token.Pos) {
		if a == 0 || b == 0 {
			return
		}
		st.sinks++
		sa, oka := a.single()
		sb, okb := b.single()
		if !oka || !okb || sa != sb {
			findings = append(findings, axisFinding{"AXIS-2", fmt.Sprintf("%s pairs a %s component with a %s component", what, a, b), pos})
			return
		}
		count(class, sa)
	}
	ssau.AllInstrs(fn, func(in ssa.Instruction) {
		switch x := in.(type) {
		case *ssa.BinOp:
			switch x.Op {
			case token.LSS, token.LEQ, token.GTR, token.GEQ, token.EQL, token.NEQ:
				pair("comparison", get(x.X), get(x.Y), "comparison "+x.Op.String(), x.Pos())
			}
		case *ssa.Call:
			obj := ssau.CalleeObj(x)
			args := x.Common().Args
			if obj != nil && obj.Pkg() != nil && obj.Pkg().Path() == "math" && len(args) == 2 && isFloat(x.Type()) {
				pair("math."+obj.Name(), get(args[0]), get(args[1]), "math."+obj.Name(), x.Pos())
				return
			}
			switch kind, ax := vectorMember(obj); kind {
			case "set":
				if len(args) == 2 {
					if t := get(args[1]); t != 0 {
						st.sinks++
						if t&(1<<uint(ax)) == 0 {
							findings = append(findings, axisFinding{"AXIS-1", fmt.Sprintf("%s receives a value built from the %s component(s)", obj.Name(), t), x.Pos()})
						} else if s, ok := t.single(); ok {
							count("set", s)
						}
					}
				}
				return
			case "new":
				for i, a := range args {
					if t := get(a); t != 0 && i < 4 {
						st.sinks++
						if t&(1<<uint(i)) == 0 {
							findings = append(findings, axisFinding{"AXIS-1", fmt.Sprintf("slot %s of %s.New receives a value built from the %s component(s)", "XYZW"[i:i+1], obj.Pkg().Name(), t), x.Pos()})
						} else if s, ok := t.single(); ok {
							count("new", s)
						}
					}
				}
				return
			}
			if h := samePkgHelper(x); h != nil {
				var all axTag
				n := 0
				mixed := false
				for _, a := range args {
					t := get(a)
					if t == 0 {
						continue
					}
					n++
					if all != 0 && all != t {
						mixed = true
					}
					all |= t
				}
				if n >= 2 {
					st.sinks++
					if s, ok := all.single(); mixed || !ok {
						var parts []string
						for _, a := range args {
							parts = append(parts, get(a).String())
						}
						findings = append(findings, axisFinding{"AXIS-2", fmt.Sprintf("call to %s mixes components: argument tags (%s)", h.Name(), strings.Join(parts, ",")), x.Pos()})
					} else {
						count("call "+h.Name(), s)
					}
				}
			}
		}
	})
	// coverage: when components of some axis meet in this function, components of every axis do
	// (presence, not equal counts: mixed idioms per axis are fine, a forgotten axis is not)
	for _, group := range []struct {
		what    string
		classes func(c string) bool
	}{
		{"comparisons / min / max / scalar-helper calls", func(c string) bool { return c != "set" && c != "new" }},
		{"component slots (SetX/SetY/SetZ, New)", func(c string) bool { return c == "set" || c == "new" }},
	} {
		var n [4]int
		for c, cnt := range st.perClass {
			if group.classes(c) {
				for a := 0; a < 4; a++ {
					n[a] += cnt[a]
				}
			}
		}
		dims := 3
		if n[3] > 0 {
			dims = 4
		}
		any, all := false, true
		for a := 0; a < dims; a++ {
			if n[a] > 0 {
				any = true
			} else {
				all = false
			}
		}
		if any && !all {
			findings = append(findings, axisFinding{"AXIS-2", fmt.Sprintf("%s treat some axis never: X×%d Y×%d Z×%d%s", group.what, n[0], n[1], n[2], map[bool]string{true: fmt.Sprintf(" W×%d", n[3]), false: ""}[dims == 4]), fn.Pos()})
		}
	}
	return findings, st
}

func (k *checker) axisRules() {
	P := k.c.P
	R := k.c.R
	sp := P.SSAPkg("math/geometry")
	if sp == nil {
		R.Failf("anchor package math/geometry not found")
		return
	}
	const file = "math/geometry/aabb.go"
	totalSinks := 0
	fnsWithSinks := 0
	seenFile := false
	ctlBad, ctlGoodClean := 0, true
	for _, fn := range P.FuncsOf(sp) {
		isCtl := P.IsControl(fn.Pos())
		if !isCtl && P.RelFile(fn.Pos()) != file {
			continue
		}
		if !isCtl {
			seenFile = true
		}
		findings, st := k.axisFunction(fn)
		name := P.FuncName(fn)
		if isCtl {
			if strings.Contains(name, "verifControlAxisBad") && len(findings) > 0 {
				ctlBad++
			}
			if strings.Contains(name, "verifControlAxisGood") && len(findings) > 0 {
				ctlGoodClean = false
			}
			continue
		}
		if st.sinks == 0 {
			continue
		}
		fnsWithSinks++
		totalSinks += st.sinks
		by := map[string][]axisFinding{}
		for _, f := range findings {
			by[f.rule] = append(by[f.rule], f)
		}
		var classes []string
		for c, n := range st.perClass {
			classes = append(classes, fmt.Sprintf("%s X×%d Y×%d Z×%d", c, n[0], n[1], n[2]))
		}
		sort.Strings(classes)
		for _, rule := range []string{"AXIS-1", "AXIS-2"} {
			if rule == "AXIS-1" && len(by[rule]) == 0 && st.perClass["set"] == nil && st.perClass["new"] == nil {
				continue
			}
			if fs := by[rule]; len(fs) > 0 {
				var msgs []string
				for _, f := range fs {
					msgs = append(msgs, f.msg+" (at "+P.Pos(f.pos)+")")
				}
				k.violate(rule, name, P.Pos(fs[0].pos), strings.Join(head(msgs, 3), "; "), msgs...)
			} else {
				k.hold(rule, name, P.Pos(fn.Pos()), fmt.Sprintf("%d sites where tagged components meet; %s", st.sinks, strings.Join(classes, "; ")))
			}
		}
	}
	if !seenFile {
		R.Failf("anchor file %s has no functions", file)
	}
	R.Extra["axis_sinks"] = totalSinks
	R.Extra["axis_functions_with_sinks"] = fnsWithSinks
	R.Floor("AXIS-2", 5)
	k.axisCtlBad, k.axisCtlGood = ctlBad, ctlGoodClean
}
