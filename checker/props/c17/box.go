package c17

// BOX-1: lattice shape of the axis-aligned box operations, decided on symbolic
// results with min/max as associative-commutative uninterpreted operators. Every
// law is stated through the box's own Min()/Max() so it does not depend on the
// (center, extents) representation.

import (
	"fmt"
	"go/token"
	"go/types"
	"sort"
	"strings"

	"golang.org/x/tools/go/ssa"
)

type boxOps struct {
	k        *checker
	vo       *vecOps
	typ      types.Type
	min, max *ssa.Function
}

func (b *boxOps) corners(box Val) (lo, hi [3]Scalar, prob string) {
	l, p1 := b.k.call1(b.min, box)
	h, p2 := b.k.call1(b.max, box)
	if p1+p2 != "" {
		return lo, hi, "Min()/Max(): " + p1 + p2
	}
	var ok1, ok2 bool
	lo, ok1 = b.vo.comps(l)
	hi, ok2 = b.vo.comps(h)
	if !ok1 || !ok2 {
		return lo, hi, "Min()/Max() do not return vector values"
	}
	return lo, hi, ""
}

func (k *checker) box(rule, construct string, pos token.Pos, law string, got, want [3]Scalar) {
	var bad []string
	for a := 0; a < 3; a++ {
		if !got[a].v.Equal(want[a].v, k.e.ST) {
			bad = append(bad, fmt.Sprintf("%s: code yields %s; the law requires %s", "XYZ"[a:a+1], got[a].v.Short(k.e.ST, 6), want[a].v.Short(k.e.ST, 6)))
		}
	}
	k.identities++
	k.components += 3
	if len(bad) > 0 {
		k.violate(rule, construct, k.c.P.Pos(pos), law+" fails: "+strings.Join(head(bad, 2), " | "), bad...)
	} else {
		k.hold(rule, construct, k.c.P.Pos(pos), law, "3 components compared in min/max normal form: "+trunc(got[0].v.String(k.e.ST), 160))
	}
}

// postState runs a pointer-receiver method on a symbolic box and returns the box afterwards.
func (k *checker) postState(fn *ssa.Function, box Val, args ...Val) (Val, string) {
	cell := &Cell{id: "box", v: box}
	all := append([]Val{PtrV{cell: cell}}, args...)
	_, path, prob := k.single(fn, all...)
	if prob != "" {
		return nil, prob
	}
	p, ok := path.Args[0].(PtrV)
	if !ok {
		return nil, "receiver is not a pointer"
	}
	for _, n := range path.Notes {
		return nil, n
	}
	return p.cell.v, ""
}

// truthSets returns, for a boolean function, the condition sets under which it returns true.
func (k *checker) truthSets(fn *ssa.Function, args ...Val) ([][]string, string) {
	res := k.e.Run(fn, args)
	if p := res.Problem(); p != "" {
		return nil, p
	}
	var out [][]string
	for _, p := range res.Returns() {
		if len(p.Ret) != 1 {
			return nil, "not a single boolean result"
		}
		b, ok := p.Ret[0].(BoolV)
		if !ok {
			return nil, "result is not a boolean the engine tracks"
		}
		set := map[string]bool{}
		for _, c := range p.Conds {
			set[c.key] = true
		}
		if b.isConst {
			if !b.c {
				continue
			}
		} else {
			if set[b.atom.neg] {
				continue
			}
			set[b.atom.key] = true
		}
		var keys []string
		for s := range set {
			keys = append(keys, s)
		}
		sort.Strings(keys)
		out = append(out, keys)
	}
	return out, ""
}

func (k *checker) predicateLaw(rule, construct string, pos token.Pos, law string, got [][]string, want []BoolV) {
	P := k.c.P
	var wantKeys []string
	for _, w := range want {
		if w.isConst {
			k.undecide(rule, construct, P.Pos(pos), law+": the required condition degenerates to a constant on symbolic inputs")
			return
		}
		wantKeys = append(wantKeys, w.atom.key)
	}
	sort.Strings(wantKeys)
	wantKeys = uniqueSorted(wantKeys)
	k.identities++
	if len(got) == 1 && strings.Join(got[0], " ∧ ") == strings.Join(wantKeys, " ∧ ") {
		k.hold(rule, construct, P.Pos(pos), law, "returns true on exactly one path, under: "+strings.Join(wantKeys, " ∧ "))
		return
	}
	var gs []string
	for _, g := range got {
		gs = append(gs, "("+strings.Join(g, " ∧ ")+")")
	}
	// which atoms differ?
	detail := ""
	if len(got) == 1 {
		gm := map[string]bool{}
		for _, g := range got[0] {
			gm[g] = true
		}
		wm := map[string]bool{}
		for _, w := range wantKeys {
			wm[w] = true
		}
		var extra, missing []string
		for _, g := range got[0] {
			if !wm[g] {
				extra = append(extra, g)
			}
		}
		for _, w := range wantKeys {
			if !gm[w] {
				missing = append(missing, w)
			}
		}
		detail = fmt.Sprintf("; tests not required by the law: [%s]; required tests missing: [%s]", strings.Join(extra, ", "), strings.Join(missing, ", "))
	}
	k.violate(rule, construct, P.Pos(pos), fmt.Sprintf("%s: the function returns true under %s, the law requires exactly %s%s", law, trunc(strings.Join(gs, " ∨ "), 500), strings.Join(wantKeys, " ∧ "), detail))
}

func uniqueSorted(s []string) []string {
	var out []string
	for i, x := range s {
		if i == 0 || x != s[i-1] {
			out = append(out, x)
		}
	}
	return out
}

func (k *checker) encapsulatePointLaw(fn *ssa.Function, bo *boxOps) {
	e := k.e
	P := k.c.P
	vo := bo.vo
	b := e.Sym("box", bo.typ)
	p := e.Sym("p", vo.typ)
	pc, _ := vo.comps(p)
	lo, hi, prob := bo.corners(b)
	if prob != "" {
		k.undecided("BOX-1", P.FuncName(fn), fn.Pos(), prob)
		return
	}
	post, prob := k.postState(fn, b, p)
	if prob != "" {
		k.undecided("BOX-1", P.FuncName(fn), fn.Pos(), prob)
		return
	}
	plo, phi, prob := bo.corners(post)
	if prob != "" {
		k.undecided("BOX-1", P.FuncName(fn), fn.Pos(), prob)
		return
	}
	var wlo, whi [3]Scalar
	for a := 0; a < 3; a++ {
		wlo[a] = e.MinMax("min", []Scalar{lo[a], pc[a]})
		whi[a] = e.MinMax("max", []Scalar{hi[a], pc[a]})
	}
	k.box("BOX-1", P.FuncName(fn), fn.Pos(), "after EncapsulatePoint(p): Min()[a] = min(old Min()[a], p[a])", plo, wlo)
	k.box("BOX-1", P.FuncName(fn)+"#max", fn.Pos(), "after EncapsulatePoint(p): Max()[a] = max(old Max()[a], p[a])", phi, whi)
}

func (k *checker) closestPointLaw(fn *ssa.Function, bo *boxOps) {
	e := k.e
	P := k.c.P
	vo := bo.vo
	b := e.Sym("box", bo.typ)
	p := e.Sym("p", vo.typ)
	pc, _ := vo.comps(p)
	lo, hi, prob := bo.corners(b)
	if prob != "" {
		k.undecided("BOX-1", P.FuncName(fn), fn.Pos(), prob)
		return
	}
	got, prob := k.call1(fn, b, p)
	if prob != "" {
		k.undecided("BOX-1", P.FuncName(fn), fn.Pos(), prob)
		return
	}
	gc, ok := vo.comps(got)
	if !ok {
		k.undecided("BOX-1", P.FuncName(fn), fn.Pos(), "result is not a vector value")
		return
	}
	mm := func(op string, xs ...Scalar) Scalar { return e.MinMax(op, xs) }
	var w1, w2 [3]Scalar
	for a := 0; a < 3; a++ {
		w1[a] = mm("min", mm("max", pc[a], lo[a]), hi[a])
		w2[a] = mm("max", mm("min", pc[a], hi[a]), lo[a])
	}
	// either nesting of the clamp is accepted, per axis
	want := w1
	for a := 0; a < 3; a++ {
		if gc[a].v.Equal(w2[a].v, e.ST) {
			want[a] = w2[a]
		}
	}
	k.box("BOX-1", P.FuncName(fn), fn.Pos(), "ClosestPoint(p)[a] = min(max(p[a], Min()[a]), Max()[a]) or max(min(p[a], Max()[a]), Min()[a]) (clamp into the box, per axis)", gc, want)
}

func (k *checker) boxLaws(vo *vecOps) {
	if vo == nil {
		return
	}
	e := k.e
	P := k.c.P
	R := k.c.R
	minF := k.fn("math/geometry", "AABB.Min")
	maxF := k.fn("math/geometry", "AABB.Max")
	if minF == nil || maxF == nil {
		return
	}
	boxT := minF.Signature.Recv().Type()
	bo := &boxOps{k: k, vo: vo, typ: boxT, min: minF, max: maxF}
	k.bo = bo
	b := e.Sym("box", boxT)
	o := e.Sym("other", boxT)
	p := e.Sym("p", vo.typ)
	pc, _ := vo.comps(p)
	lo, hi, prob := bo.corners(b)
	if prob != "" {
		k.undecided("BOX-1", P.FuncName(minF), minF.Pos(), prob)
		return
	}
	olo, ohi, _ := bo.corners(o)
	half := Scalar{v: rfPoly(PolyConst(ratHalf()))}

	// NewAABB(center, size): Min = center − size/2, Max = center + size/2
	if fn := k.fn("math/geometry", "NewAABB"); fn != nil {
		c := e.Sym("center", vo.typ)
		s := e.Sym("size", vo.typ)
		cc, _ := vo.comps(c)
		sc, _ := vo.comps(s)
		if nb, prob := k.call1(fn, c, s); prob != "" {
			k.undecided("BOX-1", P.FuncName(fn), fn.Pos(), prob)
		} else if nlo, nhi, prob := bo.corners(nb); prob != "" {
			k.undecided("BOX-1", P.FuncName(fn), fn.Pos(), prob)
		} else {
			hs := vo.scale(sc, half)
			k.box("BOX-1", P.FuncName(fn), fn.Pos(), "NewAABB(c,s).Min() = c − s/2", nlo, vo.add(cc, vo.scale(hs, e.num(-1))))
			k.box("BOX-1", P.FuncName(fn)+"#max", fn.Pos(), "NewAABB(c,s).Max() = c + s/2", nhi, vo.add(cc, hs))
			for _, acc := range []struct {
				name string
				want [3]Scalar
			}{{"AABB.Center", cc}, {"AABB.Size", sc}} {
				af := P.Func("math/geometry", acc.name)
				if af == nil || af.Blocks == nil {
					continue
				}
				if got, prob := k.call1(af, nb); prob == "" {
					if gc, ok := vo.comps(got); ok {
						k.box("BOX-1", P.FuncName(af), af.Pos(), "NewAABB(c,s)."+af.Name()+"() returns what NewAABB was given", gc, acc.want)
					}
				}
			}
		}
	}
	// Min ≤ Max structure: Max − Min = Size
	// SetMinMax(lo, hi): afterwards Min() = lo, Max() = hi
	if fn := k.fn("math/geometry", "AABB.SetMinMax"); fn != nil {
		l := e.Sym("min", vo.typ)
		h := e.Sym("max", vo.typ)
		lc, _ := vo.comps(l)
		hc, _ := vo.comps(h)
		if post, prob := k.postState(fn, b, l, h); prob != "" {
			k.undecided("BOX-1", P.FuncName(fn), fn.Pos(), prob)
		} else if plo, phi, prob := bo.corners(post); prob != "" {
			k.undecided("BOX-1", P.FuncName(fn), fn.Pos(), prob)
		} else {
			k.box("BOX-1", P.FuncName(fn), fn.Pos(), "after SetMinMax(lo,hi): Min() = lo", plo, lc)
			k.box("BOX-1", P.FuncName(fn)+"#max", fn.Pos(), "after SetMinMax(lo,hi): Max() = hi", phi, hc)
		}
	}
	mm := func(op string, xs ...Scalar) Scalar { return e.MinMax(op, xs) }
	// EncapsulatePoint
	if fn := k.fn("math/geometry", "AABB.EncapsulatePoint"); fn != nil {
		k.encapsulatePointLaw(fn, bo)
	}
	// EncapsulateBounds
	if fn := k.fn("math/geometry", "AABB.EncapsulateBounds"); fn != nil {
		if post, prob := k.postState(fn, b, o); prob != "" {
			k.undecided("BOX-1", P.FuncName(fn), fn.Pos(), prob)
		} else if plo, phi, prob := bo.corners(post); prob != "" {
			k.undecided("BOX-1", P.FuncName(fn), fn.Pos(), prob)
		} else {
			var wlo, whi [3]Scalar
			for a := 0; a < 3; a++ {
				wlo[a] = mm("min", lo[a], olo[a], ohi[a])
				whi[a] = mm("max", hi[a], olo[a], ohi[a])
			}
			k.box("BOX-1", P.FuncName(fn), fn.Pos(), "after EncapsulateBounds(o): Min()[a] = min(old Min()[a], o.Min()[a], o.Max()[a]) (both corners encapsulated)", plo, wlo)
			k.box("BOX-1", P.FuncName(fn)+"#max", fn.Pos(), "after EncapsulateBounds(o): Max()[a] = max(old Max()[a], o.Min()[a], o.Max()[a])", phi, whi)
		}
	}
	// ClosestPoint: clamp per axis
	if fn := k.fn("math/geometry", "AABB.ClosestPoint"); fn != nil {
		k.closestPointLaw(fn, bo)
	}
	// Contains
	if fn := k.fn("math/geometry", "AABB.Contains"); fn != nil {
		if got, prob := k.truthSets(fn, b, p); prob != "" {
			k.undecided("BOX-1", P.FuncName(fn), fn.Pos(), prob)
		} else {
			var want []BoolV
			for a := 0; a < 3; a++ {
				want = append(want, e.CmpAtom(token.LEQ, lo[a], pc[a]), e.CmpAtom(token.LEQ, pc[a], hi[a]))
			}
			k.predicateLaw("BOX-1", P.FuncName(fn), fn.Pos(), "Contains(p) ⇔ ∧_a Min()[a] ≤ p[a] ≤ Max()[a]", got, want)
		}
	}
	// Intersects
	if fn := P.Func("math/geometry", "AABB.Intersects"); fn != nil && fn.Blocks != nil {
		if got, prob := k.truthSets(fn, b, o); prob != "" {
			k.undecided("BOX-1", P.FuncName(fn), fn.Pos(), prob)
		} else {
			var want []BoolV
			for a := 0; a < 3; a++ {
				want = append(want, e.CmpAtom(token.LEQ, lo[a], ohi[a]), e.CmpAtom(token.GEQ, hi[a], olo[a]))
			}
			k.predicateLaw("BOX-1", P.FuncName(fn), fn.Pos(), "Intersects(o) ⇔ ∧_a Min()[a] ≤ o.Max()[a] ∧ Max()[a] ≥ o.Min()[a]", got, want)
		}
	}
	// NewAABBFromPoints: running componentwise min / max over all points
	if fn := P.Func("math/geometry", "NewAABBFromPoints"); fn != nil && fn.Blocks != nil {
		k.boxFromPoints(fn, bo)
	}
	R.Floor("BOX-1", 10)
}

func (k *checker) boxFromPoints(fn *ssa.Function, bo *boxOps) {
	e := k.e
	P := k.c.P
	vo := bo.vo
	name := P.FuncName(fn)
	if len(fn.Params) != 1 {
		k.undecided("BOX-1", name, fn.Pos(), "unexpected signature")
		return
	}
	pts := e.Sym(fn.Params[0].Name(), fn.Params[0].Type())
	res := e.Run(fn, []Val{pts})
	if prob := res.Problem(); prob != "" {
		k.undecided("BOX-1", name, fn.Pos(), prob)
		return
	}
	var iter, ret *Path
	for _, p := range res.Paths {
		switch p.Kind {
		case EndLoopBack:
			if iter != nil {
				k.undecided("BOX-1", name, fn.Pos(), "the accumulation loop body branches")
				return
			}
			iter = p
		case EndReturn:
			if ret != nil {
				k.undecided("BOX-1", name, fn.Pos(), "more than one returning path")
				return
			}
			ret = p
		}
	}
	if iter == nil || ret == nil || iter.Iter == nil || iter.Iter.Entry == nil {
		k.undecided("BOX-1", name, fn.Pos(), "no single accumulation loop recognised")
		return
	}
	for _, p := range res.Paths {
		for _, ex := range p.LoopExits {
			if ex.From != ex.Entry.Header {
				k.violate("BOX-1", name, P.Pos(fn.Pos()), "the accumulation loop can be left before all points were seen")
				return
			}
		}
	}
	ent := iter.Iter.Entry
	so, _ := iter.Args[0].(*SliceObj)
	if so == nil {
		k.undecided("BOX-1", name, fn.Pos(), "points is not a slice")
		return
	}
	// which index is read?
	var idx Scalar
	found := false
	for key := range so.content {
		if found {
			k.violate("BOX-1", name, P.Pos(fn.Pos()), "one iteration reads more than one point")
			return
		}
		// recover the index scalar from the havoc'ed counter
		for _, hv := range ent.Havoc {
			if hs, ok := hv.(Scalar); ok {
				for _, c := range []int64{0, 1, -1} {
					cand := e.Add(hs, e.num(c))
					if rfKey(cand.v, e.ST) == key {
						idx = cand
						found = true
					}
				}
			}
		}
	}
	if !found {
		k.undecided("BOX-1", name, fn.Pos(), "the point read by one iteration is not points[counter(+1)]")
		return
	}
	var issues []shapeIssue
	k.checkInductionIdx(iter, idx, so.ln, &issues, true)
	if len(issues) > 0 {
		k.violate("BOX-1", name, P.Pos(fn.Pos()), "the loop does not visit every point: "+issues[0].msg)
		return
	}
	el, ok := vo.comps(e.elemSym(so, idx))
	if !ok {
		k.undecided("BOX-1", name, fn.Pos(), "points are not 3-component vectors")
		return
	}
	loPhi, hiPhi := -1, -1
	for j, hv := range ent.Havoc {
		hc, ok := vo.comps(hv)
		if !ok {
			continue
		}
		nc, ok := vo.comps(iter.Iter.Next[j])
		if !ok {
			continue
		}
		isMin, isMax := true, true
		for a := 0; a < 3; a++ {
			if !nc[a].v.Equal(e.MinMax("min", []Scalar{hc[a], el[a]}).v, e.ST) {
				isMin = false
			}
			if !nc[a].v.Equal(e.MinMax("max", []Scalar{hc[a], el[a]}).v, e.ST) {
				isMax = false
			}
		}
		ic, _ := vo.comps(ent.Init[j])
		switch {
		case isMin:
			loPhi = j
			inf := e.app("math.Inf", []Scalar{e.num(1)})
			for a := 0; a < 3; a++ {
				if !ic[a].v.Equal(inf.v, e.ST) {
					k.violate("BOX-1", name, P.Pos(fn.Pos()), fmt.Sprintf("the running minimum starts at %s, not +Inf", ic[a].v.Short(e.ST, 4)))
					return
				}
			}
		case isMax:
			hiPhi = j
			inf := e.app("math.Inf", []Scalar{e.num(-1)})
			for a := 0; a < 3; a++ {
				if !ic[a].v.Equal(inf.v, e.ST) {
					k.violate("BOX-1", name, P.Pos(fn.Pos()), fmt.Sprintf("the running maximum starts at %s, not -Inf", ic[a].v.Short(e.ST, 4)))
					return
				}
			}
		default:
			k.violate("BOX-1", name, P.Pos(fn.Pos()), fmt.Sprintf("a loop-carried vector is updated to %s, which is neither the componentwise min nor max with the point read", trunc(e.valKey(iter.Iter.Next[j]), 200)))
			return
		}
	}
	if loPhi < 0 || hiPhi < 0 {
		k.violate("BOX-1", name, P.Pos(fn.Pos()), "the loop does not carry both a running componentwise minimum and maximum")
		return
	}
	// the returned box spans exactly [lo, hi]
	if len(ret.Ret) != 1 {
		k.undecided("BOX-1", name, fn.Pos(), "unexpected result")
		return
	}
	rlo, rhi, prob := bo.corners(ret.Ret[0])
	if prob != "" {
		k.undecided("BOX-1", name, fn.Pos(), prob)
		return
	}
	hl, _ := vo.comps(ent.Havoc[loPhi])
	hh, _ := vo.comps(ent.Havoc[hiPhi])
	k.box("BOX-1", name, fn.Pos(), "NewAABBFromPoints: Min() = running componentwise minimum over all points (from +Inf)", rlo, hl)
	k.box("BOX-1", name+"#max", fn.Pos(), "NewAABBFromPoints: Max() = running componentwise maximum over all points (from -Inf)", rhi, hh)
}
