// Package c17: transform types obey their algebra (SYM-ALG / SYM-DEP, SHAPE, AXIS, BOX).
//
// The deciding step is an abstract interpretation of the go/ssa form of the
// anchored functions (exec.go): values are polynomials / rational functions with
// rational coefficients over the symbolic inputs; the laws the property names are
// compared with them as identities. Nothing from the repository is executed.
package c17

import (
	"fmt"
	"os"
	"time"

	"golang.org/x/tools/go/ssa"

	"polycheck/ob"
	"polycheck/props"
)

func init() {
	props.Register(&props.Prop{
		ID: "C17",
		Explanation: "Transform algebra decided on source by polynomial normal forms (DESIGN §3.4 SYM-ALG): the loop-free bodies of " +
			"mat.Matrix4x4.{Add,Multiply,MulPosition,Determinant,Inverse}, mat.Identity, quaternion.{New,Identity,Multiply,Rotate,Normalize,accessors}, " +
			"trs.{New,Position,Scale,Rotation}, TRS.{Transform,Translate,accessors} are interpreted symbolically over go/ssa (callees in the repository and in " +
			"github.com/EliCDavis/vector inlined, generic bodies included) and compared, component by component, with the law the property states: " +
			"entry-wise sum, row-by-column product, identity and two-sided inverse (cross-multiplied by the determinant), Leibniz determinant, affine action and its " +
			"agreement with Multiply, Hamilton product, Rotate = q·v·conj(q), |Rotate(q,v)|² = |q|⁴|v|², Rotate(p*q,v) = Rotate(p,Rotate(q,v)), " +
			"RotationTo(f,t) rotates f onto t for unit non-(anti)parallel f,t (ideal membership modulo |f|²=|t|²=1), TRS = R(S∘v)+T. " +
			"SYM-DEP is the dataflow shadow (input support of every output component). SHAPE-1..4: Mesh.Rotate/Translate/Scale/ApplyTRS and the array forms replace exactly " +
			"the Position attribute of the unmodified input mesh by a fresh array filled by one full-range loop dst[i] = T(src[i]) with T the underlying point transform. " +
			"BOX-1: AABB operations in min/max normal form stated through the box's own Min()/Max(); AXIS-1/2: component tags in aabb.go never cross. " +
			"All statements are over the reals: rounding, NaN and overflow are not modelled; RotationTo's (anti)parallel special cases and FromTheta's trigonometry are not decided.",
		Assumptions: []string{
			"real arithmetic: float64 operations are read as exact field operations; comparisons are total (no NaN); ¬(a<b) is read as a≥b",
			"type parameters constrained to vector.Number are read as real numbers (the float64 instantiation); conversions between numeric types preserve the value",
			"math.Sqrt is uninterpreted except for sqrt(p)² = p; math.Min/math.Max are associative, commutative and idempotent; math.Pow(x, n) = xⁿ for a constant natural n ≤ 8",
			"modeling.Mesh.SetFloat3Attribute(attr, data) returns the receiver with exactly attribute attr replaced by data (its body is C01/C03's obligation, not re-decided here)",
		},
		Controls: controls,
		Run:      run,
	})
}

func run(c *props.Ctx) {
	k := &checker{c: c, e: NewEngine(c.P)}
	t0 := time.Now()
	lap := func(what string) {
		if os.Getenv("C17_DEBUG") != "" {
			fmt.Printf("  %-12s %6.2fs\n", what, time.Since(t0).Seconds())
		}
		t0 = time.Now()
	}
	vo := k.vectorAnchors()
	k.vo = vo
	lap("anchors")
	k.matrixLaws(vo)
	lap("matrix")
	rotate, qo := k.quaternionLaws(vo)
	lap("quaternion")
	k.rotationToLaw(vo, qo, rotate)
	k.fromThetaLaw(vo, qo)
	k.normGuards()
	lap("rotationTo")
	transform, _ := k.trsLaws(vo, qo, rotate)
	lap("trs")
	k.shapeLaws(vo, qo, rotate, transform)
	lap("shape")
	k.boxLaws(vo)
	lap("box")
	k.axisRules()
	lap("axis")
	k.runControls(rotate)
	lap("controls")

	if os.Getenv("C17_DEBUG") != "" {
		for _, o := range c.R.Obs {
			fmt.Printf("  [%s] %-8s %-55s %s %s\n", o.Verdict, o.Rule, o.Construct, o.Msg, fmt.Sprint(o.Facts))
		}
	}
	c.R.Floor("SYM-ALG", 30)
	c.R.Floor("SYM-DEP", 12)
	c.R.Floor("AXIS-0", 5)
	c.R.Extra["sym_identities"] = k.identities
	c.R.Extra["sym_components"] = k.components
	c.R.Extra["sym_max_terms"] = k.maxTerms
	c.R.Extra["functions_analysed"] = len(k.e.Executed)
	c.R.Extra["sym_inlined_calls"] = k.e.Inlined
	c.R.Extra["sym_symbols"] = len(k.e.ST.info)
}

// ---------------------------------------------------------------- self-test controls

const (
	ctlMat  = "math/mat/zz_verif_control_c17.go"
	ctlQuat = "math/quaternion/zz_verif_control_c17.go"
	ctlGeom = "math/geometry/zz_verif_control_c17.go"
	ctlMesh = "modeling/zz_verif_control_c17.go"
	ctlTrs  = "math/trs/zz_verif_control_c17.go"
)

func controls() map[string]string {
	return map[string]string{
		ctlMat: `package mat

// must fire: one entry read from the transposed position
func (a Matrix4x4) verifControlAddBad(b Matrix4x4) Matrix4x4 {
	r := a.verifControlAddGood(b)
	r.X01 = a.X10 + b.X10
	return r
}

func verifControlPlus(x, y float64) float64 { return x + y }

// must stay silent: keyed literal in a different order, through a helper
func (a Matrix4x4) verifControlAddGood(b Matrix4x4) Matrix4x4 {
	return Matrix4x4{
		X33: verifControlPlus(a.X33, b.X33), X32: b.X32 + a.X32, X31: a.X31 + b.X31, X30: a.X30 + b.X30,
		X23: a.X23 + b.X23, X22: a.X22 + b.X22, X21: a.X21 + b.X21, X20: a.X20 + b.X20,
		X13: a.X13 + b.X13, X12: a.X12 + b.X12, X11: a.X11 + b.X11, X10: a.X10 + b.X10,
		X03: a.X03 + b.X03, X02: a.X02 + b.X02, X01: a.X01 + b.X01, X00: a.X00 + b.X00,
	}
}

// must fire: b.X12 where b.X21 belongs, in one term
func (a Matrix4x4) verifControlMulBad(b Matrix4x4) Matrix4x4 {
	r := a.Multiply(b)
	r.X11 = (a.X10 * b.X01) + (a.X11 * b.X11) + (a.X12 * b.X12) + (a.X13 * b.X31)
	return r
}
`,
		ctlQuat: `package quaternion

import "github.com/EliCDavis/vector/vector3"

// must fire: the product in the other order
func (q Quaternion) verifControlMultiplyBad(other Quaternion) Quaternion {
	return other.Multiply(q)
}

// must stay silent: the same product written with vector operations
func (q Quaternion) verifControlMultiplyGood(other Quaternion) Quaternion {
	var v vector3.Float64 = other.v.Scale(q.w).Add(q.v.Scale(other.w)).Add(q.v.Cross(other.v))
	return New(v, q.w*other.w-q.v.Dot(other.v))
}
`,
		ctlGeom: `package geometry

import (
	"math"

	"github.com/EliCDavis/vector/vector3"
)

// must fire (BOX-1): the new maximum is computed from the old minimum
func (aabb *AABB) verifControlEncapsulateBad(p vector3.Float64) {
	aabb.SetMinMax(minVector(aabb.Min(), p), maxVector(aabb.Min(), p))
}

// must stay silent (BOX-1): written out per component, operands swapped
func (aabb *AABB) verifControlEncapsulateGood(p vector3.Float64) {
	lo := aabb.Min()
	hi := aabb.Max()
	nlo := vector3.New(math.Min(p.X(), lo.X()), math.Min(p.Y(), lo.Y()), math.Min(p.Z(), lo.Z()))
	nhi := vector3.New(math.Max(hi.X(), p.X()), math.Max(hi.Y(), p.Y()), math.Max(hi.Z(), p.Z()))
	aabb.SetMinMax(nlo, nhi)
}

// must fire (AXIS-2, BOX-1): X clamped against the Y minimum
func (aabb AABB) verifControlAxisBad(v vector3.Float64) vector3.Float64 {
	min := aabb.Min()
	max := aabb.Max()
	return vector3.New(clamp(v.X(), min.Y(), max.X()), clamp(v.Y(), min.Y(), max.Y()), clamp(v.Z(), min.Z(), max.Z()))
}

// must stay silent (AXIS-2, BOX-1)
func (aabb AABB) verifControlAxisGood(v vector3.Float64) vector3.Float64 {
	min := aabb.Min()
	max := aabb.Max()
	z := math.Min(math.Max(v.Z(), min.Z()), max.Z())
	y := math.Max(math.Min(v.Y(), max.Y()), min.Y())
	return vector3.New(clamp(v.X(), min.X(), max.X()), y, z)
}
`,
		ctlTrs: `package trs

import (
	"runtime"
	"sync"

	"github.com/EliCDavis/vector/vector3"
)

// must fire (SHAPE-2): equal blocks, the remainder len(in) % workers is never written
func (trs TRS) verifControlSpawnBad(in []vector3.Float64) []vector3.Float64 {
	workers := runtime.GOMAXPROCS(0)
	out := make([]vector3.Float64, len(in))
	block := len(in) / workers
	var wg sync.WaitGroup
	wg.Add(workers)
	for w := 0; w < workers; w++ {
		go func(start, end int) {
			defer wg.Done()
			for i := start; i < end; i++ {
				out[i] = trs.Transform(in[i])
			}
		}(w*block, (w+1)*block)
	}
	wg.Wait()
	return out
}

// must stay silent: the last worker takes the remainder
func (trs TRS) verifControlSpawnGood(in []vector3.Float64) []vector3.Float64 {
	workers := runtime.GOMAXPROCS(0)
	out := make([]vector3.Float64, len(in))
	block := len(in) / workers
	var wg sync.WaitGroup
	wg.Add(workers)
	for w := 0; w < workers; w++ {
		lo := w * block
		hi := lo + block
		if w == workers-1 {
			hi = len(in)
		}
		go func(start, end int) {
			defer wg.Done()
			for i := start; i < end; i++ {
				out[i] = trs.Transform(in[i])
			}
		}(lo, hi)
	}
	wg.Wait()
	return out
}
`,
		ctlMesh: `package modeling

import "github.com/EliCDavis/vector/vector3"

// must fire (SHAPE-2): the last element is never written
func (m Mesh) verifControlShapeBad(v vector3.Float64) Mesh {
	oldData := m.v3Data[PositionAttribute]
	out := make([]vector3.Float64, len(oldData))
	for i := 0; i < len(out)-1; i++ {
		out[i] = oldData[i].Add(v)
	}
	return m.SetFloat3Attribute(PositionAttribute, out)
}

// must fire (SHAPE-1): the normals are replaced, not the positions
func (m Mesh) verifControlShapeBad2(v vector3.Float64) Mesh {
	oldData := m.v3Data[PositionAttribute]
	out := make([]vector3.Float64, len(oldData))
	for i := range out {
		out[i] = oldData[i].Add(v)
	}
	return m.SetFloat3Attribute(NormalAttribute, out)
}

// must stay silent: range loop, commuted sum, length hoisted
func (m Mesh) verifControlShapeGood(v vector3.Float64) Mesh {
	oldData := m.v3Data[PositionAttribute]
	n := len(oldData)
	out := make([]vector3.Float64, n)
	for i, p := range oldData {
		out[i] = v.Add(p)
	}
	return m.SetFloat3Attribute(PositionAttribute, out)
}
`,
	}
}

func (k *checker) ctlFn(rel, name string) *ssa.Function {
	f := k.c.P.Func(rel, name)
	if f == nil || f.Blocks == nil {
		k.c.R.Failf("self-test control %s.%s was loaded but cannot be found", rel, name)
		return nil
	}
	return f
}

func (k *checker) control(rule, file, name string, wantBad bool, f func()) {
	k.ctl = &ctlCollector{}
	f()
	col := k.ctl
	k.ctl = nil
	got := ob.Holds
	if col.violations+col.undecided > 0 || col.holds == 0 {
		got = ob.Violation
	}
	want := ob.Holds
	msg := "accepted idiom must stay silent"
	if wantBad {
		want = ob.Violation
		msg = "seeded defect must be reported"
	}
	if len(col.msgs) > 0 {
		msg += ": " + trunc(col.msgs[0], 200)
	}
	k.c.R.Control(rule, "control:"+name, file, got, want, msg)
}

func (k *checker) runControls(rotate *ssa.Function) {
	P := k.c.P
	has := func(file string) bool {
		for f := range P.Controls {
			if len(f) >= len(file) && f[len(f)-len(file):] == file {
				return true
			}
		}
		return false
	}
	if len(P.Controls) == 0 {
		return
	}
	if has(ctlMat) && k.mo != nil {
		for _, c := range []struct {
			name string
			bad  bool
			mul  bool
		}{{"Matrix4x4.verifControlAddBad", true, false}, {"Matrix4x4.verifControlAddGood", false, false}, {"Matrix4x4.verifControlMulBad", true, true}} {
			if fn := k.ctlFn("math/mat", c.name); fn != nil {
				k.control("SYM-ALG", ctlMat, c.name, c.bad, func() {
					if c.mul {
						k.matMulLaw(fn, k.mo)
					} else {
						k.matAddLaw(fn, k.mo)
					}
				})
			}
		}
	}
	if has(ctlQuat) && k.qo != nil && k.vo != nil {
		for _, c := range []struct {
			name string
			bad  bool
		}{{"Quaternion.verifControlMultiplyBad", true}, {"Quaternion.verifControlMultiplyGood", false}} {
			if fn := k.ctlFn("math/quaternion", c.name); fn != nil {
				k.control("SYM-ALG", ctlQuat, c.name, c.bad, func() { k.hamiltonLaw(fn, k.vo, k.qo) })
			}
		}
	}
	if has(ctlGeom) && k.bo != nil {
		for _, c := range []struct {
			name string
			bad  bool
			clos bool
		}{{"AABB.verifControlEncapsulateBad", true, false}, {"AABB.verifControlEncapsulateGood", false, false},
			{"AABB.verifControlAxisBad", true, true}, {"AABB.verifControlAxisGood", false, true}} {
			if fn := k.ctlFn("math/geometry", c.name); fn != nil {
				k.control("BOX-1", ctlGeom, c.name, c.bad, func() {
					if c.clos {
						k.closestPointLaw(fn, k.bo)
					} else {
						k.encapsulatePointLaw(fn, k.bo)
					}
				})
			}
		}
		// AXIS controls were evaluated inside axisRules
		v := ob.Holds
		if k.axisCtlBad > 0 {
			v = ob.Violation
		}
		k.c.R.Control("AXIS-2", "control:AABB.verifControlAxisBad", ctlGeom, v, ob.Violation, "seeded axis mix-up must be reported")
		v = ob.Holds
		if !k.axisCtlGood {
			v = ob.Violation
		}
		k.c.R.Control("AXIS-2", "control:AABB.verifControlAxisGood", ctlGeom, v, ob.Holds, "accepted idiom must stay silent")
	}
	if has(ctlTrs) && k.shapeEnv != nil {
		var base *shapeCase
		for i := range k.shapeCases {
			if k.shapeCases[i].name == "TRS.TransformArray" {
				base = &k.shapeCases[i]
			}
		}
		if base != nil {
			for _, c := range []struct {
				name string
				bad  bool
			}{{"TRS.verifControlSpawnBad", true}, {"TRS.verifControlSpawnGood", false}} {
				if fn := k.ctlFn("math/trs", c.name); fn != nil {
					cs := *base
					cs.name = c.name
					k.control("SHAPE-2", ctlTrs, c.name, c.bad, func() { k.shapeOne(cs, fn) })
				}
			}
		}
	}
	if has(ctlMesh) && k.shapeEnv != nil && k.vo != nil {
		vo := k.vo
		cs := shapeCase{rel: "modeling", law: "new Position[i] = Position[i] + v", mesh: true,
			spec: func(params []Val, elem Val) (Val, string) {
				pc, ok1 := vo.comps(params[0])
				xc, ok2 := vo.comps(elem)
				if !ok1 || !ok2 {
					return nil, "not vectors"
				}
				return vo.mk(vo.add(xc, pc)), ""
			}}
		for _, c := range []struct {
			name string
			bad  bool
		}{{"Mesh.verifControlShapeBad", true}, {"Mesh.verifControlShapeBad2", true}, {"Mesh.verifControlShapeGood", false}} {
			if fn := k.ctlFn("modeling", c.name); fn != nil {
				cs.name = c.name
				k.control("SHAPE-2", ctlMesh, c.name, c.bad, func() { k.shapeOne(cs, fn) })
			}
		}
	}
}
