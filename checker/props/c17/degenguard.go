package c17

import (
	"fmt"
	"go/token"
	"strings"

	"golang.org/x/tools/go/ssa"

	"polycheck/ssau"
)

// NORM-1 — a degeneracy guard tests the vector it guards, not its normalisation.
//
// "The rotation between two directions maps the first onto the second" for all finite vectors includes the
// antiparallel pair, where RotationTo picks an auxiliary axis (Right × from) and falls back to a second one
// (Up × from) when the first degenerates. The fallback is selected by comparing a vector's Length() with a small
// constant. If the vector compared is itself the result of Normalized(), its length is 1 for every non-degenerate
// input and NaN for the degenerate one (0/0) — `NaN < eps` is false, so the comparison can never select the
// fallback and the NaN axis goes on into the quaternion. A contradiction rule (the code states a belief "this may
// be ~0" about a value that is normalised): decided for every comparison of Vector.Length()/LengthSquared() with a
// constant below 1 in the transform packages; the compared vector's origins (through phis) must not be a
// Normalized() result.
func (k *checker) normGuards() {
	p := k.c.P
	n := 0
	for _, rel := range []string{"math/quaternion", "math/trs", "math/mat", "math/geometry"} {
		sp := p.SSAPkg(rel)
		if sp == nil {
			continue
		}
		for _, fn := range p.FuncsOf(sp) {
			if p.IsControl(fn.Pos()) {
				continue
			}
			per := 0
			ssau.AllInstrs(fn, func(in ssa.Instruction) {
				cmp, ok := in.(*ssa.BinOp)
				if !ok {
					return
				}
				var lenCall *ssa.Call
				var other ssa.Value
				switch cmp.Op {
				case token.LSS, token.LEQ, token.GTR, token.GEQ, token.EQL, token.NEQ:
				default:
					return
				}
				if c := vecLenCall(cmp.X); c != nil {
					lenCall, other = c, cmp.Y
				} else if c := vecLenCall(cmp.Y); c != nil {
					lenCall, other = c, cmp.X
				} else {
					return
				}
				cst, ok := other.(*ssa.Const)
				if !ok || cst.Value == nil {
					return
				}
				if f := cst.Float64(); !(f < 1) {
					return
				}
				per++
				n++
				construct := fmt.Sprintf("%s→length-guard#%d", p.FuncName(fn), per)
				if len(lenCall.Call.Args) == 0 {
					return
				}
				if src := normalizedOrigin(lenCall.Call.Args[0], map[ssa.Value]bool{}); src != nil {
					k.c.R.Violate("NORM-1", construct, p.Pos(ssau.PosOf(cmp)),
						"the vector whose length is compared with "+cst.Value.String()+" is the result of Normalized(): its length is 1 or NaN, never small, so the degenerate case this comparison guards (a zero cross product) is never detected and the NaN direction is used",
						"normalised at "+p.Pos(src.Pos()))
				} else {
					k.c.R.Hold("NORM-1", construct, p.Pos(ssau.PosOf(cmp)), "the length compared with "+cst.Value.String()+" is that of an unnormalised vector")
				}
			})
		}
	}
	k.c.R.Floor("NORM-1", 1)
}

func isVectorMethod(c *ssa.Call, names ...string) bool {
	o := ssau.CalleeObj(c)
	if o == nil {
		return false
	}
	rn := ssau.RecvNamed(o)
	if rn == nil || rn.Obj().Pkg() == nil || !strings.HasPrefix(rn.Obj().Pkg().Path(), "github.com/EliCDavis/vector") || rn.Obj().Name() != "Vector" {
		return false
	}
	for _, n := range names {
		if o.Name() == n {
			return true
		}
	}
	return false
}

func vecLenCall(v ssa.Value) *ssa.Call {
	c, ok := v.(*ssa.Call)
	if ok && isVectorMethod(c, "Length", "LengthSquared") {
		return c
	}
	return nil
}

// normalizedOrigin: a Normalized() call among the origins of v (phis and single-store locals followed).
func normalizedOrigin(v ssa.Value, seen map[ssa.Value]bool) *ssa.Call {
	if seen[v] {
		return nil
	}
	seen[v] = true
	switch x := v.(type) {
	case *ssa.Call:
		if isVectorMethod(x, "Normalized") {
			return x
		}
	case *ssa.Phi:
		for _, e := range x.Edges {
			if c := normalizedOrigin(e, seen); c != nil {
				return c
			}
		}
	case *ssa.UnOp:
		if x.Op == token.MUL {
			if a, ok := x.X.(*ssa.Alloc); ok {
				for _, r := range *a.Referrers() {
					if st, ok := r.(*ssa.Store); ok && st.Addr == a {
						// only stores that can reach the load
						if ssau.Reaches(st.Block(), x.Block()) {
							if c := normalizedOrigin(st.Val, seen); c != nil {
								return c
							}
						}
					}
				}
			}
		}
	}
	return nil
}
