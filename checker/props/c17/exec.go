package c17

// Path-sensitive symbolic executor over go/ssa for loop-free code, with inlining
// of repository / EliCDavis-vector callees and one-symbolic-iteration treatment
// of loops (loop-carried values are havoc'ed at the header; a path that reaches
// the back edge ends there and reports the iteration's effect).
//
// Nothing is executed: the interpreter computes polynomial normal forms of the
// values the SSA instructions define.

import (
	"fmt"
	"go/constant"
	"go/token"
	"go/types"
	"math"
	"math/big"
	"sort"
	"strings"

	"golang.org/x/tools/go/ssa"

	"polycheck/load"
	"polycheck/ssau"
)

type Engine struct {
	P        *load.Program
	ST       *SymTab
	MaxDepth int
	MaxPaths int
	MaxSteps int
	// Opaque: callees that are never inlined (their result is an application value).
	Opaque func(fn *ssa.Function) bool
	// Ext switches on the opt-in extensions used by C20 (range over a map as a havoc'ed key per
	// iteration, events for delete(map, key) and for append(slice, other...)). Off by default:
	// the engine then behaves exactly as before.
	Ext  bool
	apps map[symID]*appInfo
	// rfApps: sqrt applications whose argument is a rational function (canonical reuse)
	rfApps   map[string][]symID
	positive []*Poly
	// statistics
	Inlined  int
	Executed map[*ssa.Function]bool
}

// iterModule: the read-only array iterator meshes hand out (At / Len are one-line bodies).
const iterModule = "github.com/EliCDavis/iter"

type appInfo struct {
	op   string
	args []RF
}

func NewEngine(p *load.Program) *Engine {
	return &Engine{P: p, ST: NewSymTab(), MaxDepth: 6, MaxPaths: 256, MaxSteps: 400000,
		apps: map[symID]*appInfo{}, rfApps: map[string][]symID{}, Executed: map[*ssa.Function]bool{}}
}

type EndKind int

const (
	EndReturn EndKind = iota
	EndPanic
	EndLoopBack
	EndAbort
)

func (k EndKind) String() string {
	return [...]string{"return", "panic", "loop-back", "abort"}[k]
}

type EventKind int

const (
	EvStoreElem EventKind = iota
	EvCall                // uninterpreted call
	EvMapUpdate
	EvBulkWrite // copy/append/clear/delete acting on a tracked object
	EvAppend    // append(base, v1..vk) with known values: Slice = base, Args = values, Val = result
	// only with Engine.Ext:
	EvMapDelete   // delete(m, k): Args = [m, k]
	EvAppendSlice // append(base, other...) with an unknown number of values: Slice = base, Args = [other], Val = result
	EvLoadElem    // first read of the (never written) element Slice[Idx]: Val = the symbolic element
	EvMul         // a floating-point product whose operands are not both constants: Args = [x, y]
)

type Event struct {
	Kind   EventKind
	Slice  *SliceObj
	Idx    Scalar
	Path   []int
	Val    Val
	Callee string
	Fn     *types.Func
	Args   []Val
	Loop   *LoopEntry // innermost active loop entry at the time, or nil
	Pos    token.Pos
	In     *ssa.Function
}

type LoopEntry struct {
	ID        string
	Fn        *ssa.Function
	Header    *ssa.BasicBlock
	Loop      *ssau.Loop
	Phis      []*ssa.Phi
	Init      []Val
	Havoc     []Val
	CondIndex int // len(conds) at entry
	Exits     []*ssa.BasicBlock
}

type LoopIter struct {
	Entry *LoopEntry
	Next  []Val
}

type Path struct {
	Conds  []Atom
	Kind   EndKind
	Ret    []Val
	Args   []Val
	Events []Event
	Loops  []*LoopEntry
	Iter   *LoopIter
	Abort  string
	Notes  []string
	// Made: with RunThen, the function value the constructor returned on this path
	Made Val
	// LoopExits: (entry, block the loop was left from)
	LoopExits []LoopExit
	slices    map[string]*SliceObj // every slice object whose elements were touched
}

type LoopExit struct {
	Entry *LoopEntry
	From  *ssa.BasicBlock
}

type Result struct {
	Fn    *ssa.Function
	Paths []*Path
	Err   string
}

// Returns gives the paths that end in a return.
func (r *Result) Returns() []*Path {
	var out []*Path
	for _, p := range r.Paths {
		if p.Kind == EndReturn {
			out = append(out, p)
		}
	}
	return out
}

// Problem reports why the result cannot be used for a decision ("" = fine).
func (r *Result) Problem() string {
	if r.Err != "" {
		return r.Err
	}
	for _, p := range r.Paths {
		if p.Kind == EndAbort {
			return p.Abort
		}
	}
	return ""
}

type pathEnd struct {
	kind  EndKind
	iter  *LoopIter
	abort string
}

type xrun struct {
	e         *Engine
	decisions []bool
	pos       int
	conds     []Atom
	condSet   map[string]bool
	events    []Event
	notes     []string
	loops     []*LoopEntry
	exits     []LoopExit
	active    []*LoopEntry // stack of active loop entries (across frames)
	steps     int
	stamp     int
	stack     []*ssa.Function
	lookups   map[string]*SliceObj
	globals   map[*ssa.Global]*Cell
	slices    map[string]*SliceObj
	then      []Val
}

// Run explores every path of fn applied to args (which are cloned per path).
func (e *Engine) Run(fn *ssa.Function, args []Val) *Result { return e.RunThen(fn, args, nil) }

// RunThen runs fn(args) and, when then != nil, applies the function value it returns to then
// within the same path (constructor + closure call): Ret is the result of that second call.
func (e *Engine) RunThen(fn *ssa.Function, args []Val, then []Val) *Result {
	res := &Result{Fn: fn}
	if fn == nil || fn.Blocks == nil {
		res.Err = "function has no body"
		return res
	}
	var prefix []bool
	for {
		r := &xrun{e: e, decisions: append([]bool(nil), prefix...), condSet: map[string]bool{},
			lookups: map[string]*SliceObj{}, globals: map[*ssa.Global]*Cell{}, slices: map[string]*SliceObj{}}
		cl := newCloner()
		cargs := make([]Val, len(args))
		for i, a := range args {
			cargs[i] = cl.val(a)
		}
		var cthen []Val
		if then != nil {
			cthen = make([]Val, len(then))
			for i, a := range then {
				cthen[i] = cl.val(a)
			}
		}
		r.then = cthen
		p := r.execute(fn, cargs)
		p.Args = cargs
		res.Paths = append(res.Paths, p)
		d := r.decisions
		for len(d) > 0 && !d[len(d)-1] {
			d = d[:len(d)-1]
		}
		if len(d) == 0 {
			break
		}
		d[len(d)-1] = false
		prefix = d
		if len(res.Paths) >= e.MaxPaths {
			res.Err = fmt.Sprintf("more than %d paths", e.MaxPaths)
			break
		}
	}
	return res
}

func (r *xrun) execute(fn *ssa.Function, args []Val) (p *Path) {
	p = &Path{}
	defer func() {
		if x := recover(); x != nil {
			pe, ok := x.(pathEnd)
			if !ok {
				panic(x)
			}
			p.Kind = pe.kind
			p.Iter = pe.iter
			p.Abort = pe.abort
		}
		p.Conds = r.conds
		p.Events = r.events
		p.Notes = r.notes
		p.Loops = r.loops
		p.LoopExits = r.exits
		p.slices = r.slices
	}()
	p.Ret = r.call(fn, args, nil, "", 0)
	if r.then != nil {
		if len(p.Ret) != 1 {
			r.abort("constructor returns %d values", len(p.Ret))
		}
		p.Made = p.Ret[0]
		switch fv := p.Ret[0].(type) {
		case *ClosureV:
			p.Ret = r.call(fv.fn, r.then, fv.binds, "closure/", 0)
		case *ssa.Function:
			p.Ret = r.call(fv, r.then, nil, "closure/", 0)
		default:
			// an uninterpreted function value (a parameter, an element of a parameter slice)
			p.Ret = []Val{e0(r).applyOpaque(r.e.valKey(fv), r.then)}
		}
	}
	p.Kind = EndReturn
	return p
}

func e0(r *xrun) *Engine { return r.e }

// applyOpaque is the value of calling the uninterpreted function `name` on args (components flattened).
func (e *Engine) applyOpaque(name string, args []Val) Val {
	var sc []Scalar
	for _, a := range args {
		var ls []leaf
		leaves(a, "", &ls)
		for _, l := range ls {
			sc = append(sc, l.s)
		}
	}
	return e.app("call:dyn:"+name, sc)
}

func (r *xrun) abort(format string, a ...any) {
	panic(pathEnd{kind: EndAbort, abort: fmt.Sprintf(format, a...)})
}

func (r *xrun) note(format string, a ...any) {
	s := fmt.Sprintf(format, a...)
	for _, n := range r.notes {
		if n == s {
			return
		}
	}
	r.notes = append(r.notes, s)
}

func (r *xrun) decide(a Atom) bool {
	if r.condSet[a.key] {
		return true
	}
	if r.condSet[a.neg] {
		return false
	}
	var d bool
	if r.pos < len(r.decisions) {
		d = r.decisions[r.pos]
	} else {
		d = true
		r.decisions = append(r.decisions, true)
	}
	r.pos++
	if d {
		r.conds = append(r.conds, a)
		r.condSet[a.key] = true
	} else {
		r.conds = append(r.conds, a.Not())
		r.condSet[a.neg] = true
	}
	return d
}

type frame struct {
	r     *xrun
	fn    *ssa.Function
	env   map[ssa.Value]Val
	binds []Val
	ctx   string
	depth int
	loops []*ssau.Loop
	hdr   map[*ssa.BasicBlock]*ssau.Loop
	act   map[*ssau.Loop]*LoopEntry
	// unrolled: (Ext) visits of the headers of constant-bound loops that are executed concretely
	unrolled map[*ssa.BasicBlock]int
}

func (r *xrun) call(fn *ssa.Function, args []Val, binds []Val, ctx string, depth int) []Val {
	e := r.e
	e.Executed[fn] = true
	f := &frame{r: r, fn: fn, env: map[ssa.Value]Val{}, binds: binds, ctx: ctx, depth: depth,
		hdr: map[*ssa.BasicBlock]*ssau.Loop{}, act: map[*ssau.Loop]*LoopEntry{}}
	if len(args) != len(fn.Params) {
		r.abort("arity mismatch calling %s", fn)
	}
	for i, p := range fn.Params {
		f.env[p] = args[i]
	}
	f.loops = ssau.Loops(fn)
	for _, l := range f.loops {
		f.hdr[l.Header] = l
	}
	r.stack = append(r.stack, fn)
	nActive := len(r.active)
	defer func() {
		r.stack = r.stack[:len(r.stack)-1]
		r.active = r.active[:nActive]
	}()

	var prev *ssa.BasicBlock
	blk := fn.Blocks[0]
	for {
		// leaving loops?
		if prev != nil {
			for _, l := range f.loops {
				if ent := f.act[l]; ent != nil && l.Blocks[prev] && !l.Blocks[blk] {
					r.exits = append(r.exits, LoopExit{ent, prev})
					delete(f.act, l)
					for i := len(r.active) - 1; i >= nActive; i-- {
						if r.active[i] == ent {
							r.active = append(r.active[:i], r.active[i+1:]...)
							break
						}
					}
				}
			}
		}
		// loop header handling
		havoc := false
		if l := f.hdr[blk]; l != nil && prev != nil && e.Ext && unrollable(blk) {
			// (Ext) a counted loop over at most 4 constant indices is executed iteration by iteration
			if f.unrolled == nil {
				f.unrolled = map[*ssa.BasicBlock]int{}
			}
			f.unrolled[blk]++
			if f.unrolled[blk] > 64 {
				r.abort("constant-bound loop in %s does not terminate symbolically", fn)
			}
		} else if l != nil && prev != nil {
			if l.Blocks[prev] {
				// back edge: the symbolic iteration ends here
				ent := f.act[l]
				it := &LoopIter{Entry: ent}
				if ent != nil {
					for _, phi := range ent.Phis {
						it.Next = append(it.Next, f.eval(phi.Edges[predIndex(blk, prev)]))
					}
				}
				panic(pathEnd{kind: EndLoopBack, iter: it})
			}
			havoc = true
			ent := &LoopEntry{ID: fmt.Sprintf("%s%s.L%d", ctx, fn.Name(), blk.Index), Fn: fn, Header: blk, Loop: l, CondIndex: len(r.conds)}
			for _, in := range blk.Instrs {
				phi, ok := in.(*ssa.Phi)
				if !ok {
					break
				}
				ent.Phis = append(ent.Phis, phi)
				ent.Init = append(ent.Init, f.eval(phi.Edges[predIndex(blk, prev)]))
				nm := phi.Comment
				if nm == "" {
					nm = phi.Name()
				}
				hv := e.symVal(ent.ID+"."+nm, phi.Type(), SymLoop, ent.ID, -1, nil)
				ent.Havoc = append(ent.Havoc, hv)
			}
			for i, phi := range ent.Phis {
				f.env[phi] = ent.Havoc[i]
			}
			f.havocLoopStores(l, ent)
			f.act[l] = ent
			r.loops = append(r.loops, ent)
			r.active = append(r.active, ent)
		}
		// phis (simultaneous)
		if !havoc && prev != nil {
			var phis []*ssa.Phi
			var vals []Val
			pi := predIndex(blk, prev)
			for _, in := range blk.Instrs {
				phi, ok := in.(*ssa.Phi)
				if !ok {
					break
				}
				phis = append(phis, phi)
				vals = append(vals, f.eval(phi.Edges[pi]))
			}
			for i, phi := range phis {
				f.env[phi] = vals[i]
			}
		}
		var next *ssa.BasicBlock
		for _, in := range blk.Instrs {
			r.steps++
			if r.steps > e.MaxSteps {
				r.abort("step limit")
			}
			switch x := in.(type) {
			case *ssa.Phi:
				continue
			case *ssa.If:
				c := f.eval(x.Cond)
				b := f.asBool(c)
				var taken bool
				if b.isConst {
					taken = b.c
				} else {
					taken = r.decide(b.atom)
				}
				if taken {
					next = blk.Succs[0]
				} else {
					next = blk.Succs[1]
				}
			case *ssa.Jump:
				next = blk.Succs[0]
			case *ssa.Return:
				out := make([]Val, len(x.Results))
				for i, rv := range x.Results {
					out[i] = f.eval(rv)
				}
				return out
			case *ssa.Panic:
				panic(pathEnd{kind: EndPanic})
			default:
				f.step(in)
			}
		}
		if next == nil {
			r.abort("block %d of %s has no terminator", blk.Index, fn)
		}
		prev, blk = blk, next
	}
}

func predIndex(b, pred *ssa.BasicBlock) int {
	for i, p := range b.Preds {
		if p == pred {
			return i
		}
	}
	return 0
}

// havocLoopStores forgets the contents of every cell the loop body writes directly.
func (f *frame) havocLoopStores(l *ssau.Loop, ent *LoopEntry) {
	var blocks []*ssa.BasicBlock
	for b := range l.Blocks {
		blocks = append(blocks, b)
	}
	sort.Slice(blocks, func(i, j int) bool { return blocks[i].Index < blocks[j].Index })
	n := 0
	for _, b := range blocks {
		for _, in := range b.Instrs {
			st, ok := in.(*ssa.Store)
			if !ok {
				continue
			}
			// walk to the root of the address
			var path []int
			a := st.Addr
			okPath := true
			for okPath {
				switch x := a.(type) {
				case *ssa.FieldAddr:
					path = append([]int{x.Field}, path...)
					a = x.X
					continue
				case *ssa.IndexAddr:
					if _, isSlice := x.X.Type().Underlying().(*types.Slice); isSlice {
						okPath = false // slice element: tracked as an event
						a = nil
					} else if k, isConst := ssau.ConstInt(x.Index); isConst {
						path = append([]int{int(k)}, path...)
						a = x.X
						continue
					} else {
						okPath = false
					}
				}
				break
			}
			if a == nil {
				continue
			}
			if bb := valueBlock(a); bb != nil && l.Blocks[bb] {
				continue // allocated inside the loop: fresh per iteration
			}
			root, have := f.env[a]
			if !have {
				if _, isParam := a.(*ssa.Parameter); !isParam {
					if _, isFV := a.(*ssa.FreeVar); !isFV {
						continue
					}
				}
				root = f.eval(a)
			}
			pv, isPtr := root.(PtrV)
			if !isPtr || !okPath {
				f.r.note("loop %s writes memory the engine cannot name (%s)", ent.ID, a.Name())
				continue
			}
			full := append(append([]int(nil), pv.path...), path...)
			t := st.Val.Type()
			n++
			hv := f.r.e.symVal(fmt.Sprintf("%s.mem%d", ent.ID, n), t, SymLoop, ent.ID, -1, nil)
			if nv, ok := setPath(pv.cell.v, full, hv); ok {
				pv.cell.v = nv
			} else {
				f.r.note("loop %s writes memory the engine cannot name (%s)", ent.ID, a.Name())
			}
		}
	}
}

func valueBlock(v ssa.Value) *ssa.BasicBlock {
	if in, ok := v.(ssa.Instruction); ok {
		return in.Block()
	}
	return nil
}

// ---------------------------------------------------------------- evaluation

func (f *frame) eval(v ssa.Value) Val {
	switch x := v.(type) {
	case *ssa.Const:
		return f.constVal(x)
	case *ssa.Function:
		return x
	case *ssa.Builtin:
		return OpaqueV{name: "builtin:" + x.Name()}
	case *ssa.Global:
		c := f.r.globals[x]
		if c == nil {
			nm := x.Name()
			if x.Pkg != nil {
				nm = x.Pkg.Pkg.Name() + "." + nm
			}
			el := x.Type().Underlying().(*types.Pointer).Elem()
			c = &Cell{id: "global:" + nm, v: f.r.e.symVal("global:"+nm, el, SymInput, "global:"+nm, -1, nil)}
			f.r.globals[x] = c
		}
		return PtrV{cell: c}
	case *ssa.FreeVar:
		for i, fv := range f.fn.FreeVars {
			if fv == x {
				if i < len(f.binds) {
					return f.binds[i]
				}
			}
		}
		f.r.abort("unbound free variable %s in %s", x.Name(), f.fn)
	}
	if val, ok := f.env[v]; ok {
		return val
	}
	f.r.abort("value %s of %s used before it was computed", v.Name(), f.fn)
	return nil
}

func ratOfConst(c constant.Value) (*big.Rat, bool) {
	switch c.Kind() {
	case constant.Int, constant.Float:
		r, ok := new(big.Rat).SetString(c.ExactString())
		return r, ok
	}
	return nil, false
}

func (f *frame) constVal(c *ssa.Const) Val {
	t := c.Type()
	if c.Value == nil {
		return f.r.e.zeroVal(t)
	}
	switch c.Value.Kind() {
	case constant.Bool:
		return BoolV{isConst: true, c: constant.BoolVal(c.Value)}
	case constant.String:
		return StrV{isConst: true, s: constant.StringVal(c.Value)}
	case constant.Int, constant.Float:
		if f.r.e.Ext {
			// (Ext) a constant of type float64 is the float64 it is rounded to at run time (math.Pi/2 is not exact π/2)
			if b, ok := t.Underlying().(*types.Basic); ok && b.Kind() == types.Float64 {
				if x, _ := constant.Float64Val(constant.ToFloat(c.Value)); !math.IsInf(x, 0) && !math.IsNaN(x) {
					return Scalar{v: rfPoly(PolyConst(new(big.Rat).SetFloat64(x)))}
				}
			}
		}
		if r, ok := ratOfConst(c.Value); ok {
			return Scalar{v: rfPoly(PolyConst(r))}
		}
	}
	return OpaqueV{name: "const:" + c.Value.ExactString()}
}

func (f *frame) asBool(v Val) BoolV {
	switch x := v.(type) {
	case BoolV:
		return x
	}
	k := f.r.e.valKey(v)
	return BoolV{atom: Atom{key: "o:" + k, neg: "!o:" + k}}
}

func (f *frame) set(v ssa.Value, val Val) { f.env[v] = val }

func (f *frame) step(in ssa.Instruction) {
	e := f.r.e
	switch x := in.(type) {
	case *ssa.DebugRef, *ssa.RunDefers:
		return
	case *ssa.Alloc:
		f.r.stamp++
		el := x.Type().Underlying().(*types.Pointer).Elem()
		c := &Cell{id: fmt.Sprintf("%s%s.%s", f.ctx, f.fn.Name(), x.Name()), v: e.zeroVal(el), stamp: f.r.stamp}
		f.set(x, PtrV{cell: c})
	case *ssa.Store:
		f.store(f.eval(x.Addr), f.eval(x.Val), x)
	case *ssa.UnOp:
		f.set(x, f.unop(x))
	case *ssa.BinOp:
		f.set(x, f.binop(x.Op, f.eval(x.X), f.eval(x.Y), x.X.Type(), x))
	case *ssa.FieldAddr:
		switch p := f.eval(x.X).(type) {
		case PtrV:
			f.set(x, PtrV{cell: p.cell, path: appendPath(p.path, x.Field)})
		case ElemPtr:
			f.set(x, ElemPtr{sl: p.sl, idx: p.idx, path: appendPath(p.path, x.Field)})
		default:
			f.set(x, OpaqueV{name: "&(" + e.valKey(p) + ")." + fieldName(x.X.Type(), x.Field)})
		}
	case *ssa.Field:
		f.set(x, f.field(f.eval(x.X), x.Field, x.X.Type(), x.Type()))
	case *ssa.IndexAddr:
		base := f.eval(x.X)
		idx := f.eval(x.Index)
		switch b := base.(type) {
		case *SliceObj:
			is, ok := idx.(Scalar)
			if !ok {
				f.r.abort("non-scalar slice index in %s", f.fn)
			}
			f.set(x, ElemPtr{sl: b, idx: is})
		case PtrV:
			if is, ok := idx.(Scalar); ok {
				if c, isC := is.v.Const(); isC && c.IsInt() {
					f.set(x, PtrV{cell: b.cell, path: appendPath(b.path, int(c.Num().Int64()))})
					return
				}
			}
			f.r.note("array indexed by a non-constant in %s", f.fn)
			f.set(x, OpaqueV{name: "&" + e.valKey(base) + "[" + e.valKey(idx) + "]"})
		case ElemPtr:
			// (Ext) constant index into an array that is (part of) a slice element: s[i][2]
			if is, ok := idx.(Scalar); ok && e.Ext {
				if c, isC := is.v.Const(); isC && c.IsInt() {
					f.set(x, ElemPtr{sl: b.sl, idx: b.idx, path: appendPath(b.path, int(c.Num().Int64()))})
					return
				}
			}
			f.set(x, OpaqueV{name: "&" + e.valKey(base) + "[" + e.valKey(idx) + "]"})
		default:
			f.set(x, OpaqueV{name: "&" + e.valKey(base) + "[" + e.valKey(idx) + "]"})
		}
	case *ssa.Index:
		base := f.eval(x.X)
		idx := f.eval(x.Index)
		if av, ok := base.(*ArrV); ok {
			if is, ok := idx.(Scalar); ok {
				if c, isC := is.v.Const(); isC && c.IsInt() && int(c.Num().Int64()) < len(av.e) {
					f.set(x, av.e[c.Num().Int64()])
					return
				}
			}
		}
		f.set(x, f.opaqueOf(x.Type(), e.valKey(base)+"["+e.valKey(idx)+"]", nil))
	case *ssa.Extract:
		t := f.eval(x.Tuple)
		if mv, ok := t.(*MultiV); ok && x.Index < len(mv.v) {
			f.set(x, mv.v[x.Index])
			return
		}
		f.set(x, f.opaqueOf(x.Type(), e.valKey(t)+"#"+fmt.Sprint(x.Index), nil))
	case *ssa.ChangeType:
		f.set(x, f.eval(x.X))
	case *ssa.MultiConvert:
		f.set(x, f.eval(x.X))
	case *ssa.Convert:
		f.set(x, f.convert(x))
	case *ssa.MakeInterface:
		f.set(x, f.eval(x.X))
	case *ssa.ChangeInterface:
		f.set(x, f.eval(x.X))
	case *ssa.TypeAssert:
		v := f.eval(x.X)
		if x.CommaOk {
			k := e.valKey(v) + ".(" + x.AssertedType.String() + ")"
			f.set(x, &MultiV{v: []Val{v, BoolV{atom: Atom{key: "o:" + k, neg: "!o:" + k}}}})
		} else {
			f.set(x, v)
		}
	case *ssa.MakeClosure:
		cv := &ClosureV{fn: x.Fn.(*ssa.Function)}
		for _, b := range x.Bindings {
			cv.binds = append(cv.binds, f.eval(b))
		}
		f.set(x, cv)
	case *ssa.MakeSlice:
		f.r.stamp++
		ln, ok := f.eval(x.Len).(Scalar)
		if !ok {
			f.r.abort("make with non-scalar length in %s", f.fn)
		}
		so := &SliceObj{id: fmt.Sprintf("%s%s.%s", f.ctx, f.fn.Name(), x.Name()), origin: "make", ln: ln,
			elem: x.Type().Underlying().(*types.Slice).Elem(), content: map[string]Val{}, stamp: f.r.stamp}
		f.set(x, so)
	case *ssa.MakeMap:
		mt := x.Type().Underlying().(*types.Map)
		f.set(x, &MapV{name: fmt.Sprintf("%s%s.%s", f.ctx, f.fn.Name(), x.Name()), fresh: true, keyTyp: mt.Key(), elTyp: mt.Elem()})
	case *ssa.MakeChan:
		f.set(x, OpaqueV{name: "chan:" + x.Name()})
	case *ssa.MapUpdate:
		f.r.events = append(f.r.events, Event{Kind: EvMapUpdate, Args: []Val{f.eval(x.Map), f.eval(x.Key), f.eval(x.Value)}, Loop: f.r.curLoop(), Pos: x.Pos(), In: f.fn})
	case *ssa.Lookup:
		f.set(x, f.lookup(x))
	case *ssa.Slice:
		f.set(x, f.sliceOp(x))
	case *ssa.Call:
		f.set(x, f.doCall(x))
	case *ssa.Defer:
		f.r.note("defer in %s is not modelled", f.fn)
	case *ssa.Go:
		f.r.note("go statement in %s is not modelled", f.fn)
	case *ssa.Range:
		if e.Ext {
			if _, isMap := x.X.Type().Underlying().(*types.Map); isMap {
				f.set(x, &RangeIterV{over: f.eval(x.X), id: fmt.Sprintf("%s%s.%s", f.ctx, f.fn.Name(), x.Name())})
				return
			}
		}
		f.r.abort("range over map/string in %s is not modelled", f.fn)
	case *ssa.Next:
		if e.Ext && !x.IsString {
			if it, ok := f.eval(x.Iter).(*RangeIterV); ok {
				f.set(x, f.nextOf(x, it))
				return
			}
		}
		f.r.abort("range over map/string in %s is not modelled", f.fn)
	case *ssa.Select, *ssa.Send:
		f.r.abort("channel operation in %s is not modelled", f.fn)
	case *ssa.SliceToArrayPointer:
		f.set(x, OpaqueV{name: "s2a:" + x.Name()})
	default:
		f.r.abort("instruction %T in %s is not modelled", in, f.fn)
	}
}

func appendPath(p []int, i int) []int {
	out := make([]int, len(p)+1)
	copy(out, p)
	out[len(p)] = i
	return out
}

func fieldName(t types.Type, i int) string {
	if p, ok := t.Underlying().(*types.Pointer); ok {
		t = p.Elem()
	}
	if st, ok := t.Underlying().(*types.Struct); ok && i < st.NumFields() {
		return st.Field(i).Name()
	}
	return fmt.Sprint(i)
}

func (r *xrun) curLoop() *LoopEntry {
	if len(r.active) == 0 {
		return nil
	}
	return r.active[len(r.active)-1]
}

// opaqueOf builds an uninterpreted value of type t named name.
func (f *frame) opaqueOf(t types.Type, name string, deps depset) Val {
	e := f.r.e
	switch kindOf(t) {
	case kNum:
		id := e.ST.Intern(name, SymApp)
		return Scalar{v: rfPoly(PolySym(id)), deps: deps}
	case kBool:
		return BoolV{atom: Atom{key: "o:" + name, neg: "!o:" + name}, deps: deps}
	case kStr:
		return StrV{s: name}
	case kStruct:
		st := t.Underlying().(*types.Struct)
		tv := &TupleV{typ: t, f: make([]Val, st.NumFields())}
		for i := range tv.f {
			tv.f[i] = f.opaqueOf(st.Field(i).Type(), name+"."+st.Field(i).Name(), deps)
		}
		return tv
	case kSlice:
		id := e.ST.Intern("len("+name+")", SymLen)
		return &SliceObj{id: name, origin: "opaque", ln: e.symScalar(id), elem: t.Underlying().(*types.Slice).Elem(), content: map[string]Val{}}
	case kMap:
		m := t.Underlying().(*types.Map)
		return &MapV{name: name, keyTyp: m.Key(), elTyp: m.Elem()}
	}
	return OpaqueV{name: name}
}

func (f *frame) elemBase(p ElemPtr) Val {
	e := f.r.e
	f.r.slices[p.sl.id] = p.sl
	k := rfKey(p.idx.v, e.ST)
	if v, ok := p.sl.content[k]; ok {
		return v
	}
	v := e.elemSym(p.sl, p.idx)
	p.sl.content[k] = v
	if e.Ext {
		f.r.events = append(f.r.events, Event{Kind: EvLoadElem, Slice: p.sl, Idx: p.idx, Val: v, Loop: f.r.curLoop(), In: f.fn})
	}
	return v
}

// elemSym is the symbolic (never written) element sl[idx]; it also depends on the index used to fetch it.
func (e *Engine) elemSym(sl *SliceObj, idx Scalar) Val {
	k := rfKey(idx.v, e.ST)
	name := "elem(" + sl.id + ")[" + k + "]"
	v := e.symVal(name, sl.elem, SymElem, sl.id, -1, &SymInfo{Slice: sl.id, Idx: k})
	return addDeps(v, idx.deps)
}

func addDeps(v Val, d depset) Val {
	if len(d) == 0 {
		return v
	}
	switch x := v.(type) {
	case Scalar:
		return Scalar{v: x.v, deps: x.deps.union(d)}
	case *TupleV:
		n := &TupleV{typ: x.typ, f: make([]Val, len(x.f))}
		for i, fv := range x.f {
			n.f[i] = addDeps(fv, d)
		}
		return n
	case *ArrV:
		n := &ArrV{typ: x.typ, e: make([]Val, len(x.e))}
		for i, fv := range x.e {
			n.e[i] = addDeps(fv, d)
		}
		return n
	}
	return v
}

func (f *frame) load(p Val, t types.Type) Val {
	e := f.r.e
	switch x := p.(type) {
	case PtrV:
		v, ok := getPath(x.cell.v, x.path)
		if !ok {
			// the cell holds an opaque value: project symbolically
			return f.opaqueOf(t, "*"+e.valKey(p), nil)
		}
		return v
	case ElemPtr:
		base := f.elemBase(x)
		v, ok := getPath(base, x.path)
		if !ok {
			return f.opaqueOf(t, "*"+e.valKey(p), nil)
		}
		return v
	case NilV:
		f.r.abort("nil dereference in %s", f.fn)
	}
	return f.opaqueOf(t, "*"+e.valKey(p), nil)
}

func (f *frame) store(addr, val Val, at *ssa.Store) {
	switch x := addr.(type) {
	case PtrV:
		nv, ok := setPath(x.cell.v, x.path, val)
		if !ok {
			f.r.note("store through %s could not be resolved in %s", f.r.e.valKey(addr), f.fn)
			return
		}
		x.cell.v = nv
	case ElemPtr:
		k := rfKey(x.idx.v, f.r.e.ST)
		f.r.slices[x.sl.id] = x.sl
		if len(x.path) == 0 {
			x.sl.content[k] = val
		} else {
			base := f.elemBase(x)
			if nv, ok := setPath(base, x.path, val); ok {
				x.sl.content[k] = nv
			}
		}
		f.r.events = append(f.r.events, Event{Kind: EvStoreElem, Slice: x.sl, Idx: x.idx, Path: x.path, Val: val, Loop: f.r.curLoop(), Pos: at.Pos(), In: f.fn})
	default:
		f.r.note("store through an address the engine cannot name (%s) in %s", f.r.e.valKey(addr), f.fn)
	}
}

func (f *frame) unop(x *ssa.UnOp) Val {
	v := f.eval(x.X)
	switch x.Op {
	case token.MUL:
		return f.load(v, x.Type())
	case token.SUB:
		if s, ok := v.(Scalar); ok {
			return Scalar{v: s.v.Neg(), deps: s.deps}
		}
	case token.NOT:
		b := f.asBool(v)
		if b.isConst {
			return BoolV{isConst: true, c: !b.c}
		}
		return BoolV{atom: b.atom.Not(), deps: b.deps}
	case token.ARROW:
		f.r.abort("channel receive in %s is not modelled", f.fn)
	}
	return f.opaqueOf(x.Type(), x.Op.String()+"("+f.r.e.valKey(v)+")", nil)
}

func (f *frame) field(v Val, i int, structT, ft types.Type) Val {
	if tv, ok := v.(*TupleV); ok && i < len(tv.f) {
		return tv.f[i]
	}
	return f.opaqueOf(ft, f.r.e.valKey(v)+"."+fieldName(structT, i), nil)
}

func (f *frame) convert(x *ssa.Convert) Val {
	v := f.eval(x.X)
	from, to := x.X.Type(), x.Type()
	if s, ok := v.(Scalar); ok && kindOf(to) == kNum {
		if isFloatType(from) && isIntType(to) {
			return f.r.e.app("trunc", []Scalar{s})
		}
		return s // int->int, int->float, float->float: value preserved (no overflow / rounding modelled)
	}
	if kindOf(from) == kindOf(to) && kindOf(to) != kOther {
		return v
	}
	return f.opaqueOf(to, "conv:"+to.String()+"("+f.r.e.valKey(v)+")", nil)
}

// ---------------------------------------------------------------- arithmetic

// app builds the uninterpreted application op(args) as a scalar.
func (e *Engine) app(op string, args []Scalar) Scalar {
	var deps depset
	rfs := make([]RF, len(args))
	keys := make([]string, len(args))
	for i, a := range args {
		deps = deps.union(a.deps)
		rfs[i] = a.v
		keys[i] = rfKey(a.v, e.ST)
	}
	name := op + "(" + strings.Join(keys, ", ") + ")"
	id := e.ST.Intern(name, SymApp)
	if _, ok := e.apps[id]; !ok {
		e.apps[id] = &appInfo{op: op, args: rfs}
	}
	return Scalar{v: rfPoly(PolySym(id)), deps: deps}
}

// singleSym: is a exactly one symbol with coefficient 1?
func singleSym(a RF) (symID, bool) {
	if a.d != nil || len(a.n.t) != 1 {
		return 0, false
	}
	for _, t := range a.n.t {
		if len(t.m) == 1 && t.m[0].e == 1 && t.c.Cmp(big.NewRat(1, 1)) == 0 {
			return t.m[0].s, true
		}
	}
	return 0, false
}

// MinMax builds the associative-commutative-idempotent normal form of min/max.
func (e *Engine) MinMax(op string, args []Scalar) Scalar {
	type item struct {
		key string
		s   Scalar
	}
	var flat []item
	var deps depset
	var addArg func(s Scalar)
	addArg = func(s Scalar) {
		deps = deps.union(s.deps)
		if id, ok := singleSym(s.v); ok {
			if ai := e.apps[id]; ai != nil && ai.op == op {
				for _, a := range ai.args {
					addArg(Scalar{v: a})
				}
				return
			}
		}
		flat = append(flat, item{rfKey(s.v, e.ST), s})
	}
	for _, a := range args {
		addArg(a)
	}
	// fold constants
	var cbest *big.Rat
	var rest []item
	for _, it := range flat {
		if c, ok := it.s.v.Const(); ok {
			if cbest == nil || (op == "min" && c.Cmp(cbest) < 0) || (op == "max" && c.Cmp(cbest) > 0) {
				cbest = c
			}
			continue
		}
		rest = append(rest, it)
	}
	if cbest != nil {
		s := Scalar{v: rfPoly(PolyConst(cbest))}
		rest = append(rest, item{rfKey(s.v, e.ST), s})
	}
	sort.Slice(rest, func(i, j int) bool { return rest[i].key < rest[j].key })
	var uniq []item
	for i, it := range rest {
		if i > 0 && it.key == rest[i-1].key {
			continue
		}
		uniq = append(uniq, it)
	}
	if len(uniq) == 1 {
		return Scalar{v: uniq[0].s.v, deps: deps}
	}
	sc := make([]Scalar, len(uniq))
	for i, it := range uniq {
		sc[i] = it.s
	}
	out := e.app(op, sc)
	out.deps = deps
	return out
}

// Sqrt builds sqrt(p) with the rewrite sqrt(p)^2 -> p (p a polynomial). For a rational
// argument an existing sqrt whose argument is the same rational function (compared by
// cross-multiplication) is reused, so the symbol is canonical.
func (e *Engine) Sqrt(a Scalar) Scalar {
	if c, ok := a.v.Const(); ok {
		if c.Sign() == 0 {
			return Scalar{v: rfInt(0), deps: a.deps}
		}
		if c.Cmp(big.NewRat(1, 1)) == 0 {
			return Scalar{v: rfInt(1), deps: a.deps}
		}
	}
	if a.v.d != nil {
		for _, id := range e.rfApps["sqrt"] {
			if ai := e.apps[id]; ai != nil && len(ai.args) == 1 && ai.args[0].Equal(a.v, e.ST) {
				return Scalar{v: rfPoly(PolySym(id)), deps: a.deps}
			}
		}
	}
	out := e.app("sqrt", []Scalar{a})
	if id, ok := singleSym(out.v); ok {
		if a.v.d == nil {
			if _, have := e.ST.square[id]; !have {
				e.ST.square[id] = a.v.n
			}
		} else {
			e.rfApps["sqrt"] = append(e.rfApps["sqrt"], id)
		}
	}
	return out
}

// Abs builds |a| with |c·p| = |c|·|p| (the sign of the leading coefficient is normalised,
// so |a−b| and |b−a| are one symbol) and the rewrite |p|² -> p².
func (e *Engine) Abs(a Scalar) Scalar {
	if c, ok := a.v.Const(); ok {
		return Scalar{v: rfPoly(PolyConst(new(big.Rat).Abs(c))), deps: a.deps}
	}
	if a.v.d != nil {
		n := e.Abs(Scalar{v: rfPoly(a.v.n), deps: a.deps})
		d := e.Abs(Scalar{v: rfPoly(a.v.d)})
		q, _ := e.Div(n, d)
		return q
	}
	// an |x| or sqrt(x) symbol alone is already non-negative
	if id, ok := singleSym(a.v); ok {
		if ai := e.apps[id]; ai != nil && (ai.op == "abs" || ai.op == "sqrt") {
			return a
		}
	}
	ts := a.v.n.sortedTerms(e.ST)
	lead := new(big.Rat).Set(ts[0].c)
	q := a.v.n.Scale(new(big.Rat).Inv(lead))
	out := e.app("abs", []Scalar{{v: rfPoly(q), deps: a.deps}})
	if id, ok := singleSym(out.v); ok {
		if _, have := e.ST.square[id]; !have {
			e.ST.square[id] = q.Mul(q, e.ST)
		}
	}
	return Scalar{v: out.v.Mul(rfPoly(PolyConst(lead.Abs(lead))), e.ST), deps: a.deps}
}

// AssumePositive registers a polynomial the client assumes to be > 0 (a squared length of a
// non-degenerate segment, …): comparisons may then be cross-multiplied by it.
func (e *Engine) AssumePositive(a Scalar) {
	if a.v.d == nil && !a.v.n.IsZero() {
		e.positive = append(e.positive, a.v.n.leadNormalize(e.ST, true))
	}
}

// positiveDen: is the denominator d known to be positive (registered, or a product of
// sqrt/abs symbols and even powers with a positive coefficient)?
func (e *Engine) positiveDen(d *Poly) bool {
	if len(d.t) == 1 {
		for _, t := range d.t {
			if t.c.Sign() <= 0 {
				return false
			}
			for _, se := range t.m {
				ai := e.apps[se.s]
				if se.e%2 != 0 && !(ai != nil && (ai.op == "sqrt" || ai.op == "abs")) {
					return false
				}
			}
			return true
		}
	}
	n := d.leadNormalize(e.ST, true)
	for _, p := range e.positive {
		if n.Equal(p) { // both divided by |leading coefficient|: equal means d = c·p with c > 0
			return true
		}
		// product of two registered positives / square of one
		if n.Equal(p.Mul(p, e.ST).leadNormalize(e.ST, true)) {
			return true
		}
	}
	return false
}

func (e *Engine) Add(a, b Scalar) Scalar { return Scalar{a.v.Add(b.v, e.ST), a.deps.union(b.deps)} }
func (e *Engine) Sub(a, b Scalar) Scalar { return Scalar{a.v.Sub(b.v, e.ST), a.deps.union(b.deps)} }
func (e *Engine) Mul(a, b Scalar) Scalar { return Scalar{a.v.Mul(b.v, e.ST), a.deps.union(b.deps)} }
func (e *Engine) Div(a, b Scalar) (Scalar, bool) {
	q, ok := a.v.Div(b.v, e.ST)
	return Scalar{q, a.deps.union(b.deps)}, ok
}

// CmpAtom canonicalises "a op b" over the reals: strict/non-strict positivity of a polynomial.
func (e *Engine) CmpAtom(op token.Token, a, b Scalar) BoolV {
	deps := a.deps.union(b.deps)
	var d RF
	switch op {
	case token.LSS, token.LEQ: // a < b  <=>  b - a > 0
		d = b.v.Sub(a.v, e.ST)
	default:
		d = a.v.Sub(b.v, e.ST)
	}
	if d.d != nil && e.positiveDen(d.d) {
		d = RF{n: d.n}
	}
	if d.d != nil {
		// the sign of a quotient is not the sign of its numerator: keep the atom uninterpreted
		k := fmt.Sprintf("cmp[%s %s %s]", rfKey(a.v, e.ST), op, rfKey(b.v, e.ST))
		return BoolV{atom: Atom{key: k, neg: "!" + k}, deps: deps}
	}
	p := d.n
	if c, ok := p.Const(); ok {
		s := c.Sign()
		var res bool
		switch op {
		case token.LSS, token.GTR:
			res = s > 0
		case token.LEQ, token.GEQ:
			res = s >= 0
		case token.EQL:
			res = s == 0
		case token.NEQ:
			res = s != 0
		}
		return BoolV{isConst: true, c: res, deps: deps}
	}
	switch op {
	case token.LSS, token.GTR:
		pos := p.leadNormalize(e.ST, true)
		return BoolV{atom: Atom{key: pos.String(e.ST) + " > 0", neg: pos.Neg().String(e.ST) + " >= 0", p: pos, strict: true}, deps: deps}
	case token.LEQ, token.GEQ:
		pos := p.leadNormalize(e.ST, true)
		return BoolV{atom: Atom{key: pos.String(e.ST) + " >= 0", neg: pos.Neg().String(e.ST) + " > 0", p: pos}, deps: deps}
	case token.EQL:
		n := p.leadNormalize(e.ST, false)
		return BoolV{atom: Atom{key: n.String(e.ST) + " == 0", neg: n.String(e.ST) + " != 0", eq: n}, deps: deps}
	default:
		n := p.leadNormalize(e.ST, false)
		return BoolV{atom: Atom{key: n.String(e.ST) + " != 0", neg: n.String(e.ST) + " == 0", eq: n}, deps: deps}
	}
}

func (f *frame) binop(op token.Token, a, b Val, operandT types.Type, at ssa.Value) Val {
	e := f.r.e
	sa, aok := a.(Scalar)
	sb, bok := b.(Scalar)
	if aok && bok {
		switch op {
		case token.ADD:
			return e.Add(sa, sb)
		case token.SUB:
			return e.Sub(sa, sb)
		case token.MUL:
			if e.Ext {
				f.traceMul(sa, sb, operandT, at) // (Ext) clients that judge the algebraic FORM need the operands of products
			}
			return e.Mul(sa, sb)
		case token.QUO:
			if isFloatType(operandT) {
				q, ok := e.Div(sa, sb)
				if !ok {
					f.r.abort("division by an identically zero value in %s", f.fn)
				}
				return q
			}
			return e.app("idiv", []Scalar{sa, sb})
		case token.LSS, token.LEQ, token.GTR, token.GEQ, token.EQL, token.NEQ:
			return e.CmpAtom(op, sa, sb)
		}
		return e.app("op"+op.String(), []Scalar{sa, sb})
	}
	if e.Ext && (op == token.EQL || op == token.NEQ) {
		if v, ok := f.compositeEq(op, a, b); ok {
			return v
		}
	}
	switch op {
	case token.EQL, token.NEQ:
		ka, kb := e.valKey(a), e.valKey(b)
		if sa, ok := a.(StrV); ok {
			if sb, ok := b.(StrV); ok && sa.isConst && sb.isConst {
				return BoolV{isConst: true, c: (sa.s == sb.s) == (op == token.EQL)}
			}
		}
		if ka == kb {
			return BoolV{isConst: true, c: op == token.EQL}
		}
		if ka > kb {
			ka, kb = kb, ka
		}
		k := "eq[" + ka + ", " + kb + "]"
		at := Atom{key: "o:" + k, neg: "!o:" + k}
		if op == token.NEQ {
			at = at.Not()
		}
		return BoolV{atom: at}
	case token.LAND, token.LOR, token.AND, token.OR:
		// non-short-circuit boolean operators on bool values (rare)
	}
	return f.opaqueOf(at.Type(), "op"+op.String()+"["+e.valKey(a)+", "+e.valKey(b)+"]", nil)
}

// ---------------------------------------------------------------- maps, slices

func (f *frame) lookup(x *ssa.Lookup) Val {
	e := f.r.e
	m := f.eval(x.X)
	k := f.eval(x.Index)
	name := e.valKey(m) + "[" + e.valKey(k) + "]"
	var elT types.Type
	switch mt := x.X.Type().Underlying().(type) {
	case *types.Map:
		elT = mt.Elem()
	default:
		elT = x.Type() // string index
	}
	var val Val
	mv, isMap := m.(*MapV)
	if isMap && !mv.fresh && kindOf(elT) == kSlice {
		so := f.r.lookups[name]
		if so == nil {
			id := e.ST.Intern("len("+name+")", SymLen)
			so = &SliceObj{id: name, origin: "lookup", ln: e.symScalar(id), elem: elT.Underlying().(*types.Slice).Elem(), content: map[string]Val{}}
			f.r.lookups[name] = so
		}
		val = so
	} else {
		val = f.opaqueOf(elT, name, nil)
	}
	if x.CommaOk {
		hk := "has[" + name + "]"
		return &MultiV{v: []Val{val, BoolV{atom: Atom{key: "o:" + hk, neg: "!o:" + hk}}}}
	}
	return val
}

func (f *frame) sliceOp(x *ssa.Slice) Val {
	e := f.r.e
	base := f.eval(x.X)
	name := fmt.Sprintf("%s%s.%s", f.ctx, f.fn.Name(), x.Name())
	if pv, isPtr := base.(PtrV); isPtr && x.Low == nil && x.High == nil && x.Max == nil {
		// full slice of a local array (the lowering of variadic arguments): a slice whose elements are known
		if cur, ok := getPath(pv.cell.v, pv.path); ok {
			if av, ok := cur.(*ArrV); ok {
				so := &SliceObj{id: name, origin: "array", ln: e.num(int64(len(av.e))), content: map[string]Val{}}
				if at, ok := av.typ.Underlying().(*types.Array); ok {
					so.elem = at.Elem()
				}
				for i, el := range av.e {
					so.content[rfKey(e.num(int64(i)).v, e.ST)] = el
				}
				return so
			}
		}
	}
	if pv, isPtr := base.(PtrV); isPtr && e.Ext && x.Max == nil {
		// (Ext) constant sub-range of a local array — make([]T, 0) is lowered to `new [0]T` + t[:0]
		if so, ok := f.constSubArray(pv, x, name); ok {
			return so
		}
	}
	so, ok := base.(*SliceObj)
	if !ok {
		return f.opaqueOf(x.Type(), "slice:"+name, nil)
	}
	f.r.note("sub-slice of %s in %s is treated as an unrelated slice", so.id, f.fn)
	id := e.ST.Intern("len("+name+")", SymLen)
	el := so.elem
	sub := &SliceObj{id: name, origin: "slice", ln: e.symScalar(id), elem: el, content: map[string]Val{}}
	ev := Event{Kind: EvBulkWrite, Slice: so, Callee: "slice-expression", Loop: f.r.curLoop(), Pos: x.Pos(), In: f.fn}
	if e.Ext {
		ev.Val = sub // (Ext) the sub-slice shares the array: clients that track aliases need it
	}
	f.r.events = append(f.r.events, ev)
	return sub
}

// ---------------------------------------------------------------- calls

func (f *frame) doCall(call *ssa.Call) Val {
	e := f.r.e
	cc := call.Common()
	args := make([]Val, len(cc.Args))
	for i, a := range cc.Args {
		args[i] = f.eval(a)
	}
	resT := call.Type()
	if b, ok := cc.Value.(*ssa.Builtin); ok {
		return f.builtin(b.Name(), args, call)
	}
	if cc.IsInvoke() {
		recv := f.eval(cc.Value)
		return f.opaqueCall("invoke:"+cc.Method.FullName(), cc.Method, append([]Val{recv}, args...), resT, call)
	}
	var fn *ssa.Function
	var binds []Val
	switch v := cc.Value.(type) {
	case *ssa.Function:
		fn = v
	default:
		switch cv := f.eval(cc.Value).(type) {
		case *ssa.Function:
			fn = cv
		case *ClosureV:
			fn = cv.fn
			binds = cv.binds
		default:
			return f.opaqueCall("dyn:"+e.valKey(cv), nil, args, resT, call)
		}
	}
	if v, ok := f.mathCall(fn, args); ok {
		return v
	}
	if f.canInline(fn) {
		depth := f.depth
		if fn.Synthetic == "" {
			depth++
		}
		e.Inlined++
		ctx := fmt.Sprintf("%s%s.%s/", f.ctx, f.fn.Name(), call.Name())
		if len(ctx) > 400 {
			ctx = ctx[len(ctx)-400:]
		}
		f.r.checkLoopPointerArgs(args, fn)
		rets := f.r.call(fn, args, binds, ctx, depth)
		switch len(rets) {
		case 0:
			return nil
		case 1:
			return rets[0]
		}
		return &MultiV{v: rets}
	}
	var obj *types.Func
	if o, ok := fn.Object().(*types.Func); ok {
		obj = o
	} else if fn.Origin() != nil {
		obj, _ = fn.Origin().Object().(*types.Func)
	}
	return f.opaqueCall(fn.String(), obj, args, resT, call)
}

func (r *xrun) checkLoopPointerArgs(args []Val, fn *ssa.Function) {
	if len(r.active) == 0 {
		return
	}
	for _, a := range args {
		if p, ok := a.(PtrV); ok {
			r.note("pointer %s passed to %s inside a loop: writes through it are attributed to one iteration only", r.e.valKey(p), fn)
		}
	}
}

func fnPkgPath(fn *ssa.Function) string {
	if fn.Pkg != nil {
		return fn.Pkg.Pkg.Path()
	}
	if o := fn.Origin(); o != nil && o.Pkg != nil {
		return o.Pkg.Pkg.Path()
	}
	if o := fn.Object(); o != nil && o.Pkg() != nil {
		return o.Pkg().Path()
	}
	if p := fn.Parent(); p != nil {
		return fnPkgPath(p)
	}
	return ""
}

func (f *frame) canInline(fn *ssa.Function) bool {
	if fn.Blocks == nil {
		return false
	}
	pp := fnPkgPath(fn)
	if !(pp == load.Module || strings.HasPrefix(pp, load.Module+"/") || pp == vectorModule || strings.HasPrefix(pp, vectorModule+"/") || pp == iterModule) {
		return false
	}
	if f.r.e.Opaque != nil && f.r.e.Opaque(fn) {
		return false
	}
	if fn.Synthetic == "" && f.depth >= f.r.e.MaxDepth {
		return false
	}
	for _, s := range f.r.stack {
		if s == fn {
			return false
		}
	}
	return true
}

func (f *frame) opaqueCall(name string, obj *types.Func, args []Val, resT types.Type, call *ssa.Call) Val {
	e := f.r.e
	f.r.events = append(f.r.events, Event{Kind: EvCall, Callee: name, Fn: obj, Args: args, Loop: f.r.curLoop(), Pos: call.Pos(), In: f.fn})
	var deps depset
	var argScalars []Scalar
	allScalar := true
	for _, a := range args {
		if s, ok := a.(Scalar); ok {
			deps = deps.union(s.deps)
			argScalars = append(argScalars, s)
		} else {
			var ls []leaf
			leaves(a, "", &ls)
			for _, l := range ls {
				deps = deps.union(l.s.deps)
			}
			// a struct / array made of scalars only is passed as its components
			if _, isT := a.(*TupleV); isT && len(ls) > 0 && len(ls) == countLeaves(a) {
				for _, l := range ls {
					argScalars = append(argScalars, l.s)
				}
			} else {
				allScalar = false
			}
		}
	}
	mk := func(t types.Type, idx int) Val {
		if kindOf(t) == kNum && allScalar {
			op := "call:" + name
			if idx > 0 {
				op += fmt.Sprintf("#%d", idx)
			}
			return e.app(op, argScalars)
		}
		switch kindOf(t) {
		case kNum, kBool, kStr:
			parts := make([]string, len(args))
			for i, a := range args {
				parts[i] = e.valKey(a)
			}
			nm := "call:" + name + "(" + strings.Join(parts, ", ") + ")"
			if idx > 0 {
				nm += fmt.Sprintf("#%d", idx)
			}
			return f.opaqueOf(t, nm, deps)
		}
		return &AppV{fn: obj, name: name, args: args, typ: t, idx: idx}
	}
	switch t := resT.(type) {
	case *types.Tuple:
		if t.Len() == 0 {
			return nil
		}
		mv := &MultiV{}
		for i := 0; i < t.Len(); i++ {
			mv.v = append(mv.v, mk(t.At(i).Type(), i))
		}
		return mv
	}
	return mk(resT, 0)
}

// countLeaves counts every leaf of a value, scalar or not.
func countLeaves(v Val) int {
	switch x := v.(type) {
	case *TupleV:
		n := 0
		for _, f := range x.f {
			n += countLeaves(f)
		}
		return n
	case *ArrV:
		n := 0
		for _, f := range x.e {
			n += countLeaves(f)
		}
		return n
	}
	return 1
}

func (f *frame) mathCall(fn *ssa.Function, args []Val) (Val, bool) {
	e := f.r.e
	if fnPkgPath(fn) != "math" || fn.Signature.Recv() != nil {
		return nil, false
	}
	sc := make([]Scalar, len(args))
	for i, a := range args {
		s, ok := a.(Scalar)
		if !ok {
			return nil, false
		}
		sc[i] = s
	}
	res := fn.Signature.Results()
	if res.Len() != 1 {
		return nil, false
	}
	switch fn.Name() {
	case "Min":
		if len(sc) == 2 {
			return e.MinMax("min", sc), true
		}
	case "Max":
		if len(sc) == 2 {
			return e.MinMax("max", sc), true
		}
	case "Sqrt":
		if len(sc) == 1 {
			return e.Sqrt(sc[0]), true
		}
	case "Abs":
		if len(sc) == 1 {
			return e.Abs(sc[0]), true
		}
	case "Pow":
		if len(sc) == 2 {
			if c, ok := sc[1].v.Const(); ok && c.IsInt() && c.Sign() >= 0 && c.Num().Int64() <= 8 {
				out := e.num(1)
				for i := int64(0); i < c.Num().Int64(); i++ {
					out = e.Mul(out, sc[0])
				}
				return out, true
			}
		}
	}
	if kindOf(res.At(0).Type()) == kNum {
		return e.app("math."+fn.Name(), sc), true
	}
	if kindOf(res.At(0).Type()) == kBool {
		keys := make([]string, len(sc))
		var deps depset
		for i, s := range sc {
			keys[i] = rfKey(s.v, e.ST)
			deps = deps.union(s.deps)
		}
		k := "math." + fn.Name() + "(" + strings.Join(keys, ", ") + ")"
		return BoolV{atom: Atom{key: "o:" + k, neg: "!o:" + k}, deps: deps}, true
	}
	return nil, false
}

func (f *frame) builtin(name string, args []Val, call *ssa.Call) Val {
	e := f.r.e
	switch name {
	case "len", "cap":
		if len(args) == 1 {
			switch a := args[0].(type) {
			case *SliceObj:
				if name == "len" || a.origin == "make" {
					return a.ln
				}
			case StrV:
				if a.isConst {
					return e.num(int64(len(a.s)))
				}
			case *ArrV:
				return e.num(int64(len(a.e)))
			}
			id := e.ST.Intern(name+"("+e.valKey(args[0])+")", SymLen)
			return e.symScalar(id)
		}
	case "append":
		if len(args) == 2 {
			if extra, ok := args[1].(*SliceObj); ok && extra.origin == "array" {
				if kc, isC := extra.ln.v.Const(); isC && kc.IsInt() {
					var base *SliceObj
					switch b := args[0].(type) {
					case *SliceObj:
						base = b
					case NilV:
						base = &SliceObj{id: "nil", origin: "make", ln: e.num(0), elem: extra.elem, content: map[string]Val{}}
					}
					if base != nil {
						nm := fmt.Sprintf("%s%s.%s", f.ctx, f.fn.Name(), call.Name())
						out := &SliceObj{id: nm, origin: "append", ln: e.Add(base.ln, extra.ln), elem: base.elem, content: map[string]Val{}, appendBase: base}
						for k, v := range base.content {
							out.content[k] = v
						}
						for j := int64(0); j < kc.Num().Int64(); j++ {
							v := extra.content[rfKey(e.num(j).v, e.ST)]
							out.appended = append(out.appended, v)
							out.content[rfKey(e.Add(base.ln, e.num(j)).v, e.ST)] = v
						}
						f.r.events = append(f.r.events, Event{Kind: EvAppend, Slice: base, Args: out.appended, Val: out, Loop: f.r.curLoop(), Pos: call.Pos(), In: f.fn})
						return out
					}
				}
			}
		}
		for _, a := range args {
			if so, ok := a.(*SliceObj); ok {
				f.r.events = append(f.r.events, Event{Kind: EvBulkWrite, Slice: so, Callee: "append", Loop: f.r.curLoop(), Pos: call.Pos(), In: f.fn})
			}
		}
		nm := fmt.Sprintf("%s%s.%s", f.ctx, f.fn.Name(), call.Name())
		id := e.ST.Intern("len("+nm+")", SymLen)
		var el types.Type
		if st, ok := call.Type().Underlying().(*types.Slice); ok {
			el = st.Elem()
		}
		out := &SliceObj{id: nm, origin: "append", ln: e.symScalar(id), elem: el, content: map[string]Val{}}
		if e.Ext && len(args) == 2 {
			if base, ok := args[0].(*SliceObj); ok {
				if extra, ok := args[1].(*SliceObj); ok {
					// the prefix is kept: len(result) = len(base) + len(other)
					out.ln = e.Add(base.ln, extra.ln)
					out.appendBase = base
					f.r.events = append(f.r.events, Event{Kind: EvAppendSlice, Slice: base, Args: []Val{extra}, Val: out, Loop: f.r.curLoop(), Pos: call.Pos(), In: f.fn})
				}
			}
		}
		return out
	case "copy", "clear", "delete":
		if name == "delete" && e.Ext && len(args) == 2 {
			if _, isMap := args[0].(*MapV); isMap {
				f.r.events = append(f.r.events, Event{Kind: EvMapDelete, Args: []Val{args[0], args[1]}, Loop: f.r.curLoop(), Pos: call.Pos(), In: f.fn})
				return nil
			}
		}
		for i, a := range args {
			if so, ok := a.(*SliceObj); ok && i == 0 {
				ev := Event{Kind: EvBulkWrite, Slice: so, Callee: name, Loop: f.r.curLoop(), Pos: call.Pos(), In: f.fn}
				if e.Ext {
					ev.Args = args // (Ext) copy(dst, src): clients that recognise exact copies need the source
				}
				f.r.events = append(f.r.events, ev)
			}
		}
		if name == "copy" {
			return f.opaqueOf(call.Type(), "copy:"+call.Name(), nil)
		}
		return nil
	case "min", "max":
		sc := make([]Scalar, len(args))
		ok := true
		for i, a := range args {
			sc[i], ok = a.(Scalar)
			if !ok {
				break
			}
		}
		if ok {
			return e.MinMax(name, sc)
		}
	case "print", "println":
		return nil
	}
	return f.opaqueCall("builtin:"+name, nil, args, call.Type(), call)
}
