package c17

// Exported façade of the SYM engine for other property packages (C03's ELEM-1):
// one-symbolic-iteration summaries of element-wise attribute maps and of the
// reductions their constants come from. Nothing here records obligations.

import (
	"fmt"
	"go/token"
	"go/types"
	"math/big"
	"sort"
	"strings"

	"golang.org/x/tools/go/ssa"

	"polycheck/props"
)

// Session owns an engine whose sinks (Mesh.SetFloatNAttribute) are left uninterpreted.
type Session struct {
	k       *checker
	setters map[types.Object]bool
	contra  map[[2]string]bool
}

// NewSession resolves modeling.Mesh's attribute setters; "" problem means usable.
func NewSession(c *props.Ctx) (*Session, string) {
	k := &checker{c: c, e: NewEngine(c.P), ctl: &ctlCollector{}, multiSrc: true}
	s := &Session{k: k, setters: map[types.Object]bool{}}
	mpk := c.P.Pkg("modeling")
	if mpk == nil {
		return nil, "package modeling not found"
	}
	tn, _ := mpk.Types.Scope().Lookup("Mesh").(*types.TypeName)
	if tn == nil {
		return nil, "type modeling.Mesh not found"
	}
	named, _ := tn.Type().(*types.Named)
	if named == nil {
		return nil, "modeling.Mesh is not a named type"
	}
	for i := 0; i < named.NumMethods(); i++ {
		m := named.Method(i)
		if strings.HasPrefix(m.Name(), "SetFloat") && strings.HasSuffix(m.Name(), "Attribute") {
			sig := m.Type().(*types.Signature)
			if sig.Params().Len() == 2 && sig.Results().Len() == 1 {
				s.setters[m] = true
			}
		}
	}
	if len(s.setters) == 0 {
		return nil, "no Mesh.SetFloatNAttribute(attr, data) setter found"
	}
	k.e.Opaque = func(fn *ssa.Function) bool { return fn.Object() != nil && s.setters[fn.Object()] }
	return s, ""
}

func (s *Session) Engine() *Engine { return s.k.e }

// Call interprets fn on args and returns its single (path-independent) result.
func (s *Session) Call(fn *ssa.Function, args ...Val) (Val, string) { return s.k.call1(fn, args...) }

// Leaves flattens a value into its scalar components in field order.
func Leaves(v Val) []Scalar {
	var ls []leaf
	leaves(v, "", &ls)
	out := make([]Scalar, len(ls))
	for i, l := range ls {
		out[i] = l.s
	}
	return out
}

// LeafLabels gives the access-path label of each component of Leaves(v).
func LeafLabels(v Val) []string {
	var ls []leaf
	leaves(v, "", &ls)
	out := make([]string, len(ls))
	for i, l := range ls {
		out[i] = lbl(l.label)
	}
	return out
}

func (s *Session) Equal(a, b Scalar) bool { return a.v.Equal(b.v, s.k.e.ST) }

func (s *Session) Show(a Scalar, terms int) string { return a.v.Short(s.k.e.ST, terms) }

func (s *Session) Const(n int64) Scalar { return s.k.e.num(n) }

// Half is the constant 1/2.
func (s *Session) Half() Scalar { return Scalar{v: rfPoly(PolyConst(ratHalf()))} }

// SymDesc describes one symbol a scalar mentions (through uninterpreted applications too).
type SymDesc struct {
	Name  string
	Kind  SymKind
	Slice string // SymElem: the array
	Idx   string // SymElem: canonical index
	Root  string // SymInput: parameter; SymLoop: loop id
	id    symID
}

// Symbols lists the leaf symbols of a (applications are opened).
func (s *Session) Symbols(a Scalar) []SymDesc {
	seen := map[symID]bool{}
	var out []SymDesc
	var visit func(id symID)
	visit = func(id symID) {
		if seen[id] {
			return
		}
		seen[id] = true
		inf := s.k.e.ST.Info(id)
		if inf.Kind == SymApp {
			if ai := s.k.e.apps[id]; ai != nil {
				for _, arg := range ai.args {
					for _, t := range arg.Support() {
						visit(t)
					}
				}
				return
			}
		}
		out = append(out, SymDesc{Name: inf.Name, Kind: inf.Kind, Slice: inf.Slice, Idx: inf.Idx, Root: inf.Root, id: id})
	}
	for _, id := range a.v.Support() {
		visit(id)
	}
	sort.Slice(out, func(i, j int) bool { return out[i].Name < out[j].Name })
	return out
}

// ElemRead is one source array read at the loop index, with its symbolic element.
type ElemRead struct {
	Array string // object id, e.g. m.v3Data[attribute]
	Elem  Val
	Len   Scalar
}

// ElemMap is the summary of `dst[i] = F(src1[i], src2[i], …, params)` for one function.
type ElemMap struct {
	Fn       *ssa.Function
	Args     []Val // symbolic arguments, named after the parameters
	Setter   string
	Base     Val // what the setter was applied to
	Attr     Val // the attribute argument of the setter
	AttrKey  string
	BaseIsIn bool // Base is the unmodified mesh argument
	Stored   Val  // F(...) as computed by the code
	Index    string
	Reads    []ElemRead
	DstLen   Scalar
	// Violations / Undecided: why the element-wise shape itself is not as expected
	Violations []string
	Undecided  []string
	res        *Result
	ms         *mapSummary
}

// ElementMap runs fn on symbolic arguments and summarises the element store into the
// array handed to Mesh.SetFloatNAttribute on the returning paths.
func (s *Session) ElementMap(fn *ssa.Function) (*ElemMap, string) {
	e := s.k.e
	em := &ElemMap{Fn: fn}
	args := make([]Val, len(fn.Params))
	for i, p := range fn.Params {
		args[i] = e.Sym(p.Name(), p.Type())
	}
	res := e.Run(fn, args)
	if prob := res.Problem(); prob != "" {
		return nil, prob
	}
	rets := res.Returns()
	if len(rets) == 0 {
		return nil, "no returning path"
	}
	em.res = res
	em.Args = rets[0].Args
	dstID := ""
	for _, rp := range rets {
		if len(rp.Ret) == 0 {
			return nil, "no result"
		}
		app, ok := rp.Ret[0].(*AppV)
		if !ok || app.fn == nil || !s.setters[app.fn] || len(app.args) != 3 {
			return nil, "a returning path does not end in Mesh.SetFloatNAttribute(attr, data): " + trunc(e.valKey(rp.Ret[0]), 120)
		}
		so, ok := app.args[2].(*SliceObj)
		if !ok {
			return nil, "the data handed to the setter is not a slice the engine tracks"
		}
		if dstID != "" && dstID != so.id {
			return nil, "different paths hand different arrays to the setter"
		}
		dstID = so.id
		em.Setter = app.fn.Name()
		em.Base, em.Attr = app.args[0], app.args[1]
		em.AttrKey = e.valKey(app.args[1])
		em.BaseIsIn = false
		for _, a := range rp.Args {
			if _, isT := a.(*TupleV); isT && e.sameVal(a, app.args[0]) {
				em.BaseIsIn = true
			}
		}
		for _, is := range originIssue(so, "the new attribute array") {
			if is.undecided {
				em.Undecided = append(em.Undecided, is.msg)
			} else {
				em.Violations = append(em.Violations, is.msg)
			}
		}
	}
	sink := func(ev Event) bool { return ev.Fn != nil && s.setters[ev.Fn] }
	ms, issues := s.k.analyzeMap(res, dstID, sink)
	for _, is := range issues {
		if is.undecided {
			em.Undecided = append(em.Undecided, is.rule+": "+is.msg)
		} else {
			em.Violations = append(em.Violations, is.rule+": "+is.msg)
		}
	}
	if ms == nil {
		if len(em.Violations)+len(em.Undecided) == 0 {
			em.Undecided = append(em.Undecided, "no element-wise loop recognised")
		}
		return em, ""
	}
	em.ms = ms
	em.Stored = ms.val
	em.Index = rfKey(ms.idx.v, e.ST)
	em.DstLen = ms.dst.ln
	for _, r := range ms.reads {
		em.Reads = append(em.Reads, ElemRead{Array: r.src.id, Elem: r.elem, Len: r.src.ln})
		if !ms.lenProved && !ms.dst.ln.v.Equal(r.src.ln.v, e.ST) && len(ms.reads) == 1 {
			em.Violations = append(em.Violations, fmt.Sprintf("the new array has length %s, the source %s", rfKey(ms.dst.ln.v, e.ST), rfKey(r.src.ln.v, e.ST)))
		}
	}
	return em, ""
}

// Reduction describes how a loop-carried scalar that the element function uses was accumulated.
type Reduction struct {
	Loop  string
	Self  Scalar // the havoc'ed accumulator (one component)
	Init  Scalar
	Next  Scalar // its value after one iteration, in terms of Self and the element read
	Reads []ElemRead
	Index string
	// Problem: why the accumulating loop is not a full-range loop over its array ("" = it is)
	Problem string
}

// ReductionOf explains the loop-carried symbol sym (Kind == SymLoop) met in em.Stored.
func (s *Session) ReductionOf(em *ElemMap, sym SymDesc) (*Reduction, string) {
	e := s.k.e
	if sym.Kind != SymLoop || em.res == nil {
		return nil, "not a loop-carried symbol"
	}
	var iter *Path
	var ent *LoopEntry
	for _, p := range em.res.Paths {
		if p.Kind == EndLoopBack && p.Iter != nil && p.Iter.Entry != nil && p.Iter.Entry.ID == sym.Root {
			if iter != nil {
				// several body paths: require identical next values below
				continue
			}
			iter, ent = p, p.Iter.Entry
		}
	}
	if iter == nil {
		return nil, "no complete iteration of loop " + sym.Root + " could be followed"
	}
	for _, p := range em.res.Paths {
		for _, ex := range p.LoopExits {
			if ex.Entry.ID == sym.Root && ex.From != ex.Entry.Header {
				return &Reduction{Loop: sym.Root, Problem: "the accumulating loop can be left early"}, ""
			}
		}
	}
	r := &Reduction{Loop: sym.Root}
	found := false
	for j, hv := range ent.Havoc {
		hl := Leaves(hv)
		nl := Leaves(iter.Iter.Next[j])
		il := Leaves(ent.Init[j])
		for i, h := range hl {
			if id, ok := singleSym(h.v); ok && id == sym.id && i < len(nl) && i < len(il) {
				r.Self, r.Next, r.Init = h, nl[i], il[i]
				found = true
			}
		}
	}
	if !found {
		return nil, "the loop-carried value is not a scalar component the engine tracks"
	}
	// other body paths must agree
	for _, p := range em.res.Paths {
		if p != iter && p.Kind == EndLoopBack && p.Iter != nil && p.Iter.Entry != nil && p.Iter.Entry.ID == sym.Root {
			for j, hv := range p.Iter.Entry.Havoc {
				hl := Leaves(hv)
				nl := Leaves(p.Iter.Next[j])
				for i, h := range hl {
					if id, ok := singleSym(h.v); ok && id == sym.id && i < len(nl) && !nl[i].v.Equal(r.Next.v, e.ST) {
						return nil, "the accumulation depends on a branch inside the loop body"
					}
				}
			}
		}
	}
	// which element does the iteration read, and does the loop cover the array?
	srcIDs, idxKeys := map[string]bool{}, map[string]bool{}
	for _, t := range r.Next.v.Support() {
		s.k.elemKeys(t, srcIDs, idxKeys, map[symID]bool{})
	}
	if len(idxKeys) > 1 {
		r.Problem = "one iteration reads elements at different indices"
		return r, ""
	}
	if len(idxKeys) == 0 {
		r.Problem = "the accumulation reads no array element"
		return r, ""
	}
	var idxKey string
	for x := range idxKeys {
		idxKey = x
	}
	r.Index = idxKey
	var idx Scalar
	okIdx := false
	for _, hv := range ent.Havoc {
		if hs, ok := hv.(Scalar); ok {
			for _, c := range []int64{0, 1, -1} {
				cand := e.Add(hs, e.num(c))
				if rfKey(cand.v, e.ST) == idxKey {
					idx, okIdx = cand, true
				}
			}
		}
	}
	if !okIdx {
		r.Problem = "the element read, [" + idxKey + "], is not [loop counter (+1)]"
		return r, ""
	}
	var ids []string
	for id := range srcIDs {
		ids = append(ids, id)
	}
	sort.Strings(ids)
	for _, id := range ids {
		so := findSlice(iter, id)
		if so == nil {
			r.Problem = "source array " + id + " not found"
			return r, ""
		}
		r.Reads = append(r.Reads, ElemRead{Array: so.id, Elem: e.elemSym(so, idx), Len: so.ln})
		var issues []shapeIssue
		s.k.checkInductionIdx(iter, idx, so.ln, &issues, false)
		if len(issues) > 0 {
			r.Problem = issues[0].msg
		}
	}
	return r, ""
}

// Inf is the uninterpreted constant math.Inf(sign) as the engine names it.
func (s *Session) Inf(sign int64) Scalar { return s.k.e.app("math.Inf", []Scalar{s.k.e.num(sign)}) }

// ConstSign: is a a constant, and what is its sign?
func (s *Session) ConstSign(a Scalar) (int, bool) {
	c, ok := a.v.Const()
	if !ok {
		return 0, false
	}
	return c.Sign(), true
}

// IsSymbol reports whether a is exactly the symbol d.
func (s *Session) IsSymbol(a Scalar, d SymDesc) bool {
	id, ok := singleSym(a.v)
	return ok && id == d.id
}

// SymbolScalar is the scalar consisting of the symbol d.
func (s *Session) SymbolScalar(d SymDesc) Scalar { return s.k.e.symScalar(d.id) }

// ---------------------------------------------------------------- exports used by C19 (closed forms of closures)

func (a Atom) Key() string    { return a.key }
func (a Atom) NegKey() string { return a.neg }

// Const reports whether the boolean is a constant and its value.
func (b BoolV) Const() (isConst, val bool) { return b.isConst, b.c }

// Atom is the canonical atom of a non-constant boolean.
func (b BoolV) Atom() Atom { return b.atom }

// RunThen runs the constructor fn on args and applies the function value it returns to then.
func (s *Session) RunThen(fn *ssa.Function, args []Val, then []Val) *Result {
	return s.k.e.RunThen(fn, args, then)
}

// AppOf decomposes a scalar that is exactly one uninterpreted application.
func (s *Session) AppOf(a Scalar) (op string, args []Scalar, ok bool) {
	id, single := singleSym(a.v)
	if !single {
		return "", nil, false
	}
	ai := s.k.e.apps[id]
	if ai == nil {
		return "", nil, false
	}
	out := make([]Scalar, len(ai.args))
	for i, r := range ai.args {
		out[i] = Scalar{v: r}
	}
	return ai.op, out, true
}

// Apply is the value of calling the uninterpreted function value named fnKey on scalar arguments,
// exactly as the engine names such a call (fnKey: parameter name, or elem(slice)[idx]).
func (s *Session) Apply(fnKey string, args []Scalar) Scalar {
	return s.k.e.app("call:dyn:"+fnKey, args)
}

// Key is the canonical rendering of a scalar.
func (s *Session) Key(a Scalar) string { return rfKey(a.v, s.k.e.ST) }

// DepNames lists the input symbols a was computed from (dataflow, cancellation ignored).
func (s *Session) DepNames(a Scalar) []string { return depNames(a.deps, s.k.e.ST) }

// LenOf returns the symbolic length of a slice value.
func LenOf(v Val) (Scalar, bool) {
	so, ok := v.(*SliceObj)
	if !ok {
		return Scalar{}, false
	}
	return so.ln, true
}

// SliceID returns the object id of a slice value.
func SliceID(v Val) string {
	if so, ok := v.(*SliceObj); ok {
		return so.id
	}
	return ""
}

// Induction describes the counter of the loop an iteration path belongs to.
type Induction struct {
	First     Scalar // first index visited
	Step      int64
	Guard     string // the condition under which the body is entered
	GuardOK   bool   // Guard is exactly idx < bound (ascending) / idx >= 0 (descending from bound-1)
	EarlyExit bool
}

// IndexFromKey rebuilds the index scalar (loop counter + {-1,0,1}) whose canonical key is key.
func (s *Session) IndexFromKey(p *Path, key string) (Scalar, bool) {
	if p == nil || p.Iter == nil || p.Iter.Entry == nil {
		return Scalar{}, false
	}
	e := s.k.e
	for _, hv := range p.Iter.Entry.Havoc {
		if hs, ok := hv.(Scalar); ok {
			for _, c := range []int64{0, 1, -1} {
				cand := e.Add(hs, e.num(c))
				if rfKey(cand.v, e.ST) == key {
					return cand, true
				}
			}
		}
	}
	return Scalar{}, false
}

// InductionOf analyses the counter behind idx on the iteration path p of res.
func (s *Session) InductionOf(res *Result, p *Path, idx, bound Scalar) (Induction, string) {
	e := s.k.e
	var ind Induction
	if p == nil || p.Iter == nil || p.Iter.Entry == nil {
		return ind, "not an iteration path"
	}
	ent := p.Iter.Entry
	phiI := -1
	var c Scalar
	for i, hv := range ent.Havoc {
		hs, ok := hv.(Scalar)
		if !ok {
			continue
		}
		d := e.Sub(idx, hs)
		if _, isC := d.v.Const(); isC {
			phiI, c = i, d
		}
	}
	if phiI < 0 {
		return ind, "the index " + rfKey(idx.v, e.ST) + " is not (loop counter + constant)"
	}
	init, ok1 := ent.Init[phiI].(Scalar)
	next, ok2 := p.Iter.Next[phiI].(Scalar)
	if !ok1 || !ok2 {
		return ind, "the loop counter is not a scalar"
	}
	step := e.Sub(next, ent.Havoc[phiI].(Scalar))
	sc, isC := step.v.Const()
	if !isC || !sc.IsInt() {
		return ind, "the loop counter advances by " + rfKey(step.v, e.ST)
	}
	ind.Step = sc.Num().Int64()
	ind.First = e.Add(init, c)
	if ent.CondIndex < len(p.Conds) {
		got := p.Conds[ent.CondIndex]
		ind.Guard = got.key
		var want BoolV
		if ind.Step > 0 {
			want = e.CmpAtom(token.LSS, idx, bound)
		} else {
			want = e.CmpAtom(token.GEQ, idx, e.num(0))
		}
		ind.GuardOK = !want.isConst && want.atom.key == got.key
	}
	for _, q := range res.Paths {
		for _, ex := range q.LoopExits {
			if ex.Entry.ID == ent.ID && ex.From != ex.Entry.Header {
				ind.EarlyExit = true
			}
		}
	}
	return ind, ""
}

// IterationPaths returns the paths of res that end at the back edge of loop id.
func IterationPaths(res *Result, id string) []*Path {
	var out []*Path
	for _, p := range res.Paths {
		if p.Kind == EndLoopBack && p.Iter != nil && p.Iter.Entry != nil && p.Iter.Entry.ID == id {
			out = append(out, p)
		}
	}
	return out
}

// Contradict: can the two inequality atoms never hold together? Decided only in the simple
// case that a positive combination P + λQ is a negative constant, minus a polynomial the
// client assumed positive, or identically zero with one side strict.
func (s *Session) Contradict(a, b Atom) bool {
	if a.key == b.neg || b.key == a.neg {
		return true
	}
	if a.p == nil || b.p == nil {
		return false
	}
	if s.contra == nil {
		s.contra = map[[2]string]bool{}
	}
	mk := [2]string{a.key, b.key}
	if v, ok := s.contra[mk]; ok {
		return v
	}
	v := s.contradict(a, b)
	s.contra[mk] = v
	s.contra[[2]string{b.key, a.key}] = v
	return v
}

func (s *Session) contradict(a, b Atom) bool {
	e := s.k.e
	// P + λQ can only collapse to (minus) an assumed-positive polynomial or a constant if the
	// two polynomials have nearly the same terms
	maxPos := 1
	for _, p := range e.positive {
		if len(p.t) > maxPos {
			maxPos = len(p.t)
		}
	}
	if d := len(a.p.t) - len(b.p.t); d > maxPos+1 || -d > maxPos+1 {
		return false
	}
	// choose λ from a monomial that occurs in both with opposite signs
	tried := 0
	for k, ta := range a.p.t {
		tb, ok := b.p.t[k]
		if !ok || ta.c.Sign()*tb.c.Sign() >= 0 {
			continue
		}
		tried++
		if tried > 2 {
			break
		}
		lambda := new(big.Rat).Neg(new(big.Rat).Quo(ta.c, tb.c))
		r := a.p.Add(b.p.Scale(lambda))
		if r.IsZero() {
			if a.strict || b.strict {
				return true
			}
			continue
		}
		if c, isC := r.Const(); isC {
			if c.Sign() < 0 {
				return true
			}
			continue
		}
		if e.positiveDen(r.Neg()) {
			return true
		}
	}
	return false
}

// IsMaxFloat: is a the constant sign·math.MaxFloat64?
func (s *Session) IsMaxFloat(a Scalar, sign int64) bool {
	c, ok := a.v.Const()
	if !ok {
		return false
	}
	mf, _ := new(big.Rat).SetString("179769313486231570814527423731704356798070567525844996598917476803157260780028538760589558632766878171540458953514382464234321326889464182768467546703537516986049910576551282076245490090389328944075868508455133942304583236903222948165808559332123348274797826204144723168738177180919299881250404026184124858368")
	if sign < 0 {
		mf.Neg(mf)
	}
	return c.Cmp(mf) == 0
}

// ---------------------------------------------------------------- exports used by C03's AREA law

// LinearIn solves an inequality atom for sym when it is linear in it with a constant
// coefficient: the atom reads  q > sym / q >= sym  (symOnRight) or  sym > q / sym >= q.
func (s *Session) LinearIn(a Atom, sym SymDesc) (q Scalar, symOnRight, strict, ok bool) {
	if a.p == nil {
		return Scalar{}, false, false, false
	}
	e := s.k.e
	rest := newPoly()
	var coef *big.Rat
	for _, t := range a.p.t {
		exp := int32(0)
		for _, se := range t.m {
			if se.s == sym.id {
				exp = se.e
			}
		}
		switch {
		case exp == 0:
			rest.addTerm(t.m, t.c)
		case exp == 1 && len(t.m) == 1:
			if coef != nil {
				return Scalar{}, false, false, false
			}
			coef = t.c
		default:
			return Scalar{}, false, false, false // non-linear in sym, or sym multiplied by other symbols
		}
	}
	if coef == nil {
		return Scalar{}, false, false, false
	}
	// sym must not hide inside applications of the rest
	for _, id := range rest.Support() {
		if s.mentions(id, sym.id, map[symID]bool{}) {
			return Scalar{}, false, false, false
		}
	}
	// P = coef·sym + rest  (> 0 or >= 0)
	if coef.Sign() < 0 {
		// rest > −coef·sym  ⇒  rest/(−coef) > sym
		q = Scalar{v: rfPoly(rest.Scale(new(big.Rat).Inv(new(big.Rat).Neg(coef))))}
		return q, true, a.strict, true
	}
	q = Scalar{v: rfPoly(rest.Neg().Scale(new(big.Rat).Inv(coef)))}
	_ = e
	return q, false, a.strict, true
}

func (s *Session) mentions(id, target symID, seen map[symID]bool) bool {
	if id == target {
		return true
	}
	if seen[id] {
		return false
	}
	seen[id] = true
	if ai := s.k.e.apps[id]; ai != nil {
		for _, a := range ai.args {
			for _, t := range a.Support() {
				if s.mentions(t, target, seen) {
					return true
				}
			}
		}
	}
	return false
}

// AtomMentions: does the atom's polynomial (applications opened) mention sym?
func (s *Session) AtomMentions(a Atom, sym SymDesc) bool {
	if a.p == nil {
		return false
	}
	for _, id := range a.p.Support() {
		if s.mentions(id, sym.id, map[symID]bool{}) {
			return true
		}
	}
	return false
}

// ElemAt is the symbolic element array[idx] for the array of path p whose id ends with suffix.
func (s *Session) ElemAt(p *Path, suffix string, idx Scalar) (Val, string) {
	var so *SliceObj
	for id, x := range p.slices {
		if strings.HasSuffix(id, suffix) {
			if so != nil && so.id != x.id {
				return nil, "more than one array matches " + suffix
			}
			so = x
		}
	}
	if so == nil {
		return nil, "no array " + suffix + " is read on this path"
	}
	return s.k.e.elemSym(so, idx), so.id
}

// ConstRat is the constant scalar r.
func (s *Session) ConstRat(r *big.Rat) Scalar { return Scalar{v: rfPoly(PolyConst(r))} }
