package c17

// Opt-in extensions (Engine.Ext) and read-only accessors used by C20 (Delaunay triangulation):
// range over a map as one havoc'ed key per symbolic iteration, and structural access to the
// values the engine computes. Nothing here changes what the engine does when Ext is off.

import (
	"fmt"
	"go/constant"
	"go/token"
	"go/types"
	"math/big"
	"sort"

	"golang.org/x/tools/go/ssa"
)

// RangeIterV is the iterator of a range over a map.
type RangeIterV struct {
	over Val
	id   string
}

// nextOf yields (more, key, value) of one symbolic iteration: `more` is an uninterpreted atom,
// key and value are fresh symbols named after the range statement (kind SymKey, Slice = the map).
func (f *frame) nextOf(x *ssa.Next, it *RangeIterV) Val {
	e := f.r.e
	mapName := e.valKey(it.over)
	tup, _ := x.Type().(*types.Tuple)
	mk := func(i int, what string) Val {
		var t types.Type
		if tup != nil && i < tup.Len() {
			t = tup.At(i).Type()
		}
		if t == nil || !validType(t) {
			if mv, ok := it.over.(*MapV); ok {
				if i == 1 {
					t = mv.keyTyp
				} else {
					t = mv.elTyp
				}
			}
		}
		if t == nil || !validType(t) {
			return OpaqueV{name: what + "(" + it.id + ")"}
		}
		return e.symVal(what+"("+it.id+")", t, SymKey, it.id, -1, &SymInfo{Slice: mapName, Idx: what})
	}
	k := "more[" + it.id + "]"
	return &MultiV{v: []Val{BoolV{atom: Atom{key: "o:" + k, neg: "!o:" + k}}, mk(1, "key"), mk(2, "val")}}
}

func validType(t types.Type) bool {
	if b, ok := t.(*types.Basic); ok && b.Kind() == types.Invalid {
		return false
	}
	return true
}

// unrollable: hdr heads a loop `for i := c0; i < C; i++` / `for i := range [C]T` with constant C <= 4:
// its counter stays a constant, so the loop can be executed iteration by iteration.
func unrollable(hdr *ssa.BasicBlock) bool {
	if len(hdr.Instrs) == 0 {
		return false
	}
	iff, ok := hdr.Instrs[len(hdr.Instrs)-1].(*ssa.If)
	if !ok {
		return false
	}
	cmp, ok := iff.Cond.(*ssa.BinOp)
	if !ok || cmp.Op != token.LSS || cmp.Block() != hdr {
		return false
	}
	bound, ok := cmp.Y.(*ssa.Const)
	if !ok || bound.Value == nil {
		return false
	}
	c, exact := constant.Int64Val(constant.ToInt(bound.Value))
	if !exact || c < 0 || c > 4 {
		return false
	}
	isInc := func(v ssa.Value, phi *ssa.Phi) bool {
		b, ok := v.(*ssa.BinOp)
		if !ok || b.Op != token.ADD || b.X != phi {
			return false
		}
		k, ok := b.Y.(*ssa.Const)
		if !ok || k.Value == nil {
			return false
		}
		n, exact := constant.Int64Val(constant.ToInt(k.Value))
		return exact && n == 1
	}
	var phi *ssa.Phi
	switch x := cmp.X.(type) {
	case *ssa.Phi:
		phi = x
	case *ssa.BinOp:
		p, ok := x.X.(*ssa.Phi)
		if !ok || !isInc(x, p) {
			return false
		}
		phi = p
	default:
		return false
	}
	if phi.Block() != hdr {
		return false
	}
	for _, ed := range phi.Edges {
		switch v := ed.(type) {
		case *ssa.Const:
			if v.Value == nil || v.Value.Kind() != constant.Int {
				return false
			}
		default:
			if !isInc(ed, phi) {
				return false
			}
		}
	}
	return true
}

// compositeEq (Ext): == / != of two arrays / structs made of numbers is decided component by component
// (the path forks on the first component that is not provably equal).
func (f *frame) compositeEq(op token.Token, a, b Val) (Val, bool) {
	switch a.(type) {
	case *ArrV, *TupleV:
	default:
		return nil, false
	}
	var la, lb []leaf
	leaves(a, "", &la)
	leaves(b, "", &lb)
	if len(la) == 0 || len(la) != len(lb) || len(la) != countLeaves(a) || len(lb) != countLeaves(b) || len(la) > 8 {
		return nil, false
	}
	equal := true
	for i := range la {
		c := f.r.e.CmpAtom(token.EQL, la[i].s, lb[i].s)
		if c.isConst {
			if !c.c {
				equal = false
				break
			}
			continue
		}
		if !f.r.decide(c.atom) {
			equal = false
			break
		}
	}
	return BoolV{isConst: true, c: equal == (op == token.EQL)}, true
}

// constSubArray (Ext): t[lo:hi] of a local array with constant bounds is a slice of known length and content.
func (f *frame) constSubArray(pv PtrV, x *ssa.Slice, name string) (*SliceObj, bool) {
	e := f.r.e
	cur, ok := getPath(pv.cell.v, pv.path)
	if !ok {
		return nil, false
	}
	av, ok := cur.(*ArrV)
	if !ok {
		return nil, false
	}
	bound := func(v ssa.Value, def int64) (int64, bool) {
		if v == nil {
			return def, true
		}
		s, ok := f.eval(v).(Scalar)
		if !ok {
			return 0, false
		}
		c, isC := s.v.Const()
		if !isC || !c.IsInt() {
			return 0, false
		}
		return c.Num().Int64(), true
	}
	lo, ok1 := bound(x.Low, 0)
	hi, ok2 := bound(x.High, int64(len(av.e)))
	if !ok1 || !ok2 || lo < 0 || hi < lo || hi > int64(len(av.e)) {
		return nil, false
	}
	so := &SliceObj{id: name, origin: "array", ln: e.num(hi - lo), content: map[string]Val{}}
	if at, ok := av.typ.Underlying().(*types.Array); ok {
		so.elem = at.Elem()
	}
	for i := lo; i < hi; i++ {
		so.content[rfKey(e.num(i-lo).v, e.ST)] = av.e[i]
	}
	return so, true
}

// EnableExt switches the opt-in extensions on for this session's engine.
func (s *Session) EnableExt() { s.k.e.Ext = true }

// ---------------------------------------------------------------- structural accessors

// Children returns the components of a struct / array value (nil for anything else).
func Children(v Val) []Val {
	switch x := v.(type) {
	case *TupleV:
		return append([]Val(nil), x.f...)
	case *ArrV:
		return append([]Val(nil), x.e...)
	case *MultiV:
		return append([]Val(nil), x.v...)
	}
	return nil
}

// TypeOf returns the Go type of a struct / array / application value, when the engine kept it.
func TypeOf(v Val) types.Type {
	switch x := v.(type) {
	case *TupleV:
		return x.typ
	case *ArrV:
		return x.typ
	case *AppV:
		return x.typ
	}
	return nil
}

// AppCall decomposes the non-scalar result of a call that was not interpreted.
func AppCall(v Val) (fn *types.Func, name string, args []Val, ok bool) {
	a, isApp := v.(*AppV)
	if !isApp {
		return nil, "", nil, false
	}
	return a.fn, a.name, a.args, true
}

// StrConst: is v a constant string?
func StrConst(v Val) (string, bool) {
	s, ok := v.(StrV)
	if !ok || !s.isConst {
		return "", false
	}
	return s.s, true
}

// MapID names a map value; fresh = made by make(map…) on this path.
func MapID(v Val) (id string, fresh, ok bool) {
	m, isMap := v.(*MapV)
	if !isMap {
		return "", false, false
	}
	return m.name, m.fresh, true
}

// SliceInfo describes a slice object.
type SliceInfo struct {
	ID     string
	Origin string // make | param | lookup | loop | array | append | slice | opaque
	Len    Scalar
	Base   Val   // append: the slice that was extended (nil otherwise)
	Added  []Val // append with a known number of values
}

func SliceInfoOf(v Val) (SliceInfo, bool) {
	so, ok := v.(*SliceObj)
	if !ok || so == nil {
		return SliceInfo{}, false
	}
	si := SliceInfo{ID: so.id, Origin: so.origin, Len: so.ln, Added: append([]Val(nil), so.appended...)}
	if so.appendBase != nil {
		si.Base = so.appendBase
	}
	return si, true
}

// ContentAt reads the element of a slice at a constant or symbolic index if the engine knows it
// (a store, or a value appended at that position); ok=false otherwise.
func (s *Session) ContentAt(v Val, idx Scalar) (Val, bool) {
	so, ok := v.(*SliceObj)
	if !ok {
		return nil, false
	}
	el, have := so.content[rfKey(idx.v, s.k.e.ST)]
	return el, have
}

// ContentKeys lists the canonical index keys at which the engine knows the content of a slice.
func ContentKeys(v Val) []string {
	so, ok := v.(*SliceObj)
	if !ok {
		return nil
	}
	out := make([]string, 0, len(so.content))
	for k := range so.content {
		out = append(out, k)
	}
	sort.Strings(out)
	return out
}

// ElemOf is the symbolic (never written) element v[idx], exactly as the engine names it.
func (s *Session) ElemOf(v Val, idx Scalar) (Val, bool) {
	so, ok := v.(*SliceObj)
	if !ok {
		return nil, false
	}
	return s.k.e.elemSym(so, idx), true
}

// SliceOfPath finds the slice object with the given id among those whose elements path p touched.
func SliceOfPath(p *Path, id string) (Val, bool) {
	if p == nil {
		return nil, false
	}
	so, ok := p.slices[id]
	if !ok {
		return nil, false
	}
	return so, true
}

// ValKey is the canonical rendering of any value.
func (s *Session) ValKey(v Val) string { return s.k.e.valKey(v) }

// SameVal: structural identity of two symbolic values.
func (s *Session) SameVal(a, b Val) bool { return s.k.e.sameVal(a, b) }

// AtomSymbols lists the leaf symbols an atom's polynomial mentions (applications opened);
// ok=false for atoms that are not comparisons of numbers (uninterpreted booleans).
func (s *Session) AtomSymbols(a Atom) ([]SymDesc, bool) {
	p := a.p
	if p == nil {
		p = a.eq
	}
	if p == nil {
		return nil, false
	}
	return s.Symbols(Scalar{v: rfPoly(p)}), true
}

// AtomPoly returns the polynomial of a comparison atom: for inequalities p with "p > 0"
// (strict) or "p >= 0"; for (dis)equalities the polynomial compared with 0 (isEq).
func (s *Session) AtomPoly(a Atom) (p Scalar, strict, isEq, ok bool) {
	switch {
	case a.p != nil:
		return Scalar{v: rfPoly(a.p)}, a.strict, false, true
	case a.eq != nil:
		return Scalar{v: rfPoly(a.eq)}, false, true, true
	}
	return Scalar{}, false, false, false
}

// BoolDepNames lists the input symbols a boolean was computed from (dataflow, cancellation ignored).
func (s *Session) BoolDepNames(b BoolV) []string { return depNames(b.deps, s.k.e.ST) }

// SymbolOf describes the symbol a is, when it is exactly one symbol.
func (s *Session) SymbolOf(a Scalar) (SymDesc, bool) {
	id, ok := singleSym(a.v)
	if !ok {
		return SymDesc{}, false
	}
	inf := s.k.e.ST.Info(id)
	return SymDesc{Name: inf.Name, Kind: inf.Kind, Slice: inf.Slice, Idx: inf.Idx, Root: inf.Root, id: id}, true
}

// Degree is the total degree of a polynomial scalar (-1 for a rational function).
func (s *Session) Degree(a Scalar) int {
	if a.v.d != nil {
		return -1
	}
	deg := 0
	for _, t := range a.v.n.t {
		d := 0
		for _, se := range t.m {
			d += int(se.e)
		}
		if d > deg {
			deg = d
		}
	}
	return deg
}

// Describe renders a value for messages.
func (s *Session) Describe(v Val) string { return trunc(s.k.e.valKey(v), 200) }

var _ = fmt.Sprintf

// ---------------------------------------------------------------- polynomial inspection (C20: enclosing triangle)

// Subst replaces the symbol d by the polynomial `by` in the polynomial a (ok=false for rational functions).
func (s *Session) Subst(a Scalar, d SymDesc, by Scalar) (Scalar, bool) {
	if by.v.d != nil {
		return Scalar{}, false
	}
	st := s.k.e.ST
	sub := func(q *Poly) *Poly {
		out := newPoly()
		for _, t := range q.t {
			p := PolyConst(t.c)
			for _, se := range t.m {
				f := PolySym(se.s)
				if se.s == d.id {
					f = by.v.n
				}
				for i := int32(0); i < se.e; i++ {
					p = p.Mul(f, st)
				}
			}
			out = out.Add(p)
		}
		return out
	}
	if a.v.d != nil {
		// a rational function: numerator and denominator separately (the symbol is not looked for inside applications)
		den := sub(a.v.d)
		if den.IsZero() {
			return Scalar{}, false
		}
		return Scalar{v: mkRF(sub(a.v.n), den), deps: a.deps.union(by.deps)}, true
	}
	return Scalar{v: rfPoly(sub(a.v.n)), deps: a.deps.union(by.deps)}, true
}

// CoefSigns counts the terms of the polynomial a with a positive and with a negative coefficient and
// lists the symbols it mentions.
func (s *Session) CoefSigns(a Scalar) (pos, neg int, syms []string, ok bool) {
	if a.v.d != nil {
		return 0, 0, nil, false
	}
	for _, t := range a.v.n.t {
		if t.c.Sign() > 0 {
			pos++
		} else {
			neg++
		}
	}
	for _, id := range a.v.n.Support() {
		syms = append(syms, s.k.e.ST.Name(id))
	}
	sort.Strings(syms)
	return pos, neg, syms, true
}

// Eval evaluates the polynomial a at rational values of its symbols (by name); ok=false when a symbol
// has no value or a is a rational function. This evaluates the checker's own summary, not repository code.
func (s *Session) Eval(a Scalar, env map[string]*big.Rat) (*big.Rat, bool) {
	if a.v.d != nil {
		return nil, false
	}
	st := s.k.e.ST
	sum := new(big.Rat)
	for _, t := range a.v.n.t {
		v := new(big.Rat).Set(t.c)
		for _, se := range t.m {
			x, have := env[st.Name(se.s)]
			if !have {
				return nil, false
			}
			for i := int32(0); i < se.e; i++ {
				v.Mul(v, x)
			}
		}
		sum.Add(sum, v)
	}
	return sum, true
}

// ---------------------------------------------------------------- C18: rings and trigonometric atoms

// Rem is a % b exactly as the engine names the (uninterpreted) remainder.
func (s *Session) Rem(a, b Scalar) Scalar { return s.k.e.app("op%", []Scalar{a, b}) }

// ReduceTrig rewrites sin(x)² to 1 − cos(x)² for every math.Sin application a mentions (numerator and
// denominator); sin and cos stay uninterpreted otherwise.
func (s *Session) ReduceTrig(a Scalar) Scalar {
	e := s.k.e
	var added []symID
	seen := map[symID]bool{}
	var visit func(id symID)
	visit = func(id symID) {
		if seen[id] {
			return
		}
		seen[id] = true
		ai := e.apps[id]
		if ai == nil {
			return
		}
		if ai.op == "math.Sin" && len(ai.args) == 1 {
			if _, had := e.ST.square[id]; !had {
				c := e.app("math.Cos", []Scalar{{v: ai.args[0]}})
				e.ST.square[id] = e.Sub(e.num(1), e.Mul(c, c)).v.n
				added = append(added, id)
			}
		}
		for _, arg := range ai.args {
			for _, t := range arg.Support() {
				visit(t)
			}
		}
	}
	for _, id := range a.v.Support() {
		visit(id)
	}
	out := Scalar{v: mkRF(a.v.n.reduceSquares(e.ST), nil), deps: a.deps}
	if a.v.d != nil {
		out = Scalar{v: mkRF(a.v.n.reduceSquares(e.ST), a.v.d.reduceSquares(e.ST)), deps: a.deps}
	}
	for _, id := range added {
		delete(e.ST.square, id)
	}
	return out
}

// NumDen splits a rational function into numerator and denominator (1 for a polynomial).
func (s *Session) NumDen(a Scalar) (num, den Scalar) {
	return Scalar{v: rfPoly(a.v.n), deps: a.deps}, Scalar{v: rfPoly(a.v.den())}
}

// Monomials lists the terms of the polynomial a: coefficient sign and the exponent of every symbol by name.
func (s *Session) Monomials(a Scalar) (out []struct {
	Sign int
	Exp  map[string]int
}, ok bool) {
	if a.v.d != nil {
		return nil, false
	}
	for _, t := range a.v.n.sortedTerms(s.k.e.ST) {
		m := struct {
			Sign int
			Exp  map[string]int
		}{Sign: t.c.Sign(), Exp: map[string]int{}}
		for _, se := range t.m {
			m.Exp[s.k.e.ST.Name(se.s)] = int(se.e)
		}
		out = append(out, m)
	}
	return out, true
}

// AppName: the operator of a symbol name that is an uninterpreted application ("" otherwise).
func (s *Session) AppName(symName string) string {
	id, ok := s.k.e.ST.byName[symName]
	if !ok {
		return ""
	}
	if ai := s.k.e.apps[id]; ai != nil {
		return ai.op
	}
	return ""
}

// AppInfo is one uninterpreted application occurring in a scalar.
type AppInfo struct {
	Op   string
	Args []Scalar
	Name string
}

// AppsIn lists every uninterpreted application a mentions (recursively, each once, sorted by name).
func (s *Session) AppsIn(a Scalar) []AppInfo {
	e := s.k.e
	seen := map[symID]bool{}
	var out []AppInfo
	var visit func(id symID)
	visit = func(id symID) {
		if seen[id] {
			return
		}
		seen[id] = true
		ai := e.apps[id]
		if ai == nil {
			return
		}
		inf := AppInfo{Op: ai.op, Name: e.ST.Name(id)}
		for _, r := range ai.args {
			inf.Args = append(inf.Args, Scalar{v: r})
			for _, t := range r.Support() {
				visit(t)
			}
		}
		out = append(out, inf)
	}
	for _, id := range a.v.Support() {
		visit(id)
	}
	sort.Slice(out, func(i, j int) bool { return out[i].Name < out[j].Name })
	return out
}

// Rat is the constant num/den.
func (s *Session) Rat(r *big.Rat) Scalar { return Scalar{v: rfPoly(PolyConst(r))} }

// traceMul (Ext) records a floating-point multiplication with its two operand values.
func (f *frame) traceMul(a, b Scalar, operandT types.Type, at ssa.Value) {
	if !isFloatType(operandT) {
		return
	}
	if _, ca := a.v.Const(); ca {
		if _, cb := b.v.Const(); cb {
			return
		}
	}
	pos := token.NoPos
	if at != nil {
		pos = at.Pos()
	}
	f.r.events = append(f.r.events, Event{Kind: EvMul, Args: []Val{a, b}, Loop: f.r.curLoop(), Pos: pos, In: f.fn})
}
