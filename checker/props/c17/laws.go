package c17

// SYM-ALG / SYM-DEP: the algebraic laws of C17 decided as polynomial identities
// on the symbolic results the engine computes from the SSA of the anchored functions.

import (
	"fmt"
	"go/token"
	"go/types"
	"sort"
	"strings"

	"golang.org/x/tools/go/ssa"

	"polycheck/props"
)

type checker struct {
	c  *props.Ctx
	e  *Engine
	ok bool
	// ctl != nil: verdicts are collected for a self-test control instead of being recorded
	ctl *ctlCollector

	mo *matOps
	vo *vecOps
	qo *quatOps
	bo *boxOps

	shapeEnv   *shapeEnv
	shapeCases []shapeCase

	// multiSrc: an element may legitimately combine several source arrays at the same index (ELEM-1 of C03)
	multiSrc bool

	axisCtlBad  int
	axisCtlGood bool
	// statistics
	identities int
	components int
	maxTerms   int
}

type ctlCollector struct {
	holds, violations, undecided int
	msgs                         []string
}

func (k *checker) hold(rule, construct, pos string, facts ...string) {
	if k.ctl != nil {
		k.ctl.holds++
		return
	}
	k.c.R.Hold(rule, construct, pos, facts...)
}

func (k *checker) violate(rule, construct, pos, msg string, facts ...string) {
	if k.ctl != nil {
		k.ctl.violations++
		k.ctl.msgs = append(k.ctl.msgs, rule+": "+msg)
		return
	}
	k.c.R.Violate(rule, construct, pos, msg, facts...)
}

func (k *checker) undecide(rule, construct, pos, msg string, facts ...string) {
	if k.ctl != nil {
		k.ctl.undecided++
		k.ctl.msgs = append(k.ctl.msgs, rule+" undecided: "+msg)
		return
	}
	k.c.R.Undecide(rule, construct, pos, msg, facts...)
}

func (k *checker) fn(rel, name string) *ssa.Function {
	f := k.c.P.Func(rel, name)
	if f == nil || f.Blocks == nil {
		k.c.R.Failf("anchor %s.%s not found (renamed or removed): the law it carries cannot be decided", rel, name)
		return nil
	}
	return f
}

// single runs fn on args and returns the unique returned value list (panicking paths are ignored).
func (k *checker) single(fn *ssa.Function, args ...Val) ([]Val, *Path, string) {
	res := k.e.Run(fn, args)
	if p := res.Problem(); p != "" {
		return nil, nil, p
	}
	rets := res.Returns()
	if len(rets) == 0 {
		return nil, nil, "no returning path"
	}
	for _, p := range rets[1:] {
		if len(p.Ret) != len(rets[0].Ret) {
			return nil, nil, "paths return different shapes"
		}
		for i := range p.Ret {
			if !k.e.sameVal(p.Ret[i], rets[0].Ret[i]) {
				return nil, nil, fmt.Sprintf("result depends on a branch (%d returning paths with different values); guards: %s", len(rets), condsString(p.Conds))
			}
		}
	}
	return rets[0].Ret, rets[0], ""
}

func condsString(cs []Atom) string {
	var s []string
	for _, c := range cs {
		s = append(s, c.key)
	}
	return strings.Join(s, " ∧ ")
}

func (k *checker) call1(fn *ssa.Function, args ...Val) (Val, string) {
	r, _, prob := k.single(fn, args...)
	if prob != "" {
		return nil, prob
	}
	if len(r) != 1 {
		return nil, fmt.Sprintf("%d results", len(r))
	}
	return r[0], ""
}

// decide compares got with want leaf by leaf (SYM-ALG) and their dataflow supports (SYM-DEP).
func (k *checker) decide(law, construct string, pos token.Pos, got, want Val, withDep bool, facts ...string) bool {
	P := k.c.P
	var gl, wl []leaf
	leaves(got, "", &gl)
	leaves(want, "", &wl)
	if len(gl) != len(wl) || len(gl) == 0 {
		k.undecide("SYM-ALG", construct, P.Pos(pos), fmt.Sprintf("%s: result has %d scalar components, the law speaks about %d (value: %s)", law, len(gl), len(wl), trunc(k.e.valKey(got), 200)))
		return false
	}
	var bad []string
	var depBad []string
	terms := 0
	for i := range gl {
		k.components++
		terms += gl[i].s.v.n.NumTerms()
		if gl[i].s.v.n.NumTerms() > k.maxTerms {
			k.maxTerms = gl[i].s.v.n.NumTerms()
		}
		if !gl[i].s.v.Equal(wl[i].s.v, k.e.ST) {
			bad = append(bad, fmt.Sprintf("%s: code computes %s; the law requires %s", lbl(gl[i].label), gl[i].s.v.Short(k.e.ST, 8), wl[i].s.v.Short(k.e.ST, 8)))
		}
		if withDep && !gl[i].s.deps.equal(wl[i].s.deps) {
			depBad = append(depBad, fmt.Sprintf("%s reads {%s}; the law reads {%s}", lbl(gl[i].label), strings.Join(diffNames(gl[i].s.deps, wl[i].s.deps, k.e.ST), ","), strings.Join(diffNames(wl[i].s.deps, gl[i].s.deps, k.e.ST), ",")))
		}
	}
	k.identities++
	fs := append([]string{law, fmt.Sprintf("%d components compared as polynomial identities, %d terms", len(gl), terms)}, facts...)
	okAll := true
	if len(bad) > 0 {
		okAll = false
		k.violate("SYM-ALG", construct, P.Pos(pos), fmt.Sprintf("%s fails in %d of %d components; e.g. %s", law, len(bad), len(gl), strings.Join(head(bad, 2), " | ")), head(bad, 16)...)
	} else {
		k.hold("SYM-ALG", construct, P.Pos(pos), fs...)
	}
	if withDep {
		if len(depBad) > 0 {
			okAll = false
			k.violate("SYM-DEP", construct, P.Pos(pos), fmt.Sprintf("%s: %d of %d output components are computed from the wrong inputs (only the differing inputs are listed); e.g. %s", law, len(depBad), len(gl), strings.Join(head(depBad, 2), " | ")), head(depBad, 16)...)
		} else {
			k.hold("SYM-DEP", construct, P.Pos(pos), law, fmt.Sprintf("input support of each of the %d output components equals the law's", len(gl)))
		}
	}
	return okAll
}

func lbl(s string) string {
	if s == "" {
		return "result"
	}
	return s
}

func diffNames(a, b depset, st *SymTab) []string {
	bm := map[symID]bool{}
	for _, s := range b.ids() {
		bm[s] = true
	}
	var out []string
	for _, s := range a.ids() {
		if !bm[s] {
			out = append(out, st.Name(s))
		}
	}
	sort.Strings(out)
	if len(out) > 8 {
		out = append(out[:8], "…")
	}
	return out
}

func head(s []string, n int) []string {
	if len(s) > n {
		return s[:n]
	}
	return s
}

func trunc(s string, n int) string {
	if len(s) > n {
		return s[:n] + "…"
	}
	return s
}

func (k *checker) undecided(rule, construct string, pos token.Pos, why string) {
	k.undecide(rule, construct, k.c.P.Pos(pos), why)
}

// ---------------------------------------------------------------- vectors

type vecOps struct {
	k   *checker
	typ types.Type // vector3.Vector[float64]
	ax  [3]int     // field index of X, Y, Z
}

func (v *vecOps) comps(val Val) ([3]Scalar, bool) {
	var out [3]Scalar
	tv, ok := val.(*TupleV)
	if !ok || len(tv.f) != 3 {
		return out, false
	}
	for a := 0; a < 3; a++ {
		s, ok := tv.f[v.ax[a]].(Scalar)
		if !ok {
			return out, false
		}
		out[a] = s
	}
	return out, true
}

func (v *vecOps) mk(c [3]Scalar) *TupleV {
	tv := &TupleV{typ: v.typ, f: make([]Val, 3)}
	for a := 0; a < 3; a++ {
		tv.f[v.ax[a]] = c[a]
	}
	return tv
}

func (v *vecOps) add(a, b [3]Scalar) [3]Scalar {
	e := v.k.e
	return [3]Scalar{e.Add(a[0], b[0]), e.Add(a[1], b[1]), e.Add(a[2], b[2])}
}

func (v *vecOps) scale(a [3]Scalar, s Scalar) [3]Scalar {
	e := v.k.e
	return [3]Scalar{e.Mul(a[0], s), e.Mul(a[1], s), e.Mul(a[2], s)}
}

func (v *vecOps) had(a, b [3]Scalar) [3]Scalar {
	e := v.k.e
	return [3]Scalar{e.Mul(a[0], b[0]), e.Mul(a[1], b[1]), e.Mul(a[2], b[2])}
}

func (v *vecOps) dot(a, b [3]Scalar) Scalar {
	e := v.k.e
	return e.Add(e.Add(e.Mul(a[0], b[0]), e.Mul(a[1], b[1])), e.Mul(a[2], b[2]))
}

func (v *vecOps) cross(a, b [3]Scalar) [3]Scalar {
	e := v.k.e
	return [3]Scalar{
		e.Sub(e.Mul(a[1], b[2]), e.Mul(a[2], b[1])),
		e.Sub(e.Mul(a[2], b[0]), e.Mul(a[0], b[2])),
		e.Sub(e.Mul(a[0], b[1]), e.Mul(a[1], b[0])),
	}
}

// vectorAnchors resolves the dependency's vector3 accessors and decides, from their
// SSA, which struct field carries which axis and that New(x,y,z) fills them in order.
func (k *checker) vectorAnchors() *vecOps {
	R := k.c.R
	sp := k.c.P.DepSSAPkg(vectorModule + "/vector3")
	if sp == nil {
		R.Failf("anchor package %s/vector3 not loaded", vectorModule)
		return nil
	}
	tn, _ := sp.Pkg.Scope().Lookup("Vector").(*types.TypeName)
	if tn == nil {
		R.Failf("anchor type vector3.Vector not found")
		return nil
	}
	named, _ := tn.Type().(*types.Named)
	if named == nil {
		R.Failf("vector3.Vector is not a named type")
		return nil
	}
	st, _ := named.Underlying().(*types.Struct)
	if st == nil || st.NumFields() != 3 {
		R.Failf("vector3.Vector is not a 3-field struct")
		return nil
	}
	vo := &vecOps{k: k, typ: named}
	method := func(name string) *ssa.Function {
		for i := 0; i < named.NumMethods(); i++ {
			if named.Method(i).Name() == name {
				return k.c.P.SSA.FuncValue(named.Method(i))
			}
		}
		return nil
	}
	sym := k.e.Sym("u", named).(*TupleV)
	for a, nm := range []string{"X", "Y", "Z"} {
		m := method(nm)
		if m == nil || m.Blocks == nil {
			R.Failf("anchor vector3.Vector.%s has no body", nm)
			return nil
		}
		got, prob := k.call1(m, sym)
		if prob != "" {
			R.Failf("vector3.Vector.%s: %s", nm, prob)
			return nil
		}
		found := -1
		for i := range sym.f {
			if k.e.sameVal(got, sym.f[i]) {
				found = i
			}
		}
		if found < 0 {
			R.Failf("vector3.Vector.%s does not return one field of its receiver", nm)
			return nil
		}
		vo.ax[a] = found
		k.hold("AXIS-0", "vector3.Vector."+nm, k.c.P.Pos(m.Pos()), fmt.Sprintf("accessor returns field #%d (%s)", found, st.Field(found).Name()))
	}
	if vo.ax[0] == vo.ax[1] || vo.ax[1] == vo.ax[2] || vo.ax[0] == vo.ax[2] {
		R.Failf("vector3 accessors X/Y/Z do not name three distinct fields")
		return nil
	}
	// New(x,y,z), SetX/SetY/SetZ
	if nf := sp.Func("New"); nf != nil && nf.Blocks != nil {
		a, b, c := k.e.Sym("nx", types.Typ[types.Float64]), k.e.Sym("ny", types.Typ[types.Float64]), k.e.Sym("nz", types.Typ[types.Float64])
		got, prob := k.call1(nf, a, b, c)
		want := vo.mk([3]Scalar{a.(Scalar), b.(Scalar), c.(Scalar)})
		if prob != "" || !k.e.sameVal(got, want) {
			k.violate("AXIS-0", "vector3.New", k.c.P.Pos(nf.Pos()), "vector3.New(x,y,z) does not build the vector whose X(),Y(),Z() are x,y,z: "+prob)
		} else {
			k.hold("AXIS-0", "vector3.New", k.c.P.Pos(nf.Pos()), "New(x,y,z).{X,Y,Z}() = x,y,z")
		}
	} else {
		R.Failf("anchor vector3.New has no body")
		return nil
	}
	for a, nm := range []string{"SetX", "SetY", "SetZ"} {
		m := method(nm)
		if m == nil || m.Blocks == nil {
			continue
		}
		nv := k.e.Sym("nv", types.Typ[types.Float64]).(Scalar)
		got, prob := k.call1(m, sym, nv)
		c, _ := vo.comps(sym)
		c[a] = nv
		if prob != "" || !k.e.sameVal(got, vo.mk(c)) {
			k.violate("AXIS-0", "vector3.Vector."+nm, k.c.P.Pos(m.Pos()), nm+" does not replace exactly its own component: "+prob)
		} else {
			k.hold("AXIS-0", "vector3.Vector."+nm, k.c.P.Pos(m.Pos()), nm+" replaces exactly one component")
		}
	}
	return vo
}

// ---------------------------------------------------------------- matrices

type matOps struct {
	typ types.Type
	idx [4][4]int // field index of entry (row, col)
}

func (k *checker) matrixAnchors() *matOps {
	pk := k.c.P.Pkg("math/mat")
	if pk == nil {
		k.c.R.Failf("anchor package math/mat not found")
		return nil
	}
	tn, _ := pk.Types.Scope().Lookup("Matrix4x4").(*types.TypeName)
	if tn == nil {
		k.c.R.Failf("anchor type mat.Matrix4x4 not found")
		return nil
	}
	st, _ := tn.Type().Underlying().(*types.Struct)
	if st == nil || st.NumFields() != 16 {
		k.c.R.Failf("mat.Matrix4x4 is not a struct of 16 fields")
		return nil
	}
	mo := &matOps{typ: tn.Type()}
	for r := 0; r < 4; r++ {
		for c := 0; c < 4; c++ {
			mo.idx[r][c] = -1
			want := fmt.Sprintf("X%d%d", r, c)
			for i := 0; i < st.NumFields(); i++ {
				if st.Field(i).Name() == want {
					if b, ok := st.Field(i).Type().Underlying().(*types.Basic); ok && b.Info()&types.IsFloat != 0 {
						mo.idx[r][c] = i
					}
				}
			}
			if mo.idx[r][c] < 0 {
				k.c.R.Failf("anchor field mat.Matrix4x4.%s (entry row %d, column %d) not found", want, r, c)
				return nil
			}
		}
	}
	return mo
}

func (m *matOps) at(v Val, r, c int) (Scalar, bool) {
	tv, ok := v.(*TupleV)
	if !ok || len(tv.f) != 16 {
		return Scalar{}, false
	}
	s, ok := tv.f[m.idx[r][c]].(Scalar)
	return s, ok
}

func (m *matOps) build(f func(r, c int) Scalar) *TupleV {
	tv := &TupleV{typ: m.typ, f: make([]Val, 16)}
	for r := 0; r < 4; r++ {
		for c := 0; c < 4; c++ {
			tv.f[m.idx[r][c]] = f(r, c)
		}
	}
	return tv
}

func (k *checker) matAddLaw(fn *ssa.Function, mo *matOps) {
	e := k.e
	a := e.Sym("a", mo.typ)
	b := e.Sym("b", mo.typ)
	name := k.c.P.FuncName(fn)
	got, prob := k.call1(fn, a, b)
	if prob != "" {
		k.undecided("SYM-ALG", name, fn.Pos(), prob)
		return
	}
	want := mo.build(func(r, c int) Scalar {
		x, _ := mo.at(a, r, c)
		y, _ := mo.at(b, r, c)
		return e.Add(x, y)
	})
	k.decide("Add(a,b)[r][c] = a[r][c] + b[r][c]", name, fn.Pos(), got, want, true)
}

func (k *checker) matMulLaw(fn *ssa.Function, mo *matOps) {
	e := k.e
	a := e.Sym("a", mo.typ)
	b := e.Sym("b", mo.typ)
	name := k.c.P.FuncName(fn)
	got, prob := k.call1(fn, a, b)
	if prob != "" {
		k.undecided("SYM-ALG", name, fn.Pos(), prob)
		return
	}
	want := mo.build(func(r, c int) Scalar {
		s := e.num(0)
		for j := 0; j < 4; j++ {
			x, _ := mo.at(a, r, j)
			y, _ := mo.at(b, j, c)
			s = e.Add(s, e.Mul(x, y))
		}
		return s
	})
	k.decide("Multiply(a,b)[r][c] = Σ_j a[r][j]·b[j][c]", name, fn.Pos(), got, want, true)
}

func (k *checker) matrixLaws(vo *vecOps) {
	e := k.e
	P := k.c.P
	mo := k.matrixAnchors()
	if mo == nil {
		return
	}
	k.mo = mo
	a := e.Sym("a", mo.typ)
	b := e.Sym("b", mo.typ)
	A := func(r, c int) Scalar { s, _ := mo.at(a, r, c); return s }
	B := func(r, c int) Scalar { s, _ := mo.at(b, r, c); return s }

	// Add: entry-wise
	if fn := k.fn("math/mat", "Matrix4x4.Add"); fn != nil {
		k.matAddLaw(fn, mo)
	}
	// Multiply: row by column
	var mulFn *ssa.Function
	if fn := k.fn("math/mat", "Matrix4x4.Multiply"); fn != nil {
		mulFn = fn
		k.matMulLaw(fn, mo)
	}
	// Identity
	var idVal Val
	if fn := k.fn("math/mat", "Identity"); fn != nil {
		name := P.FuncName(fn)
		if got, prob := k.call1(fn); prob != "" {
			k.undecided("SYM-ALG", name, fn.Pos(), prob)
		} else {
			idVal = got
			want := mo.build(func(r, c int) Scalar {
				if r == c {
					return e.num(1)
				}
				return e.num(0)
			})
			k.decide("Identity()[r][c] = δ(r,c)", name, fn.Pos(), got, want, false)
		}
	}
	// identity laws through the code's own Multiply
	if mulFn != nil && idVal != nil {
		name := P.FuncName(mulFn) + "#identity"
		l, p1 := k.call1(mulFn, a, idVal)
		r, p2 := k.call1(mulFn, idVal, a)
		if p1 != "" || p2 != "" {
			k.undecided("SYM-ALG", name, mulFn.Pos(), p1+p2)
		} else {
			k.decide("Multiply(a, Identity()) = a", name, mulFn.Pos(), l, a, false)
			k.decide("Multiply(Identity(), a) = a", name+"-left", mulFn.Pos(), r, a, false)
		}
	}
	// MulPosition: affine action on a column vector
	var mulPos *ssa.Function
	if fn := k.fn("math/mat", "Matrix4x4.MulPosition"); fn != nil && vo != nil {
		mulPos = fn
		name := P.FuncName(fn)
		v := e.Sym("v", vo.typ)
		vc, _ := vo.comps(v)
		if got, prob := k.call1(fn, a, v); prob != "" {
			k.undecided("SYM-ALG", name, fn.Pos(), prob)
		} else {
			var w [3]Scalar
			for r := 0; r < 3; r++ {
				s := A(r, 3)
				for c := 0; c < 3; c++ {
					s = e.Add(s, e.Mul(A(r, c), vc[c]))
				}
				w[r] = s
			}
			k.decide("MulPosition(a,v)[r] = Σ_c a[r][c]·v[c] + a[r][3]", name, fn.Pos(), got, vo.mk(w), true)
		}
	}
	// Multiply and MulPosition agree on the order of composition (for affine b)
	if mulFn != nil && mulPos != nil && vo != nil {
		name := P.FuncName(mulPos) + "#composition"
		v := e.Sym("v", vo.typ)
		baff := mo.build(func(r, c int) Scalar {
			if r == 3 {
				if c == 3 {
					return e.num(1)
				}
				return e.num(0)
			}
			return B(r, c)
		})
		ab, p1 := k.call1(mulFn, a, baff)
		var lhs, rhs, inner Val
		var p2, p3, p4 string
		if p1 == "" {
			lhs, p2 = k.call1(mulPos, ab, v)
			inner, p3 = k.call1(mulPos, baff, v)
			if p3 == "" {
				rhs, p4 = k.call1(mulPos, a, inner)
			}
		}
		if p1+p2+p3+p4 != "" {
			k.undecided("SYM-ALG", name, mulPos.Pos(), p1+p2+p3+p4)
		} else {
			k.decide("MulPosition(Multiply(a,b), v) = MulPosition(a, MulPosition(b, v)) for affine b", name, mulPos.Pos(), lhs, rhs, false)
		}
	}
	// Determinant = Leibniz
	var det Scalar
	haveDet := false
	if fn := k.fn("math/mat", "Matrix4x4.Determinant"); fn != nil {
		name := P.FuncName(fn)
		if got, prob := k.call1(fn, a); prob != "" {
			k.undecided("SYM-ALG", name, fn.Pos(), prob)
		} else {
			want := e.num(0)
			perm := []int{0, 1, 2, 3}
			var rec func(i int)
			rec = func(i int) {
				if i == 4 {
					inv := 0
					for x := 0; x < 4; x++ {
						for y := x + 1; y < 4; y++ {
							if perm[x] > perm[y] {
								inv++
							}
						}
					}
					t := e.num(1)
					if inv%2 == 1 {
						t = e.num(-1)
					}
					for r := 0; r < 4; r++ {
						t = e.Mul(t, A(r, perm[r]))
					}
					want = e.Add(want, t)
					return
				}
				for j := i; j < 4; j++ {
					perm[i], perm[j] = perm[j], perm[i]
					rec(i + 1)
					perm[i], perm[j] = perm[j], perm[i]
				}
			}
			rec(0)
			if k.decide("Determinant(a) = Σ_σ sgn(σ)·Π_r a[r][σ(r)] (Leibniz, 24 terms)", name, fn.Pos(), got, want, true) {
				det, haveDet = got.(Scalar)
			}
		}
	}
	// Inverse: a·Inverse(a) = I and Inverse(a)·a = I as rational-function identities (cross-multiplied by det)
	if fn := k.fn("math/mat", "Matrix4x4.Inverse"); fn != nil {
		name := P.FuncName(fn)
		if got, prob := k.call1(fn, a); prob != "" {
			k.undecided("SYM-ALG", name, fn.Pos(), prob)
		} else if _, ok := mo.at(got, 0, 0); !ok {
			k.undecided("SYM-ALG", name, fn.Pos(), "result is not a 16-entry matrix value")
		} else {
			I := func(r, c int) Scalar { s, _ := mo.at(got, r, c); return s }
			right := mo.build(func(r, c int) Scalar {
				s := e.num(0)
				for j := 0; j < 4; j++ {
					s = e.Add(s, e.Mul(A(r, j), I(j, c)))
				}
				return s
			})
			left := mo.build(func(r, c int) Scalar {
				s := e.num(0)
				for j := 0; j < 4; j++ {
					s = e.Add(s, e.Mul(I(r, j), A(j, c)))
				}
				return s
			})
			id := mo.build(func(r, c int) Scalar {
				if r == c {
					return e.num(1)
				}
				return e.num(0)
			})
			k.decide("a · Inverse(a) = I (each entry cross-multiplied by the denominator)", name, fn.Pos(), right, id, false)
			k.decide("Inverse(a) · a = I", name+"#left", fn.Pos(), left, id, false)
			// numerators are cofactors: support of the numerator of Inverse[r][c] avoids row c and column r of a
			if haveDet {
				var bad []string
				for r := 0; r < 4; r++ {
					for c := 0; c < 4; c++ {
						num := e.Mul(I(r, c), det)
						if !num.v.IsPoly() {
							bad = append(bad, fmt.Sprintf("[%d][%d]·det is not a polynomial", r, c))
							continue
						}
						for _, s := range num.v.n.Support() {
							for j := 0; j < 4; j++ {
								if sj, _ := singleSym(A(c, j).v); sj == s {
									bad = append(bad, fmt.Sprintf("Inverse[%d][%d]·det mentions %s (row %d of a)", r, c, e.ST.Name(s), c))
								}
								if sj, _ := singleSym(A(j, r).v); sj == s {
									bad = append(bad, fmt.Sprintf("Inverse[%d][%d]·det mentions %s (column %d of a)", r, c, e.ST.Name(s), r))
								}
							}
						}
					}
				}
				if len(bad) > 0 {
					k.violate("SYM-DEP", name, P.Pos(fn.Pos()), "numerators of the inverse are not cofactors: "+strings.Join(head(bad, 3), "; "), head(bad, 16)...)
				} else {
					k.hold("SYM-DEP", name, P.Pos(fn.Pos()), "Inverse[r][c]·det is a polynomial that avoids row c and column r of a (cofactor support) for all 16 entries")
				}
			}
		}
	}
}
