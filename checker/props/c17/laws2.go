package c17

// Quaternion and TRS laws (SYM-ALG).

import (
	"fmt"
	"go/token"
	"go/types"
	"strings"

	"golang.org/x/tools/go/ssa"
)

type quatOps struct {
	typ  types.Type
	vIdx int
	wIdx int
}

func (k *checker) quatAnchors() *quatOps {
	pk := k.c.P.Pkg("math/quaternion")
	if pk == nil {
		k.c.R.Failf("anchor package math/quaternion not found")
		return nil
	}
	tn, _ := pk.Types.Scope().Lookup("Quaternion").(*types.TypeName)
	if tn == nil {
		k.c.R.Failf("anchor type quaternion.Quaternion not found")
		return nil
	}
	st, _ := tn.Type().Underlying().(*types.Struct)
	if st == nil {
		k.c.R.Failf("quaternion.Quaternion is not a struct")
		return nil
	}
	q := &quatOps{typ: tn.Type(), vIdx: -1, wIdx: -1}
	nv, nw := 0, 0
	for i := 0; i < st.NumFields(); i++ {
		ft := st.Field(i).Type()
		if isVectorStruct(ft) {
			if s, ok := ft.Underlying().(*types.Struct); ok && s.NumFields() == 3 {
				q.vIdx = i
				nv++
			}
		} else if b, ok := ft.Underlying().(*types.Basic); ok && b.Info()&types.IsFloat != 0 {
			q.wIdx = i
			nw++
		}
	}
	if nv != 1 || nw != 1 || st.NumFields() != 2 {
		k.c.R.Failf("quaternion.Quaternion is no longer {vector part, scalar part}: the Hamilton-product law cannot be stated")
		return nil
	}
	return q
}

func (q *quatOps) parts(vo *vecOps, v Val) (vec [3]Scalar, w Scalar, ok bool) {
	tv, isT := v.(*TupleV)
	if !isT || len(tv.f) != 2 {
		return vec, w, false
	}
	vec, ok = vo.comps(tv.f[q.vIdx])
	if !ok {
		return vec, w, false
	}
	w, ok = tv.f[q.wIdx].(Scalar)
	return vec, w, ok
}

func (q *quatOps) mk(vo *vecOps, vec [3]Scalar, w Scalar) *TupleV {
	tv := &TupleV{typ: q.typ, f: make([]Val, 2)}
	tv.f[q.vIdx] = vo.mk(vec)
	tv.f[q.wIdx] = w
	return tv
}

// hamilton: (w1,v1)(w2,v2) = (w1w2 − v1·v2, w1v2 + w2v1 + v1×v2)
func (q *quatOps) hamilton(vo *vecOps, e *Engine, v1 [3]Scalar, w1 Scalar, v2 [3]Scalar, w2 Scalar) ([3]Scalar, Scalar) {
	w := e.Sub(e.Mul(w1, w2), vo.dot(v1, v2))
	v := vo.add(vo.add(vo.scale(v2, w1), vo.scale(v1, w2)), vo.cross(v1, v2))
	return v, w
}

// hamiltonLaw returns false when fn could not be interpreted at all.
func (k *checker) hamiltonLaw(fn *ssa.Function, vo *vecOps, qo *quatOps) bool {
	e := k.e
	p := e.Sym("p", qo.typ)
	q := e.Sym("q", qo.typ)
	pv, pw, _ := qo.parts(vo, p)
	qv, qw, _ := qo.parts(vo, q)
	got, prob := k.call1(fn, p, q)
	if prob != "" {
		k.undecided("SYM-ALG", k.c.P.FuncName(fn), fn.Pos(), prob)
		return false
	}
	hv, hw := qo.hamilton(vo, e, pv, pw, qv, qw)
	k.decide("Multiply(p,q) = (pw·qw − pv·qv, pw·qv + qw·pv + pv×qv) (Hamilton product)", k.c.P.FuncName(fn), fn.Pos(), got, qo.mk(vo, hv, hw), true)
	return true
}

func (k *checker) quaternionLaws(vo *vecOps) (rotate *ssa.Function, qo *quatOps) {
	if vo == nil {
		return nil, nil
	}
	e := k.e
	P := k.c.P
	qo = k.quatAnchors()
	if qo == nil {
		return nil, nil
	}
	k.qo = qo
	p := e.Sym("p", qo.typ)
	q := e.Sym("q", qo.typ)
	v := e.Sym("v", vo.typ)
	qv, qw, _ := qo.parts(vo, q)
	vc, _ := vo.comps(v)

	// constructor / accessors
	if fn := k.fn("math/quaternion", "New"); fn != nil {
		w0 := e.Sym("w", types.Typ[types.Float64]).(Scalar)
		if got, prob := k.call1(fn, v, w0); prob != "" {
			k.undecided("SYM-ALG", P.FuncName(fn), fn.Pos(), prob)
		} else {
			k.decide("New(v,w) = (vector part v, scalar part w)", P.FuncName(fn), fn.Pos(), got, qo.mk(vo, vc, w0), false)
		}
	}
	for _, acc := range []struct {
		name string
		want func() Val
		law  string
	}{
		{"Quaternion.Dir", func() Val { return vo.mk(qv) }, "Dir() = vector part"},
		{"Quaternion.W", func() Val { return qw }, "W() = scalar part"},
		{"Quaternion.ToArr", func() Val {
			return &ArrV{e: []Val{qv[0], qv[1], qv[2], qw}}
		}, "ToArr() = [x, y, z, w]"},
		{"Quaternion.Vector4", nil, ""},
	} {
		fn := k.c.P.Func("math/quaternion", acc.name)
		if fn == nil || fn.Blocks == nil || acc.want == nil {
			continue // optional accessors: absent is not a failure of the algebra
		}
		if got, prob := k.call1(fn, q); prob != "" {
			k.undecided("SYM-ALG", P.FuncName(fn), fn.Pos(), prob)
		} else {
			k.decide(acc.law, P.FuncName(fn), fn.Pos(), got, acc.want(), false)
		}
	}

	// Hamilton product
	mul := k.fn("math/quaternion", "Quaternion.Multiply")
	if mul != nil && !k.hamiltonLaw(mul, vo, qo) {
		mul = nil
	}
	rotate = k.fn("math/quaternion", "Quaternion.Rotate")
	if rotate == nil {
		return nil, qo
	}
	rname := P.FuncName(rotate)
	rq, prob := k.call1(rotate, q, v)
	if prob != "" {
		k.undecided("SYM-ALG", rname, rotate.Pos(), prob)
		return nil, qo
	}
	// Rotate(q,v) = vector part of q·(v,0)·conj(q), scalar part 0
	{
		t1v, t1w := qo.hamilton(vo, e, qv, qw, vc, e.num(0))
		neg := e.num(-1)
		cv := vo.scale(qv, neg)
		sv, sw := qo.hamilton(vo, e, t1v, t1w, cv, qw)
		k.decide("Rotate(q,v) = vector part of q·(v,0)·conj(q)", rname, rotate.Pos(), rq, vo.mk(sv), true)
		if c, ok := sw.v.Const(); !ok || c.Sign() != 0 {
			k.c.R.Failf("internal: the sandwich product's scalar part is not identically zero")
		}
	}
	// length: |Rotate(q,v)|² = |q|⁴·|v|²
	if rc, ok := vo.comps(rq); ok {
		n2 := e.Add(vo.dot(qv, qv), e.Mul(qw, qw))
		want := e.Mul(e.Mul(n2, n2), vo.dot(vc, vc))
		k.decide("|Rotate(q,v)|² = |q|⁴·|v|² (length preserved by unit quaternions)", rname+"#length", rotate.Pos(), vo.dot(rc, rc), want, false)
	} else {
		k.undecided("SYM-ALG", rname+"#length", rotate.Pos(), "Rotate does not return a 3-component vector value")
	}
	// composition: the product p*q rotates like q followed by p
	if mul != nil {
		pq, p1 := k.call1(mul, p, q)
		var lhs, inner, rhs Val
		var p2, p3, p4 string
		if p1 == "" {
			lhs, p2 = k.call1(rotate, pq, v)
			inner, p3 = k.call1(rotate, q, v)
			if p3 == "" {
				rhs, p4 = k.call1(rotate, p, inner)
			}
		}
		if p1+p2+p3+p4 != "" {
			k.undecided("SYM-ALG", rname+"#composition", rotate.Pos(), p1+p2+p3+p4)
		} else {
			k.decide("Rotate(Multiply(p,q), v) = Rotate(p, Rotate(q, v)) (p*q rotates like q followed by p)", rname+"#composition", rotate.Pos(), lhs, rhs, false)
		}
	}
	// identity
	if idf := k.fn("math/quaternion", "Identity"); idf != nil {
		idq, p0 := k.call1(idf)
		if p0 != "" {
			k.undecided("SYM-ALG", P.FuncName(idf), idf.Pos(), p0)
		} else {
			one := e.num(1)
			zero := e.num(0)
			k.decide("Identity() = (0,0,0,1)", P.FuncName(idf), idf.Pos(), idq, qo.mk(vo, [3]Scalar{zero, zero, zero}, one), false)
			if got, prob := k.call1(rotate, idq, v); prob != "" {
				k.undecided("SYM-ALG", rname+"#identity", rotate.Pos(), prob)
			} else {
				k.decide("Rotate(Identity(), v) = v", rname+"#identity", rotate.Pos(), got, v, false)
			}
			if mul != nil {
				l, p1 := k.call1(mul, q, idq)
				r, p2 := k.call1(mul, idq, q)
				if p1+p2 != "" {
					k.undecided("SYM-ALG", P.FuncName(mul)+"#identity", mul.Pos(), p1+p2)
				} else {
					k.decide("Multiply(q, Identity()) = q", P.FuncName(mul)+"#identity", mul.Pos(), l, q, false)
					k.decide("Multiply(Identity(), q) = q", P.FuncName(mul)+"#identity-left", mul.Pos(), r, q, false)
				}
			}
		}
	}
	// Normalize: q / sqrt(|q|²) with sqrt uninterpreted (sqrt(p)² = p)
	if fn := k.c.P.Func("math/quaternion", "Quaternion.Normalize"); fn != nil && fn.Blocks != nil {
		if got, prob := k.call1(fn, q); prob != "" {
			k.undecided("SYM-ALG", P.FuncName(fn), fn.Pos(), prob)
		} else {
			n2 := e.Add(vo.dot(qv, qv), e.Mul(qw, qw))
			s := e.Sqrt(n2)
			var nv [3]Scalar
			okDiv := true
			for i := range nv {
				nv[i], okDiv = e.Div(qv[i], s)
			}
			nw, _ := e.Div(qw, s)
			if okDiv {
				k.decide("Normalize(q) = q / sqrt(|q|²) (sqrt uninterpreted)", P.FuncName(fn), fn.Pos(), got, qo.mk(vo, nv, nw), false)
			}
		}
	}
	return rotate, qo
}

// ---------------------------------------------------------------- TRS

func (k *checker) trsLaws(vo *vecOps, qo *quatOps, rotate *ssa.Function) (transform *ssa.Function, trsT types.Type) {
	if vo == nil || qo == nil || rotate == nil {
		return nil, nil
	}
	e := k.e
	P := k.c.P
	newFn := k.fn("math/trs", "New")
	transform = k.fn("math/trs", "TRS.Transform")
	if newFn == nil || transform == nil {
		return nil, nil
	}
	trsT = transform.Signature.Recv().Type()
	// New(position, rotation, scale): roles are the parameter order of the public constructor
	sig := newFn.Signature.Params()
	if sig.Len() != 3 || !isVectorStruct(sig.At(0).Type()) || !types.Identical(sig.At(1).Type(), qo.typ) || !isVectorStruct(sig.At(2).Type()) {
		k.c.R.Failf("anchor trs.New no longer has the shape New(position vector, rotation quaternion, scale vector)")
		return nil, nil
	}
	pos := e.Sym("position", vo.typ)
	rot := e.Sym("rotation", qo.typ)
	scl := e.Sym("scale", vo.typ)
	in := e.Sym("in", vo.typ)
	pc, _ := vo.comps(pos)
	sc, _ := vo.comps(scl)
	ic, _ := vo.comps(in)
	t, prob := k.call1(newFn, pos, rot, scl)
	if prob != "" {
		k.undecided("SYM-ALG", P.FuncName(newFn), newFn.Pos(), prob)
		return nil, nil
	}
	// accessors give back what New was given
	for _, acc := range []struct {
		name string
		want Val
	}{{"TRS.Position", pos}, {"TRS.Rotation", rot}, {"TRS.Scale", scl}} {
		fn := k.fn("math/trs", acc.name)
		if fn == nil {
			continue
		}
		if got, prob := k.call1(fn, t); prob != "" {
			k.undecided("SYM-ALG", P.FuncName(fn), fn.Pos(), prob)
		} else {
			k.decide("New(p,r,s)."+fn.Name()+"() returns the argument New was given", P.FuncName(fn), fn.Pos(), got, acc.want, true)
		}
	}
	spec := func(p [3]Scalar, r Val, s [3]Scalar, x [3]Scalar) (Val, string) {
		rs, prob := k.call1(rotate, r, vo.mk(vo.had(s, x)))
		if prob != "" {
			return nil, prob
		}
		rc, ok := vo.comps(rs)
		if !ok {
			return nil, "Rotate result is not a vector value"
		}
		return vo.mk(vo.add(rc, p)), ""
	}
	tname := P.FuncName(transform)
	if got, prob := k.call1(transform, t, in); prob != "" {
		k.undecided("SYM-ALG", tname, transform.Pos(), prob)
	} else if want, prob := spec(pc, rot, sc, ic); prob != "" {
		k.undecided("SYM-ALG", tname, transform.Pos(), prob)
	} else {
		k.decide("New(p,r,s).Transform(v) = Rotate(r, s∘v) + p (scale, then rotation, then translation)", tname, transform.Pos(), got, want, true)
	}
	// single-purpose constructors
	one := e.num(1)
	zero := e.num(0)
	ones := [3]Scalar{one, one, one}
	zeros := [3]Scalar{zero, zero, zero}
	idq := qo.mk(vo, zeros, one)
	for _, cs := range []struct {
		name string
		arg  Val
		p    [3]Scalar
		r    Val
		s    [3]Scalar
		law  string
	}{
		{"Position", pos, pc, idq, ones, "Position(p).Transform(v) = v + p"},
		{"Scale", scl, zeros, idq, sc, "Scale(s).Transform(v) = s∘v"},
		{"Rotation", rot, zeros, rot, ones, "Rotation(r).Transform(v) = Rotate(r, v)"},
	} {
		fn := k.c.P.Func("math/trs", cs.name)
		if fn == nil || fn.Blocks == nil {
			continue
		}
		tv, prob := k.call1(fn, cs.arg)
		if prob != "" {
			k.undecided("SYM-ALG", P.FuncName(fn), fn.Pos(), prob)
			continue
		}
		got, p1 := k.call1(transform, tv, in)
		want, p2 := spec(cs.p, cs.r, cs.s, ic)
		if p1+p2 != "" {
			k.undecided("SYM-ALG", P.FuncName(fn), fn.Pos(), p1+p2)
			continue
		}
		k.decide(cs.law, P.FuncName(fn), fn.Pos(), got, want, false)
	}
	// TRS.Translate(d).Transform(v) = Transform(v) + d
	if fn := k.c.P.Func("math/trs", "TRS.Translate"); fn != nil && fn.Blocks != nil {
		d := e.Sym("d", vo.typ)
		dc, _ := vo.comps(d)
		t2, p1 := k.call1(fn, t, d)
		var got Val
		var p2 string
		if p1 == "" {
			got, p2 = k.call1(transform, t2, in)
		}
		want, p3 := spec(vo.add(pc, dc), rot, sc, ic)
		if p1+p2+p3 != "" {
			k.undecided("SYM-ALG", P.FuncName(fn), fn.Pos(), p1+p2+p3)
		} else {
			k.decide("t.Translate(d).Transform(v) = t.Transform(v) + d", P.FuncName(fn), fn.Pos(), got, want, false)
		}
	}
	return transform, trsT
}

// ---------------------------------------------------------------- RotationTo

// rotationToLaw: on every returning path of RotationTo(from,to) whose result is
// neither a constant nor built by trigonometry (the (anti)parallel special
// cases), Rotate(result, from) = to holds modulo |from|² = |to|² = 1. The
// two generators have coprime leading monomials from.x², to.x², so rewriting
// x² -> 1 − y² − z² computes the unique normal form (ideal membership without a solver).
func (k *checker) rotationToLaw(vo *vecOps, qo *quatOps, rotate *ssa.Function) {
	if vo == nil || qo == nil || rotate == nil {
		return
	}
	fn := k.fn("math/quaternion", "RotationTo")
	if fn == nil {
		return
	}
	e := k.e
	P := k.c.P
	name := P.FuncName(fn)
	if len(fn.Params) != 2 {
		k.undecided("SYM-ALG", name, fn.Pos(), "unexpected signature")
		return
	}
	from := e.Sym("from", vo.typ)
	to := e.Sym("to", vo.typ)
	fc, _ := vo.comps(from)
	tc, _ := vo.comps(to)
	res := e.Run(fn, []Val{from, to})
	if prob := res.Problem(); prob != "" {
		k.undecided("SYM-ALG", name, fn.Pos(), prob)
		return
	}
	// unit-sphere rewrite rules
	fx, ok1 := singleSym(fc[0].v)
	tx, ok2 := singleSym(tc[0].v)
	if !ok1 || !ok2 {
		k.undecided("SYM-ALG", name, fn.Pos(), "internal: vector components are not symbols")
		return
	}
	one := e.num(1)
	ruleF := e.Sub(e.Sub(one, e.Mul(fc[1], fc[1])), e.Mul(fc[2], fc[2])).v.n
	ruleT := e.Sub(e.Sub(one, e.Mul(tc[1], tc[1])), e.Mul(tc[2], tc[2])).v.n
	general := 0
	skipped := []string{}
	for _, p := range res.Returns() {
		if len(p.Ret) != 1 {
			continue
		}
		var ls []leaf
		leaves(p.Ret[0], "", &ls)
		trig, constant := false, true
		for _, l := range ls {
			for _, s := range l.s.v.Support() {
				constant = false
				if k.mentionsApp(s, map[symID]bool{}, "math.Sin", "math.Cos", "math.Tan", "math.Acos", "math.Asin", "math.Atan", "math.Atan2") {
					trig = true
				}
			}
		}
		if trig {
			skipped = append(skipped, "trigonometric special case under "+condsString(p.Conds))
			continue
		}
		if constant {
			skipped = append(skipped, "constant result under "+condsString(p.Conds))
			continue
		}
		general++
		got, prob := k.call1(rotate, p.Ret[0], from)
		if prob != "" {
			k.undecided("SYM-ALG", name, fn.Pos(), prob)
			return
		}
		gc, ok := vo.comps(got)
		if !ok {
			k.undecided("SYM-ALG", name, fn.Pos(), "Rotate does not return a vector value")
			return
		}
		var bad []string
		terms := 0
		for a := 0; a < 3; a++ {
			d := e.Sub(gc[a], tc[a])
			num := d.v.n
			terms += num.NumTerms()
			// reduce modulo the unit constraints
			_, hadF := e.ST.square[fx]
			_, hadT := e.ST.square[tx]
			e.ST.square[fx] = ruleF
			e.ST.square[tx] = ruleT
			red := num.reduceSquares(e.ST)
			den := d.v.den().reduceSquares(e.ST)
			if !hadF {
				delete(e.ST.square, fx)
			}
			if !hadT {
				delete(e.ST.square, tx)
			}
			if den.IsZero() {
				bad = append(bad, fmt.Sprintf("%s: denominator vanishes on the unit sphere", "XYZ"[a:a+1]))
				continue
			}
			if !red.IsZero() {
				bad = append(bad, fmt.Sprintf("%s: Rotate(RotationTo(from,to), from) − to leaves the residue %s modulo |from|=|to|=1", "XYZ"[a:a+1], red.Short(e.ST, 6)))
			}
		}
		k.identities++
		k.components += 3
		law := "Rotate(RotationTo(from,to), from) = to for unit vectors (general branch; normal form modulo |from|²=1, |to|²=1)"
		if len(bad) > 0 {
			k.violate("SYM-ALG", name, P.Pos(fn.Pos()), law+" fails: "+bad[0], bad...)
		} else {
			k.hold("SYM-ALG", name, P.Pos(fn.Pos()), law, fmt.Sprintf("3 residues of %d terms reduce to 0; path guards: %s", terms, condsString(p.Conds)), "not decided: "+strings.Join(skipped, "; "))
		}
	}
	if general == 0 {
		k.undecided("SYM-ALG", name, fn.Pos(), "no returning path computes the rotation algebraically ("+strings.Join(skipped, "; ")+")")
	}
}

func (k *checker) mentionsApp(s symID, seen map[symID]bool, ops ...string) bool {
	if seen[s] {
		return false
	}
	seen[s] = true
	ai := k.e.apps[s]
	if ai == nil {
		return false
	}
	for _, op := range ops {
		if ai.op == op {
			return true
		}
	}
	for _, a := range ai.args {
		for _, t := range a.Support() {
			if k.mentionsApp(t, seen, ops...) {
				return true
			}
		}
	}
	return false
}

// ---------------------------------------------------------------- FromTheta (axis–angle)

// fromThetaLaw: FromTheta(θ, a) = (w = cos(θ/2), v = sin(θ/2)·a/√(a·a)) as a rational identity, with
// sin(θ/2), cos(θ/2) uninterpreted (the engine's math.Sin / math.Cos applications) and √(a·a) the
// canonical sqrt symbol; and |FromTheta(θ,a)|² = 1 modulo sin² + cos² = 1. No trigonometry is needed:
// the clause is about how the axis is normalised and where sin and cos go. Paths guarded by a
// degenerate axis (a·a ≤ 0) are not judged.
func (k *checker) fromThetaLaw(vo *vecOps, qo *quatOps) {
	if vo == nil || qo == nil {
		return
	}
	fn := k.fn("math/quaternion", "FromTheta")
	if fn == nil {
		return
	}
	e := k.e
	P := k.c.P
	name := P.FuncName(fn)
	sig := fn.Signature.Params()
	if sig.Len() != 2 || kindOf(sig.At(0).Type()) != kNum || !isVectorStruct(sig.At(1).Type()) {
		k.undecided("SYM-ALG", name, fn.Pos(), "FromTheta no longer has the shape (angle, axis vector)")
		return
	}
	theta := e.Sym("theta", sig.At(0).Type()).(Scalar)
	axis := e.Sym("axis", vo.typ)
	ac, _ := vo.comps(axis)
	aa := vo.dot(ac, ac)
	e.AssumePositive(aa)
	half := e.Mul(theta, Scalar{v: rfPoly(PolyConst(ratHalf()))})
	s := e.app("math.Sin", []Scalar{half})
	c := e.app("math.Cos", []Scalar{half})
	norm := e.Sqrt(aa)
	var wantV [3]Scalar
	for i := range wantV {
		q, _ := e.Div(e.Mul(ac[i], s), norm)
		wantV[i] = q
	}
	want := qo.mk(vo, wantV, c)
	res := e.Run(fn, []Val{theta, axis})
	if prob := res.Problem(); prob != "" {
		k.undecided("SYM-ALG", name, fn.Pos(), prob)
		return
	}
	// conditions that can only hold for a degenerate axis (a·a = 0): X == 0, X <= 0, X < 0 for X = a·a, √(a·a)
	degenerateKeys := map[string]bool{}
	for _, x := range []Scalar{aa, norm} {
		for _, op := range []token.Token{token.EQL, token.LEQ, token.LSS} {
			if b := e.CmpAtom(op, x, e.num(0)); !b.isConst {
				degenerateKeys[b.atom.key] = true
			}
		}
	}
	zeroAt := e.CmpAtom(token.EQL, aa, e.num(0))
	judged, skipped := 0, 0
	okAll := true
	for _, p := range res.Returns() {
		degenerate := false
		for _, cnd := range p.Conds {
			if cnd.p != nil && e.positiveDen(cnd.p.Neg()) {
				degenerate = true // the path assumes a·a ≤ 0 (or < 0)
			}
			if (!zeroAt.isConst && cnd.key == zeroAt.atom.key) || degenerateKeys[cnd.key] {
				degenerate = true
			}
		}
		if degenerate {
			skipped++
			continue
		}
		if len(p.Ret) != 1 {
			k.undecided("SYM-ALG", name, fn.Pos(), "a path does not return one quaternion")
			return
		}
		judged++
		law := "FromTheta(θ,a) = (cos(θ/2), sin(θ/2)·a/√(a·a)) (axis–angle form; sin, cos uninterpreted)"
		if !k.decide(law, name, fn.Pos(), p.Ret[0], want, true, fmt.Sprintf("path guards: %s; %d degenerate-axis path(s) not judged", condsString(p.Conds), skipped)) {
			okAll = false
			continue
		}
		// unit norm modulo sin² + cos² = 1
		gv, gw, ok := qo.parts(vo, p.Ret[0])
		if !ok {
			continue
		}
		n2 := e.Add(vo.dot(gv, gv), e.Mul(gw, gw))
		sid, ok1 := singleSym(s.v)
		if !ok1 {
			continue
		}
		_, had := e.ST.square[sid]
		one := e.num(1)
		if !had {
			e.ST.square[sid] = e.Sub(one, e.Mul(c, c)).v.n
		}
		num := n2.v.n.reduceSquares(e.ST)
		den := n2.v.den().reduceSquares(e.ST)
		if !had {
			delete(e.ST.square, sid)
		}
		k.identities++
		if num.Equal(den) {
			k.hold("SYM-ALG", name+"#unit", P.Pos(fn.Pos()), "|FromTheta(θ,a)|² = 1 modulo sin²(θ/2) + cos²(θ/2) = 1, for every axis length")
		} else {
			k.violate("SYM-ALG", name+"#unit", P.Pos(fn.Pos()), "|FromTheta(θ,a)|² is "+RF{n: num, d: den}.Short(e.ST, 6)+", not 1: the result is not a unit quaternion for every axis")
		}
	}
	if judged == 0 && okAll {
		k.undecided("SYM-ALG", name, fn.Pos(), "no path builds the quaternion for a non-degenerate axis")
	}
}
