package c17

// Multivariate polynomials with rational coefficients over interned symbols, and
// rational functions (numerator / denominator, compared by cross-multiplication).
// This is the value domain of the SYM engine (DESIGN.md §3.4).

import (
	"fmt"
	"math/big"
	"sort"
	"strings"
)

type symID int32

// SymKind classifies a symbol for the rules that look at supports.
type SymKind int

const (
	SymInput SymKind = iota // parameter / field by access path
	SymElem                 // component of a slice element elem(slice)[idx]
	SymLoop                 // havoc'ed loop-carried value
	SymApp                  // uninterpreted application
	SymLen                  // len(x)
	SymKey                  // (Engine.Ext) component of the key / value a range-over-map iteration yields; Slice = the map
)

type SymInfo struct {
	Name  string
	Kind  SymKind
	Slice string // SymElem: slice object id
	Idx   string // SymElem: canonical key of the index
	Axis  int    // -1 unknown; 0,1,2,3 = X,Y,Z,W component of a vector-typed leaf
	Root  string // name of the root object (parameter) this symbol belongs to
}

// SymTab interns symbols by name.
type SymTab struct {
	info   []SymInfo
	byName map[string]symID
	// square: s*s rewrites to the polynomial (s = sqrt(p))
	square  map[symID]*Poly
	mulMemo map[[4]uint64]*Poly
	memoGen int
}

func NewSymTab() *SymTab {
	return &SymTab{byName: map[string]symID{}, square: map[symID]*Poly{}}
}

func (st *SymTab) Intern(name string, kind SymKind) symID {
	if id, ok := st.byName[name]; ok {
		return id
	}
	id := symID(len(st.info))
	st.info = append(st.info, SymInfo{Name: name, Kind: kind, Axis: -1})
	st.byName[name] = id
	return id
}

func (st *SymTab) Info(id symID) *SymInfo { return &st.info[id] }
func (st *SymTab) Name(id symID) string   { return st.info[id].Name }

type symExp struct {
	s symID
	e int32
}

type mono []symExp // sorted by s, all e > 0

func (m mono) key() string {
	if len(m) == 0 {
		return ""
	}
	b := make([]byte, 0, len(m)*5)
	for _, se := range m {
		b = append(b, byte(se.s>>16), byte(se.s>>8), byte(se.s), byte(se.e>>8), byte(se.e))
	}
	return string(b)
}

func mulMono(a, b mono) mono {
	if len(a) == 0 {
		return b
	}
	if len(b) == 0 {
		return a
	}
	out := make(mono, 0, len(a)+len(b))
	i, j := 0, 0
	for i < len(a) && j < len(b) {
		switch {
		case a[i].s == b[j].s:
			out = append(out, symExp{a[i].s, a[i].e + b[j].e})
			i++
			j++
		case a[i].s < b[j].s:
			out = append(out, a[i])
			i++
		default:
			out = append(out, b[j])
			j++
		}
	}
	out = append(out, a[i:]...)
	out = append(out, b[j:]...)
	return out
}

type term struct {
	m mono
	c *big.Rat
}

// Poly is immutable after construction by the operations below.
type Poly struct {
	t map[string]*term
	// caches (a polynomial is not modified once an operation has returned it)
	sorted []*term
	str    string
	h1, h2 uint64
	hashed bool
}

// hash is an order-independent 128-bit fingerprint of the polynomial (memo key of products).
func (p *Poly) hash() (uint64, uint64) {
	if p.hashed {
		return p.h1, p.h2
	}
	var a, b uint64
	for k, t := range p.t {
		h := uint64(14695981039346656037)
		for i := 0; i < len(k); i++ {
			h = (h ^ uint64(k[i])) * 1099511628211
		}
		g := uint64(1469598103934665603)
		for _, w := range t.c.Num().Bits() {
			g = (g ^ uint64(w)) * 1099511628211
		}
		g = (g ^ uint64(t.c.Sign()+2)) * 1099511628211
		for _, w := range t.c.Denom().Bits() {
			g = (g ^ uint64(w) ^ 0x9e3779b97f4a7c15) * 1099511628211
		}
		x := h*0x9e3779b97f4a7c15 ^ g
		x ^= x >> 29
		x *= 0xbf58476d1ce4e5b9
		x ^= x >> 32
		a += x
		b += (x * 0x94d049bb133111eb) ^ (h + g<<1)
	}
	p.h1, p.h2, p.hashed = a, b+uint64(len(p.t)), true
	return p.h1, p.h2
}

func newPoly() *Poly { return &Poly{t: map[string]*term{}} }

func PolyConst(c *big.Rat) *Poly {
	p := newPoly()
	if c.Sign() != 0 {
		p.t[""] = &term{nil, new(big.Rat).Set(c)}
	}
	return p
}

func PolyInt(n int64) *Poly { return PolyConst(new(big.Rat).SetInt64(n)) }

func PolySym(s symID) *Poly {
	p := newPoly()
	m := mono{{s, 1}}
	p.t[m.key()] = &term{m, big.NewRat(1, 1)}
	return p
}

func (p *Poly) addTerm(m mono, c *big.Rat) {
	if c.Sign() == 0 {
		return
	}
	k := m.key()
	if t, ok := p.t[k]; ok {
		t.c = new(big.Rat).Add(t.c, c)
		if t.c.Sign() == 0 {
			delete(p.t, k)
		}
		return
	}
	p.t[k] = &term{m, new(big.Rat).Set(c)}
}

func (p *Poly) IsZero() bool { return len(p.t) == 0 }

func (p *Poly) Const() (*big.Rat, bool) {
	if len(p.t) == 0 {
		return new(big.Rat), true
	}
	if len(p.t) == 1 {
		if t, ok := p.t[""]; ok {
			return t.c, true
		}
	}
	return nil, false
}

func (p *Poly) Add(q *Poly) *Poly {
	r := newPoly()
	for k, t := range p.t {
		r.t[k] = &term{t.m, t.c}
	}
	for _, t := range q.t {
		r.addTermShared(t.m, t.c)
	}
	return r
}

// addTermShared is addTerm but never mutates a coefficient shared with another polynomial.
func (p *Poly) addTermShared(m mono, c *big.Rat) {
	k := m.key()
	if t, ok := p.t[k]; ok {
		nc := new(big.Rat).Add(t.c, c)
		if nc.Sign() == 0 {
			delete(p.t, k)
		} else {
			p.t[k] = &term{t.m, nc}
		}
		return
	}
	if c.Sign() != 0 {
		p.t[k] = &term{m, c}
	}
}

func (p *Poly) Neg() *Poly {
	r := newPoly()
	for k, t := range p.t {
		r.t[k] = &term{t.m, new(big.Rat).Neg(t.c)}
	}
	return r
}

func (p *Poly) Sub(q *Poly) *Poly { return p.Add(q.Neg()) }

func (p *Poly) Scale(c *big.Rat) *Poly {
	r := newPoly()
	if c.Sign() == 0 {
		return r
	}
	for k, t := range p.t {
		r.t[k] = &term{t.m, new(big.Rat).Mul(t.c, c)}
	}
	return r
}

// Mul multiplies; st (may be nil) supplies the s*s -> poly rewrites of sqrt symbols.
func (p *Poly) Mul(q *Poly, st *SymTab) *Poly {
	r := newPoly()
	if len(p.t) == 0 || len(q.t) == 0 {
		return r
	}
	// large products recur on every re-executed path: memoise them by fingerprint
	var mk [4]uint64
	memo := st != nil && len(p.t)*len(q.t) >= 256
	if memo {
		a1, a2 := p.hash()
		b1, b2 := q.hash()
		if a1 > b1 || (a1 == b1 && a2 > b2) {
			a1, a2, b1, b2 = b1, b2, a1, a2
		}
		mk = [4]uint64{a1, a2, b1, b2}
		if st.mulMemo == nil {
			st.mulMemo = map[[4]uint64]*Poly{}
		}
		if hit, ok := st.mulMemo[mk]; ok && st.memoGen == len(st.square) {
			return hit
		}
	}
	defer func() {
		_ = mk
	}()
	for _, a := range p.t {
		for _, b := range q.t {
			r.addTerm(mulMono(a.m, b.m), new(big.Rat).Mul(a.c, b.c))
		}
	}
	if st != nil && len(st.square) > 0 {
		r = r.reduceSquares(st)
	}
	if memo {
		if st.memoGen != len(st.square) {
			// new rewrite rules may change reduced products: start a new memo generation
			st.mulMemo = map[[4]uint64]*Poly{}
			st.memoGen = len(st.square)
		}
		st.mulMemo[mk] = r
	}
	return r
}

func (p *Poly) reduceSquares(st *SymTab) *Poly {
	for iter := 0; iter < 16; iter++ {
		changed := false
		r := newPoly()
		for _, t := range p.t {
			hit := -1
			for i, se := range t.m {
				if se.e >= 2 {
					if _, ok := st.square[se.s]; ok {
						hit = i
						break
					}
				}
			}
			if hit < 0 {
				r.addTerm(t.m, t.c)
				continue
			}
			changed = true
			se := t.m[hit]
			rest := make(mono, 0, len(t.m))
			rest = append(rest, t.m[:hit]...)
			if se.e > 2 {
				rest = append(rest, symExp{se.s, se.e - 2})
			}
			rest = append(rest, t.m[hit+1:]...)
			base := newPoly()
			base.t[rest.key()] = &term{rest, t.c}
			prod := base.Mul(st.square[se.s], nil)
			for _, pt := range prod.t {
				r.addTerm(pt.m, pt.c)
			}
		}
		p = r
		if !changed {
			break
		}
	}
	return p
}

func (p *Poly) Equal(q *Poly) bool {
	if len(p.t) != len(q.t) {
		return false
	}
	for k, t := range p.t {
		u, ok := q.t[k]
		if !ok || t.c.Cmp(u.c) != 0 {
			return false
		}
	}
	return true
}

// Support returns the symbols occurring in p, sorted.
func (p *Poly) Support() []symID {
	seen := map[symID]bool{}
	for _, t := range p.t {
		for _, se := range t.m {
			seen[se.s] = true
		}
	}
	out := make([]symID, 0, len(seen))
	for s := range seen {
		out = append(out, s)
	}
	sort.Slice(out, func(i, j int) bool { return out[i] < out[j] })
	return out
}

func (p *Poly) NumTerms() int { return len(p.t) }

func (p *Poly) sortedTerms(st *SymTab) []*term {
	if p.sorted != nil && len(p.sorted) == len(p.t) {
		return p.sorted
	}
	type named struct {
		name string
		t    *term
	}
	ns := make([]named, 0, len(p.t))
	for _, t := range p.t {
		ns = append(ns, named{monoName(t.m, st), t})
	}
	sort.Slice(ns, func(i, j int) bool { return ns[i].name < ns[j].name })
	ts := make([]*term, len(ns))
	for i, n := range ns {
		ts[i] = n.t
	}
	p.sorted = ts
	return ts
}

func monoName(m mono, st *SymTab) string {
	if len(m) == 0 {
		return ""
	}
	parts := make([]string, 0, len(m))
	for _, se := range m {
		n := st.Name(se.s)
		if se.e != 1 {
			n = fmt.Sprintf("%s^%d", n, se.e)
		}
		parts = append(parts, n)
	}
	sort.Strings(parts)
	return strings.Join(parts, "*")
}

// String renders a canonical, name-based form (stable across symbol numbering).
func (p *Poly) String(st *SymTab) string {
	if len(p.t) == 0 {
		return "0"
	}
	if p.str != "" {
		return p.str
	}
	out := p.buildString(st)
	p.str = out
	return out
}

func (p *Poly) buildString(st *SymTab) string {
	var b strings.Builder
	for i, t := range p.sortedTerms(st) {
		c := t.c
		mn := monoName(t.m, st)
		neg := c.Sign() < 0
		abs := new(big.Rat).Abs(c)
		if i == 0 {
			if neg {
				b.WriteString("-")
			}
		} else if neg {
			b.WriteString(" - ")
		} else {
			b.WriteString(" + ")
		}
		one := abs.Cmp(big.NewRat(1, 1)) == 0
		switch {
		case mn == "":
			b.WriteString(abs.RatString())
		case one:
			b.WriteString(mn)
		default:
			b.WriteString(abs.RatString() + "*" + mn)
		}
	}
	return b.String()
}

// Short renders at most n terms.
func (p *Poly) Short(st *SymTab, n int) string {
	s := p.String(st)
	if len(p.t) <= n && len(s) < 400 {
		return s
	}
	ts := p.sortedTerms(st)
	q := newPoly()
	for i := 0; i < n && i < len(ts); i++ {
		q.t[ts[i].m.key()] = ts[i]
	}
	out := q.String(st)
	if len(out) > 400 {
		out = out[:400]
	}
	return fmt.Sprintf("%s + … (%d terms)", out, len(p.t))
}

// leadNormalize divides p by the absolute value (abs=true) or the value of the
// coefficient of its first term in canonical name order.
func (p *Poly) leadNormalize(st *SymTab, abs bool) *Poly {
	if len(p.t) == 0 {
		return p
	}
	ts := p.sortedTerms(st)
	c := new(big.Rat).Set(ts[0].c)
	if abs {
		c.Abs(c)
	}
	return p.Scale(new(big.Rat).Inv(c))
}

// ---------------------------------------------------------------- rational functions

// RF is n/d; d == nil means 1.
type RF struct {
	n, d *Poly
}

func rfPoly(p *Poly) RF { return RF{n: p} }
func rfInt(n int64) RF  { return RF{n: PolyInt(n)} }

func (a RF) den() *Poly {
	if a.d == nil {
		return PolyInt(1)
	}
	return a.d
}

func mkRF(n, d *Poly) RF {
	if d == nil {
		return RF{n: n}
	}
	if n.IsZero() {
		return RF{n: n}
	}
	if c, ok := d.Const(); ok && c.Sign() != 0 {
		return RF{n: n.Scale(new(big.Rat).Inv(c))}
	}
	return RF{n: n, d: d}
}

func (a RF) sameDen(b RF) bool {
	if a.d == nil && b.d == nil {
		return true
	}
	if a.d == nil || b.d == nil {
		return false
	}
	return a.d == b.d || a.d.Equal(b.d)
}

func (a RF) Add(b RF, st *SymTab) RF {
	if a.sameDen(b) {
		return mkRF(a.n.Add(b.n), a.d)
	}
	if a.d == nil {
		return mkRF(a.n.Mul(b.d, st).Add(b.n), b.d)
	}
	if b.d == nil {
		return mkRF(a.n.Add(b.n.Mul(a.d, st)), a.d)
	}
	return mkRF(a.n.Mul(b.d, st).Add(b.n.Mul(a.d, st)), a.d.Mul(b.d, st))
}

func (a RF) Neg() RF { return RF{n: a.n.Neg(), d: a.d} }

func (a RF) Sub(b RF, st *SymTab) RF { return a.Add(b.Neg(), st) }

func (a RF) Mul(b RF, st *SymTab) RF {
	// (n/d)·d = n: the one cancellation the laws need (cofactor/det times det)
	if a.d != nil && b.d == nil && a.d.Equal(b.n) {
		return RF{n: a.n}
	}
	if b.d != nil && a.d == nil && b.d.Equal(a.n) {
		return RF{n: b.n}
	}
	n := a.n.Mul(b.n, st)
	switch {
	case a.d == nil && b.d == nil:
		return RF{n: n}
	case a.d == nil:
		return mkRF(n, b.d)
	case b.d == nil:
		return mkRF(n, a.d)
	}
	return mkRF(n, a.d.Mul(b.d, st))
}

// Div returns a/b; ok=false when b is identically zero.
func (a RF) Div(b RF, st *SymTab) (RF, bool) {
	if b.n.IsZero() {
		return RF{}, false
	}
	n := a.n
	if b.d != nil {
		n = n.Mul(b.d, st)
	}
	d := b.n
	if a.d != nil {
		d = d.Mul(a.d, st)
	}
	return mkRF(n, d), true
}

func (a RF) Equal(b RF, st *SymTab) bool {
	if a.sameDen(b) {
		return a.n.Equal(b.n)
	}
	return a.n.Mul(b.den(), st).Equal(b.n.Mul(a.den(), st))
}

func (a RF) IsPoly() bool { return a.d == nil }

func (a RF) Const() (*big.Rat, bool) {
	if a.d != nil {
		return nil, false
	}
	return a.n.Const()
}

func (a RF) String(st *SymTab) string {
	if a.d == nil {
		return a.n.String(st)
	}
	return "(" + a.n.String(st) + ")/(" + a.d.String(st) + ")"
}

func (a RF) Short(st *SymTab, n int) string {
	if a.d == nil {
		return a.n.Short(st, n)
	}
	return "(" + a.n.Short(st, n) + ")/(" + a.d.Short(st, n) + ")"
}

func (a RF) Support() []symID {
	if a.d == nil {
		return a.n.Support()
	}
	seen := map[symID]bool{}
	for _, s := range a.n.Support() {
		seen[s] = true
	}
	for _, s := range a.d.Support() {
		seen[s] = true
	}
	out := make([]symID, 0, len(seen))
	for s := range seen {
		out = append(out, s)
	}
	sort.Slice(out, func(i, j int) bool { return out[i] < out[j] })
	return out
}

// ---------------------------------------------------------------- dependency sets (SYM-DEP)

// depset is a bitset over symbol ids: every symbol a value was computed from,
// whether or not it cancels algebraically (the dataflow shadow).
type depset []uint64

func (d depset) with(s symID) depset {
	w := int(s) / 64
	out := make(depset, max(len(d), w+1))
	copy(out, d)
	out[w] |= 1 << (uint(s) % 64)
	return out
}

func (d depset) union(o depset) depset {
	if len(o) == 0 {
		return d
	}
	if len(d) == 0 {
		return o
	}
	a, b := d, o
	if len(a) < len(b) {
		a, b = b, a
	}
	same := true
	for i := range b {
		if a[i]|b[i] != a[i] {
			same = false
			break
		}
	}
	if same {
		return a
	}
	out := make(depset, len(a))
	copy(out, a)
	for i := range b {
		out[i] |= b[i]
	}
	return out
}

func (d depset) ids() []symID {
	var out []symID
	for w, x := range d {
		for b := 0; b < 64; b++ {
			if x&(1<<uint(b)) != 0 {
				out = append(out, symID(w*64+b))
			}
		}
	}
	return out
}

func (d depset) equal(o depset) bool {
	n := max(len(d), len(o))
	for i := 0; i < n; i++ {
		var a, b uint64
		if i < len(d) {
			a = d[i]
		}
		if i < len(o) {
			b = o[i]
		}
		if a != b {
			return false
		}
	}
	return true
}

func depNames(d depset, st *SymTab) []string {
	var out []string
	for _, s := range d.ids() {
		out = append(out, st.Name(s))
	}
	sort.Strings(out)
	return out
}

func ratHalf() *big.Rat { return big.NewRat(1, 2) }
