package c17

// SHAPE-1..4 + SYM-ALG for the element-wise transforms: Mesh.Rotate / Translate /
// Scale / ApplyTRS and the array forms of TRS and Quaternion.
//
// A loop is read through one symbolic iteration (exec.go): the paths that end at
// the back edge tell what one iteration stores, the returning paths tell what
// is done with the filled slice.

import (
	"fmt"
	"go/constant"
	"go/token"
	"go/types"
	"sort"
	"strconv"
	"strings"

	"golang.org/x/tools/go/ssa"
)

type elemRead struct {
	src  *SliceObj
	elem Val
}

type mapSummary struct {
	reads     []elemRead // every source array the stored element reads at the loop index
	lenProved bool       // the length of dst equals len(src) by construction (append idiom)
	iterPath  *Path
	dst       *SliceObj
	src       *SliceObj // nil if the stored value reads no slice element
	idx       Scalar
	val       Val
	elem      Val
	entry     *LoopEntry
	facts     []string
}

type shapeIssue struct {
	rule      string
	undecided bool
	msg       string
}

// analyzeMap decides whether, over all paths of res, the slice dstID is written by
// exactly one full-range loop storing dst[i] = F(src[i]) and by nothing else.
func (k *checker) analyzeMap(res *Result, dstID string, sink func(ev Event) bool) (*mapSummary, []shapeIssue) {
	e := k.e
	var issues []shapeIssue
	bad := func(rule, format string, a ...any) {
		issues = append(issues, shapeIssue{rule: rule, msg: fmt.Sprintf(format, a...)})
	}
	und := func(rule, format string, a ...any) {
		issues = append(issues, shapeIssue{rule: rule, undecided: true, msg: fmt.Sprintf(format, a...)})
	}
	// 0. is dst a loop-carried slice grown by append?
	for _, p := range res.Paths {
		for _, ent := range p.Loops {
			for j, hv := range ent.Havoc {
				if so, ok := hv.(*SliceObj); ok && so.id == dstID {
					return k.analyzeAppendMap(res, ent.ID, j, so, sink)
				}
			}
		}
	}
	// 1. which loop writes dst?
	loopIDs := map[string]bool{}
	for _, p := range res.Paths {
		for _, ev := range p.Events {
			if ev.Slice == nil || ev.Slice.id != dstID {
				continue
			}
			switch ev.Kind {
			case EvStoreElem:
				if ev.Loop == nil {
					bad("SHAPE-4", "element %s of the result array is also stored outside the element-wise loop (at %s)", rfKey(ev.Idx.v, e.ST), k.c.P.Pos(ev.Pos))
				} else {
					loopIDs[ev.Loop.ID] = true
				}
			case EvBulkWrite:
				bad("SHAPE-4", "the result array is also written by %s (at %s)", ev.Callee, k.c.P.Pos(ev.Pos))
			}
		}
		for _, ev := range p.Events {
			if ev.Kind != EvCall || (sink != nil && sink(ev)) {
				continue
			}
			for _, a := range ev.Args {
				if so, ok := a.(*SliceObj); ok && so.id == dstID {
					und("SHAPE-4", "the result array is handed to %s, which the engine does not interpret (at %s)", ev.Callee, k.c.P.Pos(ev.Pos))
				}
			}
		}
	}
	if len(loopIDs) == 0 {
		bad("SHAPE-2", "no loop stores into the result array")
		return nil, issues
	}
	if len(loopIDs) > 1 {
		var ids []string
		for id := range loopIDs {
			ids = append(ids, id)
		}
		sort.Strings(ids)
		bad("SHAPE-4", "more than one loop stores into the result array (%s)", strings.Join(ids, ", "))
		return nil, issues
	}
	var L string
	for id := range loopIDs {
		L = id
	}
	ms := &mapSummary{}
	iterPaths := 0
	for _, p := range res.Paths {
		// early exits of L
		for _, ex := range p.LoopExits {
			if ex.Entry.ID == L && ex.From != ex.Entry.Header {
				bad("SHAPE-2", "the element-wise loop can be left early (from block %d): later elements keep their zero value", ex.From.Index)
			}
		}
		inL := false
		for _, ent := range p.Loops {
			if ent.ID == L {
				inL = true
			}
		}
		if !inL {
			continue
		}
		if p.Kind == EndReturn {
			// a return from inside the body?
			continue
		}
		if p.Kind != EndLoopBack || p.Iter == nil || p.Iter.Entry == nil || p.Iter.Entry.ID != L {
			if p.Kind == EndLoopBack {
				// back edge of an inner/other loop while inside L
				und("SHAPE-2", "nested loop inside the element-wise loop")
			}
			continue
		}
		iterPaths++
		var stores []Event
		for _, ev := range p.Events {
			if ev.Kind == EvStoreElem && ev.Slice.id == dstID && ev.Loop != nil && ev.Loop.ID == L {
				stores = append(stores, ev)
			}
		}
		if len(stores) == 0 {
			bad("SHAPE-2", "an iteration of the element-wise loop can complete without storing its element (guards: %s)", condsString(p.Conds[p.Iter.Entry.CondIndex:]))
			continue
		}
		if len(stores) > 1 {
			bad("SHAPE-4", "one iteration stores %d times into the result array", len(stores))
			continue
		}
		st := stores[0]
		if len(st.Path) != 0 {
			bad("SHAPE-4", "an iteration stores into a part of the element only")
			continue
		}
		if ms.entry == nil {
			ms.entry = p.Iter.Entry
			ms.dst = st.Slice
			ms.idx = st.Idx
			ms.val = st.Val
			// induction: idx = P + c with P a header phi of L, P0 + c = 0, next(P) = P + 1, guard idx < len(dst)
			k.checkInduction(p, st, &issues)
		} else {
			if !ms.idx.v.Equal(st.Idx.v, e.ST) || !e.sameVal(ms.val, st.Val) {
				und("SHAPE-2", "the stored element depends on a branch inside the loop body")
			}
		}
	}
	if ms.entry == nil {
		if iterPaths == 0 {
			und("SHAPE-2", "no complete iteration of the element-wise loop could be followed")
		}
		return nil, issues
	}
	// the symbols of the stored value: element symbols must be src[idx] of one slice
	idxKey := rfKey(ms.idx.v, e.ST)
	var ls []leaf
	leaves(ms.val, "", &ls)
	srcIDs := map[string]bool{}
	for _, l := range ls {
		for _, s := range l.s.v.Support() {
			k.elemSyms(s, idxKey, srcIDs, &issues, map[symID]bool{})
		}
	}
	var ids []string
	for id := range srcIDs {
		ids = append(ids, id)
	}
	sort.Strings(ids)
	if len(srcIDs) > 1 && !k.multiSrc {
		bad("SHAPE-2", "the stored element reads more than one array (%s)", strings.Join(ids, ", "))
	}
	for _, id := range ids {
		// find the slice object: it is recorded in the content of the iteration path
		for _, p := range res.Paths {
			if p.Kind == EndLoopBack && p.Iter != nil && p.Iter.Entry != nil && p.Iter.Entry.ID == L {
				if so := findSlice(p, id); so != nil {
					ms.src = so
					ms.elem = e.elemSym(so, ms.idx)
					dup := false
					for _, r := range ms.reads {
						if r.src.id == so.id {
							dup = true
						}
					}
					if !dup {
						ms.reads = append(ms.reads, elemRead{so, ms.elem})
					}
					ms.iterPath = p
				}
			}
		}
	}
	return ms, issues
}

// elemSyms walks a symbol (through uninterpreted applications) and records slice element symbols.
func (k *checker) elemSyms(s symID, idxKey string, srcIDs map[string]bool, issues *[]shapeIssue, seen map[symID]bool) {
	if seen[s] {
		return
	}
	seen[s] = true
	inf := k.e.ST.Info(s)
	switch inf.Kind {
	case SymElem:
		srcIDs[inf.Slice] = true
		if inf.Idx != idxKey {
			*issues = append(*issues, shapeIssue{rule: "SHAPE-2", msg: fmt.Sprintf("element [%s] of the result is computed from element [%s] of %s (not the same index)", idxKey, inf.Idx, inf.Slice)})
		}
	case SymApp:
		if ai := k.e.apps[s]; ai != nil {
			for _, a := range ai.args {
				for _, t := range a.Support() {
					k.elemSyms(t, idxKey, srcIDs, issues, seen)
				}
			}
		}
	}
}

func findSlice(p *Path, id string) *SliceObj {
	var found *SliceObj
	var visit func(v Val, depth int)
	visit = func(v Val, depth int) {
		if found != nil || depth > 6 {
			return
		}
		switch x := v.(type) {
		case *SliceObj:
			if x.id == id {
				found = x
			}
		case *TupleV:
			for _, f := range x.f {
				visit(f, depth+1)
			}
		case PtrV:
			visit(x.cell.v, depth+1)
		case *ClosureV:
			for _, b := range x.binds {
				visit(b, depth+1)
			}
		case *AppV:
			for _, a := range x.args {
				visit(a, depth+1)
			}
		}
	}
	for _, a := range p.Args {
		visit(a, 0)
	}
	for _, ev := range p.Events {
		if ev.Slice != nil {
			visit(ev.Slice, 0)
		}
		for _, a := range ev.Args {
			visit(a, 0)
		}
	}
	if found == nil && p.slices != nil {
		found = p.slices[id]
	}
	return found
}

func (k *checker) checkInduction(p *Path, st Event, issues *[]shapeIssue) {
	k.checkInductionIdx(p, st.Idx, st.Slice.ln, issues, false)
}

// checkInductionIdx: on the iteration path p, idx = P + c for a header phi P with
// P0 + c = 0, next(P) = P + 1, and the loop is entered exactly while idx < bound.
func (k *checker) checkInductionIdx(p *Path, idx Scalar, bound Scalar, issues *[]shapeIssue, ascendingOnly bool) {
	e := k.e
	ent := p.Iter.Entry
	bad := func(format string, a ...any) {
		*issues = append(*issues, shapeIssue{rule: "SHAPE-2", msg: fmt.Sprintf(format, a...)})
	}
	// idx = P + c
	var phiI = -1
	var c Scalar
	for i, hv := range ent.Havoc {
		hs, ok := hv.(Scalar)
		if !ok {
			continue
		}
		d := e.Sub(idx, hs)
		if _, isC := d.v.Const(); isC {
			phiI = i
			c = d
		}
	}
	if phiI < 0 {
		*issues = append(*issues, shapeIssue{rule: "SHAPE-2", undecided: true, msg: fmt.Sprintf("the index %s is not (loop counter + constant)", rfKey(idx.v, e.ST))})
		return
	}
	init, ok1 := ent.Init[phiI].(Scalar)
	next, ok2 := p.Iter.Next[phiI].(Scalar)
	if !ok1 || !ok2 {
		*issues = append(*issues, shapeIssue{rule: "SHAPE-2", undecided: true, msg: "loop counter is not a scalar"})
		return
	}
	step := e.Sub(next, ent.Havoc[phiI].(Scalar))
	sc, isC := step.v.Const()
	if !isC || !sc.IsInt() || (sc.Num().Int64() != 1 && sc.Num().Int64() != -1) {
		bad("the loop counter advances by %s per iteration, not by one: elements are skipped", rfKey(step.v, e.ST))
		return
	}
	first := e.Add(init, c)
	if ent.CondIndex >= len(p.Conds) {
		bad("the loop body is entered unconditionally")
		return
	}
	got := p.Conds[ent.CondIndex]
	if sc.Num().Int64() == 1 {
		if z, isC := first.v.Const(); !isC || z.Sign() != 0 {
			bad("the first element visited is [%s], not [0]", rfKey(first.v, e.ST))
		}
		// guard: the first condition decided after entering the loop is idx < bound
		want := e.CmpAtom(token.LSS, idx, bound)
		if want.isConst || got.key != want.atom.key {
			bad("the loop runs while %s; covering every element needs %s (index %s against the length %s)", got.key, want.atom.key, rfKey(idx.v, e.ST), rfKey(bound.v, e.ST))
		}
		return
	}
	if ascendingOnly {
		bad("the loop walks the source backwards while the result is grown front to back: the order is reversed")
		return
	}
	// descending: first = bound − 1, runs while idx ≥ 0
	if d := e.Sub(first, e.Sub(bound, e.num(1))); !d.v.n.IsZero() {
		bad("the first element visited is [%s], not the last one [%s]", rfKey(first.v, e.ST), rfKey(e.Sub(bound, e.num(1)).v, e.ST))
	}
	want := e.CmpAtom(token.GEQ, idx, e.num(0))
	if want.isConst || got.key != want.atom.key {
		bad("the loop runs while %s; covering every element downwards needs %s", got.key, want.atom.key)
	}
}

// analyzeAppendMap: dst is the loop-carried slice #j of loop L: it starts empty, every
// iteration appends exactly one value F(src[idx]) with idx running 0,1,…,len(src)−1.
func (k *checker) analyzeAppendMap(res *Result, L string, j int, dst *SliceObj, sink func(ev Event) bool) (*mapSummary, []shapeIssue) {
	e := k.e
	var issues []shapeIssue
	bad := func(rule, format string, a ...any) {
		issues = append(issues, shapeIssue{rule: rule, msg: fmt.Sprintf(format, a...)})
	}
	und := func(rule, format string, a ...any) {
		issues = append(issues, shapeIssue{rule: rule, undecided: true, msg: fmt.Sprintf(format, a...)})
	}
	ms := &mapSummary{dst: dst, lenProved: true}
	for _, p := range res.Paths {
		for _, ex := range p.LoopExits {
			if ex.Entry.ID == L && ex.From != ex.Entry.Header {
				bad("SHAPE-2", "the element-wise loop can be left early (from block %d): later elements are missing", ex.From.Index)
			}
		}
		var ent *LoopEntry
		for _, x := range p.Loops {
			if x.ID == L {
				ent = x
			}
		}
		if ent == nil {
			continue
		}
		// the slice starts empty
		switch init := ent.Init[j].(type) {
		case NilV:
		case *SliceObj:
			if c, ok := init.ln.v.Const(); !(init.origin == "make" && ok && c.Sign() == 0) {
				if init.origin == "make" {
					bad("SHAPE-2", "the array the loop appends to starts with length %s, not 0", rfKey(init.ln.v, e.ST))
				} else {
					bad("SHAPE-2", "the loop appends to existing storage (%s)", init.id)
				}
			}
		default:
			und("SHAPE-2", "the initial value of the appended slice is not understood")
		}
		// other uses of dst inside the loop / after it
		for _, ev := range p.Events {
			switch ev.Kind {
			case EvStoreElem, EvBulkWrite:
				if ev.Slice != nil && (ev.Slice.id == dst.id || (ev.Slice.appendBase != nil && ev.Slice.appendBase.id == dst.id)) {
					bad("SHAPE-4", "the result array is also written by %s (at %s)", map[bool]string{true: "an element store", false: ev.Callee}[ev.Kind == EvStoreElem], k.c.P.Pos(ev.Pos))
				}
			case EvCall:
				if sink != nil && sink(ev) {
					continue
				}
				for _, a := range ev.Args {
					if so, ok := a.(*SliceObj); ok && (so.id == dst.id || (so.appendBase != nil && so.appendBase.id == dst.id)) {
						und("SHAPE-4", "the result array is handed to %s, which the engine does not interpret (at %s)", ev.Callee, k.c.P.Pos(ev.Pos))
					}
				}
			}
		}
		if p.Kind != EndLoopBack || p.Iter == nil || p.Iter.Entry == nil || p.Iter.Entry.ID != L {
			continue
		}
		nx, ok := p.Iter.Next[j].(*SliceObj)
		if !ok || nx.origin != "append" || nx.appendBase == nil || nx.appendBase.id != dst.id {
			if ok && nx.id == dst.id {
				bad("SHAPE-2", "an iteration of the element-wise loop can complete without appending its element (guards: %s)", condsString(p.Conds[ent.CondIndex:]))
			} else {
				und("SHAPE-2", "the loop-carried slice is not updated by a single append")
			}
			continue
		}
		if len(nx.appended) != 1 {
			bad("SHAPE-2", "one iteration appends %d elements", len(nx.appended))
			continue
		}
		nAppends := 0
		for _, ev := range p.Events {
			if ev.Kind == EvAppend && ev.Loop != nil && ev.Loop.ID == L && ev.Slice != nil && (ev.Slice.id == dst.id || (ev.Slice.appendBase != nil && ev.Slice.appendBase.id == dst.id)) {
				nAppends++
			}
		}
		if nAppends != 1 {
			bad("SHAPE-4", "one iteration appends %d times to the result array", nAppends)
			continue
		}
		if ms.entry == nil {
			ms.entry = ent
			ms.val = nx.appended[0]
			ms.iterPath = p
		} else if !e.sameVal(ms.val, nx.appended[0]) {
			und("SHAPE-2", "the appended element depends on a branch inside the loop body")
		}
	}
	if ms.entry == nil {
		und("SHAPE-2", "no complete iteration of the appending loop could be followed")
		return nil, issues
	}
	// which source element is read?
	var ls []leaf
	leaves(ms.val, "", &ls)
	srcIDs := map[string]bool{}
	idxKeys := map[string]bool{}
	for _, l := range ls {
		for _, s := range l.s.v.Support() {
			k.elemKeys(s, srcIDs, idxKeys, map[symID]bool{})
		}
	}
	if (len(srcIDs) != 1 && !(k.multiSrc && len(srcIDs) > 1)) || len(idxKeys) != 1 {
		if len(srcIDs) == 0 {
			bad("SHAPE-3", "the appended element does not read the source array at all")
		} else {
			bad("SHAPE-2", "the appended element reads %d arrays at %d different indices", len(srcIDs), len(idxKeys))
		}
		return nil, issues
	}
	var idxKey, srcID string
	for x := range idxKeys {
		idxKey = x
	}
	for x := range srcIDs {
		srcID = x
	}
	found := false
	for _, hv := range ms.entry.Havoc {
		if hs, ok := hv.(Scalar); ok {
			for _, c := range []int64{0, 1, -1} {
				cand := e.Add(hs, e.num(c))
				if rfKey(cand.v, e.ST) == idxKey {
					ms.idx = cand
					found = true
				}
			}
		}
	}
	if !found {
		und("SHAPE-2", "the element read, [%s], is not [loop counter (+1)]", idxKey)
		return nil, issues
	}
	var allIDs []string
	for x := range srcIDs {
		allIDs = append(allIDs, x)
	}
	sort.Strings(allIDs)
	for _, id := range allIDs {
		so := findSlice(ms.iterPath, id)
		if so == nil {
			und("SHAPE-2", "source array %s not found", id)
			return nil, issues
		}
		ms.reads = append(ms.reads, elemRead{so, e.elemSym(so, ms.idx)})
		ms.src = so
	}
	_ = srcID
	ms.elem = e.elemSym(ms.src, ms.idx)
	k.checkInductionIdx(ms.iterPath, ms.idx, ms.src.ln, &issues, true)
	return ms, issues
}

func (k *checker) elemKeys(s symID, srcIDs, idxKeys map[string]bool, seen map[symID]bool) {
	if seen[s] {
		return
	}
	seen[s] = true
	inf := k.e.ST.Info(s)
	switch inf.Kind {
	case SymElem:
		srcIDs[inf.Slice] = true
		idxKeys[inf.Idx] = true
	case SymApp:
		if ai := k.e.apps[s]; ai != nil {
			for _, a := range ai.args {
				for _, t := range a.Support() {
					k.elemKeys(t, srcIDs, idxKeys, seen)
				}
			}
		}
	}
}

// ---------------------------------------------------------------- the table

type shapeCase struct {
	rel, name string
	law       string
	// spec builds the required element value from the parameter values and the source element
	spec func(params []Val, elem Val) (Val, string)
	mesh bool // returns a Mesh through SetFloat3Attribute(Position, …)
	// inPlace: destination is the parameter slice itself
	inPlace bool
}

func (k *checker) shapeLaws(vo *vecOps, qo *quatOps, rotate, transform *ssa.Function) {
	if vo == nil {
		return
	}
	_ = qo
	P := k.c.P
	R := k.c.R
	// anchors
	mpk := P.Pkg("modeling")
	if mpk == nil {
		R.Failf("anchor package modeling not found")
		return
	}
	setter := k.fn("modeling", "Mesh.SetFloat3Attribute")
	if setter == nil {
		return
	}
	setterObj := setter.Object()
	posConst, _ := mpk.Types.Scope().Lookup("PositionAttribute").(*types.Const)
	if posConst == nil || posConst.Val().Kind() != constant.String {
		R.Failf("anchor constant modeling.PositionAttribute not found")
		return
	}
	posName := constant.StringVal(posConst.Val())
	meshTN, _ := mpk.Types.Scope().Lookup("Mesh").(*types.TypeName)
	if meshTN == nil {
		R.Failf("anchor type modeling.Mesh not found")
		return
	}
	meshT := meshTN.Type()
	mst, _ := meshT.Underlying().(*types.Struct)
	v3Field := -1
	if mst != nil {
		for i := 0; i < mst.NumFields(); i++ {
			if mt, ok := mst.Field(i).Type().Underlying().(*types.Map); ok {
				if sl, ok := mt.Elem().Underlying().(*types.Slice); ok && isVectorStruct(sl.Elem()) {
					if s, ok := sl.Elem().Underlying().(*types.Struct); ok && s.NumFields() == 3 {
						if v3Field >= 0 {
							v3Field = -2
						} else if v3Field == -1 {
							v3Field = i
						}
					}
				}
			}
		}
	}
	if v3Field < 0 {
		R.Failf("modeling.Mesh has no unique map[string][]vector3 field: the Position storage cannot be identified")
		return
	}
	vecArg := func(f func(p [3]Scalar, x [3]Scalar) [3]Scalar) func(params []Val, elem Val) (Val, string) {
		return func(params []Val, elem Val) (Val, string) {
			pc, ok1 := vo.comps(params[0])
			xc, ok2 := vo.comps(elem)
			if !ok1 || !ok2 {
				return nil, "parameter or element is not a 3-component vector value"
			}
			return vo.mk(f(pc, xc)), ""
		}
	}
	viaFn := func(fn *ssa.Function) func(params []Val, elem Val) (Val, string) {
		return func(params []Val, elem Val) (Val, string) {
			if fn == nil {
				return nil, "the underlying point transform could not be decided"
			}
			return k.call1(fn, params[0], elem)
		}
	}
	cases := []shapeCase{
		{"modeling", "Mesh.Rotate", "new Position[i] = Quaternion.Rotate(q, Position[i])", viaFn(rotate), true, false},
		{"modeling", "Mesh.Translate", "new Position[i] = Position[i] + v", vecArg(func(p, x [3]Scalar) [3]Scalar { return vo.add(x, p) }), true, false},
		{"modeling", "Mesh.Scale", "new Position[i] = Position[i] ∘ amount", vecArg(func(p, x [3]Scalar) [3]Scalar { return vo.had(x, p) }), true, false},
		{"modeling", "Mesh.ApplyTRS", "new Position[i] = TRS.Transform(transform, Position[i])", viaFn(transform), true, false},
		{"math/trs", "TRS.TransformArray", "out[i] = Transform(in[i])", viaFn(transform), false, false},
		{"math/trs", "TRS.TransformInPlace", "in[i] = Transform(in[i])", viaFn(transform), false, true},
		{"math/quaternion", "Quaternion.RotateArray", "results[i] = Rotate(arr[i])", viaFn(rotate), false, false},
	}
	k.shapeEnv = &shapeEnv{setterObj: setterObj, posName: posName, v3Field: v3Field}
	k.shapeCases = cases
	for _, cs := range cases {
		fn := k.fn(cs.rel, cs.name)
		if fn == nil {
			continue
		}
		k.shapeOne(cs, fn)
	}
	R.Floor("SHAPE-2", 5)
	R.Floor("SHAPE-1", 3)
}

// flushIssues records SHAPE-2 / SHAPE-4 verdicts from the collected issues.
func (k *checker) flushIssues(name string, pos token.Pos, issues []shapeIssue, ms *mapSummary) map[string]bool {
	P := k.c.P
	by := map[string][]shapeIssue{}
	for _, is := range issues {
		by[is.rule] = append(by[is.rule], is)
	}
	held := map[string]bool{"SYM-ALG": true}
	for _, rule := range []string{"SHAPE-1", "SHAPE-2", "SHAPE-3", "SHAPE-4"} {
		list := by[rule]
		if len(list) == 0 {
			switch rule {
			case "SHAPE-2":
				if ms != nil {
					k.hold(rule, name, P.Pos(pos), fmt.Sprintf("one full-range loop (first index 0, step 1, while index < len) stores dst[%s] from src[%s]; lengths equal", rfKey(ms.idx.v, k.e.ST), rfKey(ms.idx.v, k.e.ST)))
				}
			case "SHAPE-4":
				if ms != nil {
					k.hold(rule, name, P.Pos(pos), "no other store, bulk write or uninterpreted use of the result array")
				}
			}
			continue
		}
		var msgs []string
		allUnd := true
		for _, is := range list {
			msgs = append(msgs, is.msg)
			if !is.undecided {
				allUnd = false
			}
		}
		msgs = uniqueStrings(msgs)
		if allUnd {
			k.undecide(rule, name, P.Pos(pos), strings.Join(head(msgs, 3), "; "))
		} else {
			k.violate(rule, name, P.Pos(pos), strings.Join(head(msgs, 3), "; "), head(msgs, 12)...)
		}
	}
	return held
}

func uniqueStrings(s []string) []string {
	seen := map[string]bool{}
	var out []string
	for _, x := range s {
		if !seen[x] {
			seen[x] = true
			out = append(out, x)
		}
	}
	return out
}

type shapeEnv struct {
	setterObj types.Object
	posName   string
	v3Field   int
}

// shapeOne decides SHAPE-1..4 and the element law for one function of the table.
func (k *checker) shapeOne(cs shapeCase, fn *ssa.Function) {
	e := k.e
	P := k.c.P
	vo := k.vo
	_ = vo
	setterObj, posName, v3Field := k.shapeEnv.setterObj, k.shapeEnv.posName, k.shapeEnv.v3Field
	prevOpaque := e.Opaque
	e.Opaque = func(f *ssa.Function) bool {
		if f.Object() != nil && f.Object() == setterObj {
			return true
		}
		return prevOpaque != nil && prevOpaque(f)
	}
	defer func() { e.Opaque = prevOpaque }()
	name := P.FuncName(fn)
	pos := fn.Pos()
	// symbolic arguments: receiver first
	args := make([]Val, len(fn.Params))
	for i, p := range fn.Params {
		args[i] = e.Sym(p.Name(), p.Type())
	}
	res := e.Run(fn, args)
	if prob := res.Problem(); prob != "" {
		for _, r := range []string{"SHAPE-1", "SHAPE-2", "SYM-ALG"} {
			k.undecided(r, name, pos, prob)
		}
		return
	}
	rets := res.Returns()
	if len(rets) == 0 {
		k.undecided("SHAPE-1", name, pos, "no returning path")
		return
	}
	var dstID string
	var srcWant string
	var params []Val
	var sink func(Event) bool
	issues := []shapeIssue{}
	if cs.mesh {
		// value parameters = everything but the receiver
		for _, p := range rets[0].Args[1:] {
			params = append(params, p)
		}
		mesh := rets[0].Args[0]
		mt, _ := mesh.(*TupleV)
		if mt == nil {
			k.undecided("SHAPE-1", name, pos, "receiver is not a struct value")
			return
		}
		srcWant = e.valKey(mt.f[v3Field]) + "[" + strconv.Quote(posName) + "]"
		sink = func(ev Event) bool { return ev.Fn != nil && ev.Fn == setterObj }
		s1ok := true
		for _, rp := range rets {
			app, ok := rp.Ret[0].(*AppV)
			if !ok || app.fn == nil || app.fn != setterObj || len(app.args) != 3 {
				issues = append(issues, shapeIssue{rule: "SHAPE-1", msg: fmt.Sprintf("the result is not Mesh.SetFloat3Attribute applied to the input mesh (it is %s)", trunc(e.valKey(rp.Ret[0]), 160))})
				s1ok = false
				continue
			}
			if !e.sameVal(app.args[0], rp.Args[0]) {
				issues = append(issues, shapeIssue{rule: "SHAPE-1", msg: "SetFloat3Attribute is not applied to the unmodified input mesh: indices, materials or other attributes are not carried over"})
				s1ok = false
			}
			if a, ok := app.args[1].(StrV); !ok || !a.isConst || a.s != posName {
				issues = append(issues, shapeIssue{rule: "SHAPE-1", msg: fmt.Sprintf("the attribute replaced is %s, not modeling.PositionAttribute", e.valKey(app.args[1]))})
				s1ok = false
			}
			so, ok := app.args[2].(*SliceObj)
			if !ok {
				issues = append(issues, shapeIssue{rule: "SHAPE-1", undecided: true, msg: "the new attribute data is not a slice the engine tracks"})
				s1ok = false
				continue
			}
			if dstID != "" && dstID != so.id {
				issues = append(issues, shapeIssue{rule: "SHAPE-1", undecided: true, msg: "different paths return different arrays"})
				s1ok = false
			}
			dstID = so.id
			issues = append(issues, originIssue(so, "the new Position array")...)
		}
		if s1ok {
			k.hold("SHAPE-1", name, P.Pos(pos), "result = SetFloat3Attribute(input mesh, PositionAttribute, fresh array): everything else is carried over")
		}
		if dstID == "" {
			k.flushIssues(name, pos, issues, nil)
			return
		}
	} else {
		for _, p := range rets[0].Args[1 : len(fn.Params)-1] {
			params = append(params, p)
		}
		params = append([]Val{rets[0].Args[0]}, params...)
		in, _ := rets[0].Args[len(fn.Params)-1].(*SliceObj)
		if in == nil {
			k.undecided("SHAPE-2", name, pos, "last parameter is not a slice")
			return
		}
		srcWant = in.id
		if cs.inPlace {
			dstID = in.id
		} else {
			for _, rp := range rets {
				so, ok := rp.Ret[0].(*SliceObj)
				if !ok {
					issues = append(issues, shapeIssue{rule: "SHAPE-2", undecided: true, msg: "result is not a slice the engine tracks"})
					continue
				}
				dstID = so.id
				issues = append(issues, originIssue(so, "the result array")...)
			}
			if dstID == "" {
				k.flushIssues(name, pos, issues, nil)
				return
			}
		}
	}
	ms, is2 := k.analyzeMap(res, dstID, sink)
	issues = append(issues, is2...)
	// element loops that run in spawned goroutines (the engine does not follow `go`): decide the partition
	spawns := k.spawnScan(fn)
	var spawnFacts []string
	for _, sv := range spawns {
		switch {
		case sv.violation != "":
			issues = append(issues, shapeIssue{rule: "SHAPE-2", msg: sv.violation})
		case sv.undecided != "":
			issues = append(issues, shapeIssue{rule: "SHAPE-2", undecided: true, msg: sv.undecided})
		default:
			spawnFacts = append(spawnFacts, sv.facts...)
		}
	}
	// an operation whose only element loop runs in the workers: the decided partition + worker body is the map
	if ms == nil {
		for _, sv := range spawns {
			if sv.fn == fn && sv.violation == "" && sv.undecided == "" && sv.worker != nil && sv.worker.prob == "" {
				var kept []shapeIssue
				for _, is := range issues {
					if is.msg != "no loop stores into the result array" {
						kept = append(kept, is)
					}
				}
				issues = kept
				we := sv.worker
				ms = &mapSummary{src: we.src, idx: we.idx, val: we.val, elem: we.elem, lenProved: true, dst: we.src}
				break
			}
		}
	}
	if len(spawns) == 0 {
		for _, p := range res.Paths {
			for _, n := range p.Notes {
				if strings.Contains(n, "go statement") {
					issues = append(issues, shapeIssue{rule: "SHAPE-2", undecided: true, msg: "a goroutine is spawned on the way (" + n + "): what it writes is not followed"})
				}
			}
		}
	}
	if ms != nil {
		// SHAPE-2: same length, the element read is src[idx]
		if ms.src == nil {
			issues = append(issues, shapeIssue{rule: "SHAPE-3", msg: "the stored element does not read the source array at all"})
		} else {
			if ms.src.id != srcWant {
				issues = append(issues, shapeIssue{rule: "SHAPE-1", msg: fmt.Sprintf("the elements are read from %s, not from %s", ms.src.id, srcWant)})
			}
			if !ms.lenProved && !ms.dst.ln.v.Equal(ms.src.ln.v, e.ST) {
				issues = append(issues, shapeIssue{rule: "SHAPE-2", msg: fmt.Sprintf("the result array has length %s, the source %s", rfKey(ms.dst.ln.v, e.ST), rfKey(ms.src.ln.v, e.ST))})
			}
		}
	}
	held := k.flushIssues(name, pos, issues, ms)
	if ms == nil || ms.src == nil || ms.elem == nil {
		if held["SYM-ALG"] {
			k.undecided("SYM-ALG", name, pos, "no element-wise map recognised, the transform law cannot be compared")
		}
		return
	}
	// SHAPE-3: each value parameter reaches the stored element
	var ls []leaf
	leaves(ms.val, "", &ls)
	roots := map[string]bool{}
	for _, l := range ls {
		for _, s := range l.s.deps.ids() {
			roots[e.ST.Info(s).Root] = true
		}
	}
	missing := []string{}
	pnames := fn.Params[:len(fn.Params)]
	for i, p := range pnames {
		if cs.mesh && i == 0 {
			continue
		}
		if !cs.mesh && i == len(pnames)-1 {
			continue
		}
		if !roots[p.Name()] {
			missing = append(missing, p.Name())
		}
	}
	if len(missing) > 0 {
		k.violate("SHAPE-3", name, P.Pos(pos), "the stored element does not depend on parameter "+strings.Join(missing, ", "))
	} else {
		k.hold("SHAPE-3", name, P.Pos(pos), "every value parameter reaches the stored element")
	}
	// SYM-ALG: the element function is the underlying transform
	want, prob := cs.spec(params, ms.elem)
	if prob != "" {
		k.undecided("SYM-ALG", name, pos, prob)
		return
	}
	k.decide(cs.law, name, pos, ms.val, want, true, append([]string{"element read: " + ms.src.id + "[" + rfKey(ms.idx.v, e.ST) + "]"}, spawnFacts...)...)
	// the element function of spawned workers (when the partition was decided)
	for _, sv := range spawns {
		if sv.worker == nil || sv.violation != "" || sv.undecided != "" {
			continue
		}
		if sv.fn != fn {
			continue // decided at the function that spawns (it is in the table itself or reported there)
		}
		we := sv.worker
		if we.prob != "" {
			k.undecided("SYM-ALG", name, pos, "spawned worker: "+we.prob)
			continue
		}
		// parameters as the worker sees them (captured)
		var wparams []Val
		okp := true
		for i, p := range fn.Params {
			if !cs.mesh && i == len(fn.Params)-1 {
				continue
			}
			if cs.mesh && i == 0 {
				continue
			}
			b, has := we.binds[p.Name()]
			if !has {
				okp = false
				break
			}
			if pv, isP := b.(PtrV); isP {
				b = pv.cell.v
			}
			wparams = append(wparams, b)
		}
		if !okp {
			k.undecided("SYM-ALG", name, pos, "spawned worker: the operation's parameters are not captured by the worker")
			continue
		}
		wwant, prob := cs.spec(wparams, we.elem)
		if prob != "" {
			k.undecided("SYM-ALG", name, pos, "spawned worker: "+prob)
			continue
		}
		k.decide(cs.law+" (spawned workers)", name, pos, we.val, wwant, false, "worker element read: "+we.src.id+"["+rfKey(we.idx.v, e.ST)+"]")
	}
}

// originIssue: the destination must be a fresh make; writing into caller-visible storage is a
// violation, construction idioms the engine does not follow (append, sub-slices) are undecided.
func originIssue(so *SliceObj, what string) []shapeIssue {
	switch so.origin {
	case "make", "loop":
		return nil
	case "param", "lookup":
		return []shapeIssue{{rule: "SHAPE-2", msg: fmt.Sprintf("%s is existing storage (%s), not a fresh array: the input is overwritten in place", what, so.id)}}
	}
	return []shapeIssue{{rule: "SHAPE-2", undecided: true, msg: fmt.Sprintf("%s is built by %s, an idiom the engine does not follow (recognised: make([]T, len(src)) filled by dst[i] = f(src[i]))", what, so.origin)}}
}
