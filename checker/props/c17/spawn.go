package c17

// SHAPE-2 for element loops that run in spawned goroutines (rule file; no engine change).
//
// The engine does not follow `go` statements, so an element-wise operation that hands
// index ranges to workers would be judged by its sequential path alone. Here the small
// partition argument is decided on the SSA of the spawning function:
//
//	for w := 0; w < K; w++ { go func(lo, hi int) { for i := lo; i < hi; i++ { dst[i] = … } }(LO(w), HI(w)) }
//
// LO(0) = 0, HI(w) = LO(w+1) for every non-last w, HI(K−1) = len(dst) — as polynomial
// identities with integer division uninterpreted (idiv). HI may be a two-way phi guarded by
// w == K−1 (the last worker takes the remainder). Anything else is UNDECIDED. When the ranges
// partition [0,n) the worker body is interpreted with symbolic captures and its element
// store is compared with the law like a sequential loop.

import (
	"fmt"
	"go/token"
	"go/types"
	"strings"

	"golang.org/x/tools/go/ssa"

	"polycheck/load"
	"polycheck/ssau"
)

type spawnVerdict struct {
	fn        *ssa.Function
	pos       token.Pos
	violation string
	undecided string
	facts     []string
	// when the partition holds: the worker's element summary
	worker *workerElem
}

type workerElem struct {
	val   Val
	elem  Val
	src   *SliceObj
	idx   Scalar
	prob  string
	binds map[string]Val
}

// spawnScan finds the go statements of fn and of the repository functions it calls statically.
func (k *checker) spawnScan(fn *ssa.Function) []*spawnVerdict {
	var out []*spawnVerdict
	seen := map[*ssa.Function]bool{}
	var visit func(f *ssa.Function, depth int)
	visit = func(f *ssa.Function, depth int) {
		if f == nil || f.Blocks == nil || seen[f] || depth > 3 {
			return
		}
		seen[f] = true
		ssau.AllInstrs(f, func(in ssa.Instruction) {
			switch x := in.(type) {
			case *ssa.Go:
				out = append(out, k.spawnPartition(f, x))
			case *ssa.Call:
				if callee := x.Common().StaticCallee(); callee != nil {
					pp := fnPkgPath(callee)
					if pp == load.Module || strings.HasPrefix(pp, load.Module+"/") {
						if k.e.Opaque == nil || !k.e.Opaque(callee) {
							visit(callee, depth+1)
						}
					}
				}
			}
		})
	}
	visit(fn, 0)
	return out
}

// cased is an integer expression of the spawn counter w that may differ for the last worker.
type cased struct {
	gen  Scalar
	last *Scalar
}

type intEnv struct {
	k      *checker
	fn     *ssa.Function
	w      *ssa.Phi // spawn counter (nil inside the worker)
	wVal   Scalar
	K      *Scalar // number of workers (bound of the spawn loop)
	params map[ssa.Value]cased
	why    string
}

func (ev *intEnv) fail(format string, a ...any) cased {
	if ev.why == "" {
		ev.why = fmt.Sprintf(format, a...)
	}
	return cased{}
}

func (ev *intEnv) lenOf(x ssa.Value) cased {
	e := ev.k.e
	switch v := x.(type) {
	case *ssa.Parameter:
		if c, ok := ev.params[v]; ok {
			return c
		}
		id := e.ST.Intern("len("+v.Name()+")", SymLen)
		return cased{gen: e.symScalar(id)}
	case *ssa.MakeSlice:
		return ev.eval(v.Len)
	case *ssa.Alloc:
		// a captured variable: the cell itself is bound; it must be assigned exactly once
		var st *ssa.Store
		n := 0
		for _, r := range ssau.Refs(v) {
			if s, ok := r.(*ssa.Store); ok && s.Addr == ssa.Value(v) {
				st = s
				n++
			}
		}
		if n == 1 {
			return ev.lenOf(st.Val)
		}
		return ev.fail("the captured variable %s is assigned %d times", v.Comment, n)
	case *ssa.UnOp:
		if v.Op == token.MUL {
			if a, ok := v.X.(*ssa.Alloc); ok {
				var st *ssa.Store
				n := 0
				for _, r := range ssau.Refs(a) {
					if s, ok := r.(*ssa.Store); ok && s.Addr == ssa.Value(a) {
						st = s
						n++
					}
				}
				if n == 1 {
					return ev.lenOf(st.Val)
				}
			}
		}
	case *ssa.FreeVar:
		if c, ok := ev.params[v]; ok {
			return c
		}
	}
	return ev.fail("length of %s is not understood", x.Name())
}

func (ev *intEnv) eval(v ssa.Value) cased {
	e := ev.k.e
	if c, ok := ev.params[v]; ok {
		return c
	}
	switch x := v.(type) {
	case *ssa.Const:
		if n, ok := ssau.ConstInt(x); ok {
			return cased{gen: e.num(n)}
		}
	case *ssa.Parameter:
		id := e.ST.Intern(x.Name(), SymInput)
		return cased{gen: e.symScalar(id)}
	case *ssa.Convert:
		return ev.eval(x.X)
	case *ssa.ChangeType:
		return ev.eval(x.X)
	case *ssa.Phi:
		if ev.w != nil && x == ev.w {
			return cased{gen: ev.wVal}
		}
		return ev.guardedPhi(x)
	case *ssa.UnOp:
		if x.Op == token.MUL {
			if a, ok := x.X.(*ssa.Alloc); ok {
				var st *ssa.Store
				n := 0
				for _, r := range ssau.Refs(a) {
					if s, ok := r.(*ssa.Store); ok && s.Addr == ssa.Value(a) {
						st = s
						n++
					}
				}
				if n == 1 {
					return ev.eval(st.Val)
				}
			}
		}
		if x.Op == token.SUB {
			c := ev.eval(x.X)
			return ev.map1(c, func(a Scalar) Scalar { return e.Sub(e.num(0), a) })
		}
	case *ssa.BinOp:
		a, b := ev.eval(x.X), ev.eval(x.Y)
		if ev.why != "" {
			return cased{}
		}
		var f func(p, q Scalar) Scalar
		switch x.Op {
		case token.ADD:
			f = e.Add
		case token.SUB:
			f = e.Sub
		case token.MUL:
			f = e.Mul
		case token.QUO:
			f = func(p, q Scalar) Scalar { return e.app("idiv", []Scalar{p, q}) }
		case token.REM:
			f = func(p, q Scalar) Scalar { return e.app("imod", []Scalar{p, q}) }
		default:
			return ev.fail("operator %s in a range bound", x.Op)
		}
		return ev.map2(a, b, f)
	case *ssa.Call:
		if ssau.Builtin(x) == "len" && len(x.Common().Args) == 1 {
			return ev.lenOf(x.Common().Args[0])
		}
		if obj := ssau.CalleeObj(x); obj != nil && obj.Pkg() != nil && obj.Pkg().Path() == "runtime" {
			id := e.ST.Intern("runtime."+obj.Name()+"()", SymInput)
			return cased{gen: e.symScalar(id)}
		}
	}
	return ev.fail("the value %s (%T) in a range bound is not an integer expression the rule understands", v.Name(), v)
}

func (ev *intEnv) map1(a cased, f func(Scalar) Scalar) cased {
	out := cased{gen: f(a.gen)}
	if a.last != nil {
		l := f(*a.last)
		out.last = &l
	}
	return out
}

func (ev *intEnv) map2(a, b cased, f func(p, q Scalar) Scalar) cased {
	out := cased{gen: f(a.gen, b.gen)}
	if a.last != nil || b.last != nil {
		la, lb := a.gen, b.gen
		if a.last != nil {
			la = *a.last
		}
		if b.last != nil {
			lb = *b.last
		}
		l := f(la, lb)
		out.last = &l
	}
	return out
}

// guardedPhi: phi [A, B] where one edge is taken exactly when w == K−1.
func (ev *intEnv) guardedPhi(phi *ssa.Phi) cased {
	e := ev.k.e
	if ev.w == nil || ev.K == nil || len(phi.Edges) != 2 {
		return ev.fail("the range bound %s is a join of values the rule cannot tell apart", phi.Name())
	}
	b := phi.Block()
	// the condition that decides between the two predecessors
	var cond *ssa.If
	var at *ssa.BasicBlock
	for d := b.Idom(); d != nil; d = d.Idom() {
		if ifi, ok := d.Instrs[len(d.Instrs)-1].(*ssa.If); ok {
			cond, at = ifi, d
			break
		}
	}
	if cond == nil {
		return ev.fail("no condition governs the join %s", phi.Name())
	}
	cmp, ok := cond.Cond.(*ssa.BinOp)
	if !ok || (cmp.Op != token.EQL && cmp.Op != token.NEQ) {
		return ev.fail("the last-worker adjustment is guarded by %s, not by `w == workers-1`", cond.Cond.Name())
	}
	l, r := ev.eval(cmp.X), ev.eval(cmp.Y)
	if ev.why != "" || l.last != nil || r.last != nil {
		return ev.fail("the guard of the last-worker adjustment is not an integer comparison")
	}
	// l − r must be ±(w − (K−1))
	d := e.Sub(l.gen, r.gen)
	want := e.Sub(ev.wVal, e.Sub(*ev.K, e.num(1)))
	if !d.v.Equal(want.v, e.ST) && !d.v.Equal(want.v.Neg(), e.ST) {
		return ev.fail("the guard %s == %s does not single out the last worker (w == workers−1)", rfKey(l.gen.v, e.ST), rfKey(r.gen.v, e.ST))
	}
	// which edge is the "last worker" edge? the one reached through the true (==) / false (!=) successor
	lastSucc := at.Succs[0]
	if cmp.Op == token.NEQ {
		lastSucc = at.Succs[1]
	}
	lastEdge := -1
	for i, p := range b.Preds {
		if p == lastSucc || lastSucc.Dominates(p) {
			if lastSucc != b {
				lastEdge = i
			}
		}
	}
	if lastEdge < 0 {
		// the true successor is the join itself: the edge from `at`
		for i, p := range b.Preds {
			if p == at && lastSucc == b {
				lastEdge = i
			}
		}
	}
	if lastEdge < 0 {
		return ev.fail("the edges of the join %s cannot be attributed to the guard", phi.Name())
	}
	gen := ev.eval(phi.Edges[1-lastEdge])
	lst := ev.eval(phi.Edges[lastEdge])
	if ev.why != "" {
		return cased{}
	}
	lv := lst.gen
	return cased{gen: gen.gen, last: &lv}
}

// subst re-evaluates v with the spawn counter replaced by w.
func (ev *intEnv) at(v ssa.Value, w Scalar) cased {
	saved := ev.wVal
	ev.wVal = w
	c := ev.eval(v)
	ev.wVal = saved
	return c
}

func (k *checker) spawnPartition(fn *ssa.Function, g *ssa.Go) *spawnVerdict {
	e := k.e
	sv := &spawnVerdict{fn: fn, pos: g.Pos()}
	und := func(format string, a ...any) *spawnVerdict {
		sv.undecided = "spawned element loop in " + k.c.P.FuncName(fn) + ": the ranges handed to the workers are not shown to partition [0,n): " + fmt.Sprintf(format, a...)
		return sv
	}
	mc, ok := g.Call.Value.(*ssa.MakeClosure)
	if !ok {
		return und("the spawned function is not a function literal")
	}
	fc := mc.Fn.(*ssa.Function)
	// spawn loop: for w := 0; w < K; w++
	loops := ssau.Loops(fn)
	sl := ssau.InnermostLoop(loops, g.Block())
	if sl == nil {
		return und("the go statement is not inside a loop over the workers")
	}
	hdr := sl.Header
	ifi, ok := hdr.Instrs[len(hdr.Instrs)-1].(*ssa.If)
	if !ok {
		return und("the worker loop has no header condition")
	}
	cmp, ok := ifi.Cond.(*ssa.BinOp)
	if !ok || cmp.Op != token.LSS {
		return und("the worker loop is not `for w := 0; w < workers; w++`")
	}
	w, ok := cmp.X.(*ssa.Phi)
	if !ok || w.Block() != hdr {
		return und("the worker loop counter is not a loop variable")
	}
	for i, ed := range w.Edges {
		if !sl.Blocks[hdr.Preds[i]] {
			if n, isC := ssau.ConstInt(ed); !isC || n != 0 {
				return und("the worker loop does not start at 0")
			}
		} else if inc, isB := ed.(*ssa.BinOp); !isB || inc.Op != token.ADD || inc.X != ssa.Value(w) || !isOne(inc.Y) {
			return und("the worker counter does not advance by 1")
		}
	}
	for b := range sl.Blocks {
		if b == hdr {
			continue
		}
		for _, s := range b.Succs {
			if !sl.Blocks[s] {
				return und("the worker loop can be left early")
			}
		}
	}
	wid := e.ST.Intern("w", SymLoop)
	ev := &intEnv{k: k, fn: fn, w: w, wVal: e.symScalar(wid), params: map[ssa.Value]cased{}}
	Kc := ev.eval(cmp.Y)
	if ev.why != "" || Kc.last != nil {
		return und("the number of workers: %s", ev.why)
	}
	ev.K = &Kc.gen
	// the worker: for i := lo; i < hi; i++ { dst[i] = … }
	wl := ssau.Loops(fc)
	var el *ssau.Loop
	var store *ssa.Store
	for _, l := range wl {
		for b := range l.Blocks {
			for _, in := range b.Instrs {
				if st, ok := in.(*ssa.Store); ok {
					if ia, ok := st.Addr.(*ssa.IndexAddr); ok {
						if _, isSl := ia.X.Type().Underlying().(*types.Slice); isSl {
							if el != nil && el != l {
								return und("the worker has more than one storing loop")
							}
							el, store = l, st
						}
					}
				}
			}
		}
	}
	if el == nil {
		return und("the worker does not store array elements in a loop")
	}
	eh := el.Header
	eif, ok := eh.Instrs[len(eh.Instrs)-1].(*ssa.If)
	if !ok {
		return und("the worker loop has no header condition")
	}
	ecmp, ok := eif.Cond.(*ssa.BinOp)
	if !ok || ecmp.Op != token.LSS {
		return und("the worker loop is not `for i := lo; i < hi; i++`")
	}
	iv, ok := ecmp.X.(*ssa.Phi)
	if !ok || iv.Block() != eh {
		return und("the worker loop counter is not a loop variable")
	}
	if ia := store.Addr.(*ssa.IndexAddr); ia.Index != ssa.Value(iv) {
		return und("the worker does not store at its own loop counter")
	}
	var loV ssa.Value
	for i, ed := range iv.Edges {
		if !el.Blocks[eh.Preds[i]] {
			loV = ed
		} else if inc, isB := ed.(*ssa.BinOp); !isB || inc.Op != token.ADD || inc.X != ssa.Value(iv) || !isOne(inc.Y) {
			return und("the worker counter does not advance by 1")
		}
	}
	for b := range el.Blocks {
		if b == eh {
			continue
		}
		for _, s := range b.Succs {
			if !el.Blocks[s] {
				return und("the worker loop can be left early")
			}
		}
	}
	// bind the worker's parameters / captures to the actuals
	wev := &intEnv{k: k, fn: fc, params: map[ssa.Value]cased{}}
	for i, p := range fc.Params {
		if i < len(g.Call.Args) {
			if b, isB := p.Type().Underlying().(*types.Basic); isB && b.Info()&types.IsInteger != 0 {
				c := ev.eval(g.Call.Args[i])
				if ev.why != "" {
					return und("%s", ev.why)
				}
				wev.params[p] = c
			}
		}
	}
	var dstBind ssa.Value
	for i, fv := range fc.FreeVars {
		if i >= len(mc.Bindings) {
			break
		}
		b := mc.Bindings[i]
		ft := fv.Type()
		if pt, isP := ft.Underlying().(*types.Pointer); isP {
			ft = pt.Elem()
		}
		if _, isSl := ft.Underlying().(*types.Slice); isSl {
			saved := ev.why
			c := ev.lenOf(b)
			if ev.why == "" {
				wev.params[fv] = c
			}
			ev.why = saved
		}
		// the array the worker stores into
		base := store.Addr.(*ssa.IndexAddr).X
		if ld, isLoad := base.(*ssa.UnOp); isLoad {
			base = ld.X
		}
		if base == ssa.Value(fv) {
			dstBind = b
		}
	}
	if dstBind == nil {
		return und("the array the worker writes is not a captured variable")
	}
	n := ev.lenOf(dstBind)
	if ev.why != "" || n.last != nil {
		return und("the length of the result array: %s", ev.why)
	}
	lo := wev.eval(loV)
	hi := wev.eval(ecmp.Y)
	if wev.why != "" {
		return und("%s", wev.why)
	}
	if lo.last != nil {
		return und("the lower bound of the last worker is adjusted")
	}
	// LO(0) = 0
	zero := e.num(0)
	subW := func(c Scalar, wv Scalar) Scalar { return substScalar(e, c, wid, wv) }
	lo0 := subW(lo.gen, zero)
	if !lo0.v.Equal(zero.v, e.ST) {
		sv.violation = fmt.Sprintf("spawned element loop in %s: worker 0 starts at %s, not at 0: the first elements are never written", k.c.P.FuncName(fn), rfKey(lo0.v, e.ST))
		return sv
	}
	// HI(w) = LO(w+1)
	loNext := subW(lo.gen, e.Add(ev.wVal, e.num(1)))
	if !hi.gen.v.Equal(loNext.v, e.ST) {
		sv.violation = fmt.Sprintf("spawned element loop in %s: worker w ends at %s but worker w+1 starts at %s: the ranges do not join", k.c.P.FuncName(fn), rfKey(hi.gen.v, e.ST), rfKey(loNext.v, e.ST))
		return sv
	}
	// HI(K−1) = n
	lastW := e.Sub(*ev.K, e.num(1))
	hiLast := hi.gen
	how := "the common formula"
	if hi.last != nil {
		hiLast = *hi.last
		how = "the last-worker adjustment"
	}
	hiLast = subW(hiLast, lastW)
	if !hiLast.v.Equal(n.gen.v, e.ST) {
		sv.violation = fmt.Sprintf("spawned element loop in %s: the workers' ranges cover [0, %s) (%s) but the result array has %s elements: the remainder is never written and keeps its zero value", k.c.P.FuncName(fn), rfKey(hiLast.v, e.ST), how, rfKey(n.gen.v, e.ST))
		return sv
	}
	sv.facts = append(sv.facts, fmt.Sprintf("spawned workers: LO(w) = %s, HI(w) = %s, LO(0) = 0, HI(w) = LO(w+1), HI(workers−1) = %s = len(result) by %s", rfKey(lo.gen.v, e.ST), rfKey(hi.gen.v, e.ST), rfKey(n.gen.v, e.ST), how))
	sv.worker = k.workerElement(fn, mc, fc, store)
	return sv
}

func isOne(v ssa.Value) bool {
	n, ok := ssau.ConstInt(v)
	return ok && n == 1
}

// substScalar replaces symbol id by the scalar val in a (a polynomial, no denominator expected).
func substScalar(e *Engine, a Scalar, id symID, val Scalar) Scalar {
	if a.v.d != nil {
		return a
	}
	out := e.num(0)
	for _, t := range a.v.n.t {
		term := Scalar{v: rfPoly(PolyConst(t.c))}
		for _, se := range t.m {
			var f Scalar
			if se.s == id {
				f = val
			} else if ai := e.apps[se.s]; ai != nil {
				// substitute inside uninterpreted applications too
				args := make([]Scalar, len(ai.args))
				for i, r := range ai.args {
					args[i] = substScalar(e, Scalar{v: r}, id, val)
				}
				f = e.app(ai.op, args)
			} else {
				f = e.symScalar(se.s)
			}
			for p := int32(0); p < se.e; p++ {
				term = e.Mul(term, f)
			}
		}
		out = e.Add(out, term)
	}
	return out
}

// workerElement interprets the worker body on symbolic captures and summarises its element store.
func (k *checker) workerElement(parent *ssa.Function, mc *ssa.MakeClosure, fc *ssa.Function, store *ssa.Store) *workerElem {
	e := k.e
	we := &workerElem{binds: map[string]Val{}}
	args := make([]Val, len(fc.Params))
	for i, p := range fc.Params {
		args[i] = e.Sym("worker."+p.Name(), p.Type())
	}
	binds := make([]Val, len(fc.FreeVars))
	for i, fv := range fc.FreeVars {
		if i >= len(mc.Bindings) {
			we.prob = "closure bindings"
			return we
		}
		b := mc.Bindings[i]
		name := fv.Name()
		switch x := b.(type) {
		case *ssa.Alloc:
			el := x.Type().Underlying().(*types.Pointer).Elem()
			nm := x.Comment
			if nm == "" {
				nm = name
			}
			binds[i] = PtrV{cell: &Cell{id: nm, v: e.Sym(nm, el)}}
			we.binds[nm] = binds[i]
		case *ssa.Parameter:
			binds[i] = e.Sym(x.Name(), x.Type())
			we.binds[x.Name()] = binds[i]
		default:
			binds[i] = e.Sym(name, fv.Type())
			we.binds[name] = binds[i]
		}
	}
	res := e.runBound(fc, args, binds)
	if prob := res.Problem(); prob != "" {
		we.prob = prob
		return we
	}
	// the iteration path of the worker loop
	var found bool
	for _, p := range res.Paths {
		if p.Kind != EndLoopBack || p.Iter == nil {
			continue
		}
		var stores []Event
		for _, evn := range p.Events {
			if evn.Kind == EvStoreElem && evn.Loop != nil && evn.Loop.ID == p.Iter.Entry.ID {
				stores = append(stores, evn)
			}
		}
		if len(stores) != 1 {
			we.prob = fmt.Sprintf("one worker iteration stores %d elements", len(stores))
			return we
		}
		st := stores[0]
		if found && !e.sameVal(we.val, st.Val) {
			we.prob = "the element a worker stores depends on a branch"
			return we
		}
		found = true
		we.val, we.idx = st.Val, st.Idx
		idxKey := rfKey(st.Idx.v, e.ST)
		var ls []leaf
		leaves(st.Val, "", &ls)
		srcIDs := map[string]bool{}
		var issues []shapeIssue
		for _, l := range ls {
			for _, s := range l.s.v.Support() {
				k.elemSyms(s, idxKey, srcIDs, &issues, map[symID]bool{})
			}
		}
		if len(issues) > 0 {
			we.prob = issues[0].msg
			return we
		}
		if len(srcIDs) != 1 {
			we.prob = fmt.Sprintf("a worker iteration reads %d arrays", len(srcIDs))
			return we
		}
		for id := range srcIDs {
			we.src = findSlice(p, id)
			if we.src == nil {
				for _, b := range binds {
					if so, ok := b.(*SliceObj); ok && so.id == id {
						we.src = so
					}
				}
			}
		}
		if we.src == nil {
			we.prob = "source array of the worker not found"
			return we
		}
		we.elem = e.elemSym(we.src, st.Idx)
	}
	if !found {
		we.prob = "no complete iteration of the worker loop could be followed"
	}
	return we
}

// runBound is Engine.Run for a function literal whose free variables are bound to binds.
func (e *Engine) runBound(fn *ssa.Function, args, binds []Val) *Result {
	res := &Result{Fn: fn}
	var prefix []bool
	for {
		r := &xrun{e: e, decisions: append([]bool(nil), prefix...), condSet: map[string]bool{},
			lookups: map[string]*SliceObj{}, globals: map[*ssa.Global]*Cell{}, slices: map[string]*SliceObj{}}
		cl := newCloner()
		cargs := make([]Val, len(args))
		for i, a := range args {
			cargs[i] = cl.val(a)
		}
		cbinds := make([]Val, len(binds))
		for i, a := range binds {
			cbinds[i] = cl.val(a)
		}
		p := &Path{}
		func() {
			defer func() {
				if x := recover(); x != nil {
					pe, ok := x.(pathEnd)
					if !ok {
						panic(x)
					}
					p.Kind, p.Iter, p.Abort = pe.kind, pe.iter, pe.abort
				}
				p.Conds, p.Events, p.Notes, p.Loops, p.LoopExits, p.slices = r.conds, r.events, r.notes, r.loops, r.exits, r.slices
			}()
			p.Ret = r.call(fn, cargs, cbinds, "worker/", 0)
			p.Kind = EndReturn
		}()
		p.Args = append(cargs, cbinds...)
		res.Paths = append(res.Paths, p)
		d := r.decisions
		for len(d) > 0 && !d[len(d)-1] {
			d = d[:len(d)-1]
		}
		if len(d) == 0 {
			break
		}
		d[len(d)-1] = false
		prefix = d
		if len(res.Paths) >= e.MaxPaths {
			res.Err = fmt.Sprintf("more than %d paths", e.MaxPaths)
			break
		}
	}
	return res
}
