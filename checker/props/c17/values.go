package c17

// Value domain of the SYM engine: scalars are rational functions over symbols,
// structs are tuples, pointers name cells, slices are symbolic objects whose
// elements are symbols keyed by (slice, index).

import (
	"fmt"
	"go/types"
	"sort"
	"strconv"
	"strings"

	"golang.org/x/tools/go/ssa"
)

type Val interface{}

type Scalar struct {
	v    RF
	deps depset
}

// Atom is a canonical boolean atom; neg is the canonical key of its negation.
type Atom struct {
	key, neg string
	// inequality atoms also carry their polynomial: p > 0 (strict) or p >= 0
	p      *Poly
	strict bool
	// eq: the polynomial of an equality / disequality atom (eq == 0 or eq != 0); never used to decide
	// anything inside the engine, only reported to clients (AtomSymbols)
	eq *Poly
}

func (a Atom) Not() Atom {
	n := Atom{key: a.neg, neg: a.key, eq: a.eq}
	if a.p != nil {
		n.p, n.strict = a.p.Neg(), !a.strict
	}
	return n
}

type BoolV struct {
	isConst bool
	c       bool
	atom    Atom
	deps    depset
}

type StrV struct {
	isConst bool
	s       string
}

type TupleV struct {
	typ types.Type
	f   []Val
}

type ArrV struct {
	typ types.Type
	e   []Val
}

type Cell struct {
	id    string
	v     Val
	stamp int
}

type PtrV struct {
	cell *Cell
	path []int
}

type ElemPtr struct {
	sl   *SliceObj
	idx  Scalar
	path []int
}

type SliceObj struct {
	id     string
	origin string // make | param | lookup | loop | array | append | slice | opaque
	// origin == "append" with a known number of appended values:
	appendBase *SliceObj
	appended   []Val
	ln         Scalar
	elem       types.Type
	content    map[string]Val
	stamp      int
}

type MapV struct {
	name   string
	fresh  bool
	keyTyp types.Type
	elTyp  types.Type
}

type ClosureV struct {
	fn    *ssa.Function
	binds []Val
}

// AppV is the non-scalar result of a call that was not interpreted.
type AppV struct {
	fn   *types.Func
	name string
	args []Val
	typ  types.Type
	idx  int // result index for multi-result calls
}

type NilV struct{}

type OpaqueV struct {
	name string
}

type MultiV struct {
	v []Val
}

// ---------------------------------------------------------------- keys

func rfKey(a RF, st *SymTab) string { return a.String(st) }

func (e *Engine) valKey(v Val) string {
	switch x := v.(type) {
	case nil:
		return "<none>"
	case Scalar:
		return rfKey(x.v, e.ST)
	case BoolV:
		if x.isConst {
			return strconv.FormatBool(x.c)
		}
		return x.atom.key
	case StrV:
		if x.isConst {
			return strconv.Quote(x.s)
		}
		return x.s
	case *TupleV:
		parts := make([]string, len(x.f))
		for i, f := range x.f {
			parts[i] = e.valKey(f)
		}
		return "{" + strings.Join(parts, ", ") + "}"
	case *ArrV:
		parts := make([]string, len(x.e))
		for i, f := range x.e {
			parts[i] = e.valKey(f)
		}
		return "[" + strings.Join(parts, ", ") + "]"
	case PtrV:
		return "&" + x.cell.id + pathKey(x.path)
	case ElemPtr:
		return "&" + x.sl.id + "[" + rfKey(x.idx.v, e.ST) + "]" + pathKey(x.path)
	case *SliceObj:
		return x.id
	case *MapV:
		return x.name
	case *ClosureV:
		return "closure:" + x.fn.String()
	case *ssa.Function:
		return "func:" + x.String()
	case *AppV:
		parts := make([]string, len(x.args))
		for i, a := range x.args {
			parts[i] = e.valKey(a)
		}
		s := x.name + "(" + strings.Join(parts, ", ") + ")"
		if x.idx > 0 {
			s += "#" + strconv.Itoa(x.idx)
		}
		return s
	case NilV:
		return "nil"
	case OpaqueV:
		return x.name
	case *MultiV:
		parts := make([]string, len(x.v))
		for i, a := range x.v {
			parts[i] = e.valKey(a)
		}
		return "(" + strings.Join(parts, ", ") + ")"
	}
	return fmt.Sprintf("<%T>", v)
}

func pathKey(p []int) string {
	if len(p) == 0 {
		return ""
	}
	var b strings.Builder
	for _, i := range p {
		b.WriteString("." + strconv.Itoa(i))
	}
	return b.String()
}

// ---------------------------------------------------------------- types

type tkind int

const (
	kNum tkind = iota
	kBool
	kStr
	kStruct
	kPtr
	kSlice
	kMap
	kArray
	kOther
)

func isNumericBasic(b *types.Basic) bool {
	return b.Info()&(types.IsInteger|types.IsFloat) != 0
}

func isFloatType(t types.Type) bool {
	switch u := t.Underlying().(type) {
	case *types.Basic:
		return u.Info()&types.IsFloat != 0
	}
	if _, ok := types.Unalias(t).(*types.TypeParam); ok {
		return true // number-constrained type parameters are read as reals (assumption recorded)
	}
	return false
}

func isIntType(t types.Type) bool {
	if _, ok := types.Unalias(t).(*types.TypeParam); ok {
		return false
	}
	if b, ok := t.Underlying().(*types.Basic); ok {
		return b.Info()&types.IsInteger != 0
	}
	return false
}

func numericTypeParam(tp *types.TypeParam) bool {
	iface, ok := tp.Constraint().Underlying().(*types.Interface)
	if !ok {
		return false
	}
	all := true
	any := false
	for i := 0; i < iface.NumEmbeddeds(); i++ {
		et := iface.EmbeddedType(i)
		var terms []*types.Term
		switch u := et.(type) {
		case *types.Union:
			for j := 0; j < u.Len(); j++ {
				terms = append(terms, u.Term(j))
			}
		default:
			if ui, ok := et.Underlying().(*types.Interface); ok {
				for k := 0; k < ui.NumEmbeddeds(); k++ {
					if uu, ok := ui.EmbeddedType(k).(*types.Union); ok {
						for j := 0; j < uu.Len(); j++ {
							terms = append(terms, uu.Term(j))
						}
					}
				}
			} else {
				terms = append(terms, types.NewTerm(false, et))
			}
		}
		for _, tm := range terms {
			any = true
			b, ok := tm.Type().Underlying().(*types.Basic)
			if !ok || !isNumericBasic(b) {
				all = false
			}
		}
	}
	return any && all
}

func kindOf(t types.Type) tkind {
	t = types.Unalias(t)
	if tp, ok := t.(*types.TypeParam); ok {
		if numericTypeParam(tp) {
			return kNum
		}
		return kOther
	}
	switch u := t.Underlying().(type) {
	case *types.Basic:
		switch {
		case isNumericBasic(u):
			return kNum
		case u.Info()&types.IsBoolean != 0:
			return kBool
		case u.Info()&types.IsString != 0:
			return kStr
		}
	case *types.Struct:
		return kStruct
	case *types.Pointer:
		return kPtr
	case *types.Slice:
		return kSlice
	case *types.Map:
		return kMap
	case *types.Array:
		return kArray
	}
	return kOther
}

const vectorModule = "github.com/EliCDavis/vector"

// isVectorStruct reports whether t is one of the dependency's vectorN.Vector types.
func isVectorStruct(t types.Type) bool {
	n, ok := types.Unalias(t).(*types.Named)
	if !ok {
		return false
	}
	o := n.Origin().Obj()
	return o.Name() == "Vector" && o.Pkg() != nil && strings.HasPrefix(o.Pkg().Path(), vectorModule+"/vector")
}

// ---------------------------------------------------------------- constructors

func (e *Engine) num(n int64) Scalar { return Scalar{v: rfInt(n)} }
func (e *Engine) symScalar(id symID) Scalar {
	return Scalar{v: rfPoly(PolySym(id)), deps: depset(nil).with(id)}
}

// Sym builds a fully symbolic value of type t whose leaves are named by access path.
func (e *Engine) Sym(name string, t types.Type) Val {
	return e.symVal(name, t, SymInput, name, -1, nil)
}

func (e *Engine) symVal(name string, t types.Type, kind SymKind, root string, axis int, tmpl *SymInfo) Val {
	mk := func() symID {
		id := e.ST.Intern(name, kind)
		inf := e.ST.Info(id)
		inf.Root = root
		inf.Axis = axis
		if tmpl != nil {
			inf.Slice, inf.Idx = tmpl.Slice, tmpl.Idx
		}
		return id
	}
	switch kindOf(t) {
	case kNum:
		return e.symScalar(mk())
	case kBool:
		return BoolV{atom: Atom{key: "b:" + name, neg: "!b:" + name}}
	case kStr:
		return StrV{s: name}
	case kStruct:
		st := t.Underlying().(*types.Struct)
		vec := isVectorStruct(t)
		tv := &TupleV{typ: t, f: make([]Val, st.NumFields())}
		for i := 0; i < st.NumFields(); i++ {
			ax := -1
			if vec {
				ax = i
			}
			tv.f[i] = e.symVal(name+"."+st.Field(i).Name(), st.Field(i).Type(), kind, root, ax, tmpl)
		}
		return tv
	case kPtr:
		el := t.Underlying().(*types.Pointer).Elem()
		c := &Cell{id: name, v: e.symVal(name, el, kind, root, -1, tmpl)}
		return PtrV{cell: c}
	case kSlice:
		el := t.Underlying().(*types.Slice).Elem()
		id := e.ST.Intern("len("+name+")", SymLen)
		e.ST.Info(id).Root = root
		origin := "param"
		if kind == SymLoop {
			origin = "loop"
		}
		return &SliceObj{id: name, origin: origin, ln: e.symScalar(id), elem: el, content: map[string]Val{}}
	case kMap:
		m := t.Underlying().(*types.Map)
		return &MapV{name: name, keyTyp: m.Key(), elTyp: m.Elem()}
	case kArray:
		a := t.Underlying().(*types.Array)
		if a.Len() <= 16 {
			av := &ArrV{typ: t, e: make([]Val, a.Len())}
			for i := range av.e {
				av.e[i] = e.symVal(fmt.Sprintf("%s[%d]", name, i), a.Elem(), kind, root, -1, tmpl)
			}
			return av
		}
	}
	return OpaqueV{name: name}
}

func (e *Engine) zeroVal(t types.Type) Val {
	switch kindOf(t) {
	case kNum:
		return e.num(0)
	case kBool:
		return BoolV{isConst: true}
	case kStr:
		return StrV{isConst: true}
	case kStruct:
		st := t.Underlying().(*types.Struct)
		tv := &TupleV{typ: t, f: make([]Val, st.NumFields())}
		for i := range tv.f {
			tv.f[i] = e.zeroVal(st.Field(i).Type())
		}
		return tv
	case kArray:
		a := t.Underlying().(*types.Array)
		if a.Len() <= 64 {
			av := &ArrV{typ: t, e: make([]Val, a.Len())}
			for i := range av.e {
				av.e[i] = e.zeroVal(a.Elem())
			}
			return av
		}
		return OpaqueV{name: "zero-array"}
	}
	return NilV{}
}

// ---------------------------------------------------------------- cloning (arguments are re-created per path)

type cloner struct {
	cells  map[*Cell]*Cell
	slices map[*SliceObj]*SliceObj
}

func newCloner() *cloner {
	return &cloner{cells: map[*Cell]*Cell{}, slices: map[*SliceObj]*SliceObj{}}
}

func (c *cloner) val(v Val) Val {
	switch x := v.(type) {
	case *TupleV:
		n := &TupleV{typ: x.typ, f: make([]Val, len(x.f))}
		for i, f := range x.f {
			n.f[i] = c.val(f)
		}
		return n
	case *ArrV:
		n := &ArrV{typ: x.typ, e: make([]Val, len(x.e))}
		for i, f := range x.e {
			n.e[i] = c.val(f)
		}
		return n
	case PtrV:
		return PtrV{cell: c.cell(x.cell), path: x.path}
	case ElemPtr:
		return ElemPtr{sl: c.slice(x.sl), idx: x.idx, path: x.path}
	case *SliceObj:
		return c.slice(x)
	case *ClosureV:
		n := &ClosureV{fn: x.fn, binds: make([]Val, len(x.binds))}
		for i, b := range x.binds {
			n.binds[i] = c.val(b)
		}
		return n
	case *AppV:
		n := &AppV{fn: x.fn, name: x.name, typ: x.typ, idx: x.idx, args: make([]Val, len(x.args))}
		for i, a := range x.args {
			n.args[i] = c.val(a)
		}
		return n
	case *MultiV:
		n := &MultiV{v: make([]Val, len(x.v))}
		for i, a := range x.v {
			n.v[i] = c.val(a)
		}
		return n
	}
	return v
}

func (c *cloner) cell(x *Cell) *Cell {
	if n, ok := c.cells[x]; ok {
		return n
	}
	n := &Cell{id: x.id, stamp: x.stamp}
	c.cells[x] = n
	n.v = c.val(x.v)
	return n
}

func (c *cloner) slice(x *SliceObj) *SliceObj {
	if n, ok := c.slices[x]; ok {
		return n
	}
	n := &SliceObj{id: x.id, origin: x.origin, ln: x.ln, elem: x.elem, content: map[string]Val{}, stamp: x.stamp}
	c.slices[x] = n
	if x.appendBase != nil {
		n.appendBase = c.slice(x.appendBase)
		for _, a := range x.appended {
			n.appended = append(n.appended, c.val(a))
		}
	}
	keys := make([]string, 0, len(x.content))
	for k := range x.content {
		keys = append(keys, k)
	}
	sort.Strings(keys)
	for _, k := range keys {
		n.content[k] = c.val(x.content[k])
	}
	return n
}

// ---------------------------------------------------------------- structural access

func getPath(v Val, path []int) (Val, bool) {
	for _, i := range path {
		switch x := v.(type) {
		case *TupleV:
			if i >= len(x.f) {
				return nil, false
			}
			v = x.f[i]
		case *ArrV:
			if i >= len(x.e) {
				return nil, false
			}
			v = x.e[i]
		default:
			return nil, false
		}
	}
	return v, true
}

func setPath(v Val, path []int, nv Val) (Val, bool) {
	if len(path) == 0 {
		return nv, true
	}
	i := path[0]
	switch x := v.(type) {
	case *TupleV:
		if i >= len(x.f) {
			return nil, false
		}
		n := &TupleV{typ: x.typ, f: append([]Val(nil), x.f...)}
		sub, ok := setPath(x.f[i], path[1:], nv)
		if !ok {
			return nil, false
		}
		n.f[i] = sub
		return n, true
	case *ArrV:
		if i >= len(x.e) {
			return nil, false
		}
		n := &ArrV{typ: x.typ, e: append([]Val(nil), x.e...)}
		sub, ok := setPath(x.e[i], path[1:], nv)
		if !ok {
			return nil, false
		}
		n.e[i] = sub
		return n, true
	}
	return nil, false
}

// leaves flattens a value into its scalar leaves with access-path labels.
func leaves(v Val, label string, out *[]leaf) {
	switch x := v.(type) {
	case Scalar:
		*out = append(*out, leaf{label, x})
	case *TupleV:
		st, _ := x.typ.Underlying().(*types.Struct)
		for i, f := range x.f {
			n := strconv.Itoa(i)
			if st != nil && i < st.NumFields() {
				n = st.Field(i).Name()
			}
			l := n
			if label != "" {
				l = label + "." + n
			}
			leaves(f, l, out)
		}
	case *ArrV:
		for i, f := range x.e {
			leaves(f, fmt.Sprintf("%s[%d]", label, i), out)
		}
	}
}

type leaf struct {
	label string
	s     Scalar
}

// sameVal: structural identity of two symbolic values (scalars compared as rational functions).
func (e *Engine) sameVal(a, b Val) bool {
	switch x := a.(type) {
	case Scalar:
		y, ok := b.(Scalar)
		return ok && x.v.Equal(y.v, e.ST)
	case *TupleV:
		y, ok := b.(*TupleV)
		if !ok || len(x.f) != len(y.f) {
			return false
		}
		for i := range x.f {
			if !e.sameVal(x.f[i], y.f[i]) {
				return false
			}
		}
		return true
	case *ArrV:
		y, ok := b.(*ArrV)
		if !ok || len(x.e) != len(y.e) {
			return false
		}
		for i := range x.e {
			if !e.sameVal(x.e[i], y.e[i]) {
				return false
			}
		}
		return true
	case *SliceObj:
		y, ok := b.(*SliceObj)
		return ok && x.id == y.id
	case *MapV:
		y, ok := b.(*MapV)
		return ok && x.name == y.name
	case PtrV:
		y, ok := b.(PtrV)
		return ok && x.cell.id == y.cell.id && pathKey(x.path) == pathKey(y.path)
	}
	return e.valKey(a) == e.valKey(b)
}
