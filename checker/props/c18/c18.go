// Package c18: the one clause of "solid primitives are closed, outward-facing and of the right volume"
// that is decidable from source literals: the welded cube (constant index table over 8 corner positions
// that are polynomials in width / height / depth). Nothing is executed.
package c18

import (
	"fmt"
	"go/ast"
	"go/constant"
	"go/token"
	"go/types"
	"os"
	"sort"
	"strings"

	"golang.org/x/tools/go/ssa"

	"polycheck/load"
	"polycheck/ob"
	"polycheck/props"
	"polycheck/props/c17"
	"polycheck/ssau"
)

func init() {
	props.Register(&props.Prop{
		ID: "C18",
		Explanation: "Cube clause only of 'solid primitives are closed, outward-facing and of the right volume', decided on source. primitives.Cube.Welded is interpreted symbolically (C17's engine) on a symbolic " +
			"Cube: the index array of the mesh it returns is a package-level table whose entries are read as constants from the type-checked syntax (and which no function of the package writes), the Position array is " +
			"a literal of corner positions that are polynomials in Width, Height, Depth. CUBE-CLOSED: every directed edge of the table occurs exactly once and its reverse exactly once, no degenerate triangle, every " +
			"index < number of corners (closed, consistently oriented). CUBE-VOLUME: Σ det(p0,p1,p2) over the table equals 6·Width·Height·Depth as a polynomial identity (outward-facing under the right-hand rule, " +
			"right volume), the corners are pairwise different polynomials. CUBE-NORMAL: the supplied Normal array is position/|position| per corner (identity with sqrt(p)² = p) and for every triangle and each of its " +
			"corners position · ((p1−p0)×(p2−p0)) is a polynomial in Width, Height, Depth with positive coefficients only, so each supplied normal points to the outer side of every incident face. " +
			"Parametrised solids (UVSphere, UVSphereUnwelded, Hemisphere.UV, Cylinder.ToMesh, Circle.ToMesh), with sin / cos as uninterpreted atoms and the single relation sin² + cos² = 1: NORMAL-RADIAL — every " +
			"supplied normal is a positive multiple of the position of its own vertex (normal × position = 0, normal · position > 0) and every vertex written lies on the sphere of the given radius about the origin; " +
			"SPHERE-RADIUS — every vertex the sphere constructors write (UVSphere, UVSphereUnwelded, Hemisphere.UV; pole constants included, re-emitted copies followed back to the list they are read from) satisfies |p|² = radius² " +
			"modulo sin² + cos² = 1, the hemisphere's base centre (0,0,0) being the one admitted exception; NORMAL-CYL — side arrays completely filled, the horizontal part of each normal is a positive multiple of the horizontal part of the position stored at the same index, the vertical component has the sign of " +
			"the vertex's height, the un-rotated cap is moved along its own normal; CAP-NORMAL — the disk has one constant unit normal perpendicular to every stored position; SEAM — every loop that emits triangles " +
			"along a ring uses base + i and base + (i+1) mod n with n = number of iterations = vertices per ring (%, helper, if-wrap or an explicit closing triangle), counter from 0, step 1, no early exit, bases whole " +
			"rings after the first ring vertex: each ring vertex starts exactly one ring edge and ends exactly one; QUAD-DIMS — each of the six quads of Cube.UnweldedQuads is pushed out along one axis by half the box's extent there and its " +
			"two extents are the box's along the rotation axis (read from the zero pattern of the quaternion, the rotation is not evaluated) and along the remaining axis; LATITUDE — the arguments of the sin / cos atoms are uniform " +
			"partitions tied to the loop bounds (longitude step·ring size = 2π, latitude step·(rings+1) = π from the pole or π/2 from the equator); CAP-FLIP-AXIS — the cylinder's flipped cap is half-turned about the coordinate that " +
			"carries cos(angle) in both rims. NOT decided: anything that needs a numeric value of sin or cos (cap orientation, the rotated bottom cap, " +
			"the cylinder's duplicated seam column, the cube built from rotated quads), pairing across rows, fan / strip winding, volumes of the parametrised solids.",
		Assumptions: []string{
			"real arithmetic; Width, Height, Depth > 0",
			"radius, height > 0; row / column / side counts as the constructors accept them; sin and cos are uninterpreted, only sin²(x) + cos²(x) = 1 for one and the same x is used",
			"the clauses are necessary conditions: closedness, orientation and volume of sphere, hemisphere and cylinder as a whole need an induction over rows and numeric trigonometry and are not decided",
		},
		Controls: controls,
		Run:      run,
	})
}

const primRel = "modeling/primitives"

type rec struct {
	c          *props.Ctx
	ctl        bool
	holds, bad int
	msgs       []string
}

func (r *rec) hold(rule, construct, pos string, facts ...string) {
	r.holds++
	if !r.ctl {
		r.c.R.Hold(rule, construct, pos, facts...)
	}
}
func (r *rec) violate(rule, construct, pos, msg string) {
	r.bad++
	r.msgs = append(r.msgs, rule+": "+msg)
	if !r.ctl {
		r.c.R.Violate(rule, construct, pos, msg)
	}
}
func (r *rec) undecide(rule, construct, pos, msg string) {
	r.bad++
	r.msgs = append(r.msgs, rule+" undecided: "+msg)
	if !r.ctl {
		r.c.R.Undecide(rule, construct, pos, msg)
	}
}

func short(s string, n int) string {
	if len(s) > n {
		return s[:n] + "…"
	}
	return s
}

func run(c *props.Ctx) {
	P, R := c.P, c.R
	sp := P.SSAPkg(primRel)
	if sp == nil {
		R.Failf("anchor package %s not found", primRel)
		return
	}
	fn := P.Func(primRel, "Cube.Welded")
	if fn == nil || fn.Blocks == nil {
		R.Failf("anchor %s.Cube.Welded not found", primRel)
		return
	}
	s, prob := c17.NewSession(c)
	if prob != "" {
		R.Failf("engine: %s", prob)
		return
	}
	s.EnableExt()
	k := &checker{c: c, s: s, e: s.Engine(), sp: sp, anchorFns: map[*ssa.Function]bool{}}
	k.e.MaxPaths = 512
	for _, a := range solidAnchors {
		if f := P.Func(primRel, a.name); f != nil {
			k.anchorFns[f] = true
		}
	}
	if f := P.Func(primRel, "Cube.Welded"); f != nil {
		k.anchorFns[f] = true
	}
	if d := os.Getenv("C18_DUMP"); d != "" {
		k.probe(d)
	}
	k.analyse(&rec{c: c}, fn)
	// the parametrised solids
	rr := &rec{c: c}
	for _, a := range solidAnchors {
		f := P.Func(primRel, a.name)
		if f == nil || f.Blocks == nil {
			R.Failf("anchor %s.%s not found", primRel, a.name)
			continue
		}
		for _, rule := range a.rules {
			k.solidRule(rr, rule, f)
		}
	}
	for _, f := range P.FuncsOf(sp) {
		if P.IsControl(f.Pos()) && f.Parent() == nil && strings.HasPrefix(f.Name(), "verifControl") {
			r := &rec{c: c, ctl: true}
			solidCtl := ""
			for _, pre := range []struct{ pre, rule string }{{"verifControlRadial", "NORMAL-RADIAL"}, {"verifControlCyl", "NORMAL-CYL"}, {"verifControlCap", "CAP-NORMAL"}, {"verifControlSeam", "SEAM"}, {"verifControlSphereRadius", "SPHERE-RADIUS"}, {"verifControlQuads", "QUAD-DIMS"}, {"verifControlLatitude", "LATITUDE"}, {"verifControlFlip", "CAP-FLIP-AXIS"}} {
				if strings.HasPrefix(f.Name(), pre.pre) {
					solidCtl = pre.rule
				}
			}
			if solidCtl != "" {
				k.solidRule(r, solidCtl, f)
				got := ob.Holds
				if r.bad > 0 || r.holds == 0 {
					got = ob.Violation
				}
				want, msg := ob.Holds, "accepted form must stay silent"
				if strings.Contains(f.Name(), "Bad") {
					want, msg = ob.Violation, "seeded defect must be reported"
				}
				if len(r.msgs) > 0 {
					msg += ": " + short(r.msgs[0], 240)
				}
				R.Control(solidCtl, "control:"+f.Name(), primRel+"/zz_verif_control_c18.go", got, want, msg)
				continue
			}
			k.analyse(r, f)
			got := ob.Holds
			if r.bad > 0 || r.holds == 0 {
				got = ob.Violation
			}
			want, msg := ob.Holds, "accepted form must stay silent"
			if strings.Contains(f.Name(), "Bad") {
				want, msg = ob.Violation, "seeded defect must be reported"
			}
			if len(r.msgs) > 0 {
				msg += ": " + short(r.msgs[0], 240)
			}
			rule := "CUBE-CLOSED"
			if strings.Contains(f.Name(), "Volume") {
				rule = "CUBE-VOLUME"
			} else if strings.Contains(f.Name(), "Normal") {
				rule = "CUBE-NORMAL"
			}
			R.Control(rule, "control:"+f.Name(), primRel+"/zz_verif_control_c18.go", got, want, msg)
		}
	}
	R.Floor("CUBE-CLOSED", 1)
	R.Floor("CUBE-VOLUME", 1)
	R.Floor("CUBE-NORMAL", 1)
	R.Floor("NORMAL-RADIAL", 1)
	R.Floor("NORMAL-CYL", 1)
	R.Floor("CAP-NORMAL", 1)
	R.Floor("SEAM", 3)
	R.Floor("QUAD-DIMS", 1)
	R.Floor("SPHERE-RADIUS", 2)
	R.Floor("LATITUDE", 4)
	R.Floor("CAP-FLIP-AXIS", 1)
}

// solidAnchors: the constructors of the parametrised solids and the clauses decided on each.
var solidAnchors = []struct {
	name  string
	rules []string
}{
	{"Cube.UnweldedQuads", []string{"QUAD-DIMS"}},
	{"UVSphere", []string{"NORMAL-RADIAL", "SPHERE-RADIUS", "SEAM", "LATITUDE"}},
	{"UVSphereUnwelded", []string{"NORMAL-RADIAL", "SPHERE-RADIUS", "SEAM", "LATITUDE"}},
	{"Hemisphere.UV", []string{"NORMAL-RADIAL", "SPHERE-RADIUS-BASE", "SEAM", "LATITUDE"}},
	{"Cylinder.ToMesh", []string{"NORMAL-CYL", "LATITUDE-STRIP", "CAP-FLIP-AXIS"}},
	{"Circle.ToMesh", []string{"CAP-NORMAL", "SEAM", "LATITUDE"}},
}

func (k *checker) solidRule(r *rec, rule string, f *ssa.Function) {
	switch rule {
	case "NORMAL-RADIAL":
		k.normalRadial(r, f)
	case "SPHERE-RADIUS":
		k.sphereRadius(r, f, false)
	case "SPHERE-RADIUS-BASE":
		k.sphereRadius(r, f, true)
	case "NORMAL-CYL":
		k.normalCylinder(r, f)
	case "CAP-NORMAL":
		k.capNormal(r, f)
	case "SEAM":
		k.seam(r, f)
	case "QUAD-DIMS":
		k.quadDims(r, f)
	case "LATITUDE":
		k.latitude(r, f, ringClosed)
	case "LATITUDE-STRIP":
		k.latitude(r, f, stripOpen)
	case "CAP-FLIP-AXIS":
		k.capFlipAxis(r, f)
	}
}

type checker struct {
	c  *props.Ctx
	s  *c17.Session
	e  *c17.Engine
	sp *ssa.Package
	// anchorFns: the generators that are decided on their own (never inlined into another one)
	anchorFns map[*ssa.Function]bool
}

// own: an event of the constructor itself or of one of the package's helpers inlined into it.
func (k *checker) own(fn, in *ssa.Function) bool {
	if in == fn {
		return true
	}
	return in != nil && (in.Pkg == k.sp || (in.Parent() != nil && in.Parent().Pkg == k.sp)) && !k.anchorFns[in]
}

func isMesh(t types.Type) bool {
	n, ok := types.Unalias(t).(*types.Named)
	return ok && n.Obj().Name() == "Mesh" && n.Obj().Pkg() != nil && n.Obj().Pkg().Path() == load.Module+"/modeling"
}

func constString(pk *types.Package, name string) string {
	if pk == nil {
		return ""
	}
	if c, ok := pk.Scope().Lookup(name).(*types.Const); ok && c.Val().Kind() == constant.String {
		return constant.StringVal(c.Val())
	}
	return ""
}

// tableOf reads the package-level []int table named by the engine's global id from the syntax.
func (k *checker) tableOf(id string) (tbl []int, v *types.Var, pos token.Pos, why string) {
	P := k.c.P
	name := strings.TrimPrefix(id, "global:")
	if i := strings.IndexByte(name, '.'); i >= 0 {
		name = name[i+1:]
	}
	if !strings.HasPrefix(id, "global:") {
		return nil, nil, token.NoPos, "the index array of the mesh is not a package-level table (" + id + ")"
	}
	obj, _ := k.sp.Pkg.Scope().Lookup(name).(*types.Var)
	if obj == nil {
		return nil, nil, token.NoPos, "package-level variable " + name + " not found"
	}
	pk := P.Pkg(primRel)
	for _, f := range pk.Syntax {
		for _, d := range f.Decls {
			gd, ok := d.(*ast.GenDecl)
			if !ok || gd.Tok != token.VAR {
				continue
			}
			for _, sp := range gd.Specs {
				vs := sp.(*ast.ValueSpec)
				for i, n := range vs.Names {
					if pk.TypesInfo.Defs[n] != obj || i >= len(vs.Values) {
						continue
					}
					cl, ok := ast.Unparen(vs.Values[i]).(*ast.CompositeLit)
					if !ok {
						return nil, obj, n.Pos(), "the table is not initialised by a literal"
					}
					for _, el := range cl.Elts {
						if _, isKV := el.(*ast.KeyValueExpr); isKV {
							return nil, obj, n.Pos(), "the table literal uses keyed entries"
						}
						tv, ok := pk.TypesInfo.Types[el]
						if !ok || tv.Value == nil || tv.Value.Kind() != constant.Int {
							return nil, obj, n.Pos(), "an entry of the table is not an integer constant"
						}
						x, _ := constant.Int64Val(tv.Value)
						tbl = append(tbl, int(x))
					}
					return tbl, obj, n.Pos(), ""
				}
			}
		}
	}
	return nil, obj, token.NoPos, "declaration of " + name + " not found"
}

// writtenBy: a function of the package that stores into the table (or appends to it), if any.
func (k *checker) writtenBy(v *types.Var) string {
	g, _ := k.sp.Members[v.Name()].(*ssa.Global)
	if g == nil {
		return ""
	}
	for _, fn := range k.c.P.FuncsOf(k.sp) {
		if k.c.P.IsControl(fn.Pos()) || fn.Synthetic != "" {
			continue // the package initialiser is what gives the table its literal value
		}
		for _, b := range fn.Blocks {
			for _, in := range b.Instrs {
				switch x := in.(type) {
				case *ssa.Store:
					if x.Addr == g {
						return k.c.P.FuncName(fn) + " assigns the table"
					}
					if ia, ok := x.Addr.(*ssa.IndexAddr); ok {
						if ld, ok := ia.X.(*ssa.UnOp); ok && ld.X == g {
							return k.c.P.FuncName(fn) + " stores into the table"
						}
					}
				}
			}
		}
	}
	return ""
}

func (k *checker) analyse(r *rec, fn *ssa.Function) {
	P := k.c.P
	cons, pos := P.FuncName(fn), P.Pos(fn.Pos())
	if len(fn.Params) != 1 {
		r.undecide("CUBE-VOLUME", cons, pos, "not a method of a box value")
		return
	}
	arg := k.e.Sym("c", fn.Params[0].Type())
	// Width / Height / Depth of the receiver
	var dims [3]c17.Scalar
	have := 0
	if st, ok := fn.Params[0].Type().Underlying().(*types.Struct); ok {
		ch := c17.Children(arg)
		for i := 0; i < st.NumFields() && i < len(ch); i++ {
			for d, name := range []string{"Width", "Height", "Depth"} {
				if st.Field(i).Name() == name {
					if sc, ok := ch[i].(c17.Scalar); ok {
						dims[d] = sc
						have++
					}
				}
			}
		}
	}
	if have != 3 {
		r.undecide("CUBE-VOLUME", cons, pos, "the receiver has no Width, Height, Depth")
		return
	}
	old := k.e.Opaque
	k.e.Opaque = k.solidOpaque(fn, old)
	res := k.e.Run(fn, []c17.Val{arg})
	k.e.Opaque = old
	if prob := res.Problem(); prob != "" {
		r.undecide("CUBE-VOLUME", cons, pos, "the engine cannot follow the function: "+prob)
		return
	}
	posAttr := constString(P.Pkg("modeling").Types, "PositionAttribute")
	nrmAttr := constString(P.Pkg("modeling").Types, "NormalAttribute")
	rets := res.Returns()
	if len(rets) == 0 {
		r.undecide("CUBE-VOLUME", cons, pos, "no returning path")
		return
	}
	var first *outcome
	for _, rp := range rets {
		o := k.onePath(r, cons, pos, rp, res, dims, posAttr, nrmAttr)
		if o == nil {
			return
		}
		if first == nil {
			first = o
		} else if *o != *first {
			r.undecide("CUBE-VOLUME", cons, pos, "different paths build different cubes")
			return
		}
	}
	r.hold("CUBE-CLOSED", first.closed, first.closedPos, "every directed edge of the index table occurs exactly once and its reverse exactly once; no degenerate triangle; all indices address a corner")
	r.hold("CUBE-VOLUME", cons, pos, first.volume)
	if first.normal != "" {
		r.hold("CUBE-NORMAL", cons, pos, first.normal)
	}
}

type outcome struct{ closed, closedPos, volume, normal string }

type vec [3]c17.Scalar

func (k *checker) sub(a, b vec) vec {
	return vec{k.e.Sub(a[0], b[0]), k.e.Sub(a[1], b[1]), k.e.Sub(a[2], b[2])}
}
func (k *checker) cross(a, b vec) vec {
	m := k.e.Mul
	return vec{k.e.Sub(m(a[1], b[2]), m(a[2], b[1])), k.e.Sub(m(a[2], b[0]), m(a[0], b[2])), k.e.Sub(m(a[0], b[1]), m(a[1], b[0]))}
}
func (k *checker) dot(a, b vec) c17.Scalar {
	return k.e.Add(k.e.Add(k.e.Mul(a[0], b[0]), k.e.Mul(a[1], b[1])), k.e.Mul(a[2], b[2]))
}

func (k *checker) onePath(r *rec, cons, pos string, rp *c17.Path, res *c17.Result, dims [3]c17.Scalar, posAttr, nrmAttr string) *outcome {
	s := k.s
	if len(rp.Ret) != 1 || c17.TypeOf(rp.Ret[0]) == nil || !isMesh(c17.TypeOf(rp.Ret[0])) {
		r.undecide("CUBE-VOLUME", cons, pos, "the returned mesh could not be followed ("+short(s.Describe(rp.Ret[0]), 100)+")")
		return nil
	}
	st := c17.TypeOf(rp.Ret[0]).Underlying().(*types.Struct)
	ch := c17.Children(rp.Ret[0])
	var idx c17.Val
	v3map := ""
	for i := 0; i < st.NumFields() && i < len(ch); i++ {
		switch t := st.Field(i).Type().Underlying().(type) {
		case *types.Slice:
			if b, ok := t.Elem().Underlying().(*types.Basic); ok && b.Kind() == types.Int {
				idx = ch[i]
			}
		case *types.Map:
			if sl, ok := t.Elem().Underlying().(*types.Slice); ok {
				if n, ok := types.Unalias(sl.Elem()).(*types.Named); ok && n.Origin().Obj().Pkg() != nil && strings.HasSuffix(n.Origin().Obj().Pkg().Path(), "/vector3") {
					v3map, _, _ = c17.MapID(ch[i])
				}
			}
		}
	}
	if idx == nil || v3map == "" {
		r.undecide("CUBE-VOLUME", cons, pos, "index array / 3-vector attributes of the returned mesh not found")
		return nil
	}
	var positions, normals c17.Val
	for _, ev := range rp.Events {
		if ev.Kind != c17.EvMapUpdate || len(ev.Args) != 3 {
			continue
		}
		if id, _, ok := c17.MapID(ev.Args[0]); !ok || id != v3map {
			continue
		}
		switch key, _ := c17.StrConst(ev.Args[1]); key {
		case posAttr:
			positions = ev.Args[2]
		case nrmAttr:
			normals = ev.Args[2]
		}
	}
	pi, ok := c17.SliceInfoOf(positions)
	if !ok || pi.Origin != "array" {
		r.undecide("CUBE-VOLUME", cons, pos, "the Position attribute is not a literal list of corners")
		return nil
	}
	var P []vec
	for i := int64(0); ; i++ {
		el, ok := s.ContentAt(positions, s.Const(i))
		if !ok {
			break
		}
		l := c17.Leaves(el)
		if len(l) != 3 {
			r.undecide("CUBE-VOLUME", cons, pos, "a corner is not a 3-vector")
			return nil
		}
		P = append(P, vec{l[0], l[1], l[2]})
	}
	if !s.Equal(pi.Len, s.Const(int64(len(P)))) || len(P) == 0 {
		r.undecide("CUBE-VOLUME", cons, pos, "not every corner of the Position literal is known")
		return nil
	}
	// the index table
	tbl, tv, tpos, why := k.tableOf(c17.SliceID(idx))
	if why != "" {
		r.undecide("CUBE-CLOSED", cons, pos, why)
		return nil
	}
	tcons := strings.TrimPrefix(strings.TrimPrefix(tv.Pkg().Path(), load.Module), "/") + "." + tv.Name()
	tp := k.c.P.Pos(tpos)
	if w := k.writtenBy(tv); w != "" {
		r.undecide("CUBE-CLOSED", tcons, tp, "the index table is not constant: "+w)
		return nil
	}
	// --- CUBE-CLOSED
	if len(tbl)%3 != 0 || len(tbl) == 0 {
		r.violate("CUBE-CLOSED", tcons, tp, fmt.Sprintf("the index table has %d entries, not a multiple of 3", len(tbl)))
		return nil
	}
	edges := map[[2]int]int{}
	for t := 0; t < len(tbl); t += 3 {
		a, b, c := tbl[t], tbl[t+1], tbl[t+2]
		for _, v := range []int{a, b, c} {
			if v < 0 || v >= len(P) {
				r.violate("CUBE-CLOSED", tcons, tp, fmt.Sprintf("triangle %d uses index %d, there are %d corners", t/3, v, len(P)))
				return nil
			}
		}
		if a == b || b == c || a == c {
			r.violate("CUBE-CLOSED", tcons, tp, fmt.Sprintf("triangle %d (%d,%d,%d) is degenerate", t/3, a, b, c))
			return nil
		}
		edges[[2]int{a, b}]++
		edges[[2]int{b, c}]++
		edges[[2]int{c, a}]++
	}
	var es [][2]int
	for e := range edges {
		es = append(es, e)
	}
	sort.Slice(es, func(i, j int) bool { return es[i][0] < es[j][0] || (es[i][0] == es[j][0] && es[i][1] < es[j][1]) })
	for _, e := range es {
		if edges[e] != 1 {
			r.violate("CUBE-CLOSED", tcons, tp, fmt.Sprintf("the directed edge %d→%d is used by %d triangles: two faces run along it in the same direction (inconsistent orientation)", e[0], e[1], edges[e]))
			return nil
		}
		if edges[[2]int{e[1], e[0]}] != 1 {
			r.violate("CUBE-CLOSED", tcons, tp, fmt.Sprintf("the edge %d→%d has no triangle on its other side (reverse edge used %d times): the surface is open or inconsistently oriented there", e[0], e[1], edges[[2]int{e[1], e[0]}]))
			return nil
		}
	}
	// --- CUBE-VOLUME
	for i := range P {
		for j := i + 1; j < len(P); j++ {
			if s.Equal(P[i][0], P[j][0]) && s.Equal(P[i][1], P[j][1]) && s.Equal(P[i][2], P[j][2]) {
				r.violate("CUBE-VOLUME", cons, pos, fmt.Sprintf("corners %d and %d are the same point", i, j))
				return nil
			}
		}
	}
	six := s.Const(0)
	for t := 0; t < len(tbl); t += 3 {
		six = k.e.Add(six, k.dot(P[tbl[t]], k.cross(P[tbl[t+1]], P[tbl[t+2]])))
	}
	want := k.e.Mul(s.Const(6), k.e.Mul(dims[0], k.e.Mul(dims[1], dims[2])))
	if !s.Equal(six, want) {
		msg := fmt.Sprintf("six times the signed volume enclosed by the table, Σ p0·(p1×p2), is %s; a box of the given size facing outward needs %s", short(s.Show(six, 6), 200), s.Show(want, 3))
		if s.Equal(six, k.e.Sub(s.Const(0), want)) {
			msg += " — the faces point inward"
		}
		r.violate("CUBE-VOLUME", cons, pos, msg)
		return nil
	}
	out := &outcome{closed: tcons, closedPos: tp}
	out.volume = fmt.Sprintf("Σ p0·(p1×p2) over the %d triangles = 6·Width·Height·Depth as a polynomial identity; the %d corners are pairwise different", len(tbl)/3, len(P))
	// --- CUBE-NORMAL
	if normals == nil {
		return out
	}
	ni, ok := c17.SliceInfoOf(normals)
	if !ok || !s.Equal(ni.Len, pi.Len) {
		r.undecide("CUBE-NORMAL", cons, pos, "the Normal attribute is not an array with one entry per corner")
		return nil
	}
	nStores := 0
	for _, p := range res.Paths {
		for _, ev := range p.Events {
			if ev.Kind != c17.EvStoreElem || ev.Slice == nil || c17.SliceID(ev.Slice) != ni.ID {
				continue
			}
			if ev.Loop == nil {
				r.undecide("CUBE-NORMAL", cons, pos, "a normal is stored outside a loop over the corners")
				return nil
			}
			src, ok := s.ElemOf(positions, ev.Idx)
			nl, pl := c17.Leaves(ev.Val), c17.Leaves(src)
			if !ok || len(nl) != 3 || len(pl) != 3 {
				r.undecide("CUBE-NORMAL", cons, pos, "a normal is not stored as a 3-vector")
				return nil
			}
			ln := k.e.Sqrt(k.dot(vec{pl[0], pl[1], pl[2]}, vec{pl[0], pl[1], pl[2]}))
			for c := 0; c < 3; c++ {
				if !s.Equal(k.e.Mul(nl[c], ln), pl[c]) {
					r.violate("CUBE-NORMAL", cons, pos, fmt.Sprintf("normal [%s] is %s, not position/|position| of the same corner", short(s.Key(ev.Idx), 40), short(s.Describe(ev.Val), 160)))
					return nil
				}
			}
			if p.Kind != c17.EndLoopBack || p.Iter == nil || p.Iter.Entry == nil || p.Iter.Entry.ID != ev.Loop.ID {
				continue
			}
			ind, why := s.InductionOf(res, p, ev.Idx, pi.Len)
			if f, isC := s.ConstSign(ind.First); why != "" || !isC || f != 0 || ind.Step != 1 || !ind.GuardOK || ind.EarlyExit {
				r.undecide("CUBE-NORMAL", cons, pos, "the loop that fills the normals is not a full-range loop over the corners "+why)
				return nil
			}
			nStores++
		}
	}
	if nStores == 0 {
		r.undecide("CUBE-NORMAL", cons, pos, "the Normal attribute is not filled by a loop over the corners")
		return nil
	}
	dimName := map[string]bool{s.Key(dims[0]): true, s.Key(dims[1]): true, s.Key(dims[2]): true}
	for t := 0; t < len(tbl); t += 3 {
		a, b, c := P[tbl[t]], P[tbl[t+1]], P[tbl[t+2]]
		N := k.cross(k.sub(b, a), k.sub(c, a))
		for q := 0; q < 3; q++ {
			d := k.dot(P[tbl[t+q]], N)
			p, n, syms, ok := s.CoefSigns(d)
			free := !ok
			for _, nm := range syms {
				if !dimName[nm] {
					free = true
				}
			}
			if free || n != 0 || p == 0 {
				r.violate("CUBE-NORMAL", cons, pos, fmt.Sprintf("the supplied normal of corner %d does not point to the outer side of triangle %d (%d,%d,%d): position · face normal = %s is not a polynomial in Width, Height, Depth with positive coefficients only", tbl[t+q], t/3, tbl[t], tbl[t+1], tbl[t+2], short(s.Show(d, 4), 160)))
				return nil
			}
		}
	}
	out.normal = fmt.Sprintf("normal[i] = position[i]/|position[i]| for every corner (identity with sqrt(p)² = p, full-range loop); position · ((p1−p0)×(p2−p0)) has positive coefficients only in (Width, Height, Depth) for all %d (triangle, corner) pairs", len(tbl))
	return out
}

// probe prints the symbolic paths of a function (development aid: C18_DUMP=<pkg func or Type.Method>).
func (k *checker) probe(name string) {
	fn := k.c.P.Func(primRel, name)
	if fn == nil {
		fmt.Println("no such function", name)
		return
	}
	args := make([]c17.Val, len(fn.Params))
	for i, p := range fn.Params {
		args[i] = k.e.Sym(p.Name(), p.Type())
	}
	old := k.e.Opaque
	k.e.Opaque = k.solidOpaque(fn, old)
	res := k.e.Run(fn, args)
	k.e.Opaque = old
	s := k.s
	fmt.Println("=== probe", name, "paths", len(res.Paths), "problem", res.Problem())
	for i, p := range res.Paths {
		fmt.Printf("--- path %d kind=%s abort=%s\n", i, p.Kind, p.Abort)
		for _, a := range p.Conds {
			fmt.Printf("    cond %s\n", short(a.Key(), 160))
		}
		for _, l := range p.Loops {
			fmt.Printf("    loop %s condIndex=%d\n", l.ID, l.CondIndex)
		}
		for _, ev := range p.Events {
			lp := ""
			if ev.Loop != nil {
				lp = ev.Loop.ID
			}
			var as []string
			for _, a := range ev.Args {
				as = append(as, short(s.Describe(a), 150))
			}
			sid, idx := "", ""
			if ev.Slice != nil {
				sid = c17.SliceID(ev.Slice)
			}
			if ev.Kind == c17.EvStoreElem {
				idx = s.Describe(ev.Idx)
			}
			fmt.Printf("    event kind=%d loop=%s callee=%s slice=%s idx=%s args=%v val=%s\n", ev.Kind, lp, short(ev.Callee, 60), sid, idx, as, short(s.Describe(ev.Val), 200))
		}
		if p.Iter != nil && p.Iter.Entry != nil {
			for j, hv := range p.Iter.Entry.Havoc {
				fmt.Printf("    next[%s] %s := %s (init %s)\n", p.Iter.Entry.ID, short(s.Describe(hv), 60), short(s.Describe(p.Iter.Next[j]), 100), short(s.Describe(p.Iter.Entry.Init[j]), 60))
			}
		}
		for _, x := range p.LoopExits {
			fmt.Printf("    exit %s from block %d (header %d)\n", x.Entry.ID, x.From.Index, x.Entry.Header.Index)
		}
		for _, r := range p.Ret {
			fmt.Printf("    ret %s\n", short(s.Describe(r), 300))
		}
		for _, n := range p.Notes {
			fmt.Printf("    note %s\n", n)
		}
	}
}

// solidOpaque: while a solid's constructor is interpreted, other functions of the package and every
// repository function that loops (Mesh.Append, Transform, …) stay uninterpreted; small constructors
// and setters (NewTriangleMesh, SetFloat3Data) and the vector library are looked into.
func (k *checker) solidOpaque(fn *ssa.Function, old func(*ssa.Function) bool) func(*ssa.Function) bool {
	return func(f *ssa.Function) bool {
		if old != nil && old(f) {
			return true
		}
		if f == fn {
			return false
		}
		pp := ""
		if f.Pkg != nil {
			pp = f.Pkg.Pkg.Path()
		} else if o := f.Origin(); o != nil && o.Pkg != nil {
			pp = o.Pkg.Pkg.Path()
		}
		if f.Pkg == k.sp || (f.Parent() != nil && f.Parent().Pkg == k.sp) {
			// the package's own helpers are followed (a constructor split into uvPositions / …Triangles helpers);
			// the other generators stay uninterpreted: they are solids of their own, decided on their own
			return k.anchorFns[f]
		}
		if pp == load.Module || strings.HasPrefix(pp, load.Module+"/") {
			return len(ssau.Loops(f)) > 0
		}
		return false
	}
}
