package c18

func controls() map[string]string {
	return map[string]string{
		"modeling/primitives/zz_verif_control_c18.go": `package primitives

import (
	"github.com/EliCDavis/polyform/modeling"
	"github.com/EliCDavis/vector/vector3"
)

// must fire (CUBE-CLOSED): the second triangle of the back face is wound the other way round
var verifControlClosedBadFlippedFaceTable = []int{0, 2, 6, 0, 4, 6, 1, 3, 2, 1, 2, 0, 4, 6, 7, 4, 7, 5, 2, 3, 7, 2, 7, 6, 1, 0, 4, 1, 4, 5, 5, 7, 3, 5, 3, 1}

func (c Cube) verifControlClosedBadFlippedFace() modeling.Mesh {
	hw, hh, hd := c.Width/2, c.Height/2, c.Depth/2
	verts := []vector3.Float64{
		vector3.New(-hw, -hh, -hd), vector3.New(-hw, -hh, hd), vector3.New(-hw, hh, -hd), vector3.New(-hw, hh, hd),
		vector3.New(hw, -hh, -hd), vector3.New(hw, -hh, hd), vector3.New(hw, hh, -hd), vector3.New(hw, hh, hd),
	}
	return modeling.NewTriangleMesh(verifControlClosedBadFlippedFaceTable).SetFloat3Data(map[string][]vector3.Float64{
		modeling.PositionAttribute: verts,
		modeling.NormalAttribute:   vector3.Array[float64](verts).Normalized(),
	})
}

// must fire (CUBE-VOLUME): every triangle reversed - closed and consistent, but facing inward
var verifControlVolumeBadInwardTable = []int{0, 6, 2, 0, 4, 6, 1, 2, 3, 1, 0, 2, 4, 7, 6, 4, 5, 7, 2, 7, 3, 2, 6, 7, 1, 4, 0, 1, 5, 4, 5, 3, 7, 5, 1, 3}

func (c Cube) verifControlVolumeBadInward() modeling.Mesh {
	hw, hh, hd := c.Width/2, c.Height/2, c.Depth/2
	verts := []vector3.Float64{
		vector3.New(-hw, -hh, -hd), vector3.New(-hw, -hh, hd), vector3.New(-hw, hh, -hd), vector3.New(-hw, hh, hd),
		vector3.New(hw, -hh, -hd), vector3.New(hw, -hh, hd), vector3.New(hw, hh, -hd), vector3.New(hw, hh, hd),
	}
	return modeling.NewTriangleMesh(verifControlVolumeBadInwardTable).SetFloat3Data(map[string][]vector3.Float64{
		modeling.PositionAttribute: verts,
		modeling.NormalAttribute:   vector3.Array[float64](verts).Normalized(),
	})
}

// must fire (CUBE-VOLUME): corner 7 coincides with corner 3
var verifControlVolumeBadCornerTable = []int{0, 2, 6, 0, 6, 4, 1, 3, 2, 1, 2, 0, 4, 6, 7, 4, 7, 5, 2, 3, 7, 2, 7, 6, 1, 0, 4, 1, 4, 5, 5, 7, 3, 5, 3, 1}

func (c Cube) verifControlVolumeBadCorner() modeling.Mesh {
	hw, hh, hd := c.Width/2, c.Height/2, c.Depth/2
	verts := []vector3.Float64{
		vector3.New(-hw, -hh, -hd), vector3.New(-hw, -hh, hd), vector3.New(-hw, hh, -hd), vector3.New(-hw, hh, hd),
		vector3.New(hw, -hh, -hd), vector3.New(hw, -hh, hd), vector3.New(hw, hh, -hd), vector3.New(-hw, hh, hd),
	}
	return modeling.NewTriangleMesh(verifControlVolumeBadCornerTable).SetFloat3Data(map[string][]vector3.Float64{
		modeling.PositionAttribute: verts,
		modeling.NormalAttribute:   vector3.Array[float64](verts).Normalized(),
	})
}

// must fire (CUBE-NORMAL): the normals point to the centre
var verifControlNormalBadNegatedTable = []int{0, 2, 6, 0, 6, 4, 1, 3, 2, 1, 2, 0, 4, 6, 7, 4, 7, 5, 2, 3, 7, 2, 7, 6, 1, 0, 4, 1, 4, 5, 5, 7, 3, 5, 3, 1}

func (c Cube) verifControlNormalBadNegated() modeling.Mesh {
	hw, hh, hd := c.Width/2, c.Height/2, c.Depth/2
	verts := []vector3.Float64{
		vector3.New(-hw, -hh, -hd), vector3.New(-hw, -hh, hd), vector3.New(-hw, hh, -hd), vector3.New(-hw, hh, hd),
		vector3.New(hw, -hh, -hd), vector3.New(hw, -hh, hd), vector3.New(hw, hh, -hd), vector3.New(hw, hh, hd),
	}
	return modeling.NewTriangleMesh(verifControlNormalBadNegatedTable).SetFloat3Data(map[string][]vector3.Float64{
		modeling.PositionAttribute: verts,
		modeling.NormalAttribute:   vector3.Array[float64](verts).Scale(-1).Normalized(),
	})
}

// must stay silent: triangles reordered and rotated, half extents written differently
var verifControlClosedGoodPermutedTable = []int{4, 7, 5, 3, 7, 2, 6, 2, 7, 1, 0, 4, 4, 5, 1, 3, 5, 7, 5, 3, 1, 2, 6, 0, 4, 0, 6, 1, 3, 2, 2, 0, 1, 7, 4, 6}

func (c Cube) verifControlClosedGoodPermuted() modeling.Mesh {
	w, h, d := 0.5*c.Width, c.Height*0.5, c.Depth/2
	verts := []vector3.Float64{
		vector3.New(-w, -h, -d), vector3.New(-w, -h, d), vector3.New(-w, h, -d), vector3.New(-w, h, d),
		vector3.New(w, -h, -d), vector3.New(w, -h, d), vector3.New(w, h, -d), vector3.New(w, h, d),
	}
	return modeling.NewTriangleMesh(verifControlClosedGoodPermutedTable).SetFloat3Data(map[string][]vector3.Float64{
		modeling.PositionAttribute: verts,
		modeling.NormalAttribute:   vector3.Array[float64](verts).Normalized(),
	})
}
`,
	}
}
