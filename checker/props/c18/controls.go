package c18

func controls() map[string]string {
	return map[string]string{
		"modeling/primitives/zz_verif_control_c18.go": `package primitives

import (
	"math"

	"github.com/EliCDavis/polyform/math/quaternion"
	"github.com/EliCDavis/polyform/modeling"
	"github.com/EliCDavis/polyform/modeling/meshops"
	"github.com/EliCDavis/vector/vector3"
)

// must fire (CUBE-CLOSED): the second triangle of the back face is wound the other way round
var verifControlClosedBadFlippedFaceTable = []int{0, 2, 6, 0, 4, 6, 1, 3, 2, 1, 2, 0, 4, 6, 7, 4, 7, 5, 2, 3, 7, 2, 7, 6, 1, 0, 4, 1, 4, 5, 5, 7, 3, 5, 3, 1}

func (c Cube) verifControlClosedBadFlippedFace() modeling.Mesh {
	hw, hh, hd := c.Width/2, c.Height/2, c.Depth/2
	verts := []vector3.Float64{
		vector3.New(-hw, -hh, -hd), vector3.New(-hw, -hh, hd), vector3.New(-hw, hh, -hd), vector3.New(-hw, hh, hd),
		vector3.New(hw, -hh, -hd), vector3.New(hw, -hh, hd), vector3.New(hw, hh, -hd), vector3.New(hw, hh, hd),
	}
	return modeling.NewTriangleMesh(verifControlClosedBadFlippedFaceTable).SetFloat3Data(map[string][]vector3.Float64{
		modeling.PositionAttribute: verts,
		modeling.NormalAttribute:   vector3.Array[float64](verts).Normalized(),
	})
}

// must fire (CUBE-VOLUME): every triangle reversed - closed and consistent, but facing inward
var verifControlVolumeBadInwardTable = []int{0, 6, 2, 0, 4, 6, 1, 2, 3, 1, 0, 2, 4, 7, 6, 4, 5, 7, 2, 7, 3, 2, 6, 7, 1, 4, 0, 1, 5, 4, 5, 3, 7, 5, 1, 3}

func (c Cube) verifControlVolumeBadInward() modeling.Mesh {
	hw, hh, hd := c.Width/2, c.Height/2, c.Depth/2
	verts := []vector3.Float64{
		vector3.New(-hw, -hh, -hd), vector3.New(-hw, -hh, hd), vector3.New(-hw, hh, -hd), vector3.New(-hw, hh, hd),
		vector3.New(hw, -hh, -hd), vector3.New(hw, -hh, hd), vector3.New(hw, hh, -hd), vector3.New(hw, hh, hd),
	}
	return modeling.NewTriangleMesh(verifControlVolumeBadInwardTable).SetFloat3Data(map[string][]vector3.Float64{
		modeling.PositionAttribute: verts,
		modeling.NormalAttribute:   vector3.Array[float64](verts).Normalized(),
	})
}

// must fire (CUBE-VOLUME): corner 7 coincides with corner 3
var verifControlVolumeBadCornerTable = []int{0, 2, 6, 0, 6, 4, 1, 3, 2, 1, 2, 0, 4, 6, 7, 4, 7, 5, 2, 3, 7, 2, 7, 6, 1, 0, 4, 1, 4, 5, 5, 7, 3, 5, 3, 1}

func (c Cube) verifControlVolumeBadCorner() modeling.Mesh {
	hw, hh, hd := c.Width/2, c.Height/2, c.Depth/2
	verts := []vector3.Float64{
		vector3.New(-hw, -hh, -hd), vector3.New(-hw, -hh, hd), vector3.New(-hw, hh, -hd), vector3.New(-hw, hh, hd),
		vector3.New(hw, -hh, -hd), vector3.New(hw, -hh, hd), vector3.New(hw, hh, -hd), vector3.New(-hw, hh, hd),
	}
	return modeling.NewTriangleMesh(verifControlVolumeBadCornerTable).SetFloat3Data(map[string][]vector3.Float64{
		modeling.PositionAttribute: verts,
		modeling.NormalAttribute:   vector3.Array[float64](verts).Normalized(),
	})
}

// must fire (CUBE-NORMAL): the normals point to the centre
var verifControlNormalBadNegatedTable = []int{0, 2, 6, 0, 6, 4, 1, 3, 2, 1, 2, 0, 4, 6, 7, 4, 7, 5, 2, 3, 7, 2, 7, 6, 1, 0, 4, 1, 4, 5, 5, 7, 3, 5, 3, 1}

func (c Cube) verifControlNormalBadNegated() modeling.Mesh {
	hw, hh, hd := c.Width/2, c.Height/2, c.Depth/2
	verts := []vector3.Float64{
		vector3.New(-hw, -hh, -hd), vector3.New(-hw, -hh, hd), vector3.New(-hw, hh, -hd), vector3.New(-hw, hh, hd),
		vector3.New(hw, -hh, -hd), vector3.New(hw, -hh, hd), vector3.New(hw, hh, -hd), vector3.New(hw, hh, hd),
	}
	return modeling.NewTriangleMesh(verifControlNormalBadNegatedTable).SetFloat3Data(map[string][]vector3.Float64{
		modeling.PositionAttribute: verts,
		modeling.NormalAttribute:   vector3.Array[float64](verts).Scale(-1).Normalized(),
	})
}

// must stay silent: triangles reordered and rotated, half extents written differently
var verifControlClosedGoodPermutedTable = []int{4, 7, 5, 3, 7, 2, 6, 2, 7, 1, 0, 4, 4, 5, 1, 3, 5, 7, 5, 3, 1, 2, 6, 0, 4, 0, 6, 1, 3, 2, 2, 0, 1, 7, 4, 6}

func (c Cube) verifControlClosedGoodPermuted() modeling.Mesh {
	w, h, d := 0.5*c.Width, c.Height*0.5, c.Depth/2
	verts := []vector3.Float64{
		vector3.New(-w, -h, -d), vector3.New(-w, -h, d), vector3.New(-w, h, -d), vector3.New(-w, h, d),
		vector3.New(w, -h, -d), vector3.New(w, -h, d), vector3.New(w, h, -d), vector3.New(w, h, d),
	}
	return modeling.NewTriangleMesh(verifControlClosedGoodPermutedTable).SetFloat3Data(map[string][]vector3.Float64{
		modeling.PositionAttribute: verts,
		modeling.NormalAttribute:   vector3.Array[float64](verts).Normalized(),
	})
}

// ---- parametrised solids

// must fire (SEAM): the quad strip takes i+1 without wrap-around
func verifControlSeamBadOpen(radius float64, rows, columns int) modeling.Mesh {
	positions := make([]vector3.Float64, 0)
	for i := 0; i < rows; i++ {
		for j := 0; j < columns; j++ {
			a := 2.0 * math.Pi * float64(j) / float64(columns)
			positions = append(positions, vector3.New(math.Cos(a)*radius, float64(i), math.Sin(a)*radius))
		}
	}
	tris := make([]int, 0)
	for j := 0; j < rows-1; j++ {
		for i := 0; i < columns; i++ {
			a, b := j*columns+i, j*columns+i+1
			c, d := (j+1)*columns+i+1, (j+1)*columns+i
			tris = append(tris, a, b, c, a, c, d)
		}
	}
	return modeling.NewTriangleMesh(tris).SetFloat3Data(map[string][]vector3.Float64{modeling.PositionAttribute: positions})
}

// must fire (SEAM): the ring has columns vertices, the strip walks it with modulus columns-1
func verifControlSeamBadModulus(radius float64, rows, columns int) modeling.Mesh {
	positions := make([]vector3.Float64, 0)
	for i := 0; i < rows; i++ {
		for j := 0; j < columns; j++ {
			a := 2.0 * math.Pi * float64(j) / float64(columns)
			positions = append(positions, vector3.New(math.Cos(a)*radius, float64(i), math.Sin(a)*radius))
		}
	}
	tris := make([]int, 0)
	for j := 0; j < rows-1; j++ {
		for i := 0; i < columns-1; i++ {
			n := (i + 1) % (columns - 1)
			tris = append(tris, j*columns+i, j*columns+n, (j+1)*columns+n)
			tris = append(tris, j*columns+i, (j+1)*columns+n, (j+1)*columns+i)
		}
	}
	return modeling.NewTriangleMesh(tris).SetFloat3Data(map[string][]vector3.Float64{modeling.PositionAttribute: positions})
}

// must stay silent (SEAM): wrap by an if, two appends per quad, bases hoisted
func verifControlSeamGoodIfWrap(radius float64, rows, columns int) modeling.Mesh {
	var positions []vector3.Float64
	for i := 0; i < rows; i++ {
		for j := 0; j < columns; j++ {
			a := 2.0 * math.Pi * float64(j) / float64(columns)
			positions = append(positions, vector3.New(math.Cos(a)*radius, float64(i), math.Sin(a)*radius))
		}
	}
	var tris []int
	for j := 0; j+1 < rows; j++ {
		lower, upper := j*columns, (j+1)*columns
		for i := 0; i < columns; i++ {
			n := i + 1
			if n == columns {
				n = 0
			}
			tris = append(tris, lower+i, lower+n, upper+n)
			tris = append(tris, lower+i, upper+n, upper+i)
		}
	}
	return modeling.NewTriangleMesh(tris).SetFloat3Data(map[string][]vector3.Float64{modeling.PositionAttribute: positions})
}

// must fire (NORMAL-RADIAL): the sphere is built around (0, radius, 0), the normals are still normalised positions
func verifControlRadialBadOffCentre(radius float64, rows, columns int) modeling.Mesh {
	positions := make([]vector3.Float64, 0)
	for i := 0; i < rows; i++ {
		phi := math.Pi * float64(i+1) / float64(rows+1)
		for j := 0; j < columns; j++ {
			theta := 2.0 * math.Pi * float64(j) / float64(columns)
			positions = append(positions, vector3.New(math.Sin(phi)*math.Cos(theta)*radius, math.Cos(phi)*radius+radius, math.Sin(phi)*math.Sin(theta)*radius))
		}
	}
	return modeling.NewTriangleMesh(nil).SetFloat3Data(map[string][]vector3.Float64{
		modeling.PositionAttribute: positions,
		modeling.NormalAttribute:   vector3.Array[float64](positions).Normalized(),
	})
}

// must fire (NORMAL-RADIAL): normal i is the direction of vertex i+1
func verifControlRadialBadShifted(radius float64, rows, columns int) modeling.Mesh {
	positions := make([]vector3.Float64, 0)
	for i := 0; i < rows; i++ {
		phi := math.Pi * float64(i+1) / float64(rows+1)
		for j := 0; j < columns; j++ {
			theta := 2.0 * math.Pi * float64(j) / float64(columns)
			positions = append(positions, vector3.New(math.Sin(phi)*math.Cos(theta), math.Cos(phi), math.Sin(phi)*math.Sin(theta)).Scale(radius))
		}
	}
	normals := make([]vector3.Float64, len(positions))
	for i := 0; i < len(positions)-1; i++ {
		normals[i] = positions[i+1].Normalized()
	}
	return modeling.NewTriangleMesh(nil).SetFloat3Data(map[string][]vector3.Float64{
		modeling.PositionAttribute: positions,
		modeling.NormalAttribute:   normals,
	})
}

// must stay silent (NORMAL-RADIAL): components scaled one by one, normals = positions / radius in an explicit loop
func verifControlRadialGoodDivided(radius float64, rows, columns int) modeling.Mesh {
	var positions []vector3.Float64
	for i := 0; i < rows; i++ {
		phi := math.Pi * float64(i+1) / float64(rows+1)
		s, c := math.Sin(phi), math.Cos(phi)
		for j := 0; j < columns; j++ {
			theta := 2.0 * math.Pi * float64(j) / float64(columns)
			positions = append(positions, vector3.New(radius*s*math.Cos(theta), radius*c, radius*math.Sin(theta)*s))
		}
	}
	normals := make([]vector3.Float64, len(positions))
	for i, p := range positions {
		normals[i] = p.DivByConstant(radius)
	}
	return modeling.NewTriangleMesh(nil).SetFloat3Data(map[string][]vector3.Float64{
		modeling.NormalAttribute:   normals,
		modeling.PositionAttribute: positions,
	})
}

// must fire (NORMAL-CYL): the rim normals tilt towards the other rim
func (c Cylinder) verifControlCylBadTilt() modeling.Mesh {
	vertices := make([]vector3.Float64, (c.Sides*2)+2)
	normals := make([]vector3.Float64, (c.Sides*2)+2)
	for k := 0; k <= c.Sides; k++ {
		a := 2.0 * math.Pi * float64(k) / float64(c.Sides)
		vertices[k*2] = vector3.New(math.Cos(a)*c.Radius, c.Height/2, math.Sin(a)*c.Radius)
		vertices[k*2+1] = vector3.New(math.Cos(a)*c.Radius, -c.Height/2, math.Sin(a)*c.Radius)
		normals[k*2] = vector3.New(math.Cos(a), -.1, math.Sin(a)).Normalized()
		normals[k*2+1] = vector3.New(math.Cos(a), .1, math.Sin(a)).Normalized()
	}
	return modeling.NewTriangleMesh(nil).SetFloat3Data(map[string][]vector3.Float64{modeling.PositionAttribute: vertices, modeling.NormalAttribute: normals})
}

// must fire (NORMAL-CYL): the normal of the bottom rim is taken at the next angle
func (c Cylinder) verifControlCylBadNextAngle() modeling.Mesh {
	vertices := make([]vector3.Float64, (c.Sides*2)+2)
	normals := make([]vector3.Float64, (c.Sides*2)+2)
	step := 2.0 * math.Pi / float64(c.Sides)
	for k := 0; k <= c.Sides; k++ {
		a := step * float64(k)
		vertices[k*2] = vector3.New(math.Cos(a)*c.Radius, c.Height/2, math.Sin(a)*c.Radius)
		vertices[k*2+1] = vector3.New(math.Cos(a)*c.Radius, -c.Height/2, math.Sin(a)*c.Radius)
		normals[k*2] = vector3.New(math.Cos(a), .1, math.Sin(a)).Normalized()
		normals[k*2+1] = vector3.New(math.Cos(a+step), -.1, math.Sin(a+step)).Normalized()
	}
	return modeling.NewTriangleMesh(nil).SetFloat3Data(map[string][]vector3.Float64{modeling.PositionAttribute: vertices, modeling.NormalAttribute: normals})
}

// must stay silent (NORMAL-CYL): purely horizontal unit normals scaled by hand, normal written first
func (c Cylinder) verifControlCylGoodHorizontal() modeling.Mesh {
	n := 2 * (c.Sides + 1)
	vertices := make([]vector3.Float64, n)
	normals := make([]vector3.Float64, n)
	for k := 0; k < c.Sides+1; k++ {
		a := 2.0 * math.Pi * float64(k) / float64(c.Sides)
		ca, sa := math.Cos(a), math.Sin(a)
		normals[2*k+1] = vector3.New(ca*2, -.5, sa*2)
		normals[2*k] = vector3.New(ca*2, .5, sa*2)
		vertices[2*k] = vector3.New(c.Radius*ca, 0.5*c.Height, c.Radius*sa)
		vertices[2*k+1] = vector3.New(c.Radius*ca, -0.5*c.Height, c.Radius*sa)
	}
	return modeling.NewTriangleMesh(nil).SetFloat3Data(map[string][]vector3.Float64{modeling.PositionAttribute: vertices, modeling.NormalAttribute: normals})
}

// must fire (CAP-NORMAL): the disk lies in the plane x = 0 but keeps the +y normal
func (c Circle) verifControlCapBadPlane() modeling.Mesh {
	vertices := make([]vector3.Float64, c.Sides+1)
	normals := make([]vector3.Float64, c.Sides+1)
	for k := 0; k < c.Sides; k++ {
		a := 2.0 * math.Pi * float64(k) / float64(c.Sides)
		vertices[k] = vector3.New(0, math.Cos(a)*c.Radius, math.Sin(a)*c.Radius)
		normals[k] = vector3.New(0., 1., 0.)
	}
	vertices[c.Sides] = vector3.Zero[float64]()
	normals[c.Sides] = vector3.New(0., 1., 0.)
	return modeling.NewTriangleMesh(nil).SetFloat3Data(map[string][]vector3.Float64{modeling.PositionAttribute: vertices, modeling.NormalAttribute: normals})
}

// must stay silent (CAP-NORMAL): disk in the plane x = 0 with the matching normal
func (c Circle) verifControlCapGoodSideways() modeling.Mesh {
	vertices := make([]vector3.Float64, c.Sides+1)
	normals := make([]vector3.Float64, c.Sides+1)
	right := vector3.New(1., 0., 0.)
	for k := 0; k < c.Sides; k++ {
		a := 2.0 * math.Pi * float64(k) / float64(c.Sides)
		normals[k] = right
		vertices[k] = vector3.New(0, math.Cos(a)*c.Radius, math.Sin(a)*c.Radius)
	}
	vertices[c.Sides] = vector3.Zero[float64]()
	normals[c.Sides] = right
	return modeling.NewTriangleMesh(nil).SetFloat3Data(map[string][]vector3.Float64{modeling.PositionAttribute: vertices, modeling.NormalAttribute: normals})
}

// must fire (QUAD-DIMS): the back face is Width x Depth (copy of the top face's extents)
func (c Cube) verifControlQuadsBadBack() modeling.Mesh {
	hw, hh, hd := c.Width/2, c.Height/2, c.Depth/2
	top := Quad{Width: c.Width, Depth: c.Depth}.ToMesh().Translate(vector3.New(0., hh, 0.))
	bottom := rotate(Quad{Width: c.Width, Depth: c.Depth}.ToMesh(), quaternion.FromTheta(math.Pi, vector3.Forward[float64]())).Translate(vector3.New(0., -hh, 0.))
	left := rotate(Quad{Width: c.Height, Depth: c.Depth}.ToMesh(), quaternion.FromTheta(math.Pi/2, vector3.Forward[float64]())).Translate(vector3.New(-hw, 0., 0.))
	right := rotate(Quad{Width: c.Height, Depth: c.Depth}.ToMesh(), quaternion.FromTheta(math.Pi*1.5, vector3.Forward[float64]())).Translate(vector3.New(hw, 0., 0.))
	front := rotate(Quad{Width: c.Width, Depth: c.Height}.ToMesh(), quaternion.FromTheta(math.Pi*1.5, vector3.Left[float64]())).Translate(vector3.New(0., 0., hd))
	back := rotate(Quad{Width: c.Width, Depth: c.Depth}.ToMesh(), quaternion.FromTheta(math.Pi/2, vector3.Left[float64]())).Translate(vector3.New(0., 0., -hd))
	return top.Append(bottom).Append(left).Append(right).Append(front).Append(back)
}

// must stay silent (QUAD-DIMS): faces through a local helper, bottom flipped about x, another append order
func (c Cube) verifControlQuadsGoodHelper() modeling.Mesh {
	face := func(w, d float64, angle float64, axis vector3.Float64, off vector3.Float64) modeling.Mesh {
		return rotate(Quad{Width: w, Depth: d}.ToMesh(), quaternion.FromTheta(angle, axis)).Translate(off)
	}
	x, z := vector3.Right[float64](), vector3.Forward[float64]()
	top := Quad{Depth: c.Depth, Width: c.Width}.ToMesh().Translate(vector3.Up[float64]().Scale(c.Height * 0.5))
	bottom := face(c.Width, c.Depth, math.Pi, x, vector3.New(0., -0.5*c.Height, 0.))
	left := face(c.Height, c.Depth, math.Pi/2, z, vector3.New(-c.Width/2, 0., 0.))
	right := face(c.Height, c.Depth, -math.Pi/2, z, vector3.New(c.Width/2, 0., 0.))
	front := face(c.Width, c.Height, -math.Pi/2, x, vector3.New(0., 0., c.Depth/2))
	back := face(c.Width, c.Height, math.Pi/2, x, vector3.New(0., 0., -c.Depth/2))
	return back.Append(front).Append(right).Append(left).Append(bottom).Append(top)
}

// must fire (LATITUDE): the latitude is divided by the column count
func verifControlLatitudeBadDivisor(radius float64, rows, columns int) modeling.Mesh {
	positions := make([]vector3.Float64, 0)
	for i := 0; i < rows-1; i++ {
		phi := math.Pi * float64(i+1) / float64(columns)
		for j := 0; j < columns; j++ {
			theta := 2.0 * math.Pi * float64(j) / float64(columns)
			positions = append(positions, vector3.New(math.Sin(phi)*math.Cos(theta), math.Cos(phi), math.Sin(phi)*math.Sin(theta)).Scale(radius))
		}
	}
	return modeling.NewTriangleMesh(nil).SetFloat3Data(map[string][]vector3.Float64{modeling.PositionAttribute: positions})
}

// must fire (LATITUDE): one ring too many — the last ring collapses into the pole
func verifControlLatitudeBadExtraRing(radius float64, rows, columns int) modeling.Mesh {
	positions := make([]vector3.Float64, 0)
	for i := 0; i < rows; i++ {
		phi := math.Pi * float64(i+1) / float64(rows)
		for j := 0; j < columns; j++ {
			theta := 2.0 * math.Pi * float64(j) / float64(columns)
			positions = append(positions, vector3.New(math.Sin(phi)*math.Cos(theta), math.Cos(phi), math.Sin(phi)*math.Sin(theta)).Scale(radius))
		}
	}
	return modeling.NewTriangleMesh(nil).SetFloat3Data(map[string][]vector3.Float64{modeling.PositionAttribute: positions})
}

// must stay silent (LATITUDE): steps hoisted, rings counted from the south pole, longitude with a phase
func verifControlLatitudeGoodFromSouth(radius float64, rows, columns int) modeling.Mesh {
	var positions []vector3.Float64
	dPhi := math.Pi / float64(rows)
	dTheta := 2 * math.Pi / float64(columns)
	for ring := 0; ring < rows-1; ring++ {
		phi := math.Pi - dPhi*float64(ring+1)
		s, c := math.Sin(phi), math.Cos(phi)
		for col := 0; col < columns; col++ {
			theta := dTheta*float64(col) + 0.25
			positions = append(positions, vector3.New(radius*s*math.Cos(theta), radius*c, radius*s*math.Sin(theta)))
		}
	}
	return modeling.NewTriangleMesh(nil).SetFloat3Data(map[string][]vector3.Float64{modeling.PositionAttribute: positions})
}

// must fire (CAP-FLIP-AXIS): the bottom cap is flipped about z, the ring starts on x
func (c Cylinder) verifControlFlipBadZ() modeling.Mesh {
	vertices := make([]vector3.Float64, (c.Sides*2)+2)
	for k := 0; k <= c.Sides; k++ {
		a := 2.0 * math.Pi * float64(k) / float64(c.Sides)
		vertices[k*2] = vector3.New(math.Cos(a)*c.Radius, c.Height/2, math.Sin(a)*c.Radius)
		vertices[k*2+1] = vector3.New(math.Cos(a)*c.Radius, -c.Height/2, math.Sin(a)*c.Radius)
	}
	side := modeling.NewTriangleMesh(nil).SetFloat3Data(map[string][]vector3.Float64{modeling.PositionAttribute: vertices})
	flip := quaternion.FromTheta(math.Pi, vector3.Forward[float64]())
	bottom := Circle{Sides: c.Sides, Radius: c.Radius}.ToMesh().Transform(
		meshops.RotateAttribute3DTransformer{Attribute: modeling.PositionAttribute, Amount: flip},
		meshops.RotateAttribute3DTransformer{Attribute: modeling.NormalAttribute, Amount: flip},
	).Translate(vector3.New(0, -c.Height/2, 0))
	return side.Append(bottom)
}

// must stay silent (CAP-FLIP-AXIS): flipped about x through the axis constant
func (c Cylinder) verifControlFlipGoodRight() modeling.Mesh {
	vertices := make([]vector3.Float64, (c.Sides*2)+2)
	for k := 0; k <= c.Sides; k++ {
		a := 2.0 * math.Pi * float64(k) / float64(c.Sides)
		vertices[k*2] = vector3.New(math.Cos(a)*c.Radius, c.Height/2, math.Sin(a)*c.Radius)
		vertices[k*2+1] = vector3.New(math.Cos(a)*c.Radius, -c.Height/2, math.Sin(a)*c.Radius)
	}
	side := modeling.NewTriangleMesh(nil).SetFloat3Data(map[string][]vector3.Float64{modeling.PositionAttribute: vertices})
	bottom := rotate(Circle{Sides: c.Sides, Radius: c.Radius}.ToMesh(), quaternion.FromTheta(math.Pi, vector3.Right[float64]())).Translate(vector3.New(0, -c.Height/2, 0))
	return side.Append(bottom)
}

// must fire (SPHERE-RADIUS): the bottom pole is the unit vector, the rest of the sphere has the given radius
func verifControlSphereRadiusBadUnitPole(radius float64, rows, columns int) modeling.Mesh {
	positions := make([]vector3.Float64, 0)
	positions = append(positions, vector3.New(0, radius, 0))
	for i := 0; i < rows-1; i++ {
		phi := math.Pi * float64(i+1) / float64(rows)
		for j := 0; j < columns; j++ {
			theta := 2.0 * math.Pi * float64(j) / float64(columns)
			positions = append(positions, vector3.New(math.Sin(phi)*math.Cos(theta), math.Cos(phi), math.Sin(phi)*math.Sin(theta)).Scale(radius))
		}
	}
	positions = append(positions, vector3.Down[float64]())
	return modeling.NewTriangleMesh(nil).SetFloat3Data(map[string][]vector3.Float64{modeling.PositionAttribute: positions})
}

// must stay silent (SPHERE-RADIUS): poles hoisted and written through the axis constants, vertices re-emitted per triangle
func verifControlSphereRadiusGoodHoisted(radius float64, rows, columns int) modeling.Mesh {
	north, south := vector3.Up[float64]().Scale(radius), vector3.Down[float64]().Scale(radius)
	var ring []vector3.Float64
	ring = append(ring, north)
	for i := 0; i < rows-1; i++ {
		phi := math.Pi * float64(i+1) / float64(rows)
		for j := 0; j < columns; j++ {
			theta := 2.0 * math.Pi * float64(j) / float64(columns)
			ring = append(ring, vector3.New(radius*math.Sin(phi)*math.Cos(theta), radius*math.Cos(phi), radius*math.Sin(phi)*math.Sin(theta)))
		}
	}
	ring = append(ring, south)
	var out []vector3.Float64
	for i := 0; i < columns; i++ {
		out = append(out, ring[0], ring[(i+1)%columns+1], ring[i+1])
	}
	return modeling.NewTriangleMesh(nil).SetFloat3Data(map[string][]vector3.Float64{modeling.PositionAttribute: out})
}
`,
	}
}
