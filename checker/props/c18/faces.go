package c18

// QUAD-DIMS (box from six quads) and CAP-FLIP-AXIS (cylinder's flipped cap): clauses about WHICH dimension
// and WHICH axis constant go where. The rotations themselves are never evaluated: the only facts used are that
// quaternion.FromTheta(θ, a) rotates about the axis a (its vector part is a multiple of a — visible as the
// zero pattern of the quaternion's components) and that a rotation about a coordinate axis keeps the
// coordinate along that axis.

import (
	"fmt"
	"go/types"
	"math"
	"math/big"
	"sort"
	"strings"

	"golang.org/x/tools/go/ssa"

	"polycheck/props/c17"
)

var axisName = []string{"x", "y", "z"}

func (k *checker) pi() c17.Scalar {
	r := new(big.Rat)
	r.SetFloat64(math.Pi) // the float64 the source's math.Pi is rounded to; only compared with the source's own constants
	return k.s.Rat(r)
}

func (k *checker) half(a c17.Scalar) c17.Scalar { return k.e.Mul(a, k.s.Half()) }

// rotation describes the transformers handed to Mesh.Transform: all rotate by the same quaternion, whose
// vector part has exactly one component that is not identically zero.
type rotation struct {
	axis     int
	halfArg  c17.Scalar // argument of the cos in the real part (θ/2)
	haveHalf bool
	attrs    []string
}

func (k *checker) rotationOf(transformers c17.Val) (rotation, string) {
	s := k.s
	var rot rotation
	si, ok := c17.SliceInfoOf(transformers)
	if !ok || si.Origin != "array" {
		return rot, "the transformers are not a literal list"
	}
	var first c17.Val
	for i := int64(0); ; i++ {
		el, ok := s.ContentAt(transformers, s.Const(i))
		if !ok {
			break
		}
		ch := c17.Children(el)
		if len(ch) != 2 {
			return rot, "a transformer is not {attribute, rotation}"
		}
		attr, isStr := c17.StrConst(ch[0])
		q := c17.Children(ch[1])
		if !isStr || len(q) != 2 {
			return rot, "a transformer is not {attribute, quaternion}"
		}
		rot.attrs = append(rot.attrs, attr)
		if first == nil {
			first = ch[1]
			v := c17.Leaves(q[0])
			w, isW := q[1].(c17.Scalar)
			if len(v) != 3 || !isW {
				return rot, "the rotation is not a quaternion (vector, real)"
			}
			rot.axis = -1
			for c := 0; c < 3; c++ {
				if z, isC := s.ConstSign(v[c]); isC && z == 0 {
					continue
				}
				if rot.axis >= 0 {
					return rot, "the rotation axis is not a coordinate axis (more than one component of the quaternion's vector part is non-zero)"
				}
				rot.axis = c
			}
			if rot.axis < 0 {
				return rot, "the rotation has no axis"
			}
			if op, args, isApp := s.AppOf(w); isApp && op == "math.Cos" && len(args) == 1 {
				rot.halfArg, rot.haveHalf = args[0], true
			}
		} else if !s.SameVal(first, ch[1]) {
			return rot, "positions and normals are rotated by different quaternions"
		}
	}
	if first == nil {
		return rot, "no transformer"
	}
	return rot, ""
}

// meshArrays: the Position array of a mesh value built by inlined constructors on path p.
func (k *checker) meshPositions(p *c17.Path, mesh c17.Val) (c17.Val, bool) {
	t := c17.TypeOf(mesh)
	if t == nil || !isMesh(t) {
		return nil, false
	}
	st, _ := t.Underlying().(*types.Struct)
	ch := c17.Children(mesh)
	v3 := ""
	for i := 0; st != nil && i < st.NumFields() && i < len(ch); i++ {
		if m, ok := st.Field(i).Type().Underlying().(*types.Map); ok {
			if sl, ok := m.Elem().Underlying().(*types.Slice); ok {
				if n, ok := types.Unalias(sl.Elem()).(*types.Named); ok && n.Origin().Obj().Pkg() != nil && strings.HasSuffix(n.Origin().Obj().Pkg().Path(), "/vector3") {
					v3, _, _ = c17.MapID(ch[i])
				}
			}
		}
	}
	posAttr := constString(k.c.P.Pkg("modeling").Types, "PositionAttribute")
	for _, ev := range p.Events {
		if ev.Kind == c17.EvMapUpdate && len(ev.Args) == 3 {
			if id, _, ok := c17.MapID(ev.Args[0]); ok && id == v3 {
				if key, _ := c17.StrConst(ev.Args[1]); key == posAttr {
					return ev.Args[2], true
				}
			}
		}
	}
	return nil, false
}

// axisDims: which box dimension lies along x, y, z — read from the welded cube's corner literal when possible
// (x ↔ Width, y ↔ Height, z ↔ Depth otherwise).
func (k *checker) boxDims(recv c17.Val, t types.Type) ([3]c17.Scalar, bool) {
	var dims [3]c17.Scalar
	st, ok := t.Underlying().(*types.Struct)
	if !ok {
		return dims, false
	}
	ch := c17.Children(recv)
	have := 0
	for i := 0; i < st.NumFields() && i < len(ch); i++ {
		for d, name := range []string{"Width", "Height", "Depth"} {
			if st.Field(i).Name() == name {
				if sc, ok := ch[i].(c17.Scalar); ok {
					dims[d] = sc
					have++
				}
			}
		}
	}
	return dims, have == 3
}

func (k *checker) quadDims(r *rec, fn *ssa.Function) {
	P := k.c.P
	s := k.s
	cons, pos := P.FuncName(fn), P.Pos(fn.Pos())
	und := func(msg string) { r.undecide("QUAD-DIMS", cons, pos, msg) }
	bad := func(msg string) { r.violate("QUAD-DIMS", cons, pos, msg) }
	if len(fn.Params) != 1 {
		und("not a method of a box value")
		return
	}
	arg := k.e.Sym("c", fn.Params[0].Type())
	dims, ok := k.boxDims(arg, fn.Params[0].Type())
	if !ok {
		und("the receiver has no Width, Height, Depth")
		return
	}
	old := k.e.Opaque
	k.e.Opaque = k.solidOpaque(fn, old)
	res := k.e.Run(fn, []c17.Val{arg})
	k.e.Opaque = old
	if prob := res.Problem(); prob != "" {
		und("the engine cannot follow the function: " + prob)
		return
	}
	rets := res.Returns()
	if len(rets) == 0 {
		und("no returning path")
		return
	}
	eqAbs := func(a, b c17.Scalar) bool { return s.Equal(a, b) || s.Equal(a, k.e.Sub(s.Const(0), b)) }
	summary := ""
	for _, rp := range rets {
		faces := map[string]bool{}
		var lines []string
		// the faces are the translated meshes the returned mesh is appended from
		type faceCall struct{ Args []c17.Val }
		var calls []faceCall
		okShape := len(rp.Ret) == 1
		var walk func(v c17.Val, depth int)
		walk = func(v c17.Val, depth int) {
			f, _, as, isApp := c17.AppCall(v)
			switch {
			case !isApp || f == nil || depth > 12:
				okShape = false
			case f.Name() == "Append" && len(as) == 2:
				walk(as[0], depth+1)
				walk(as[1], depth+1)
			case f.Name() == "Translate" && len(as) == 2:
				calls = append(calls, faceCall{as})
			default:
				okShape = false
			}
		}
		if okShape {
			walk(rp.Ret[0], 0)
		}
		if !okShape {
			und("the box is not returned as translated face meshes appended to each other")
			return
		}
		for _, ev := range calls {
			t, okt := leaves3(ev.Args[1])
			if !okt {
				und("a face is translated by something that is not a 3-vector")
				return
			}
			// 1. the face's axis: the one non-zero component of the translation, ± half the dimension of that axis
			A := -1
			for c := 0; c < 3; c++ {
				if z, isC := s.ConstSign(t[c]); isC && z == 0 {
					continue
				}
				if A >= 0 {
					bad("a face is pushed out along two axes (" + short(s.Describe(ev.Args[1]), 80) + ")")
					return
				}
				A = c
			}
			if A < 0 {
				bad("a face is not pushed out of the centre at all")
				return
			}
			sign := ""
			switch {
			case s.Equal(t[A], k.half(dims[A])):
				sign = "+"
			case s.Equal(t[A], k.e.Sub(s.Const(0), k.half(dims[A]))):
				sign = "-"
			default:
				bad(fmt.Sprintf("the face on the %s axis is pushed out by %s, not by half the box's extent along %s (%s/2)", axisName[A], short(s.Show(t[A], 3), 60), axisName[A], s.Show(dims[A], 1)))
				return
			}
			// 2. the quad under the (optional) rotation
			mesh := ev.Args[0]
			var rot *rotation
			if f, _, as, isApp := c17.AppCall(mesh); isApp {
				if f == nil || f.Name() != "Transform" || len(as) != 2 {
					und("a face goes through " + short(s.Describe(mesh), 60) + " before it is translated")
					return
				}
				ro, why := k.rotationOf(as[1])
				if why != "" {
					und("the rotation of the face on the " + axisName[A] + " axis: " + why)
					return
				}
				rot, mesh = &ro, as[0]
			}
			pv, ok := k.meshPositions(rp, mesh)
			pi, isS := c17.SliceInfoOf(pv)
			if !ok || !isS || pi.Origin != "array" {
				und("the quad of the face on the " + axisName[A] + " axis is not a literal list of corners")
				return
			}
			var ext [3]*c17.Scalar // nil = flat
			var corners []vec
			for i := int64(0); ; i++ {
				el, ok := s.ContentAt(pv, s.Const(i))
				if !ok {
					break
				}
				v, ok := leaves3(el)
				if !ok {
					und("a quad corner is not a 3-vector")
					return
				}
				corners = append(corners, v)
			}
			if len(corners) != 4 {
				und(fmt.Sprintf("a face has %d corners", len(corners)))
				return
			}
			flat := -1
			for c := 0; c < 3; c++ {
				vals := map[string]c17.Scalar{}
				for _, v := range corners {
					vals[s.Key(v[c])] = v[c]
				}
				keys := make([]string, 0, len(vals))
				for kk := range vals {
					keys = append(keys, kk)
				}
				sort.Strings(keys)
				switch len(keys) {
				case 1:
					if z, isC := s.ConstSign(vals[keys[0]]); !isC || z != 0 || flat >= 0 {
						und("the quad is not flat in exactly one coordinate plane through the origin")
						return
					}
					flat = c
				case 2:
					d := k.e.Sub(vals[keys[0]], vals[keys[1]])
					ext[c] = &d
				default:
					und("the quad's corners take more than two values along " + axisName[c])
					return
				}
			}
			if flat < 0 {
				und("the quad is not flat")
				return
			}
			// 3. which box dimension each extent is
			face := fmt.Sprintf("%s%s face", sign, axisName[A])
			if rot == nil {
				if A != flat {
					bad(fmt.Sprintf("the %s is an un-rotated quad whose normal is the %s axis: it cannot face along %s", face, axisName[flat], axisName[A]))
					return
				}
				for c := 0; c < 3; c++ {
					if c != flat && !eqAbs(*ext[c], dims[c]) {
						bad(fmt.Sprintf("the %s spans %s along %s, the box is %s there: it does not meet its neighbours along their whole edge", face, short(s.Show(*ext[c], 2), 50), axisName[c], s.Show(dims[c], 1)))
						return
					}
				}
			} else {
				R := rot.axis
				if R == flat {
					bad(fmt.Sprintf("the %s is rotated about the quad's own normal (%s): it cannot be turned to face along %s", face, axisName[flat], axisName[A]))
					return
				}
				if A != flat && R == A {
					bad(fmt.Sprintf("the %s is rotated about the %s axis itself: a quad whose normal is %s never faces along %s that way", face, axisName[A], axisName[flat], axisName[A]))
					return
				}
				// the rotation keeps the coordinate along its axis: that extent of the quad must be the box's there
				if !eqAbs(*ext[R], dims[R]) {
					bad(fmt.Sprintf("the %s: the quad spans %s along %s, the axis it is rotated about (so that extent stays along %s), but the box is %s there: the face does not meet its neighbours (unpaired edges, wrong volume unless the two dimensions coincide)", face, short(s.Show(*ext[R], 2), 50), axisName[R], axisName[R], s.Show(dims[R], 1)))
					return
				}
				// the other extent ends up along the third axis (neither the rotation axis nor the face's axis)
				other := 3 - R - flat // the quad's second in-plane axis
				third := 3 - R - A    // where it ends up
				if A == flat {
					third = other // a half-turn about R keeps the plane
				}
				if !eqAbs(*ext[other], dims[third]) {
					bad(fmt.Sprintf("the %s: the quad's other extent is %s, the box is %s along %s where that side ends up: the face does not meet its neighbours (unpaired edges, wrong volume unless the two dimensions coincide)", face, short(s.Show(*ext[other], 2), 50), s.Show(dims[third], 1), axisName[third]))
					return
				}
				hasPos := false
				for _, a := range rot.attrs {
					if a == constString(k.c.P.Pkg("modeling").Types, "PositionAttribute") {
						hasPos = true
					}
				}
				if !hasPos {
					bad("the " + face + " rotates " + strings.Join(rot.attrs, ", ") + " but not the positions")
					return
				}
			}
			if faces[sign+axisName[A]] {
				bad("two faces are pushed out to " + sign + axisName[A] + ": the opposite side stays open")
				return
			}
			faces[sign+axisName[A]] = true
			lines = append(lines, face)
		}
		if len(faces) != 6 {
			bad(fmt.Sprintf("the box has %d faces (%s), not the six ±x, ±y, ±z", len(faces), strings.Join(sortedKeys(faces), " ")))
			return
		}
		sort.Strings(lines)
		summary = strings.Join(lines, ", ")
	}
	r.hold("QUAD-DIMS", cons, pos, "each of the six faces ("+summary+") is pushed out along one axis by ± half the box's extent along that axis, is rotated (if at all) about a coordinate axis other than the quad's normal and the face's axis, and the quad's extent along the rotation axis / its other extent are the box's dimensions along the rotation axis / the remaining axis: the three pairs of opposite faces use the complementary dimension pairs",
		fmt.Sprintf("%d returning paths (UV options) agree; rotations are not evaluated: FromTheta(θ, a) turns about a, which keeps the coordinate along a", len(rets)))
}

// ---------------------------------------------------------------- CAP-FLIP-AXIS

// trigAxes: among the vertex expressions stored into list id, which coordinate carries cos(angle) and which sin(angle).
func (sd *solid) trigAxes(id string) (cosAx, sinAx int, ok bool) {
	cosAx, sinAx = -1, -1
	for _, st := range sd.storesInto(id) {
		v, is := leaves3(st.ev.Val)
		if !is {
			return -1, -1, false
		}
		for c := 0; c < 3; c++ {
			hasCos, hasSin := false, false
			for _, a := range sd.k.s.AppsIn(v[c]) {
				switch a.Op {
				case "math.Cos":
					hasCos = true
				case "math.Sin":
					hasSin = true
				}
			}
			switch {
			case hasCos && hasSin:
				return -1, -1, false
			case hasCos:
				if cosAx >= 0 && cosAx != c {
					return -1, -1, false
				}
				cosAx = c
			case hasSin:
				if sinAx >= 0 && sinAx != c {
					return -1, -1, false
				}
				sinAx = c
			}
		}
	}
	return cosAx, sinAx, cosAx >= 0 && sinAx >= 0
}

func (k *checker) capFlipAxis(r *rec, fn *ssa.Function) {
	sd := k.runSolid(r, fn)
	if sd == nil {
		return
	}
	s := k.s
	und := func(msg string) { r.undecide("CAP-FLIP-AXIS", sd.cons, sd.pos, msg) }
	bad := func(msg string) { r.violate("CAP-FLIP-AXIS", sd.cons, sd.pos, msg) }
	// the side rim's parametrisation
	pos, _, _ := sd.attrs()
	pi, ok := c17.SliceInfoOf(pos)
	if !ok {
		und("the side's Position array was not found")
		return
	}
	sideCos, sideSin, ok := sd.trigAxes(pi.ID)
	if !ok {
		und("the side rim is not written as (cos(angle), ·, sin(angle)) in two coordinates")
		return
	}
	// the cap's own ring
	capFn := k.c.P.Func(primRel, "Circle.ToMesh")
	capCos, capSin := -1, -1
	if capFn != nil {
		if cs := k.runSolid(&rec{c: k.c, ctl: true}, capFn); cs != nil {
			if cp, _, _ := cs.attrs(); cp != nil {
				if ci, ok := c17.SliceInfoOf(cp); ok {
					capCos, capSin, _ = cs.trigAxes(ci.ID)
				}
			}
		}
	}
	if capCos < 0 {
		und("the cap's ring is not written as (cos(angle), ·, sin(angle)) in two coordinates")
		return
	}
	if capCos != sideCos || capSin != sideSin {
		bad(fmt.Sprintf("the cap's ring carries cos / sin on %s / %s, the side's rim on %s / %s: the two rims do not run through the same directions", axisName[capCos], axisName[capSin], axisName[sideCos], axisName[sideSin]))
		return
	}
	flips := 0
	for _, rp := range sd.res.Returns() {
		for _, ev := range rp.Events {
			if ev.Kind != c17.EvCall || ev.Fn == nil || ev.Fn.Name() != "Transform" || len(ev.Args) != 2 {
				continue
			}
			if f, _, _, isApp := c17.AppCall(ev.Args[0]); !isApp || f == nil || f.Name() != "ToMesh" {
				continue
			}
			rot, why := k.rotationOf(ev.Args[1])
			if why != "" {
				und("the flip of the cap: " + why)
				return
			}
			if !rot.haveHalf || !s.Equal(rot.halfArg, k.half(k.pi())) {
				und("the cap is rotated by something else than FromTheta(math.Pi, axis): not a half-turn flip")
				return
			}
			if rot.axis != sideCos {
				bad(fmt.Sprintf("the cap is flipped by a half-turn about the %s axis, but the ring starts (angle 0) on the %s axis — the coordinate that carries cos(angle): a half-turn about the cos axis maps ring angle a to −a, again a multiple of the step for every side count; about the %s axis it maps a to π − a, a multiple of the step only for even side counts, so for odd side counts the cap's rim is half a step off the side's rim and the solid is open", axisName[rot.axis], axisName[sideCos], axisName[rot.axis]))
				return
			}
			flips++
		}
	}
	if flips == 0 {
		if !r.ctl {
			k.c.R.Note("%s: no cap is flipped by a half-turn: CAP-FLIP-AXIS has nothing to decide", sd.cons)
		}
		und("no cap goes through a half-turn flip: the shape CAP-FLIP-AXIS was written for is gone")
		return
	}
	r.hold("CAP-FLIP-AXIS", sd.cons, sd.pos, fmt.Sprintf("the flipped cap is turned by FromTheta(π, a) with a on the %s axis, the coordinate that carries cos(angle) in both the cap's ring and the side's rim (sin on %s): the half-turn maps ring angle a to −a, so the flipped rim runs through the side rim's directions for every side count", axisName[sideCos], axisName[sideSin]),
		"trusted: cos is even and sin is odd (a half-turn about the cos axis negates the sin coordinate); no value of sin or cos is used")
}
