package c18

// LATITUDE: the arguments handed to sin / cos when the ring vertices are generated are uniform partitions
// tied to the loop bounds — decided as polynomial identities between the argument and the loop bounds.
// No value of sin or cos is used; π is the source's own constant (math.Pi as a float64).
//
//	longitude  (arg(j+1) − arg(j)) · C = 2π   C = vertices per ring (closed rings) or columns − 1 (the cylinder's strip,
//	                                      whose last column repeats the first)
//	latitude   the step Δ = arg(i+1) − arg(i) is constant and |Δ| · (rings + 1) = π   (pole to pole), first ring one step
//	           after the pole; or |Δ| · (rings + 1) = π/2 with the first ring on the equator (hemisphere)

import (
	"fmt"
	"strings"

	"golang.org/x/tools/go/ssa"

	"polycheck/props/c17"
)

type angleMode int

const (
	ringClosed angleMode = iota // C = iterations of the ring loop
	stripOpen                   // C = iterations − 1 (duplicated seam column)
)

func (k *checker) latitude(r *rec, fn *ssa.Function, mode angleMode) {
	sd := k.runSolid(r, fn)
	if sd == nil {
		return
	}
	s := k.s
	und := func(msg string) { r.undecide("LATITUDE", sd.cons, sd.pos, msg) }
	bad := func(at string, msg string) {
		if at == "" {
			at = sd.pos
		}
		r.violate("LATITUDE", sd.cons, at, msg)
	}
	pi := k.pi()
	twoPi := k.e.Mul(s.Const(2), pi)
	neg := func(a c17.Scalar) c17.Scalar { return k.e.Sub(s.Const(0), a) }
	type site struct {
		p  *c17.Path
		ev c17.Event
		v  vec
	}
	var sites []site
	seen := map[string]bool{}
	for _, p := range sd.res.Paths {
		for _, ev := range p.Events {
			if ev.Loop == nil || !k.own(sd.fn, ev.In) {
				continue
			}
			var vals []c17.Val
			switch ev.Kind {
			case c17.EvAppend:
				vals = ev.Args
			case c17.EvStoreElem:
				vals = []c17.Val{ev.Val}
			}
			for _, val := range vals {
				v, ok := leaves3(val)
				if !ok {
					continue
				}
				trig := false
				for c := 0; c < 3; c++ {
					for _, a := range s.AppsIn(v[c]) {
						if a.Op == "math.Sin" || a.Op == "math.Cos" {
							trig = true
						}
					}
				}
				key := fmt.Sprint(ev.Pos) + s.ValKey(val)
				if trig && !seen[key] {
					seen[key] = true
					sites = append(sites, site{p, ev, v})
				}
			}
		}
	}
	if len(sites) == 0 {
		und("no loop writes vertices built from sin / cos")
		return
	}
	nLong, nLat := 0, 0
	var facts []string
	for _, st := range sites {
		at := k.c.P.Pos(st.ev.Pos)
		inner := sd.counterOf(st.ev.Loop.ID)
		if !inner.ok {
			und("the loop that generates the ring vertices: " + inner.why)
			return
		}
		// the enclosing counted loop, if the vertex depends on one
		var outer *counter
		args := map[string]c17.Scalar{}
		for c := 0; c < 3; c++ {
			for _, a := range s.AppsIn(st.v[c]) {
				if (a.Op == "math.Sin" || a.Op == "math.Cos") && len(a.Args) == 1 {
					args[s.Key(a.Args[0])] = a.Args[0]
				}
			}
		}
		for _, key := range sortedKeysScalar(args) {
			a := args[key]
			depIn := sd.dependsOn(a, inner.loop)
			var depOut []string
			for _, d := range s.Symbols(a) {
				if d.Kind == c17.SymLoop && d.Root != inner.loop {
					depOut = append(depOut, d.Root)
				}
			}
			switch {
			case depIn && len(depOut) == 0:
				// longitude: constant step with step · C = 2π (a common phase of all columns is harmless)
				C := k.e.Sub(inner.bound, inner.first)
				if mode == stripOpen {
					C = k.e.Sub(C, s.Const(1))
				}
				hd, okh := s.SymbolOf(inner.h)
				if !okh {
					und("the column counter is not a plain variable")
					return
				}
				nxt, _ := s.Subst(a, hd, k.e.Add(inner.h, s.Const(1)))
				stepL := k.e.Sub(nxt, a)
				if s.Equal(k.e.Mul(stepL, C), neg(twoPi)) {
					bad(at, "the angle around the axis, "+short(s.Show(a, 3), 100)+", runs the other way round: every strip and fan that walks the ring with i, i+1 is wound the other way, its faces point inward")
					return
				}
				if !s.Equal(k.e.Mul(stepL, C), twoPi) {
					what := "the ring has " + s.Show(k.e.Sub(inner.bound, inner.first), 2) + " vertices"
					if mode == stripOpen {
						what = "the strip has " + s.Show(k.e.Sub(inner.bound, inner.first), 2) + " columns, the last one repeating the first"
					}
					bad(at, fmt.Sprintf("the angle around the axis is %s; %s, so a full turn needs 2π·j/%s: the ring does not close on itself (gap or overlap at the seam, wrong volume)", short(s.Show(a, 3), 120), what, s.Show(C, 2)))
					return
				}
				nLong++
			case !depIn && len(depOut) > 0:
				// latitude
				if outer == nil {
					c := sd.counterOf(depOut[0])
					if !c.ok {
						und("the loop over the rings: " + c.why)
						return
					}
					outer = &c
				}
				hd, ok := s.SymbolOf(outer.h)
				if !ok {
					und("the ring counter is not a plain variable")
					return
				}
				A := func(x c17.Scalar) c17.Scalar { v, _ := s.Subst(a, hd, x); return v }
				step := k.e.Sub(A(k.e.Add(outer.h, s.Const(1))), a)
				if sd.dependsOn(step, outer.loop) {
					bad(at, "the polar angle "+short(s.Show(a, 3), 100)+" does not advance by a constant step from ring to ring")
					return
				}
				n1 := k.e.Add(k.e.Sub(outer.bound, outer.first), s.Const(1))
				span := k.e.Mul(step, n1)
				first := A(outer.first)
				switch {
				case s.Equal(span, pi) && s.Equal(first, step), s.Equal(span, neg(pi)) && s.Equal(first, k.e.Add(pi, step)):
					// pole to pole, first ring one step after the pole
				case s.Equal(span, neg(k.half(pi))) && s.Equal(first, k.half(pi)), s.Equal(span, k.half(pi)) && s.Equal(first, k.half(pi)):
					// equator (first ring) towards a pole
				default:
					bad(at, fmt.Sprintf("the polar angle is %s: its step %s times (number of rings + 1 = %s) is %s, and the first ring is at %s — that is neither π with the first ring one step after the pole nor π/2 with the first ring on the equator: the rings are not the interior points of a uniform partition pole to pole (or equator to pole) for every row / column count (the divisor must be the ring loop's bound + 1)", short(s.Show(a, 3), 100), short(s.Show(step, 3), 60), s.Show(n1, 2), short(s.Show(span, 3), 60), short(s.Show(first, 3), 60)))
					return
				}
				nLat++
			default:
				bad(at, "the angle "+short(s.Show(a, 3), 100)+" handed to sin / cos depends on "+map[bool]string{true: "both loop counters", false: "no loop counter"}[depIn]+": it is neither the polar angle of the ring nor the angle around the axis")
				return
			}
		}
		facts = append(facts, at)
	}
	if nLong == 0 {
		und("no angle around the axis was found")
		return
	}
	msg := fmt.Sprintf("longitude: (arg(j+1) − arg(j))·C = 2π with C = %s for %d angle atom(s)", map[angleMode]string{ringClosed: "the number of vertices per ring (loop bound)", stripOpen: "columns − 1 (the last column repeats the first)"}[mode], nLong)
	if nLat > 0 {
		msg += fmt.Sprintf("; latitude: constant step, |step|·(rings + 1) = π from the pole or π/2 from the equator, with rings + 1 = the ring loop's bound + 1, for %d angle atom(s)", nLat)
	}
	r.hold("LATITUDE", sd.cons, sd.pos, msg+" — identities between the atoms' arguments and the loop bounds; no value of sin / cos used", "vertex generators: "+strings.Join(facts, ", "))
}

func sortedKeysScalar(m map[string]c17.Scalar) []string {
	out := make([]string, 0, len(m))
	for k := range m {
		out = append(out, k)
	}
	// deterministic
	for i := 1; i < len(out); i++ {
		for j := i; j > 0 && out[j] < out[j-1]; j-- {
			out[j], out[j-1] = out[j-1], out[j]
		}
	}
	return out
}
