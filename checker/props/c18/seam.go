package c18

// SEAM: every loop that emits triangles along a ring of vertices enumerates the complete cyclic successor
// relation of that ring — each ring vertex is the start of exactly one ring edge and the end of exactly one.
// This is the per-ring part of the edge-pairing argument (no induction over rows): a seam gap, a doubled
// seam, a wrap with the wrong modulus or a fan that stops one short breaks it.

import (
	"fmt"
	"go/token"
	"sort"
	"strings"

	"golang.org/x/tools/go/ssa"

	"polycheck/props/c17"
)

type emission struct {
	p    *c17.Path
	ev   c17.Event
	args []c17.Scalar // ring indices (mapped through fresh per-triangle vertices for unwelded meshes)
	loop string
}

type entryKind int

const (
	kConst entryKind = iota
	kAt              // B + i
	kSucc            // B + (i+1) mod n
)

type entry struct {
	kind entryKind
	base c17.Scalar
}

// throughFreshVertices: an unwelded mesh appends the vertices of each triangle anew and indexes them as
// len(vertices) − c; the ring index is the index the vertex was READ at from the ring list.
func (sd *solid) throughFreshVertices(p *c17.Path, args []c17.Scalar) ([]c17.Scalar, string, bool) {
	k := sd.k
	out := make([]c17.Scalar, len(args))
	ring := ""
	for i, x := range args {
		found := false
		for _, ev2 := range p.Events {
			if ev2.Kind != c17.EvAppend || ev2.Val == nil || len(ev2.Args) == 0 {
				continue
			}
			ln, ok := c17.LenOf(ev2.Val)
			if !ok {
				continue
			}
			d := k.e.Sub(ln, x)
			if !k.s.Equal(d, k.s.Const(1)) && !k.s.Equal(d, k.s.Const(2)) && !k.s.Equal(d, k.s.Const(3)) && !k.s.Equal(d, k.s.Const(4)) {
				continue
			}
			c := 0
			for q := 1; q <= 4; q++ {
				if k.s.Equal(d, k.s.Const(int64(q))) {
					c = q
				}
			}
			if c > len(ev2.Args) {
				continue
			}
			l := c17.Leaves(ev2.Args[len(ev2.Args)-c])
			if len(l) != 3 {
				continue
			}
			desc, ok := k.s.SymbolOf(l[0])
			if !ok || desc.Kind != c17.SymElem {
				// a vertex whose value is known (a pole appended before): not a ring vertex
				if _, isC := k.s.ConstSign(l[0]); isC {
					out[i], found = k.s.Const(-1), true
				}
				continue
			}
			for _, ld := range p.Events {
				if ld.Kind == c17.EvLoadElem && ld.Slice != nil && c17.SliceID(ld.Slice) == desc.Slice && k.s.Key(ld.Idx) == desc.Idx {
					out[i], found = ld.Idx, true
					if ring != "" && ring != desc.Slice {
						return nil, "", false
					}
					ring = desc.Slice
				}
			}
		}
		if !found {
			return nil, "", false
		}
	}
	return out, ring, true
}

func (k *checker) seam(r *rec, fn *ssa.Function) {
	sd := k.runSolid(r, fn)
	if sd == nil {
		return
	}
	s := k.s
	und := func(msg string) { r.undecide("SEAM", sd.cons, sd.pos, msg) }
	bad := func(at token.Pos, msg string) {
		pos := sd.pos
		if at != token.NoPos {
			pos = k.c.P.Pos(at)
		}
		r.violate("SEAM", sd.cons, pos, msg)
	}
	posV, _, idx := sd.attrs()
	ii, ok := c17.SliceInfoOf(idx)
	if !ok {
		und("the index array of the mesh could not be followed")
		return
	}
	ringList := ""
	if pi, ok := c17.SliceInfoOf(posV); ok {
		ringList = pi.ID
	}
	ifam := sd.fl.family(ii.ID)
	// --- emissions, grouped by the append statement
	sites := map[token.Pos][]emission{}
	var order []token.Pos
	for _, p := range sd.res.Paths {
		for _, ev := range p.Events {
			if ev.Kind != c17.EvAppend || ev.Slice == nil || !ifam[c17.SliceID(ev.Slice)] {
				continue
			}
			em := emission{p: p, ev: ev}
			okArgs := len(ev.Args) > 0 && len(ev.Args)%3 == 0
			for _, a := range ev.Args {
				sc, isS := a.(c17.Scalar)
				if !isS {
					okArgs = false
					break
				}
				em.args = append(em.args, sc)
			}
			if !okArgs {
				und("the index array receives something else than whole triangles of numbers")
				return
			}
			if ev.Loop != nil {
				em.loop = ev.Loop.ID
			}
			if mapped, ring, ok := sd.throughFreshVertices(p, em.args); ok {
				em.args = mapped
				ringList = ring
			}
			if _, seen := sites[ev.Pos]; !seen {
				order = append(order, ev.Pos)
			}
			dup := false
			for _, o := range sites[ev.Pos] {
				if o.p == p {
					dup = true
				}
			}
			if !dup {
				sites[ev.Pos] = append(sites[ev.Pos], em)
			}
		}
	}
	sort.Slice(order, func(i, j int) bool { return order[i] < order[j] })
	if len(order) == 0 {
		und("no triangle is appended to the index array")
		return
	}
	// --- the ring list: how many vertices per ring, where the first ring starts
	ringN, ringOff, why := sd.ringShape(ringList)
	if why != "" {
		und("the ring of vertices the triangles run along: " + why)
		return
	}
	families, linear := 0, 0
	var facts []string
	for _, at := range order {
		ems := sites[at]
		if ems[0].loop == "" {
			continue // explicit triangles: looked at when a loop needs them to close its ring
		}
		loop := ems[0].loop
		c := sd.counterOf(loop)
		if !c.ok {
			if strings.Contains(c.why, "left early") {
				bad(at, "the loop that emits the triangles along a ring can be left early: the ring stays open")
			} else {
				und("a loop that emits triangles: " + c.why)
			}
			return
		}
		n := c.bound
		next := k.e.Add(c.h, s.Const(1))
		sigma := s.Rem(next, n)
		wrapKeys := map[string]bool{k.e.CmpAtom(token.EQL, next, n).Atom().Key(): true, k.e.CmpAtom(token.GEQ, next, n).Atom().Key(): true}
		noWrapKeys := map[string]bool{k.e.CmpAtom(token.NEQ, next, n).Atom().Key(): true, k.e.CmpAtom(token.LSS, next, n).Atom().Key(): true}
		var plain, wrap, nowrap *emission
		for i := range ems {
			em := &ems[i]
			ent := (*c17.LoopEntry)(nil)
			for _, l := range em.p.Loops {
				if l.ID == loop {
					ent = l
				}
			}
			kind := 0
			for ci, cd := range em.p.Conds {
				if ent != nil && ci > ent.CondIndex {
					if wrapKeys[cd.Key()] {
						kind = 1
					}
					if noWrapKeys[cd.Key()] {
						kind = 2
					}
				}
			}
			switch kind {
			case 0:
				plain = em
			case 1:
				wrap = em
			case 2:
				nowrap = em
			}
		}
		var ents []entry
		classify := func(x c17.Scalar) (entry, bool) {
			switch {
			case !sd.dependsOn(x, loop):
				return entry{kConst, x}, true
			case !sd.dependsOn(k.e.Sub(x, sigma), loop):
				return entry{kSucc, k.e.Sub(x, sigma)}, true
			case !sd.dependsOn(k.e.Sub(x, c.h), loop):
				return entry{kAt, k.e.Sub(x, c.h)}, true
			}
			return entry{}, false
		}
		switch {
		case plain != nil && wrap == nil && nowrap == nil:
			for _, x := range plain.args {
				e, ok := classify(x)
				if !ok {
					bad(at, fmt.Sprintf("the index %s depends on the loop counter but is neither base + i nor base + (i+1) mod %s, %s being the number of iterations of the loop: the wrap-around does not close the ring this loop walks (wrong modulus or offset)", short(s.Show(x, 5), 120), s.Show(n, 2), s.Show(n, 2)))
					return
				}
				ents = append(ents, e)
			}
		case wrap != nil && nowrap != nil && plain == nil && len(wrap.args) == len(nowrap.args):
			for q := range wrap.args {
				vw, vn := wrap.args[q], nowrap.args[q]
				if s.Equal(vw, vn) {
					e, ok := classify(vw)
					if !ok || e.kind == kSucc {
						bad(at, "the index "+short(s.Show(vw, 5), 120)+" depends on the loop counter in a way that is not base + i")
						return
					}
					ents = append(ents, e)
					continue
				}
				b := k.e.Sub(vn, next)
				if sd.dependsOn(b, loop) || !s.Equal(vw, b) {
					bad(at, fmt.Sprintf("the wrapped neighbour is %s at the end of the ring and %s elsewhere: that is not base + 0 / base + i + 1", short(s.Show(vw, 4), 80), short(s.Show(vn, 4), 80)))
					return
				}
				ents = append(ents, entry{kSucc, b})
			}
		default:
			und("a triangle-emitting statement is reached under conditions on the counter that are not the wrap test i+1 == n")
			return
		}
		dep := false
		for _, e := range ents {
			if e.kind != kConst {
				dep = true
			}
		}
		if !dep {
			und("a loop emits triangles whose indices do not depend on its counter in a way the engine can follow (" + short(s.Show(ems[0].args[0], 3), 80) + ", …)")
			return
		}
		// ring edges of every triangle
		nSite, nLin := 0, 0
		for t := 0; t+2 < len(ents); t += 3 {
			for a := 0; a < 3; a++ {
				for b := a + 1; b < 3; b++ {
					ea, eb := ents[t+a], ents[t+b]
					if ea.kind == kConst || eb.kind == kConst {
						continue
					}
					d := k.e.Sub(ea.base, eb.base)
					dz, dConst := s.ConstSign(d)
					switch {
					case dConst && dz == 0 && ea.kind != eb.kind:
						// a ring edge i <-> succ(i) of the ring with base ea.base
						if f, isC := s.ConstSign(c.first); !isC || f != 0 {
							bad(at, "the loop over the ring starts at "+s.Show(c.first, 2)+", not at 0: the first ring edges are missing")
							return
						}
						if !s.Equal(n, ringN) {
							bad(at, fmt.Sprintf("the ring is walked with %s steps and modulus %s, but a ring has %s vertices", s.Show(n, 2), s.Show(n, 2), s.Show(ringN, 2)))
							return
						}
						if nd, ok := s.SymbolOf(ringN); ok {
							rel, ok := s.Subst(k.e.Sub(ea.base, ringOff), nd, s.Const(0))
							if !ok || !s.Equal(rel, s.Const(0)) {
								bad(at, fmt.Sprintf("the ring base %s is not the first ring vertex (%s) plus a whole number of rings of %s vertices: the triangles straddle two rings", short(s.Show(ea.base, 4), 80), s.Show(ringOff, 2), s.Show(ringN, 2)))
								return
							}
						}
						nSite++
					case dConst && dz == 0:
						bad(at, "a triangle uses the same ring vertex twice ("+short(s.Show(ea.base, 3), 60)+")")
						return
					case dConst && ea.kind == kAt && eb.kind == kAt:
						// base + i and base + i ± 1 without a wrap: a linear run that needs an explicit closing triangle
						one := k.e.Sub(d, s.Const(1))
						mone := k.e.Add(d, s.Const(1))
						lo, hi := b, a // d = +1: a is the higher one
						blo := eb.base
						if z, isC := s.ConstSign(mone); isC && z == 0 {
							lo, hi, blo = a, b, ea.base
						} else if z, isC := s.ConstSign(one); !isC || z != 0 {
							bad(at, "two vertices of one triangle are "+s.Show(d, 2)+" apart on the ring: not neighbours")
							return
						}
						span := k.e.Add(k.e.Sub(c.bound, c.first), s.Const(1))
						if !s.Equal(span, ringN) {
							bad(at, fmt.Sprintf("the ring neighbour is taken as i+1 without wrap-around over %s iterations, but the ring has %s vertices: the last iteration runs past the end of the ring (open seam, the triangle borrows a vertex that is not on the ring)", s.Show(k.e.Sub(c.bound, c.first), 3), s.Show(ringN, 2)))
							return
						}
						last, first := k.e.Add(blo, c.bound), k.e.Add(blo, c.first)
						closed := false
						for _, at2 := range order {
							for _, em2 := range sites[at2] {
								if em2.loop != "" {
									continue
								}
								for u := 0; u+2 < len(em2.args); u += 3 {
									if s.Equal(em2.args[u+lo], last) && s.Equal(em2.args[u+hi], first) {
										closed = true
									}
								}
							}
						}
						if !closed {
							bad(at, fmt.Sprintf("the ring is walked with i, i+1 without wrap-around and no explicit triangle joins its last vertex %s to its first %s: the seam is open", short(s.Show(last, 3), 60), short(s.Show(first, 3), 60)))
							return
						}
						nLin++
					}
				}
			}
		}
		families += nSite
		linear += nLin
		if nSite+nLin > 0 {
			facts = append(facts, fmt.Sprintf("%s: %d ring edge(s) i ↔ (i+1) mod %s, %d linear i ↔ i+1 closed by an explicit triangle; loop over [0, %s)", k.c.P.Pos(at), nSite, s.Show(n, 2), nLin, s.Show(c.bound, 2)))
		}
	}
	if families+linear == 0 {
		und("no loop emits triangles along a ring of vertices (base + i, base + successor)")
		return
	}
	r.hold("SEAM", sd.cons, sd.pos, append([]string{fmt.Sprintf("every ring-walking loop enumerates the complete cyclic successor relation of its ring: modulus = number of iterations = vertices per ring (%s), counter from 0 with step 1 and no early exit, ring bases = first ring vertex (%s) + whole rings; %d ring-edge families", s.Show(ringN, 2), s.Show(ringOff, 2), families+linear)}, facts...)...)
}

// ringShape: the number of vertices written per ring (bound of the innermost loop that writes the ring list)
// and the index of the first ring vertex.
func (sd *solid) ringShape(list string) (n, off c17.Scalar, why string) {
	k := sd.k
	if list == "" {
		return n, off, "the list of vertices was not found"
	}
	fam := sd.fl.family(list)
	for _, p := range sd.res.Paths {
		for _, ev := range p.Events {
			if ev.Slice == nil || !fam[c17.SliceID(ev.Slice)] || ev.Loop == nil {
				continue
			}
			switch ev.Kind {
			case c17.EvAppend:
				c := sd.counterOf(ev.Loop.ID)
				if !c.ok {
					return n, off, c.why
				}
				n = k.e.Sub(c.bound, c.first)
				// the first ring vertex: length of the list when the outermost loop that grows it is entered
				for _, ent := range p.Loops {
					for j, hv := range ent.Havoc {
						if id := sid(hv); id != "" && fam[id] && j < len(ent.Init) {
							if ln, ok := c17.LenOf(ent.Init[j]); ok {
								return n, ln, ""
							}
							if _, isNil := ent.Init[j].(c17.NilV); isNil {
								return n, k.s.Const(0), "" // var list []T: empty before the rings
							}
						}
					}
				}
				return n, off, "the length of the vertex list before the rings is unknown"
			case c17.EvStoreElem:
				c := sd.counterOf(ev.Loop.ID)
				if !c.ok {
					return n, off, c.why
				}
				if !k.s.Equal(ev.Idx, c.h) {
					continue // interleaved arrays (cylinder side) are not rings in index space
				}
				return k.e.Sub(c.bound, c.first), c.first, ""
			}
		}
	}
	return n, off, "no loop writes the ring vertices"
}
