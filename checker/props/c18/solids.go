package c18

// Parametrised solids (UV sphere, hemisphere, cylinder, circle cap): the clauses that are visible in the
// structure of the constructors without any trigonometric fact. math.Sin / math.Cos stay uninterpreted
// atoms; the only relation used is sin² + cos² = 1 (Session.ReduceTrig).
//
//	NORMAL-RADIAL  normal[i] = position[i]/|position[i]| element-wise and every vertex lies on the sphere of
//	               the given radius about the origin (sphere, hemisphere dome)
//	NORMAL-CYL     cylinder side: horizontal part of the normal is a positive multiple of the horizontal part of
//	               the position, the vertical component has the sign of the position's; both arrays are filled
//	               completely; the un-rotated cap is moved to the side its normal points to
//	CAP-NORMAL     circle: one constant normal, perpendicular to every stored position (flat disk), arrays filled
//	SEAM           every ring / fan loop enumerates the complete cyclic successor relation i -> (i+1) mod n of
//	               one ring: modulus = loop bound = vertices per ring, full range, ring bases aligned to whole rings

import (
	"fmt"
	"go/token"
	"go/types"
	"sort"
	"strings"

	"golang.org/x/tools/go/ssa"

	"polycheck/props/c17"
)

// ---------------------------------------------------------------- running a constructor

type solid struct {
	k        *checker
	r        *rec
	fn       *ssa.Function
	cons     string
	pos      string
	res      *c17.Result
	positive map[string]bool // names of the float parameters (assumed > 0)
	floats   []c17.Scalar    // the float parameters
	ints     []c17.Scalar    // the int parameters (rows, columns, sides)
	fl       *flow
}

func (k *checker) runSolid(r *rec, fn *ssa.Function) *solid {
	P := k.c.P
	sd := &solid{k: k, r: r, fn: fn, cons: P.FuncName(fn), pos: P.Pos(fn.Pos()), positive: map[string]bool{}}
	args := make([]c17.Val, len(fn.Params))
	var visit func(v c17.Val, t types.Type)
	visit = func(v c17.Val, t types.Type) {
		switch u := t.Underlying().(type) {
		case *types.Basic:
			sc, ok := v.(c17.Scalar)
			if !ok {
				return
			}
			if u.Info()&types.IsFloat != 0 {
				sd.floats = append(sd.floats, sc)
				sd.positive[k.s.Key(sc)] = true
			} else if u.Info()&types.IsInteger != 0 {
				sd.ints = append(sd.ints, sc)
			}
		case *types.Struct:
			ch := c17.Children(v)
			for i := 0; i < u.NumFields() && i < len(ch); i++ {
				visit(ch[i], u.Field(i).Type())
			}
		}
	}
	for i, p := range fn.Params {
		args[i] = k.e.Sym(p.Name(), p.Type())
		visit(args[i], p.Type())
	}
	old := k.e.Opaque
	k.e.Opaque = k.solidOpaque(fn, old)
	sd.res = k.e.Run(fn, args)
	k.e.Opaque = old
	if prob := sd.res.Problem(); prob != "" {
		r.undecide("SEAM", sd.cons, sd.pos, "the engine cannot follow the constructor: "+prob)
		return nil
	}
	if len(sd.res.Returns()) == 0 {
		r.undecide("SEAM", sd.cons, sd.pos, "no returning path")
		return nil
	}
	sd.fl = buildFlow(sd.res)
	return sd
}

// attrs finds the arrays stored under Position / Normal by the constructor itself, and the index array.
func (sd *solid) attrs() (pos, nrm, idx c17.Val) {
	P := sd.k.c.P
	posAttr := constString(P.Pkg("modeling").Types, "PositionAttribute")
	nrmAttr := constString(P.Pkg("modeling").Types, "NormalAttribute")
	for _, rp := range sd.res.Returns() {
		for _, ev := range rp.Events {
			if ev.Kind == c17.EvMapUpdate && len(ev.Args) == 3 && sd.k.own(sd.fn, ev.In) {
				switch key, _ := c17.StrConst(ev.Args[1]); key {
				case posAttr:
					pos = ev.Args[2]
				case nrmAttr:
					nrm = ev.Args[2]
				}
			}
		}
		// the index array: the []int inside the mesh value built here (possibly inside Append(…) calls)
		var find func(v c17.Val, depth int)
		find = func(v c17.Val, depth int) {
			if idx != nil || depth > 6 || v == nil {
				return
			}
			if t := c17.TypeOf(v); t != nil && isMesh(t) {
				if st, ok := t.Underlying().(*types.Struct); ok {
					ch := c17.Children(v)
					for i := 0; i < st.NumFields() && i < len(ch); i++ {
						if sl, ok := st.Field(i).Type().Underlying().(*types.Slice); ok {
							if b, ok := sl.Elem().Underlying().(*types.Basic); ok && b.Kind() == types.Int {
								if _, isS := c17.SliceInfoOf(ch[i]); isS {
									idx = ch[i]
								}
							}
						}
					}
				}
				if idx != nil {
					return
				}
			}
			if _, _, as, ok := c17.AppCall(v); ok {
				for _, a := range as {
					find(a, depth+1)
				}
			}
		}
		if len(rp.Ret) == 1 {
			find(rp.Ret[0], 0)
		}
		if pos != nil {
			break
		}
	}
	return
}

func leaves3(v c17.Val) (vec, bool) {
	l := c17.Leaves(v)
	if len(l) != 3 {
		return vec{}, false
	}
	return vec{l[0], l[1], l[2]}, true
}

// isPositive: after sin² -> 1 − cos², numerator and denominator are sums of monomials with positive
// coefficients in which every factor is a positive parameter, a sqrt / abs value, or an even power.
func (sd *solid) isPositive(x c17.Scalar) bool {
	s := sd.k.s
	num, den := s.NumDen(s.ReduceTrig(x))
	for _, q := range []c17.Scalar{num, den} {
		ms, ok := s.Monomials(q)
		if !ok || len(ms) == 0 {
			return false
		}
		for _, m := range ms {
			if m.Sign <= 0 {
				return false
			}
			for name, e := range m.Exp {
				if e%2 == 0 || sd.positive[name] {
					continue
				}
				if op := s.AppName(name); op == "sqrt" || op == "abs" {
					continue
				}
				return false
			}
		}
	}
	return true
}

// ---------------------------------------------------------------- loops

type counter struct {
	loop  string
	h     c17.Scalar // the counter as it enters an iteration
	first c17.Scalar
	bound c17.Scalar // iterations run while h < bound
	ok    bool
	why   string
}

// counterOf describes the counted loop id: a scalar that starts from a constant, advances by 1 and is
// compared with an integer parameter (± 1) in the loop's guard.
func (sd *solid) counterOf(id string) counter {
	k := sd.k
	c := counter{loop: id}
	its := c17.IterationPaths(sd.res, id)
	if len(its) == 0 {
		c.why = "no complete iteration of the loop could be followed"
		return c
	}
	it := its[0]
	ent := it.Iter.Entry
	if ent.CondIndex >= len(it.Conds) {
		c.why = "the loop has no guard"
		return c
	}
	guard := it.Conds[ent.CondIndex].Key()
	for j, hv := range ent.Havoc {
		h, ok := hv.(c17.Scalar)
		if !ok {
			continue
		}
		nx, ok1 := it.Iter.Next[j].(c17.Scalar)
		in, ok2 := ent.Init[j].(c17.Scalar)
		if !ok1 || !ok2 || !k.s.Equal(k.e.Sub(nx, h), k.s.Const(1)) {
			continue
		}
		// range-over-slice counters start at −1 and are used as h+1: normalise to the value used
		for _, off := range []int64{0, 1} {
			hv := k.e.Add(h, k.s.Const(off))
			for _, n := range sd.ints {
				for _, d := range []int64{-2, -1, 0, 1, 2} {
					cand := k.e.Add(n, k.s.Const(d))
					if b := k.e.CmpAtom(token.LSS, hv, cand); b.Atom().Key() == guard {
						c.h, c.first, c.bound, c.ok = hv, k.e.Add(in, k.s.Const(off)), cand, true
					}
					if b := k.e.CmpAtom(token.LEQ, hv, cand); b.Atom().Key() == guard && !c.ok {
						c.h, c.first, c.bound, c.ok = hv, k.e.Add(in, k.s.Const(off)), k.e.Add(cand, k.s.Const(1)), true
					}
				}
			}
			if c.ok {
				break
			}
		}
		if c.ok {
			break
		}
	}
	if !c.ok {
		c.why = "the loop is not a counted loop over an integer parameter (guard " + short(guard, 80) + ")"
		return c
	}
	for _, p := range sd.res.Paths {
		for _, x := range p.LoopExits {
			if x.Entry.ID == id && x.From != x.Entry.Header {
				c.ok, c.why = false, "the loop can be left early"
			}
		}
	}
	return c
}

// dependsOn: does x mention a value carried by loop id (through applications too)?
func (sd *solid) dependsOn(x c17.Scalar, id string) bool {
	for _, d := range sd.k.s.Symbols(x) {
		if d.Kind == c17.SymLoop && d.Root == id {
			return true
		}
	}
	return false
}

// ---------------------------------------------------------------- stores into made arrays

type store struct {
	p    *c17.Path
	ev   c17.Event
	loop string
}

func (sd *solid) storesInto(id string) []store {
	var out []store
	seen := map[string]bool{}
	for _, p := range sd.res.Paths {
		for _, ev := range p.Events {
			if ev.Kind != c17.EvStoreElem || ev.Slice == nil || c17.SliceID(ev.Slice) != id || len(ev.Path) != 0 {
				continue
			}
			lp := ""
			if ev.Loop != nil {
				lp = ev.Loop.ID
			}
			key := fmt.Sprint(ev.Pos) + "|" + sd.k.s.Key(ev.Idx) + "|" + sd.k.s.ValKey(ev.Val)
			if seen[key] {
				continue
			}
			seen[key] = true
			out = append(out, store{p, ev, lp})
		}
	}
	return out
}

// filled decides that the stores cover every index of [0, ln): in-loop stores at m·h + c (c = 0..m−1) for a
// counter over [0, B), plus explicit stores at m·B, m·B+1, …; ln = m·B + (number of explicit stores).
func (sd *solid) filled(sts []store, ln c17.Scalar) (string, bool) {
	k := sd.k
	var inLoop, explicit []store
	loopID := ""
	for _, st := range sts {
		if st.loop == "" {
			explicit = append(explicit, st)
			continue
		}
		if loopID != "" && loopID != st.loop {
			return "the array is filled by more than one loop", false
		}
		loopID = st.loop
		inLoop = append(inLoop, st)
	}
	if loopID == "" {
		return "the array is not filled by a loop", false
	}
	c := sd.counterOf(loopID)
	if !c.ok {
		return c.why, false
	}
	if f, isC := k.s.ConstSign(c.first); !isC || f != 0 {
		return "the filling loop starts at " + k.s.Show(c.first, 2) + ", not at 0", true
	}
	m := int64(len(inLoop))
	for off := int64(0); off < m; off++ {
		want := k.e.Add(k.e.Mul(k.s.Const(m), c.h), k.s.Const(off))
		found := false
		for _, st := range inLoop {
			if k.s.Equal(st.ev.Idx, want) {
				found = true
			}
		}
		if !found {
			return fmt.Sprintf("no store at index %s: with %d stores per iteration the entries %d·i+%d stay empty", k.s.Show(want, 3), m, m, off), true
		}
	}
	top := k.e.Mul(k.s.Const(m), c.bound)
	for q := range explicit {
		want := k.e.Add(top, k.s.Const(int64(q)))
		found := false
		for _, st := range explicit {
			if k.s.Equal(st.ev.Idx, want) {
				found = true
			}
		}
		if !found {
			return "the stores outside the loop do not continue at index " + k.s.Show(want, 3), true
		}
	}
	if total := k.e.Add(top, k.s.Const(int64(len(explicit)))); !k.s.Equal(total, ln) {
		return fmt.Sprintf("the array has %s entries, the stores fill %s of them", k.s.Show(ln, 3), k.s.Show(total, 3)), true
	}
	return "", false
}

// ---------------------------------------------------------------- NORMAL-RADIAL

func (k *checker) normalRadial(r *rec, fn *ssa.Function) {
	sd := k.runSolid(r, fn)
	if sd == nil {
		return
	}
	s := k.s
	und := func(msg string) { r.undecide("NORMAL-RADIAL", sd.cons, sd.pos, msg) }
	bad := func(msg string) { r.violate("NORMAL-RADIAL", sd.cons, sd.pos, msg) }
	pos, nrm, _ := sd.attrs()
	if pos == nil {
		und("the Position attribute of the mesh was not found")
		return
	}
	if nrm == nil {
		if !r.ctl {
			k.c.R.Note("%s supplies no Normal attribute: nothing to decide for NORMAL-RADIAL", sd.cons)
		}
		return
	}
	pi, ok1 := c17.SliceInfoOf(pos)
	ni, ok2 := c17.SliceInfoOf(nrm)
	if !ok1 || !ok2 {
		und("Position / Normal are not arrays the engine tracks")
		return
	}
	if !s.Equal(pi.Len, ni.Len) {
		bad(fmt.Sprintf("the Normal array has %s entries, the Position array %s", s.Show(ni.Len, 3), s.Show(pi.Len, 3)))
		return
	}
	// 1. normal[i] = position[i] / |position[i]| for every i
	sts := sd.storesInto(ni.ID)
	if len(sts) == 0 {
		und("the Normal array is not filled by element stores")
		return
	}
	for _, st := range sts {
		if st.loop == "" {
			und("a normal is stored outside a loop over the vertices")
			return
		}
		src, ok := s.ElemOf(pos, st.ev.Idx)
		n, okn := leaves3(st.ev.Val)
		p, okp := vec{}, false
		if ok {
			p, okp = leaves3(src)
		}
		if !okn || !okp {
			und("a normal is not stored as a 3-vector")
			return
		}
		cr := k.cross(n, p)
		for c := 0; c < 3; c++ {
			if !s.Equal(cr[c], s.Const(0)) {
				bad(fmt.Sprintf("normal [%s] is %s, which is not parallel to the position of the SAME vertex: it is not the radial direction of its own vertex", short(s.Key(st.ev.Idx), 40), short(s.Describe(st.ev.Val), 160)))
				return
			}
		}
		if !sd.isPositive(k.dot(n, p)) {
			bad(fmt.Sprintf("normal [%s] is %s: normal · position is not positive, the normal points towards the centre", short(s.Key(st.ev.Idx), 40), short(s.Describe(st.ev.Val), 160)))
			return
		}
		its := c17.IterationPaths(sd.res, st.loop)
		if len(its) == 0 {
			und("no complete iteration of the loop that fills the normals could be followed")
			return
		}
		ind, why := s.InductionOf(sd.res, its[0], st.ev.Idx, pi.Len)
		if why != "" {
			und("the loop that fills the normals: " + why)
			return
		}
		if f, isC := s.ConstSign(ind.First); !isC || f != 0 || ind.Step != 1 || !ind.GuardOK || ind.EarlyExit {
			bad("the loop that fills the normals does not visit every vertex (first " + s.Show(ind.First, 2) + fmt.Sprintf(", step %d, while %s)", ind.Step, short(ind.Guard, 80)))
			return
		}
	}
	// 2. every vertex lies on the sphere of the given radius about the origin
	fam := sd.fl.family(pi.ID)
	type val struct {
		v   vec
		pos token.Pos
	}
	var vals []val
	seen := map[string]bool{}
	add := func(v c17.Val, at token.Pos) bool {
		p, ok := leaves3(v)
		if !ok {
			return false
		}
		key := s.ValKey(v)
		if !seen[key] {
			seen[key] = true
			vals = append(vals, val{p, at})
		}
		return true
	}
	for _, p := range sd.res.Paths {
		for _, ev := range p.Events {
			if ev.Slice == nil || !fam[c17.SliceID(ev.Slice)] {
				continue
			}
			switch ev.Kind {
			case c17.EvAppend:
				for _, a := range ev.Args {
					if !add(a, ev.Pos) {
						und("a vertex appended to the positions is not a 3-vector")
						return
					}
				}
			case c17.EvStoreElem:
				if !add(ev.Val, ev.Pos) {
					und("a vertex stored into the positions is not a 3-vector")
					return
				}
			case c17.EvAppendSlice, c17.EvBulkWrite:
				und("the positions are also written in bulk (" + ev.Callee + ")")
				return
			}
		}
	}
	if len(vals) == 0 {
		und("no vertex written to the positions could be followed")
		return
	}
	var R *c17.Scalar
	onSphere, centre := 0, 0
	for _, v := range vals {
		r2 := s.ReduceTrig(k.dot(v.v, v.v))
		if z, isC := s.ConstSign(r2); isC && z == 0 {
			centre++
			continue
		}
		found := false
		for i := range sd.floats {
			f := sd.floats[i]
			if s.Equal(r2, k.e.Mul(f, f)) {
				if R != nil && s.Key(*R) != s.Key(f) {
					bad("vertices lie on spheres of different radii")
					return
				}
				R, found = &f, true
			}
		}
		if !found {
			bad("the vertex written at " + k.c.P.Pos(v.pos) + " has |p|² = " + short(s.Show(r2, 5), 160) + " (modulo sin² + cos² = 1), not radius²: it does not lie on the sphere about the origin, so position/|position| is not the outward direction of the surface there")
			return
		}
		onSphere++
	}
	if R == nil {
		bad("no vertex lies on a sphere about the origin")
		return
	}
	facts := []string{
		"normal[i] × position[i] = 0 and normal[i] · position[i] > 0 for every vertex i (polynomial identities / sums of squares over a sqrt; full-range loop over len(positions)): each supplied normal is a positive multiple of the position of its own vertex",
		fmt.Sprintf("%d vertex expression(s) written to the positions satisfy |p|² = %s² modulo sin² + cos² = 1 (sin, cos uninterpreted): they lie on the sphere about the origin, so the radial direction is the outward one", onSphere, s.Key(*R)),
	}
	if centre > 0 {
		facts = append(facts, fmt.Sprintf("%d vertex is the origin itself (centre of the flat base): its normalised position is 0/0 — NaN at run time; outside the property's normal clause (sphere, box, cylinder), recorded as a note", centre))
		if !r.ctl {
			k.c.R.Note("%s: vertex (0,0,0) gets the normal (0,0,0)/0 = NaN (Normalized of the zero vector); the hemisphere is not in the property's list of solids with supplied normals", sd.cons)
		}
	}
	r.hold("NORMAL-RADIAL", sd.cons, sd.pos, facts...)
}

// ---------------------------------------------------------------- NORMAL-CYL and CAP-NORMAL

func (k *checker) normalCylinder(r *rec, fn *ssa.Function) {
	sd := k.runSolid(r, fn)
	if sd == nil {
		return
	}
	s := k.s
	und := func(msg string) { r.undecide("NORMAL-CYL", sd.cons, sd.pos, msg) }
	bad := func(msg string) { r.violate("NORMAL-CYL", sd.cons, sd.pos, msg) }
	pos, nrm, _ := sd.attrs()
	pi, ok1 := c17.SliceInfoOf(pos)
	ni, ok2 := c17.SliceInfoOf(nrm)
	if !ok1 || !ok2 {
		und("Position / Normal arrays of the side not found")
		return
	}
	ps, ns := sd.storesInto(pi.ID), sd.storesInto(ni.ID)
	if !s.Equal(pi.Len, ni.Len) {
		bad("Position and Normal arrays have different lengths")
		return
	}
	for _, x := range []struct {
		what string
		sts  []store
		ln   c17.Scalar
	}{{"Position", ps, pi.Len}, {"Normal", ns, ni.Len}} {
		if why, isBad := sd.filled(x.sts, x.ln); why != "" {
			if isBad {
				bad("the " + x.what + " array of the side is not filled completely: " + why)
			} else {
				und("the " + x.what + " array of the side: " + why)
			}
			return
		}
	}
	pairs := 0
	for _, n := range ns {
		var p *store
		for i := range ps {
			if s.Equal(ps[i].ev.Idx, n.ev.Idx) && ps[i].loop == n.loop {
				p = &ps[i]
			}
		}
		if p == nil {
			und("no position is stored at the index of normal [" + short(s.Key(n.ev.Idx), 40) + "]")
			return
		}
		pv, okp := leaves3(p.ev.Val)
		nv, okn := leaves3(n.ev.Val)
		if !okp || !okn {
			und("side vertices / normals are not 3-vectors")
			return
		}
		at := "[" + short(s.Key(n.ev.Idx), 30) + "]"
		// horizontal parts parallel …
		if cr := s.ReduceTrig(k.e.Sub(k.e.Mul(nv[0], pv[2]), k.e.Mul(nv[2], pv[0]))); !s.Equal(cr, s.Const(0)) {
			bad("side normal " + at + ": its horizontal part (x, z) is not parallel to the horizontal part of the position of the same vertex (n.x·p.z − n.z·p.x = " + short(s.Show(cr, 4), 140) + "): the normal belongs to another angle")
			return
		}
		// … and pointing the same way
		if hd := k.e.Add(k.e.Mul(nv[0], pv[0]), k.e.Mul(nv[2], pv[2])); !sd.isPositive(hd) {
			bad("side normal " + at + ": its horizontal part does not point away from the axis (n.x·p.x + n.z·p.z = " + short(s.Show(s.ReduceTrig(hd), 4), 140) + " is not positive for Radius > 0)")
			return
		}
		if vd := k.e.Mul(nv[1], pv[1]); !sd.isPositive(vd) {
			bad("side normal " + at + ": its vertical component does not have the sign of the vertex's height (n.y·p.y = " + short(s.Show(s.ReduceTrig(vd), 4), 140) + " is not positive for Height > 0): it tilts towards the other rim")
			return
		}
		pairs++
	}
	facts := []string{fmt.Sprintf("side: Position and Normal arrays are filled completely (stride-2 stores over the side counter); for all %d (position, normal) pairs per iteration n.x·p.z − n.z·p.x = 0 and n.x·p.x + n.z·p.z > 0 (same angle atom, modulo sin² + cos² = 1, Radius > 0) and n.y·p.y > 0 (Height > 0)", pairs)}
	// caps: a cap that is only translated keeps the disk's constant normal; it must be moved to the side that normal points to
	capNormal, haveCap := k.capNormalOf()
	noted := false
	for _, rp := range sd.res.Returns() {
		for _, ev := range rp.Events {
			if ev.Kind != c17.EvCall || ev.Fn == nil || ev.Fn.Name() != "Translate" || len(ev.Args) != 2 {
				continue
			}
			f, _, as, ok := c17.AppCall(ev.Args[0])
			t, okt := leaves3(ev.Args[1])
			if !ok || !okt || f == nil {
				continue
			}
			if f.Name() == "ToMesh" && len(as) >= 1 {
				if !haveCap {
					und("the cap's own normal is not a constant: its placement cannot be judged")
					return
				}
				d := k.dot(t, capNormal)
				if !sd.isPositive(d) {
					bad("a cap that keeps the disk's normal (" + s.Show(capNormal[0], 1) + "," + s.Show(capNormal[1], 1) + "," + s.Show(capNormal[2], 1) + ") is moved by " + short(s.Describe(ev.Args[1]), 80) + ": it is not moved to the side its normal points to, so the normal points into the solid")
					return
				}
				if f := "the un-rotated cap keeps the disk's constant normal and is translated by " + short(s.Describe(ev.Args[1]), 60) + ", a positive multiple of that normal"; !strings.Contains(strings.Join(facts, "\n"), f) {
					facts = append(facts, f)
				}
			} else if !r.ctl && !noted {
				noted = true
				k.c.R.Note("%s: a cap goes through %s before it is translated by %s — the rotation is quaternion.FromTheta(math.Pi, …), whose effect needs sin(π/2) = 1, cos(π/2) = 0 numerically: not decided", sd.cons, f.Name(), short(s.Describe(ev.Args[1]), 60))
			}
		}
	}
	r.hold("NORMAL-CYL", sd.cons, sd.pos, facts...)
}

// capNormalOf: the constant normal of Circle.ToMesh, when CAP-NORMAL can read one.
func (k *checker) capNormalOf() (vec, bool) {
	fn := k.c.P.Func(primRel, "Circle.ToMesh")
	if fn == nil {
		return vec{}, false
	}
	sd := k.runSolid(&rec{c: k.c, ctl: true}, fn)
	if sd == nil {
		return vec{}, false
	}
	_, nrm, _ := sd.attrs()
	ni, ok := c17.SliceInfoOf(nrm)
	if !ok {
		return vec{}, false
	}
	var n *vec
	for _, st := range sd.storesInto(ni.ID) {
		v, ok := leaves3(st.ev.Val)
		if !ok {
			return vec{}, false
		}
		for c := 0; c < 3; c++ {
			if _, isC := k.s.ConstSign(v[c]); !isC {
				return vec{}, false
			}
			if n != nil && !k.s.Equal(v[c], n[c]) {
				return vec{}, false
			}
		}
		n = &v
	}
	if n == nil {
		return vec{}, false
	}
	return *n, true
}

func (k *checker) capNormal(r *rec, fn *ssa.Function) {
	sd := k.runSolid(r, fn)
	if sd == nil {
		return
	}
	s := k.s
	und := func(msg string) { r.undecide("CAP-NORMAL", sd.cons, sd.pos, msg) }
	bad := func(msg string) { r.violate("CAP-NORMAL", sd.cons, sd.pos, msg) }
	pos, nrm, _ := sd.attrs()
	pi, ok1 := c17.SliceInfoOf(pos)
	ni, ok2 := c17.SliceInfoOf(nrm)
	if !ok1 || !ok2 {
		und("Position / Normal arrays not found")
		return
	}
	ps, ns := sd.storesInto(pi.ID), sd.storesInto(ni.ID)
	for _, x := range []struct {
		what string
		sts  []store
		ln   c17.Scalar
	}{{"Position", ps, pi.Len}, {"Normal", ns, ni.Len}} {
		if why, isBad := sd.filled(x.sts, x.ln); why != "" {
			if isBad {
				bad("the " + x.what + " array is not filled completely: " + why)
			} else {
				und("the " + x.what + " array: " + why)
			}
			return
		}
	}
	if !s.Equal(pi.Len, ni.Len) {
		bad("Position and Normal arrays have different lengths")
		return
	}
	var n *vec
	for _, st := range ns {
		v, ok := leaves3(st.ev.Val)
		if !ok {
			und("a normal is not a 3-vector")
			return
		}
		for c := 0; c < 3; c++ {
			if _, isC := s.ConstSign(v[c]); !isC {
				bad("the disk's normal " + short(s.Describe(st.ev.Val), 100) + " is not a constant: a flat disk has one normal")
				return
			}
			if n != nil && !s.Equal(v[c], n[c]) {
				bad("the disk's vertices get different normals")
				return
			}
		}
		n = &v
	}
	if n == nil {
		und("no normal is stored")
		return
	}
	if !s.Equal(k.dot(*n, *n), s.Const(1)) {
		bad("the disk's normal " + s.Show((*n)[0], 1) + "," + s.Show((*n)[1], 1) + "," + s.Show((*n)[2], 1) + " is not a unit vector")
		return
	}
	for _, st := range ps {
		p, ok := leaves3(st.ev.Val)
		if !ok {
			und("a vertex is not a 3-vector")
			return
		}
		if d := k.dot(p, *n); !s.Equal(d, s.Const(0)) {
			bad("vertex [" + short(s.Key(st.ev.Idx), 30) + "] = " + short(s.Describe(st.ev.Val), 120) + " is not in the plane through the origin perpendicular to the supplied normal (n·p = " + short(s.Show(d, 3), 80) + "): the constant normal is not the face normal of the incident triangles")
			return
		}
	}
	r.hold("CAP-NORMAL", sd.cons, sd.pos, fmt.Sprintf("both arrays are filled completely (ring loop + centre vertex); every vertex gets the same constant unit normal (%s, %s, %s) and every stored position is perpendicular to it: the supplied normal is ± the face normal of every triangle of the disk (the sign needs sin(2π/sides) > 0 and is not decided)", s.Show((*n)[0], 1), s.Show((*n)[1], 1), s.Show((*n)[2], 1)))
}

// ---------------------------------------------------------------- flow of slice versions (as in c20)

type flow struct {
	fwd map[string]map[string]bool
	und map[string]map[string]bool
}

func (f *flow) edge(a, b string) {
	if a == "" || b == "" || a == b {
		return
	}
	for _, m := range []struct {
		g    map[string]map[string]bool
		x, y string
	}{{f.fwd, a, b}, {f.und, a, b}, {f.und, b, a}} {
		if m.g[m.x] == nil {
			m.g[m.x] = map[string]bool{}
		}
		m.g[m.x][m.y] = true
	}
}

func sid(v c17.Val) string {
	if v == nil {
		return ""
	}
	if _, ok := c17.SliceInfoOf(v); !ok {
		return ""
	}
	return c17.SliceID(v)
}

func buildFlow(res *c17.Result) *flow {
	f := &flow{fwd: map[string]map[string]bool{}, und: map[string]map[string]bool{}}
	for _, p := range res.Paths {
		for _, ent := range p.Loops {
			for j := range ent.Havoc {
				if j < len(ent.Init) {
					f.edge(sid(ent.Init[j]), sid(ent.Havoc[j]))
				}
			}
		}
		if p.Kind == c17.EndLoopBack && p.Iter != nil && p.Iter.Entry != nil {
			for j := range p.Iter.Entry.Havoc {
				if j < len(p.Iter.Next) {
					f.edge(sid(p.Iter.Next[j]), sid(p.Iter.Entry.Havoc[j]))
				}
			}
		}
		for _, ev := range p.Events {
			if (ev.Kind == c17.EvAppend || ev.Kind == c17.EvAppendSlice) && ev.Slice != nil {
				f.edge(c17.SliceID(ev.Slice), sid(ev.Val))
			}
		}
	}
	return f
}

func (f *flow) family(id string) map[string]bool {
	seen := map[string]bool{id: true}
	work := []string{id}
	for len(work) > 0 {
		x := work[len(work)-1]
		work = work[:len(work)-1]
		for y := range f.und[x] {
			if !seen[y] {
				seen[y] = true
				work = append(work, y)
			}
		}
	}
	return seen
}

func sortedKeys(m map[string]bool) []string {
	out := make([]string, 0, len(m))
	for k := range m {
		out = append(out, k)
	}
	sort.Strings(out)
	return out
}

var _ = strings.Join

// ---------------------------------------------------------------- SPHERE-RADIUS

// sphereRadius: every vertex the constructor writes into any of its vertex lists lies on the sphere of the
// given radius about the origin (|p|² = radius² modulo sin² + cos² = 1) — pole constants included —, or is a
// copy of an element of such a list; allowCentre admits the origin itself (the hemisphere's base centre).
// Independent of whether normals are supplied.
func (k *checker) sphereRadius(r *rec, fn *ssa.Function, allowCentre bool) {
	sd := k.runSolid(r, fn)
	if sd == nil {
		return
	}
	s := k.s
	und := func(msg string) { r.undecide("SPHERE-RADIUS", sd.cons, sd.pos, msg) }
	bad := func(at token.Pos, msg string) { r.violate("SPHERE-RADIUS", sd.cons, k.c.P.Pos(at), msg) }
	type val struct {
		v    vec
		raw  c17.Val
		pos  token.Pos
		list string
	}
	var vals []val
	written := map[string]bool{}
	seen := map[string]bool{}
	for _, p := range sd.res.Paths {
		for _, ev := range p.Events {
			if !k.own(sd.fn, ev.In) || ev.Slice == nil {
				continue
			}
			var vs []c17.Val
			switch ev.Kind {
			case c17.EvAppend:
				vs = ev.Args
			case c17.EvStoreElem:
				if len(ev.Path) == 0 {
					vs = []c17.Val{ev.Val}
				}
			}
			for _, x := range vs {
				v, ok := leaves3(x)
				if !ok {
					continue
				}
				id := c17.SliceID(ev.Slice)
				for m := range sd.fl.family(id) {
					written[m] = true
				}
				key := fmt.Sprint(ev.Pos) + "|" + s.ValKey(x)
				if !seen[key] {
					seen[key] = true
					vals = append(vals, val{v, x, ev.Pos, id})
				}
			}
		}
	}
	// only the lists that feed the Position attribute count as vertex lists (not a Normal array filled here):
	// the Position array's versions, and the lists its elements are copied from
	posV, _, _ := sd.attrs()
	vertexList := map[string]bool{}
	if pi, ok := c17.SliceInfoOf(posV); ok {
		for m := range sd.fl.family(pi.ID) {
			vertexList[m] = true
		}
	} else {
		und("the Position attribute of the mesh was not found")
		return
	}
	for changed := true; changed; {
		changed = false
		for _, v := range vals {
			if !vertexList[v.list] {
				continue
			}
			if d, ok := s.SymbolOf(v.v[0]); ok && d.Kind == c17.SymElem && !vertexList[d.Slice] {
				for m := range sd.fl.family(d.Slice) {
					vertexList[m] = true
				}
				changed = true
			}
		}
	}
	kept := vals[:0]
	for _, v := range vals {
		if vertexList[v.list] {
			kept = append(kept, v)
		}
	}
	vals = kept
	if len(vals) == 0 {
		und("no vertex written by the constructor could be followed")
		return
	}
	var R *c17.Scalar
	onSphere, copies, centre := 0, 0, 0
	for _, v := range vals {
		// a copy of an element of a list this constructor fills (unwelded meshes re-emit their vertices per triangle)
		isCopy := true
		src, idx := "", ""
		for c := 0; c < 3; c++ {
			d, ok := s.SymbolOf(v.v[c])
			if !ok || d.Kind != c17.SymElem || (src != "" && (d.Slice != src || d.Idx != idx)) {
				isCopy = false
				break
			}
			src, idx = d.Slice, d.Idx
		}
		if isCopy {
			if !written[src] {
				bad(v.pos, "a vertex is copied from "+src+", a list whose vertices this constructor does not write")
				return
			}
			copies++
			continue
		}
		r2 := s.ReduceTrig(k.dot(v.v, v.v))
		if z, isC := s.ConstSign(r2); isC && z == 0 {
			if !allowCentre {
				bad(v.pos, "the vertex "+short(s.Describe(v.raw), 80)+" is the centre of the sphere, not a point on it")
				return
			}
			centre++
			continue
		}
		found := false
		for i := range sd.floats {
			f := sd.floats[i]
			if s.Equal(r2, k.e.Mul(f, f)) {
				if R != nil && s.Key(*R) != s.Key(f) {
					bad(v.pos, "vertices lie on spheres of different radii")
					return
				}
				R, found = &f, true
			}
		}
		if !found {
			bad(v.pos, "the vertex "+short(s.Describe(v.raw), 100)+" has |p|² = "+short(s.Show(r2, 5), 120)+" (modulo sin² + cos² = 1), not radius²: it does not lie on the sphere of the given radius about the origin — the polyhedron is not the one inscribed for these parameters (wrong volume whenever that differs from the radius)")
			return
		}
		onSphere++
	}
	if R == nil {
		bad(token.NoPos, "no vertex lies on a sphere about the origin")
		return
	}
	fact := fmt.Sprintf("%d vertex expression(s) — poles and ring vertices — satisfy |p|² = %s² modulo sin² + cos² = 1; %d are copies of elements of the lists those are written to", onSphere, s.Key(*R), copies)
	if centre > 0 {
		fact += fmt.Sprintf("; %d is the origin (the centre of the flat base)", centre)
	}
	r.hold("SPHERE-RADIUS", sd.cons, sd.pos, fact)
}
