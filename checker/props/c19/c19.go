// Package c19: signed distance functions compute the published closed forms (SDF-FORM),
// the combinators are the lattice operations (SDF-OP), every parameter and sample component
// reaches the result (SDF-DEP). Decided with C17's symbolic engine; nothing is executed.
package c19

import (
	"fmt"
	"go/types"
	"os"
	"runtime/pprof"
	"sort"
	"strings"
	"time"

	"golang.org/x/tools/go/ssa"

	"polycheck/ob"
	"polycheck/props"
	"polycheck/props/c17"
)

func init() {
	props.Register(&props.Prop{
		ID: "C19",
		Explanation: "Structural clause of 'SDFs are signed, 1-Lipschitz and compose as set operations', decided on source: every exported constructor of math/sdf that returns a " +
			"sample.Vec3ToFloat is interpreted symbolically (constructor, then the returned closure applied to a symbolic sample point; callees in the repository and in " +
			"EliCDavis/vector inlined, math.Sqrt/Abs/Min/Max uninterpreted with sqrt(p)²=p, |p|²=p², min/max associative-commutative-idempotent) path by path. " +
			"SDF-FORM: on every pair of (code path, reference case) whose conditions are not contradictory the value equals the PUBLISHED exact closed form (Quilez: sphere, box, round box, " +
			"capsule with the closest point of geometry.Line3D inlined, plane, rounded cylinder, round cone tdXGWr with its three branches) as a polynomial / rational identity in all shape " +
			"parameters and the sample point. SDF-OP: Union / Intersect are min / max over ALL fields (explicit 1- and 2-field paths and the n-ary fold: starts from field 0 or a neutral " +
			"constant, full range, step 1, no early exit), Subtract(a,b) = max(a, −b), Translate(f,t)(p) = f(p − t). SDF-DEP: every shape parameter component and all three sample " +
			"components reach the result. Sign exactness, zero on the surface, the Lipschitz bound and Euclidean exactness are then properties of the published forms (trusted base).",
		Assumptions: []string{
			"trusted base: the published closed forms (iquilezles.org/articles/distfunctions, shadertoy tdXGWr) are exact signed distance functions of their shapes; the check decides that the code computes them, not that they are right",
			"real arithmetic (no rounding, NaN, overflow); segments are non-degenerate (|b − a|² > 0); Plane's normal is normalised by the caller (the code does not normalise it)",
			"math.Sqrt, math.Abs, math.Min, math.Max are read as uninterpreted operators with sqrt(p)² = p, |p|² = p², |c·p| = |c|·|p|, min/max associative, commutative, idempotent; no other law (e.g. max(q,0) = q − min(q,0)) is used",
		},
		Controls: controls,
		Run:      run,
	})
}

const sdfRel = "math/sdf"

// required: the shapes and operators the property names; a missing one fails the check.
var required = []string{"Sphere", "Box", "RoundedBox", "Line", "RoundedCone", "RoundedCylinder", "Plane", "Union", "Intersect", "Subtract", "Translate"}

type rec struct {
	c          *props.Ctx
	ctl        bool
	holds, bad int
	msgs       []string
}

func (r *rec) hold(rule, construct, pos string, facts ...string) {
	r.holds++
	if !r.ctl {
		r.c.R.Hold(rule, construct, pos, facts...)
	}
}
func (r *rec) violate(rule, construct, pos, msg string, facts ...string) {
	r.bad++
	r.msgs = append(r.msgs, rule+": "+msg)
	if !r.ctl {
		r.c.R.Violate(rule, construct, pos, msg, facts...)
	}
}
func (r *rec) undecide(rule, construct, pos, msg string) {
	r.bad++
	r.msgs = append(r.msgs, rule+" undecided: "+msg)
	if !r.ctl {
		r.c.R.Undecide(rule, construct, pos, msg)
	}
}

type checker struct {
	c      *props.Ctx
	s      *c17.Session
	o      ops
	fieldT types.Type // sample.Vec3ToFloat
	vecT   types.Type
}

func isFieldType(t types.Type) bool {
	n, ok := types.Unalias(t).(*types.Named)
	return ok && n.Obj().Name() == "Vec3ToFloat" && n.Obj().Pkg() != nil && strings.HasSuffix(n.Obj().Pkg().Path(), "/math/sample")
}

func isVec3(t types.Type) bool {
	n, ok := types.Unalias(t).(*types.Named)
	if !ok {
		return false
	}
	o := n.Origin().Obj()
	return o.Name() == "Vector" && o.Pkg() != nil && o.Pkg().Path() == "github.com/EliCDavis/vector/vector3"
}

func isFloat(t types.Type) bool {
	b, ok := t.Underlying().(*types.Basic)
	return ok && b.Info()&types.IsFloat != 0
}

func run(c *props.Ctx) {
	if pf := os.Getenv("C19_PROF"); pf != "" {
		if f, err := os.Create(pf); err == nil {
			pprof.StartCPUProfile(f)
			defer pprof.StopCPUProfile()
		}
	}
	P := c.P
	R := c.R
	sp := P.SSAPkg(sdfRel)
	if sp == nil {
		R.Failf("anchor package %s not found", sdfRel)
		return
	}
	s, prob := c17.NewSession(c)
	if prob != "" {
		R.Failf("engine: %s", prob)
		return
	}
	k := &checker{c: c, s: s, o: ops{s: s, e: s.Engine()}}
	// constructors by signature: exported, package level, single result sample.Vec3ToFloat
	var ctors []*ssa.Function
	names := make([]string, 0, len(sp.Members))
	for n := range sp.Members {
		names = append(names, n)
	}
	sort.Strings(names)
	seen := map[string]bool{}
	for _, n := range names {
		fn, ok := sp.Members[n].(*ssa.Function)
		if !ok || fn.Blocks == nil || fn.Signature.Recv() != nil {
			continue
		}
		res := fn.Signature.Results()
		if res.Len() != 1 || !isFieldType(res.At(0).Type()) {
			continue
		}
		isCtl := P.IsControl(fn.Pos())
		if !isCtl && !fn.Object().Exported() {
			continue
		}
		ctors = append(ctors, fn)
		if !isCtl {
			seen[n] = true
		}
	}
	for _, n := range required {
		if !seen[n] {
			R.Failf("anchor %s.%s (a shape / operator the property names) not found as an exported constructor returning sample.Vec3ToFloat", sdfRel, n)
		}
	}
	nForm, nOp := 0, 0
	for _, fn := range ctors {
		if only := os.Getenv("C19_ONLY"); only != "" && !strings.Contains(fn.Name(), only) {
			continue
		}
		t0 := time.Now()
		if os.Getenv("C19_DEBUG") != "" {
			defer func(n string) { fmt.Printf("  %-28s %6.2fs\n", n, time.Since(t0).Seconds()) }(fn.Name())
		}
		isCtl := P.IsControl(fn.Pos())
		r := &rec{c: c, ctl: isCtl}
		name := fn.Name()
		key := name
		if isCtl {
			key = controlTarget(name)
		}
		takesFields := false
		for _, p := range fn.Params {
			t := p.Type()
			if sl, ok := t.Underlying().(*types.Slice); ok {
				t = sl.Elem()
			}
			if isFieldType(t) {
				takesFields = true
			}
		}
		switch {
		case takesFields:
			if k.operator(r, fn, key) && !isCtl {
				nOp++
			}
		case references[key] != nil:
			if k.primitive(r, fn, references[key]) && !isCtl {
				nForm++
			}
		default:
			if !isCtl {
				R.Note("%s.%s returns a sample.Vec3ToFloat but is none of the shapes the property names; no reference closed form, not decided", sdfRel, name)
			}
		}
		if isCtl {
			finishControl(c, r, name)
		}
	}
	R.Extra["sdf_primitives_decided"] = nForm
	R.Extra["sdf_operators_decided"] = nOp
	R.Floor("SDF-FORM", 5)
	R.Floor("SDF-OP", 3)
	R.Floor("SDF-DEP", 5)
	if os.Getenv("C19_DEBUG") != "" {
		for _, o := range R.Obs {
			fmt.Printf("  [%s] %-8s %-40s %s %s\n", o.Verdict, o.Rule, o.Construct, o.Msg, fmt.Sprint(o.Facts))
		}
	}
}

func controlTarget(name string) string {
	n := strings.TrimPrefix(name, "verifControl")
	for _, suf := range []string{"Bad", "Good"} {
		if i := strings.Index(n, suf); i > 0 {
			return n[:i]
		}
	}
	return n
}

func finishControl(c *props.Ctx, r *rec, name string) {
	got := ob.Holds
	if r.bad > 0 || r.holds == 0 {
		got = ob.Violation
	}
	want := ob.Holds
	msg := "accepted idiom must stay silent"
	if strings.Contains(name, "Bad") {
		want = ob.Violation
		msg = "seeded defect must be reported"
	}
	if len(r.msgs) > 0 {
		m := r.msgs[0]
		if len(m) > 220 {
			m = m[:220] + "…"
		}
		msg += ": " + m
	}
	rule := "SDF-FORM"
	if t := controlTarget(name); references[t] == nil {
		rule = "SDF-OP"
	}
	c.R.Control(rule, "control:"+name, "math/sdf/zz_verif_control_c19.go", got, want, msg)
}

// ---------------------------------------------------------------- primitives

func short(s string, n int) string {
	if len(s) > n {
		return s[:n] + "…"
	}
	return s
}

func condKeys(as []c17.Atom) string {
	var s []string
	for _, a := range as {
		s = append(s, a.Key())
	}
	if len(s) == 0 {
		return "(always)"
	}
	return strings.Join(s, " ∧ ")
}

func (k *checker) primitive(r *rec, fn *ssa.Function, ref *reference) bool {
	P := k.c.P
	s := k.s
	e := s.Engine()
	construct := P.FuncName(fn)
	pos := P.Pos(fn.Pos())
	// symbolic parameters by kind, in signature order
	var sh shape
	args := make([]c17.Val, len(fn.Params))
	var paramLeaves []string
	for i, p := range fn.Params {
		args[i] = e.Sym(p.Name(), p.Type())
		switch {
		case isVec3(p.Type()):
			l := c17.Leaves(args[i])
			if len(l) != 3 {
				r.undecide("SDF-FORM", construct, pos, "a vector parameter is not a 3-component value")
				return false
			}
			sh.vecs = append(sh.vecs, l)
		case isFloat(p.Type()):
			sh.floats = append(sh.floats, args[i].(c17.Scalar))
		default:
			r.undecide("SDF-FORM", construct, pos, "parameter "+p.Name()+" is neither a vector3 nor a float: the published form has no such parameter")
			return false
		}
		for _, l := range c17.Leaves(args[i]) {
			paramLeaves = append(paramLeaves, s.Key(l))
		}
	}
	if len(sh.vecs) != ref.nVec || len(sh.floats) != ref.nFloat {
		r.undecide("SDF-FORM", construct, pos, fmt.Sprintf("the constructor takes %d vectors and %d scalars, the published form (%s) %d and %d", len(sh.vecs), len(sh.floats), ref.source, ref.nVec, ref.nFloat))
		return false
	}
	sample := e.Sym("sample", k.vec3Type(fn))
	sh.p = c17.Leaves(sample)
	if ref.assume != nil {
		ref.assume(k.o, sh)
	}
	res := s.RunThen(fn, args, []c17.Val{sample})
	if prob := res.Problem(); prob != "" {
		r.undecide("SDF-FORM", construct, pos, "the engine cannot follow the function: "+prob)
		return false
	}
	type codePath struct {
		conds []c17.Atom
		val   c17.Scalar
	}
	var paths []codePath
	for _, p := range res.Paths {
		switch p.Kind {
		case c17.EndReturn:
			if len(p.Ret) != 1 {
				r.undecide("SDF-FORM", construct, pos, "a path does not return one value")
				return false
			}
			v, ok := p.Ret[0].(c17.Scalar)
			if !ok {
				r.undecide("SDF-FORM", construct, pos, "a path returns a value the engine does not track as a number")
				return false
			}
			if len(p.Notes) > 0 {
				r.undecide("SDF-FORM", construct, pos, p.Notes[0])
				return false
			}
			paths = append(paths, codePath{p.Conds, v})
		case c17.EndLoopBack:
			r.undecide("SDF-FORM", construct, pos, "the distance function loops")
			return false
		}
	}
	if len(paths) == 0 {
		r.undecide("SDF-FORM", construct, pos, "no returning path")
		return false
	}
	// compare against the published form, then against the known deviations
	contra := map[string]bool{}
	contradict := func(a, b c17.Atom) bool {
		key := a.Key() + "\x00" + b.Key()
		if v, ok := contra[key]; ok {
			return v
		}
		v := s.Contradict(a, b)
		contra[key] = v
		return v
	}
	equal := map[string]bool{}
	same := func(a, b c17.Scalar) bool {
		key := s.Key(a) + "\x00" + s.Key(b)
		if v, ok := equal[key]; ok {
			return v
		}
		v := s.Equal(a, b)
		equal[key] = v
		return v
	}
	compare := func(rf func(o ops, sh shape, ch *chooser) c17.Scalar) (pairs int, mismatch string, foreign string) {
		cases := enumerate(s, func(ch *chooser) c17.Scalar { return rf(k.o, sh, ch) })
		vocab := map[string]bool{}
		for _, rc := range cases {
			for _, a := range rc.conds {
				vocab[a.Key()] = true
				vocab[a.NegKey()] = true
			}
		}
		for _, cp := range paths {
			for _, rc := range cases {
				compat := true
				for _, a := range cp.conds {
					for _, b := range rc.conds {
						if contradict(a, b) {
							compat = false
						}
					}
				}
				if !compat {
					continue
				}
				pairs++
				if !same(cp.val, rc.val) && mismatch == "" {
					mismatch = fmt.Sprintf("where %s the code returns %s; the published form (case %s) is %s", condKeys(cp.conds), short(s.Show(cp.val, 6), 260), condKeys(rc.conds), short(s.Show(rc.val, 6), 260))
					for _, a := range cp.conds {
						if !vocab[a.Key()] {
							foreign = a.Key()
						}
					}
				}
			}
		}
		return
	}
	pairs, mismatch, foreign := compare(ref.ref)
	okForm := false
	switch {
	case mismatch == "":
		okForm = true
		r.hold("SDF-FORM", construct, pos, ref.source+": "+ref.formula, fmt.Sprintf("%d code path(s) × reference cases: %d compatible pairs, all equal as polynomial / rational identities", len(paths), pairs), "e.g. "+short(s.Show(paths[0].val, 5), 200))
	default:
		reported := false
		for _, v := range ref.variants {
			if np, mm, _ := compare(v.ref); mm == "" && v.accepted {
				okForm = true
				r.hold("SDF-FORM", construct, pos, v.msg, fmt.Sprintf("%d code path(s) × reference cases: %d compatible pairs, all equal as polynomial / rational identities (accepted alternative of %s)", len(paths), np, ref.source))
				reported = true
				break
			} else if mm == "" {
				r.violate("SDF-FORM", construct, pos, "the code does not compute the published form ("+ref.source+": "+ref.formula+"): "+v.msg)
				reported = true
				break
			}
		}
		if !reported {
			if foreign != "" {
				r.undecide("SDF-FORM", construct, pos, "the code branches on "+short(foreign, 160)+", a condition the published form ("+ref.source+") does not use; "+short(mismatch, 400))
			} else {
				r.violate("SDF-FORM", construct, pos, "the code does not compute the published form ("+ref.source+": "+ref.formula+"): "+mismatch)
			}
		}
	}
	// SDF-DEP: every parameter component and every sample component reaches some returned value
	reach := map[string]bool{}
	for _, cp := range paths {
		for _, n := range s.DepNames(cp.val) {
			reach[n] = true
		}
	}
	var missing []string
	for _, n := range paramLeaves {
		if !reach[n] {
			missing = append(missing, n)
		}
	}
	for _, l := range sh.p {
		if n := s.Key(l); !reach[n] {
			missing = append(missing, n)
		}
	}
	if len(missing) > 0 {
		r.violate("SDF-DEP", construct, pos, "the distance never depends on "+strings.Join(missing, ", "))
	} else {
		r.hold("SDF-DEP", construct, pos, fmt.Sprintf("all %d parameter components and sample.x, sample.y, sample.z reach the result", len(paramLeaves)))
	}
	return okForm
}

// vec3Type finds the vector3 type (the parameter type of the returned field).
func (k *checker) vec3Type(fn *ssa.Function) types.Type {
	sig := fn.Signature.Results().At(0).Type().Underlying().(*types.Signature)
	return sig.Params().At(0).Type()
}
