package c19

func controls() map[string]string {
	return map[string]string{
		"math/sdf/zz_verif_control_c19.go": `package sdf

import (
	"math"

	"github.com/EliCDavis/polyform/math/sample"
	"github.com/EliCDavis/vector/vector3"
)

// must fire (SDF-FORM): the interior term min(max(q.x,q.y,q.z),0) is dropped — inside the box the distance is 0 instead of negative
func verifControlBoxBad(position, bounds vector3.Float64) sample.Vec3ToFloat {
	halfBounds := bounds.Scale(0.5)
	return func(v vector3.Float64) float64 {
		q := v.Sub(position).Abs().Sub(halfBounds)
		return vector3.Max(q, vector3.Zero[float64]()).Length()
	}
}

// must stay silent (SDF-FORM): the same box written component by component, offset computed the other way round
func verifControlBoxGood(position, bounds vector3.Float64) sample.Vec3ToFloat {
	return func(v vector3.Float64) float64 {
		qx := math.Abs(position.X()-v.X()) - bounds.X()/2
		qy := math.Abs(position.Y()-v.Y()) - 0.5*bounds.Y()
		qz := math.Abs(v.Z()-position.Z()) - bounds.Z()*0.5
		ox, oy, oz := math.Max(0, qx), math.Max(qy, 0), math.Max(qz, 0)
		outside := math.Sqrt(ox*ox + oy*oy + oz*oz)
		inside := math.Min(0, math.Max(math.Max(qx, qy), qz))
		return inside + outside
	}
}

// must fire (SDF-OP): the last field is never consulted
func verifControlUnionBad(fields ...sample.Vec3ToFloat) sample.Vec3ToFloat {
	return func(v vector3.Float64) float64 {
		min := fields[0](v)
		for i := 1; i < len(fields)-1; i++ {
			min = math.Min(min, fields[i](v))
		}
		return min
	}
}

// must stay silent (SDF-OP): range loop from +Inf, no fast paths
func verifControlUnionGood(fields ...sample.Vec3ToFloat) sample.Vec3ToFloat {
	return func(v vector3.Float64) float64 {
		best := math.Inf(1)
		for _, f := range fields {
			best = math.Min(f(v), best)
		}
		return best
	}
}

// must fire (SDF-OP): the shape moves by −t
func verifControlTranslateBad(field sample.Vec3ToFloat, translation vector3.Float64) sample.Vec3ToFloat {
	return func(v vector3.Float64) float64 {
		return field(v.Add(translation))
	}
}

// must stay silent (SDF-OP): the same translation written per component
func verifControlTranslateGood(field sample.Vec3ToFloat, translation vector3.Float64) sample.Vec3ToFloat {
	return func(v vector3.Float64) float64 {
		moved := vector3.New(v.X()-translation.X(), v.Y()-translation.Y(), v.Z()-translation.Z())
		return field(moved)
	}
}
`,
	}
}
