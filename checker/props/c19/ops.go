package c19

// SDF-OP: Union / Intersect = min / max over all fields, Subtract = max(a, −b), Translate = f(p − t).

import (
	"fmt"
	"go/token"
	"go/types"
	"strings"

	"golang.org/x/tools/go/ssa"

	"polycheck/props/c17"
)

func (k *checker) operator(r *rec, fn *ssa.Function, key string) bool {
	switch key {
	case "Union":
		return k.fold(r, fn, "min", "Union(f…)(p) = min over all fᵢ(p)")
	case "Intersect":
		return k.fold(r, fn, "max", "Intersect(f…)(p) = max over all fᵢ(p)")
	case "Subtract":
		return k.subtract(r, fn)
	case "Translate":
		return k.translate(r, fn)
	}
	if !r.ctl {
		k.c.R.Note("%s.%s combines fields but is none of the operators the property names; not decided", sdfRel, fn.Name())
	}
	return false
}

func (k *checker) symArgs(fn *ssa.Function) ([]c17.Val, c17.Val, []c17.Scalar) {
	e := k.s.Engine()
	args := make([]c17.Val, len(fn.Params))
	for i, p := range fn.Params {
		args[i] = e.Sym(p.Name(), p.Type())
	}
	sample := e.Sym("sample", k.vec3Type(fn))
	return args, sample, c17.Leaves(sample)
}

// returned collects (conditions, value) of the returning paths; "" problem means usable.
func (k *checker) returned(res *c17.Result) ([]*c17.Path, string) {
	if prob := res.Problem(); prob != "" {
		return nil, prob
	}
	var out []*c17.Path
	for _, p := range res.Paths {
		if p.Kind == c17.EndReturn {
			if len(p.Ret) != 1 {
				return nil, "a path does not return one value"
			}
			if _, ok := p.Ret[0].(c17.Scalar); !ok {
				return nil, "a path returns a value the engine does not track as a number"
			}
			out = append(out, p)
		}
	}
	if len(out) == 0 {
		return nil, "no returning path"
	}
	return out, ""
}

func (k *checker) sampleDeps(r *rec, construct, pos string, paths []*c17.Path, pv []c17.Scalar, extra ...c17.Scalar) {
	s := k.s
	reach := map[string]bool{}
	for _, x := range extra {
		for _, n := range s.DepNames(x) {
			reach[n] = true
		}
	}
	for _, p := range paths {
		for _, n := range s.DepNames(p.Ret[0].(c17.Scalar)) {
			reach[n] = true
		}
	}
	var missing []string
	for _, l := range pv {
		if !reach[s.Key(l)] {
			missing = append(missing, s.Key(l))
		}
	}
	if len(missing) > 0 {
		r.violate("SDF-DEP", construct, pos, "the combined field never depends on "+strings.Join(missing, ", "))
	} else {
		r.hold("SDF-DEP", construct, pos, "sample.x, sample.y, sample.z reach the result on the returning paths")
	}
}

func (k *checker) subtract(r *rec, fn *ssa.Function) bool {
	P := k.c.P
	s := k.s
	construct, pos := P.FuncName(fn), P.Pos(fn.Pos())
	if len(fn.Params) != 2 {
		r.undecide("SDF-OP", construct, pos, "Subtract does not take (base, subtraction)")
		return false
	}
	args, sample, pv := k.symArgs(fn)
	paths, prob := k.returned(s.RunThen(fn, args, []c17.Val{sample}))
	if prob != "" {
		r.undecide("SDF-OP", construct, pos, prob)
		return false
	}
	a := s.Apply(fn.Params[0].Name(), pv)
	b := s.Apply(fn.Params[1].Name(), pv)
	want := k.o.max(a, k.o.neg(b))
	for _, p := range paths {
		if got := p.Ret[0].(c17.Scalar); !s.Equal(got, want) {
			r.violate("SDF-OP", construct, pos, fmt.Sprintf("Subtract(%s, %s)(p) is %s; removing the second shape from the first needs max(%s(p), −%s(p)) = %s", fn.Params[0].Name(), fn.Params[1].Name(), short(s.Show(got, 4), 200), fn.Params[0].Name(), fn.Params[1].Name(), short(s.Show(want, 4), 200)))
			return false
		}
	}
	r.hold("SDF-OP", construct, pos, "Subtract(a,b)(p) = max(a(p), −b(p))", short(s.Show(want, 4), 200))
	k.sampleDeps(r, construct, pos, paths, pv)
	return true
}

func (k *checker) translate(r *rec, fn *ssa.Function) bool {
	P := k.c.P
	s := k.s
	construct, pos := P.FuncName(fn), P.Pos(fn.Pos())
	var field *ssa.Parameter
	var off []c17.Scalar
	args, sample, pv := k.symArgs(fn)
	for i, p := range fn.Params {
		switch {
		case isFieldType(p.Type()):
			field = p
		case isVec3(p.Type()):
			off = c17.Leaves(args[i])
		}
	}
	if field == nil || len(off) != 3 || len(fn.Params) != 2 {
		r.undecide("SDF-OP", construct, pos, "Translate does not take (field, offset vector)")
		return false
	}
	paths, prob := k.returned(s.RunThen(fn, args, []c17.Val{sample}))
	if prob != "" {
		r.undecide("SDF-OP", construct, pos, prob)
		return false
	}
	want := s.Apply(field.Name(), k.o.vsub(pv, off))
	for _, p := range paths {
		got := p.Ret[0].(c17.Scalar)
		if !s.Equal(got, want) {
			r.violate("SDF-OP", construct, pos, fmt.Sprintf("Translate(f,t)(p) is %s; moving the shape BY t needs f(p − t) = %s", short(s.Show(got, 4), 220), short(s.Show(want, 4), 220)))
			return false
		}
	}
	r.hold("SDF-OP", construct, pos, "Translate(f,t)(p) = f(p − t)", short(s.Show(want, 4), 220))
	// SDF-DEP: sample and offset reach the argument of f
	reach := map[string]bool{}
	for _, p := range paths {
		for _, n := range s.DepNames(p.Ret[0].(c17.Scalar)) {
			reach[n] = true
		}
	}
	var missing []string
	for _, l := range append(append([]c17.Scalar{}, pv...), off...) {
		if !reach[s.Key(l)] {
			missing = append(missing, s.Key(l))
		}
	}
	if len(missing) > 0 {
		r.violate("SDF-DEP", construct, pos, "the translated field never depends on "+strings.Join(missing, ", "))
	} else {
		r.hold("SDF-DEP", construct, pos, "all components of the sample and of the offset reach the argument of the field")
	}
	return true
}

// fold decides Union / Intersect: op over every field of the variadic slice.
func (k *checker) fold(r *rec, fn *ssa.Function, op, law string) bool {
	P := k.c.P
	s := k.s
	e := s.Engine()
	construct, pos := P.FuncName(fn), P.Pos(fn.Pos())
	if len(fn.Params) != 1 {
		r.undecide("SDF-OP", construct, pos, "the operator does not take one variadic list of fields")
		return false
	}
	if sl, ok := fn.Params[0].Type().Underlying().(*types.Slice); !ok || !isFieldType(sl.Elem()) {
		r.undecide("SDF-OP", construct, pos, "the operator does not take a list of fields")
		return false
	}
	args, sample, pv := k.symArgs(fn)
	n, _ := c17.LenOf(args[0])
	sid := c17.SliceID(args[0])
	res := s.RunThen(fn, args, []c17.Val{sample})
	paths, prob := k.returned(res)
	if prob != "" {
		r.undecide("SDF-OP", construct, pos, prob)
		return false
	}
	for _, p := range res.Paths {
		for _, ex := range p.LoopExits {
			if ex.From != ex.Entry.Header {
				r.violate("SDF-OP", construct, pos, law+": the loop over the fields can be left early: the fields after that point are ignored")
				return false
			}
		}
	}
	F := func(i int64) c17.Scalar { return s.Apply(fmt.Sprintf("elem(%s)[%d]", sid, i), pv) }
	many := func(cnt int64) c17.Scalar {
		var xs []c17.Scalar
		for i := int64(0); i < cnt; i++ {
			xs = append(xs, F(i))
		}
		return e.MinMax(op, xs)
	}
	var facts []string
	var folded []c17.Scalar
	generic := 0
	for _, p := range paths {
		got := p.Ret[0].(c17.Scalar)
		// which count does this path stand for?
		fixed := int64(-1)
		for cnt := int64(0); cnt <= 6; cnt++ {
			at := e.CmpAtom(token.EQL, n, s.Const(cnt))
			for _, c := range p.Conds {
				if c.Key() == at.Atom().Key() {
					fixed = cnt
				}
			}
		}
		if fixed >= 0 {
			if fixed == 0 {
				r.violate("SDF-OP", construct, pos, law+": with no field at all the operator returns "+short(s.Show(got, 3), 120))
				return false
			}
			want := many(fixed)
			if !s.Equal(got, want) {
				r.violate("SDF-OP", construct, pos, fmt.Sprintf("%s: with %d field(s) the operator returns %s, not %s", law, fixed, short(s.Show(got, 4), 220), short(s.Show(want, 4), 220)))
				return false
			}
			facts = append(facts, fmt.Sprintf("%d field(s): %s", fixed, short(s.Show(want, 4), 120)))
			continue
		}
		// the n-ary path: the value is a loop-carried accumulator
		generic++
		syms := s.Symbols(got)
		var acc *c17.SymDesc
		for i := range syms {
			if syms[i].Kind == c17.SymLoop {
				acc = &syms[i]
			}
		}
		if acc == nil || !s.IsSymbol(got, *acc) {
			r.undecide("SDF-OP", construct, pos, law+": for an arbitrary number of fields the operator returns "+short(s.Show(got, 4), 200)+", which is not a value accumulated by a loop over the fields")
			return false
		}
		iters := c17.IterationPaths(res, acc.Root)
		if len(iters) == 0 {
			r.undecide("SDF-OP", construct, pos, "no complete iteration of the accumulating loop could be followed")
			return false
		}
		var idxKey string
		for _, it := range iters {
			// next value of the accumulator
			var next, init c17.Scalar
			found := false
			for j, hv := range it.Iter.Entry.Havoc {
				if hs, ok := hv.(c17.Scalar); ok && s.IsSymbol(hs, *acc) {
					nx, ok1 := it.Iter.Next[j].(c17.Scalar)
					in, ok2 := it.Iter.Entry.Init[j].(c17.Scalar)
					if ok1 && ok2 {
						next, init, found = nx, in, true
					}
				}
			}
			if !found {
				r.undecide("SDF-OP", construct, pos, "the accumulator is not a scalar the engine tracks")
				return false
			}
			folded = append(folded, next, init)
			// next = op(acc, f_idx(sample))
			opName, opArgs, isApp := s.AppOf(next)
			if !isApp || opName != op || len(opArgs) != 2 {
				r.violate("SDF-OP", construct, pos, fmt.Sprintf("%s: one iteration turns the accumulator into %s, not %s(accumulator, fᵢ(p))", law, short(s.Show(next, 4), 200), op))
				return false
			}
			var call *c17.Scalar
			self := false
			for i := range opArgs {
				if s.IsSymbol(opArgs[i], *acc) {
					self = true
				} else {
					call = &opArgs[i]
				}
			}
			if !self || call == nil {
				r.violate("SDF-OP", construct, pos, law+": one iteration does not combine the accumulator with a field value: "+short(s.Show(next, 4), 200))
				return false
			}
			cop, cargs, isCall := s.AppOf(*call)
			prefix := "call:dyn:elem(" + sid + ")["
			if !isCall || !strings.HasPrefix(cop, prefix) || !strings.HasSuffix(cop, "]") {
				r.violate("SDF-OP", construct, pos, law+": one iteration combines the accumulator with "+short(s.Show(*call, 3), 160)+", not with a field of the list applied to the sample")
				return false
			}
			if len(cargs) != 3 || !s.Equal(cargs[0], pv[0]) || !s.Equal(cargs[1], pv[1]) || !s.Equal(cargs[2], pv[2]) {
				r.violate("SDF-OP", construct, pos, law+": the fields are not evaluated at the sample point itself")
				return false
			}
			idxKey = strings.TrimSuffix(strings.TrimPrefix(cop, prefix), "]")
			idx, ok := s.IndexFromKey(it, idxKey)
			if !ok {
				r.undecide("SDF-OP", construct, pos, "the field combined in one iteration, ["+idxKey+"], is not [loop counter]")
				return false
			}
			ind, why := s.InductionOf(res, it, idx, n)
			if why != "" {
				r.undecide("SDF-OP", construct, pos, why)
				return false
			}
			if ind.EarlyExit {
				r.violate("SDF-OP", construct, pos, law+": the loop over the fields can be left early: later fields are ignored")
				return false
			}
			if ind.Step != 1 || !ind.GuardOK {
				r.violate("SDF-OP", construct, pos, fmt.Sprintf("%s: the loop over the fields advances by %d while %s; covering every field needs step 1 while index < len(fields): some field is skipped", law, ind.Step, ind.Guard))
				return false
			}
			first, isC := s.ConstSign(ind.First)
			firstIsZero := isC && first == 0
			firstIsOne := s.Equal(ind.First, s.Const(1))
			// the accumulator starts from field 0 (then the loop may start at 1) or from a neutral constant
			switch {
			case s.Equal(init, F(0)):
				if !firstIsZero && !firstIsOne {
					r.violate("SDF-OP", construct, pos, fmt.Sprintf("%s: the accumulator starts from field 0 and the loop from field %s: the fields in between are skipped", law, s.Show(ind.First, 2)))
					return false
				}
			case k.neutral(op, init):
				if !firstIsZero {
					r.violate("SDF-OP", construct, pos, fmt.Sprintf("%s: the loop starts at field %s: field 0 is skipped", law, s.Show(ind.First, 2)))
					return false
				}
			default:
				r.violate("SDF-OP", construct, pos, fmt.Sprintf("%s: the accumulator starts from %s, which is neither field 0 nor a neutral constant of %s", law, short(s.Show(init, 3), 160), op))
				return false
			}
			facts = append(facts, fmt.Sprintf("n fields: accumulator from %s, then %s(acc, f[%s](p)) for every index from %s while index < len(fields), step 1, no early exit", short(s.Show(init, 2), 60), op, idxKey, s.Show(ind.First, 2)))
		}
	}
	if generic == 0 {
		r.undecide("SDF-OP", construct, pos, law+": no path handles an arbitrary number of fields")
		return false
	}
	r.hold("SDF-OP", construct, pos, append([]string{law}, facts...)...)
	k.sampleDeps(r, construct, pos, paths, pv, folded...)
	return true
}

// neutral: +Inf / MaxFloat64 for min, −Inf / −MaxFloat64 for max.
func (k *checker) neutral(op string, init c17.Scalar) bool {
	s := k.s
	want := int64(1)
	if op == "max" {
		want = -1
	}
	if s.Equal(init, s.Inf(want)) {
		return true
	}
	// a finite constant is neutral only if it is ±MaxFloat64
	return s.IsMaxFloat(init, want)
}
