package c19

// Published closed forms (Inigo Quilez, "distance functions", iquilezles.org/articles/distfunctions
// and shadertoy tdXGWr for the round cone), written over the engine's operators. They are the
// trusted base of the claim: sign exactness, zero on the surface, the Lipschitz bound and
// Euclidean exactness are properties of these forms, not of the repository.

import (
	"go/token"

	"polycheck/props/c17"
)

// chooser enumerates the cases of a piecewise reference the way the engine enumerates paths.
type chooser struct {
	s     *c17.Session
	dec   []bool
	pos   int
	conds []c17.Atom
}

func (ch *chooser) decide(b c17.BoolV) bool {
	if isC, v := b.Const(); isC {
		return v
	}
	at := b.Atom()
	for _, c := range ch.conds {
		if c.Key() == at.Key() {
			return true
		}
		if c.Key() == at.NegKey() || ch.s.Contradict(c, at) {
			return false
		}
		if ch.s.Contradict(c, at.Not()) {
			return true
		}
	}
	var d bool
	if ch.pos < len(ch.dec) {
		d = ch.dec[ch.pos]
	} else {
		d = true
		ch.dec = append(ch.dec, true)
	}
	ch.pos++
	if d {
		ch.conds = append(ch.conds, at)
	} else {
		ch.conds = append(ch.conds, at.Not())
	}
	return d
}

type refCase struct {
	conds []c17.Atom
	val   c17.Scalar
}

func enumerate(s *c17.Session, ref func(ch *chooser) c17.Scalar) []refCase {
	var out []refCase
	var prefix []bool
	for n := 0; n < 512; n++ {
		ch := &chooser{s: s, dec: append([]bool(nil), prefix...)}
		v := ref(ch)
		out = append(out, refCase{conds: ch.conds, val: v})
		d := ch.dec
		for len(d) > 0 && !d[len(d)-1] {
			d = d[:len(d)-1]
		}
		if len(d) == 0 {
			break
		}
		d[len(d)-1] = false
		prefix = d
	}
	return out
}

// ops bundles the scalar operators used by the references.
type ops struct {
	s *c17.Session
	e *c17.Engine
}

func (o ops) k(n int64) c17.Scalar           { return o.s.Const(n) }
func (o ops) add(a, b c17.Scalar) c17.Scalar { return o.e.Add(a, b) }
func (o ops) sub(a, b c17.Scalar) c17.Scalar { return o.e.Sub(a, b) }
func (o ops) mul(a, b c17.Scalar) c17.Scalar { return o.e.Mul(a, b) }
func (o ops) neg(a c17.Scalar) c17.Scalar    { return o.e.Sub(o.k(0), a) }
func (o ops) sqrt(a c17.Scalar) c17.Scalar   { return o.e.Sqrt(a) }
func (o ops) abs(a c17.Scalar) c17.Scalar    { return o.e.Abs(a) }
func (o ops) min(a ...c17.Scalar) c17.Scalar { return o.e.MinMax("min", a) }
func (o ops) max(a ...c17.Scalar) c17.Scalar { return o.e.MinMax("max", a) }
func (o ops) half(a c17.Scalar) c17.Scalar   { return o.e.Mul(a, o.s.Half()) }
func (o ops) div(a, b c17.Scalar) c17.Scalar { q, _ := o.e.Div(a, b); return q }
func (o ops) dot(a, b []c17.Scalar) c17.Scalar {
	s := o.k(0)
	for i := range a {
		s = o.add(s, o.mul(a[i], b[i]))
	}
	return s
}
func (o ops) vsub(a, b []c17.Scalar) []c17.Scalar {
	out := make([]c17.Scalar, len(a))
	for i := range a {
		out[i] = o.sub(a[i], b[i])
	}
	return out
}
func (o ops) vscale(a []c17.Scalar, k c17.Scalar) []c17.Scalar {
	out := make([]c17.Scalar, len(a))
	for i := range a {
		out[i] = o.mul(a[i], k)
	}
	return out
}

// sign(x) as a case split: x > 0 -> 1, x < 0 -> -1, else 0.
func (o ops) sign(ch *chooser, x c17.Scalar) c17.Scalar {
	if ch.decide(o.e.CmpAtom(token.GTR, x, o.k(0))) {
		return o.k(1)
	}
	if ch.decide(o.e.CmpAtom(token.LSS, x, o.k(0))) {
		return o.k(-1)
	}
	return o.k(0)
}

// shape: the symbolic parameters of a constructor sorted by kind, in signature order.
type shape struct {
	vecs   [][]c17.Scalar
	floats []c17.Scalar
	p      []c17.Scalar // sample point
}

type reference struct {
	name    string
	source  string
	nVec    int
	nFloat  int
	formula string
	// assume registers the positivity assumptions of the shape (non-degenerate segment, …)
	assume func(o ops, sh shape)
	ref    func(o ops, sh shape, ch *chooser) c17.Scalar
	// variants: known deviations from the published form, each with the message to report
	variants []variant
}

type variant struct {
	// accepted: an alternative published form that satisfies the property equally (holds, with the form named)
	accepted bool
	msg string
	ref func(o ops, sh shape, ch *chooser) c17.Scalar
}

func boxForm(o ops, c, b, p []c17.Scalar, shrink c17.Scalar) c17.Scalar {
	q := make([]c17.Scalar, 3)
	sum := o.k(0)
	for i := 0; i < 3; i++ {
		q[i] = o.add(o.sub(o.abs(o.sub(p[i], c[i])), o.half(b[i])), shrink)
		m := o.max(q[i], o.k(0))
		sum = o.add(sum, o.mul(m, m))
	}
	return o.add(o.sqrt(sum), o.min(o.max(q[0], q[1], q[2]), o.k(0)))
}

func segLen2(o ops, sh shape) c17.Scalar {
	ba := o.vsub(sh.vecs[1], sh.vecs[0])
	return o.dot(ba, ba)
}

var references = map[string]*reference{
	"Sphere": {name: "Sphere", source: "Quilez, Sphere - exact", nVec: 1, nFloat: 1,
		formula: "|p − c| − r",
		ref: func(o ops, sh shape, ch *chooser) c17.Scalar {
			d := o.vsub(sh.p, sh.vecs[0])
			return o.sub(o.sqrt(o.dot(d, d)), sh.floats[0])
		}},
	"Box": {name: "Box", source: "Quilez, Box - exact", nVec: 2, nFloat: 0,
		formula: "q = |p − c| − b/2; length(max(q,0)) + min(max(q.x,q.y,q.z),0)",
		ref: func(o ops, sh shape, ch *chooser) c17.Scalar {
			return boxForm(o, sh.vecs[0], sh.vecs[1], sh.p, o.k(0))
		}},
	"RoundedBox": {name: "RoundedBox", source: "Quilez, Round Box - exact", nVec: 2, nFloat: 1,
		formula: "q = |p − c| − b/2 + r; length(max(q,0)) + min(max(q.x,q.y,q.z),0) − r",
		ref: func(o ops, sh shape, ch *chooser) c17.Scalar {
			return o.sub(boxForm(o, sh.vecs[0], sh.vecs[1], sh.p, sh.floats[0]), sh.floats[0])
		},
		variants: []variant{{
			// The property asks that the function be negative exactly inside "its shape", zero on the surface and
			// 1-Lipschitz; it does not fix whether `bounds` is the outer size or the size of the core box. Quilez
			// published both: first sdBox(p,b) − r (the box offset outwards by r, what the repository computes),
			// later the form with b − r (outer size b). Both are exact distance functions of a rounded box.
			accepted: true,
			msg:      "Quilez, Round Box (offset form): q = |p − c| − b/2; length(max(q,0)) + min(max(q.x,q.y,q.z),0) − r — the box of the given bounds offset outwards by r",
			ref: func(o ops, sh shape, ch *chooser) c17.Scalar {
				return o.sub(boxForm(o, sh.vecs[0], sh.vecs[1], sh.p, o.k(0)), sh.floats[0])
			}}}},
	"Line": {name: "Line", source: "Quilez, Capsule / Line - exact", nVec: 2, nFloat: 1,
		formula: "pa = p − a, ba = b − a; h = clamp(pa·ba / ba·ba, 0, 1); |pa − ba·h| − r",
		assume:  func(o ops, sh shape) { o.e.AssumePositive(segLen2(o, sh)) },
		ref: func(o ops, sh shape, ch *chooser) c17.Scalar {
			a, b, r := sh.vecs[0], sh.vecs[1], sh.floats[0]
			pa := o.vsub(sh.p, a)
			ba := o.vsub(b, a)
			t := o.div(o.dot(pa, ba), o.dot(ba, ba))
			var h c17.Scalar
			switch {
			case ch.decide(o.e.CmpAtom(token.GEQ, t, o.k(1))):
				h = o.k(1)
			case ch.decide(o.e.CmpAtom(token.LEQ, t, o.k(0))):
				h = o.k(0)
			default:
				h = t
			}
			d := o.vsub(pa, o.vscale(ba, h))
			return o.sub(o.sqrt(o.dot(d, d)), r)
		}},
	"Plane": {name: "Plane", source: "Quilez, Plane - exact (n normalised by the caller)", nVec: 2, nFloat: 1,
		formula: "(p − o)·n + h",
		ref: func(o ops, sh shape, ch *chooser) c17.Scalar {
			return o.add(o.dot(o.vsub(sh.p, sh.vecs[0]), sh.vecs[1]), sh.floats[0])
		}},
	"RoundedCylinder": {name: "RoundedCylinder", source: "Quilez, Rounded Cylinder - exact", nVec: 1, nFloat: 3,
		formula: "d = (|p.xz| − 2·ra + rb, |p.y| − h); min(max(d.x,d.y),0) + length(max(d,0)) − rb",
		ref: func(o ops, sh shape, ch *chooser) c17.Scalar {
			ra, rb, h := sh.floats[0], sh.floats[1], sh.floats[2]
			p := o.vsub(sh.p, sh.vecs[0])
			dx := o.add(o.sub(o.sqrt(o.add(o.mul(p[0], p[0]), o.mul(p[2], p[2]))), o.mul(o.k(2), ra)), rb)
			dy := o.sub(o.abs(p[1]), h)
			mx, my := o.max(dx, o.k(0)), o.max(dy, o.k(0))
			return o.sub(o.add(o.min(o.max(dx, dy), o.k(0)), o.sqrt(o.add(o.mul(mx, mx), o.mul(my, my)))), rb)
		}},
	"RoundedCone": {name: "RoundedCone", source: "Quilez, Round Cone - exact (shadertoy tdXGWr)", nVec: 2, nFloat: 2,
		formula: "three branches on sign(z)·a2·z2 > k and sign(y)·a2·y2 < k, k = sign(rr)·rr²·x2",
		assume:  func(o ops, sh shape) { o.e.AssumePositive(segLen2(o, sh)) },
		ref: func(o ops, sh shape, ch *chooser) c17.Scalar {
			a, b, r1, r2 := sh.vecs[0], sh.vecs[1], sh.floats[0], sh.floats[1]
			ba := o.vsub(b, a)
			l2 := o.dot(ba, ba)
			rr := o.sub(r1, r2)
			a2 := o.sub(l2, o.mul(rr, rr))
			il2 := o.div(o.k(1), l2)
			pa := o.vsub(sh.p, a)
			y := o.dot(pa, ba)
			z := o.sub(y, l2)
			w := o.vsub(o.vscale(pa, l2), o.vscale(ba, y))
			x2 := o.dot(w, w)
			y2 := o.mul(o.mul(y, y), l2)
			z2 := o.mul(o.mul(z, z), l2)
			k := o.mul(o.mul(o.sign(ch, rr), o.mul(rr, rr)), x2)
			if ch.decide(o.e.CmpAtom(token.GTR, o.mul(o.mul(o.sign(ch, z), a2), z2), k)) {
				return o.sub(o.mul(o.sqrt(o.add(x2, z2)), il2), r2)
			}
			if ch.decide(o.e.CmpAtom(token.LSS, o.mul(o.mul(o.sign(ch, y), a2), y2), k)) {
				return o.sub(o.mul(o.sqrt(o.add(x2, y2)), il2), r1)
			}
			return o.sub(o.mul(o.add(o.sqrt(o.mul(o.mul(x2, a2), il2)), o.mul(y, rr)), il2), r1)
		}},
}
