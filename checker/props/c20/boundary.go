package c20

// DEL-HOLE, second half: "an edge of a collected triangle goes to the boundary exactly when no OTHER
// collected triangle has an edge with the same two ends in either order". Two idioms are recognised:
// a boolean accumulated over the other triangles and their edges (either polarity, optional early
// exits), and a search that leaves the loops (break / return from a helper) on the first match.

import (
	"fmt"
	"go/token"
	"strings"

	"polycheck/props/c17"
)

func (pp *pipe) sharedSearch(cons, pos string, pas []polyEvent, hasApp map[*c17.Path]bool, LE, ES1, BL1 string, blLen, tiIdx c17.Scalar) {
	k, r := pp.k, pp.r
	und := func(msg string) { r.undecide("DEL-HOLE", cons, pos, msg) }
	bad := func(msg string) { r.violate("DEL-HOLE", cons, pos, msg) }
	pa := pas[0].p
	entLE := entryOf(pa, LE)
	// --- 1. an accumulated flag?
	flagKey, pol := "", false
	var LOent *c17.LoopEntry
	jO := -1
	for i, c := range pa.Conds {
		if i < entLE.CondIndex {
			continue
		}
		key := c.Key()
		bare := strings.TrimPrefix(key, "!")
		if !strings.HasPrefix(bare, "b:") {
			continue
		}
		name := strings.TrimPrefix(bare, "b:")
		for _, ent := range pa.Loops {
			if strings.HasPrefix(name, ent.ID+".") && (LOent == nil || len(ent.ID) > len(LOent.ID)) {
				for j, hv := range ent.Havoc {
					if hk, isC, _, ok := boolKey(hv); ok && !isC && hk == bare {
						LOent, jO, flagKey, pol = ent, j, bare, !strings.HasPrefix(key, "!")
					}
				}
			}
		}
	}
	flagged := jO >= 0
	LO := ""
	if flagged {
		LO = LOent.ID
	} else {
		li := loopIndex(pa, LE)
		if li < 0 || li+1 >= len(pa.Loops) {
			bad("every edge of every collected triangle is appended to the boundary, shared or not: edges between two collected triangles are interior to the hole and get a triangle each")
			return
		}
		LO = pa.Loops[li+1].ID
	}
	polKey := func(p bool) string {
		if p {
			return flagKey
		}
		return "!" + flagKey
	}
	hasCond := func(p *c17.Path, key string) bool {
		for _, c := range p.Conds {
			if c.Key() == key {
				return true
			}
		}
		return false
	}
	// --- 2. the appending paths have finished the search
	for _, a := range pas {
		p := a.p
		if flagged && !hasCond(p, polKey(pol)) {
			und("edges are appended to the boundary under different conditions")
			return
		}
		left, hdr := exited(p, LO)
		if loopIndex(p, LO) < 0 || !left {
			und("an edge is appended to the boundary on a path that does not run through the search over the other collected triangles")
			return
		}
		if !hdr {
			bad("an edge is appended to the boundary although the search through the other collected triangles was left early")
			return
		}
	}
	if flagged {
		if _, isC, v, ok := boolKey(LOent.Init[jO]); !ok || !isC || v != pol {
			bad(fmt.Sprintf("the flag that decides whether an edge belongs to the boundary starts as %s but an edge is appended when it is %v: before any other triangle was looked at the edge already counts as shared", k.s.Describe(LOent.Init[jO]), pol))
			return
		}
	}
	// --- 3. iterations of the edge loop that do not append: a match must have been recorded
	for _, it := range iterPaths(pp.res, LE) {
		if hasApp[it] {
			continue
		}
		left, hdr := exited(it, LO)
		okc := false
		switch {
		case flagged && hasCond(it, polKey(!pol)):
			okc = true
		case left && !hdr && !flagged:
			okc = true
		case left && !hdr:
			// the search was left early: the decision is taken on the flag of the inner loop
			li := loopIndex(it, LO)
			for _, c := range it.Conds {
				key := c.Key()
				bare := strings.TrimPrefix(key, "!")
				if strings.HasPrefix(key, "!") != pol || !strings.HasPrefix(bare, "b:") {
					continue
				}
				for q, ent := range it.Loops {
					if q > li && strings.HasPrefix(strings.TrimPrefix(bare, "b:"), ent.ID+".") {
						okc = true
					}
				}
			}
		}
		if !okc {
			bad("an edge is left out of the boundary although the search found no other collected triangle with it (" + short(lastConds(it, entryOf(it, LE), 2), 160) + ")")
			return
		}
	}
	// --- 4. one iteration over the other triangles
	LIN, jIN, inKey := "", -1, ""
	var skips []*c17.Path
	setLIN := func(id string, j int, key string) bool {
		if LIN != "" && (LIN != id || jIN != j) {
			und("the shared-edge search runs through more than one inner loop")
			return false
		}
		LIN, jIN, inKey = id, j, key
		return true
	}
	for _, it := range iterPaths(pp.res, LO) {
		li := loopIndex(it, LO)
		inner := ""
		if li >= 0 && li < len(it.Loops)-1 {
			inner = it.Loops[li+1].ID
		}
		if !flagged {
			if inner == "" {
				skips = append(skips, it)
				continue
			}
			if left, hdr := exited(it, inner); !left || !hdr {
				bad("the search goes on to the next collected triangle after leaving the loop over one triangle's edges early: the match that made it leave is forgotten")
				return
			}
			if !setLIN(inner, -1, "") {
				return
			}
			continue
		}
		nk, isC, v, ok := boolKey(it.Iter.Next[jO])
		switch {
		case !ok:
			und("the shared-edge flag becomes a value the engine does not track")
			return
		case isC && v == pol:
			bad("one iteration over the other collected triangles resets the shared-edge flag: an edge already found shared counts as boundary again")
			return
		case isC, nk == flagKey && inner != "":
			// set on this level after the inner search was left on a match, or unchanged after it ran to its end:
			// the inner loop carries no flag of its own
			if inner == "" {
				und("one iteration over the other collected triangles sets the shared-edge flag without looking at their edges in a loop")
				return
			}
			if !setLIN(inner, -1, "") {
				return
			}
		case nk == flagKey:
			skips = append(skips, it)
		default:
			name := strings.TrimPrefix(nk, "b:")
			found := false
			for _, ent := range it.Loops {
				if ent.ID == LO || !strings.HasPrefix(name, ent.ID+".") {
					continue
				}
				for j, hv := range ent.Havoc {
					if hk, c, _, ok := boolKey(hv); ok && !c && hk == nk {
						if !setLIN(ent.ID, j, nk) {
							return
						}
						found = true
						ik, ic, iv, iok := boolKey(ent.Init[j])
						if !iok || !((!ic && ik == flagKey) || (ic && iv == pol)) {
							bad("the search through the edges of another collected triangle starts with the flag " + k.s.Describe(ent.Init[j]) + " instead of its current value: what was found for earlier triangles is forgotten")
							return
						}
					}
				}
			}
			if !found {
				und("after one iteration over the other collected triangles the shared-edge flag is " + short(nk, 80) + ", which is not a flag accumulated by an inner loop")
				return
			}
		}
	}
	if LIN == "" {
		und("no loop over the edges of the other collected triangles was found inside the search (recognised: for other triangle { for its edges { if same edge { flag = … / break / return } } })")
		return
	}
	// --- 5. the other triangle and its edges
	innerPaths := append(append([]*c17.Path(nil), iterPaths(pp.res, LIN)...), earlyExitPaths(pp.res, LIN)...)
	var ES2, j2 string
	var o [2]*c17.SymDesc
	for _, it := range innerPaths {
		ent := entryOf(it, LIN)
		for i, c := range it.Conds {
			if i < ent.CondIndex {
				continue
			}
			ds, ok := k.s.AtomSymbols(c)
			if !ok {
				continue
			}
			for q := range ds {
				d := ds[q]
				if d.Kind != c17.SymElem || d.Slice == ES1 {
					continue
				}
				comp := strings.TrimPrefix(d.Name, "elem("+d.Slice+")["+d.Idx+"]")
				if comp != "[0]" && comp != "[1]" {
					continue
				}
				if ES2 != "" && (ES2 != d.Slice || j2 != d.Idx) {
					und("the edge is compared with entries of more than one other edge list")
					return
				}
				ES2, j2 = d.Slice, d.Idx
				if comp == "[0]" {
					o[0] = &d
				} else {
					o[1] = &d
				}
			}
		}
	}
	if ES2 == "" || o[0] == nil || o[1] == nil {
		bad("the edge is not compared with both ends of the edges of the other collected triangles")
		return
	}
	BL2, otiKey, why := pp.edgesOf(ES2)
	if why != "" {
		if strings.Contains(why, "does not contain") || strings.Contains(why, "with itself") || strings.Contains(why, "not 3") {
			bad(why)
		} else {
			und(why)
		}
		return
	}
	if BL2 != BL1 {
		bad("the edge is compared with the triangles of " + BL2 + ", not with the other collected triangles " + BL1)
		return
	}
	otiIdx, LOidx, ok := pp.idxOf(otiKey)
	if !ok || LOidx != LO {
		und("the other collected triangle, [" + short(otiKey, 60) + "], is not indexed by the counter of the loop that searches")
		return
	}
	for _, lp := range []struct {
		id, key, what string
		bound         c17.Scalar
	}{{LO, otiKey, "other collected triangles", blLen}, {LIN, j2, "edges of the other collected triangle", k.num(3)}} {
		if why, isBad := k.fullRange(pp.res, lp.id, lp.key, lp.bound); why != "" {
			if isBad {
				bad("the search through the " + lp.what + " does not visit all of them: " + why + " — an edge shared with a skipped one is taken for boundary")
			} else {
				und("the search through the " + lp.what + ": " + why)
			}
			return
		}
	}
	neqB := k.e.CmpAtom(token.NEQ, tiIdx, otiIdx)
	neq, eq := neqB.Atom().Key(), neqB.Atom().NegKey()
	// another triangle may only be skipped if it is the triangle itself or the edge is already known shared
	for _, it := range skips {
		ent := entryOf(it, LO)
		okc := false
		for i, c := range it.Conds {
			if i >= ent.CondIndex && (c.Key() == eq || (flagged && c.Key() == polKey(!pol))) {
				okc = true
			}
		}
		if !okc {
			bad("another collected triangle is skipped by the shared-edge search although it is not the triangle itself and the edge is not yet known shared (" + short(lastConds(it, ent, 2), 160) + ")")
			return
		}
	}
	// the search over the other triangles may only be left where the edges are compared
	for _, p := range earlyExitPaths(pp.res, LO) {
		if left, hdr := exited(p, LIN); !(left && !hdr) && !flagged {
			bad("the search over the other collected triangles is left without an edge having matched")
			return
		}
	}
	// --- 6. the comparison of the two edges
	e0, e1 := pas[0].E[0], pas[0].E[1]
	o0, o1 := k.s.SymbolScalar(*o[0]), k.s.SymbolScalar(*o[1])
	t := k.newTable()
	vars := []c17.Scalar{e0, e1, o0, o1}
	t.about(vars...)
	for i := range vars {
		for j := range vars {
			if i != j {
				i, j := i, j
				t.addCompare(vars[i], vars[j], 0, func(a []int) int { return a[i] }, func(a []int) int { return a[j] })
			}
		}
	}
	var dom [][]int
	for _, a := range product([]int{0, 1, 2, 3}, []int{0, 1, 2, 3}, []int{0, 1, 2, 3}, []int{0, 1, 2, 3}) {
		if a[0] != a[1] && a[2] != a[3] {
			dom = append(dom, a)
		}
	}
	var paths []dpath
	selfCompare := false
	for _, it := range iterPaths(pp.res, LIN) {
		ent := entryOf(it, LIN)
		out := "unchanged"
		if jIN >= 0 {
			nk, isC, v, ok := boolKey(it.Iter.Next[jIN])
			switch {
			case !ok:
				out = "?"
			case isC && v != pol:
				out = "shared"
			case isC:
				out = "reset"
			case nk == inKey:
				out = "unchanged"
			default:
				out = "?"
			}
		}
		if out == "shared" && !hasCond(it, neq) {
			selfCompare = true
		}
		paths = append(paths, dpath{conds: it.Conds[ent.CondIndex:], out: constOut(out)})
	}
	for _, p := range earlyExitPaths(pp.res, LIN) {
		ent := entryOf(p, LIN)
		out := "left the search without recording the match"
		leftLO, hdrLO := exited(p, LO)
		switch {
		case hasApp[p]:
			out = "appended after leaving the search"
		case flagged && p.Kind == c17.EndLoopBack && p.Iter != nil && p.Iter.Entry != nil && p.Iter.Entry.ID == LO:
			if _, isC, v, ok := boolKey(p.Iter.Next[jO]); ok && isC && v != pol {
				out = "shared"
			}
		case leftLO && !hdrLO:
			out = "shared"
		case flagged && leftLO:
			out = "shared"
		}
		if out == "shared" && !hasCond(p, neq) {
			selfCompare = true
		}
		paths = append(paths, dpath{conds: p.Conds[ent.CondIndex:], out: constOut(out)})
	}
	msg, isBad := t.decide(paths, dom, func(a []int) string {
		if (a[0] == a[2] && a[1] == a[3]) || (a[0] == a[3] && a[1] == a[2]) {
			return "shared"
		}
		return "unchanged"
	}, func(a []int) string {
		return fmt.Sprintf("edge (%d,%d) against other edge (%d,%d)", a[0], a[1], a[2], a[3])
	})
	if msg != "" {
		if isBad {
			bad("the shared-edge test is not 'same two ends in either order': " + msg + " — two collected triangles that meet along an edge store it in opposite directions, so an interior edge is taken for boundary (or a boundary edge dropped)")
		} else {
			und("the shared-edge test: " + msg)
		}
		return
	}
	if selfCompare {
		bad("an edge is compared with the edges of its own triangle too: every edge matches itself and no edge ever reaches the boundary")
		return
	}
	idiom := "search left on the first match (no flag)"
	if flagged {
		idiom = fmt.Sprintf("flag %s starts %v and turns %v on a match, edge appended iff it is %v", flagKey, pol, !pol, pol)
	}
	r.hold("DEL-HOLE", cons, pos,
		"an edge of a collected triangle is appended to the boundary exactly when no OTHER collected triangle has an edge with the same two ends in either order",
		fmt.Sprintf("edge lists = the three sides {0,1},{1,2},{2,0} of elements of %s; loops over triangles, their edges, the other triangles and their edges are full-range; %s; the match is orientation-insensitive (%d ordered cases of 4 ids); the own triangle is excluded", BL1, idiom, len(dom)))
}
