// Package c20: structural necessary conditions of "2D triangulation is a consistently wound
// Delaunay triangulation of the input", decided on source with C17's symbolic engine.
// Nothing is executed.
package c20

import (
	"fmt"
	"go/types"
	"os"
	"sort"
	"strings"

	"golang.org/x/tools/go/ssa"

	"polycheck/ob"
	"polycheck/props"
	"polycheck/props/c17"
)

func init() {
	props.Register(&props.Prop{
		ID: "C20",
		Explanation: "Structural NECESSARY conditions of 'the 2D triangulation is a consistently wound Delaunay triangulation of the input', decided on source. The behaviour itself (empty circumcircles, no overlap, for " +
			"every input) quantifies over run-time geometry and is not claimed. The mesh-building functions BowyerWatson / ConstrainedBowyerWatson and the insertion pipeline they call are interpreted symbolically " +
			"(C17's engine: path by path, one symbolic iteration per loop, range over the triangle map as one uninterpreted key per iteration, callees inlined); roles (working map, point list, inserted point, " +
			"collected triangles, boundary polygon, enclosing vertices) are found from the events of the run, never from names. DEL-INCIRCLE: a triangle is collected for an inserted point p exactly when " +
			"orient(a,b,c)·incircleDet(a,b,c,p) > 0 — a polynomial identity in the eight coordinates, checked on the sign cases — for the winding every stored triangle has. DEL-ORIENT: every triangle stored while " +
			"a hole is filled is stored on a path whose conditions fix the sign of (bx−ax)(cy−ay)−(cx−ax)(by−ay) of its stored vertex order, all the same sign, and the starting (enclosing) triangle has that sign too. " +
			"DEL-HOLE: the boundary polygon is the edges of collected triangles that no OTHER collected triangle has in either direction (truth table over all orderings of four ids), over all three sides of every " +
			"collected triangle; every collected triangle is deleted; one triangle {edge, p} is stored per boundary edge. DEL-SUPER: the starting triangle is the appended enclosing vertices; after the last " +
			"insertion a triangle is deleted exactly when one of its three ids is ≥ len(input). DEL-INSERT: every input point is inserted. DEL-VERT: position i = (input[i].x, 0, input[i].y) copied from the " +
			"final version of the list the ids refer to, indices = the three different ids of every triangle. DEL-INPUT: nothing stores into the input list (its appended / sub-sliced versions, its working copies) and no call that can write or " +
			"permute a slice (sort.Sort, sort.Slice, slices.Sort*, copy into it, a repository function that stores through its slice parameter) receives it on any path, in the pipeline and in both mesh builders. DEL-SAME-POINTS: the list the " +
			"predicates are evaluated on (and the list a mesh builder hands to the triangulating function) is the input list, an exact copy (append / copy / slices.Clone / element-wise loop), or an element-wise image (a·x + tx, a·y + ty) with ONE " +
			"factor a for both axes, the same for every point — decided by an affine decomposition of the stored coordinates; per-axis factors that differ (anisotropic normalisation) are a violation. DEL-SUPER-FOLD: one iteration of the " +
			"bounding-box loop, interpreted over every weak ordering of (v, oldMin, oldMax) per axis including oldMin > oldMax, gives newMin = min(v, oldMin) and newMax = max(v, oldMax). DEL-ORIENT-DIFF: every floating-point product taken while the " +
			"orientation / in-circle predicates are evaluated has operands whose polynomials do not change when all points are moved by one common offset (products of coordinate differences only) — the algebraic form, not the rounding error. " +
			"DEL-STATE: no function in the same-package call tree of the mesh builders assigns a package-level variable or stores / appends / deletes through a slice, map or pointer loaded from one. DEL-DEP: the bounding box behind the enclosing triangle reads both coordinates of every input point.",
		Assumptions: []string{
			"real arithmetic (no rounding); the input is in general position (no three points collinear, no four cocircular, ≥ 3 points), so orientation and in-circle determinants are never 0 and the bounding box of the input has positive width and height",
			"the rules are necessary conditions only: that the enclosing triangle really encloses every input (its size is a guess in the source), that holes are star-shaped, and the Delaunay / non-overlap property of the result are NOT decided",
			"the in-circle determinant | a−p |a−p|² ; b−p |b−p|² ; c−p |c−p|² | is > 0 exactly for p strictly inside the circumcircle of a counter-clockwise triangle a,b,c (trusted textbook fact)",
		},
		Controls: controls,
		Run:      run,
	})
}

const triRel = "modeling/triangulation"

// api: the mesh-building entry points the property observes.
var api = []string{"BowyerWatson", "ConstrainedBowyerWatson"}

type rec struct {
	c          *props.Ctx
	ctl        bool
	holds, bad int
	msgs       []string
	rules      map[string]bool
}

func (r *rec) hold(rule, construct, pos string, facts ...string) {
	r.holds++
	if !r.ctl {
		r.c.R.Hold(rule, construct, pos, facts...)
	}
}
func (r *rec) violate(rule, construct, pos, msg string, facts ...string) {
	r.bad++
	r.msgs = append(r.msgs, rule+": "+msg)
	if r.rules != nil {
		r.rules[rule] = true
	}
	if !r.ctl {
		r.c.R.Violate(rule, construct, pos, msg, facts...)
	}
}
func (r *rec) undecide(rule, construct, pos, msg string) {
	r.bad++
	r.msgs = append(r.msgs, rule+" undecided: "+msg)
	if r.rules != nil {
		r.rules[rule] = true
	}
	if !r.ctl {
		r.c.R.Undecide(rule, construct, pos, msg)
	}
}

func run(c *props.Ctx) {
	P, R := c.P, c.R
	sp := P.SSAPkg(triRel)
	if sp == nil {
		R.Failf("anchor package %s not found", triRel)
		return
	}
	s, prob := c17.NewSession(c)
	if prob != "" {
		R.Failf("engine: %s", prob)
		return
	}
	s.EnableExt()
	k := &K{c: c, s: s, e: s.Engine()}
	k.e.MaxPaths = 2000
	r := &rec{c: c}

	// 1. the mesh builders
	pipes := map[*ssa.Function]bool{}
	for _, name := range api {
		fn := P.Func(triRel, name)
		if fn == nil || fn.Blocks == nil {
			R.Failf("anchor %s.%s (mesh-building entry point of the triangulation) not found", triRel, name)
			continue
		}
		k.ruleState(r, fn)
		fs, inl := k.vert(r, fn)
		for _, f := range fs {
			if g := P.SSA.FuncValue(f); g != nil && g.Blocks != nil {
				pipes[g] = true
			}
		}
		if inl {
			pipes[fn] = true
		}
	}
	// 2. the insertion pipeline(s)
	var pl []*ssa.Function
	for g := range pipes {
		pl = append(pl, g)
	}
	sort.Slice(pl, func(i, j int) bool { return P.FuncName(pl[i]) < P.FuncName(pl[j]) })
	if len(pl) == 0 {
		R.Failf("no function that returns the triangle map feeding the index array was found behind %s", strings.Join(api, " / "))
	}
	W, WKnown := 0, false
	for _, g := range pl {
		pp := k.pipeline(r, g, nil)
		if pp != nil && pp.WKnown {
			W, WKnown = pp.W, true
		}
	}
	R.Extra["pipelines_analysed"] = len(pl)
	R.Extra["symbolic_paths_followed"] = k.paths
	R.Extra["functions_interpreted"] = len(k.e.Executed)
	if WKnown {
		R.Extra["established_winding"] = windName(W)
	}
	// 3. controls
	var ctl []*ssa.Function
	for _, fn := range P.FuncsOf(sp) {
		if P.IsControl(fn.Pos()) && fn.Parent() == nil && strings.HasPrefix(fn.Name(), "verifControl") {
			ctl = append(ctl, fn)
		}
	}
	for _, fn := range ctl {
		k.control(fn, W, WKnown)
	}
	// floors (instances today: INCIRCLE 1, ORIENT 2, HOLE 3, SUPER 3, INSERT 1, VERT 2, DEP 1)
	for _, rule := range []string{"DEL-INCIRCLE", "DEL-ORIENT", "DEL-INSERT", "DEL-DEP", "DEL-VERT"} {
		R.Floor(rule, 1)
	}
	R.Floor("DEL-SUPER", 2)
	R.Floor("DEL-HOLE", 2)
	R.Floor("DEL-INPUT", 2)
	R.Floor("DEL-SAME-POINTS", 2)
	R.Floor("DEL-SUPER-FOLD", 1)
	R.Floor("DEL-ORIENT-DIFF", 1)
	R.Floor("DEL-STATE", 1)
	if os.Getenv("C20_DEBUG") != "" {
		for _, o := range R.Obs {
			fmt.Printf("  [%s] %-13s %-50s %s %s\n", o.Verdict, o.Rule, o.Construct, o.Msg, fmt.Sprint(o.Facts))
		}
	}
}

// pipeline runs the incremental insertion function g and decides the pipeline rules on it.
// preset (controls) limits the analysis to some rules on given roles.
func (k *K) pipeline(r *rec, g *ssa.Function, preset func(pp *pipe, args []c17.Val) []string) *pipe {
	P := k.c.P
	pp := &pipe{k: k, r: r, fn: g, construct: P.FuncName(g), pos: P.Pos(g.Pos())}
	args := make([]c17.Val, len(g.Params))
	for i, p := range g.Params {
		args[i] = k.e.Sym(p.Name(), p.Type())
		if pp.input == nil && isVec2Slice(p.Type()) {
			pp.input = args[i]
		}
	}
	if pp.input == nil {
		r.undecide("DEL-INSERT", pp.construct, pp.pos, "the function takes no list of 2D points")
		return nil
	}
	pp.inputID = c17.SliceID(pp.input)
	pp.n, _ = c17.LenOf(pp.input)
	pp.res = k.e.Run(g, args)
	k.paths += len(pp.res.Paths)
	k.dumpIf(g, pp.res)
	if prob := pp.res.Problem(); prob != "" {
		r.undecide("DEL-INSERT", pp.construct, pp.pos, "the engine cannot follow the function: "+prob)
		return nil
	}
	for _, p := range pp.res.Paths {
		if len(p.Notes) > 0 && !r.ctl {
			k.c.R.Note("%s: %s", pp.construct, p.Notes[0])
			break
		}
	}
	pp.fl = buildFlow(pp.res)
	pp.findCopies()
	pp.findImages()
	rules := []string{"fan", "points", "seed", "enclose", "collect", "remove", "boundary", "cleanup", "insert"}
	if preset != nil {
		rules = preset(pp, args)
	} else {
		if !pp.findMap() {
			r.undecide("DEL-HOLE", pp.construct, pp.pos, "the working triangle map could not be identified (triangles are stored into several maps)")
			return nil
		}
		pp.findSuper()
	}
	for _, rule := range rules {
		switch rule {
		case "fan":
			pp.ruleFan()
		case "points":
			pp.ruleSamePoints()
		case "seed":
			pp.ruleSeed()
		case "enclose":
			pp.ruleEnclose()
		case "collect":
			pp.ruleCollect()
		case "remove":
			pp.ruleRemove()
		case "boundary":
			pp.ruleBoundary()
		case "cleanup":
			pp.ruleCleanup()
		case "insert":
			pp.ruleInsert()
		}
	}
	if preset == nil {
		pp.ruleDiffForm()
		k.ruleInput(r, pp.sub("input"), pp.pos, pp.res, pp.inputLike, nil, pp.exemptStores())
	}
	return pp
}

// ---------------------------------------------------------------- controls

func controlKind(name string) string {
	n := strings.TrimPrefix(name, "verifControl")
	for _, suf := range []string{"Bad", "Good"} {
		if i := strings.Index(n, suf); i > 0 {
			return n[:i]
		}
	}
	return n
}

var controlRule = map[string]string{
	"InCircle": "DEL-INCIRCLE",
	"Fill":     "DEL-ORIENT",
	"Super":    "DEL-SUPER",
	"Boundary": "DEL-HOLE",
	"Mesh":     "DEL-VERT",
	"Input":    "DEL-INPUT",
	"Points":   "DEL-SAME-POINTS",
}

func (k *K) control(fn *ssa.Function, W int, WKnown bool) {
	r := &rec{c: k.c, ctl: true, rules: map[string]bool{}}
	kind := controlKind(fn.Name())
	switch kind {
	case "InCircle":
		k.predInCircle(r, fn, W, WKnown)
	case "Super":
		k.predSuper(r, fn)
	case "Fill":
		k.pipeline(r, fn, func(pp *pipe, args []c17.Val) []string {
			for i, p := range fn.Params {
				if isTriMap(p.Type()) {
					pp.M, _, _ = c17.MapID(args[i])
				}
			}
			return []string{"fan"}
		})
	case "Boundary":
		args := make([]c17.Val, len(fn.Params))
		pp := &pipe{k: k, r: r, fn: fn, construct: k.c.P.FuncName(fn), pos: k.c.P.Pos(fn.Pos())}
		for i, p := range fn.Params {
			args[i] = k.e.Sym(p.Name(), p.Type())
			if sl, ok := p.Type().Underlying().(*types.Slice); ok {
				if a, ok := sl.Elem().Underlying().(*types.Array); ok && a.Len() == 3 {
					pp.BL = c17.SliceID(args[i])
				}
			}
		}
		pp.res = k.e.Run(fn, args)
		k.dumpIf(fn, pp.res)
		if prob := pp.res.Problem(); prob != "" {
			r.undecide("DEL-HOLE", pp.construct, pp.pos, prob)
		} else {
			pp.fl = buildFlow(pp.res)
			pp.ruleBoundary()
		}
	case "Mesh", "Input", "Points":
		k.vert(r, fn)
	default:
		k.c.R.Note("control %s is of no known kind", fn.Name())
		return
	}
	got := ob.Holds
	if r.bad > 0 || r.holds == 0 {
		got = ob.Violation
	}
	want := ob.Holds
	msg := "accepted idiom must stay silent"
	if strings.Contains(fn.Name(), "Bad") {
		want = ob.Violation
		msg = "seeded defect must be reported"
	}
	if len(r.msgs) > 0 {
		msg += ": " + short(r.msgs[0], 260)
	}
	k.c.R.Control(controlRule[kind], "control:"+fn.Name(), triRel+"/zz_verif_control_c20.go", got, want, msg)
}
