package c20

// Self-test controls: overlay file type-checked inside modeling/triangulation. One must-fire and one
// must-stay-silent control per main rule; each is analysed stand-alone by the same rule code.
func controls() map[string]string {
	return map[string]string{
		"modeling/triangulation/zz_verif_control_c20.go": `package triangulation

import (
	"log"
	"math"
	"sort"

	"github.com/EliCDavis/polyform/modeling"
	"github.com/EliCDavis/vector/vector2"
	"github.com/EliCDavis/vector/vector3"
)

// must fire (DEL-INCIRCLE): the sign of the determinant is the one for counter-clockwise triangles,
// but every triangle of the triangulation is stored clockwise
func verifControlInCircleBadSign(t Triangle, p vector2.Float64, points []vector2.Float64) bool {
	a, b, c := points[t[0]], points[t[1]], points[t[2]]
	ax, ay := a.X()-p.X(), a.Y()-p.Y()
	bx, by := b.X()-p.X(), b.Y()-p.Y()
	cx, cy := c.X()-p.X(), c.Y()-p.Y()
	det := (ax*ax+ay*ay)*(bx*cy-cx*by) - (bx*bx+by*by)*(ax*cy-cx*ay) + (cx*cx+cy*cy)*(ax*by-bx*ay)
	return det > 0
}

// must fire (DEL-INCIRCLE): the lifted coordinate is |v−p| instead of |v−p|² in x
func verifControlInCircleBadLift(t Triangle, p vector2.Float64, points []vector2.Float64) bool {
	a, b, c := points[t[0]], points[t[1]], points[t[2]]
	ax, ay := a.X()-p.X(), a.Y()-p.Y()
	bx, by := b.X()-p.X(), b.Y()-p.Y()
	cx, cy := c.X()-p.X(), c.Y()-p.Y()
	det := (ax+ay*ay)*(bx*cy-cx*by) - (bx+by*by)*(ax*cy-cx*ay) + (cx+cy*cy)*(ax*by-bx*ay)
	return det < 0
}

// must stay silent (DEL-INCIRCLE): circumcentre / radius formulation, |p − centre|² < r²
func verifControlInCircleGoodCentre(t Triangle, p vector2.Float64, points []vector2.Float64) bool {
	a, b, c := points[t[0]], points[t[1]], points[t[2]]
	d := 2 * (a.X()*(b.Y()-c.Y()) + b.X()*(c.Y()-a.Y()) + c.X()*(a.Y()-b.Y()))
	a2 := a.X()*a.X() + a.Y()*a.Y()
	b2 := b.X()*b.X() + b.Y()*b.Y()
	c2 := c.X()*c.X() + c.Y()*c.Y()
	ux := (a2*(b.Y()-c.Y()) + b2*(c.Y()-a.Y()) + c2*(a.Y()-b.Y())) / d
	uy := (a2*(c.X()-b.X()) + b2*(a.X()-c.X()) + c2*(b.X()-a.X())) / d
	r2 := (a.X()-ux)*(a.X()-ux) + (a.Y()-uy)*(a.Y()-uy)
	d2 := (p.X()-ux)*(p.X()-ux) + (p.Y()-uy)*(p.Y()-uy)
	return d2 < r2
}

// must stay silent (DEL-INCIRCLE): 4x4 lifted form expanded along the last column, both windings handled
func verifControlInCircleGoodBothWindings(t Triangle, p vector2.Float64, points []vector2.Float64) bool {
	a, b, c := points[t[0]], points[t[1]], points[t[2]]
	adx, ady := a.X()-p.X(), a.Y()-p.Y()
	bdx, bdy := b.X()-p.X(), b.Y()-p.Y()
	cdx, cdy := c.X()-p.X(), c.Y()-p.Y()
	alift, blift, clift := adx*adx+ady*ady, bdx*bdx+bdy*bdy, cdx*cdx+cdy*cdy
	det := adx*(bdy*clift-blift*cdy) - ady*(bdx*clift-blift*cdx) + alift*(bdx*cdy-bdy*cdx)
	if ccw(a, b, c) {
		return det > 0
	}
	return 0 > det
}

// must fire (DEL-ORIENT): triangles are stored as they come, no winding fix-up
func verifControlFillBadNoFixup(polygon []Edge, point int, triangulation map[Triangle]struct{}, points []vector2.Float64) {
	for _, edge := range polygon {
		triangulation[Triangle{edge[0], edge[1], point}] = exists
	}
}

// must fire (DEL-ORIENT): the "fix-up" rotates the vertices, the winding stays what it was
func verifControlFillBadRotate(polygon []Edge, point int, triangulation map[Triangle]struct{}, points []vector2.Float64) {
	for _, edge := range polygon {
		tri := Triangle{edge[0], edge[1], point}
		if ccw(points[tri[0]], points[tri[1]], points[tri[2]]) {
			tri = Triangle{tri[1], tri[2], tri[0]}
		}
		triangulation[tri] = exists
	}
}

// must stay silent (DEL-ORIENT): determinant written inline as a comparison of two products, counted loop, if/else
func verifControlFillGoodInline(polygon []Edge, point int, triangulation map[Triangle]struct{}, points []vector2.Float64) {
	for i := 0; i < len(polygon); i++ {
		a, b, c := points[polygon[i][0]], points[polygon[i][1]], points[point]
		if (b.X()-a.X())*(c.Y()-a.Y()) > (c.X()-a.X())*(b.Y()-a.Y()) {
			triangulation[Triangle{polygon[i][1], polygon[i][0], point}] = exists
		} else {
			triangulation[Triangle{polygon[i][0], polygon[i][1], point}] = exists
		}
	}
}

// must fire (DEL-SUPER): the third vertex is never tested
func verifControlSuperBadTwoOfThree(t Triangle, points []vector2.Float64) bool {
	s := len(points) - 3
	return t[0] >= s || t[1] >= s
}

// must stay silent (DEL-SUPER): largest id against the threshold
func verifControlSuperGoodLargest(t Triangle, points []vector2.Float64) bool {
	m := t[0]
	if t[1] > m {
		m = t[1]
	}
	if m < t[2] {
		m = t[2]
	}
	return m > len(points)-4
}

// must fire (DEL-HOLE): two triangles that meet along an edge store it in opposite directions; only
// same-direction edges are recognised as shared
func verifControlBoundaryBadDirected(badTriangles []Triangle) []Edge {
	polygon := make([]Edge, 0)
	for ti, tri := range badTriangles {
		for _, edge := range tri.Edges() {
			shared := false
			for oti, other := range badTriangles {
				if oti == ti {
					continue
				}
				for _, oe := range other.Edges() {
					if edge == oe {
						shared = true
					}
				}
			}
			if !shared {
				polygon = append(polygon, edge)
			}
		}
	}
	return polygon
}

// must fire (DEL-HOLE): the last collected triangle is never consulted
func verifControlBoundaryBadShortSearch(badTriangles []Triangle) []Edge {
	polygon := make([]Edge, 0)
	for ti, tri := range badTriangles {
		for _, edge := range tri.Edges() {
			shared := false
			for oti := 0; oti < len(badTriangles)-1; oti++ {
				if oti == ti {
					continue
				}
				for _, oe := range badTriangles[oti].Edges() {
					if edge == oe || (edge[0] == oe[1] && edge[1] == oe[0]) {
						shared = true
					}
				}
			}
			if !shared {
				polygon = append(polygon, edge)
			}
		}
	}
	return polygon
}

// must stay silent (DEL-HOLE): flag of the opposite polarity, counted loops, early break once found
func verifControlBoundaryGoodSharedFlag(badTriangles []Triangle) []Edge {
	var polygon []Edge
	for ti := 0; ti < len(badTriangles); ti++ {
		edges := badTriangles[ti].Edges()
		for ei := 0; ei < len(edges); ei++ {
			edge := edges[ei]
			shared := false
			for oti := 0; oti < len(badTriangles); oti++ {
				if oti == ti || shared {
					continue
				}
				for _, oe := range badTriangles[oti].Edges() {
					if (oe[0] == edge[0] && oe[1] == edge[1]) || (oe[1] == edge[0] && oe[0] == edge[1]) {
						shared = true
						break
					}
				}
			}
			if shared {
				continue
			}
			polygon = append(polygon, edge)
		}
	}
	return polygon
}

// must fire (DEL-VERT): the plane is mirrored, vertex i is (y, 0, x) of input point i
func verifControlMeshBadSwapped(points []vector2.Float64) modeling.Mesh {
	triangulation := bowyerWatson(points)
	tris := make([]int, 0, len(triangulation)*3)
	for triangle := range triangulation {
		tris = append(tris, triangle[0], triangle[1], triangle[2])
	}
	verts := make([]vector3.Float64, len(points))
	for i, p := range points {
		verts[i] = vector3.New(p.Y(), 0, p.X())
	}
	return modeling.NewTriangleMesh(tris).SetFloat3Attribute(modeling.PositionAttribute, verts)
}

// must fire (DEL-VERT): positions shifted by one (vertex i is input point i+1)
func verifControlMeshBadShifted(points []vector2.Float64) modeling.Mesh {
	triangulation := bowyerWatson(points)
	tris := make([]int, 0, len(triangulation)*3)
	for triangle := range triangulation {
		tris = append(tris, triangle[0], triangle[1], triangle[2])
	}
	verts := make([]vector3.Float64, len(points))
	for i := 0; i < len(points)-1; i++ {
		verts[i] = vector3.New(points[i+1].X(), 0, points[i+1].Y())
	}
	return modeling.NewTriangleMesh(tris).SetFloat3Attribute(modeling.PositionAttribute, verts)
}

// must stay silent (DEL-VERT): counted loop, indices in another (fixed) order, helper for the embedding
func verifControlMeshGoodCounted(points []vector2.Float64) modeling.Mesh {
	triangulation := bowyerWatson(points)
	var tris []int
	for triangle := range triangulation {
		tris = append(tris, triangle[1], triangle[2], triangle[0])
	}
	n := len(points)
	verts := make([]vector3.Float64, n)
	for i := 0; i < n; i++ {
		verts[i] = vector3.New(points[i].X(), 0., points[i].Y())
	}
	return modeling.NewMesh(modeling.TriangleTopology, tris).SetFloat3Attribute(modeling.PositionAttribute, verts)
}

// must fire (DEL-INPUT): the caller's points are sorted in place before they are triangulated
func verifControlInputBadSorted(points []vector2.Float64) modeling.Mesh {
	sort.Sort(SortByXComponent(points))
	triangulation := bowyerWatson(points)
	tris := make([]int, 0, len(triangulation)*3)
	for triangle := range triangulation {
		tris = append(tris, triangle[0], triangle[1], triangle[2])
	}
	verts := make([]vector3.Float64, len(points))
	for i, p := range points {
		verts[i] = vector3.New(p.X(), 0, p.Y())
	}
	return modeling.NewTriangleMesh(tris).SetFloat3Attribute(modeling.PositionAttribute, verts)
}

// must stay silent (DEL-INPUT): the points are only read (logged, checked for order) before they are triangulated
func verifControlInputGoodReadOnly(points []vector2.Float64) modeling.Mesh {
	log.Println(len(points), points, sort.IsSorted(SortByXComponent(points)))
	triangulation := bowyerWatson(points)
	tris := make([]int, 0, len(triangulation)*3)
	for triangle := range triangulation {
		tris = append(tris, triangle[0], triangle[1], triangle[2])
	}
	verts := make([]vector3.Float64, len(points))
	for i, p := range points {
		verts[i] = vector3.New(p.X(), 0, p.Y())
	}
	return modeling.NewTriangleMesh(tris).SetFloat3Attribute(modeling.PositionAttribute, verts)
}

// must fire (DEL-SAME-POINTS): the triangulation is computed on a copy stretched to the unit square (per-axis factors)
func verifControlPointsBadStretched(points []vector2.Float64) modeling.Mesh {
	lo := vector2.New(math.Inf(1), math.Inf(1))
	hi := vector2.New(math.Inf(-1), math.Inf(-1))
	for _, v := range points {
		lo = vector2.New(math.Min(v.X(), lo.X()), math.Min(v.Y(), lo.Y()))
		hi = vector2.New(math.Max(v.X(), hi.X()), math.Max(v.Y(), hi.Y()))
	}
	unit := make([]vector2.Float64, len(points))
	for i, v := range points {
		unit[i] = vector2.New((v.X()-lo.X())/(hi.X()-lo.X()), (v.Y()-lo.Y())/(hi.Y()-lo.Y()))
	}
	triangulation := bowyerWatson(unit)
	tris := make([]int, 0, len(triangulation)*3)
	for triangle := range triangulation {
		tris = append(tris, triangle[0], triangle[1], triangle[2])
	}
	verts := make([]vector3.Float64, len(points))
	for i, p := range points {
		verts[i] = vector3.New(p.X(), 0, p.Y())
	}
	return modeling.NewTriangleMesh(tris).SetFloat3Attribute(modeling.PositionAttribute, verts)
}

// must stay silent (DEL-SAME-POINTS): one factor for both axes, recentred on the first point
func verifControlPointsGoodUniform(points []vector2.Float64) modeling.Mesh {
	lo := vector2.New(math.Inf(1), math.Inf(1))
	hi := vector2.New(math.Inf(-1), math.Inf(-1))
	for _, v := range points {
		lo = vector2.New(math.Min(v.X(), lo.X()), math.Min(v.Y(), lo.Y()))
		hi = vector2.New(math.Max(v.X(), hi.X()), math.Max(v.Y(), hi.Y()))
	}
	scale := 1 / math.Max(hi.X()-lo.X(), hi.Y()-lo.Y())
	unit := make([]vector2.Float64, len(points))
	for i := range points {
		unit[i] = points[i].Sub(lo).Scale(scale)
	}
	triangulation := bowyerWatson(unit)
	tris := make([]int, 0, len(triangulation)*3)
	for triangle := range triangulation {
		tris = append(tris, triangle[0], triangle[1], triangle[2])
	}
	verts := make([]vector3.Float64, len(points))
	for i, p := range points {
		verts[i] = vector3.New(p.X(), 0, p.Y())
	}
	return modeling.NewTriangleMesh(tris).SetFloat3Attribute(modeling.PositionAttribute, verts)
}
`,
	}
}
