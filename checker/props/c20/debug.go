package c20

import (
	"fmt"
	"os"
	"strings"

	"golang.org/x/tools/go/ssa"

	"polycheck/props/c17"
)

// dumpIf prints the paths of res when C20_DUMP names the function (development aid).
func (k *K) dumpIf(fn *ssa.Function, res *c17.Result) {
	want := os.Getenv("C20_DUMP")
	if want == "" || !strings.Contains(fn.Name(), want) {
		return
	}
	s := k.s
	fmt.Println("=== dump", fn.Name(), "paths", len(res.Paths), "err", res.Err)
	for i, p := range res.Paths {
		fmt.Printf("--- path %d kind=%s abort=%s\n", i, p.Kind, p.Abort)
		for _, a := range p.Conds {
			fmt.Printf("    cond %s\n", short(a.Key(), 200))
		}
		for _, l := range p.Loops {
			fmt.Printf("    loop %s condIndex=%d\n", l.ID, l.CondIndex)
		}
		for _, ev := range p.Events {
			lp := ""
			if ev.Loop != nil {
				lp = ev.Loop.ID
			}
			var as []string
			for _, a := range ev.Args {
				as = append(as, s.Describe(a))
			}
			sid := ""
			if ev.Slice != nil {
				sid = c17.SliceID(ev.Slice)
			}
			idx := ""
			if ev.Kind == c17.EvStoreElem {
				idx = s.Describe(ev.Idx)
			}
			fmt.Printf("    event kind=%d loop=%s callee=%s slice=%s idx=%s args=%v val=%s\n", ev.Kind, lp, ev.Callee, sid, idx, as, s.Describe(ev.Val))
		}
		if p.Iter != nil && p.Iter.Entry != nil {
			for j, hv := range p.Iter.Entry.Havoc {
				fmt.Printf("    next[%s] %s := %s (init %s)\n", p.Iter.Entry.ID, s.Describe(hv), s.Describe(p.Iter.Next[j]), s.Describe(p.Iter.Entry.Init[j]))
			}
		}
		for _, x := range p.LoopExits {
			fmt.Printf("    exit %s from block %d (header %d)\n", x.Entry.ID, x.From.Index, x.Entry.Header.Index)
		}
		for _, r := range p.Ret {
			fmt.Printf("    ret %s\n", s.Describe(r))
		}
		for _, n := range p.Notes {
			fmt.Printf("    note %s\n", n)
		}
	}
}
