package c20

// DEL-INPUT: point i of every list that stands for the input (the caller's slice, its appended versions,
// its sub-slices, and full copies used as the working list) stays input point i: nothing stores into such
// a list, no call that can write or permute it (sort.Sort, sort.Slice, slices.Sort*, copy into it, a
// repository function that stores through its slice parameter) receives it. Appending to it is fine.

import (
	"fmt"
	"go/types"
	"sort"
	"strings"

	"golang.org/x/tools/go/ssa"

	"polycheck/load"
	"polycheck/props/c17"
)

// writers: library functions that write / permute the slice handed to them (directly or behind sort.Interface).
var writers = map[string]map[string]bool{
	"sort":      {"Sort": true, "Stable": true, "Slice": true, "SliceStable": true, "Float64s": true, "Ints": true, "Strings": true},
	"slices":    {"Sort": true, "SortFunc": true, "SortStableFunc": true, "Reverse": true, "Compact": true, "CompactFunc": true, "Delete": true, "DeleteFunc": true, "Insert": true, "Replace": true},
	"math/rand": {"Shuffle": true},
}

// readers: library packages whose functions only read their arguments.
var readers = map[string]bool{"fmt": true, "log": true, "math": true, "strings": true, "strconv": true, "errors": true, "sort": true, "slices": true, "reflect": true}

type inputCheck struct {
	k       *K
	res     *c17.Result
	aliases map[string]bool
	skip    map[*types.Func]bool // callees analysed on their own (the pipeline function)
	exempt  map[string]bool      // positions of the stores that build a copy / image (not writes to the input)
}

// aliasesOf: the input list, what it is appended / sub-sliced / loop-carried into, and its full copies.
func aliasesOf(res *c17.Result, roots map[string]bool) map[string]bool {
	fwd := map[string]map[string]bool{}
	edge := func(a, b string) {
		if a == "" || b == "" {
			return
		}
		if fwd[a] == nil {
			fwd[a] = map[string]bool{}
		}
		fwd[a][b] = true
	}
	for _, p := range res.Paths {
		for _, ent := range p.Loops {
			for j := range ent.Havoc {
				if j < len(ent.Init) {
					edge(sid(ent.Init[j]), sid(ent.Havoc[j]))
				}
			}
		}
		if p.Kind == c17.EndLoopBack && p.Iter != nil && p.Iter.Entry != nil {
			for j := range p.Iter.Entry.Havoc {
				if j < len(p.Iter.Next) {
					edge(sid(p.Iter.Next[j]), sid(p.Iter.Entry.Havoc[j]))
				}
			}
		}
		for _, ev := range p.Events {
			switch {
			case (ev.Kind == c17.EvAppend || ev.Kind == c17.EvAppendSlice) && ev.Slice != nil:
				edge(c17.SliceID(ev.Slice), sid(ev.Val))
			case ev.Kind == c17.EvBulkWrite && ev.Callee == "slice-expression" && ev.Slice != nil:
				edge(c17.SliceID(ev.Slice), sid(ev.Val))
			}
		}
	}
	out := map[string]bool{}
	var work []string
	for r := range roots {
		out[r] = true
		work = append(work, r)
	}
	for len(work) > 0 {
		x := work[len(work)-1]
		work = work[:len(work)-1]
		for y := range fwd[x] {
			if !out[y] {
				out[y] = true
				work = append(work, y)
			}
		}
	}
	return out
}

// sliceArgs: the alias slices a call receives (directly, inside an interface, or inside a struct value).
func (ic *inputCheck) sliceArgs(args []c17.Val) []int {
	var out []int
	var has func(v c17.Val, depth int) bool
	has = func(v c17.Val, depth int) bool {
		if id := sid(v); id != "" && ic.aliases[id] {
			return true
		}
		if depth > 3 {
			return false
		}
		for _, c := range c17.Children(v) {
			if has(c, depth+1) {
				return true
			}
		}
		return false
	}
	for i, a := range args {
		if has(a, 0) {
			out = append(out, i)
		}
	}
	return out
}

func pkgOf(f *types.Func) string {
	if f == nil || f.Pkg() == nil {
		return ""
	}
	return f.Pkg().Path()
}

// check returns (message, violated) for the first write it finds; "" when the lists are only read.
func (ic *inputCheck) check() (string, bool) {
	P := ic.k.c.P
	for _, p := range ic.res.Paths {
		for _, ev := range p.Events {
			switch ev.Kind {
			case c17.EvStoreElem:
				if ev.Slice != nil && ic.aliases[c17.SliceID(ev.Slice)] && !ic.exempt[fmt.Sprint(ev.Pos)] {
					return "element [" + short(ic.k.s.Key(ev.Idx), 40) + "] of the input list (" + c17.SliceID(ev.Slice) + ") is overwritten at " + P.Pos(ev.Pos) + ": point i is no longer input point i (and the caller's slice is changed)", true
				}
			case c17.EvBulkWrite:
				if ev.Slice != nil && ic.aliases[c17.SliceID(ev.Slice)] && (ev.Callee == "copy" || ev.Callee == "clear") && !ic.exempt[fmt.Sprint(ev.Pos)] {
					return "the input list (" + c17.SliceID(ev.Slice) + ") is the destination of " + ev.Callee + " at " + P.Pos(ev.Pos) + ": point i is no longer input point i", true
				}
			case c17.EvCall:
				idxs := ic.sliceArgs(ev.Args)
				if len(idxs) == 0 {
					continue
				}
				if ev.Fn == nil {
					return "the input list is handed to a function value (" + short(ev.Callee, 60) + ") at " + P.Pos(ev.Pos) + ": whether it writes the list cannot be followed", false
				}
				if ic.skip[ev.Fn] {
					continue
				}
				pk := pkgOf(ev.Fn)
				switch {
				case writers[pk][ev.Fn.Name()]:
					return pk + "." + ev.Fn.Name() + " is applied to the input list at " + P.Pos(ev.Pos) + ": it permutes the list in place, so point i of the working list is no longer input point i — the triangle ids no longer mean the positions handed out (vertex i is not input point i), and the caller's slice is reordered", true
				case readers[pk]:
					continue
				case pk == load.Module || strings.HasPrefix(pk, load.Module+"/") || strings.HasPrefix(pk, "github.com/EliCDavis/vector"):
					fn := P.SSA.FuncValue(ev.Fn)
					if fn == nil || fn.Blocks == nil {
						return "the input list is handed to " + ev.Fn.FullName() + ", whose body is not available", false
					}
					for _, i := range idxs {
						if why := ic.mayWrite(fn, i, map[*ssa.Function]bool{}); why != "" {
							return "the input list is handed to " + P.FuncName(fn) + " at " + P.Pos(ev.Pos) + ", which " + why + ": point i is no longer input point i", !strings.HasPrefix(why, "?")
						}
					}
				default:
					return "the input list is handed to " + ev.Fn.FullName() + " at " + P.Pos(ev.Pos) + ": not known to leave its argument unchanged", false
				}
			}
		}
	}
	return "", false
}

// mayWrite: does fn store through its argIdx-th argument (a slice, possibly behind a named slice type)?
// Conservative def-use scan; "" = it only reads. A leading "?" marks "cannot tell".
func (ic *inputCheck) mayWrite(fn *ssa.Function, argIdx int, seen map[*ssa.Function]bool) string {
	if seen[fn] || argIdx >= len(fn.Params) {
		return ""
	}
	seen[fn] = true
	P := ic.k.c.P
	set := map[ssa.Value]bool{fn.Params[argIdx]: true}
	// values that alias the argument
	for changed := true; changed; {
		changed = false
		ssaAll(fn, func(in ssa.Instruction) {
			v, ok := in.(ssa.Value)
			if !ok || set[v] {
				return
			}
			add := false
			switch x := in.(type) {
			case *ssa.Phi:
				for _, e := range x.Edges {
					add = add || set[e]
				}
			case *ssa.ChangeType:
				add = set[x.X]
			case *ssa.Convert:
				add = set[x.X]
			case *ssa.MakeInterface:
				add = set[x.X]
			case *ssa.TypeAssert:
				add = set[x.X]
			case *ssa.Slice:
				add = set[x.X]
			case *ssa.Call:
				if b, ok := x.Call.Value.(*ssa.Builtin); ok && b.Name() == "append" && len(x.Call.Args) > 0 {
					add = set[x.Call.Args[0]]
				}
			}
			if add {
				set[v] = true
				changed = true
			}
		})
	}
	why := ""
	ssaAll(fn, func(in ssa.Instruction) {
		if why != "" {
			return
		}
		switch x := in.(type) {
		case *ssa.MakeClosure:
			for _, b := range x.Bindings {
				if set[b] {
					why = "?captures it in a closure (" + P.Pos(x.Pos()) + ")"
				}
			}
		case *ssa.Store:
			if ia, ok := x.Addr.(*ssa.IndexAddr); ok && set[ia.X] {
				why = "stores into it (" + P.Pos(x.Pos()) + ")"
			}
		case ssa.CallInstruction:
			cc := x.Common()
			var idxs []int
			for i, a := range cc.Args {
				if set[a] {
					idxs = append(idxs, i)
				}
			}
			recvAlias := cc.IsInvoke() && set[cc.Value]
			if len(idxs) == 0 && !recvAlias {
				return
			}
			if b, ok := cc.Value.(*ssa.Builtin); ok {
				if (b.Name() == "copy" && set[cc.Args[0]]) || b.Name() == "clear" {
					why = b.Name() + "s into it (" + P.Pos(x.Pos()) + ")"
				}
				return
			}
			callee := cc.StaticCallee()
			if callee == nil {
				why = "?passes it to a dynamic call (" + P.Pos(x.Pos()) + ")"
				return
			}
			var obj *types.Func
			if o, ok := callee.Object().(*types.Func); ok {
				obj = o
			}
			pk := pkgOf(obj)
			switch {
			case obj != nil && writers[pk][obj.Name()]:
				why = "hands it to " + pk + "." + obj.Name() + " (" + P.Pos(x.Pos()) + ")"
			case readers[pk]:
			case callee.Blocks != nil:
				off := 0
				if callee.Signature.Recv() != nil && !cc.IsInvoke() {
					off = 0 // receiver is Args[0] for static method calls
				}
				for _, i := range idxs {
					if w := ic.mayWrite(callee, i+off, seen); w != "" {
						why = w
						return
					}
				}
			default:
				why = "?passes it to " + callee.String()
			}
		}
	})
	return why
}

func ssaAll(fn *ssa.Function, f func(ssa.Instruction)) {
	for _, b := range fn.Blocks {
		for _, in := range b.Instrs {
			f(in)
		}
	}
}

// ruleInput records DEL-INPUT for one analysed function.
func (k *K) ruleInput(r *rec, construct, pos string, res *c17.Result, roots map[string]bool, skip map[*types.Func]bool, exempt map[string]bool) {
	ic := &inputCheck{k: k, res: res, aliases: aliasesOf(res, roots), skip: skip, exempt: exempt}
	msg, bad := ic.check()
	switch {
	case msg == "":
		al := make([]string, 0, len(ic.aliases))
		for a := range ic.aliases {
			al = append(al, a)
		}
		sort.Strings(al)
		r.hold("DEL-INPUT", construct, pos, "nothing stores into the input list, its appended / sub-sliced versions or its working copies, and no call that can write or permute a slice receives them on any path: point i stays input point i", "lists followed: "+short(strings.Join(al, ", "), 200))
	case bad:
		r.violate("DEL-INPUT", construct, pos, msg)
	default:
		r.undecide("DEL-INPUT", construct, pos, msg)
	}
}
