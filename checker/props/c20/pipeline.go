package c20

// The incremental insertion pipeline (bowyerWatson): roles are discovered from the events of one
// symbolic run (nothing is keyed on names of locals or helpers), then each rule is decided on them.

import (
	"fmt"
	"go/token"
	"sort"
	"strings"

	"golang.org/x/tools/go/ssa"

	"polycheck/props/c17"
)

type pipe struct {
	k         *K
	r         *rec
	res       *c17.Result
	fn        *ssa.Function
	construct string
	pos       string
	fl        *flow

	input   c17.Val // the input point list (parameter)
	inputID string
	// inputLike: the input list and its full copies (append(make(…, 0, …), input...))
	inputLike map[string]bool
	// images: made arrays filled element by element from such a list (copy / uniform similarity / stretched)
	images map[string]image
	n      c17.Scalar // len(input)

	M string // the working triangle map

	// the enclosing ("super") triangle
	ext      c17.Val // point list extended by the enclosing vertices
	superPts []pt
	superPos token.Pos

	// insertion
	pi    c17.Scalar // id of the point being inserted
	piOK  bool
	piKey string
	LI    string  // insertion loop
	X     c17.Val // the list the predicates read coordinates from
	XID   string

	W      int // established winding: −1 clockwise, +1 counter-clockwise, 0 unknown
	WKnown bool

	// the starting triangle as decided by ruleSeed
	seedTri [][3]pt
	seedSg  int
	boxes   []bound

	LC string // the loop that collects the triangles whose circumcircle contains the inserted point
	BL string // final version of the bad-triangle list
	PL string // polygon list the hole is filled from
}

func windName(w int) string {
	switch {
	case w < 0:
		return "clockwise"
	case w > 0:
		return "counter-clockwise"
	}
	return "unknown"
}

type evAt struct {
	p  *c17.Path
	ev c17.Event
}

// events collects the events of a kind over all paths, one per (path, event).
func (pp *pipe) events(kind c17.EventKind) []evAt {
	var out []evAt
	for _, p := range pp.res.Paths {
		for _, ev := range p.Events {
			if ev.Kind == kind {
				out = append(out, evAt{p, ev})
			}
		}
	}
	return out
}

func (pp *pipe) at(pos token.Pos) string {
	if pos == token.NoPos {
		return pp.pos
	}
	return pp.k.c.P.Pos(pos)
}

func (pp *pipe) sub(role string) string { return pp.construct + ":" + role }

// triUpdates: stores of a triangle (array of three ids) into a map.
func (pp *pipe) triUpdates() []evAt {
	var out []evAt
	for _, x := range pp.events(c17.EvMapUpdate) {
		if len(x.ev.Args) != 3 {
			continue
		}
		if _, ok := ints(x.ev.Args[1], 3); !ok {
			continue
		}
		if _, _, ok := c17.MapID(x.ev.Args[0]); !ok {
			continue
		}
		out = append(out, x)
	}
	return out
}

// findMap decides which map is the working triangulation.
func (pp *pipe) findMap() bool {
	ids := map[string]bool{}
	for _, x := range pp.triUpdates() {
		id, _, _ := c17.MapID(x.ev.Args[0])
		ids[id] = true
	}
	if len(ids) == 1 {
		pp.M = sortedKeys(ids)[0]
		return true
	}
	// the working map is the one the starting triangle is stored into (outside any loop)
	seeded := map[string]bool{}
	for _, x := range pp.triUpdates() {
		if x.ev.Loop == nil {
			id, _, _ := c17.MapID(x.ev.Args[0])
			seeded[id] = true
		}
	}
	if len(seeded) == 1 {
		pp.M = sortedKeys(seeded)[0]
		return true
	}
	for _, p := range pp.res.Returns() {
		if len(p.Ret) == 1 {
			if id, _, ok := c17.MapID(p.Ret[0]); ok && ids[id] {
				pp.M = id
				return true
			}
		}
	}
	return false
}

func (pp *pipe) onM(v c17.Val) bool {
	id, _, ok := c17.MapID(v)
	return ok && id == pp.M
}

// findCopies: full copies of the input list.
func (pp *pipe) findCopies() {
	pp.inputLike = map[string]bool{pp.inputID: true}
	for changed := true; changed; {
		changed = false
		for _, x := range pp.events(c17.EvAppendSlice) {
			if x.ev.Slice == nil || len(x.ev.Args) != 1 {
				continue
			}
			bi, _ := c17.SliceInfoOf(x.ev.Slice)
			z, isC := pp.k.s.ConstSign(bi.Len)
			id := sid(x.ev.Val)
			if isC && z == 0 && pp.inputLike[sid(x.ev.Args[0])] && id != "" && !pp.inputLike[id] {
				pp.inputLike[id] = true
				changed = true
			}
		}
	}
}

// findSuper: the enclosing vertices are appended to the input list (or a copy) before the insertion starts.
func (pp *pipe) findSuper() {
	for _, x := range pp.events(c17.EvAppend) {
		if x.ev.Loop != nil || x.ev.Slice == nil || !pp.inputLike[c17.SliceID(x.ev.Slice)] {
			continue
		}
		var pts []pt
		for _, a := range x.ev.Args {
			l := c17.Leaves(a)
			if len(l) != 2 {
				pts = nil
				break
			}
			pts = append(pts, pt{l[0], l[1]})
		}
		if len(pts) == 0 {
			continue
		}
		pp.ext, pp.superPts, pp.superPos = x.ev.Val, pts, x.ev.Pos
		return
	}
}

// pointsListOf finds, in the conditions of path p, the slice whose elements at the given ids are read
// (the list the orientation / in-circle tests take their coordinates from).
func (pp *pipe) pointsListOf(p *c17.Path, ids []c17.Scalar) (c17.Val, string) {
	want := map[string]bool{}
	for _, id := range ids {
		want[pp.k.key(id)] = true
	}
	found := map[string]bool{}
	for _, c := range p.Conds {
		ds, ok := pp.k.s.AtomSymbols(c)
		if !ok {
			continue
		}
		for _, d := range ds {
			if d.Kind == c17.SymElem && want[d.Idx] && (strings.HasSuffix(d.Name, ".x") || strings.HasSuffix(d.Name, ".y")) {
				found[d.Slice] = true
			}
		}
	}
	if len(found) != 1 {
		return nil, ""
	}
	id := sortedKeys(found)[0]
	if v, ok := c17.SliceOfPath(p, id); ok {
		return v, id
	}
	return nil, ""
}

// windingOn: the winding of triangle K (ids into list X) that the conditions of path p establish.
func (pp *pipe) windingOn(p *c17.Path, X c17.Val, K []c17.Scalar) (w int, fact string) {
	k := pp.k
	var v [3]pt
	for i := 0; i < 3; i++ {
		q, ok := k.point(X, K[i])
		if !ok {
			return 0, ""
		}
		v[i] = q
	}
	O := k.orient(v[0], v[1], v[2])
	t := k.newTable()
	t.addSign(O, func(a []int) int { return a[0] })
	pos, neg := false, false
	for _, c := range p.Conds {
		f, ok := t.keys[c.Key()]
		if !ok {
			continue
		}
		if f([]int{1}) && !f([]int{-1}) {
			pos = true
			fact = short(c.Key(), 160)
		}
		if f([]int{-1}) && !f([]int{1}) {
			neg = true
			fact = short(c.Key(), 160)
		}
	}
	switch {
	case pos && !neg:
		return 1, fact
	case neg && !pos:
		return -1, fact
	}
	return 0, ""
}

// fanEvent describes one triangle stored while the hole is filled.
type fanEvent struct {
	evAt
	K       []c17.Scalar
	edge    [2]c17.Scalar
	polyID  string
	polyIdx string
	point   c17.Scalar
}

// fans: stores into the working map inside a loop whose key is {edge[0], edge[1], point}.
func (pp *pipe) fans() (out []fanEvent, odd []evAt) {
	k := pp.k
	for _, x := range pp.triUpdates() {
		if !pp.onM(x.ev.Args[0]) || x.ev.Loop == nil {
			continue
		}
		K, _ := ints(x.ev.Args[1], 3)
		fe := fanEvent{evAt: x, K: K}
		ok := false
		for i := 0; i < 3 && !ok; i++ {
			for j := 0; j < 3 && !ok; j++ {
				if i == j {
					continue
				}
				s1, i1, c1, ok1 := k.elemComp(K[i])
				s2, i2, c2, ok2 := k.elemComp(K[j])
				if ok1 && ok2 && s1 == s2 && i1 == i2 && c1 == "[0]" && c2 == "[1]" {
					fe.edge = [2]c17.Scalar{K[i], K[j]}
					fe.polyID, fe.polyIdx = s1, i1
					fe.point = K[3-i-j]
					ok = true
				}
			}
		}
		if !ok {
			odd = append(odd, x)
			continue
		}
		out = append(out, fe)
	}
	return
}

// ---------------------------------------------------------------- DEL-ORIENT (fan) and DEL-HOLE (fan completeness)

func (pp *pipe) ruleFan() {
	k, r := pp.k, pp.r
	fans, odd := pp.fans()
	cons := pp.sub("fill")
	if len(fans) == 0 {
		r.undecide("DEL-HOLE", cons, pp.pos, "no loop stores a triangle {edge[0], edge[1], inserted point} into the triangulation: the re-triangulation of the hole was not recognised")
		r.undecide("DEL-ORIENT", cons, pp.pos, "no hole-filling store found, the winding fix-up cannot be decided")
		return
	}
	for _, x := range odd {
		r.undecide("DEL-HOLE", cons, pp.at(x.ev.Pos), "a triangle stored inside a loop is not made of the two ends of one boundary edge and one more vertex: "+short(k.s.Describe(x.ev.Args[1]), 160))
		return
	}
	// one inserted point, one polygon, one loop
	pp.pi, pp.piOK = fans[0].point, true
	pp.piKey = k.key(pp.pi)
	pp.PL = fans[0].polyID
	LF := fans[0].ev.Loop.ID
	for _, f := range fans {
		if k.key(f.point) != pp.piKey || f.polyID != pp.PL || f.ev.Loop.ID != LF {
			r.undecide("DEL-HOLE", cons, pp.at(f.ev.Pos), "the hole is filled from more than one polygon / with more than one apex")
			return
		}
	}
	pos := pp.at(fans[0].ev.Pos)
	// the insertion loop is the loop whose counter the apex is
	for _, d := range k.s.Symbols(pp.pi) {
		if d.Kind == c17.SymLoop {
			pp.LI = d.Root
		}
	}
	// --- winding of every stored triangle
	wind := 0
	var facts []string
	okW := true
	for _, f := range fans {
		X, xid := pp.pointsListOf(f.p, f.K)
		if X == nil {
			r.violate("DEL-ORIENT", cons, pp.at(f.ev.Pos), "the triangle "+short(k.s.Describe(f.ev.Args[1]), 120)+" is stored on a path on which its orientation was never tested: triangles of both windings enter the triangulation, and the in-circle test is only right for one of them")
			okW = false
			break
		}
		if pp.X == nil {
			pp.X, pp.XID = X, xid
		}
		w, fact := pp.windingOn(f.p, X, f.K)
		if w == 0 {
			r.violate("DEL-ORIENT", cons, pp.at(f.ev.Pos), "the triangle "+short(k.s.Describe(f.ev.Args[1]), 120)+" is stored on a path whose conditions do not fix the sign of (bx−ax)(cy−ay) − (cx−ax)(by−ay) for ITS vertex order: the winding fix-up does not test the 2×2 orientation determinant of the triangle it stores")
			okW = false
			break
		}
		if wind != 0 && w != wind {
			r.violate("DEL-ORIENT", cons, pp.at(f.ev.Pos), "the hole is filled with triangles of both windings: "+short(k.s.Describe(f.ev.Args[1]), 120)+" is stored "+windName(w)+" (where "+fact+"), another one "+windName(wind)+": the fix-up does not swap exactly two vertices when the orientation is the wrong one")
			okW = false
			break
		}
		wind = w
		facts = append(facts, fmt.Sprintf("%s stored where %s: %s", short(k.s.Describe(f.ev.Args[1]), 100), fact, windName(w)))
	}
	if okW {
		pp.W, pp.WKnown = wind, true
		sort.Strings(facts)
		facts = dedupe(facts)
		r.hold("DEL-ORIENT", cons, pos, append([]string{fmt.Sprintf("every triangle stored while the hole is filled is %s: the path conditions fix the sign of the orientation determinant (bx−ax)(cy−ay) − (cx−ax)(by−ay) of the stored vertex order (%d stores on %d paths)", windName(wind), len(fans), len(pp.res.Paths))}, facts...)...)
	}
	// --- completeness: one triangle per polygon edge
	okH := true
	its := iterPaths(pp.res, LF)
	hasFan := map[*c17.Path]bool{}
	for _, f := range fans {
		hasFan[f.p] = true
	}
	if len(earlyExitPaths(pp.res, LF)) > 0 {
		r.violate("DEL-HOLE", cons, pos, "the loop that re-triangulates the hole can be left before the last boundary edge: the hole stays partly open")
		okH = false
	}
	if okH {
		// the fan loop runs over the whole polygon
		var PLv c17.Val
		for _, it := range its {
			if v, ok := c17.SliceOfPath(it, pp.PL); ok {
				PLv = v
			}
		}
		if PLv == nil {
			r.undecide("DEL-HOLE", cons, pos, "the boundary polygon the hole is filled from could not be followed")
			okH = false
		} else {
			ln, _ := c17.LenOf(PLv)
			if why, bad := k.fullRange(pp.res, LF, fans[0].polyIdx, ln); why != "" {
				if bad {
					r.violate("DEL-HOLE", cons, pos, "the loop that re-triangulates the hole does not visit every boundary edge: "+why)
				} else {
					r.undecide("DEL-HOLE", cons, pos, "the loop that re-triangulates the hole: "+why)
				}
				okH = false
			}
		}
	}
	if okH {
		e0, e1 := fans[0].edge[0], fans[0].edge[1]
		skipKeys := map[string]bool{}
		for _, e := range []c17.Scalar{e0, e1} {
			b := k.e.CmpAtom(token.EQL, e, pp.pi)
			if isC, _ := b.Const(); !isC {
				skipKeys[b.Atom().Key()] = true
			}
		}
		for _, it := range its {
			if hasFan[it] {
				continue
			}
			skip := false
			ent := entryOf(it, LF)
			for i, c := range it.Conds {
				if ent != nil && i >= ent.CondIndex && skipKeys[c.Key()] {
					skip = true
				}
			}
			if !skip {
				r.violate("DEL-HOLE", cons, pos, "for some boundary edge no triangle is stored although the edge does not touch the inserted point ("+short(lastConds(it, ent, 2), 200)+"): the hole stays partly open")
				okH = false
				break
			}
		}
	}
	if okH {
		r.hold("DEL-HOLE", cons, pos, "one triangle {edge[0], edge[1], inserted point} is stored for every edge of the boundary polygon (full-range loop, no early exit; an edge is skipped only if it touches the inserted point itself)",
			"polygon "+pp.PL+", apex "+short(pp.piKey, 80))
	}
}

func lastConds(p *c17.Path, ent *c17.LoopEntry, n int) string {
	from := 0
	if ent != nil {
		from = ent.CondIndex
	}
	cs := p.Conds[from:]
	if len(cs) > n {
		cs = cs[len(cs)-n:]
	}
	var out []string
	for _, c := range cs {
		out = append(out, short(c.Key(), 90))
	}
	return strings.Join(out, " ∧ ")
}

func dedupe(xs []string) []string {
	var out []string
	for i, x := range xs {
		if i == 0 || x != xs[i-1] {
			out = append(out, x)
		}
	}
	return out
}
