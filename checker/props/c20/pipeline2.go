package c20

// Seed triangle (DEL-ORIENT, DEL-DEP) and the collection of the triangles whose circumcircle
// contains the inserted point (DEL-INCIRCLE).

import (
	"fmt"
	"go/token"
	"go/types"
	"strings"

	"polycheck/props/c17"
)

// isFinal: id is a version of the family of root that every other version flows into.
func (pp *pipe) isFinal(id, root string) bool {
	if !pp.fl.family(root)[id] {
		return false
	}
	_, ok := pp.fl.final(id)
	return ok
}

// finalOf: the version of the family of id that every other version flows into.
func (pp *pipe) finalOf(id string) (string, bool) {
	for _, m := range sortedKeys(pp.fl.family(id)) {
		if _, ok := pp.fl.final(m); ok {
			return m, true
		}
	}
	return "", false
}

// bound describes a loop-carried scalar that accumulates a lower / upper bound of one coordinate.
type bound struct {
	sym   c17.Scalar
	upper bool
	axis  int
	loop  string
	idx   string // index key of the element read
	list  string // the list the element is read from
}

// boundsIn classifies the loop-carried symbols of a (bounding-box accumulators over the input list).
func (pp *pipe) boundsIn(a c17.Scalar) ([]bound, string) {
	k := pp.k
	var out []bound
	for _, d := range k.s.Symbols(a) {
		if d.Kind != c17.SymLoop {
			return nil, "the enclosing triangle depends on " + d.Name + ", which is not a value accumulated over the input points"
		}
		h := k.s.SymbolScalar(d)
		its := iterPaths(pp.res, d.Root)
		if len(its) == 0 {
			return nil, "no complete iteration of the loop " + d.Root + " could be followed"
		}
		b := bound{sym: h, loop: d.Root, axis: -1}
		decided := false
		for _, it := range its {
			var next c17.Scalar
			found := false
			for j, hv := range it.Iter.Entry.Havoc {
				hl, nl := c17.Leaves(hv), c17.Leaves(it.Iter.Next[j])
				for i := range hl {
					if i < len(nl) && k.s.IsSymbol(hl[i], d) {
						next, found = nl[i], true
					}
				}
			}
			if !found {
				return nil, "the accumulator " + d.Name + " is not a scalar the engine tracks"
			}
			var other c17.Scalar
			upper, have := false, false
			if op, args, isApp := k.s.AppOf(next); isApp && (op == "min" || op == "max") && len(args) == 2 {
				self := false
				for _, x := range args {
					if k.s.IsSymbol(x, d) {
						self = true
					} else {
						other = x
					}
				}
				if !self {
					return nil, "one iteration turns " + d.Name + " into " + short(k.s.Show(next, 3), 120)
				}
				upper, have = op == "max", true
			} else if k.s.IsSymbol(next, d) {
				// unchanged on this path (conditional form): the updating path decides
				continue
			} else {
				// conditional assignment: next = coordinate where the conditions compare it with the accumulator
				other = next
				lt := k.e.CmpAtom(token.LSS, other, h)
				le := k.e.CmpAtom(token.LEQ, other, h)
				gt := k.e.CmpAtom(token.GTR, other, h)
				ge := k.e.CmpAtom(token.GEQ, other, h)
				for _, c := range it.Conds {
					switch c.Key() {
					case lt.Atom().Key(), le.Atom().Key():
						upper, have = false, true
					case gt.Atom().Key(), ge.Atom().Key():
						upper, have = true, true
					}
				}
			}
			if !have {
				return nil, "one iteration turns " + d.Name + " into " + short(k.s.Show(next, 3), 120) + ", which is neither min / max with a coordinate nor a guarded assignment of one"
			}
			sl, idx, comp, ok := k.elemComp(other)
			if !ok || !pp.inputLike[sl] {
				return nil, "the accumulator " + d.Name + " is combined with " + short(k.s.Show(other, 3), 100) + ", not with a coordinate of an input point"
			}
			ax := -1
			switch comp {
			case ".x":
				ax = 0
			case ".y":
				ax = 1
			}
			if ax < 0 {
				return nil, "unknown coordinate " + comp
			}
			if decided && (b.upper != upper || b.axis != ax) {
				return nil, "the accumulator " + d.Name + " is updated in two different ways"
			}
			b.upper, b.axis, b.idx, b.list, decided = upper, ax, idx, sl, true
		}
		if !decided {
			return nil, "the accumulator " + d.Name + " is never updated"
		}
		out = append(out, b)
	}
	return out, ""
}

// signOverBox decides the sign of a as ±(Ux−Lx)^i (Uy−Ly)^j with positive box extents.
func (pp *pipe) signOverBox(a c17.Scalar, bs []bound) (int, string) {
	k := pp.k
	if sg, isC := k.s.ConstSign(a); isC {
		return sg, "constant"
	}
	var lo, up [2]*c17.Scalar
	for i := range bs {
		b := &bs[i]
		if b.upper {
			if up[b.axis] != nil && k.key(*up[b.axis]) != k.key(b.sym) {
				return 0, ""
			}
			up[b.axis] = &b.sym
		} else {
			if lo[b.axis] != nil && k.key(*lo[b.axis]) != k.key(b.sym) {
				return 0, ""
			}
			lo[b.axis] = &b.sym
		}
	}
	// first: written in (width, height) of the box, do all coefficients have one sign?
	if lo[0] != nil && up[0] != nil && lo[1] != nil && up[1] != nil {
		f64 := types.Typ[types.Float64]
		q, ok := a, true
		var names [2]string
		for ax := 0; ax < 2 && ok; ax++ {
			e := k.e.Sym([]string{"boxWidth", "boxHeight"}[ax], f64).(c17.Scalar)
			names[ax] = k.key(e)
			var d c17.SymDesc
			if d, ok = k.s.SymbolOf(*up[ax]); ok {
				q, ok = k.s.Subst(q, d, k.add(*lo[ax], e))
			}
		}
		if ok {
			p, n, syms, _ := k.s.CoefSigns(q)
			free := false
			for _, sname := range syms {
				if sname != names[0] && sname != names[1] {
					free = true
				}
			}
			switch {
			case !free && n == 0 && p > 0:
				return 1, "a polynomial in the width and height (max − min) of the bounding box of the input with positive coefficients only"
			case !free && p == 0 && n > 0:
				return -1, "a polynomial in the width and height (max − min) of the bounding box of the input with negative coefficients only"
			}
		}
	}
	ext := [2]*c17.Scalar{}
	for ax := 0; ax < 2; ax++ {
		if lo[ax] != nil && up[ax] != nil {
			d := k.sub(*up[ax], *lo[ax])
			ext[ax] = &d
		}
	}
	t := k.newTable()
	pow := func(x *c17.Scalar, n int) (c17.Scalar, bool) {
		out := k.num(1)
		if n == 0 {
			return out, true
		}
		if x == nil {
			return out, false
		}
		for i := 0; i < n; i++ {
			out = k.mul(out, *x)
		}
		return out, true
	}
	for i := 0; i <= 3; i++ {
		for j := 0; j <= 3; j++ {
			if i+j == 0 {
				continue
			}
			wi, ok1 := pow(ext[0], i)
			hj, ok2 := pow(ext[1], j)
			if !ok1 || !ok2 {
				continue
			}
			t.addSign(k.mul(wi, hj), func([]int) int { return 1 })
		}
	}
	b := k.e.CmpAtom(token.GTR, a, k.num(0))
	f, ok := t.keys[b.Atom().Key()]
	if !ok {
		return 0, ""
	}
	form := "a positive multiple of a product of the extents (max − min) of the bounding box of the input"
	if f(nil) {
		return 1, form
	}
	return -1, "a negative multiple of a product of the extents (max − min) of the bounding box of the input"
}

// ruleSeed: the triangle the triangulation starts from is made of the appended enclosing vertices and has
// the winding the fix-up establishes; the bounding box it is computed from reads every input point.
func (pp *pipe) ruleSeed() {
	k, r := pp.k, pp.r
	cons := pp.sub("seed")
	if pp.ext == nil {
		r.undecide("DEL-SUPER", cons, pp.pos, "no enclosing vertices are appended to the input list before the insertion starts")
		return
	}
	var seeds []evAt
	seen := map[token.Pos]bool{}
	for _, x := range pp.triUpdates() {
		if pp.onM(x.ev.Args[0]) && x.ev.Loop == nil && !seen[x.ev.Pos] {
			seen[x.ev.Pos] = true
			seeds = append(seeds, x)
		}
	}
	if len(seeds) == 0 {
		r.violate("DEL-SUPER", cons, pp.at(pp.superPos), "no triangle is stored before the first point is inserted: there is nothing whose circumcircle could contain it")
		return
	}
	// the starting triangle is there whenever a point is inserted
	if pp.LI != "" {
		for _, p := range pp.res.Paths {
			if loopIndex(p, pp.LI) < 0 {
				continue
			}
			has := false
			for _, ev := range p.Events {
				if ev.Kind == c17.EvMapUpdate && seen[ev.Pos] {
					has = true
				}
			}
			if !has {
				r.violate("DEL-SUPER", cons, pp.at(seeds[0].ev.Pos), "the starting triangle is not stored on every path that reaches the insertion loop (e.g. where "+short(firstConds(p, entryOf(p, pp.LI)), 160)+"): for those inputs the first point finds no triangle and nothing is triangulated")
				return
			}
		}
	}
	okS, okO := true, true
	var factsS, factsO []string
	var boxes []bound
	for _, x := range seeds {
		K, _ := ints(x.ev.Args[1], 3)
		var v [3]pt
		used := map[int]bool{}
		for i, c := range K {
			j := -1
			for q := range pp.superPts {
				if k.s.Equal(c, k.add(pp.n, k.num(int64(q)))) {
					j = q
				}
			}
			if j < 0 || used[j] {
				r.violate("DEL-SUPER", cons, pp.at(x.ev.Pos), fmt.Sprintf("the starting triangle %s is not made of three different appended enclosing vertices (ids len(input) … len(input)+%d)", short(k.s.Describe(x.ev.Args[1]), 120), len(pp.superPts)-1))
				okS = false
				break
			}
			used[j] = true
			v[i] = pp.superPts[j]
		}
		if !okS {
			break
		}
		factsS = append(factsS, "starting triangle "+short(k.s.Describe(x.ev.Args[1]), 120)+" = the appended enclosing vertices")
		O := k.orient(v[0], v[1], v[2])
		bs, why := pp.boundsIn(O)
		if why != "" {
			r.undecide("DEL-ORIENT", cons, pp.at(x.ev.Pos), "the winding of the starting triangle cannot be decided: "+why)
			okO = false
			break
		}
		boxes = append(boxes, bs...)
		sg, form := pp.signOverBox(O, bs)
		if sg == 0 {
			r.undecide("DEL-ORIENT", cons, pp.at(x.ev.Pos), "the orientation determinant of the starting triangle, "+short(k.s.Show(O, 4), 200)+", is not a signed product of bounding-box extents: its winding cannot be decided")
			okO = false
			break
		}
		if pp.WKnown && sg != pp.W {
			r.violate("DEL-ORIENT", cons, pp.at(x.ev.Pos), fmt.Sprintf("the starting (enclosing) triangle is %s — its orientation determinant is %s — while every triangle stored later is made %s: the in-circle test is wrong for one of the two, so the first insertion already misjudges the enclosing triangle", windName(sg), form, windName(pp.W)))
			okO = false
			break
		}
		if !pp.WKnown {
			pp.W, pp.WKnown = sg, true
		}
		pp.seedTri = append(pp.seedTri, v)
		pp.seedSg = sg
		factsO = append(factsO, fmt.Sprintf("orientation determinant of the starting triangle = %s: %s (%s), like every triangle stored later", short(k.s.Show(O, 3), 160), windName(sg), form))
	}
	if okS {
		r.hold("DEL-SUPER", cons, pp.at(seeds[0].ev.Pos), factsS...)
	}
	if okS && okO {
		r.hold("DEL-ORIENT", cons, pp.at(seeds[0].ev.Pos), factsO...)
	}
	pp.boxes = boxes
	if !(okS && okO) {
		pp.seedTri = nil
	}
	// DEL-DEP: the bounding box reads both coordinates of every input point
	if okS && okO {
		dcons := pp.sub("bounds")
		have := map[string]bool{}
		okD := true
		for _, b := range boxes {
			have[fmt.Sprintf("%d/%v", b.axis, b.upper)] = true
			if len(earlyExitPaths(pp.res, b.loop)) > 0 {
				r.violate("DEL-DEP", dcons, pp.at(pp.superPos), "the loop that accumulates the bounding box of the input can be left early: later points do not reach the enclosing triangle, which then need not enclose them")
				okD = false
				break
			}
			if why, bad := k.fullRange(pp.res, b.loop, b.idx, pp.n); why != "" {
				if bad {
					r.violate("DEL-DEP", dcons, pp.at(pp.superPos), "the bounding box the enclosing triangle is computed from does not read every input point: "+why)
				} else {
					r.undecide("DEL-DEP", dcons, pp.at(pp.superPos), "the bounding-box loop: "+why)
				}
				okD = false
				break
			}
		}
		if okD && len(have) < 4 {
			r.violate("DEL-DEP", dcons, pp.at(pp.superPos), "the enclosing triangle does not depend on all four of min x, max x, min y, max y of the input")
			okD = false
		}
		if okD {
			pp.ruleFold(boxes)
		}
		if okD {
			r.hold("DEL-DEP", dcons, pp.at(pp.superPos), "min and max of both coordinates are accumulated over every input point (index 0, step 1, while index < len(input), no early exit) and all four reach the enclosing triangle")
		}
	}
}

// ---------------------------------------------------------------- DEL-INCIRCLE

// inCircleTable: vocabulary O^i·D^j over the assignment (sign O, sign D).
func (k *K) inCircleTable(O, D c17.Scalar) *table {
	t := k.newTable()
	t.about(O, D)
	pw := func(x c17.Scalar, n int) c17.Scalar {
		out := k.num(1)
		for i := 0; i < n; i++ {
			out = k.mul(out, x)
		}
		return out
	}
	for i := 0; i <= 3; i++ {
		for j := 0; j <= 1; j++ {
			if i+j == 0 {
				continue
			}
			i, j := i, j
			t.addSign(k.mul(pw(O, i), pw(D, j)), func(a []int) int {
				s := 1
				if i%2 == 1 {
					s *= a[0]
				}
				if j%2 == 1 {
					s *= a[1]
				}
				return s
			})
		}
	}
	return t
}

func showSigns(a []int) string {
	o, d := "counter-clockwise", "> 0"
	if a[0] < 0 {
		o = "clockwise"
	}
	if a[1] < 0 {
		d = "< 0"
	}
	return "triangle " + o + ", in-circle determinant " + d
}

// decideInCircle compares decision paths with "p strictly inside the circumcircle <=> orient·incircle > 0"
// on the windings that can occur.
func (pp *pipe) decideInCircle(paths []dpath, a, b, c, p pt, yes, no string) (string, bool) {
	k := pp.k
	O := k.orient(a, b, c)
	D := k.incircle(a, b, c, p)
	// the circumcentre form divides by (2·orient)²
	k.e.AssumePositive(k.mul(O, O))
	t := k.inCircleTable(O, D)
	ws := []int{-1, 1}
	if pp.WKnown {
		ws = []int{pp.W}
	}
	return t.decide(paths, product(ws, []int{-1, 1}), func(x []int) string {
		if x[0]*x[1] > 0 {
			return yes
		}
		return no
	}, showSigns)
}

type collectEvent struct {
	evAt
	K []c17.Scalar
}

func (pp *pipe) collects() []collectEvent {
	var out []collectEvent
	for _, x := range pp.events(c17.EvAppend) {
		if len(x.ev.Args) != 1 || x.ev.Loop == nil {
			continue
		}
		K, ok := ints(x.ev.Args[0], 3)
		if !ok {
			continue
		}
		all := true
		for i, c := range K {
			m, _, comp, ok := pp.k.keyComp(c)
			if !ok || m != pp.M || comp != fmt.Sprintf("[%d]", i) {
				all = false
			}
		}
		if all {
			out = append(out, collectEvent{x, K})
		}
	}
	return out
}

// testedPoint finds, in the conditions of p from index from on, the one element of list X that is read
// besides the vertices K: the point tested against the circumcircle.
func (pp *pipe) testedPoint(p *c17.Path, from int, K []c17.Scalar) (q pt, idx string, xid string, why string) {
	k := pp.k
	tri := map[string]bool{}
	for _, c := range K {
		tri[k.key(c)] = true
	}
	type cand struct{ x, y *c17.SymDesc }
	cands := map[string]*cand{}
	slices := map[string]bool{}
	pslices := map[string]bool{}
	for i, c := range p.Conds {
		if i < from {
			continue
		}
		ds, ok := k.s.AtomSymbols(c)
		if !ok {
			continue
		}
		for i := range ds {
			d := ds[i]
			if d.Kind != c17.SymElem {
				continue
			}
			isX, isY := strings.HasSuffix(d.Name, ".x"), strings.HasSuffix(d.Name, ".y")
			if !isX && !isY {
				continue
			}
			if tri[d.Idx] {
				slices[d.Slice] = true
				continue
			}
			pslices[d.Slice] = true
			cd := cands[d.Idx]
			if cd == nil {
				cd = &cand{}
				cands[d.Idx] = cd
			}
			if isX {
				cd.x = &d
			} else {
				cd.y = &d
			}
		}
	}
	if len(slices) != 1 {
		return pt{}, "", "", "the test does not read its coordinates from one point list"
	}
	if len(cands) != 1 || len(pslices) != 1 {
		return pt{}, "", "", fmt.Sprintf("the test reads %d points besides the triangle's vertices", len(cands))
	}
	// the tested point may be read from the vertex list itself or from another version of the input list
	if ps := sortedKeys(pslices)[0]; ps != sortedKeys(slices)[0] && (pp.fl == nil || !pp.fl.family(ps)[sortedKeys(slices)[0]]) {
		return pt{}, "", "", "the tested point is read from " + ps + ", which is not a version of the list the vertices are read from"
	}
	for id, cd := range cands {
		if cd.x == nil || cd.y == nil {
			return pt{}, "", "", "the test reads only one coordinate of the inserted point"
		}
		return pt{k.s.SymbolScalar(*cd.x), k.s.SymbolScalar(*cd.y)}, id, sortedKeys(slices)[0], ""
	}
	return pt{}, "", "", "unreachable"
}

func (pp *pipe) ruleCollect() {
	k, r := pp.k, pp.r
	cons := pp.sub("collect")
	cs := pp.collects()
	if len(cs) == 0 {
		r.undecide("DEL-INCIRCLE", cons, pp.pos, "no loop over the triangulation appends the triangle it visits to a list: the collection of the triangles whose circumcircle contains the inserted point was not recognised")
		return
	}
	LC := cs[0].ev.Loop.ID
	pp.LC = LC
	pos := pp.at(cs[0].ev.Pos)
	has := map[*c17.Path]bool{}
	for _, c := range cs {
		if c.ev.Loop.ID != LC {
			r.undecide("DEL-INCIRCLE", cons, pos, "triangles are collected in more than one loop")
			return
		}
		has[c.p] = true
	}
	if bl, ok := pp.finalOf(c17.SliceID(cs[0].ev.Slice)); ok {
		pp.BL = bl
	}
	if len(earlyExitPaths(pp.res, LC)) > 0 {
		r.violate("DEL-INCIRCLE", cons, pos, "the scan over the triangulation can be left before every triangle was tested: a triangle whose circumcircle contains the inserted point may stay")
		return
	}
	ent := entryOf(cs[0].p, LC)
	q, qidx, xid, why := pp.testedPoint(cs[0].p, ent.CondIndex, cs[0].K)
	if why != "" {
		r.undecide("DEL-INCIRCLE", cons, pos, "a triangle is collected under conditions that are not an in-circle test of one point against its three vertices: "+why)
		return
	}
	X, ok := c17.SliceOfPath(cs[0].p, xid)
	if !ok {
		r.undecide("DEL-INCIRCLE", cons, pos, "the point list of the in-circle test could not be followed")
		return
	}
	if pp.piOK && qidx != pp.piKey {
		r.violate("DEL-INCIRCLE", cons, pos, "the circumcircles are tested against point ["+short(qidx, 80)+"], but the hole is re-triangulated around point ["+short(pp.piKey, 80)+"]")
		return
	}
	if pp.XID != "" && xid != pp.XID {
		r.undecide("DEL-INCIRCLE", cons, pos, "the in-circle test reads list "+xid+", the orientation fix-up list "+pp.XID)
		return
	}
	var v [3]pt
	for i := range v {
		v[i], _ = k.point(X, cs[0].K[i])
	}
	var paths []dpath
	for _, it := range iterPaths(pp.res, LC) {
		e := entryOf(it, LC)
		out := "keep"
		if has[it] {
			out = "collect"
		}
		paths = append(paths, dpath{conds: it.Conds[e.CondIndex:], out: constOut(out)})
	}
	msg, bad := pp.decideInCircle(paths, v[0], v[1], v[2], q, "collect", "keep")
	wnote := "for both windings"
	if pp.WKnown {
		wnote = "for the winding every stored triangle has (" + windName(pp.W) + ")"
	}
	switch {
	case msg == "":
		r.hold("DEL-INCIRCLE", cons, pos, "a triangle is collected exactly when orient(a,b,c) · | a−p  |a−p|² ; b−p  |b−p|² ; c−p  |c−p|² | > 0 (polynomial identity in the six vertex coordinates and the two coordinates of the inserted point), "+wnote,
			fmt.Sprintf("%d iteration paths of the scan compared on the sign cases of (orientation, in-circle determinant); tested point = inserted point [%s]", len(paths), short(qidx, 60)))
	case bad:
		r.violate("DEL-INCIRCLE", cons, pos, "the triangles removed for an inserted point are not those whose circumcircle strictly contains it ("+wnote+"): "+msg+" (\"collect\" = the triangle is removed and re-triangulated)")
	default:
		r.undecide("DEL-INCIRCLE", cons, pos, "the in-circle test could not be compared with the determinant: "+msg)
	}
}

func firstConds(p *c17.Path, ent *c17.LoopEntry) string {
	to := len(p.Conds)
	if ent != nil && ent.CondIndex < to {
		to = ent.CondIndex
	}
	var out []string
	for _, c := range p.Conds[:to] {
		out = append(out, short(c.Key(), 70))
	}
	return strings.Join(out, " ∧ ")
}
