package c20

// Removal of the collected triangles, the boundary polygon of the hole (DEL-HOLE), removal of the
// triangles that touch the enclosing triangle (DEL-SUPER), coverage of the insertion loop (DEL-INSERT).

import (
	"fmt"
	"go/token"
	"strings"

	"polycheck/props/c17"
)

// idxOf rebuilds the index scalar with canonical key `key` and names the loop whose counter it is.
func (pp *pipe) idxOf(key string) (c17.Scalar, string, bool) {
	for _, p := range pp.res.Paths {
		if p.Kind != c17.EndLoopBack || p.Iter == nil || p.Iter.Entry == nil {
			continue
		}
		if idx, ok := pp.k.s.IndexFromKey(p, key); ok {
			return idx, p.Iter.Entry.ID, true
		}
	}
	return c17.Scalar{}, "", false
}

func (pp *pipe) sliceByID(id string) (c17.Val, bool) {
	for _, p := range pp.res.Paths {
		if v, ok := c17.SliceOfPath(p, id); ok {
			return v, true
		}
	}
	return nil, false
}

// wholeElem: K is the three components, in order, of one element of a list; returns list and index key.
func (pp *pipe) wholeElem(K []c17.Scalar) (slice, idx string, ok bool) {
	for i, c := range K {
		s, ix, comp, is := pp.k.elemComp(c)
		if !is || comp != fmt.Sprintf("[%d]", i) || (i > 0 && (s != slice || ix != idx)) {
			return "", "", false
		}
		slice, idx = s, ix
	}
	return slice, idx, true
}

// ---------------------------------------------------------------- removal of the collected triangles

func (pp *pipe) ruleRemove() {
	k, r := pp.k, pp.r
	cons := pp.sub("remove")
	if pp.BL == "" {
		r.undecide("DEL-HOLE", cons, pp.pos, "the list of collected triangles was not found, their removal cannot be decided")
		return
	}
	fam := pp.fl.family(pp.BL)
	var dels []evAt
	for _, x := range pp.events(c17.EvMapDelete) {
		if len(x.ev.Args) != 2 || !pp.onM(x.ev.Args[0]) {
			continue
		}
		K, ok := ints(x.ev.Args[1], 3)
		if !ok {
			continue
		}
		if sl, _, ok := pp.wholeElem(K); ok && fam[sl] {
			dels = append(dels, x)
		}
	}
	if len(dels) == 0 {
		// removed while collecting?
		cs := pp.collects()
		all := len(cs) > 0
		for _, c := range cs {
			found := false
			for _, ev := range c.p.Events {
				if ev.Kind == c17.EvMapDelete && len(ev.Args) == 2 && pp.onM(ev.Args[0]) && k.s.SameVal(ev.Args[1], c.ev.Args[0]) {
					found = true
				}
			}
			if !found {
				all = false
			}
		}
		if all {
			r.hold("DEL-HOLE", cons, pp.at(cs[0].ev.Pos), "every collected triangle is deleted from the triangulation on the path that collects it")
			return
		}
		r.violate("DEL-HOLE", cons, pp.pos, "the triangles whose circumcircle contains the inserted point are collected but never deleted from the triangulation: they stay and overlap the triangles that fill the hole")
		return
	}
	pos := pp.at(dels[0].ev.Pos)
	if dels[0].ev.Loop == nil {
		r.violate("DEL-HOLE", cons, pos, "only one collected triangle is deleted, not every one of them")
		return
	}
	LR := dels[0].ev.Loop.ID
	K, _ := ints(dels[0].ev.Args[1], 3)
	sl, idxKey, _ := pp.wholeElem(K)
	if !pp.isFinal(sl, pp.BL) {
		r.violate("DEL-HOLE", cons, pos, "the triangles deleted are those of "+sl+", not of the complete list of collected triangles "+pp.BL)
		return
	}
	if len(earlyExitPaths(pp.res, LR)) > 0 {
		r.violate("DEL-HOLE", cons, pos, "the loop that deletes the collected triangles can be left early: some of them stay in the triangulation")
		return
	}
	BLv, ok := pp.sliceByID(sl)
	if !ok {
		r.undecide("DEL-HOLE", cons, pos, "the list of collected triangles could not be followed")
		return
	}
	ln, _ := c17.LenOf(BLv)
	if why, bad := k.fullRange(pp.res, LR, idxKey, ln); why != "" {
		if bad {
			r.violate("DEL-HOLE", cons, pos, "not every collected triangle is deleted from the triangulation: "+why)
		} else {
			r.undecide("DEL-HOLE", cons, pos, "the loop that deletes the collected triangles: "+why)
		}
		return
	}
	has := map[*c17.Path]bool{}
	for _, d := range dels {
		has[d.p] = true
	}
	for _, it := range iterPaths(pp.res, LR) {
		if !has[it] {
			r.violate("DEL-HOLE", cons, pos, "some collected triangle is skipped by the deleting loop ("+short(lastConds(it, entryOf(it, LR), 2), 160)+")")
			return
		}
	}
	r.hold("DEL-HOLE", cons, pos, "every collected triangle (full-range loop over "+pp.BL+", no early exit) is deleted from the triangulation with the key it was stored under")
}

// ---------------------------------------------------------------- boundary polygon

// edgesOf checks that the edge list `id` is exactly the three sides of one triangle, which must be an
// element of a list; returns that list and the index key.
func (pp *pipe) edgesOf(id string) (list, idx string, why string) {
	k := pp.k
	v, ok := pp.sliceByID(id)
	if !ok {
		return "", "", "the edge list could not be followed"
	}
	si, _ := c17.SliceInfoOf(v)
	if si.Origin != "array" {
		return "", "", "the edges compared are not taken from a literal list of a triangle's sides"
	}
	if !k.s.Equal(si.Len, k.num(3)) {
		return "", "", "a triangle's edge list has " + k.s.Show(si.Len, 2) + " entries, not 3"
	}
	pairs := map[string]bool{}
	for j := int64(0); j < 3; j++ {
		el, ok := k.s.ContentAt(v, k.num(j))
		if !ok {
			return "", "", "an entry of the edge list is unknown"
		}
		E, ok := ints(el, 2)
		if !ok {
			return "", "", "an entry of the edge list is not a pair of vertex ids"
		}
		var cs [2]string
		for i, c := range E {
			s, ix, comp, is := k.elemComp(c)
			if !is || (list != "" && (s != list || ix != idx)) {
				return "", "", "the edge list is not made of the vertices of one triangle of a list"
			}
			list, idx = s, ix
			cs[i] = comp
		}
		if cs[0] == cs[1] {
			return "", "", "an edge joins vertex " + cs[0] + " with itself"
		}
		if cs[0] > cs[1] {
			cs[0], cs[1] = cs[1], cs[0]
		}
		pairs[cs[0]+cs[1]] = true
	}
	for _, want := range []string{"[0][1]", "[1][2]", "[0][2]"} {
		if !pairs[want] {
			return "", "", "the edge list of a triangle does not contain its side " + want + " (it has " + strings.Join(sortedKeys(pairs), ", ") + "): that side never becomes part of the boundary of the hole"
		}
	}
	return list, idx, ""
}

type polyEvent struct {
	evAt
	E        [2]c17.Scalar
	es, eidx string
}

func (pp *pipe) polyAppends() []polyEvent {
	var out []polyEvent
	for _, x := range pp.events(c17.EvAppend) {
		if len(x.ev.Args) != 1 || x.ev.Loop == nil {
			continue
		}
		E, ok := ints(x.ev.Args[0], 2)
		if !ok {
			continue
		}
		s0, i0, c0, ok0 := pp.k.elemComp(E[0])
		s1, i1, c1, ok1 := pp.k.elemComp(E[1])
		if !ok0 || !ok1 || s0 != s1 || i0 != i1 || c0 != "[0]" || c1 != "[1]" {
			continue
		}
		out = append(out, polyEvent{x, [2]c17.Scalar{E[0], E[1]}, s0, i0})
	}
	return out
}

func boolKey(v c17.Val) (key string, isConst, val, ok bool) {
	b, is := v.(c17.BoolV)
	if !is {
		return "", false, false, false
	}
	if c, x := b.Const(); c {
		return "", true, x, true
	}
	return b.Atom().Key(), false, false, true
}

func (pp *pipe) ruleBoundary() {
	k, r := pp.k, pp.r
	cons := pp.sub("boundary")
	und := func(pos, msg string) { r.undecide("DEL-HOLE", cons, pos, msg) }
	bad := func(pos, msg string) { r.violate("DEL-HOLE", cons, pos, msg) }
	pas := pp.polyAppends()
	if len(pas) == 0 {
		und(pp.pos, "no loop appends an edge of a collected triangle to a polygon: the construction of the boundary of the hole was not recognised")
		return
	}
	pos := pp.at(pas[0].ev.Pos)
	LE, ES1, j1 := pas[0].ev.Loop.ID, pas[0].es, pas[0].eidx
	hasApp := map[*c17.Path]bool{}
	for _, a := range pas {
		if a.ev.Loop.ID != LE || a.es != ES1 {
			und(pos, "boundary edges are appended at more than one place")
			return
		}
		hasApp[a.p] = true
	}
	// the polygon that is filled is the final version of the list the edges are appended to
	if pp.PL != "" && !pp.isFinal(pp.PL, c17.SliceID(pas[0].ev.Slice)) {
		bad(pos, "the hole is re-triangulated from "+pp.PL+", which is not the complete list of boundary edges (the list "+c17.SliceID(pas[0].ev.Slice)+" grows into)")
		return
	}
	// the edge comes from the three sides of a collected triangle
	BL1, tiKey, why := pp.edgesOf(ES1)
	if why != "" {
		if strings.Contains(why, "does not contain") || strings.Contains(why, "with itself") || strings.Contains(why, "not 3") {
			bad(pos, why)
		} else {
			und(pos, why)
		}
		return
	}
	if pp.BL != "" && !pp.isFinal(BL1, pp.BL) {
		bad(pos, "the boundary is built from the triangles of "+BL1+", not from the complete list of collected triangles "+pp.BL)
		return
	}
	BLv, _ := pp.sliceByID(BL1)
	blLen, _ := c17.LenOf(BLv)
	tiIdx, LT, ok := pp.idxOf(tiKey)
	if !ok {
		und(pos, "the collected triangle whose edges are tested, ["+short(tiKey, 60)+"], is not indexed by a loop counter")
		return
	}
	for _, lp := range []struct {
		id, key, what string
		bound         c17.Scalar
	}{{LT, tiKey, "collected triangles", blLen}, {LE, j1, "three edges of a collected triangle", k.num(3)}} {
		if len(earlyExitPaths(pp.res, lp.id)) > 0 {
			bad(pos, "the loop over the "+lp.what+" can be left early: part of the boundary of the hole is missing")
			return
		}
		if why, isBad := k.fullRange(pp.res, lp.id, lp.key, lp.bound); why != "" {
			if isBad {
				bad(pos, "the loop over the "+lp.what+" does not visit all of them: "+why+" — part of the boundary of the hole is missing")
			} else {
				und(pos, "the loop over the "+lp.what+": "+why)
			}
			return
		}
	}
	pp.sharedSearch(cons, pos, pas, hasApp, LE, ES1, BL1, blLen, tiIdx)
}

// ---------------------------------------------------------------- DEL-SUPER: cleanup

func (pp *pipe) ruleCleanup() {
	k, r := pp.k, pp.r
	cons := pp.sub("cleanup")
	var dels []evAt
	for _, x := range pp.events(c17.EvMapDelete) {
		if len(x.ev.Args) != 2 || !pp.onM(x.ev.Args[0]) || x.ev.Loop == nil {
			continue
		}
		if pp.LC != "" && x.ev.Loop.ID == pp.LC {
			continue // the collected triangle is deleted on the spot: that is the removal, not the clean-up
		}
		K, ok := ints(x.ev.Args[1], 3)
		if !ok {
			continue
		}
		all := true
		for i, c := range K {
			m, _, comp, ok := k.keyComp(c)
			if !ok || m != pp.M || comp != fmt.Sprintf("[%d]", i) {
				all = false
			}
		}
		if all {
			dels = append(dels, x)
		}
	}
	// or: the triangles to keep are copied into a fresh map that is returned instead
	copyMode, R := false, ""
	if len(dels) == 0 {
		for _, x := range pp.triUpdates() {
			id, fresh, _ := c17.MapID(x.ev.Args[0])
			if id == pp.M || !fresh || x.ev.Loop == nil {
				continue
			}
			K, _ := ints(x.ev.Args[1], 3)
			all := true
			for i, c := range K {
				m, _, comp, ok := k.keyComp(c)
				if !ok || m != pp.M || comp != fmt.Sprintf("[%d]", i) {
					all = false
				}
			}
			if all && (R == "" || R == id) {
				R = id
				copyMode = true
				dels = append(dels, evAt{x.p, c17.Event{Kind: x.ev.Kind, Args: []c17.Val{x.ev.Args[0], x.ev.Args[1]}, Loop: x.ev.Loop, Pos: x.ev.Pos, In: x.ev.In}})
			}
		}
	}
	// the map handed out is the cleaned one
	want := pp.M
	if copyMode {
		want = R
	}
	for _, p := range pp.res.Returns() {
		if len(p.Ret) == 1 {
			if id, _, ok := c17.MapID(p.Ret[0]); ok && id != want {
				r.violate("DEL-SUPER", cons, pp.pos, "the map returned ("+id+") is not the triangulation the enclosing triangle's neighbours were removed from ("+want+")")
				return
			}
		}
	}
	if len(dels) == 0 {
		r.violate("DEL-SUPER", cons, pp.pos, "no loop over the finished triangulation deletes triangles: the triangles that use a vertex of the enclosing triangle are returned, with vertex ids beyond the input points")
		return
	}
	pos := pp.at(dels[0].ev.Pos)
	LS := dels[0].ev.Loop.ID
	has := map[*c17.Path]bool{}
	for _, d := range dels {
		if d.ev.Loop.ID != LS {
			r.undecide("DEL-SUPER", cons, pos, "triangles are deleted from the finished triangulation in more than one loop")
			return
		}
		has[d.p] = true
	}
	if len(earlyExitPaths(pp.res, LS)) > 0 {
		r.violate("DEL-SUPER", cons, pos, "the clean-up loop can be left before every triangle was looked at")
		return
	}
	K, _ := ints(dels[0].ev.Args[1], 3)
	cnt := len(pp.superPts)
	if cnt == 0 {
		cnt = 3
	}
	t := k.newTable()
	t.about(K...)
	for i := range K {
		i := i
		for c := int64(-4); c <= int64(cnt)+2; c++ {
			t.addCompare(K[i], pp.n, c, func(a []int) int { return a[i] }, func([]int) int { return 0 })
		}
	}
	for i := range K {
		for j := range K {
			if i != j {
				i, j := i, j
				t.addCompare(K[i], K[j], 0, func(a []int) int { return a[i] }, func(a []int) int { return a[j] })
			}
		}
	}
	var vals []int
	for d := -2; d < cnt; d++ {
		vals = append(vals, d)
	}
	var paths []dpath
	for _, p := range pp.res.Paths {
		if p.Kind != c17.EndLoopBack || p.Iter == nil || p.Iter.Entry == nil || p.Iter.Entry.ID != LS {
			continue
		}
		if pp.LI != "" {
			if i := loopIndex(p, pp.LI); i >= 0 {
				if left, _ := exited(p, pp.LI); !left {
					r.violate("DEL-SUPER", cons, pos, "triangles touching the enclosing triangle are deleted while points are still being inserted: later points then find no triangle whose circumcircle contains them")
					return
				}
			}
		}
		ent := entryOf(p, LS)
		out := "keep"
		if has[p] != copyMode {
			out = "delete"
		}
		paths = append(paths, dpath{conds: p.Conds[ent.CondIndex:], out: constOut(out)})
	}
	msg, isBad := t.decide(paths, product(vals, vals, vals), func(a []int) string {
		if a[0] >= 0 || a[1] >= 0 || a[2] >= 0 {
			return "delete"
		}
		return "keep"
	}, func(a []int) string {
		nm := func(d int) string {
			if d < 0 {
				return fmt.Sprintf("input point n%d", d)
			}
			return fmt.Sprintf("enclosing vertex n+%d", d)
		}
		return "triangle (" + nm(a[0]) + ", " + nm(a[1]) + ", " + nm(a[2]) + ")"
	})
	switch {
	case msg == "":
		r.hold("DEL-SUPER", cons, pos, fmt.Sprintf("after the last insertion a triangle is deleted exactly when one of its three vertex ids is ≥ len(input), i.e. one of the %d appended enclosing vertices (all %d id cases of the three vertices; full scan, no early exit)", cnt, len(vals)*len(vals)*len(vals)))
	case isBad:
		r.violate("DEL-SUPER", cons, pos, "the clean-up does not delete exactly the triangles that use a vertex of the enclosing triangle: "+msg+" — a triangle with a vertex id ≥ len(input) reaches the output (or a genuine triangle is lost)")
	default:
		r.undecide("DEL-SUPER", cons, pos, "the clean-up test: "+msg)
	}
}

// ---------------------------------------------------------------- DEL-INSERT

func (pp *pipe) ruleInsert() {
	k, r := pp.k, pp.r
	cons := pp.sub("insert")
	if !pp.piOK || pp.LI == "" {
		r.undecide("DEL-INSERT", cons, pp.pos, "the inserted point is not the counter of a loop")
		return
	}
	its := iterPaths(pp.res, pp.LI)
	if len(its) == 0 {
		r.undecide("DEL-INSERT", cons, pp.pos, "no complete iteration of the insertion loop could be followed")
		return
	}
	pos := pp.pos
	if e := entryOf(its[0], pp.LI); e != nil && len(e.Phis) > 0 {
		pos = pp.at(e.Phis[0].Pos())
		if e.Phis[0].Pos() == token.NoPos && e.Header != nil && len(e.Header.Instrs) > 0 {
			pos = pp.at(e.Header.Instrs[len(e.Header.Instrs)-1].Pos())
		}
	}
	ind, why := k.s.InductionOf(pp.res, its[0], pp.pi, pp.n)
	if why != "" {
		r.undecide("DEL-INSERT", cons, pos, why)
		return
	}
	if f, isC := k.s.ConstSign(ind.First); !isC || f != 0 {
		r.violate("DEL-INSERT", cons, pos, "the first point inserted is point "+k.s.Show(ind.First, 3)+", not point 0: the points before it are never triangulated")
		return
	}
	if ind.Step != 1 {
		r.violate("DEL-INSERT", cons, pos, fmt.Sprintf("the insertion loop advances by %d: points are skipped", ind.Step))
		return
	}
	// every condition on (inserted id, len(input)) alone must hold on all of [0, n) or on none of it
	goOn, stop := map[string]bool{}, map[string]bool{}
	for c := int64(-1); c <= 8; c++ {
		nc := k.add(pp.n, k.num(c))
		if c >= 0 {
			goOn[k.e.CmpAtom(token.LSS, pp.pi, nc).Atom().Key()] = true
			stop[k.e.CmpAtom(token.GEQ, pp.pi, nc).Atom().Key()] = true
		}
		goOn[k.e.CmpAtom(token.LEQ, pp.pi, nc).Atom().Key()] = true
		stop[k.e.CmpAtom(token.GTR, pp.pi, nc).Atom().Key()] = true
	}
	for c := int64(-8); c <= 0; c++ {
		goOn[k.e.CmpAtom(token.GEQ, pp.pi, k.num(c)).Atom().Key()] = true
		stop[k.e.CmpAtom(token.LSS, pp.pi, k.num(c)).Atom().Key()] = true
	}
	own := map[string]bool{}
	for _, d := range k.s.Symbols(pp.pi) {
		own[d.Name] = true
	}
	lenName := map[string]bool{}
	for _, d := range k.s.Symbols(pp.n) {
		lenName[d.Name] = true
	}
	nGuards := 0
	for _, p := range pp.res.Paths {
		ent := entryOf(p, pp.LI)
		if ent == nil {
			continue
		}
		for i, c := range p.Conds {
			if i < ent.CondIndex {
				continue
			}
			ds, ok := k.s.AtomSymbols(c)
			if !ok {
				continue
			}
			mine, foreign := false, false
			for _, d := range ds {
				switch {
				case own[d.Name]:
					mine = true
				case lenName[d.Name]:
				default:
					foreign = true
				}
			}
			if !mine || foreign {
				continue
			}
			nGuards++
			if goOn[c.Key()] || stop[c.Key()] {
				continue
			}
			r.violate("DEL-INSERT", cons, pos, "inside the insertion loop the code branches on "+short(c.Key(), 160)+": some input point with an id in [0, len(input)) is treated differently (skipped or never reached), so it is missing from the triangulation and can lie inside a circumcircle")
			return
		}
	}
	// the list the inserted point is read from starts with the input points
	if pp.X != nil && !pp.inputLike[pp.XID] {
		si, _ := c17.SliceInfoOf(pp.X)
		if si.Base == nil || !pp.inputLike[c17.SliceID(si.Base)] {
			r.undecide("DEL-INSERT", cons, pos, "the working point list "+pp.XID+" is not the input list extended by an append: point i of it need not be input point i")
			return
		}
	}
	r.hold("DEL-INSERT", cons, pos, fmt.Sprintf("every input point is inserted: the insertion loop starts at point 0, advances by 1, and each of the %d conditions it puts on the point id alone holds for all ids in [0, len(input)) or for none of them; the working list is the input list with the enclosing vertices appended (point i = input point i)", nGuards))
}
