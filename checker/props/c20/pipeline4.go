package c20

// DEL-SUPER (enclose): the starting triangle strictly contains the bounding box of the input, for every
// positive width and height of that box. The containment tests are polynomials in (min x, min y, width,
// height); they are decided by the signs of their coefficients, a violation is shown by a concrete box.

import (
	"fmt"
	"go/types"
	"math/big"
	"strings"

	"polycheck/props/c17"
)

func (pp *pipe) ruleEnclose() {
	k, r := pp.k, pp.r
	if len(pp.seedTri) == 0 {
		return // the starting triangle itself was not decided (reported there)
	}
	cons := pp.sub("enclose")
	pos := pp.at(pp.superPos)
	var lo, up [2]*bound
	for i := range pp.boxes {
		b := &pp.boxes[i]
		if b.upper {
			up[b.axis] = b
		} else {
			lo[b.axis] = b
		}
	}
	for ax := 0; ax < 2; ax++ {
		if lo[ax] == nil || up[ax] == nil {
			r.undecide("DEL-SUPER", cons, pos, "the starting triangle does not depend on both bounds of coordinate "+[]string{"x", "y"}[ax]+" of the input")
			return
		}
	}
	f64 := types.Typ[types.Float64]
	ext := [2]c17.Scalar{k.e.Sym("boxWidth", f64).(c17.Scalar), k.e.Sym("boxHeight", f64).(c17.Scalar)}
	extName := [2]string{k.key(ext[0]), k.key(ext[1])}
	subst := func(q c17.Scalar) (c17.Scalar, bool) {
		for ax := 0; ax < 2; ax++ {
			d, ok := k.s.SymbolOf(up[ax].sym)
			if !ok {
				return q, false
			}
			q, ok = k.s.Subst(q, d, k.add(lo[ax].sym, ext[ax]))
			if !ok {
				return q, false
			}
		}
		return q, true
	}
	grid := []*big.Rat{big.NewRat(1, 1), big.NewRat(1, 4), big.NewRat(4, 1), big.NewRat(1, 16), big.NewRat(64, 1), big.NewRat(1, 64), big.NewRat(1024, 1), big.NewRat(1, 1024)}
	offs := []*big.Rat{big.NewRat(0, 1), big.NewRat(1000, 1), big.NewRat(-1000, 1)}
	cornerName := func(ix, iy int) string {
		return "(" + []string{"min", "max"}[ix] + " x, " + []string{"min", "max"}[iy] + " y)"
	}
	nProved := 0
	for _, tri := range pp.seedTri {
		for i := 0; i < 3; i++ {
			A, B := tri[i], tri[(i+1)%3]
			for ix := 0; ix < 2; ix++ {
				for iy := 0; iy < 2; iy++ {
					cx, cy := lo[0].sym, lo[1].sym
					if ix == 1 {
						cx = up[0].sym
					}
					if iy == 1 {
						cy = up[1].sym
					}
					Q := k.mul(k.orient(A, B, pt{cx, cy}), k.num(int64(pp.seedSg)))
					Qs, ok := subst(Q)
					if !ok {
						r.undecide("DEL-SUPER", cons, pos, "the containment test of the bounding box is not a polynomial in the bounds of the input")
						return
					}
					p, n, syms, _ := k.s.CoefSigns(Qs)
					free := false
					for _, sname := range syms {
						if sname != extName[0] && sname != extName[1] {
							free = true
						}
					}
					if !free && n == 0 && p > 0 {
						nProved++
						continue
					}
					// look for a concrete box that shows the corner outside
					for _, w := range grid {
						for _, h := range grid {
							for _, ox := range offs {
								for _, oy := range offs {
									env := map[string]*big.Rat{extName[0]: w, extName[1]: h, k.key(lo[0].sym): ox, k.key(lo[1].sym): oy}
									v, ok := k.s.Eval(Qs, env)
									if !ok || v.Sign() > 0 {
										continue
									}
									where := "outside"
									if v.Sign() == 0 {
										where = "on the boundary of"
									}
									r.violate("DEL-SUPER", cons, pos, fmt.Sprintf("the starting (enclosing) triangle does not enclose every input: for points whose bounding box is %s wide and %s high (min corner (%s, %s)) the corner %s of the box lies %s the triangle, beyond its side %d→%d — the containment polynomial %s is not positive there. Points outside the starting triangle are inserted into triangles that do not contain them: the result overlaps or loses points. (The size of the triangle must scale with the box: an absolute offset breaks small inputs.)",
										w.RatString(), h.RatString(), ox.RatString(), oy.RatString(), cornerName(ix, iy), where, i, (i+1)%3, short(strings.ReplaceAll(k.s.Show(Qs, 6), "bowyerWatson.", ""), 200)),
										fmt.Sprintf("witness box: width %s, height %s", w.RatString(), h.RatString()))
									return
								}
							}
						}
					}
					r.undecide("DEL-SUPER", cons, pos, "whether the corner "+cornerName(ix, iy)+" of the bounding box lies inside the starting triangle depends on the size of the box in a way the coefficient signs do not decide: "+short(k.s.Show(Qs, 6), 200))
					return
				}
			}
		}
	}
	r.hold("DEL-SUPER", cons, pos, fmt.Sprintf("the starting triangle strictly contains the bounding box of the input for every positive width and height: all %d (side, corner) orientation polynomials, written in (width, height), have only coefficients of the triangle's own sign", nProved))
}
