package c20

// Stand-alone predicate functions (used for the self-test controls): an in-circle predicate
// (triangle, point, point list) -> bool and an "uses an enclosing vertex" predicate (triangle, point list) -> bool.

import (
	"fmt"
	"go/types"

	"golang.org/x/tools/go/ssa"

	"polycheck/props/c17"
)

func isTriangleType(t types.Type) bool {
	a, ok := t.Underlying().(*types.Array)
	if !ok || a.Len() != 3 {
		return false
	}
	b, ok := a.Elem().Underlying().(*types.Basic)
	return ok && b.Info()&types.IsInteger != 0
}

// retPaths turns the returning paths of a bool function into decision paths.
func retPaths(res *c17.Result) ([]dpath, string) {
	var out []dpath
	for _, p := range res.Paths {
		if p.Kind != c17.EndReturn {
			continue
		}
		if len(p.Ret) != 1 {
			return nil, "a path does not return one value"
		}
		b, ok := p.Ret[0].(c17.BoolV)
		if !ok {
			return nil, "a path returns a value the engine does not track as a boolean"
		}
		if isC, v := b.Const(); isC {
			out = append(out, dpath{conds: p.Conds, out: constOut(fmt.Sprint(v))})
			continue
		}
		at := b.Atom()
		out = append(out, dpath{conds: p.Conds, ret: &at, yes: "true", no: "false"})
	}
	if len(out) == 0 {
		return nil, "no returning path"
	}
	return out, ""
}

func (k *K) predInCircle(r *rec, fn *ssa.Function, W int, WKnown bool) {
	P := k.c.P
	cons, pos := P.FuncName(fn), P.Pos(fn.Pos())
	args := make([]c17.Val, len(fn.Params))
	var tri []c17.Scalar
	var q *pt
	var list c17.Val
	for i, p := range fn.Params {
		args[i] = k.e.Sym(p.Name(), p.Type())
		switch {
		case isTriangleType(p.Type()):
			tri, _ = ints(args[i], 3)
		case isVec(p.Type(), "vector2"):
			l := c17.Leaves(args[i])
			if len(l) == 2 {
				q = &pt{l[0], l[1]}
			}
		case isVec2Slice(p.Type()):
			list = args[i]
		}
	}
	if tri == nil || q == nil || list == nil {
		r.undecide("DEL-INCIRCLE", cons, pos, "not a predicate over (triangle, point, point list)")
		return
	}
	res := k.e.Run(fn, args)
	if prob := res.Problem(); prob != "" {
		r.undecide("DEL-INCIRCLE", cons, pos, "the engine cannot follow the function: "+prob)
		return
	}
	paths, why := retPaths(res)
	if why != "" {
		r.undecide("DEL-INCIRCLE", cons, pos, why)
		return
	}
	var v [3]pt
	for i := range v {
		v[i], _ = k.point(list, tri[i])
	}
	pp := &pipe{k: k, r: r, W: W, WKnown: WKnown}
	msg, bad := pp.decideInCircle(paths, v[0], v[1], v[2], *q, "true", "false")
	switch {
	case msg == "":
		r.hold("DEL-INCIRCLE", cons, pos, "the predicate is true exactly when orient·incircleDet > 0")
	case bad:
		r.violate("DEL-INCIRCLE", cons, pos, "the predicate is not 'p strictly inside the circumcircle': "+msg)
	default:
		r.undecide("DEL-INCIRCLE", cons, pos, msg)
	}
}

// predSuper: (triangle, extended point list) -> "uses one of the last three points".
func (k *K) predSuper(r *rec, fn *ssa.Function) {
	P := k.c.P
	cons, pos := P.FuncName(fn), P.Pos(fn.Pos())
	args := make([]c17.Val, len(fn.Params))
	var tri []c17.Scalar
	var list c17.Val
	for i, p := range fn.Params {
		args[i] = k.e.Sym(p.Name(), p.Type())
		switch {
		case isTriangleType(p.Type()):
			tri, _ = ints(args[i], 3)
		case isVec2Slice(p.Type()):
			list = args[i]
		}
	}
	if tri == nil || list == nil {
		r.undecide("DEL-SUPER", cons, pos, "not a predicate over (triangle, point list)")
		return
	}
	res := k.e.Run(fn, args)
	if prob := res.Problem(); prob != "" {
		r.undecide("DEL-SUPER", cons, pos, "the engine cannot follow the function: "+prob)
		return
	}
	paths, why := retPaths(res)
	if why != "" {
		r.undecide("DEL-SUPER", cons, pos, why)
		return
	}
	ln, _ := c17.LenOf(list)
	n := k.sub(ln, k.num(3))
	t := k.newTable()
	t.about(tri...)
	for i := range tri {
		i := i
		for c := int64(-4); c <= 5; c++ {
			t.addCompare(tri[i], n, c, func(a []int) int { return a[i] }, func([]int) int { return 0 })
		}
	}
	for i := range tri {
		for j := range tri {
			if i != j {
				i, j := i, j
				t.addCompare(tri[i], tri[j], 0, func(a []int) int { return a[i] }, func(a []int) int { return a[j] })
			}
		}
	}
	vals := []int{-2, -1, 0, 1, 2}
	msg, bad := t.decide(paths, product(vals, vals, vals), func(a []int) string {
		return fmt.Sprint(a[0] >= 0 || a[1] >= 0 || a[2] >= 0)
	}, func(a []int) string { return fmt.Sprintf("vertex ids n%+d, n%+d, n%+d", a[0], a[1], a[2]) })
	switch {
	case msg == "":
		r.hold("DEL-SUPER", cons, pos, "true exactly when one of the three ids is one of the last three points")
	case bad:
		r.violate("DEL-SUPER", cons, pos, msg)
	default:
		r.undecide("DEL-SUPER", cons, pos, msg)
	}
}
