package c20

// Rules added after the third seed round.
//
//	DEL-SUPER-FOLD   the bounding-box accumulators are a true running min / running max on every path
//	DEL-ORIENT-DIFF  in the orientation / in-circle predicates products are only taken of translation-invariant
//	                 operands (coordinate differences) — the algebraic FORM, not the rounding error
//	DEL-STATE        nothing in the same-package call tree of the mesh builders writes package-level state

import (
	"fmt"
	"go/token"
	"go/types"
	"sort"
	"strings"

	"golang.org/x/tools/go/ssa"

	"polycheck/props/c17"
)

// ---------------------------------------------------------------- DEL-SUPER-FOLD

// ruleFold interprets one iteration of the bounding-box loop over all weak orderings of (v, oldMin, oldMax)
// per axis — including oldMin > oldMax, the ±Inf start — and requires newMin = min(v, oldMin), newMax = max(v, oldMax).
func (pp *pipe) ruleFold(boxes []bound) {
	k, r := pp.k, pp.r
	s := k.s
	cons := pp.sub("fold")
	pos := pp.at(pp.superPos)
	checked := 0
	for ax := 0; ax < 2; ax++ {
		var lo, up *bound
		for i := range boxes {
			b := &boxes[i]
			if b.axis != ax {
				continue
			}
			if b.upper {
				up = b
			} else {
				lo = b
			}
		}
		if lo == nil || up == nil || lo.loop != up.loop {
			r.undecide("DEL-SUPER-FOLD", cons, pos, "min and max of coordinate "+[]string{"x", "y"}[ax]+" are not accumulated by one loop")
			return
		}
		idx, _, ok := pp.idxOf(lo.idx)
		list, okl := pp.sliceByID(lo.list)
		if !ok || !okl {
			r.undecide("DEL-SUPER-FOLD", cons, pos, "the point read in one iteration could not be followed")
			return
		}
		q, okp := k.point(list, idx)
		if !okp {
			r.undecide("DEL-SUPER-FOLD", cons, pos, "the point read in one iteration is not a 2D point")
			return
		}
		v, L, U := q[ax], lo.sym, up.sym
		t := k.newTable()
		vars := []c17.Scalar{v, L, U}
		t.about(vars...)
		for i := range vars {
			for j := range vars {
				if i != j {
					i, j := i, j
					t.addCompare(vars[i], vars[j], 0, func(a []int) int { return a[i] }, func(a []int) int { return a[j] })
				}
			}
		}
		value := func(n c17.Scalar, a []int) (int, bool) {
			for i, x := range vars {
				if s.Equal(n, x) {
					return a[i], true
				}
			}
			if op, args, isApp := s.AppOf(n); isApp && (op == "min" || op == "max") {
				best, have := 0, false
				for _, arg := range args {
					x := -1
					for i, y := range vars {
						if s.Equal(arg, y) {
							x = a[i]
						}
					}
					if x < 0 {
						return 0, false
					}
					if !have || (op == "min" && x < best) || (op == "max" && x > best) {
						best, have = x, true
					}
				}
				return best, have
			}
			return 0, false
		}
		var paths []dpath
		for _, it := range iterPaths(pp.res, lo.loop) {
			ent := it.Iter.Entry
			var nL, nU c17.Scalar
			fl, fu := false, false
			for j, hv := range ent.Havoc {
				hl, nl := c17.Leaves(hv), c17.Leaves(it.Iter.Next[j])
				for i := range hl {
					if i >= len(nl) {
						continue
					}
					if s.Equal(hl[i], L) {
						nL, fl = nl[i], true
					}
					if s.Equal(hl[i], U) {
						nU, fu = nl[i], true
					}
				}
			}
			if !fl || !fu {
				r.undecide("DEL-SUPER-FOLD", cons, pos, "the accumulators are not scalars the engine tracks")
				return
			}
			cL, cU := nL, nU
			paths = append(paths, dpath{conds: it.Conds[ent.CondIndex:], out: func(a []int) (string, bool) {
				x, ok1 := value(cL, a)
				y, ok2 := value(cU, a)
				if !ok1 || !ok2 {
					return "", false
				}
				return fmt.Sprintf("min=%d max=%d", x, y), true
			}})
		}
		name := func(x int) string { return []string{"v", "oldMin", "oldMax"}[x] }
		msg, bad := t.decide(paths, product([]int{0, 1, 2}, []int{0, 1, 2}, []int{0, 1, 2}), func(a []int) string {
			mn, mx := a[1], a[2]
			if a[0] < mn {
				mn = a[0]
			}
			if a[0] > mx {
				mx = a[0]
			}
			return fmt.Sprintf("min=%d max=%d", mn, mx)
		}, func(a []int) string {
			type nv struct {
				n string
				v int
			}
			xs := []nv{{name(0), a[0]}, {name(1), a[1]}, {name(2), a[2]}}
			sort.SliceStable(xs, func(i, j int) bool { return xs[i].v < xs[j].v })
			out := xs[0].n
			for i := 1; i < 3; i++ {
				if xs[i].v == xs[i-1].v {
					out += " = " + xs[i].n
				} else {
					out += " < " + xs[i].n
				}
			}
			return "ordering " + out + " (" + []string{"x", "y"}[ax] + " coordinate; values v, oldMin, oldMax = " + fmt.Sprint(a) + ")"
		})
		switch {
		case msg == "":
			checked++
		case bad:
			r.violate("DEL-SUPER-FOLD", cons, pos, "the bounding box of the input is not a running min / running max on every path: "+msg+" — with the accumulators starting at +Inf / −Inf (oldMin > oldMax) a point that lowers the min never raises the max, so for inputs sorted the wrong way the max stays −Inf and the enclosing triangle is garbage")
			return
		default:
			r.undecide("DEL-SUPER-FOLD", cons, pos, "the bounding-box fold: "+msg)
			return
		}
	}
	r.hold("DEL-SUPER-FOLD", cons, pos, fmt.Sprintf("one iteration of the bounding-box loop, interpreted over all 27 value cases (every weak ordering of v, oldMin, oldMax, including oldMin > oldMax) on %d axes: newMin = min(v, oldMin) and newMax = max(v, oldMax)", checked))
}

// ---------------------------------------------------------------- DEL-ORIENT-DIFF

// coordAxis: is the symbol a coordinate of a point (element of a point list, or a point parameter), and which?
func coordAxis(d c17.SymDesc) int {
	if d.Kind != c17.SymElem && d.Kind != c17.SymInput {
		return -1
	}
	switch {
	case strings.HasSuffix(d.Name, ".x"):
		return 0
	case strings.HasSuffix(d.Name, ".y"):
		return 1
	}
	return -1
}

// translationInvariant: does the polynomial / rational function stay the same when every point is moved by (T, S)?
func (k *K) translationInvariant(a c17.Scalar) (inv, judged bool) {
	s := k.s
	syms := s.Symbols(a)
	if len(syms) == 0 {
		return true, false
	}
	f64 := types.Typ[types.Float64]
	shift := [2]c17.Scalar{k.e.Sym("translate.x", f64).(c17.Scalar), k.e.Sym("translate.y", f64).(c17.Scalar)}
	moved := a
	for _, d := range syms {
		ax := coordAxis(d)
		if ax < 0 {
			return true, false // not (only) point coordinates: accumulated bounds, parameters — not judged
		}
		var ok bool
		moved, ok = s.Subst(moved, d, k.add(s.SymbolScalar(d), shift[ax]))
		if !ok {
			return true, false
		}
	}
	return s.Equal(moved, a), true
}

func (pp *pipe) ruleDiffForm() {
	k, r := pp.k, pp.r
	P := k.c.P
	type site struct {
		fn  *ssa.Function
		pos token.Pos
		arg c17.Scalar
	}
	perFn := map[*ssa.Function]int{}
	var bad *site
	seen := map[string]bool{}
	for _, p := range pp.res.Paths {
		for _, ev := range p.Events {
			if ev.Kind != c17.EvMul || len(ev.Args) != 2 || ev.In == nil {
				continue
			}
			key := fmt.Sprint(ev.Pos) + "|" + k.s.ValKey(ev.Args[0]) + "|" + k.s.ValKey(ev.Args[1])
			if seen[key] {
				continue
			}
			seen[key] = true
			judgedAny := false
			for _, a := range ev.Args {
				sc, ok := a.(c17.Scalar)
				if !ok {
					continue
				}
				inv, judged := k.translationInvariant(sc)
				judgedAny = judgedAny || judged
				if judged && !inv && bad == nil {
					bad = &site{ev.In, ev.Pos, sc}
				}
			}
			if judgedAny {
				perFn[ev.In]++
			}
		}
	}
	if bad != nil {
		r.violate("DEL-ORIENT-DIFF", P.FuncName(bad.fn), P.Pos(bad.pos), "a product is taken of "+short(k.s.Show(bad.arg, 4), 120)+", which changes when all points are moved by one common offset: the predicate multiplies absolute coordinates instead of coordinate differences. Algebraically the result is the same determinant, but its terms grow with the square (orientation) / fourth power (in-circle) of the distance from the origin and cancel — the property quantifies over inputs at widely different offsets from the origin")
		return
	}
	var fns []*ssa.Function
	for f := range perFn {
		fns = append(fns, f)
	}
	sort.Slice(fns, func(i, j int) bool { return P.FuncName(fns[i]) < P.FuncName(fns[j]) })
	if len(fns) == 0 {
		r.undecide("DEL-ORIENT-DIFF", pp.sub("products"), pp.pos, "no product of point coordinates is taken on any path: the orientation / in-circle predicates were not followed")
		return
	}
	for _, f := range fns {
		r.hold("DEL-ORIENT-DIFF", P.FuncName(f), P.Pos(f.Pos()), fmt.Sprintf("all %d distinct products of point-coordinate expressions taken here have translation-invariant operands (moving every point by one common offset leaves each operand's polynomial unchanged): products are only taken of coordinate differences. This decides the algebraic form, not the rounding error", perFn[f]))
	}
}

// ---------------------------------------------------------------- DEL-STATE

func isRefType(t types.Type) bool {
	switch t.Underlying().(type) {
	case *types.Slice, *types.Map, *types.Pointer, *types.Chan, *types.Interface, *types.Signature:
		return true
	}
	return false
}

// ruleState: nothing reachable from api inside its own package stores to a package-level variable or writes
// through a slice / map / pointer loaded from one.
func (k *K) ruleState(r *rec, api *ssa.Function) {
	P := k.c.P
	cons := P.FuncName(api)
	pkg := api.Pkg
	// same-package call tree
	reach := map[*ssa.Function]bool{api: true}
	work := []*ssa.Function{api}
	for len(work) > 0 {
		fn := work[len(work)-1]
		work = work[:len(work)-1]
		add := func(g *ssa.Function) {
			if g != nil && g.Blocks != nil && !reach[g] && (g.Pkg == pkg || (g.Parent() != nil && reach[g.Parent()])) {
				reach[g] = true
				work = append(work, g)
			}
		}
		for _, b := range fn.Blocks {
			for _, in := range b.Instrs {
				switch x := in.(type) {
				case ssa.CallInstruction:
					add(x.Common().StaticCallee())
				case *ssa.MakeClosure:
					if g, ok := x.Fn.(*ssa.Function); ok {
						add(g)
					}
				}
			}
		}
	}
	var fns []*ssa.Function
	for f := range reach {
		fns = append(fns, f)
	}
	sort.Slice(fns, func(i, j int) bool { return P.FuncName(fns[i]) < P.FuncName(fns[j]) })
	// parameter taint: (function, parameter) pairs that can receive a reference loaded from a global
	type pkey struct {
		fn *ssa.Function
		i  int
	}
	ptaint := map[pkey]string{}
	report := func(fn *ssa.Function, pos token.Pos, what string) {
		r.violate("DEL-STATE", cons, P.Pos(pos), P.FuncName(fn)+" "+what+": the triangulation keeps state outside the call, so two goroutines triangulating at the same time corrupt each other's work lists (and a second call sees what the first one left behind)")
	}
	globalName := func(g *ssa.Global) string { return g.Name() }
	for round := 0; round < 8; round++ {
		changed := false
		for _, fn := range fns {
			taint := map[ssa.Value]string{} // value -> the global it comes from
			for i, p := range fn.Params {
				if g, ok := ptaint[pkey{fn, i}]; ok {
					taint[p] = g
				}
			}
			for again := true; again; {
				again = false
				for _, b := range fn.Blocks {
					for _, in := range b.Instrs {
						v, ok := in.(ssa.Value)
						if !ok || taint[v] != "" {
							continue
						}
						from := ""
						switch x := in.(type) {
						case *ssa.UnOp:
							if g, ok := x.X.(*ssa.Global); ok && x.Op == token.MUL && isRefType(x.Type()) {
								from = globalName(g)
							} else if x.Op == token.MUL && taint[x.X] != "" && isRefType(x.Type()) {
								from = taint[x.X]
							}
						case *ssa.Slice:
							from = taint[x.X]
						case *ssa.Phi:
							for _, e := range x.Edges {
								if taint[e] != "" {
									from = taint[e]
								}
							}
						case *ssa.ChangeType:
							from = taint[x.X]
						case *ssa.MakeInterface:
							from = taint[x.X]
						case *ssa.TypeAssert:
							from = taint[x.X]
						case *ssa.IndexAddr:
							from = taint[x.X]
							if g, ok := x.X.(*ssa.Global); ok {
								from = globalName(g)
							}
						case *ssa.FieldAddr:
							from = taint[x.X]
							if g, ok := x.X.(*ssa.Global); ok {
								from = globalName(g)
							}
						case *ssa.Call:
							if bi, ok := x.Call.Value.(*ssa.Builtin); ok && bi.Name() == "append" && len(x.Call.Args) > 0 {
								from = taint[x.Call.Args[0]]
							}
						}
						if from != "" {
							taint[v] = from
							again = true
						}
					}
				}
			}
			for _, b := range fn.Blocks {
				for _, in := range b.Instrs {
					switch x := in.(type) {
					case *ssa.Store:
						if g, ok := x.Addr.(*ssa.Global); ok {
							if fn.Synthetic == "" {
								report(fn, x.Pos(), "assigns the package-level variable "+globalName(g))
								return
							}
						} else if t := taint[x.Addr]; t != "" {
							report(fn, x.Pos(), "stores through memory reached from the package-level variable "+t)
							return
						}
					case *ssa.MapUpdate:
						if t := taint[x.Map]; t != "" {
							report(fn, x.Pos(), "writes into the package-level map "+t)
							return
						}
					case ssa.CallInstruction:
						cc := x.Common()
						if bi, ok := cc.Value.(*ssa.Builtin); ok {
							if len(cc.Args) > 0 && taint[cc.Args[0]] != "" {
								switch bi.Name() {
								case "append":
									report(fn, x.Pos(), "appends to a slice that shares the backing array of the package-level variable "+taint[cc.Args[0]])
									return
								case "delete", "clear", "copy":
									report(fn, x.Pos(), bi.Name()+"s into the package-level variable "+taint[cc.Args[0]])
									return
								}
							}
							continue
						}
						callee := cc.StaticCallee()
						for i, a := range cc.Args {
							t := taint[a]
							if t == "" {
								continue
							}
							switch {
							case callee != nil && reach[callee]:
								if _, had := ptaint[pkey{callee, i}]; !had {
									ptaint[pkey{callee, i}] = t
									changed = true
								}
							case callee != nil && callee.Object() != nil && callee.Object().Pkg() != nil && writers[callee.Object().Pkg().Path()][callee.Name()]:
								report(fn, x.Pos(), "hands the package-level variable "+t+" to "+callee.Object().Pkg().Path()+"."+callee.Name())
								return
							}
						}
					}
				}
			}
		}
		if !changed {
			break
		}
	}
	names := make([]string, 0, len(fns))
	for _, f := range fns {
		names = append(names, f.Name())
	}
	r.hold("DEL-STATE", cons, P.Pos(api.Pos()), fmt.Sprintf("none of the %d functions of the package reachable from here assigns a package-level variable, stores / appends / deletes through a slice, map or pointer loaded from one, or hands one to a sorting function (read-only globals are fine)", len(fns)), "call tree: "+short(strings.Join(names, ", "), 240))
}
