package c20

// DEL-SAME-POINTS: the coordinates the predicates are evaluated on are the input coordinates themselves, or
// their image under a transformation that keeps circumcircles circles — the same list, an exact copy, or an
// axis-wise affine image (a·x + tx, a·y + ty) with ONE common factor a for both axes. Per-axis factors that
// differ (anisotropic scaling) turn circles into ellipses: the triangulation is then Delaunay for the
// stretched points, not for the input. Decided on how the working list is built, element by element.

import (
	"fmt"
	"go/types"
	"sort"
	"strings"

	"golang.org/x/tools/go/ssa"

	"polycheck/load"
	"polycheck/props/c17"
)

type imageKind int

const (
	imgUnknown   imageKind = iota
	imgCopy                // element i = source element i
	imgSimilar             // element i = a·source_i + t with one factor a for both axes
	imgStretched           // per-axis factors differ
)

type image struct {
	kind    imageKind
	msg     string
	source  string
	stores  map[string]bool // positions of the constructing stores (exempt from DEL-INPUT)
	factors string
}

// classifyStores decides how the list `id` (a made array) is filled from one of the source lists.
func (k *K) classifyStores(res *c17.Result, id string, sources map[string]bool) image {
	s := k.s
	img := image{kind: imgUnknown, stores: map[string]bool{}}
	var target c17.Val
	type st struct {
		p  *c17.Path
		ev c17.Event
	}
	var sts []st
	for _, p := range res.Paths {
		for _, ev := range p.Events {
			if ev.Slice == nil || c17.SliceID(ev.Slice) != id {
				continue
			}
			switch ev.Kind {
			case c17.EvStoreElem:
				target = ev.Slice
				sts = append(sts, st{p, ev})
			case c17.EvBulkWrite:
				if ev.Callee == "copy" && len(ev.Args) == 2 && sources[sid(ev.Args[1])] {
					// copy(dst, src) with len(dst) == len(src): an exact copy
					dl, _ := c17.LenOf(ev.Args[0])
					sl, _ := c17.LenOf(ev.Args[1])
					if s.Equal(dl, sl) {
						return image{kind: imgCopy, source: sid(ev.Args[1]), stores: map[string]bool{fmt.Sprint(ev.Pos): true}}
					}
				}
				if ev.Callee != "slice-expression" && ev.Callee != "append" {
					img.msg = "the list is also written by " + ev.Callee
					return img
				}
			}
		}
	}
	if len(sts) == 0 {
		img.msg = "the list is not filled by element stores"
		return img
	}
	ti, _ := c17.SliceInfoOf(target)
	if ti.Origin != "make" {
		img.msg = "the list is not a freshly made array"
		return img
	}
	kind := imgCopy
	for _, x := range sts {
		if x.ev.Loop == nil || len(x.ev.Path) != 0 {
			img.msg = "an element is stored outside a loop over the points"
			return img
		}
		l := c17.Leaves(x.ev.Val)
		if len(l) != 2 {
			img.msg = "an element is not a 2D point"
			return img
		}
		// the source element read at the same index
		ik := s.Key(x.ev.Idx)
		src := ""
		for c := 0; c < 2; c++ {
			for _, d := range s.Symbols(l[c]) {
				if d.Kind == c17.SymElem && d.Idx == ik && sources[d.Slice] {
					src = d.Slice
				}
			}
		}
		if src == "" {
			img.msg = "element [" + short(ik, 40) + "] is not computed from the input point with the same index"
			return img
		}
		if img.source != "" && img.source != src {
			img.msg = "the elements are computed from more than one list"
			return img
		}
		img.source = src
		srcV, ok := c17.SliceOfPath(x.p, src)
		if !ok {
			img.msg = "the source list could not be followed"
			return img
		}
		sl, _ := c17.LenOf(srcV)
		if !s.Equal(ti.Len, sl) {
			img.msg = fmt.Sprintf("the list has %s entries, the input %s", s.Show(ti.Len, 2), s.Show(sl, 2))
			return img
		}
		its := c17.IterationPaths(res, x.ev.Loop.ID)
		if len(its) == 0 {
			img.msg = "no complete iteration of the filling loop could be followed"
			return img
		}
		if why, _ := k.fullRange(res, x.ev.Loop.ID, ik, ti.Len); why != "" {
			img.msg = "the filling loop: " + why
			return img
		}
		if len(earlyExitPaths(res, x.ev.Loop.ID)) > 0 {
			img.msg = "the filling loop can be left early"
			return img
		}
		pe, _ := s.ElemOf(srcV, x.ev.Idx)
		pl := c17.Leaves(pe)
		if len(pl) != 2 {
			img.msg = "the source element is not a 2D point"
			return img
		}
		// axis-wise affine decomposition: out[c] = a[c]·p[c] + t[c]
		var a [2]c17.Scalar
		for c := 0; c < 2; c++ {
			dSelf, ok1 := s.SymbolOf(pl[c])
			dOther, ok2 := s.SymbolOf(pl[1-c])
			if !ok1 || !ok2 {
				img.msg = "the source coordinates are not plain symbols"
				return img
			}
			for _, d := range s.Symbols(l[c]) {
				if d.Name == dOther.Name {
					img.msg = fmt.Sprintf("coordinate %d of the new point depends on the other coordinate of the input point (a rotation / shear is not recognised)", c)
					return img
				}
			}
			t0, okA := s.Subst(l[c], dSelf, s.Const(0))
			t1, okB := s.Subst(l[c], dSelf, s.Const(1))
			if !okA || !okB {
				img.msg = "the new coordinate is not a rational function of the input coordinate"
				return img
			}
			a[c] = k.sub(t1, t0)
			if !s.Equal(l[c], k.add(k.mul(a[c], pl[c]), t0)) {
				img.msg = "the new coordinate is not affine in the input coordinate: " + short(s.Show(l[c], 3), 100)
				return img
			}
			for _, q := range []c17.Scalar{a[c], t0} {
				for _, d := range s.Symbols(q) {
					if (d.Kind == c17.SymElem && d.Idx == ik) || (d.Kind == c17.SymLoop && d.Root == x.ev.Loop.ID) {
						img.msg = "factor / offset change from point to point (" + d.Name + ")"
						return img
					}
				}
			}
			if z, isC := s.ConstSign(a[c]); isC && z == 0 {
				img.msg = "a coordinate of the input is dropped"
				img.kind = imgStretched
				return img
			}
		}
		img.stores[fmt.Sprint(x.ev.Pos)] = true
		one := s.Const(1)
		isId := s.Equal(a[0], one) && s.Equal(a[1], one) && s.Equal(l[0], pl[0]) && s.Equal(l[1], pl[1])
		switch {
		case isId:
		case s.Equal(a[0], a[1]):
			if kind == imgCopy {
				kind = imgSimilar
			}
			img.factors = short(s.Show(a[0], 3), 80)
		default:
			img.kind = imgStretched
			img.factors = "x by " + short(s.Show(a[0], 3), 80) + ", y by " + short(s.Show(a[1], 3), 80)
			img.msg = "where " + short(lastConds(x.p, nil, 2), 120)
			return img
		}
	}
	img.kind = kind
	return img
}

// findImages extends inputLike by the arrays that are exact copies or uniform similarity images of a list
// that stands for the input; stretched images are remembered for DEL-SAME-POINTS.
func (pp *pipe) findImages() {
	pp.images = map[string]image{}
	cand := map[string]bool{}
	for _, x := range pp.events(c17.EvStoreElem) {
		if x.ev.Slice != nil && !pp.inputLike[c17.SliceID(x.ev.Slice)] {
			if si, ok := c17.SliceInfoOf(x.ev.Slice); ok && si.Origin == "make" && isVec2Elem(x.ev.Val) {
				cand[si.ID] = true
			}
		}
	}
	for _, x := range pp.events(c17.EvBulkWrite) {
		if x.ev.Callee == "copy" && x.ev.Slice != nil {
			cand[c17.SliceID(x.ev.Slice)] = true
		}
	}
	for changed := true; changed; {
		changed = false
		for _, id := range sortedKeys(cand) {
			if _, done := pp.images[id]; done {
				continue
			}
			img := pp.k.classifyStores(pp.res, id, pp.inputLike)
			if img.kind == imgUnknown && img.source == "" {
				continue // may become decidable once another image is known
			}
			pp.images[id] = img
			if img.kind == imgCopy || img.kind == imgSimilar {
				pp.inputLike[id] = true
				changed = true
			}
		}
	}
	// a copy / image keeps standing for the input through appends (enclosing vertices) and loops: handled by the callers
}

func isVec2Elem(v c17.Val) bool { return len(c17.Leaves(v)) == 2 }

// ruleSamePoints (pipeline): the list the predicates read is the input, a copy, or a uniform similarity image.
func (pp *pipe) ruleSamePoints() {
	r := pp.r
	cons := pp.sub("points")
	if pp.X == nil {
		r.undecide("DEL-SAME-POINTS", cons, pp.pos, "the list the orientation / in-circle tests read was not found")
		return
	}
	base := pp.XID
	if si, ok := c17.SliceInfoOf(pp.X); ok && si.Base != nil {
		base = c17.SliceID(si.Base)
	}
	if img, ok := pp.images[base]; ok && img.kind == imgStretched {
		r.violate("DEL-SAME-POINTS", cons, pp.pos, "the predicates are evaluated on "+base+", built from the input with different factors per axis ("+img.factors+" "+img.msg+"): anisotropic scaling turns circumcircles into ellipses, so the result is a Delaunay triangulation of the stretched points, not of the input (an input 40 wide and 1 high has almost every circumcircle wrong)")
		return
	}
	if !pp.inputLike[base] {
		why := "it is not built element by element from the input"
		if img, ok := pp.images[base]; ok && img.msg != "" {
			why = img.msg
		}
		r.undecide("DEL-SAME-POINTS", cons, pp.pos, "the predicates are evaluated on "+base+", which is not recognised as the input list, an exact copy or a uniform similarity image of it: "+why)
		return
	}
	what := "the input list itself (with the enclosing vertices appended)"
	if img, ok := pp.images[base]; ok {
		switch img.kind {
		case imgCopy:
			what = "an exact element-wise copy of the input (" + base + ")"
		case imgSimilar:
			what = "a uniform similarity image of the input (" + base + ": both coordinates scaled by the one factor " + img.factors + " and shifted) — circumcircles stay circles"
		}
	} else if base != pp.inputID {
		what = "a full copy of the input (" + base + ")"
	}
	r.hold("DEL-SAME-POINTS", cons, pp.pos, "the orientation / in-circle tests and the enclosing triangle are evaluated on "+what)
}

// exemptStores: the stores that BUILD the copies / images (they are not writes to the input).
func (pp *pipe) exemptStores() map[string]bool {
	out := map[string]bool{}
	for _, img := range pp.images {
		for p := range img.stores {
			out[p] = true
		}
	}
	return out
}

// ---------------------------------------------------------------- the list a mesh builder hands to the pipeline

// listFunctionImage classifies a repository function ([]vector2 in, []vector2 out) by interpreting it alone.
func (k *K) listFunctionImage(g *ssa.Function) image {
	var input c17.Val
	args := make([]c17.Val, len(g.Params))
	for i, p := range g.Params {
		args[i] = k.e.Sym(p.Name(), p.Type())
		if input == nil && isVec2Slice(p.Type()) {
			input = args[i]
		}
	}
	if input == nil {
		return image{msg: "it takes no point list"}
	}
	res := k.e.Run(g, args)
	k.paths += len(res.Paths)
	if prob := res.Problem(); prob != "" {
		return image{msg: "the engine cannot follow it: " + prob}
	}
	sources := map[string]bool{c17.SliceID(input): true}
	// exact copies by append(make(0), in...)
	for changed := true; changed; {
		changed = false
		for _, p := range res.Paths {
			for _, ev := range p.Events {
				if ev.Kind == c17.EvAppendSlice && ev.Slice != nil && len(ev.Args) == 1 {
					bi, _ := c17.SliceInfoOf(ev.Slice)
					if z, isC := k.s.ConstSign(bi.Len); isC && z == 0 && sources[sid(ev.Args[0])] && !sources[sid(ev.Val)] && sid(ev.Val) != "" {
						sources[sid(ev.Val)] = true
						changed = true
					}
				}
			}
		}
	}
	out := image{kind: imgCopy}
	n := 0
	for _, rp := range res.Returns() {
		if len(rp.Ret) != 1 {
			return image{msg: "it does not return one list"}
		}
		id := sid(rp.Ret[0])
		if id == "" {
			return image{msg: "its result is not a list the engine tracks"}
		}
		n++
		if sources[id] {
			continue
		}
		img := k.classifyStores(res, id, sources)
		switch img.kind {
		case imgStretched, imgUnknown:
			return img
		case imgSimilar:
			out.kind, out.factors = imgSimilar, img.factors
		}
	}
	if n == 0 {
		return image{msg: "it has no returning path"}
	}
	return out
}

// pipelineArgument decides DEL-SAME-POINTS for the list a mesh builder hands to the triangulating function.
func (k *K) pipelineArgument(r *rec, cons, pos string, res *c17.Result, fl *flow, inputID, srcID string, pipes map[*types.Func]bool) {
	P := k.c.P
	seen := map[string]bool{}
	var facts []string
	for _, p := range res.Paths {
		for _, ev := range p.Events {
			if ev.Kind != c17.EvCall || ev.Fn == nil || !pipes[ev.Fn] {
				continue
			}
			sig, _ := ev.Fn.Type().(*types.Signature)
			for i, a := range ev.Args {
				pi := i
				if sig != nil && sig.Recv() != nil {
					pi = i - 1
				}
				if sig == nil || pi < 0 || pi >= sig.Params().Len() || !isVec2Slice(sig.Params().At(pi).Type()) {
					continue
				}
				key := k.s.ValKey(a)
				if seen[key] {
					continue
				}
				seen[key] = true
				what, msg, bad := k.listValueImage(res, a, fl, inputID, 0)
				switch {
				case msg == "":
					facts = append(facts, ev.Fn.Name()+" is handed "+what)
				case bad:
					r.violate("DEL-SAME-POINTS", cons, P.Pos(ev.Pos), ev.Fn.Name()+" triangulates "+msg)
					return
				default:
					r.undecide("DEL-SAME-POINTS", cons, P.Pos(ev.Pos), "the list handed to "+ev.Fn.Name()+" is not recognised as the input, an exact copy or a uniform similarity image of it: "+msg)
					return
				}
			}
		}
	}
	if len(facts) == 0 {
		return // the pipeline is inlined here: decided on the pipeline run
	}
	sort.Strings(facts)
	r.hold("DEL-SAME-POINTS", cons, pos, dedupe(facts)...)
}

// listValueImage: what a list value is relative to the input list.
func (k *K) listValueImage(res *c17.Result, a c17.Val, fl *flow, inputID string, depth int) (what, msg string, bad bool) {
	P := k.c.P
	if id := sid(a); id != "" {
		if fl.family(inputID)[id] {
			return "the input list itself (" + id + ")", "", false
		}
		// built here, element by element?
		img := k.classifyStores(res, id, fl.family(inputID))
		switch img.kind {
		case imgCopy:
			return "an exact element-wise copy (" + id + ") of the input", "", false
		case imgSimilar:
			return "a uniform similarity image (" + id + ": both coordinates scaled by the one factor " + img.factors + " and shifted) of the input", "", false
		case imgStretched:
			return "", "the list " + id + ", built from the input with different factors per axis (" + img.factors + " " + img.msg + "): anisotropic scaling turns circumcircles into ellipses, so the mesh is a Delaunay triangulation of the stretched points, not of the input whose positions it hands out", true
		}
		return "", "the list " + id + " is not a version of the input list (" + img.msg + ")", false
	}
	f, _, as, ok := c17.AppCall(a)
	if !ok || f == nil || depth > 3 {
		return "", "it is " + short(k.s.Describe(a), 80), false
	}
	// the argument of the transforming call must itself stand for the input
	inner := ""
	for _, x := range as {
		if w, m, b := k.listValueImage(res, x, fl, inputID, depth+1); m == "" {
			inner = w
		} else if b {
			return "", m, true
		}
	}
	if inner == "" {
		return "", f.Name() + " is not applied to the input list", false
	}
	pk := pkgOf(f)
	switch {
	case pk == "slices" && f.Name() == "Clone":
		return "an exact copy (slices.Clone) of " + inner, "", false
	case pk == load.Module || strings.HasPrefix(pk, load.Module+"/"):
		g := P.SSA.FuncValue(f)
		if g == nil || g.Blocks == nil {
			return "", "the body of " + f.Name() + " is not available", false
		}
		img := k.listFunctionImage(g)
		switch img.kind {
		case imgCopy:
			return "an exact copy (" + P.FuncName(g) + ") of " + inner, "", false
		case imgSimilar:
			return "a uniform similarity image (" + P.FuncName(g) + ": both coordinates scaled by the one factor " + img.factors + " and shifted) of " + inner, "", false
		case imgStretched:
			return "", "the points as transformed by " + P.FuncName(g) + ", which scales the two axes by different factors (" + img.factors + " " + img.msg + "): anisotropic scaling turns circumcircles into ellipses, so the mesh is a Delaunay triangulation of the stretched points, not of the input whose positions it hands out (an input 40 wide and 1 high has almost every circumcircle wrong)", true
		}
		return "", P.FuncName(g) + ": " + img.msg, false
	}
	return "", f.FullName() + " is not known to return an exact copy", false
}
