package c20

// Helpers over C17's symbolic engine: truth tables over canonical atoms, the orientation and
// in-circle polynomials, the flow graph of slice versions, loop bookkeeping.

import (
	"fmt"
	"go/token"
	"go/types"
	"sort"
	"strings"

	"polycheck/props"
	"polycheck/props/c17"
)

type K struct {
	c     *props.Ctx
	s     *c17.Session
	e     *c17.Engine
	paths int
}

func (k *K) num(n int64) c17.Scalar         { return k.s.Const(n) }
func (k *K) add(a, b c17.Scalar) c17.Scalar { return k.e.Add(a, b) }
func (k *K) sub(a, b c17.Scalar) c17.Scalar { return k.e.Sub(a, b) }
func (k *K) mul(a, b c17.Scalar) c17.Scalar { return k.e.Mul(a, b) }
func (k *K) key(a c17.Scalar) string        { return k.s.Key(a) }

func short(s string, n int) string {
	if len(s) > n {
		return s[:n] + "…"
	}
	return s
}

// pt is a 2D point (x, y).
type pt [2]c17.Scalar

// orient: (bx−ax)(cy−ay) − (cx−ax)(by−ay); > 0 for a counter-clockwise triangle a, b, c.
func (k *K) orient(a, b, c pt) c17.Scalar {
	return k.sub(k.mul(k.sub(b[0], a[0]), k.sub(c[1], a[1])), k.mul(k.sub(c[0], a[0]), k.sub(b[1], a[1])))
}

// incircle: the standard in-circle determinant
//
//	| ax−px  ay−py  (ax−px)²+(ay−py)² |
//	| bx−px  by−py  (bx−px)²+(by−py)² |
//	| cx−px  cy−py  (cx−px)²+(cy−py)² |
//
// > 0 exactly when p lies strictly inside the circumcircle of a COUNTER-CLOCKWISE triangle a, b, c
// (for a clockwise triangle the sign is the opposite): p inside  <=>  orient(a,b,c) · incircle(a,b,c,p) > 0.
func (k *K) incircle(a, b, c, p pt) c17.Scalar {
	ax, ay := k.sub(a[0], p[0]), k.sub(a[1], p[1])
	bx, by := k.sub(b[0], p[0]), k.sub(b[1], p[1])
	cx, cy := k.sub(c[0], p[0]), k.sub(c[1], p[1])
	a2 := k.add(k.mul(ax, ax), k.mul(ay, ay))
	b2 := k.add(k.mul(bx, bx), k.mul(by, by))
	c2 := k.add(k.mul(cx, cx), k.mul(cy, cy))
	t1 := k.mul(a2, k.sub(k.mul(bx, cy), k.mul(cx, by)))
	t2 := k.mul(b2, k.sub(k.mul(ax, cy), k.mul(cx, ay)))
	t3 := k.mul(c2, k.sub(k.mul(ax, by), k.mul(bx, ay)))
	return k.add(k.sub(t1, t2), t3)
}

// ---------------------------------------------------------------- truth tables over canonical atoms

// table maps canonical atom keys to their truth value under an assignment of a small domain.
type table struct {
	k    *K
	keys map[string]func(a []int) bool
	syms map[string]bool // names of the symbols the table speaks about
}

func (k *K) newTable() *table {
	return &table{k: k, keys: map[string]func(a []int) bool{}, syms: map[string]bool{}}
}

// about registers the symbols of x as the subject of the table.
func (t *table) about(xs ...c17.Scalar) {
	for _, x := range xs {
		for _, d := range t.k.s.Symbols(x) {
			t.syms[d.Name] = true
		}
	}
}

func (t *table) add(op token.Token, x, y c17.Scalar, f func(a []int) bool) {
	b := t.k.e.CmpAtom(op, x, y)
	if isC, _ := b.Const(); isC {
		return
	}
	at := b.Atom()
	if _, have := t.keys[at.Key()]; !have {
		t.keys[at.Key()] = f
	}
	if _, have := t.keys[at.NegKey()]; !have {
		t.keys[at.NegKey()] = func(a []int) bool { return !f(a) }
	}
}

// addSign registers every comparison of r with 0, r being non-zero with the sign sg(a).
func (t *table) addSign(r c17.Scalar, sg func(a []int) int) {
	z := t.k.num(0)
	t.add(token.GTR, r, z, func(a []int) bool { return sg(a) > 0 })
	t.add(token.GEQ, r, z, func(a []int) bool { return sg(a) > 0 })
	t.add(token.LSS, r, z, func(a []int) bool { return sg(a) < 0 })
	t.add(token.LEQ, r, z, func(a []int) bool { return sg(a) < 0 })
	t.add(token.EQL, r, z, func(a []int) bool { return false })
	t.add(token.NEQ, r, z, func(a []int) bool { return true })
}

// addCompare registers x op y+c for all six operators, the operands taking the integer values vx(a), vy(a).
func (t *table) addCompare(x, y c17.Scalar, c int64, vx, vy func(a []int) int) {
	yc := t.k.add(y, t.k.num(c))
	cc := int(c)
	t.add(token.LSS, x, yc, func(a []int) bool { return vx(a) < vy(a)+cc })
	t.add(token.LEQ, x, yc, func(a []int) bool { return vx(a) <= vy(a)+cc })
	t.add(token.GTR, x, yc, func(a []int) bool { return vx(a) > vy(a)+cc })
	t.add(token.GEQ, x, yc, func(a []int) bool { return vx(a) >= vy(a)+cc })
	t.add(token.EQL, x, yc, func(a []int) bool { return vx(a) == vy(a)+cc })
	t.add(token.NEQ, x, yc, func(a []int) bool { return vx(a) != vy(a)+cc })
}

// mentions: does the atom speak about one of the table's symbols?
func (t *table) mentions(a c17.Atom) bool {
	ds, ok := t.k.s.AtomSymbols(a)
	if !ok {
		return false
	}
	for _, d := range ds {
		if t.syms[d.Name] {
			return true
		}
	}
	return false
}

// dpath is one way through the code: its conditions and what happens on it.
type dpath struct {
	conds []c17.Atom
	// out: the outcome label under an assignment (paths whose outcome is itself an atom evaluate it)
	out func(a []int) (string, bool)
	// ret: the path returns this comparison (yes when it holds, no otherwise) instead of a fixed outcome
	ret     *c17.Atom
	yes, no string
}

func constOut(label string) func(a []int) (string, bool) {
	return func([]int) (string, bool) { return label, true }
}

// decide evaluates the paths under every assignment of the domain. It returns "" when the code's outcome
// equals want on the whole domain; otherwise a message and whether the mismatch is a decided violation.
func (t *table) decide(paths []dpath, domain [][]int, want func(a []int) string, show func(a []int) string) (msg string, violated bool) {
	// conditions outside the vocabulary that speak about the table's symbols make the comparison undecidable
	for _, p := range paths {
		for _, c := range p.conds {
			if _, ok := t.keys[c.Key()]; ok {
				continue
			}
			if t.mentions(c) {
				return "the code branches on " + short(c.Key(), 200) + ", a condition outside the vocabulary of the reference", false
			}
		}
	}
	for _, a := range domain {
		outs := map[string]bool{}
		for _, p := range paths {
			ok := true
			for _, c := range p.conds {
				if f, have := t.keys[c.Key()]; have && !f(a) {
					ok = false
					break
				}
			}
			if !ok {
				continue
			}
			var o string
			if p.ret != nil {
				f, have := t.keys[p.ret.Key()]
				if !have {
					return "one path returns " + short(p.ret.Key(), 200) + ", a comparison outside the vocabulary of the reference", false
				}
				o = p.no
				if f(a) {
					o = p.yes
				}
			} else {
				var decided bool
				o, decided = p.out(a)
				if !decided {
					return "the outcome on one path is not a comparison the reference knows", false
				}
			}
			outs[o] = true
		}
		w := want(a)
		switch {
		case len(outs) == 0:
			return "no path of the code covers the case " + show(a), false
		case len(outs) > 1:
			var os []string
			for o := range outs {
				os = append(os, o)
			}
			sort.Strings(os)
			return fmt.Sprintf("in the case %s the outcome is not determined by the compared values (%s)", show(a), strings.Join(os, " / ")), false
		case !outs[w]:
			var got string
			for o := range outs {
				got = o
			}
			return fmt.Sprintf("in the case %s the code gives %q, required is %q", show(a), got, w), true
		}
	}
	return "", false
}

// product enumerates the cartesian product of the value lists.
func product(vals ...[]int) [][]int {
	out := [][]int{{}}
	for _, vs := range vals {
		var next [][]int
		for _, p := range out {
			for _, v := range vs {
				next = append(next, append(append([]int(nil), p...), v))
			}
		}
		out = next
	}
	return out
}

// ---------------------------------------------------------------- loops and paths

func iterPaths(res *c17.Result, id string) []*c17.Path { return c17.IterationPaths(res, id) }

func entryOf(p *c17.Path, id string) *c17.LoopEntry {
	for _, l := range p.Loops {
		if l.ID == id {
			return l
		}
	}
	return nil
}

func loopIndex(p *c17.Path, id string) int {
	for i, l := range p.Loops {
		if l.ID == id {
			return i
		}
	}
	return -1
}

// exited: was loop id left on p, and from its header?
func exited(p *c17.Path, id string) (left, fromHeader bool) {
	for _, x := range p.LoopExits {
		if x.Entry.ID == id {
			return true, x.From == x.Entry.Header
		}
	}
	return false, false
}

// earlyExitPaths: the paths that leave loop id from somewhere else than its header.
func earlyExitPaths(res *c17.Result, id string) []*c17.Path {
	var out []*c17.Path
	for _, p := range res.Paths {
		if left, hdr := exited(p, id); left && !hdr {
			out = append(out, p)
		}
	}
	return out
}

// fullRange decides that the loop behind the index key idxKey visits every index of [0, bound) once:
// first index 0, step 1, guard index < bound. It does not look at early exits (the callers do).
func (k *K) fullRange(res *c17.Result, loopID, idxKey string, bound c17.Scalar) (string, bool) {
	its := iterPaths(res, loopID)
	if len(its) == 0 {
		return "no complete iteration of the loop could be followed", false
	}
	for _, it := range its {
		idx, ok := k.s.IndexFromKey(it, idxKey)
		if !ok {
			return "the index [" + short(idxKey, 80) + "] is not the loop counter", false
		}
		ind, why := k.s.InductionOf(res, it, idx, bound)
		if why != "" {
			return why, false
		}
		if f, isC := k.s.ConstSign(ind.First); !isC || f != 0 {
			return "the loop starts at index " + k.s.Show(ind.First, 3) + ", not at 0", true
		}
		if ind.Step != 1 {
			return fmt.Sprintf("the loop advances by %d", ind.Step), true
		}
		if !ind.GuardOK {
			return "the loop runs while " + short(ind.Guard, 120) + ", not while index < " + k.s.Show(bound, 3), true
		}
	}
	return "", false
}

// ---------------------------------------------------------------- symbols

// elemComp: a is a component of the (never written) element slice[idx].
func (k *K) elemComp(a c17.Scalar) (slice, idx, comp string, ok bool) {
	d, is := k.s.SymbolOf(a)
	if !is || d.Kind != c17.SymElem {
		return "", "", "", false
	}
	pre := "elem(" + d.Slice + ")[" + d.Idx + "]"
	if !strings.HasPrefix(d.Name, pre) {
		return "", "", "", false
	}
	return d.Slice, d.Idx, d.Name[len(pre):], true
}

// keyComp: a is a component of the key a range over a map yields.
func (k *K) keyComp(a c17.Scalar) (mapID, rangeID, comp string, ok bool) {
	d, is := k.s.SymbolOf(a)
	if !is || d.Kind != c17.SymKey || d.Idx != "key" {
		return "", "", "", false
	}
	pre := "key(" + d.Root + ")"
	if !strings.HasPrefix(d.Name, pre) {
		return "", "", "", false
	}
	return d.Slice, d.Root, d.Name[len(pre):], true
}

// ints returns the components of an array value of n integers.
func ints(v c17.Val, n int) ([]c17.Scalar, bool) {
	ch := c17.Children(v)
	if len(ch) != n {
		return nil, false
	}
	t := c17.TypeOf(v)
	if t == nil {
		return nil, false
	}
	at, isArr := t.Underlying().(*types.Array)
	if !isArr {
		return nil, false
	}
	if b, ok := at.Elem().Underlying().(*types.Basic); !ok || b.Info()&types.IsInteger == 0 {
		return nil, false
	}
	out := make([]c17.Scalar, n)
	for i, c := range ch {
		s, ok := c.(c17.Scalar)
		if !ok {
			return nil, false
		}
		out[i] = s
	}
	return out, true
}

func isVec(t types.Type, pkg string) bool {
	n, ok := types.Unalias(t).(*types.Named)
	if !ok {
		return false
	}
	o := n.Origin().Obj()
	return o.Name() == "Vector" && o.Pkg() != nil && o.Pkg().Path() == "github.com/EliCDavis/vector/"+pkg
}

func isVec2Slice(t types.Type) bool {
	sl, ok := t.Underlying().(*types.Slice)
	return ok && isVec(sl.Elem(), "vector2")
}

// point reads slice[idx] as a 2D point.
func (k *K) point(slice c17.Val, idx c17.Scalar) (pt, bool) {
	if v, ok := k.s.ContentAt(slice, idx); ok {
		if l := c17.Leaves(v); len(l) == 2 {
			return pt{l[0], l[1]}, true
		}
	}
	v, ok := k.s.ElemOf(slice, idx)
	if !ok {
		return pt{}, false
	}
	l := c17.Leaves(v)
	if len(l) != 2 {
		return pt{}, false
	}
	return pt{l[0], l[1]}, true
}

// ---------------------------------------------------------------- flow of slice versions

type flow struct {
	fwd map[string]map[string]bool
	und map[string]map[string]bool
}

func (f *flow) edge(a, b string) {
	if a == "" || b == "" || a == b {
		return
	}
	for _, m := range []struct {
		g    map[string]map[string]bool
		x, y string
	}{{f.fwd, a, b}, {f.und, a, b}, {f.und, b, a}} {
		if m.g[m.x] == nil {
			m.g[m.x] = map[string]bool{}
		}
		m.g[m.x][m.y] = true
	}
}

func sid(v c17.Val) string {
	if v == nil {
		return ""
	}
	if _, ok := c17.SliceInfoOf(v); !ok {
		return ""
	}
	return c17.SliceID(v)
}

// buildFlow: Init → Havoc and Next → Havoc of loop-carried slices, base → result of appends.
func buildFlow(res *c17.Result) *flow {
	f := &flow{fwd: map[string]map[string]bool{}, und: map[string]map[string]bool{}}
	for _, p := range res.Paths {
		for _, ent := range p.Loops {
			for j := range ent.Havoc {
				if j < len(ent.Init) {
					f.edge(sid(ent.Init[j]), sid(ent.Havoc[j]))
				}
			}
		}
		if p.Kind == c17.EndLoopBack && p.Iter != nil && p.Iter.Entry != nil {
			for j := range p.Iter.Entry.Havoc {
				if j < len(p.Iter.Next) {
					f.edge(sid(p.Iter.Next[j]), sid(p.Iter.Entry.Havoc[j]))
				}
			}
		}
		for _, ev := range p.Events {
			if (ev.Kind == c17.EvAppend || ev.Kind == c17.EvAppendSlice) && ev.Slice != nil {
				f.edge(c17.SliceID(ev.Slice), sid(ev.Val))
			}
		}
	}
	return f
}

func closure(g map[string]map[string]bool, from string) map[string]bool {
	seen := map[string]bool{from: true}
	work := []string{from}
	for len(work) > 0 {
		x := work[len(work)-1]
		work = work[:len(work)-1]
		for y := range g[x] {
			if !seen[y] {
				seen[y] = true
				work = append(work, y)
			}
		}
	}
	return seen
}

// family: every version connected with id.
func (f *flow) family(id string) map[string]bool { return closure(f.und, id) }

// final: every version of the family of id flows into id (id is the value left when all growth is done).
func (f *flow) final(id string) (missing string, ok bool) {
	var fam []string
	for m := range f.family(id) {
		fam = append(fam, m)
	}
	sort.Strings(fam)
	for _, m := range fam {
		if !closure(f.fwd, m)[id] {
			return m, false
		}
	}
	return "", true
}

func sortedKeys(m map[string]bool) []string {
	out := make([]string, 0, len(m))
	for k := range m {
		out = append(out, k)
	}
	sort.Strings(out)
	return out
}
