package c20

// DEL-VERT: the mesh handed out has position i = input point i embedded as (x, 0, y), copied from the
// list every vertex id was issued against, and its index array is made of the three ids of each triangle.

import (
	"fmt"
	"go/types"
	"strings"

	"golang.org/x/tools/go/ssa"

	"polycheck/load"
	"polycheck/props/c17"
)

func fnPkgPath(fn *ssa.Function) string {
	if fn.Pkg != nil {
		return fn.Pkg.Pkg.Path()
	}
	if o := fn.Origin(); o != nil && o.Pkg != nil {
		return o.Pkg.Pkg.Path()
	}
	if o := fn.Object(); o != nil && o.Pkg() != nil {
		return o.Pkg().Path()
	}
	if p := fn.Parent(); p != nil {
		return fnPkgPath(p)
	}
	return ""
}

func isMeshType(t types.Type) bool {
	n, ok := types.Unalias(t).(*types.Named)
	return ok && n.Obj().Name() == "Mesh" && n.Obj().Pkg() != nil && n.Obj().Pkg().Path() == load.Module+"/modeling"
}

func isTriMap(t types.Type) bool {
	m, ok := t.Underlying().(*types.Map)
	if !ok {
		return false
	}
	a, ok := m.Key().Underlying().(*types.Array)
	if !ok || a.Len() != 3 {
		return false
	}
	b, ok := a.Elem().Underlying().(*types.Basic)
	return ok && b.Info()&types.IsInteger != 0
}

// keepInline: callees of the mesh-building functions that must be looked into (they build the mesh,
// the position array or the index array); every other repository callee stays uninterpreted there.
func keepInline(fn *ssa.Function) bool {
	res := fn.Signature.Results()
	for i := 0; i < res.Len(); i++ {
		t := res.At(i).Type()
		if isMeshType(t) {
			return true
		}
		if sl, ok := t.Underlying().(*types.Slice); ok {
			if isVec(sl.Elem(), "vector3") {
				return true
			}
			if b, ok := sl.Elem().Underlying().(*types.Basic); ok && b.Info()&types.IsInteger != 0 {
				return true
			}
		}
	}
	return false
}

// vert analyses one mesh-building function; it returns the functions whose triangle map feeds the index array.
func (k *K) vert(r *rec, fn *ssa.Function) (pipelines []*types.Func, inlinedPipeline bool) {
	P := k.c.P
	cons := P.FuncName(fn)
	pos := P.Pos(fn.Pos())
	und := func(msg string) { r.undecide("DEL-VERT", cons, pos, msg) }
	bad := func(msg string) { r.violate("DEL-VERT", cons, pos, msg) }

	args := make([]c17.Val, len(fn.Params))
	var input c17.Val
	for i, p := range fn.Params {
		args[i] = k.e.Sym(p.Name(), p.Type())
		if input == nil && isVec2Slice(p.Type()) {
			input = args[i]
		}
	}
	if input == nil {
		und("the function takes no list of 2D points")
		return
	}
	inputID := c17.SliceID(input)
	old := k.e.Opaque
	k.e.Opaque = func(f *ssa.Function) bool {
		if old != nil && old(f) {
			return true
		}
		pp := fnPkgPath(f)
		if pp != load.Module && !strings.HasPrefix(pp, load.Module+"/") {
			return false
		}
		return f != fn && !keepInline(f)
	}
	res := k.e.Run(fn, args)
	k.paths += len(res.Paths)
	k.e.Opaque = old
	if prob := res.Problem(); prob != "" {
		und("the engine cannot follow the function: " + prob)
		return
	}
	rets := res.Returns()
	if len(rets) == 0 {
		und("no returning path")
		return
	}
	fl := buildFlow(res)
	posAttr := "Position"
	if mp := P.Pkg("modeling"); mp != nil {
		if c, ok := mp.Types.Scope().Lookup("PositionAttribute").(*types.Const); ok {
			posAttr = strings.Trim(c.Val().ExactString(), "\"")
		}
	}
	// pipeline functions: uninterpreted callees that return a triangle map
	seenFn := map[*types.Func]bool{}
	for _, p := range res.Paths {
		for _, ev := range p.Events {
			if ev.Kind == c17.EvCall && ev.Fn != nil && !seenFn[ev.Fn] {
				if sig, ok := ev.Fn.Type().(*types.Signature); ok && sig.Results().Len() == 1 && isTriMap(sig.Results().At(0).Type()) {
					seenFn[ev.Fn] = true
					pipelines = append(pipelines, ev.Fn)
				}
			}
		}
	}
	var vertsID, idxID, srcID string
	var facts []string
	for _, rp := range rets {
		if len(rp.Ret) != 1 {
			und("a path does not return one mesh")
			return
		}
		var verts, idx c17.Val
		cur := rp.Ret[0]
		for {
			f, _, as, ok := c17.AppCall(cur)
			if !ok || len(as) == 0 {
				break
			}
			if f != nil && f.Name() == "SetFloat3Attribute" && len(as) == 3 {
				if s, ok := c17.StrConst(as[1]); ok && s == posAttr && verts == nil {
					verts = as[2]
				}
			}
			cur = as[0]
		}
		if t := c17.TypeOf(cur); t != nil && isMeshType(t) {
			st, _ := t.Underlying().(*types.Struct)
			ch := c17.Children(cur)
			for i := 0; st != nil && i < st.NumFields() && i < len(ch); i++ {
				if sl, ok := st.Field(i).Type().Underlying().(*types.Slice); ok {
					if b, ok := sl.Elem().Underlying().(*types.Basic); ok && b.Kind() == types.Int {
						idx = ch[i]
					}
				}
			}
		}
		if verts == nil {
			bad("a returning path hands out a mesh whose " + posAttr + " attribute is not set through SetFloat3Attribute: the vertices of the triangulation are missing")
			return
		}
		if _, ok := c17.SliceInfoOf(idx); !ok {
			und("the index array of the returned mesh could not be followed (" + short(k.s.Describe(cur), 120) + ")")
			return
		}
		vi, ok := c17.SliceInfoOf(verts)
		if !ok {
			und("the position array is not a slice the engine tracks")
			return
		}
		if vertsID != "" && (vertsID != vi.ID || idxID != c17.SliceID(idx)) {
			und("different paths return different arrays")
			return
		}
		vertsID, idxID = vi.ID, c17.SliceID(idx)
		if vi.Origin != "make" {
			und("the position array is not a freshly made array (" + vi.Origin + ")")
			return
		}
		// stores into the position array
		nStores := 0
		for _, p := range res.Paths {
			for _, ev := range p.Events {
				if ev.Slice == nil || c17.SliceID(ev.Slice) != vi.ID {
					continue
				}
				switch ev.Kind {
				case c17.EvBulkWrite:
					und("the position array is also written by " + ev.Callee)
					return
				case c17.EvStoreElem:
					if ev.Loop == nil {
						bad("position " + k.s.Show(ev.Idx, 2) + " is stored outside the loop over the points")
						return
					}
					l := c17.Leaves(ev.Val)
					if len(l) != 3 || len(ev.Path) != 0 {
						und("a position is not stored as one 3-component vector")
						return
					}
					s0, i0, c0, ok0 := k.elemComp(l[0])
					s2, i2, c2, ok2 := k.elemComp(l[2])
					ik := k.key(ev.Idx)
					zero, isC := k.s.ConstSign(l[1])
					if !ok0 || !ok2 || s0 != s2 || i0 != i2 || c0 != ".x" || c2 != ".y" || !isC || zero != 0 {
						bad("position [" + short(ik, 40) + "] is stored as " + short(k.s.Describe(ev.Val), 200) + ", not as (p.x, 0, p.y) of one point p: the published embedding of the triangulation is (x, 0, y)")
						return
					}
					if i0 != ik {
						bad("position [" + short(ik, 40) + "] is copied from point [" + short(i0, 40) + "]: vertex i is not input point i")
						return
					}
					if srcID != "" && srcID != s0 {
						und("positions are copied from more than one list")
						return
					}
					srcID = s0
					if len(earlyExitPaths(res, ev.Loop.ID)) > 0 {
						bad("the loop that copies the points into the position array can be left early: the remaining vertices stay (0,0,0)")
						return
					}
					if why, isBad := k.fullRange(res, ev.Loop.ID, ik, vi.Len); why != "" {
						if isBad {
							bad("not every position is filled from its point: " + why)
						} else {
							und("the loop that fills the positions: " + why)
						}
						return
					}
					for _, it := range iterPaths(res, ev.Loop.ID) {
						has := false
						for _, e2 := range it.Events {
							if e2.Kind == c17.EvStoreElem && e2.Slice != nil && c17.SliceID(e2.Slice) == vi.ID {
								has = true
							}
						}
						if !has {
							bad("some iteration of the copying loop stores no position")
							return
						}
					}
					nStores++
				}
			}
		}
		if nStores == 0 || srcID == "" {
			bad("the position array is made but never filled from the points")
			return
		}
		src, ok := c17.SliceOfPath(rp, srcID)
		if !ok {
			for _, p := range res.Paths {
				if v, ok2 := c17.SliceOfPath(p, srcID); ok2 {
					src, ok = v, true
				}
			}
		}
		if !ok {
			und("the list the positions are copied from could not be followed")
			return
		}
		sl, _ := c17.LenOf(src)
		if !k.s.Equal(vi.Len, sl) {
			bad(fmt.Sprintf("the position array has %s entries, the point list it is copied from %s", k.s.Show(vi.Len, 3), k.s.Show(sl, 3)))
			return
		}
		if !fl.family(inputID)[srcID] {
			bad("the positions are copied from " + srcID + ", which is not the input point list (nor a list grown from it): vertex i is not input point i")
			return
		}
		if missing, ok := fl.final(srcID); !ok {
			bad("the positions are copied from " + srcID + ", but the point list is extended afterwards / elsewhere (" + missing + " does not flow into it): triangles that refer to the appended points index beyond the position array, or the points they mean are missing")
			return
		}
		break
	}
	// the triangle ids must refer to the list the positions are copied from
	for _, p := range res.Paths {
		for _, ev := range p.Events {
			if ev.Kind != c17.EvCall || ev.Fn == nil || !seenFn[ev.Fn] {
				continue
			}
			for _, a := range ev.Args {
				if si, ok := c17.SliceInfoOf(a); ok && si.ID != "" {
					if img := k.classifyStores(res, si.ID, fl.family(inputID)); img.kind != imgUnknown {
						continue // an element-wise image of the input: index i still means input point i (DEL-SAME-POINTS judges the values)
					}
					if _, isPts := a.(c17.Val); isPts && !closure(fl.fwd, si.ID)[srcID] {
						bad("the triangulation is computed by " + ev.Fn.Name() + " from the list " + si.ID + ", the positions are copied from " + srcID + ", which is not that list (nor grown from it): vertex id i does not mean position i")
						return
					}
				}
			}
		}
	}
	facts = append(facts, fmt.Sprintf("positions: make(len = len(%s)), position[i] = (%s[i].x, 0, %s[i].y) for every i (full-range loop, no early exit); %s is the final version of the input list", srcID, srcID, srcID, srcID))
	// --- index array
	if missing, ok := fl.final(idxID); !ok {
		bad("the index array handed to the mesh is " + idxID + ", but triangles are appended to another version of it afterwards (" + missing + ")")
		return
	}
	ifam := fl.family(idxID)
	nApp := 0
	for _, p := range res.Paths {
		for _, ev := range p.Events {
			if ev.Slice == nil || !ifam[c17.SliceID(ev.Slice)] {
				continue
			}
			switch ev.Kind {
			case c17.EvAppendSlice, c17.EvBulkWrite, c17.EvStoreElem:
				und("the index array is also written by something else than append(indices, a, b, c) (" + ev.Callee + ")")
				return
			case c17.EvAppend:
				if len(ev.Args) != 3 {
					bad(fmt.Sprintf("%d indices are appended for one triangle", len(ev.Args)))
					return
				}
				comps := map[string]bool{}
				rng := ""
				for _, a := range ev.Args {
					s, isS := a.(c17.Scalar)
					if !isS {
						und("an index is not a number the engine tracks")
						return
					}
					_, rid, comp, ok := k.keyComp(s)
					if !ok || (rng != "" && rid != rng) {
						bad("the indices appended for one triangle, " + short(k.s.Describe(ev.Args[0])+", "+k.s.Describe(ev.Args[1])+", "+k.s.Describe(ev.Args[2]), 200) + ", are not the three vertex ids of one triangle of the triangulation")
						return
					}
					rng = rid
					comps[comp] = true
				}
				if len(comps) != 3 {
					bad("the indices appended for one triangle repeat a vertex (" + strings.Join(sortedKeys(comps), ", ") + "): the triangle is degenerate")
					return
				}
				if ev.Loop == nil {
					bad("the indices of only one triangle are appended")
					return
				}
				if len(earlyExitPaths(res, ev.Loop.ID)) > 0 {
					bad("the loop that writes the triangles into the index array can be left early")
					return
				}
				nApp++
			}
		}
	}
	if nApp == 0 {
		// a pipeline inlined here stores triangles but nothing reaches the index array
		bad("no triangle of the triangulation reaches the index array")
		return
	}
	facts = append(facts, "indices: append(indices, t[·], t[·], t[·]) with the three different vertex ids of every triangle ranged over; the array handed to the mesh is the final version")
	r.hold("DEL-VERT", cons, pos, facts...)
	// DEL-INPUT on the mesh builder itself (the pipeline function is checked on its own run)
	k.ruleInput(r, cons, pos, res, map[string]bool{inputID: true}, seenFn, nil)
	// DEL-SAME-POINTS: what the triangulating function is handed
	k.pipelineArgument(r, cons, pos, res, fl, inputID, srcID, seenFn)
	// is the pipeline itself inlined in this function (it stores triangles into a fresh map)?
	for _, p := range res.Paths {
		for _, ev := range p.Events {
			if ev.Kind == c17.EvMapUpdate && len(ev.Args) == 3 && ev.Loop == nil {
				if _, fresh, ok := c17.MapID(ev.Args[0]); ok && fresh {
					if _, is := ints(ev.Args[1], 3); is {
						inlinedPipeline = true
					}
				}
			}
		}
	}
	return
}
