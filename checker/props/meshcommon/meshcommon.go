// Package meshcommon: helpers shared by the mesh-operation properties (C02, C03).
package meshcommon

import (
	"fmt"
	"strings"

	"golang.org/x/tools/go/ssa"

	"polycheck/eng"
	"polycheck/load"
	"polycheck/props"
	"polycheck/ssau"
)

const ModelingPath = load.Module + "/modeling"

// Scope: the packages whose functions are mesh operations / generators.
func ScopeFuncs(c *props.Ctx, prefixes ...string) []*ssa.Function {
	var fns []*ssa.Function
	for _, pk := range c.P.Pkgs {
		rel := strings.TrimPrefix(strings.TrimPrefix(pk.PkgPath, load.Module), "/")
		ok := false
		for _, p := range prefixes {
			if rel == p || strings.HasPrefix(rel, p+"/") {
				ok = true
			}
		}
		if !ok {
			continue
		}
		fns = append(fns, c.P.FuncsOf(c.P.SSA.Package(pk.Types))...)
	}
	return fns
}

// ReportIdx turns IDX sites into obligations. filter selects the sites a property owns.
func ReportIdx(c *props.Ctx, x *eng.Idx, filter func(eng.IdxSite) bool, ctlBad, ctlGood map[string]bool) {
	per := map[string]int{}
	for _, s := range x.Sites {
		if filter != nil && !filter(s) {
			continue
		}
		name := c.P.FuncName(s.Fn)
		k := name + "→" + s.What
		per[k]++
		construct := fmt.Sprintf("%s#%d", k, per[k])
		pos := c.P.Pos(ssau.PosOf(s.Instr))
		if c.P.IsControl(s.Fn.Pos()) {
			top := s.Fn
			for top.Parent() != nil {
				top = top.Parent()
			}
			if s.Bad {
				ctlBad[top.Name()] = true
			}
			continue
		}
		if s.Bad {
			msg := ""
			switch s.Rule {
			case "IDX-1":
				msg = "a position in the index array is used as a vertex id: wrong (or out-of-range) vertex on any mesh whose indices are not 0..n-1"
			case "IDX-2":
				msg = "a position in the index array is written as a vertex id into the new index array: references the wrong vertices on any mesh whose indices are not 0..n-1"
			case "IDX-3":
				msg = "a vertex id is used as a position in the index array"
			}
			c.R.Violate(s.Rule, construct, pos, s.Detail+": "+msg)
		} else {
			c.R.Hold(s.Rule, construct, pos, s.Detail)
		}
	}
}

var famNames = map[int]string{1: "float1", 2: "float2", 3: "float3", 4: "float4"}

// ReportFamilies turns FAM-1 / WF-1 results into obligations.
func ReportFamilies(c *props.Ctx, fns []*ssa.Function, ctlBad map[string]bool) (functions int) {
	perPair := map[string]int{}
	for _, pr := range eng.FamilyPairs(fns, ModelingPath) {
		if c.P.IsControl(pr.Fn.Pos()) {
			continue
		}
		k := c.P.FuncName(pr.Fn) + "→" + calleeName(pr.Instr)
		perPair[k]++
		construct := fmt.Sprintf("%s#%d", k, perPair[k])
		if pr.Bad != "" {
			c.R.Violate("FAM-2", construct, c.P.Pos(ssau.PosOf(pr.Instr)), pr.Bad)
		} else {
			c.R.Hold("FAM-2", construct, c.P.Pos(ssau.PosOf(pr.Instr)), pr.Desc+" of two different meshes")
		}
	}
	for _, r := range eng.Families(fns, ModelingPath) {
		name := c.P.FuncName(r.Top)
		var have, missing []string
		for k := 1; k <= 4; k++ {
			if r.Families[k] {
				have = append(have, famNames[k])
			} else {
				missing = append(missing, famNames[k])
			}
		}
		isCtl := c.P.IsControl(r.Top.Pos())
		if !isCtl {
			functions++
		}
		if len(missing) > 0 {
			if isCtl {
				ctlBad[r.Top.Name()] = true
			} else {
				c.R.Violate("FAM-1", name, c.P.Pos(r.Top.Pos()), "rebuilds attribute arrays for "+strings.Join(have, ",")+" but never enumerates "+strings.Join(missing, ",")+": attributes of that family are dropped or keep their old length")
			}
		} else if !isCtl {
			c.R.Hold("FAM-1", name, c.P.Pos(r.Top.Pos()), fmt.Sprintf("enumerates all four attribute families (%d enumerations)", len(r.Enums)))
		}
		if len(r.Skips) == 0 {
			if !isCtl {
				c.R.Hold("WF-1", name, c.P.Pos(r.Top.Pos()), fmt.Sprintf("%d groups of enumerations are control-equivalent", r.Groups))
			}
			continue
		}
		for _, s := range r.Skips {
			if isCtl {
				ctlBad[r.Top.Name()] = true
				continue
			}
			if s.Missing != 0 {
				c.R.Violate("FAM-1", fmt.Sprintf("%s#group-missing-%s", name, famNames[s.Missing]), c.P.Pos(ssau.PosOf(s.A.Instr)),
					"this group of per-family steps handles several attribute families but never "+famNames[s.Missing]+": arrays of that family keep a different length")
				continue
			}
			c.R.Violate("WF-1", fmt.Sprintf("%s#%s→%s", name, famNames[s.A.Family], famNames[s.B.Family]), c.P.Pos(ssau.PosOf(s.B.Instr)),
				"after the "+famNames[s.A.Family]+" attributes are handled "+s.How+" on some path without handling the "+famNames[s.B.Family]+" attributes: the rebuilt arrays get different lengths")
		}
	}
	return
}

func calleeName(in ssa.Instruction) string {
	if c, ok := in.(ssa.CallInstruction); ok {
		if f := c.Common().StaticCallee(); f != nil {
			if f.Origin() != nil {
				return f.Origin().Name()
			}
			return f.Name()
		}
	}
	return "call"
}
