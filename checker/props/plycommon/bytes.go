package plycommon

import (
	"go/token"
	"go/types"

	"golang.org/x/tools/go/ssa"

	"polycheck/ssau"
)

// Access is one fixed-width access to a byte buffer.
type Access struct {
	In       ssa.Instruction
	Put      bool
	Width    int64
	Buf      ssa.Value // root buffer value (Slice operations stripped)
	BufKey   string    // PathKey of the root
	Off      ssa.Value // non-constant part of the offset (nil when constant)
	OffConst int64     // constant offset (sum of constant slice lows / index)
	Val      ssa.Value // Put: the value written; Get: the value read (call result / load)
	Kind     string    // u8, i16, i32, i64, f32, f64, const:<n>, ?
	// for an access made inside a helper / closure: the written value in the helper's own
	// terms and the binding of the helper's parameters to the caller's arguments
	InnerVal ssa.Value
	Bind     map[ssa.Value]ssa.Value
}

func byteOrderMethod(callee *types.Func) (width int64, put bool, ok bool) {
	if callee == nil || callee.Pkg() == nil || callee.Pkg().Path() != "encoding/binary" {
		return 0, false, false
	}
	switch callee.Name() {
	case "PutUint16":
		return 2, true, true
	case "PutUint32":
		return 4, true, true
	case "PutUint64":
		return 8, true, true
	case "Uint16":
		return 2, false, true
	case "Uint32":
		return 4, false, true
	case "Uint64":
		return 8, false, true
	}
	return 0, false, false
}

// bufRoot strips Slice operations, accumulating the low bound.
func bufRoot(v ssa.Value) (root ssa.Value, off ssa.Value, offConst int64, ok bool) {
	ok = true
	for {
		s, isSlice := v.(*ssa.Slice)
		if !isSlice {
			break
		}
		if s.Low != nil {
			if k, isK := ssau.ConstInt(s.Low); isK {
				offConst += k
			} else if off == nil {
				off = s.Low
			} else {
				ok = false
			}
		}
		v = s.X
	}
	return v, off, offConst, ok
}

func isByteSlice(t types.Type) bool {
	s, ok := t.Underlying().(*types.Slice)
	if !ok {
		return false
	}
	b, ok := s.Elem().Underlying().(*types.Basic)
	return ok && b.Kind() == types.Uint8
}

// CollectAccesses returns the fixed-width byte-buffer accesses of fn:
// ByteOrder.Put*/Uint* calls, single-byte stores and single-byte loads.
func CollectAccesses(fn *ssa.Function) []Access { return collectAccesses(fn, 0) }

// helperAccesses maps the accesses a formats/ply helper makes to its []byte
// parameters into the caller (one call level per recursion step, depth ≤ 2), so
// that extracting `putF32(endian, buf[4:], v)` / `f32At(endian, buf, off)` does
// not change what the layout rules see.
func helperAccesses(call *ssa.Call, depth int) []Access {
	if depth >= 2 {
		return nil
	}
	cc := call.Common()
	callee := cc.StaticCallee()
	if callee == nil || callee.Blocks == nil || callee.Pkg == nil || callee.Pkg.Pkg.Path() != PlyPath {
		return nil
	}
	hasBuf := false
	for _, a := range cc.Args {
		if isByteSlice(a.Type()) {
			hasBuf = true
		}
	}
	if !hasBuf {
		return nil
	}
	paramIdx := map[ssa.Value]int{}
	for i, p := range callee.Params {
		paramIdx[p] = i
	}
	var out []Access
	for _, a := range collectAccesses(callee, depth+1) {
		pi, isParam := paramIdx[a.Buf]
		if !isParam || pi >= len(cc.Args) {
			continue
		}
		root, off, k, ok := bufRoot(cc.Args[pi])
		m := Access{In: call, Put: a.Put, Width: a.Width, Buf: root, BufKey: PathKey(root), OffConst: k + a.OffConst, Kind: a.Kind}
		if !ok {
			m.Kind = "?"
		}
		// variable part of the offset: the helper's own (a parameter) or the argument slice's
		switch {
		case a.Off != nil && off != nil:
			m.Kind = "?"
		case a.Off != nil:
			if oi, isP := paramIdx[StripConv(a.Off)]; isP && oi < len(cc.Args) {
				m.Off = cc.Args[oi]
			} else {
				m.Kind = "?"
			}
		default:
			m.Off = off
		}
		if a.Put {
			m.InnerVal = a.Val
			m.Bind = map[ssa.Value]ssa.Value{}
			for pi2, p2 := range callee.Params {
				if pi2 < len(cc.Args) {
					m.Bind[p2] = cc.Args[pi2]
				}
			}
			// the written value in caller terms: the argument bound to the parameter it derives from
			m.Val = call
			BackSlice(a.Val, func(v ssa.Value) bool {
				if vi, isP := paramIdx[v]; isP && vi < len(cc.Args) && !isByteSlice(v.Type()) {
					if _, isIface := v.Type().Underlying().(*types.Interface); !isIface {
						m.Val = cc.Args[vi]
					}
				}
				return true
			})
		} else {
			m.Val = call
		}
		out = append(out, m)
	}
	return out
}

func collectAccesses(fn *ssa.Function, depth int) []Access {
	var out []Access
	ssau.AllInstrs(fn, func(in ssa.Instruction) {
		switch x := in.(type) {
		case *ssa.Call:
			cc, callee := CallTo(x)
			w, put, ok := byteOrderMethod(callee)
			if !ok {
				out = append(out, helperAccesses(x, depth)...)
				return
			}
			bufArg := Arg(cc, callee, 0)
			if bufArg == nil || !isByteSlice(bufArg.Type()) {
				return
			}
			root, off, k, okRoot := bufRoot(bufArg)
			a := Access{In: x, Put: put, Width: w, Buf: root, BufKey: PathKey(root), Off: off, OffConst: k}
			if !okRoot {
				a.Kind = "?"
			}
			if put {
				a.Val = Arg(cc, callee, 1)
				a.Kind = putKind(a.Val, w)
			} else {
				a.Val = x
				a.Kind = getKind(x, w)
			}
			out = append(out, a)
		case *ssa.Store:
			ia, ok := x.Addr.(*ssa.IndexAddr)
			if !ok || !isByteSlice(ia.X.Type()) {
				return
			}
			root, off, k, okRoot := bufRoot(ia.X)
			a := Access{In: x, Put: true, Width: 1, Buf: root, BufKey: PathKey(root), Off: off, OffConst: k, Val: x.Val}
			if ik, isK := ssau.ConstInt(ia.Index); isK {
				a.OffConst += ik
			} else if a.Off == nil {
				a.Off = ia.Index
			} else {
				okRoot = false
			}
			a.Kind = putKind(x.Val, 1)
			if !okRoot {
				a.Kind = "?"
			}
			out = append(out, a)
		case *ssa.UnOp:
			if x.Op != token.MUL {
				return
			}
			ia, ok := x.X.(*ssa.IndexAddr)
			if !ok || !isByteSlice(ia.X.Type()) {
				return
			}
			root, off, k, okRoot := bufRoot(ia.X)
			a := Access{In: x, Put: false, Width: 1, Buf: root, BufKey: PathKey(root), Off: off, OffConst: k, Val: x}
			if ik, isK := ssau.ConstInt(ia.Index); isK {
				a.OffConst += ik
			} else if a.Off == nil {
				a.Off = ia.Index
			} else {
				okRoot = false
			}
			a.Kind = getKind(x, 1)
			if !okRoot {
				a.Kind = "?"
			}
			out = append(out, a)
		}
	})
	return out
}

func basicKind(t types.Type) types.BasicKind {
	b, ok := t.Underlying().(*types.Basic)
	if !ok {
		return types.Invalid
	}
	return b.Kind()
}

// putKind: how a value about to be written was encoded.
func putKind(v ssa.Value, width int64) string {
	if k, ok := ssau.ConstInt(v); ok {
		return "const:" + itoa(k)
	}
	if c, ok := v.(*ssa.Call); ok {
		_, callee := CallTo(c)
		if ssau.IsFunc(callee, "math", "Float32bits") {
			return "f32"
		}
		if ssau.IsFunc(callee, "math", "Float64bits") {
			return "f64"
		}
	}
	if c, ok := v.(*ssa.Convert); ok {
		switch basicKind(c.Type()) {
		case types.Uint8:
			return "u8"
		case types.Uint16, types.Int16:
			return "i16"
		case types.Uint32, types.Int32:
			return "i32"
		case types.Uint64, types.Int64:
			return "i64"
		}
	}
	switch width {
	case 1:
		if basicKind(v.Type()) == types.Uint8 {
			return "u8"
		}
	}
	return "?"
}

// getKind: how a value just read is interpreted by its users.
func getKind(v ssa.Value, width int64) string {
	kind := "?"
	for _, r := range ssau.Refs(v) {
		switch x := r.(type) {
		case *ssa.Call:
			_, callee := CallTo(x)
			if ssau.IsFunc(callee, "math", "Float32frombits") {
				return "f32"
			}
			if ssau.IsFunc(callee, "math", "Float64frombits") {
				return "f64"
			}
		case *ssa.Convert:
			switch basicKind(x.Type()) {
			case types.Int32, types.Uint32:
				if width == 4 {
					kind = "i32"
				} else if width == 1 {
					kind = "u8"
				}
			case types.Int16, types.Uint16:
				if width == 2 {
					kind = "i16"
				}
			case types.Int64, types.Uint64, types.Int:
				if width == 8 {
					kind = "i64"
				} else if width == 1 {
					kind = "u8"
				} else if width == 4 {
					kind = "i32"
				}
			case types.Float64, types.Float32:
				if width == 1 {
					kind = "u8"
				}
			}
		}
	}
	return kind
}

func itoa(k int64) string {
	neg := k < 0
	if neg {
		k = -k
	}
	if k == 0 {
		return "0"
	}
	var b []byte
	for k > 0 {
		b = append([]byte{byte('0' + k%10)}, b...)
		k /= 10
	}
	if neg {
		return "-" + string(b)
	}
	return string(b)
}

// SpecKind: wire encoding of each PLY scalar type (published format; int and uint share the 32-bit integer encoding).
var SpecKind = map[string]string{"char": "i8", "uchar": "u8", "short": "i16", "ushort": "i16", "int": "i32", "uint": "i32", "float": "f32", "double": "f64"}

// Tile checks that [off, off+width) of the given accesses tile [0, total) exactly.
func Tile(acc []Access, total int64) (bool, string) {
	covered := make(map[int64]int)
	for _, a := range acc {
		if a.Off != nil {
			return false, "an access has a non-constant offset"
		}
		for b := a.OffConst; b < a.OffConst+a.Width; b++ {
			covered[b]++
		}
	}
	for b := int64(0); b < total; b++ {
		switch covered[b] {
		case 0:
			return false, "byte " + itoa(b) + " of the " + itoa(total) + "-byte record is never written"
		case 1:
		default:
			return false, "byte " + itoa(b) + " is written more than once (overlapping fields)"
		}
	}
	for b := range covered {
		if b < 0 || b >= total {
			return false, "byte " + itoa(b) + " lies outside the " + itoa(total) + "-byte record"
		}
	}
	return true, ""
}

// mustPass reports whether every path from `from` to `to` passes through block b.
func mustPass(from, b, to *ssa.BasicBlock) bool {
	if b == from || b == to {
		return true
	}
	if from == to {
		return false
	}
	// is `to` reachable from `from` avoiding b?
	seen := map[*ssa.BasicBlock]bool{b: true}
	stack := []*ssa.BasicBlock{from}
	for len(stack) > 0 {
		n := stack[len(stack)-1]
		stack = stack[:len(stack)-1]
		if n == to {
			return false
		}
		if seen[n] {
			continue
		}
		seen[n] = true
		stack = append(stack, n.Succs...)
	}
	return true
}
