package plycommon

// Controls returns the positive / negative self-test controls of the PLY rules.
// They are type-checked inside package formats/ply (overlay, nothing on disk).
func Controls() map[string]string {
	return map[string]string{ControlFile: controlSrc}
}

const controlSrc = `package ply

import (
	"bytes"
	"encoding/binary"
	"io"
	"strings"

	"github.com/EliCDavis/polyform/modeling"
	"github.com/EliCDavis/polyform/modeling/meshops"
	"github.com/EliCDavis/vector/vector2"
)

// ---- IDX-1 -----------------------------------------------------------------

// must fire: attribute fetched by a position in the index array
func verifControlIDX1Bad(model modeling.Mesh) float64 {
	indices := model.Indices()
	tex := model.Float2Attribute(modeling.TexCoordAttribute)
	s := 0.
	for i := 0; i < indices.Len(); i += 3 {
		s += tex.At(i + 1).X()
	}
	return s
}

// must stay silent: by vertex id, by attribute position, primitive-count loops
func verifControlIDX1Good(model modeling.Mesh) float64 {
	indices := model.Indices()
	tex := model.Float2Attribute(modeling.TexCoordAttribute)
	s := 0.
	n := indices.Len()
	for i := 0; i < n; i++ {
		s += tex.At(indices.At(i)).X()
	}
	for i := 0; i < tex.Len(); i++ {
		s += tex.At(i).Y()
	}
	for i := 0; i < model.PrimitiveCount(); i++ {
		s += tex.At(i).X()
	}
	return s
}

// ---- LAY-7 -----------------------------------------------------------------

func verifControlLAY7Bad(element Element, name string) asciiPropertyReader {
	var st ScalarPropertyType
	for i, prop := range element.Properties {
		scalar := prop.(ScalarProperty)
		if scalar.PropertyName == name {
			return &builtAsciiVector1PropertyReader{arr: make([]float64, element.Count), offset: i, scalarType: st, plyProperty: name}
		}
	}
	return nil
}

func verifControlLAY7Good(element Element, name string) asciiPropertyReader {
	for i, prop := range element.Properties {
		scalar := prop.(ScalarProperty)
		if scalar.PropertyName == name {
			t := scalar.Type
			return &builtAsciiVector1PropertyReader{arr: make([]float64, element.Count), offset: i, scalarType: t, plyProperty: name}
		}
	}
	return nil
}

// ---- IO-3 ------------------------------------------------------------------

func verifControlIO3Bad(lpr *listBinaryPropertyReader, in io.Reader, out []int) error {
	if err := lpr.Read(in); err != nil {
		return err
	}
	lpr.Int(out)
	return nil
}

func verifControlIO3Good(lpr *listBinaryPropertyReader, in io.Reader, out []int) error {
	if err := lpr.Read(in); err != nil {
		return err
	}
	err := lpr.Int(out)
	return err
}

// ---- LAY-4 / AXIS-1 (builders) -----------------------------------------------

// must fire: a property of one type is skipped before the running size is advanced
func (v1pr Vector1PropertyReader) verifControlLAY4BadBinary(element Element, endian binary.ByteOrder) binaryPropertyReader {
	total := 0
	for _, prop := range element.Properties {
		scalar := prop.(ScalarProperty)
		if scalar.Type == Char {
			continue
		}
		if scalar.PropertyName == v1pr.PlyProperty {
			return &builtVector1PropertyReader{arr: make([]float64, element.Count), offset: total, scalarType: scalar.Type, endian: endian, plyProperty: v1pr.PlyProperty}
		}
		total += scalar.Size()
	}
	return nil
}

// must fire: column is one past the ordinal
func (v1pr Vector1PropertyReader) verifControlLAY4BadAscii(element Element) asciiPropertyReader {
	for i, prop := range element.Properties {
		scalar := prop.(ScalarProperty)
		if scalar.PropertyName == v1pr.PlyProperty {
			return &builtAsciiVector1PropertyReader{arr: make([]float64, element.Count), offset: i + 1, scalarType: scalar.Type, plyProperty: v1pr.PlyProperty}
		}
	}
	return nil
}

// must stay silent: counted loop, hoisted size, advance first and subtract
func (v1pr Vector1PropertyReader) verifControlLAY4GoodBinary(element Element, endian binary.ByteOrder) binaryPropertyReader {
	total := 0
	for i := 0; i < len(element.Properties); i++ {
		scalar := element.Properties[i].(ScalarProperty)
		sz := scalar.Type.Size()
		total += sz
		if scalar.PropertyName == v1pr.PlyProperty {
			return &builtVector1PropertyReader{arr: make([]float64, element.Count), offset: total - sz, scalarType: scalar.Type, endian: endian, plyProperty: v1pr.PlyProperty}
		}
	}
	return nil
}

// must stay silent: hand-kept column counter
func (v1pr Vector1PropertyReader) verifControlLAY4GoodAscii(element Element) asciiPropertyReader {
	col := 0
	for _, prop := range element.Properties {
		scalar := prop.(ScalarProperty)
		if scalar.PropertyName == v1pr.PlyProperty {
			return &builtAsciiVector1PropertyReader{arr: make([]float64, element.Count), offset: col, scalarType: scalar.Type, plyProperty: v1pr.PlyProperty}
		}
		col++
	}
	return nil
}

// must fire (AXIS-1): x and y offsets swapped where the reader is built
func (v2pr Vector2PropertyReader) verifControlLAY4AxisBadAscii(element Element) asciiPropertyReader {
	xOffset, yOffset := -1, -1
	var st ScalarPropertyType
	for i, prop := range element.Properties {
		scalar := prop.(ScalarProperty)
		if scalar.PropertyName == v2pr.PlyPropertyX {
			xOffset = i
			st = scalar.Type
		}
		if scalar.PropertyName == v2pr.PlyPropertyY {
			yOffset = i
		}
	}
	if xOffset > -1 && yOffset > -1 {
		return &builtAsciiVector2PropertyReader{xOffset: yOffset, yOffset: xOffset, scalarType: st}
	}
	return nil
}

func (v2pr Vector2PropertyReader) verifControlLAY4AxisGoodAscii(element Element) asciiPropertyReader {
	xOffset, yOffset := -1, -1
	var st ScalarPropertyType
	for i, prop := range element.Properties {
		scalar := prop.(ScalarProperty)
		switch scalar.PropertyName {
		case v2pr.PlyPropertyY:
			yOffset = i
		case v2pr.PlyPropertyX:
			xOffset = i
			st = scalar.Type
		}
	}
	if xOffset > -1 && yOffset > -1 {
		return &builtAsciiVector2PropertyReader{xOffset: xOffset, yOffset: yOffset, scalarType: st}
	}
	return nil
}

// ---- LAY-5 -----------------------------------------------------------------

func verifControlLAY5Bad(format Format) binary.ByteOrder {
	var endian binary.ByteOrder = binary.LittleEndian
	if format != BinaryBigEndian {
		endian = binary.BigEndian
	}
	return endian
}

func verifControlLAY5Good(format Format) binary.ByteOrder {
	switch format {
	case BinaryBigEndian:
		return binary.BigEndian
	}
	return binary.LittleEndian
}

func verifControlLAY5Good2(format Format) binary.ByteOrder {
	var endian binary.ByteOrder = binary.LittleEndian
	if !(format != BinaryBigEndian) {
		endian = binary.BigEndian
	}
	return endian
}

// ---- LAY-8 -----------------------------------------------------------------

func verifControlLAY8Bad(reader *listBinaryPropertyReader, in io.Reader, n int) ([]int, []vector2.Float64, error) {
	indices := make([]int, 0)
	uvs := make([]vector2.Float64, 0)
	ib := make([]int, 4)
	tb := make([]float64, 8)
	for i := 0; i < n; i++ {
		if err := reader.Read(in); err != nil {
			return nil, nil, err
		}
		if err := reader.Int(ib); err != nil {
			return nil, nil, err
		}
		if err := reader.Float64(tb); err != nil {
			return nil, nil, err
		}
		points := reader.lastReadListSize
		indices = append(indices, ib[:3]...)
		if points == 4 {
			indices = append(indices, ib[0], ib[1], ib[3])
		}
		uvs = append(uvs, vector2.New(tb[0], tb[1]), vector2.New(tb[2], tb[3]), vector2.New(tb[4], tb[5]))
		if points == 4 {
			uvs = append(uvs, vector2.New(tb[0], tb[1]), vector2.New(tb[4], tb[5]), vector2.New(tb[6], tb[7]))
		}
	}
	return indices, uvs, nil
}

func verifControlLAY8Good(reader *listBinaryPropertyReader, in io.Reader, n int) ([]int, []vector2.Float64, error) {
	var indices []int
	var uvs []vector2.Float64
	ib := make([]int, 4)
	tb := make([]float64, 8)
	for i := 0; i < n; i++ {
		if err := reader.Read(in); err != nil {
			return nil, nil, err
		}
		if err := reader.Int(ib); err != nil {
			return nil, nil, err
		}
		if err := reader.Float64(tb); err != nil {
			return nil, nil, err
		}
		isQuad := reader.lastReadListSize == 4
		indices = append(indices, ib[0], ib[1], ib[2])
		uvs = append(uvs, vector2.New(tb[0], tb[1]), vector2.New(tb[2], tb[3]), vector2.New(tb[4], tb[5]))
		if isQuad {
			indices = append(indices, ib[0], ib[2], ib[3])
			uvs = append(uvs, vector2.New(tb[0], tb[1]), vector2.New(tb[4], tb[5]), vector2.New(tb[6], tb[7]))
		}
	}
	return indices, uvs, nil
}

// ---- LAY-9 -----------------------------------------------------------------

// must fire: the Y arm overwrites the group's type without the still-unset guard
func (v2pr Vector2PropertyReader) verifControlLAY9BadAscii(element Element) asciiPropertyReader {
	xOffset, yOffset := -1, -1
	var st ScalarPropertyType
	for i, prop := range element.Properties {
		scalar := prop.(ScalarProperty)
		if scalar.PropertyName == v2pr.PlyPropertyX {
			xOffset = i
			if st == "" {
				st = scalar.Type
			}
			if st != scalar.Type {
				xOffset = -1
			}
		}
		if scalar.PropertyName == v2pr.PlyPropertyY {
			yOffset = i
			st = scalar.Type
			if st != scalar.Type {
				yOffset = -1
			}
		}
	}
	if xOffset > -1 && yOffset > -1 {
		return &builtAsciiVector2PropertyReader{arr: make([]vector2.Float64, element.Count), xOffset: xOffset, yOffset: yOffset, scalarType: st}
	}
	return nil
}

func (v2pr Vector2PropertyReader) verifControlLAY9GoodAscii(element Element) asciiPropertyReader {
	xOffset, yOffset := -1, -1
	var st ScalarPropertyType
	for i, prop := range element.Properties {
		scalar := prop.(ScalarProperty)
		switch scalar.PropertyName {
		case v2pr.PlyPropertyX:
			xOffset = i
			if string(st) == "" {
				st = scalar.Type
			}
			if st != scalar.Type {
				xOffset = -1
			}
		case v2pr.PlyPropertyY:
			yOffset = i
			if len(st) == 0 {
				st = scalar.Type
			}
			if scalar.Type != st {
				yOffset = -1
			}
		}
	}
	if xOffset > -1 && yOffset > -1 {
		return &builtAsciiVector2PropertyReader{arr: make([]vector2.Float64, element.Count), xOffset: xOffset, yOffset: yOffset, scalarType: st}
	}
	return nil
}

// ---- UNW-1 -----------------------------------------------------------------

// must fire: the per-corner rebuild is skipped by a data-dependent shortcut
func verifControlUNW1Bad(element Element, endian binary.ByteOrder, in io.Reader, vertexCount int64) (*modeling.Mesh, error) {
	indices, uvs, err := readBinaryFaceElement(element, endian, in)
	if err != nil {
		return nil, err
	}
	mesh := modeling.NewMesh(modeling.TriangleTopology, indices)
	if len(uvs) == len(indices) {
		if int64(len(indices)) != vertexCount {
			mesh = mesh.Transform(meshops.UnweldTransformer{})
		}
		mesh = mesh.SetFloat2Attribute(modeling.TexCoordAttribute, uvs)
	}
	return &mesh, nil
}

// must fire: texture coordinates dropped for "already unwelded" files
func verifControlUNW1Bad2(element Element, endian binary.ByteOrder, in io.Reader, vertexCount int64) (*modeling.Mesh, error) {
	indices, uvs, err := readBinaryFaceElement(element, endian, in)
	if err != nil {
		return nil, err
	}
	mesh := modeling.NewMesh(modeling.TriangleTopology, indices)
	if len(uvs) == len(indices) && int64(len(indices)) != vertexCount {
		mesh = meshops.Unweld(mesh).SetFloat2Attribute(modeling.TexCoordAttribute, uvs)
	}
	return &mesh, nil
}

// must stay silent: separate statements, function form, emptiness guard
func verifControlUNW1Good(element Element, endian binary.ByteOrder, in io.Reader) (*modeling.Mesh, error) {
	indices, uvs, err := readBinaryFaceElement(element, endian, in)
	if err != nil {
		return nil, err
	}
	mesh := modeling.NewMesh(modeling.TriangleTopology, indices)
	if len(uvs) > 0 && len(uvs) == len(indices) {
		mesh = meshops.Unweld(mesh)
		mesh = mesh.SetFloat2Attribute(modeling.TexCoordAttribute, uvs)
	}
	return &mesh, nil
}

// ---- CFG-1 -----------------------------------------------------------------

// must fire: filtering in place re-uses the caller's backing array
func (mw MeshWriter) verifControlCFG1Bad(mesh modeling.Mesh) []PropertyWriter {
	ws := mw.Properties[:0]
	for _, p := range mw.Properties {
		if p.MeshQualifies(mesh) {
			ws = append(ws, p)
		}
	}
	return ws
}

// must fire: element store into the package default table
func verifControlCFG1Bad2(first PropertyWriter) {
	w := defaultWriter
	w.Properties[0] = first
}

// must stay silent: fresh local slices (also re-sliced with [:0]), copies, capped full-slice append
func (mw MeshWriter) verifControlCFG1Good(mesh modeling.Mesh, extra PropertyWriter) []PropertyWriter {
	ws := make([]PropertyWriter, 0, len(mw.Properties))
	for round := 0; round < 2; round++ {
		ws = ws[:0]
		for _, p := range mw.Properties {
			if p.MeshQualifies(mesh) {
				ws = append(ws, p)
			}
		}
	}
	cp := append([]PropertyWriter(nil), mw.Properties...)
	cp[0] = extra
	capped := append(mw.Properties[:len(mw.Properties):len(mw.Properties)], extra)
	mw.Properties = cp
	mw.Properties = append(mw.Properties, extra)
	return append(ws, capped...)
}

// ---- LAY-10 ----------------------------------------------------------------

// must fire: the scan stops after the Y component although X may come later
func (v2pr Vector2PropertyReader) verifControlLAY10BadAscii(element Element) asciiPropertyReader {
	xOffset, yOffset := -1, -1
	var st ScalarPropertyType
	for i, prop := range element.Properties {
		scalar := prop.(ScalarProperty)
		if scalar.PropertyName == v2pr.PlyPropertyX {
			xOffset = i
			st = scalar.Type
		}
		if scalar.PropertyName == v2pr.PlyPropertyY {
			yOffset = i
			break
		}
	}
	if xOffset > -1 && yOffset > -1 {
		return &builtAsciiVector2PropertyReader{arr: make([]vector2.Float64, element.Count), xOffset: xOffset, yOffset: yOffset, scalarType: st}
	}
	return nil
}

// must fire: the last property is never looked at
func (v2pr Vector2PropertyReader) verifControlLAY10Bad2Ascii(element Element) asciiPropertyReader {
	xOffset, yOffset := -1, -1
	var st ScalarPropertyType
	for i := 0; i < len(element.Properties)-1; i++ {
		scalar := element.Properties[i].(ScalarProperty)
		if scalar.PropertyName == v2pr.PlyPropertyX {
			xOffset = i
			st = scalar.Type
		}
		if scalar.PropertyName == v2pr.PlyPropertyY {
			yOffset = i
		}
	}
	if xOffset > -1 && yOffset > -1 {
		return &builtAsciiVector2PropertyReader{arr: make([]vector2.Float64, element.Count), xOffset: xOffset, yOffset: yOffset, scalarType: st}
	}
	return nil
}

// must stay silent: leaves the scan only once both components are known
func (v2pr Vector2PropertyReader) verifControlLAY10GoodAscii(element Element) asciiPropertyReader {
	xOffset, yOffset := -1, -1
	var st ScalarPropertyType
	for i, prop := range element.Properties {
		scalar := prop.(ScalarProperty)
		if scalar.PropertyName == v2pr.PlyPropertyX {
			xOffset = i
			st = scalar.Type
		}
		if scalar.PropertyName == v2pr.PlyPropertyY {
			yOffset = i
		}
		if xOffset > -1 && yOffset >= 0 {
			break
		}
	}
	if xOffset > -1 && yOffset > -1 {
		return &builtAsciiVector2PropertyReader{arr: make([]vector2.Float64, element.Count), xOffset: xOffset, yOffset: yOffset, scalarType: st}
	}
	return nil
}

// ---- SENT-1 ----------------------------------------------------------------

// must fire: offset 0 is treated as "missing"
func (v2pr Vector2PropertyReader) verifControlSENT1BadAscii(element Element) asciiPropertyReader {
	xOffset, yOffset := -1, -1
	var st ScalarPropertyType
	for i, prop := range element.Properties {
		scalar := prop.(ScalarProperty)
		if scalar.PropertyName == v2pr.PlyPropertyX {
			xOffset = i
			st = scalar.Type
		}
		if scalar.PropertyName == v2pr.PlyPropertyY {
			yOffset = i
		}
	}
	if xOffset > 0 && yOffset >= 0 {
		return &builtAsciiVector2PropertyReader{arr: make([]vector2.Float64, element.Count), xOffset: xOffset, yOffset: yOffset, scalarType: st}
	}
	return nil
}

// must stay silent: the three equivalent spellings of "found", and of "missing"
func (v2pr Vector2PropertyReader) verifControlSENT1GoodAscii(element Element) asciiPropertyReader {
	xOffset, yOffset := -1, -1
	var st ScalarPropertyType
	for i, prop := range element.Properties {
		scalar := prop.(ScalarProperty)
		if scalar.PropertyName == v2pr.PlyPropertyX {
			xOffset = i
			st = scalar.Type
		}
		if scalar.PropertyName == v2pr.PlyPropertyY {
			yOffset = i
		}
	}
	if xOffset == -1 || yOffset < 0 {
		return nil
	}
	if xOffset != -1 && 0 <= yOffset {
		return &builtAsciiVector2PropertyReader{arr: make([]vector2.Float64, element.Count), xOffset: xOffset, yOffset: yOffset, scalarType: st}
	}
	return nil
}

// must fire: list position 0 treated as absent
func verifControlSENT1BadIndex(element Element) (int, bool) {
	texProp := -1
	for i, prop := range element.Properties {
		if prop.Name() == "texcoord" {
			texProp = i
		}
	}
	hasTex := texProp > 0
	return texProp, hasTex
}

// must stay silent
func verifControlSENT1GoodIndex(element Element) (int, bool) {
	texProp := -1
	for i, prop := range element.Properties {
		if prop.Name() == "texcoord" {
			texProp = i
		}
	}
	hasTex := texProp != -1 && texProp >= 0
	return texProp, hasTex
}

// ---- BYTES-1 ---------------------------------------------------------------

func verifControlBYTES1Bad(data []byte) (*modeling.Mesh, error) {
	return ReadMesh(bytes.NewReader(bytes.TrimSpace(data)))
}

func verifControlBYTES1Good(data []byte, text string) (*modeling.Mesh, error) {
	if len(data) == 0 {
		return ReadMesh(strings.NewReader(text))
	}
	raw := data
	return ReadMesh(bytes.NewReader(raw))
}

// ---- TOKSEP-1 --------------------------------------------------------------

func verifControlTOKSEP1Bad(reader asciiPropertyReader, text string, i int64) error {
	return reader.Read(strings.Split(text, " "), i)
}

func verifControlTOKSEP1Good(reader asciiPropertyReader, text string, i int64) error {
	cols := strings.Fields(text)
	return reader.Read(cols[0:], i)
}

var _ = binary.LittleEndian
`
