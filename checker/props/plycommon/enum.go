package plycommon

import (
	"go/constant"
	"go/token"
	"go/types"
	"sort"

	"golang.org/x/tools/go/ssa"
)

// EnumCase is one `tag == const` test of a switch / if-else chain.
type EnumCase struct {
	Const  string
	Test   *ssa.BasicBlock // block ending in the If
	Target *ssa.BasicBlock // where control goes when tag == Const
	Cmp    *ssa.BinOp
}

// EnumSwitch is a maximal chain of equality tests of one tag against string
// constants, linked through their "not equal" edges. It is how both `switch`
// statements and `if … else if …` chains look in SSA (DESIGN Appendix A).
type EnumSwitch struct {
	Fn      *ssa.Function
	Tag     ssa.Value // tag operand of the first test
	TagKey  string
	Cases   []EnumCase
	Default *ssa.BasicBlock // where control goes when no constant matches
}

func (s *EnumSwitch) Head() *ssa.BasicBlock { return s.Cases[0].Test }

// Consts returns the sorted set of tested constants.
func (s *EnumSwitch) Consts() []string {
	m := map[string]bool{}
	for _, c := range s.Cases {
		m[c.Const] = true
	}
	return SortedKeys(m)
}

func (s *EnumSwitch) TargetOf(c string) *ssa.BasicBlock {
	for _, k := range s.Cases {
		if k.Const == c {
			return k.Target
		}
	}
	return nil
}

// Region returns the blocks that execute because tag == c: the blocks dominated
// by the case target, plus the regions of cases it falls through into.
func (s *EnumSwitch) Region(c string) map[*ssa.BasicBlock]bool {
	out := map[*ssa.BasicBlock]bool{}
	targets := map[*ssa.BasicBlock]bool{}
	for _, k := range s.Cases {
		targets[k.Target] = true
	}
	var add func(t *ssa.BasicBlock)
	add = func(t *ssa.BasicBlock) {
		if t == nil || out[t] {
			return
		}
		var blocks []*ssa.BasicBlock
		for _, b := range s.Fn.Blocks {
			if t.Dominates(b) {
				blocks = append(blocks, b)
			}
		}
		for _, b := range blocks {
			out[b] = true
		}
		for _, b := range blocks {
			for _, su := range b.Succs {
				if targets[su] && !out[su] {
					add(su) // fallthrough into another case body
				}
			}
		}
	}
	add(s.TargetOf(c))
	return out
}

// DefaultTerminates reports whether the default arm never rejoins normal flow
// (panics or returns without reaching a block that a case can reach).
func (s *EnumSwitch) DefaultPanics() bool {
	b := s.Default
	if b == nil {
		return false
	}
	seen := map[*ssa.BasicBlock]bool{}
	for b != nil && !seen[b] {
		seen[b] = true
		if n := len(b.Instrs); n > 0 {
			if _, ok := b.Instrs[n-1].(*ssa.Panic); ok {
				return true
			}
		}
		if len(b.Succs) != 1 {
			return false
		}
		b = b.Succs[0]
	}
	return false
}

type enumTest struct {
	blk        *ssa.BasicBlock
	tag        ssa.Value
	key        string
	c          string
	onEq, onNe *ssa.BasicBlock
	cmp        *ssa.BinOp
}

// EnumSwitches finds the equality-test chains of fn whose tag type satisfies tagOK.
func EnumSwitches(fn *ssa.Function, tagOK func(types.Type) bool) []*EnumSwitch {
	tests := map[*ssa.BasicBlock]*enumTest{}
	for _, b := range fn.Blocks {
		n := len(b.Instrs)
		if n == 0 || len(b.Succs) != 2 {
			continue
		}
		iff, ok := b.Instrs[n-1].(*ssa.If)
		if !ok {
			continue
		}
		l := normLit(iff.Cond, true)
		x, c, eq, ok := l.EqConst()
		if !ok || c.Value == nil || c.Value.Kind() != constant.String {
			continue
		}
		if !tagOK(x.Type()) {
			continue
		}
		t := &enumTest{blk: b, tag: x, key: PathKey(x), c: constant.StringVal(c.Value), cmp: l.V.(*ssa.BinOp)}
		if eq {
			t.onEq, t.onNe = b.Succs[0], b.Succs[1]
		} else {
			t.onEq, t.onNe = b.Succs[1], b.Succs[0]
		}
		tests[b] = t
	}
	// chain through onNe
	isSucc := map[*ssa.BasicBlock]bool{}
	for _, t := range tests {
		if n, ok := tests[t.onNe]; ok && n.key == t.key && n != t {
			isSucc[n.blk] = true
		}
	}
	var heads []*enumTest
	for _, t := range tests {
		if !isSucc[t.blk] {
			heads = append(heads, t)
		}
	}
	sort.Slice(heads, func(i, j int) bool { return heads[i].blk.Index < heads[j].blk.Index })
	var out []*EnumSwitch
	for _, h := range heads {
		s := &EnumSwitch{Fn: fn, Tag: h.tag, TagKey: h.key}
		seen := map[*ssa.BasicBlock]bool{}
		t := h
		for t != nil && !seen[t.blk] {
			seen[t.blk] = true
			s.Cases = append(s.Cases, EnumCase{Const: t.c, Test: t.blk, Target: t.onEq, Cmp: t.cmp})
			s.Default = t.onNe
			n, ok := tests[t.onNe]
			if !ok || n.key != t.key {
				break
			}
			t = n
		}
		out = append(out, s)
	}
	return out
}

// IsNamedPly returns a predicate: type is the formats/ply named type `name`.
func IsNamedPly(name string) func(types.Type) bool {
	return func(t types.Type) bool {
		n, ok := types.Unalias(t).(*types.Named)
		return ok && n.Obj().Name() == name && n.Obj().Pkg() != nil && n.Obj().Pkg().Path() == PlyPath
	}
}

// ConstTable returns value -> constant name for the package-level constants of a named ply type.
func (e *Env) ConstTable(typeName string) map[string]string {
	out := map[string]string{}
	sc := e.Pkg.Pkg.Scope()
	for _, n := range sc.Names() {
		c, ok := sc.Lookup(n).(*types.Const)
		if !ok {
			continue
		}
		if !IsNamedPly(typeName)(c.Type()) || c.Val().Kind() != constant.String {
			continue
		}
		v := constant.StringVal(c.Val())
		if old, dup := out[v]; dup {
			out[v] = old + "|" + n
		} else {
			out[v] = n
		}
	}
	return out
}

// SizeTable tabulates ScalarPropertyType.Size(): constant -> bytes.
// ok=false when the function is not a pure table.
func (e *Env) SizeTable() (map[string]int64, *ssa.Function, string) {
	fn := e.Fn("ScalarPropertyType.Size")
	if fn == nil {
		return nil, nil, "anchor missing"
	}
	sws := EnumSwitches(fn, IsNamedPly("ScalarPropertyType"))
	if len(sws) != 1 {
		return nil, fn, "ScalarPropertyType.Size is not a single switch over its receiver"
	}
	sw := sws[0]
	if _, isParam := StripConv(sw.Tag).(*ssa.Parameter); !isParam {
		return nil, fn, "ScalarPropertyType.Size does not switch on its receiver"
	}
	out := map[string]int64{}
	for _, c := range sw.Cases {
		var ret *ssa.Return
		if n := len(c.Target.Instrs); n > 0 {
			ret, _ = c.Target.Instrs[n-1].(*ssa.Return)
		}
		if ret == nil || len(ret.Results) != 1 {
			return nil, fn, "case " + c.Const + " of ScalarPropertyType.Size does not return directly"
		}
		k, ok := ret.Results[0].(*ssa.Const)
		if !ok || k.Value == nil || k.Value.Kind() != constant.Int {
			return nil, fn, "case " + c.Const + " of ScalarPropertyType.Size does not return a constant"
		}
		out[c.Const] = k.Int64()
	}
	return out, fn, ""
}

// SpecSize: byte sizes of the eight PLY scalar types (published format, frozen).
var SpecSize = map[string]int64{"char": 1, "uchar": 1, "short": 2, "ushort": 2, "int": 4, "uint": 4, "float": 4, "double": 8}

// SpecAlias: both spellings of the eight PLY scalar types -> canonical name (published format, frozen).
var SpecAlias = map[string]string{
	"char": "char", "int8": "char", "uchar": "uchar", "uint8": "uchar",
	"short": "short", "int16": "short", "ushort": "ushort", "uint16": "ushort",
	"int": "int", "int32": "int", "uint": "uint", "uint32": "uint",
	"float": "float", "float32": "float", "double": "double", "float64": "double",
}

// cmpOp helper for readers.
func isCmp(op token.Token) bool {
	switch op {
	case token.EQL, token.NEQ, token.LSS, token.LEQ, token.GTR, token.GEQ:
		return true
	}
	return false
}

var constantZero = constant.MakeInt64(0)
