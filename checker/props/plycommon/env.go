// Package plycommon holds the analyses shared by the two PLY properties
// (C04 round trip, C08 foreign files): anchor resolution in formats/ply,
// enum-switch tabulation, branch-condition literals, phi webs, backward slices,
// byte-range accesses and the rules that both properties use.
//
// Everything here inspects go/ssa + go/types of the loaded repository; nothing
// of the repository is executed.
package plycommon

import (
	"fmt"
	"go/constant"
	"go/token"
	"go/types"
	"os"
	"sort"
	"strings"

	"golang.org/x/tools/go/ssa"

	"polycheck/load"
	"polycheck/ob"
	"polycheck/props"
	"polycheck/ssau"
)

const (
	PlyRel       = "formats/ply"
	PlyPath      = load.Module + "/formats/ply"
	ModelingPath = load.Module + "/modeling"
	VectorPrefix = "github.com/EliCDavis/vector/"
	IterPath     = "github.com/EliCDavis/iter"
	ControlFile  = "formats/ply/zz_verif_control_ply.go"
)

// Env is what every PLY rule sees.
type Env struct {
	C   *props.Ctx
	P   *load.Program
	R   *ob.Run
	Pkg *ssa.Package
	// All functions whose source lies in formats/ply (controls included).
	All []*ssa.Function
	// Repository functions only (controls excluded).
	Repo []*ssa.Function
	// Control functions by name.
	Ctl map[string]*ssa.Function

	loops map[*ssa.Function][]*ssau.Loop
	ctl   map[string]*ctlState
}

type ctlState struct {
	badSeen   map[string]bool // control function name -> reported
	goodFired []string
	bad       []string
	good      []string
}

// New resolves formats/ply. A nil result means the anchor package is missing (already recorded as failure).
func New(c *props.Ctx) *Env {
	sp := c.P.SSAPkg(PlyRel)
	if sp == nil {
		c.R.Failf("anchor package %s not found", PlyRel)
		return nil
	}
	e := &Env{C: c, P: c.P, R: c.R, Pkg: sp, Ctl: map[string]*ssa.Function{}, loops: map[*ssa.Function][]*ssau.Loop{}, ctl: map[string]*ctlState{}}
	for _, fn := range c.P.FuncsOf(sp) {
		if c.P.IsTestFile(fn.Pos()) {
			continue
		}
		e.All = append(e.All, fn)
		if c.P.IsControl(fn.Pos()) {
			e.Ctl[fn.Name()] = fn
		} else {
			e.Repo = append(e.Repo, fn)
		}
	}
	e.initTopology()
	return e
}

// Fn resolves an anchor function ("name" or "Type.Method"); a missing anchor fails the check.
func (e *Env) Fn(name string) *ssa.Function {
	fn := e.P.Func(PlyRel, name)
	if fn == nil || fn.Blocks == nil {
		e.R.Failf("anchor %s.%s not found (renamed or removed): the rules anchored on it cannot be decided", PlyRel, name)
		return nil
	}
	return fn
}

// FnOpt resolves a function without failing.
func (e *Env) FnOpt(name string) *ssa.Function {
	fn := e.P.Func(PlyRel, name)
	if fn == nil || fn.Blocks == nil {
		return nil
	}
	return fn
}

func (e *Env) Name(fn *ssa.Function) string { return e.P.FuncName(fn) }
func (e *Env) Pos(p token.Pos) string       { return e.P.Pos(p) }
func (e *Env) IPos(in ssa.Instruction) string {
	return e.P.Pos(ssau.PosOf(in))
}
func (e *Env) IsCtl(fn *ssa.Function) bool {
	for fn.Parent() != nil {
		fn = fn.Parent()
	}
	return e.P.IsControl(fn.Pos())
}

func (e *Env) Loops(fn *ssa.Function) []*ssau.Loop {
	if l, ok := e.loops[fn]; ok {
		return l
	}
	l := ssau.Loops(fn)
	e.loops[fn] = l
	return l
}

// NamedType returns the named type `name` of formats/ply, or nil.
func (e *Env) NamedType(name string) *types.Named {
	o := e.Pkg.Pkg.Scope().Lookup(name)
	if o == nil {
		return nil
	}
	n, _ := o.Type().(*types.Named)
	return n
}

// ---------------------------------------------------------------------------
// Self-test controls. A rule calls CtlReport(rule, fn) whenever it would report
// something inside control function fn, and CtlDone(rule) once at its end.

func (e *Env) ctlFor(rule string) *ctlState {
	s := e.ctl[rule]
	if s == nil {
		s = &ctlState{badSeen: map[string]bool{}}
		e.ctl[rule] = s
	}
	return s
}

// CtlReport notes that `rule` reported something in control function fn.
func (e *Env) CtlReport(rule string, fn *ssa.Function) {
	for fn.Parent() != nil {
		fn = fn.Parent()
	}
	e.ctlFor(rule).badSeen[fn.Name()] = true
}

// CtlFns returns the control functions for a rule tag: verifControl<tag>Bad*, verifControl<tag>Good*.
func (e *Env) CtlFns(tag string) (bad, good []*ssa.Function) {
	var names []string
	for n := range e.Ctl {
		names = append(names, n)
	}
	sort.Strings(names)
	for _, n := range names {
		if strings.HasPrefix(n, "verifControl"+tag+"Bad") {
			bad = append(bad, e.Ctl[n])
		}
		if strings.HasPrefix(n, "verifControl"+tag+"Good") {
			good = append(good, e.Ctl[n])
		}
	}
	return
}

// CtlDone records the control outcome for a rule: every Bad control function of
// the tag must have been reported, no Good one may have been.
func (e *Env) CtlDone(rule, tag string) {
	if len(e.P.Controls) == 0 {
		return
	}
	bad, good := e.CtlFns(tag)
	if len(bad) == 0 && len(good) == 0 {
		return // control file dropped by the loader (a note is recorded there) or rule has no control
	}
	s := e.ctlFor(rule)
	v := ob.Violation
	var missing []string
	for _, f := range bad {
		if !s.badSeen[f.Name()] {
			v = ob.Holds
			missing = append(missing, f.Name())
		}
	}
	e.R.Control(rule, "control:bad:"+tag, ControlFile, v, ob.Violation, "positive control must be reported"+suffix(missing))
	v = ob.Holds
	var fired []string
	for _, f := range good {
		if s.badSeen[f.Name()] {
			v = ob.Violation
			fired = append(fired, f.Name())
		}
	}
	e.R.Control(rule, "control:good:"+tag, ControlFile, v, ob.Holds, "accepted idioms must stay silent"+suffix(fired))
}

func suffix(l []string) string {
	if len(l) == 0 {
		return ""
	}
	return " (" + strings.Join(l, ",") + ")"
}

// Report is the funnel all rules use: repository constructs become obligations,
// control constructs only feed the control outcome.
type Finding struct {
	Rule      string
	Construct string
	Pos       token.Pos
	Verdict   ob.Verdict
	Msg       string
	Facts     []string
}

func (e *Env) Emit(fn *ssa.Function, f Finding) {
	pos := e.Pos(f.Pos)
	if d := os.Getenv("PLYCHECK_DUMP"); d != "" && (d == "all" || fn == nil || !e.IsCtl(fn)) {
		fmt.Printf("  %-9s %-7s %s @%s %s %v\n", f.Verdict, f.Rule, f.Construct, pos, f.Msg, f.Facts)
	}
	if fn != nil && e.IsCtl(fn) {
		if f.Verdict != ob.Holds {
			e.CtlReport(f.Rule, fn)
		}
		return
	}
	switch f.Verdict {
	case ob.Holds:
		e.R.Hold(f.Rule, f.Construct, pos, f.Facts...)
	case ob.Violation:
		e.R.Violate(f.Rule, f.Construct, pos, f.Msg, f.Facts...)
	default:
		e.R.Undecide(f.Rule, f.Construct, pos, f.Msg, f.Facts...)
	}
}

func (e *Env) Hold(fn *ssa.Function, rule, construct string, pos token.Pos, facts ...string) {
	e.Emit(fn, Finding{Rule: rule, Construct: construct, Pos: pos, Verdict: ob.Holds, Facts: facts})
}
func (e *Env) Violate(fn *ssa.Function, rule, construct string, pos token.Pos, msg string, facts ...string) {
	e.Emit(fn, Finding{Rule: rule, Construct: construct, Pos: pos, Verdict: ob.Violation, Msg: msg, Facts: facts})
}
func (e *Env) Undecide(fn *ssa.Function, rule, construct string, pos token.Pos, msg string, facts ...string) {
	e.Emit(fn, Finding{Rule: rule, Construct: construct, Pos: pos, Verdict: ob.Undecided, Msg: msg, Facts: facts})
}

// ---------------------------------------------------------------------------
// Branch-condition literals.

// Lit is "value V is true" (Pos) or "false" (!Pos); V never is a boolean NOT.
type Lit struct {
	V   ssa.Value
	Pos bool
}

func normLit(v ssa.Value, pos bool) Lit {
	for {
		u, ok := v.(*ssa.UnOp)
		if !ok || u.Op != token.NOT {
			break
		}
		v = u.X
		pos = !pos
	}
	return Lit{v, pos}
}

// Cmp decomposes a literal whose value is an ==/!= comparison: returns the two
// operands and whether the literal asserts equality.
func (l Lit) Cmp() (x, y ssa.Value, eq bool, ok bool) {
	b, isB := l.V.(*ssa.BinOp)
	if !isB || (b.Op != token.EQL && b.Op != token.NEQ) {
		return nil, nil, false, false
	}
	return b.X, b.Y, (b.Op == token.EQL) == l.Pos, true
}

// EqConst: literal compares something with a constant.
func (l Lit) EqConst() (x ssa.Value, c *ssa.Const, eq bool, ok bool) {
	a, b, eq, ok := l.Cmp()
	if !ok {
		return
	}
	if k, isC := b.(*ssa.Const); isC {
		return a, k, eq, true
	}
	if k, isC := a.(*ssa.Const); isC {
		return b, k, eq, true
	}
	return nil, nil, false, false
}

// impliedBy reports whether control reaching block b implies having taken edge d->s.
func edgeImplied(d, s, b *ssa.BasicBlock) bool {
	if !s.Dominates(b) {
		return false
	}
	for _, p := range s.Preds {
		if p == d {
			continue
		}
		if !s.Dominates(p) { // another way into s that is not a back edge of a loop headed by s
			return false
		}
	}
	return true
}

// CondsAt returns the branch literals that hold whenever block b executes.
func CondsAt(b *ssa.BasicBlock) []Lit {
	var out []Lit
	for d := b.Idom(); d != nil; d = d.Idom() {
		n := len(d.Instrs)
		if n == 0 {
			continue
		}
		iff, ok := d.Instrs[n-1].(*ssa.If)
		if !ok || len(d.Succs) != 2 || d.Succs[0] == d.Succs[1] {
			continue
		}
		t := edgeImplied(d, d.Succs[0], b)
		f := edgeImplied(d, d.Succs[1], b)
		if t && !f {
			out = append(out, normLit(iff.Cond, true))
		} else if f && !t {
			out = append(out, normLit(iff.Cond, false))
		}
	}
	return out
}

// CondsOnEdge returns the literals that hold when control flows p -> s.
func CondsOnEdge(p, s *ssa.BasicBlock) []Lit {
	out := CondsAt(p)
	n := len(p.Instrs)
	if n > 0 {
		if iff, ok := p.Instrs[n-1].(*ssa.If); ok && len(p.Succs) == 2 && p.Succs[0] != p.Succs[1] {
			out = append(out, normLit(iff.Cond, s == p.Succs[0]))
		}
	}
	return out
}

// ---------------------------------------------------------------------------
// Phi webs.

// Leaf is a non-phi (or stopped) value entering a phi web through edge From->To.
// From/To are nil when the queried value itself is the leaf.
type Leaf struct {
	V        ssa.Value
	From, To *ssa.BasicBlock
}

// PhiLeaves expands v through phis (not through those for which stop returns true).
func PhiLeaves(v ssa.Value, stop func(*ssa.Phi) bool) []Leaf {
	var out []Leaf
	seen := map[*ssa.Phi]bool{}
	var walk func(v ssa.Value, from, to *ssa.BasicBlock)
	walk = func(v ssa.Value, from, to *ssa.BasicBlock) {
		phi, ok := v.(*ssa.Phi)
		if !ok || (stop != nil && stop(phi)) {
			out = append(out, Leaf{v, from, to})
			return
		}
		if seen[phi] {
			return
		}
		seen[phi] = true
		for i, ed := range phi.Edges {
			walk(ed, phi.Block().Preds[i], phi.Block())
		}
	}
	walk(v, nil, nil)
	return out
}

// LeafConds returns the literals known where the leaf enters the web (or at `at` when it is direct).
func LeafConds(l Leaf, at *ssa.BasicBlock) []Lit {
	if l.From == nil {
		if at == nil {
			return nil
		}
		return CondsAt(at)
	}
	return CondsOnEdge(l.From, l.To)
}

// ---------------------------------------------------------------------------
// Counters: loop-header phis advanced by self-addition.

// Counter describes a header phi `a = phi [outside: init, latch: a + step ...]`.
type Counter struct {
	Phi   *ssa.Phi
	Loop  *ssau.Loop
	Init  []ssa.Value // incoming values from outside the loop
	Latch []Leaf      // incoming leaves from inside the loop (expanded through non-header phis)
}

// CounterOf recognises phi as a loop counter of one of fn's loops.
func (e *Env) CounterOf(phi *ssa.Phi) *Counter {
	fn := phi.Parent()
	for _, l := range e.Loops(fn) {
		if l.Header != phi.Block() {
			continue
		}
		c := &Counter{Phi: phi, Loop: l}
		selfAdd := false
		for i, ed := range phi.Edges {
			pred := phi.Block().Preds[i]
			if !l.Blocks[pred] {
				c.Init = append(c.Init, ed)
				continue
			}
			for _, lf := range PhiLeaves(ed, func(p *ssa.Phi) bool { return p == phi }) {
				if lf.From == nil {
					lf.From, lf.To = pred, phi.Block()
				}
				c.Latch = append(c.Latch, lf)
				if b, ok := lf.V.(*ssa.BinOp); ok && b.Op == token.ADD && (b.X == phi || b.Y == phi) {
					selfAdd = true
				}
			}
		}
		if selfAdd {
			return c
		}
	}
	return nil
}

// Lin is a linear form  A·phi + Σ coef·sym + K  over opaque symbols.
type Lin struct {
	Coef map[ssa.Value]int64
	K    int64
	Bad  bool // not linear / not understood
}

func linConst(k int64) Lin { return Lin{Coef: map[ssa.Value]int64{}, K: k} }
func linSym(v ssa.Value) Lin {
	return Lin{Coef: map[ssa.Value]int64{v: 1}}
}
func (a Lin) add(b Lin, sign int64) Lin {
	if a.Bad || b.Bad {
		return Lin{Bad: true}
	}
	out := Lin{Coef: map[ssa.Value]int64{}, K: a.K + sign*b.K}
	for k, v := range a.Coef {
		out.Coef[k] += v
	}
	for k, v := range b.Coef {
		out.Coef[k] += sign * v
	}
	for k, v := range out.Coef {
		if v == 0 {
			delete(out.Coef, k)
		}
	}
	return out
}
func (a Lin) scale(k int64) Lin {
	if a.Bad {
		return a
	}
	out := Lin{Coef: map[ssa.Value]int64{}, K: a.K * k}
	for s, v := range a.Coef {
		if v*k != 0 {
			out.Coef[s] = v * k
		}
	}
	return out
}
func (a Lin) Equal(b Lin) bool {
	if a.Bad || b.Bad || a.K != b.K || len(a.Coef) != len(b.Coef) {
		return false
	}
	for k, v := range a.Coef {
		if b.Coef[k] != v {
			return false
		}
	}
	return true
}
func (a Lin) String() string {
	if a.Bad {
		return "<non-linear>"
	}
	var parts []string
	for k, v := range a.Coef {
		parts = append(parts, fmt.Sprintf("%d*%s", v, k.Name()))
	}
	sort.Strings(parts)
	parts = append(parts, fmt.Sprintf("%d", a.K))
	return strings.Join(parts, "+")
}

// LinEval evaluates v as a linear form. symLin(v) may return the form of v
// directly (an opaque symbol, or a normalised counter); ok=false lets the
// evaluator look through v.
func LinEval(v ssa.Value, symLin func(ssa.Value) (Lin, bool)) Lin {
	var ev func(v ssa.Value, depth int) Lin
	ev = func(v ssa.Value, depth int) Lin {
		if depth > 12 {
			return Lin{Bad: true}
		}
		if l, ok := symLin(v); ok {
			return l
		}
		switch x := v.(type) {
		case *ssa.Const:
			if k, ok := ssau.ConstInt(x); ok {
				return linConst(k)
			}
		case *ssa.Convert:
			if isInteger(x.Type()) && isInteger(x.X.Type()) {
				return ev(x.X, depth+1)
			}
		case *ssa.ChangeType:
			return ev(x.X, depth+1)
		case *ssa.BinOp:
			switch x.Op {
			case token.ADD:
				return ev(x.X, depth+1).add(ev(x.Y, depth+1), 1)
			case token.SUB:
				return ev(x.X, depth+1).add(ev(x.Y, depth+1), -1)
			case token.MUL:
				if k, ok := ssau.ConstInt(x.Y); ok {
					return ev(x.X, depth+1).scale(k)
				}
				if k, ok := ssau.ConstInt(x.X); ok {
					return ev(x.Y, depth+1).scale(k)
				}
			}
		case *ssa.Phi:
			// a join of equal forms
			var first *Lin
			for _, ed := range x.Edges {
				if ed == x {
					continue
				}
				l := ev(ed, depth+1)
				if first == nil {
					first = &l
				} else if !first.Equal(l) {
					return Lin{Bad: true}
				}
			}
			if first != nil {
				return *first
			}
		}
		return Lin{Bad: true}
	}
	return ev(v, 0)
}

// LinSym / LinConst are exported constructors for rule code.
func LinSym(v ssa.Value) Lin    { return linSym(v) }
func LinConst(k int64) Lin      { return linConst(k) }
func (a Lin) Add(b Lin) Lin     { return a.add(b, 1) }
func (a Lin) Scale(k int64) Lin { return a.scale(k) }

func isInteger(t types.Type) bool {
	b, ok := t.Underlying().(*types.Basic)
	return ok && b.Info()&types.IsInteger != 0
}

// ---------------------------------------------------------------------------
// Access paths and backward slices.

// LoadedField: v is `*(&X.f)`; returns the FieldAddr and the field.
func LoadedField(v ssa.Value) (*ssa.FieldAddr, *types.Var) {
	v = StripConv(v)
	if f, ok := v.(*ssa.Field); ok {
		return nil, ssau.FieldOf(f)
	}
	u, ok := v.(*ssa.UnOp)
	if !ok || u.Op != token.MUL {
		return nil, nil
	}
	fa, ok := u.X.(*ssa.FieldAddr)
	if !ok {
		return nil, nil
	}
	return fa, ssau.FieldOf(fa)
}

// StripConv removes ChangeType / interface wrappers / same-kind conversions.
func StripConv(v ssa.Value) ssa.Value {
	for {
		v = ssau.Strip(v)
		c, ok := v.(*ssa.Convert)
		if !ok {
			return v
		}
		// string <-> named string, int widths
		v = c.X
	}
}

// PathKey gives a string naming the memory a value was read from, so that two
// loads of the same field / element compare equal.
func PathKey(v ssa.Value) string {
	v = ssau.Strip(v)
	switch x := v.(type) {
	case *ssa.UnOp:
		if x.Op == token.MUL {
			return "*" + PathKey(x.X)
		}
	case *ssa.FieldAddr:
		f := ssau.FieldOf(x)
		n := "?"
		if f != nil {
			n = f.Name()
		}
		return PathKey(x.X) + "." + n
	case *ssa.Field:
		f := ssau.FieldOf(x)
		n := "?"
		if f != nil {
			n = f.Name()
		}
		return PathKey(x.X) + "." + n
	case *ssa.IndexAddr:
		return PathKey(x.X) + "[" + PathKey(x.Index) + "]"
	case *ssa.Const:
		return x.String()
	case *ssa.ChangeType:
		return PathKey(x.X)
	case *ssa.Convert:
		return PathKey(x.X)
	}
	return v.Name()
}

// BackSlice visits every value in the backward data slice of v (operands,
// memory read through FieldAddr/IndexAddr, values stored into local allocs).
// visit returns false to stop descending below a value.
func BackSlice(v ssa.Value, visit func(ssa.Value) bool) {
	seen := map[ssa.Value]bool{}
	var walk func(v ssa.Value)
	walk = func(v ssa.Value) {
		if v == nil || seen[v] {
			return
		}
		seen[v] = true
		if !visit(v) {
			return
		}
		switch x := v.(type) {
		case *ssa.Alloc:
			// values stored into the variable (whole or by field / element)
			var stores func(p ssa.Value)
			stores = func(p ssa.Value) {
				for _, r := range ssau.Refs(p) {
					switch r := r.(type) {
					case *ssa.Store:
						if r.Addr == p {
							walk(r.Val)
						}
					case *ssa.FieldAddr:
						if r.X == p {
							stores(r)
						}
					case *ssa.IndexAddr:
						if r.X == p {
							stores(r)
						}
					}
				}
			}
			stores(x)
			return
		case *ssa.FieldAddr:
			// field of a local: only the stores to that field and whole-variable stores
			if a, ok := x.X.(*ssa.Alloc); ok {
				for _, r := range ssau.Refs(a) {
					switch r := r.(type) {
					case *ssa.Store:
						if r.Addr == a {
							walk(r.Val)
						}
					case *ssa.FieldAddr:
						if r.X == a && r.Field == x.Field {
							for _, rr := range ssau.Refs(r) {
								if st, ok := rr.(*ssa.Store); ok && st.Addr == r {
									walk(st.Val)
								}
							}
						}
					}
				}
				return
			}
			walk(x.X)
			return
		}
		if in, ok := v.(ssa.Instruction); ok {
			for _, op := range in.Operands(nil) {
				if op != nil && *op != nil {
					walk(*op)
				}
			}
		}
	}
	walk(v)
}

// SliceFind returns the values of v's backward slice satisfying pred.
func SliceFind(v ssa.Value, pred func(ssa.Value) bool) []ssa.Value {
	var out []ssa.Value
	BackSlice(v, func(x ssa.Value) bool {
		if pred(x) {
			out = append(out, x)
		}
		return true
	})
	return out
}

// ---------------------------------------------------------------------------
// Small recognisers.

// CallTo returns the call's callee object when v (or instruction in) is a call.
func CallTo(v any) (*ssa.CallCommon, *types.Func) {
	ci, ok := v.(ssa.CallInstruction)
	if !ok {
		return nil, nil
	}
	return ci.Common(), ssau.CalleeObj(ci)
}

// IsPlyMethod: callee is method `name` of ply type `typ` ("" = any type).
func IsPlyMethod(fn *types.Func, typ, name string) bool {
	if fn == nil || fn.Name() != name || fn.Pkg() == nil || fn.Pkg().Path() != PlyPath {
		return false
	}
	if typ == "" {
		return true
	}
	n := ssau.RecvNamed(fn)
	return n != nil && n.Origin().Obj().Name() == typ
}

// IsMeshMethod: callee is modeling.Mesh.<name>.
func IsMeshMethod(fn *types.Func, name string) bool {
	return ssau.IsMethod(fn, ModelingPath, "Mesh", name)
}

// IsVectorMethod: callee is a method `name` of a type in EliCDavis/vector/*.
func IsVectorMethod(fn *types.Func, name string) bool {
	if fn == nil || fn.Pkg() == nil || !strings.HasPrefix(fn.Pkg().Path(), VectorPrefix) {
		return false
	}
	return ssau.RecvNamed(fn) != nil && (name == "" || fn.Name() == name)
}

// IsVectorNew: callee is vectorN.New; returns N.
func IsVectorNew(fn *types.Func) (int, bool) {
	if fn == nil || fn.Pkg() == nil || fn.Name() != "New" || ssau.RecvNamed(fn) != nil {
		return 0, false
	}
	switch fn.Pkg().Path() {
	case VectorPrefix + "vector2":
		return 2, true
	case VectorPrefix + "vector3":
		return 3, true
	case VectorPrefix + "vector4":
		return 4, true
	}
	return 0, false
}

// IsIterMethod: callee is method `name` of iter.ArrayIterator.
func IsIterMethod(fn *types.Func, name string) bool {
	return ssau.IsMethod(fn, IterPath, "ArrayIterator", name)
}

// RecvArg returns the receiver value of a (static or invoke) method call.
func RecvArg(cc *ssa.CallCommon) ssa.Value {
	if cc.IsInvoke() {
		return cc.Value
	}
	if len(cc.Args) > 0 {
		return cc.Args[0]
	}
	return nil
}

// Arg returns the k-th non-receiver argument of a method call / k-th argument of a function call.
func Arg(cc *ssa.CallCommon, fn *types.Func, k int) ssa.Value {
	off := 0
	if !cc.IsInvoke() && fn != nil {
		if sig, ok := fn.Type().(*types.Signature); ok && sig.Recv() != nil {
			off = 1
		}
	}
	if k+off < len(cc.Args) {
		return cc.Args[k+off]
	}
	return nil
}

// ConstStr returns the string value of a string constant (any named string type).
func ConstStr(v ssa.Value) (string, bool) {
	c, ok := v.(*ssa.Const)
	if !ok || c.Value == nil || c.Value.Kind() != constant.String {
		return "", false
	}
	return constant.StringVal(c.Value), true
}

// ConstNum returns a numeric constant as float64.
func ConstNum(v ssa.Value) (float64, bool) {
	c, ok := v.(*ssa.Const)
	if !ok || c.Value == nil {
		return 0, false
	}
	switch c.Value.Kind() {
	case constant.Int, constant.Float:
		f, _ := constant.Float64Val(constant.ToFloat(c.Value))
		return f, true
	}
	return 0, false
}

// AxisOf extracts the axis letter from an identifier that carries one as its
// first or last letter around the stems used in formats/ply (xOffset, PlyPropertyX, plyPropertyX).
func AxisOf(name string) string {
	l := strings.ToLower(name)
	for _, stem := range []string{"offset"} {
		if strings.HasSuffix(l, stem) && len(l) == len(stem)+1 {
			return strings.ToUpper(l[:1])
		}
		if l == stem {
			return "S" // the single scalar component
		}
	}
	if strings.HasPrefix(l, "plyproperty") {
		rest := l[len("plyproperty"):]
		if rest == "" {
			return "S"
		}
		if len(rest) == 1 {
			return strings.ToUpper(rest)
		}
	}
	return ""
}

var AxisOrder = []string{"X", "Y", "Z", "W"}

// SortedKeys of a string-keyed map.
func SortedKeys[V any](m map[string]V) []string {
	var k []string
	for s := range m {
		k = append(k, s)
	}
	sort.Strings(k)
	return k
}
