package plycommon

import (
	"fmt"
	"go/token"
	"go/types"
	"regexp"
	"sort"
	"strings"

	"golang.org/x/tools/go/ssa"

	"polycheck/ssau"
)

var reHasFloat = regexp.MustCompile(`^HasFloat([1-4])Attribute$`)
var reFloatAttrs = regexp.MustCompile(`^Float([1-4])Attributes$`)

// writerDim: which Mesh.HasFloatKAttribute does T.MeshQualifies ask? (K of a property writer description type)
func (e *Env) writerDim(named *types.Named) int {
	fn := e.FnOpt(named.Obj().Name() + ".MeshQualifies")
	if fn == nil {
		return 0
	}
	k := 0
	ssau.AllInstrs(fn, func(in ssa.Instruction) {
		if _, callee := CallTo(in); callee != nil && ssau.IsMethod(callee, ModelingPath, "Mesh", callee.Name()) {
			if m := reHasFloat.FindStringSubmatch(callee.Name()); m != nil {
				k = int(m[1][0] - '0')
			}
		}
	})
	return k
}

type loopPath struct {
	blocks []*ssa.BasicBlock
	lits   []Lit
}

// loopPaths enumerates the acyclic paths through one iteration of l (header -> … -> header).
func loopPaths(l *ssau.Loop, limit int) ([]loopPath, bool) {
	var out []loopPath
	ok := true
	var dfs func(b *ssa.BasicBlock, p loopPath, seen map[*ssa.BasicBlock]bool)
	dfs = func(b *ssa.BasicBlock, p loopPath, seen map[*ssa.BasicBlock]bool) {
		if !ok {
			return
		}
		if len(out) > limit {
			ok = false
			return
		}
		p.blocks = append(append([]*ssa.BasicBlock{}, p.blocks...), b)
		n := len(b.Instrs)
		var iff *ssa.If
		if n > 0 {
			iff, _ = b.Instrs[n-1].(*ssa.If)
		}
		for i, s := range b.Succs {
			lits := append([]Lit{}, p.lits...)
			if iff != nil && len(b.Succs) == 2 && b.Succs[0] != b.Succs[1] {
				lits = append(lits, normLit(iff.Cond, i == 0))
			}
			if s == l.Header {
				out = append(out, loopPath{p.blocks, lits})
				continue
			}
			if !l.Blocks[s] || seen[s] {
				continue // leaves the loop, or inner cycle: not a path to the next iteration
			}
			seen[s] = true
			dfs(s, loopPath{p.blocks, lits}, seen)
			delete(seen, s)
		}
	}
	dfs(l.Header, loopPath{}, map[*ssa.BasicBlock]bool{l.Header: true})
	return out, ok
}

// CLAIM1 decides DESIGN §4 C04 (e) on MeshWriter.Write.
func CLAIM1(e *Env) {
	const rule = "CLAIM-1"
	fn := e.Fn("MeshWriter.Write")
	if fn == nil {
		return
	}
	name := e.Name(fn)
	type claimMap struct {
		m        *ssa.MakeMap
		wDims    map[int]bool
		wForms   map[string]bool // "T" and "*T"
		bad      string
		writes   int
		readDim  int
		readLoop *ssau.Loop
		key      ssa.Value
		lookup   *ssa.Lookup
	}
	maps := map[*ssa.MakeMap]*claimMap{}
	var order []*ssa.MakeMap
	ssau.AllInstrs(fn, func(in ssa.Instruction) {
		if mm, ok := in.(*ssa.MakeMap); ok {
			if mt, ok := mm.Type().Underlying().(*types.Map); ok {
				if b, ok := mt.Elem().Underlying().(*types.Basic); ok && b.Kind() == types.Bool {
					maps[mm] = &claimMap{m: mm, wDims: map[int]bool{}, wForms: map[string]bool{}}
					order = append(order, mm)
				}
			}
		}
	})
	loops := e.Loops(fn)
	writerSites := literalSites(fn, func(t *types.Named) bool {
		return t.Obj().Pkg() != nil && t.Obj().Pkg().Path() == PlyPath && e.writerDim(t) > 0
	})
	// --- writes ---
	ssau.AllInstrs(fn, func(in ssa.Instruction) {
		mu, ok := in.(*ssa.MapUpdate)
		if !ok {
			return
		}
		mm, ok := mu.Map.(*ssa.MakeMap)
		cm := maps[mm]
		if !ok || cm == nil {
			return
		}
		cm.writes++
		if k, isC := mu.Value.(*ssa.Const); !isC || k.Value == nil || k.Value.String() != "true" {
			cm.bad = "a claim is recorded with a value other than true"
			return
		}
		// key = <asserted prop>.ModelAttribute
		fa, f := LoadedField(mu.Key)
		if f == nil || fa == nil || f.Name() != "ModelAttribute" {
			cm.bad = "a claim is recorded under a key that is not a writer's ModelAttribute"
			return
		}
		var ta *ssa.TypeAssert
		BackSlice(fa.X, func(v ssa.Value) bool {
			if t, ok := v.(*ssa.TypeAssert); ok {
				ta = t
				return false
			}
			return true
		})
		if ta == nil {
			cm.bad = "the claiming writer is not obtained by a type assertion on the property writer"
			return
		}
		at := ta.AssertedType
		form := "T"
		if p, ok := at.(*types.Pointer); ok {
			at, form = p.Elem(), "*T"
		}
		named, _ := types.Unalias(at).(*types.Named)
		if named == nil {
			cm.bad = "asserted type is not a named writer type"
			return
		}
		d := e.writerDim(named)
		if d == 0 {
			cm.bad = "cannot tell which attribute arity " + named.Obj().Name() + " writes (MeshQualifies)"
			return
		}
		cm.wDims[d] = true
		cm.wForms[fmt.Sprintf("%d%s", d, form)] = true
		// the claim is made only for accepted writers: MeshQualifies(prop) true, and prop appended to the writers
		prop := ta.X
		okQual := false
		for _, c := range CondsAt(mu.Block()) {
			if cl, isCall := c.V.(*ssa.Call); isCall && cl.Common().IsInvoke() && cl.Common().Method.Name() == "MeshQualifies" && cl.Common().Value == prop && c.Pos {
				okQual = true
			}
		}
		if !okQual {
			cm.bad = "an attribute is marked claimed for a writer whose MeshQualifies was not checked (or is false): the attribute is then written by nobody"
			return
		}
		okApp := false
		ssau.AllInstrs(fn, func(in2 ssa.Instruction) {
			cl, ok := in2.(*ssa.Call)
			if !ok || ssau.Builtin(cl) != "append" {
				return
			}
			if flowsInto(prop, cl.Common().Args[1]) && (cl.Block().Dominates(mu.Block())) {
				okApp = true
			}
		})
		if !okApp {
			cm.bad = "an attribute is marked claimed although its writer is not (always) added to the list of writers"
		}
	})
	// --- reads ---
	ssau.AllInstrs(fn, func(in ssa.Instruction) {
		lk, ok := in.(*ssa.Lookup)
		if !ok {
			return
		}
		mm, ok := lk.X.(*ssa.MakeMap)
		cm := maps[mm]
		if !ok || cm == nil {
			return
		}
		if cm.lookup != nil {
			cm.bad = "claimed set is consulted in more than one place"
			return
		}
		cm.lookup = lk
		cm.key = lk.Index
		cm.readLoop = ssau.InnermostLoop(loops, lk.Block())
		// key is an element of Mesh.FloatKAttributes()
		BackSlice(lk.Index, func(v ssa.Value) bool {
			if _, callee := CallTo(v); callee != nil && ssau.IsMethod(callee, ModelingPath, "Mesh", callee.Name()) {
				if m := reFloatAttrs.FindStringSubmatch(callee.Name()); m != nil {
					cm.readDim = int(m[1][0] - '0')
				}
			}
			return true
		})
	})
	// --- per map verdicts ---
	seenDim := map[int]bool{}
	for _, mm := range order {
		cm := maps[mm]
		if cm.writes == 0 && cm.lookup == nil {
			continue
		}
		d := cm.readDim
		construct := fmt.Sprintf("%s/claimed-Float%d", name, d)
		pos := mm.Pos()
		if cm.lookup != nil {
			pos = cm.lookup.Pos()
		}
		var facts []string
		bad := cm.bad
		if bad == "" && (cm.lookup == nil || cm.readLoop == nil || d == 0) {
			bad = "a claimed set is filled but never consulted in a loop over Mesh.FloatKAttributes()"
		}
		if bad == "" {
			if len(cm.wDims) != 1 || !cm.wDims[d] {
				var ds []string
				for k := range cm.wDims {
					ds = append(ds, fmt.Sprint(k))
				}
				sort.Strings(ds)
				bad = fmt.Sprintf("the set consulted for Float%d attributes is filled from writers of arity {%s}", d, strings.Join(ds, ","))
			}
		}
		if bad == "" {
			for _, form := range []string{"T", "*T"} {
				if !cm.wForms[fmt.Sprintf("%d%s", d, form)] {
					bad = fmt.Sprintf("writers of arity %d passed as %s do not record their claim: the attribute is written twice", d, form)
				}
			}
		}
		if bad == "" {
			seenDim[d] = true
			paths, ok := loopPaths(cm.readLoop, 64)
			if !ok {
				e.Undecide(fn, rule, construct, pos, "too many paths through the unspecified-attributes loop")
				continue
			}
			adds, skips := 0, 0
			for _, p := range paths {
				// does the path append a writer for this key?
				added, addDim := false, 0
				for _, b := range p.blocks {
					for _, in := range b.Instrs {
						cl, isC := in.(*ssa.Call)
						if !isC || ssau.Builtin(cl) != "append" {
							continue
						}
						// appended element: a VectorKPropertyWriter literal with ModelAttribute = key
						for _, site := range writerSites {
							if !flowsInto(site, cl.Common().Args[1]) {
								continue
							}
							if s := fieldStores(site)["ModelAttribute"]; len(s) == 1 && s[0].Val == cm.key {
								added, addDim = true, e.writerDim(siteNamed(site))
							}
						}
					}
				}
				lookTrue, lookFalse, texTrue, triTrue := false, false, false, false
				for _, l := range p.lits {
					if l.V == cm.lookup {
						if l.Pos {
							lookTrue = true
						} else {
							lookFalse = true
						}
					}
					if x, k, eq, ok := l.EqConst(); ok && eq {
						if x == cm.key {
							if s, isS := ConstStr(k); isS && s == e.texCoordName() {
								texTrue = true
							}
						}
					}
				}
				if f, isTri := topoCond(p.lits); f && isTri {
					triTrue = true
				}
				switch {
				case added:
					adds++
					if addDim != d {
						bad = fmt.Sprintf("a Float%d attribute gets a writer of arity %d", d, addDim)
					}
					if !lookFalse {
						bad = "a writer is added without testing that the attribute is unclaimed: the attribute is written twice"
					}
				default:
					skips++
					switch {
					case lookTrue:
					case texTrue && triTrue:
						facts = append(facts, "TexCoord skipped only for triangle meshes (written per corner in the face element)")
					case texTrue:
						bad = "attribute " + e.texCoordName() + " is skipped for every topology, but its only other writer (the face element's texcoord list) exists for triangle meshes only: texture coordinates of a point cloud are silently dropped"
					default:
						bad = "an attribute can be skipped without having been claimed by a qualifying writer: it is silently dropped"
					}
				}
			}
			if adds == 0 && bad == "" {
				bad = "unclaimed attributes are never given a writer"
			}
			facts = append(facts, fmt.Sprintf("%d path(s) add a Vector%dPropertyWriter for the unclaimed key, %d skip path(s) all justified", adds, d, skips))
		}
		if bad != "" {
			e.Violate(fn, rule, construct, pos, bad, facts...)
		} else {
			e.Hold(fn, rule, construct, pos, append(facts, "claims recorded from T and *T writers of the same arity, under MeshQualifies and after append(writers, prop)")...)
		}
	}
	for d := 1; d <= 4; d++ {
		found := false
		for _, mm := range order {
			if maps[mm].readDim == d {
				found = true
			}
		}
		if !found {
			e.Violate(fn, rule, fmt.Sprintf("%s/claimed-Float%d", name, d), fn.Pos(), fmt.Sprintf("no claimed set for Float%d attributes: with write-unspecified on they are written twice or never", d))
		}
	}
}

func (e *Env) texCoordName() string {
	pk := e.P.Pkg("modeling")
	if pk == nil {
		return "TexCoord"
	}
	if c, ok := pk.Types.Scope().Lookup("TexCoordAttribute").(*types.Const); ok {
		s := c.Val().ExactString()
		return strings.Trim(s, `"`)
	}
	return "TexCoord"
}

// CLAIM2 decides DESIGN §4 C08 CLAIM-2 on the two unclaimed-property loops of MeshReader.Read.
func CLAIM2(e *Env) {
	const rule = "CLAIM-2"
	fn := e.Fn("MeshReader.Read")
	if fn == nil {
		return
	}
	name := e.Name(fn)
	loops := e.Loops(fn)
	var sites []*ssa.Call
	ssau.AllInstrs(fn, func(in ssa.Instruction) {
		if c, ok := in.(*ssa.Call); ok && c.Common().IsInvoke() && c.Common().Method.Name() == "ClaimsProperty" && c.Common().Method.Pkg().Path() == PlyPath {
			sites = append(sites, c)
		}
	})
	sort.Slice(sites, func(i, j int) bool { return sites[i].Pos() < sites[j].Pos() })
	if len(sites) == 0 {
		e.Violate(fn, rule, name+"/unclaimed", fn.Pos(), "no ClaimsProperty test: extra scalar properties are either all dropped or all duplicated")
		return
	}
	for _, c := range sites {
		inner := ssau.InnermostLoop(loops, c.Block())
		construct := name + "/unclaimed"
		if inner == nil {
			e.Undecide(fn, rule, construct, c.Pos(), "ClaimsProperty is not called in a loop over the built readers")
			continue
		}
		var outer *ssau.Loop
		for _, l := range loops {
			if l != inner && l.Blocks[inner.Header] && (outer == nil || len(l.Blocks) < len(outer.Blocks)) {
				outer = l
			}
		}
		prop := c.Common().Args[0]
		bad := ""
		var facts []string
		// the build call that follows
		var build *ssa.Call
		if outer != nil {
			for _, b := range fn.Blocks {
				if !outer.Blocks[b] || inner.Blocks[b] {
					continue
				}
				for _, in := range b.Instrs {
					if cl, ok := in.(*ssa.Call); ok {
						if _, callee := CallTo(cl); callee != nil && IsPlyMethod(callee, "Vector1PropertyReader", callee.Name()) && strings.HasPrefix(callee.Name(), "build") {
							build = cl
						}
					}
				}
			}
		}
		if build != nil {
			_, bc := CallTo(build)
			construct = name + "/unclaimed→" + bc.Name()
		}
		switch {
		case outer == nil:
			bad = "the claimed test is not nested in a loop over the element's properties"
		case build == nil:
			bad = "no scalar reader is built for unclaimed properties"
		}
		if bad == "" {
			// prop is the outer loop's current property
			if ia, ok := loadOfIndex(prop); !ok || !outer.Blocks[ia.Block()] || inner.Blocks[ia.Block()] {
				bad = "ClaimsProperty is not asked about the current property of the outer loop"
			}
		}
		// the claimed flag: the boolean that guards the build, negated
		var claimed ssa.Value
		if bad == "" {
			for _, l := range CondsAt(build.Block()) {
				bt, isB := l.V.Type().Underlying().(*types.Basic)
				if !isB || bt.Kind() != types.Bool {
					continue
				}
				if _, isPhi := l.V.(*ssa.Phi); !isPhi && l.V != ssa.Value(c) {
					continue
				}
				// it must depend on the ClaimsProperty answer
				dep := false
				for _, lf := range PhiLeaves(l.V, nil) {
					_ = lf
					dep = true
				}
				if !dep {
					continue
				}
				if l.Pos {
					bad = "the scalar reader is built for properties that ARE claimed (and unclaimed ones are dropped)"
				}
				claimed = l.V
			}
			if claimed == nil && bad == "" {
				bad = "building the scalar reader is not guarded by a flag accumulated from ClaimsProperty"
			}
		}
		if bad == "" {
			sawTrue, sawFalse := false, false
			for _, lf := range PhiLeaves(claimed, nil) {
				k, ok := lf.V.(*ssa.Const)
				if !ok || k.Value == nil {
					if lf.V == ssa.Value(c) {
						sawTrue, sawFalse = true, true // the answer itself is the flag
						continue
					}
					bad = "the claimed flag is computed from something other than the ClaimsProperty answers"
					continue
				}
				switch k.Value.String() {
				case "true":
					okLit := false
					for _, l := range LeafConds(lf, nil) {
						if l.V == ssa.Value(c) && l.Pos {
							okLit = true
						}
					}
					if !okLit {
						bad = "the claimed flag is set on a path where ClaimsProperty did not answer true"
					} else {
						sawTrue = true
					}
				case "false":
					sawFalse = true
					if lf.From != nil && !outer.Blocks[lf.From] {
						bad = "the claimed flag is not reset to false for each property: once a property is claimed, no later property is loaded"
					}
				}
			}
			if !sawTrue && bad == "" {
				bad = "the claimed flag is never set: every property is loaded a second time as a scalar attribute"
			}
			if !sawFalse && bad == "" {
				bad = "the claimed flag is never false: extra properties are dropped"
			}
		}
		if bad == "" {
			// reader literal names the same property
			recv := RecvArg(build.Common())
			okName := false
			for _, site := range literalSites(fn, func(t *types.Named) bool {
				return t.Obj().Name() == "Vector1PropertyReader" && t.Obj().Pkg().Path() == PlyPath
			}) {
				u, isLoad := recv.(*ssa.UnOp)
				if !isLoad || u.X != site {
					continue
				}
				for fname, ss := range fieldStores(site) {
					if AxisOf(fname) != "S" || !strings.HasPrefix(strings.ToLower(fname), "plyproperty") {
						continue
					}
					for _, s := range ss {
						if cl, isC := s.Val.(*ssa.Call); isC && cl.Common().IsInvoke() && cl.Common().Method.Name() == "Name" && cl.Common().Value == prop {
							okName = true
						}
					}
				}
			}
			if !okName {
				bad = "the scalar reader is not built for the unclaimed property's own name"
			}
		}
		if bad == "" {
			// appended exactly once to the list the inner loop ranges over, and once to the built readers
			napp := 0
			toInner := false
			for _, b := range fn.Blocks {
				if !outer.Blocks[b] {
					continue
				}
				for _, in := range b.Instrs {
					cl, ok := in.(*ssa.Call)
					if !ok || ssau.Builtin(cl) != "append" || !flowsInto(build, cl.Common().Args[1]) {
						continue
					}
					napp++
					if !cl.Block().Dominates(build.Block()) && !build.Block().Dominates(cl.Block()) {
						bad = "the new reader is appended on a different path than it is built"
					}
					// does this append feed the slice ranged by the inner loop?
					if ia, ok := loadOfIndex(c.Common().Value); ok && flowsInto(cl, ia.X) {
						toInner = true
					}
				}
			}
			if napp != 2 && bad == "" {
				bad = fmt.Sprintf("the new scalar reader is appended %d times (expected: once to the readers that decode, once to the readers that update the mesh)", napp)
			}
			if !toInner && bad == "" {
				bad = "the new reader is not added to the list that is consulted for later properties and used for decoding"
			}
			facts = append(facts, "flag reset per property; set only under ClaimsProperty(prop); reader built under !claimed for prop.Name(); appended to both reader lists")
		}
		if bad != "" {
			e.Violate(fn, rule, construct, c.Pos(), bad)
		} else {
			e.Hold(fn, rule, construct, c.Pos(), facts...)
		}
	}
}

var _ = token.NoPos
