package plycommon

import (
	"fmt"
	"go/token"
	"go/types"
	"regexp"
	"sort"
	"strings"

	"golang.org/x/tools/go/ssa"

	"polycheck/ssau"
)

var reHasFloat = regexp.MustCompile(`^HasFloat([1-4])Attribute$`)
var reFloatAttrs = regexp.MustCompile(`^Float([1-4])Attributes$`)

// writerDim: which Mesh.HasFloatKAttribute does T.MeshQualifies ask? (K of a property writer description type)
func (e *Env) writerDim(named *types.Named) int {
	fn := e.FnOpt(named.Obj().Name() + ".MeshQualifies")
	if fn == nil {
		return 0
	}
	k := 0
	ssau.AllInstrs(fn, func(in ssa.Instruction) {
		if _, callee := CallTo(in); callee != nil && ssau.IsMethod(callee, ModelingPath, "Mesh", callee.Name()) {
			if m := reHasFloat.FindStringSubmatch(callee.Name()); m != nil {
				k = int(m[1][0] - '0')
			}
		}
	})
	return k
}

type loopPath struct {
	blocks []*ssa.BasicBlock
	lits   []Lit
}

// loopPaths enumerates the acyclic paths through one iteration of l (header -> … -> header).
func loopPaths(l *ssau.Loop, limit int) ([]loopPath, bool) {
	var out []loopPath
	ok := true
	var dfs func(b *ssa.BasicBlock, p loopPath, seen map[*ssa.BasicBlock]bool)
	dfs = func(b *ssa.BasicBlock, p loopPath, seen map[*ssa.BasicBlock]bool) {
		if !ok {
			return
		}
		if len(out) > limit {
			ok = false
			return
		}
		p.blocks = append(append([]*ssa.BasicBlock{}, p.blocks...), b)
		n := len(b.Instrs)
		var iff *ssa.If
		if n > 0 {
			iff, _ = b.Instrs[n-1].(*ssa.If)
		}
		for i, s := range b.Succs {
			lits := append([]Lit{}, p.lits...)
			if iff != nil && len(b.Succs) == 2 && b.Succs[0] != b.Succs[1] {
				lits = append(lits, normLit(iff.Cond, i == 0))
			}
			if s == l.Header {
				out = append(out, loopPath{p.blocks, lits})
				continue
			}
			if !l.Blocks[s] || seen[s] {
				continue // leaves the loop, or inner cycle: not a path to the next iteration
			}
			seen[s] = true
			dfs(s, loopPath{p.blocks, lits}, seen)
			delete(seen, s)
		}
	}
	dfs(l.Header, loopPath{}, map[*ssa.BasicBlock]bool{l.Header: true})
	return out, ok
}

// CLAIM1 decides DESIGN §4 C04 (e) on MeshWriter.Write.
func CLAIM1(e *Env) {
	const rule = "CLAIM-1"
	fn := e.Fn("MeshWriter.Write")
	if fn == nil {
		return
	}
	name := e.Name(fn)
	type claimMap struct {
		id       string
		pos      token.Pos
		wDims    map[int]bool
		wForms   map[string]bool // "T" and "*T"
		bad      string
		writes   int
		readDim  int
		readLoop *ssau.Loop
		key      ssa.Value
		lookup   ssa.Value // the boolean answer "key is claimed" in fn (a Lookup, or a call of a lookup helper)
	}
	// A claimed set is identified by ROLE, not by being a local map: it is a map[string]bool that is
	// either made in this function, or reached through a field of a formats/ply struct value; the
	// identity is (root value, field), with the parameters of a same-package helper bound to the
	// arguments of its call.
	maps := map[string]*claimMap{}
	var order []string
	isBoolMap := func(t types.Type) bool {
		mt, ok := t.Underlying().(*types.Map)
		if !ok {
			return false
		}
		b, ok := mt.Elem().Underlying().(*types.Basic)
		return ok && b.Kind() == types.Bool
	}
	rootKey := func(v ssa.Value, bind map[ssa.Value]ssa.Value) string {
		if bound, ok := bind[v]; ok {
			v = bound
		}
		return PathKey(v)
	}
	mapID := func(v ssa.Value, bind map[ssa.Value]ssa.Value) (string, bool) {
		if !isBoolMap(v.Type()) {
			return "", false
		}
		switch x := v.(type) {
		case *ssa.MakeMap:
			if bind == nil {
				return "make:" + x.Name(), true
			}
		case *ssa.Field:
			if f := ssau.FieldOf(x); f != nil && f.Pkg() != nil && f.Pkg().Path() == PlyPath {
				return rootKey(x.X, bind) + "." + f.Name(), true
			}
		case *ssa.UnOp:
			if fa, ok := x.X.(*ssa.FieldAddr); ok && x.Op == token.MUL {
				if f := ssau.FieldOf(fa); f != nil && f.Pkg() != nil && f.Pkg().Path() == PlyPath {
					base := fa.X
					// a spilled value receiver / parameter: `*alloc = param`
					if al, isA := base.(*ssa.Alloc); isA {
						for _, r := range ssau.Refs(al) {
							if st, ok := r.(*ssa.Store); ok && st.Addr == ssa.Value(al) {
								if _, isP := st.Val.(*ssa.Parameter); isP {
									base = st.Val
								}
							}
						}
						if base == fa.X {
							return "*" + PathKey(base) + "." + f.Name(), true
						}
					}
					return rootKey(base, bind) + "." + f.Name(), true
				}
			}
		}
		return "", false
	}
	get := func(id string, pos token.Pos) *claimMap {
		cm := maps[id]
		if cm == nil {
			cm = &claimMap{id: id, pos: pos, wDims: map[int]bool{}, wForms: map[string]bool{}}
			maps[id] = cm
			order = append(order, id)
		}
		return cm
	}
	loops := e.Loops(fn)
	writerSites := literalSites(fn, func(t *types.Named) bool {
		return t.Obj().Pkg() != nil && t.Obj().Pkg().Path() == PlyPath && e.writerDim(t) > 0
	})
	// --- writes: in fn itself, and in same-package helpers fn calls (parameters bound to arguments) ---
	recordWrite := func(mu *ssa.MapUpdate, bind map[ssa.Value]ssa.Value, site ssa.Instruction) {
		id, ok := mapID(mu.Map, bind)
		if !ok {
			return
		}
		cm := get(id, site.Pos())
		cm.writes++
		if k, isC := mu.Value.(*ssa.Const); !isC || k.Value == nil || k.Value.String() != "true" {
			cm.bad = "a claim is recorded with a value other than true"
			return
		}
		// key = <asserted prop>.ModelAttribute
		fa, f := LoadedField(mu.Key)
		if f == nil || fa == nil || f.Name() != "ModelAttribute" {
			cm.bad = "a claim is recorded under a key that is not a writer's ModelAttribute"
			return
		}
		var ta *ssa.TypeAssert
		BackSlice(fa.X, func(v ssa.Value) bool {
			if t, ok := v.(*ssa.TypeAssert); ok {
				ta = t
				return false
			}
			return true
		})
		if ta == nil {
			cm.bad = "the claiming writer is not obtained by a type assertion on the property writer"
			return
		}
		at := ta.AssertedType
		form := "T"
		if p, ok := at.(*types.Pointer); ok {
			at, form = p.Elem(), "*T"
		}
		named, _ := types.Unalias(at).(*types.Named)
		if named == nil {
			cm.bad = "asserted type is not a named writer type"
			return
		}
		d := e.writerDim(named)
		if d == 0 {
			cm.bad = "cannot tell which attribute arity " + named.Obj().Name() + " writes (MeshQualifies)"
			return
		}
		cm.wDims[d] = true
		cm.wForms[fmt.Sprintf("%d%s", d, form)] = true
		// the claim is made only for accepted writers: MeshQualifies(prop) true, and prop appended to the writers
		prop := ta.X
		if bind != nil {
			bound, isBound := bind[prop]
			if !isBound {
				cm.bad = "the helper records a claim for something other than the property writer it was given"
				return
			}
			prop = bound
		}
		okQual := false
		for _, c := range CondsAt(site.Block()) {
			if cl, isCall := c.V.(*ssa.Call); isCall && cl.Common().IsInvoke() && cl.Common().Method.Name() == "MeshQualifies" && cl.Common().Value == prop && c.Pos {
				okQual = true
			}
		}
		if !okQual {
			cm.bad = "an attribute is marked claimed for a writer whose MeshQualifies was not checked (or is false): the attribute is then written by nobody"
			return
		}
		okApp := false
		ssau.AllInstrs(fn, func(in2 ssa.Instruction) {
			cl, ok := in2.(*ssa.Call)
			if !ok || ssau.Builtin(cl) != "append" {
				return
			}
			if flowsInto(prop, cl.Common().Args[1]) && (cl.Block().Dominates(site.Block())) {
				okApp = true
			}
		})
		if !okApp {
			cm.bad = "an attribute is marked claimed although its writer is not (always) added to the list of writers"
		}
	}
	helperBody := func(cl *ssa.Call) (*ssa.Function, map[ssa.Value]ssa.Value) {
		if cl.Common().IsInvoke() {
			return nil, nil
		}
		g := cl.Common().StaticCallee()
		if g == nil {
			return nil, nil
		}
		if o := g.Origin(); o != nil {
			g = o
		}
		if g.Blocks == nil || g.Pkg == nil || g.Pkg.Pkg.Path() != PlyPath || g == fn || len(cl.Common().Args) != len(g.Params) {
			return nil, nil
		}
		bind := map[ssa.Value]ssa.Value{}
		for i, p := range g.Params {
			bind[p] = cl.Common().Args[i]
		}
		return g, bind
	}
	ssau.AllInstrs(fn, func(in ssa.Instruction) {
		switch x := in.(type) {
		case *ssa.MapUpdate:
			recordWrite(x, nil, x)
		case *ssa.Call:
			if g, bind := helperBody(x); g != nil {
				ssau.AllInstrs(g, func(in2 ssa.Instruction) {
					if mu, ok := in2.(*ssa.MapUpdate); ok {
						recordWrite(mu, bind, x)
					}
				})
			}
		}
	})
	// --- reads: a Lookup in fn, or a same-package helper that returns the Lookup on its parameters ---
	recordRead := func(id string, answer ssa.Value, key ssa.Value, at ssa.Instruction) {
		cm := get(id, at.Pos())
		if cm.lookup != nil {
			cm.bad = "claimed set is consulted in more than one place"
			return
		}
		cm.lookup = answer
		cm.key = key
		cm.pos = at.Pos()
		cm.readLoop = ssau.InnermostLoop(loops, at.Block())
		// key is an element of Mesh.FloatKAttributes()
		BackSlice(key, func(v ssa.Value) bool {
			if _, callee := CallTo(v); callee != nil && ssau.IsMethod(callee, ModelingPath, "Mesh", callee.Name()) {
				if m := reFloatAttrs.FindStringSubmatch(callee.Name()); m != nil {
					cm.readDim = int(m[1][0] - '0')
				}
			}
			return true
		})
	}
	ssau.AllInstrs(fn, func(in ssa.Instruction) {
		switch x := in.(type) {
		case *ssa.Lookup:
			if x.CommaOk {
				return
			}
			if id, ok := mapID(x.X, nil); ok {
				recordRead(id, x, x.Index, x)
			}
		case *ssa.Call:
			g, bind := helperBody(x)
			if g == nil || g.Signature.Results().Len() != 1 {
				return
			}
			var lk *ssa.Lookup
			nret, okRet := 0, true
			ssau.AllInstrs(g, func(in2 ssa.Instruction) {
				if r, ok := in2.(*ssa.Return); ok {
					nret++
					l, isL := r.Results[0].(*ssa.Lookup)
					if !isL || l.CommaOk {
						okRet = false
						return
					}
					lk = l
				}
			})
			if nret != 1 || !okRet || lk == nil {
				return
			}
			id, ok := mapID(lk.X, bind)
			key, isBound := bind[lk.Index]
			if ok && isBound {
				recordRead(id, x, key, x)
			}
		}
	})
	// --- per map verdicts ---
	seenDim := map[int]bool{}
	for _, id := range order {
		cm := maps[id]
		if cm.writes == 0 && cm.lookup == nil {
			continue
		}
		if cm.writes == 0 && cm.readDim == 0 {
			continue // some other map[string]bool that is merely read here
		}
		d := cm.readDim
		construct := fmt.Sprintf("%s/claimed-Float%d", name, d)
		pos := cm.pos
		var facts []string
		bad := cm.bad
		if bad == "" && (cm.lookup == nil || cm.readLoop == nil || d == 0) {
			bad = "a claimed set is filled but never consulted in a loop over Mesh.FloatKAttributes()"
		}
		if bad == "" {
			if len(cm.wDims) != 1 || !cm.wDims[d] {
				var ds []string
				for k := range cm.wDims {
					ds = append(ds, fmt.Sprint(k))
				}
				sort.Strings(ds)
				bad = fmt.Sprintf("the set consulted for Float%d attributes is filled from writers of arity {%s}", d, strings.Join(ds, ","))
			}
		}
		if bad == "" {
			for _, form := range []string{"T", "*T"} {
				if !cm.wForms[fmt.Sprintf("%d%s", d, form)] {
					bad = fmt.Sprintf("writers of arity %d passed as %s do not record their claim: the attribute is written twice", d, form)
				}
			}
		}
		if bad == "" {
			seenDim[d] = true
			paths, ok := loopPaths(cm.readLoop, 64)
			if !ok {
				e.Undecide(fn, rule, construct, pos, "too many paths through the unspecified-attributes loop")
				continue
			}
			adds, skips := 0, 0
			for _, p := range paths {
				// does the path append a writer for this key?
				added, addDim := false, 0
				for _, b := range p.blocks {
					for _, in := range b.Instrs {
						cl, isC := in.(*ssa.Call)
						if !isC || ssau.Builtin(cl) != "append" {
							continue
						}
						// appended element: a VectorKPropertyWriter literal with ModelAttribute = key
						for _, site := range writerSites {
							if !flowsInto(site, cl.Common().Args[1]) {
								continue
							}
							if s := fieldStores(site)["ModelAttribute"]; len(s) == 1 && s[0].Val == cm.key {
								added, addDim = true, e.writerDim(siteNamed(site))
							}
						}
					}
				}
				lookTrue, lookFalse, texTrue, triTrue := false, false, false, false
				for _, l := range p.lits {
					if l.V == cm.lookup {
						if l.Pos {
							lookTrue = true
						} else {
							lookFalse = true
						}
					}
					if x, k, eq, ok := l.EqConst(); ok && eq {
						if x == cm.key {
							if s, isS := ConstStr(k); isS && s == e.texCoordName() {
								texTrue = true
							}
						}
					}
				}
				if f, isTri := topoCond(p.lits); f && isTri {
					triTrue = true
				}
				switch {
				case added:
					adds++
					if addDim != d {
						bad = fmt.Sprintf("a Float%d attribute gets a writer of arity %d", d, addDim)
					}
					if !lookFalse {
						bad = "a writer is added without testing that the attribute is unclaimed: the attribute is written twice"
					}
				default:
					skips++
					switch {
					case lookTrue:
					case texTrue && triTrue:
						facts = append(facts, "TexCoord skipped only for triangle meshes (written per corner in the face element)")
					case texTrue:
						bad = "attribute " + e.texCoordName() + " is skipped for every topology, but its only other writer (the face element's texcoord list) exists for triangle meshes only: texture coordinates of a point cloud are silently dropped"
					default:
						bad = "an attribute can be skipped without having been claimed by a qualifying writer: it is silently dropped"
					}
				}
			}
			if adds == 0 && bad == "" {
				bad = "unclaimed attributes are never given a writer"
			}
			facts = append(facts, fmt.Sprintf("%d path(s) add a Vector%dPropertyWriter for the unclaimed key, %d skip path(s) all justified", adds, d, skips))
		}
		if bad != "" {
			e.Violate(fn, rule, construct, pos, bad, facts...)
		} else {
			e.Hold(fn, rule, construct, pos, append(facts, "claims recorded from T and *T writers of the same arity, under MeshQualifies and after append(writers, prop)")...)
		}
	}
	for d := 1; d <= 4; d++ {
		found := false
		for _, id := range order {
			if maps[id].readDim == d {
				found = true
			}
		}
		if !found {
			e.Violate(fn, rule, fmt.Sprintf("%s/claimed-Float%d", name, d), fn.Pos(), fmt.Sprintf("no claimed set for Float%d attributes: with write-unspecified on they are written twice or never", d))
		}
	}
}

func (e *Env) texCoordName() string {
	pk := e.P.Pkg("modeling")
	if pk == nil {
		return "TexCoord"
	}
	if c, ok := pk.Types.Scope().Lookup("TexCoordAttribute").(*types.Const); ok {
		s := c.Val().ExactString()
		return strings.Trim(s, `"`)
	}
	return "TexCoord"
}

// CLAIM2 decides DESIGN §4 C08 CLAIM-2 on the two unclaimed-property loops of MeshReader.Read.
// membershipHelper summarises a same-package boolean helper that answers "is prop claimed by one
// of these readers": it scans the whole reader list it is given, asks ClaimsProperty(prop) of
// every element, returns true only under a true answer and false only after the list is exhausted.
// Returns the indices of the list and property parameters.
func membershipHelper(e *Env, g *ssa.Function) (listParam, propParam int, ok bool) {
	if g.Signature.Results().Len() != 1 {
		return 0, 0, false
	}
	if b, isB := g.Signature.Results().At(0).Type().Underlying().(*types.Basic); !isB || b.Kind() != types.Bool {
		return 0, 0, false
	}
	var calls []*ssa.Call
	ssau.AllInstrs(g, func(in ssa.Instruction) {
		if c, isC := in.(*ssa.Call); isC && c.Common().IsInvoke() && c.Common().Method.Name() == "ClaimsProperty" && c.Common().Method.Pkg() != nil && c.Common().Method.Pkg().Path() == PlyPath {
			calls = append(calls, c)
		}
	})
	if len(calls) != 1 {
		return 0, 0, false
	}
	c := calls[0]
	paramIdx := func(v ssa.Value) int {
		for i, p := range g.Params {
			if ssa.Value(p) == v {
				return i
			}
		}
		return -1
	}
	propParam = paramIdx(c.Common().Args[0])
	ia, isEl := loadOfIndex(c.Common().Value)
	if propParam < 0 || !isEl {
		return 0, 0, false
	}
	listParam = paramIdx(ia.X)
	if listParam < 0 {
		return 0, 0, false
	}
	l := ssau.InnermostLoop(e.Loops(g), c.Block())
	if l == nil {
		return 0, 0, false
	}
	// the whole list: index counter from entry 0, step 1, `< len(list)`
	var ctr *Counter
	form := LinEval(ia.Index, func(v ssa.Value) (Lin, bool) {
		if phi, isPhi := v.(*ssa.Phi); isPhi {
			if cc := e.CounterOf(phi); cc != nil && cc.Loop == l {
				ctr = cc
				return linSym(phi), true
			}
		}
		return Lin{}, false
	})
	if ctr == nil || form.Bad {
		return 0, 0, false
	}
	init, step, okStep := counterStep(ctr)
	if !okStep || step*form.Coef[ctr.Phi] != 1 || form.K+form.Coef[ctr.Phi]*init != 0 {
		return 0, 0, false
	}
	hn := len(l.Header.Instrs)
	iff, _ := l.Header.Instrs[hn-1].(*ssa.If)
	cmp, _ := func() (*ssa.BinOp, bool) {
		if iff == nil {
			return nil, false
		}
		b, ok := iff.Cond.(*ssa.BinOp)
		return b, ok
	}()
	if cmp == nil || cmp.Op != token.LSS {
		return 0, 0, false
	}
	if ln, isCall := cmp.Y.(*ssa.Call); !isCall || ssau.Builtin(ln) != "len" || ln.Common().Args[0] != ia.X {
		return 0, 0, false
	}
	// early exits: only `return true` under a true answer
	for _, b := range g.Blocks {
		if !l.Blocks[b] || b == l.Header {
			continue
		}
		for _, su := range b.Succs {
			if l.Blocks[su] {
				continue
			}
			r, isRet := su.Instrs[len(su.Instrs)-1].(*ssa.Return)
			if !isRet {
				return 0, 0, false
			}
			k, isC := r.Results[0].(*ssa.Const)
			if !isC || k.Value == nil || k.Value.String() != "true" {
				return 0, 0, false
			}
			okLit := false
			for _, lit := range append(CondsAt(su), CondsOnEdge(b, su)...) {
				if lit.V == ssa.Value(c) && lit.Pos {
					okLit = true
				}
			}
			if !okLit {
				return 0, 0, false
			}
		}
	}
	// every other return is `false` after the list is exhausted
	okAll := true
	ssau.AllInstrs(g, func(in ssa.Instruction) {
		r, isRet := in.(*ssa.Return)
		if !isRet {
			return
		}
		k, isC := r.Results[0].(*ssa.Const)
		if !isC || k.Value == nil {
			okAll = false
			return
		}
		if k.Value.String() == "false" {
			if l.Blocks[r.Block()] || !l.Header.Dominates(r.Block()) {
				okAll = false
			}
		}
	})
	return listParam, propParam, okAll
}

type claimSite struct {
	c      *ssa.Call  // the call whose boolean result answers "prop is claimed" (ClaimsProperty, or a membership helper)
	prop   ssa.Value  // the property asked about
	list   ssa.Value  // the reader list consulted
	inner  *ssau.Loop // the loop over the readers when the test is inline
	helper string
}

func CLAIM2(e *Env) {
	const rule = "CLAIM-2"
	fn := e.Fn("MeshReader.Read")
	if fn == nil {
		return
	}
	name := e.Name(fn)
	loops := e.Loops(fn)
	var sites []claimSite
	ssau.AllInstrs(fn, func(in ssa.Instruction) {
		c, ok := in.(*ssa.Call)
		if !ok {
			return
		}
		if c.Common().IsInvoke() {
			if c.Common().Method.Name() == "ClaimsProperty" && c.Common().Method.Pkg().Path() == PlyPath {
				st := claimSite{c: c, prop: c.Common().Args[0], inner: ssau.InnermostLoop(loops, c.Block())}
				if ia, isEl := loadOfIndex(c.Common().Value); isEl {
					st.list = ia.X
				}
				sites = append(sites, st)
			}
			return
		}
		g := c.Common().StaticCallee()
		if g == nil {
			return
		}
		if o := g.Origin(); o != nil {
			g = o
		}
		if g.Blocks == nil || g.Pkg == nil || g.Pkg.Pkg.Path() != PlyPath || len(c.Common().Args) != len(g.Params) {
			return
		}
		if lp, pp, okH := membershipHelper(e, g); okH {
			sites = append(sites, claimSite{c: c, prop: c.Common().Args[pp], list: c.Common().Args[lp], helper: g.Name()})
		}
	})
	sort.Slice(sites, func(i, j int) bool { return sites[i].c.Pos() < sites[j].c.Pos() })
	if len(sites) == 0 {
		e.Violate(fn, rule, name+"/unclaimed", fn.Pos(), "no ClaimsProperty test (inline or through a helper that scans the built readers): extra scalar properties are either all dropped or all duplicated")
		return
	}
	for _, st := range sites {
		c := st.c
		inner := st.inner
		construct := name + "/unclaimed"
		if inner == nil && st.helper == "" {
			e.Undecide(fn, rule, construct, c.Pos(), "ClaimsProperty is not called in a loop over the built readers")
			continue
		}
		if inner == nil {
			// the readers are scanned inside the helper: an empty stand-in keeps the tests below uniform
			inner = &ssau.Loop{Blocks: map[*ssa.BasicBlock]bool{}}
		}
		var outer *ssau.Loop
		for _, l := range loops {
			in := l.Blocks[c.Block()]
			if st.helper == "" {
				in = l != inner && l.Blocks[inner.Header]
			}
			if in && (outer == nil || len(l.Blocks) < len(outer.Blocks)) {
				outer = l
			}
		}
		prop := st.prop
		bad := ""
		var facts []string
		// the build call that follows
		var build *ssa.Call
		if outer != nil {
			for _, b := range fn.Blocks {
				if !outer.Blocks[b] || inner.Blocks[b] {
					continue
				}
				for _, in := range b.Instrs {
					if cl, ok := in.(*ssa.Call); ok {
						if _, callee := CallTo(cl); callee != nil && IsPlyMethod(callee, "Vector1PropertyReader", callee.Name()) && strings.HasPrefix(callee.Name(), "build") {
							build = cl
						}
					}
				}
			}
		}
		if build != nil {
			_, bc := CallTo(build)
			construct = name + "/unclaimed→" + bc.Name()
		}
		switch {
		case outer == nil:
			bad = "the claimed test is not nested in a loop over the element's properties"
		case build == nil:
			bad = "no scalar reader is built for unclaimed properties"
		}
		if bad == "" {
			// prop is the outer loop's current property
			if ia, ok := loadOfIndex(prop); !ok || !outer.Blocks[ia.Block()] || inner.Blocks[ia.Block()] {
				bad = "ClaimsProperty is not asked about the current property of the outer loop"
			}
		}
		// the claimed flag: the boolean that guards the build, negated
		var claimed ssa.Value
		if bad == "" {
			for _, l := range CondsAt(build.Block()) {
				bt, isB := l.V.Type().Underlying().(*types.Basic)
				if !isB || bt.Kind() != types.Bool {
					continue
				}
				if _, isPhi := l.V.(*ssa.Phi); !isPhi && l.V != ssa.Value(c) {
					continue
				}
				// it must depend on the ClaimsProperty answer
				dep := false
				for _, lf := range PhiLeaves(l.V, nil) {
					_ = lf
					dep = true
				}
				if !dep {
					continue
				}
				if l.Pos {
					bad = "the scalar reader is built for properties that ARE claimed (and unclaimed ones are dropped)"
				}
				claimed = l.V
			}
			if claimed == nil && bad == "" {
				bad = "building the scalar reader is not guarded by a flag accumulated from ClaimsProperty"
			}
		}
		if bad == "" {
			sawTrue, sawFalse := false, false
			for _, lf := range PhiLeaves(claimed, nil) {
				k, ok := lf.V.(*ssa.Const)
				if !ok || k.Value == nil {
					if lf.V == ssa.Value(c) {
						sawTrue, sawFalse = true, true // the answer itself is the flag
						continue
					}
					bad = "the claimed flag is computed from something other than the ClaimsProperty answers"
					continue
				}
				switch k.Value.String() {
				case "true":
					okLit := false
					for _, l := range LeafConds(lf, nil) {
						if l.V == ssa.Value(c) && l.Pos {
							okLit = true
						}
					}
					if !okLit {
						bad = "the claimed flag is set on a path where ClaimsProperty did not answer true"
					} else {
						sawTrue = true
					}
				case "false":
					sawFalse = true
					if lf.From != nil && !outer.Blocks[lf.From] {
						bad = "the claimed flag is not reset to false for each property: once a property is claimed, no later property is loaded"
					}
				}
			}
			if !sawTrue && bad == "" {
				bad = "the claimed flag is never set: every property is loaded a second time as a scalar attribute"
			}
			if !sawFalse && bad == "" {
				bad = "the claimed flag is never false: extra properties are dropped"
			}
		}
		if bad == "" {
			// reader literal names the same property
			recv := RecvArg(build.Common())
			okName := false
			for _, site := range literalSites(fn, func(t *types.Named) bool {
				return t.Obj().Name() == "Vector1PropertyReader" && t.Obj().Pkg().Path() == PlyPath
			}) {
				u, isLoad := recv.(*ssa.UnOp)
				if !isLoad || u.X != site {
					continue
				}
				for fname, ss := range fieldStores(site) {
					if AxisOf(fname) != "S" || !strings.HasPrefix(strings.ToLower(fname), "plyproperty") {
						continue
					}
					for _, s := range ss {
						if cl, isC := s.Val.(*ssa.Call); isC && cl.Common().IsInvoke() && cl.Common().Method.Name() == "Name" && cl.Common().Value == prop {
							okName = true
						}
					}
				}
			}
			if !okName {
				bad = "the scalar reader is not built for the unclaimed property's own name"
			}
		}
		if bad == "" {
			// appended exactly once to the list the inner loop ranges over, and once to the built readers
			napp := 0
			toInner := false
			for _, b := range fn.Blocks {
				if !outer.Blocks[b] {
					continue
				}
				for _, in := range b.Instrs {
					cl, ok := in.(*ssa.Call)
					if !ok || ssau.Builtin(cl) != "append" || !flowsInto(build, cl.Common().Args[1]) {
						continue
					}
					napp++
					if !cl.Block().Dominates(build.Block()) && !build.Block().Dominates(cl.Block()) {
						bad = "the new reader is appended on a different path than it is built"
					}
					// does this append feed the slice ranged by the inner loop?
					if st.list != nil && flowsInto(cl, st.list) {
						toInner = true
					}
				}
			}
			if napp != 2 && bad == "" {
				bad = fmt.Sprintf("the new scalar reader is appended %d times (expected: once to the readers that decode, once to the readers that update the mesh)", napp)
			}
			if !toInner && bad == "" {
				bad = "the new reader is not added to the list that is consulted for later properties and used for decoding"
			}
			facts = append(facts, "flag reset per property; set only under ClaimsProperty(prop); reader built under !claimed for prop.Name(); appended to both reader lists")
			if st.helper != "" {
				facts = append(facts, "membership answered by helper "+st.helper+": scans the whole list, true only under ClaimsProperty(prop), false only after exhaustion")
			}
		}
		if bad != "" {
			e.Violate(fn, rule, construct, c.Pos(), bad)
		} else {
			e.Hold(fn, rule, construct, c.Pos(), facts...)
		}
	}
}

var _ = token.NoPos
