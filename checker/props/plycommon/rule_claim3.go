package plycommon

import (
	"fmt"
	"go/token"
	"go/types"
	"regexp"
	"sort"
	"strings"

	"golang.org/x/tools/go/ssa"

	"polycheck/ssau"
)

var reSetFloat = regexp.MustCompile(`^SetFloat([1-4])Attribute$`)

// ReaderPlumbing (beyond DESIGN, supports CLAIM-2 and REC-1): for every built
// reader type
//
//	CLAIM-3  ClaimsProperty answers true for exactly the names of its own components;
//	         the names and the target attribute are copied from the description that built it,
//	         component for component;
//	ATTR-1   UpdateMesh hands its output array to Mesh.SetFloatNAttribute with N = number of
//	         components and the attribute name it was built with.
func ReaderPlumbing(e *Env) {
	built := e.builtReaderTypes()
	var names []string
	byName := map[string]*types.Named{}
	for t := range built {
		if strings.HasPrefix(t.Obj().Name(), "verifControl") {
			continue
		}
		names = append(names, t.Obj().Name())
		byName[t.Obj().Name()] = t
	}
	sort.Strings(names)
	for _, n := range names {
		t := byName[n]
		st := t.Underlying().(*types.Struct)
		dim := structDim(st)
		if dim == 0 {
			continue
		}
		want := wantAxes(dim)
		// ---- ClaimsProperty ----
		if fn := e.FnOpt(n + ".ClaimsProperty"); fn != nil {
			construct := e.Name(fn)
			got := map[string]bool{}
			neq := false
			ssau.AllInstrs(fn, func(in ssa.Instruction) {
				b, ok := in.(*ssa.BinOp)
				if !ok || (b.Op != token.EQL && b.Op != token.NEQ) {
					return
				}
				for _, p := range [][2]ssa.Value{{b.X, b.Y}, {b.Y, b.X}} {
					cl, isCall := p[0].(*ssa.Call)
					if !isCall || !cl.Common().IsInvoke() || cl.Common().Method.Name() != "Name" {
						continue
					}
					f := recvFieldLoad(fn, p[1])
					if f == nil {
						continue
					}
					if ax := AxisOf(f.Name()); ax != "" {
						got[ax] = true
						if b.Op == token.NEQ {
							neq = true
						}
					}
				}
			})
			g := SortedKeys(got)
			w := append([]string{}, want...)
			sort.Strings(w)
			switch {
			case neq:
				e.Undecide(fn, "CLAIM-3", construct, fn.Pos(), "claim test uses != ; polarity not analysed")
			case !setEq(g, w):
				e.Violate(fn, "CLAIM-3", construct, fn.Pos(), fmt.Sprintf("claims the names of components {%s}, the reader decodes {%s}: an unclaimed component is loaded a second time as a scalar attribute (or a foreign property is swallowed)", strings.Join(g, ","), strings.Join(w, ",")))
			default:
				e.Hold(fn, "CLAIM-3", construct, fn.Pos(), "claims exactly the names of components {"+strings.Join(g, ",")+"}")
			}
		} else {
			e.R.Failf("anchor %s.ClaimsProperty not found", n)
		}
		// ---- UpdateMesh ----
		if fn := e.FnOpt(n + ".UpdateMesh"); fn != nil {
			construct := e.Name(fn)
			bad, facts := "no Mesh.SetFloatNAttribute call", []string{}
			ssau.AllInstrs(fn, func(in ssa.Instruction) {
				cl, ok := in.(*ssa.Call)
				if !ok {
					return
				}
				cc, callee := CallTo(cl)
				if callee == nil || !ssau.IsMethod(callee, ModelingPath, "Mesh", callee.Name()) {
					return
				}
				m := reSetFloat.FindStringSubmatch(callee.Name())
				if m == nil {
					return
				}
				bad = ""
				if int(m[1][0]-'0') != dim {
					bad = fmt.Sprintf("a %d-component reader stores its data with %s", dim, callee.Name())
				}
				af := recvFieldLoad(fn, Arg(cc, callee, 0))
				df := recvFieldLoad(fn, Arg(cc, callee, 1))
				if af == nil || !strings.Contains(strings.ToLower(af.Name()), "attribute") {
					bad = "the attribute name is not the one the reader was built with"
				}
				if df == nil {
					bad = "the stored data is not the reader's output array"
				} else if sl, ok := df.Type().Underlying().(*types.Slice); !ok || dimOf(sl.Elem()) != dim {
					bad = "the stored data is not the reader's output array"
				}
				if cc.Args[0] != fn.Params[1] {
					bad = "the attribute is not set on the mesh that was passed in (other readers' attributes are lost)"
				}
				if bad == "" {
					facts = append(facts, fmt.Sprintf("m.%s(%s, %s)", callee.Name(), af.Name(), df.Name()))
				}
			})
			if bad != "" {
				e.Violate(fn, "ATTR-1", construct, fn.Pos(), bad)
			} else {
				e.Hold(fn, "ATTR-1", construct, fn.Pos(), facts...)
			}
		} else {
			e.R.Failf("anchor %s.UpdateMesh not found", n)
		}
	}
	// ---- names copied component for component where readers are built / delegated ----
	for _, a := range BuilderAnchors {
		fn := e.FnOpt(a.Name)
		if fn == nil {
			continue
		}
		for _, site := range literalSites(fn, func(t *types.Named) bool {
			return t.Obj().Pkg() != nil && t.Obj().Pkg().Path() == PlyPath
		}) {
			named := siteNamed(site)
			construct := e.Name(fn) + "→" + named.Obj().Name() + "/names"
			bad := ""
			var facts []string
			n := 0
			for fname, ss := range fieldStores(site) {
				lf := strings.ToLower(fname)
				isName := strings.HasPrefix(lf, "plyproperty")
				isAttr := lf == "modelattribute"
				if !isName && !isAttr {
					continue
				}
				for _, s := range ss {
					src := recvFieldLoad(fn, s.Val)
					if src == nil {
						bad = fname + " is not copied from the description that builds the reader"
						continue
					}
					n++
					if isName && AxisOf(src.Name()) != AxisOf(fname) {
						bad = fmt.Sprintf("%s receives %s: the reader claims / delegates the wrong component's name", fname, src.Name())
					}
					if isAttr && strings.ToLower(src.Name()) != "modelattribute" {
						bad = fname + " receives " + src.Name()
					}
					facts = append(facts, fname+" ← "+src.Name())
				}
			}
			if n == 0 {
				continue
			}
			sort.Strings(facts)
			if bad != "" {
				e.Violate(fn, "CLAIM-3", construct, sitePos(site), bad, facts...)
			} else {
				e.Hold(fn, "CLAIM-3", construct, sitePos(site), facts...)
			}
		}
	}
}
