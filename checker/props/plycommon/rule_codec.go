package plycommon

import (
	"fmt"
	"go/token"
	"go/types"
	"sort"
	"strings"

	"golang.org/x/tools/go/ssa"

	"polycheck/ssau"
)

// CodecType is one of the built per-property encoders / decoders of formats/ply.
type CodecType struct {
	Named  *types.Named
	N      int  // components
	Binary bool // binary encoding (else ASCII)
	Writer bool // encoder (else decoder)
	Fn     *ssa.Function
}

func (c CodecType) String() string {
	enc, role := "ascii", "reader"
	if c.Binary {
		enc = "binary"
	}
	if c.Writer {
		role = "writer"
	}
	return fmt.Sprintf("%s %s v%d", enc, role, c.N)
}

func dimOf(t types.Type) int {
	t = types.Unalias(t)
	if b, ok := t.Underlying().(*types.Basic); ok && b.Kind() == types.Float64 {
		if _, isNamed := t.(*types.Named); !isNamed {
			return 1
		}
	}
	if n, ok := t.(*types.Named); ok && n.Obj().Pkg() != nil {
		switch n.Obj().Pkg().Path() {
		case VectorPrefix + "vector2":
			return 2
		case VectorPrefix + "vector3":
			return 3
		case VectorPrefix + "vector4":
			return 4
		}
	}
	return 0
}

func structDim(st *types.Struct) int {
	for i := 0; i < st.NumFields(); i++ {
		t := types.Unalias(st.Field(i).Type())
		if p, ok := t.(*types.Pointer); ok {
			t = types.Unalias(p.Elem())
		}
		if s, ok := t.Underlying().(*types.Slice); ok {
			if _, isNamed := t.(*types.Named); !isNamed {
				if d := dimOf(s.Elem()); d > 0 {
					return d
				}
			}
		}
		if n, ok := t.(*types.Named); ok && n.Obj().Pkg() != nil && n.Obj().Pkg().Path() == IterPath && n.TypeArgs() != nil && n.TypeArgs().Len() == 1 {
			if d := dimOf(n.TypeArgs().At(0)); d > 0 {
				return d
			}
		}
	}
	return 0
}

func hasByteOrderField(st *types.Struct) bool {
	for i := 0; i < st.NumFields(); i++ {
		if ssau.IsNamed(st.Field(i).Type(), "encoding/binary", "ByteOrder") {
			return true
		}
	}
	return false
}

// CodecTypes discovers the per-property encoders/decoders by interface, not by name.
func (e *Env) CodecTypes() []CodecType {
	iface := func(name string) *types.Interface {
		n := e.NamedType(name)
		if n == nil {
			e.R.Failf("anchor %s.%s not found", PlyRel, name)
			return nil
		}
		i, _ := n.Underlying().(*types.Interface)
		return i
	}
	wI, brI, arI := iface("builtPropertyWriter"), iface("binaryPropertyReader"), iface("asciiPropertyReader")
	if wI == nil || brI == nil || arI == nil {
		return nil
	}
	impl := func(n *types.Named, i *types.Interface) bool {
		return types.Implements(n, i) || types.Implements(types.NewPointer(n), i)
	}
	var out []CodecType
	sc := e.Pkg.Pkg.Scope()
	for _, name := range sc.Names() {
		tn, ok := sc.Lookup(name).(*types.TypeName)
		if !ok || tn.IsAlias() {
			continue
		}
		named, ok := tn.Type().(*types.Named)
		if !ok {
			continue
		}
		st, ok := named.Underlying().(*types.Struct)
		if !ok {
			continue
		}
		if strings.HasPrefix(name, "verifControl") {
			continue
		}
		ct := CodecType{Named: named, N: structDim(st)}
		method := ""
		switch {
		case impl(named, wI):
			ct.Writer, ct.Binary, method = true, hasByteOrderField(st), "Write"
		case impl(named, brI):
			ct.Binary, method = true, "Read"
		case impl(named, arI):
			method = "Read"
		default:
			continue
		}
		ct.Fn = e.FnOpt(name + "." + method)
		if ct.Fn == nil || ct.N == 0 {
			e.R.Failf("codec type %s: method %s or component count not resolvable", name, method)
			continue
		}
		out = append(out, ct)
	}
	sort.Slice(out, func(i, j int) bool { return out[i].Named.Obj().Name() < out[j].Named.Obj().Name() })
	return out
}

// recvFieldLoad: v loads field f of the method's receiver.
func recvFieldLoad(fn *ssa.Function, v ssa.Value) *types.Var {
	fa, f := LoadedField(v)
	if fa == nil || f == nil || len(fn.Params) == 0 {
		return nil
	}
	recv := fn.Params[0]
	switch x := fa.X.(type) {
	case *ssa.Parameter:
		if x == recv {
			return f
		}
	case *ssa.Alloc:
		// value receiver spilled: `*alloc = recv`
		for _, r := range ssau.Refs(x) {
			if st, ok := r.(*ssa.Store); ok && st.Addr == x && st.Val == recv {
				return f
			}
		}
	}
	return nil
}

// scaleIn reports whether the blocks contain a multiplication / division by 255.
func scaleIn(fn *ssa.Function, region map[*ssa.BasicBlock]bool) (mul, div bool) {
	is255 := func(v ssa.Value) bool { f, ok := ConstNum(v); return ok && f == 255 }
	for _, b := range fn.Blocks {
		if !region[b] {
			continue
		}
		for _, in := range b.Instrs {
			switch x := in.(type) {
			case *ssa.BinOp:
				if x.Op == token.MUL && (is255(x.X) || is255(x.Y)) {
					mul = true
				}
				if x.Op == token.QUO && is255(x.Y) {
					div = true
				}
			case *ssa.Call:
				cc, callee := CallTo(x)
				if callee == nil {
					continue
				}
				if IsVectorMethod(callee, "Scale") || IsVectorMethod(callee, "MultByConstant") {
					if a := Arg(cc, callee, 0); a != nil && is255(a) {
						mul = true
					}
				}
				if IsVectorMethod(callee, "DivByConstant") {
					if a := Arg(cc, callee, 0); a != nil && is255(a) {
						div = true
					}
				}
			}
		}
	}
	return
}

// accessorsIn: the vector component accessors (X/Y/Z/W) in the backward slice of v.
func accessorsIn(v ssa.Value) []string {
	m := map[string]bool{}
	BackSlice(v, func(x ssa.Value) bool {
		if _, callee := CallTo(x); callee != nil {
			for _, ax := range AxisOrder {
				if IsVectorMethod(callee, ax) {
					m[ax] = true
					return false
				}
			}
		}
		return true
	})
	return SortedKeys(m)
}

// CodecTable is what the codec analysis found; used for the cross-sibling obligations.
type CodecTable struct {
	Cases    map[string][]string          // codec key -> tested constants
	ScaleSet map[string][]string          // codec key -> constants under which ×255 (writer) / ÷255 (reader) happens
	Types    map[string]CodecType         // codec key -> type
	AllTypes map[string]bool              // codec key -> accepts every type (no dispatch on the parse path)
	Kinds    map[string]map[string]string // codec key -> const -> wire kind
}

func codecKey(c CodecType) string {
	enc, role := "ascii", "reader"
	if c.Binary {
		enc = "binary"
	}
	if c.Writer {
		role = "writer"
	}
	return fmt.Sprintf("v%d/%s/%s", c.N, enc, role)
}

// Codec analyses every per-property encoder and decoder. It records, per
// scalar-type case, the LAY-1 tiling (writers), read widths (readers), wire kind
// (LAY-2), component order (AXIS-3 / AXIS-1) and record index use (REC-1).
// roundTrip selects the obligations of C04 (writer side included); foreign
// selects those of C08 (reader side against the restricted grammar).
func Codec(e *Env, roundTrip, foreign bool) *CodecTable {
	tab := &CodecTable{Cases: map[string][]string{}, ScaleSet: map[string][]string{}, Types: map[string]CodecType{}, AllTypes: map[string]bool{}, Kinds: map[string]map[string]string{}}
	sizes, sizeFn, why := e.SizeTable()
	if sizes == nil {
		if sizeFn != nil {
			e.Undecide(sizeFn, "LAY-3", e.Name(sizeFn), sizeFn.Pos(), why)
		}
		return tab
	}
	// the repository's own size table against the published sizes
	{
		var bad []string
		for _, k := range SortedKeys(SpecSize) {
			if got, ok := sizes[k]; !ok {
				bad = append(bad, k+": no case")
			} else if got != SpecSize[k] {
				bad = append(bad, fmt.Sprintf("%s: %d bytes, specification says %d", k, got, SpecSize[k]))
			}
		}
		if len(bad) > 0 {
			e.Violate(sizeFn, "LAY-3", e.Name(sizeFn), sizeFn.Pos(), "size table disagrees with the PLY specification: "+strings.Join(bad, "; "))
		} else {
			e.Hold(sizeFn, "LAY-3", e.Name(sizeFn), sizeFn.Pos(), fmt.Sprintf("8 scalar types, sizes %v", sizes))
		}
	}
	types_ := e.CodecTypes()
	for _, ct := range types_ {
		key := codecKey(ct)
		if _, dup := tab.Types[key]; dup {
			e.R.Failf("two codec types for %s (%s and %s)", key, tab.Types[key].Named.Obj().Name(), ct.Named.Obj().Name())
			continue
		}
		tab.Types[key] = ct
		tab.Kinds[key] = map[string]string{}
		switch {
		case ct.Writer && ct.Binary:
			binWriter(e, ct, sizes, tab, roundTrip)
		case ct.Writer:
			asciiWriter(e, ct, tab, roundTrip)
		case ct.Binary:
			binReader(e, ct, sizes, tab)
		default:
			asciiReader(e, ct, tab)
		}
	}
	e.R.Extra["codec_types"] = len(types_)
	return tab
}

// theSwitch returns the single ScalarPropertyType dispatch of a codec method on a receiver field.
func theSwitch(e *Env, ct CodecType, rule string) (*EnumSwitch, *types.Var) {
	fn := ct.Fn
	var cands []*EnumSwitch
	var fields []*types.Var
	for _, sw := range EnumSwitches(fn, IsNamedPly("ScalarPropertyType")) {
		if f := recvFieldLoad(fn, sw.Tag); f != nil {
			cands = append(cands, sw)
			fields = append(fields, f)
		}
	}
	if len(cands) != 1 {
		e.Undecide(fn, rule, e.Name(fn), fn.Pos(), fmt.Sprintf("expected one dispatch on the codec's scalar type field, found %d", len(cands)))
		return nil, nil
	}
	return cands[0], fields[0]
}

func dupConsts(sw *EnumSwitch) []string {
	seen := map[string]int{}
	for _, c := range sw.Cases {
		seen[c.Const]++
	}
	var d []string
	for k, n := range seen {
		if n > 1 {
			d = append(d, k)
		}
	}
	sort.Strings(d)
	return d
}

func paramIndexArg(fn *ssa.Function, v ssa.Value) bool {
	v = StripConv(v)
	p, ok := v.(*ssa.Parameter)
	if !ok {
		return false
	}
	// the record index is the last parameter of Write(out, i) / Read(buf, i)
	return len(fn.Params) > 0 && p == fn.Params[len(fn.Params)-1]
}

func binWriter(e *Env, ct CodecType, sizes map[string]int64, tab *CodecTable, emit bool) {
	fn := ct.Fn
	key := codecKey(ct)
	name := e.Name(fn)
	sw, tagField := theSwitch(e, ct, "LAY-3")
	if sw == nil {
		return
	}
	tab.Cases[key] = sw.Consts()
	// sink: out.Write(buf)
	var sink *ssa.Call
	var sinkRoot ssa.Value
	ssau.AllInstrs(fn, func(in ssa.Instruction) {
		c, ok := in.(*ssa.Call)
		if !ok {
			return
		}
		cc, callee := CallTo(c)
		if callee == nil || callee.Name() != "Write" || !cc.IsInvoke() || !ssau.IsNamed(cc.Value.Type(), "io", "Writer") {
			return
		}
		root, off, k, ok := bufRoot(cc.Args[0])
		if ok && off == nil && k == 0 && recvFieldLoad(fn, root) != nil {
			sink, sinkRoot = c, root
		}
	})
	if sink == nil {
		if emit {
			e.Undecide(fn, "LAY-1", name, fn.Pos(), "no `out.Write(<receiver buffer>)` found: record buffer cannot be identified")
		}
		return
	}
	bufField := recvFieldLoad(fn, sinkRoot)
	bufKey := PathKey(sinkRoot)
	var puts []Access
	for _, a := range CollectAccesses(fn) {
		if a.Put && a.BufKey == bufKey {
			puts = append(puts, a)
		}
	}
	// element index
	if emit {
		okIdx, n := true, 0
		ssau.AllInstrs(fn, func(in ssa.Instruction) {
			if c, ok := in.(*ssa.Call); ok {
				cc, callee := CallTo(c)
				if IsIterMethod(callee, "At") {
					n++
					if !paramIndexArg(fn, Arg(cc, callee, 0)) {
						okIdx = false
					}
				}
			}
		})
		if n == 0 {
			e.Undecide(fn, "REC-1", name+"/element", fn.Pos(), "no At(i) on the attribute iterator found")
		} else if okIdx {
			e.Hold(fn, "REC-1", name+"/element", fn.Pos(), fmt.Sprintf("%d At calls, all subscripted with the record index parameter", n))
		} else {
			e.Violate(fn, "REC-1", name+"/element", fn.Pos(), "the element written for record i is not element i of the attribute")
		}
	}
	var scaled []string
	for _, c := range sw.Consts() {
		region := sw.Region(c)
		target := sw.TargetOf(c)
		if mul, _ := scaleIn(fn, region); mul {
			scaled = append(scaled, c)
		}
		construct := name + "/case:" + c
		w, haveSize := sizes[c]
		if !haveSize {
			if emit {
				e.Violate(fn, "LAY-1", construct, sw.TargetOf(c).Instrs[0].Pos(), "case "+c+" has no entry in ScalarPropertyType.Size: buffer size unknown")
			}
			continue
		}
		var acc []Access
		cond := ""
		for _, a := range puts {
			if !region[a.In.Block()] {
				// writes before the switch apply to every case
				if a.In.Block().Dominates(sw.Head()) {
					acc = append(acc, a)
				}
				continue
			}
			if !mustPass(target, a.In.Block(), sink.Block()) {
				cond = "a write at " + e.IPos(a.In) + " happens only on some paths of the case"
			}
			acc = append(acc, a)
		}
		total := w * int64(ct.N)
		okTile, whyTile := Tile(acc, total)
		var facts []string
		kind := ""
		bad := ""
		sort.Slice(acc, func(i, j int) bool { return acc[i].OffConst < acc[j].OffConst })
		for k, a := range acc {
			facts = append(facts, fmt.Sprintf("[%d,%d) %s", a.OffConst, a.OffConst+a.Width, a.Kind))
			if a.Width != w {
				bad = fmt.Sprintf("field at offset %d is %d bytes wide, header type %s is %d", a.OffConst, a.Width, c, w)
			}
			if kind == "" {
				kind = a.Kind
			} else if kind != a.Kind {
				bad = "components of one property are encoded differently (" + kind + " vs " + a.Kind + ")"
			}
			if ct.N > 1 && a.Width == w && int(a.OffConst/w) == k && k < ct.N {
				got := accessorsIn(a.Val)
				want := AxisOrder[k]
				if emit {
					axc := fmt.Sprintf("%s/case:%s/slot%d", name, c, k)
					if len(got) == 1 && got[0] == want {
						e.Hold(fn, "AXIS-3", axc, a.In.Pos(), "bytes "+facts[len(facts)-1]+" carry component "+want)
					} else if len(got) == 0 {
						e.Undecide(fn, "AXIS-3", axc, a.In.Pos(), "cannot see which component is written to this slot")
					} else {
						e.Violate(fn, "AXIS-3", axc, a.In.Pos(), fmt.Sprintf("slot %d (component %s by header order) is written from component %s", k, want, strings.Join(got, ",")))
					}
				}
			}
		}
		tab.Kinds[key][c] = kind
		if !emit {
			continue
		}
		pos := target.Instrs[0].Pos()
		if len(acc) > 0 {
			pos = acc[0].In.Pos()
		}
		switch {
		case cond != "":
			e.Undecide(fn, "LAY-1", construct, pos, cond, facts...)
		case !okTile:
			e.Violate(fn, "LAY-1", construct, pos, fmt.Sprintf("record of %d×%d bytes is not tiled exactly: %s", ct.N, w, whyTile), facts...)
		case bad != "":
			e.Violate(fn, "LAY-1", construct, pos, bad, facts...)
		default:
			e.Hold(fn, "LAY-1", construct, pos, append(facts, fmt.Sprintf("tiles [0,%d) = %d×Size(%s)", total, ct.N, c))...)
		}
		if want := SpecKind[c]; kind != "" && kind != want {
			e.Violate(fn, "LAY-2", construct, pos, fmt.Sprintf("type %s is written as %s; the format (and the reader) use %s", c, kind, want))
		} else if kind != "" {
			e.Hold(fn, "LAY-2", construct, pos, "wire kind "+kind)
		}
	}
	tab.ScaleSet[key] = scaled
	if emit {
		if d := dupConsts(sw); len(d) > 0 {
			e.Violate(fn, "LAY-3", name, fn.Pos(), "constant tested twice in one dispatch: "+strings.Join(d, ","))
		}
		hdr1Build(e, ct, tagField, bufField)
	}
}

// hdr1Build checks the constructor of a binary property writer and its header
// description: buffer = N×Size(Type), dispatch field = the same Type, and
// Properties() declares N scalar properties of that Type with the names in axis order.
func hdr1Build(e *Env, ct CodecType, tagField, bufField *types.Var) {
	const rule = "HDR-1"
	var site ssa.Value
	var ctor *ssa.Function
	for _, fn := range e.Repo {
		for _, a := range literalSites(fn, func(t *types.Named) bool { return t == ct.Named }) {
			if site != nil {
				e.Undecide(fn, rule, ct.Named.Obj().Name(), sitePos(a), "built writer is constructed in more than one place")
				return
			}
			site, ctor = a, fn
		}
	}
	construct := "formats/ply." + ct.Named.Obj().Name()
	if site == nil {
		e.R.Failf("no construction site of %s found", construct)
		return
	}
	stores := fieldStores(site)
	ts, bs := stores[tagField.Name()], stores[bufField.Name()]
	if len(ts) != 1 || len(bs) != 1 {
		e.Undecide(ctor, rule, construct, sitePos(site), "type / buffer field not assigned exactly once where the writer is built")
		return
	}
	typeKey := PathKey(ts[0].Val)
	mk, ok := bs[0].Val.(*ssa.MakeSlice)
	if !ok {
		e.Undecide(ctor, rule, construct, bs[0].Pos(), "record buffer is not a make([]byte, …)")
		return
	}
	var sizeSym ssa.Value
	form := LinEval(mk.Len, func(v ssa.Value) (Lin, bool) {
		if c, ok := isSizeCall(v); ok {
			if PathKey(RecvArg(c.Common())) == typeKey {
				if sizeSym == nil {
					sizeSym = c
				}
				return linSym(sizeSym), true
			}
			return linSym(v), true
		}
		return Lin{}, false
	})
	want := Lin{Bad: true}
	if sizeSym != nil {
		want = linSym(sizeSym).scale(int64(ct.N))
	}
	if !form.Equal(want) {
		e.Violate(ctor, rule, construct+".buf", bs[0].Pos(),
			fmt.Sprintf("record buffer is sized %s, expected %d×Size(the Type that is also used for dispatch and in the header)", form, ct.N))
	} else {
		e.Hold(ctor, rule, construct+".buf", bs[0].Pos(), fmt.Sprintf("make([]byte, %d×Size(%s)); dispatch field %s receives the same %s", ct.N, typeKey, tagField.Name(), typeKey))
	}
	// Properties() of the writer description type
	recvT := ssau.NamedOf(ctor.Signature.Recv().Type())
	if recvT == nil {
		return
	}
	pf := e.FnOpt(recvT.Obj().Name() + ".Properties")
	pconstruct := "formats/ply." + recvT.Obj().Name() + ".Properties"
	if pf == nil {
		e.R.Failf("anchor %s not found", pconstruct)
		return
	}
	props := literalSites(pf, func(t *types.Named) bool {
		return t.Obj().Name() == "ScalarProperty" && t.Obj().Pkg().Path() == PlyPath
	})
	// order of the literals in the returned slice: by the constant index they are stored at
	type ent struct {
		idx  int64
		name *types.Var
		typ  string
		pos  token.Pos
	}
	var ents []ent
	for _, a := range props {
		st := fieldStores(a)
		var en ent
		en.idx = -1
		en.pos = sitePos(a)
		if s := st["PropertyName"]; len(s) == 1 {
			en.name = recvFieldLoad(pf, s[0].Val)
		}
		if s := st["Type"]; len(s) == 1 {
			if f := recvFieldLoad(pf, s[0].Val); f != nil {
				en.typ = f.Name()
			}
		}
		// find where the literal value goes: *a -> MakeInterface -> Store into &arr[k]
		for _, r := range ssau.Refs(a) {
			if ld, ok := r.(*ssa.UnOp); ok && ld.Op == token.MUL {
				for _, r2 := range ssau.Refs(ld) {
					if mi, ok := r2.(*ssa.MakeInterface); ok {
						for _, r3 := range ssau.Refs(mi) {
							if stx, ok := r3.(*ssa.Store); ok {
								if ia, ok := stx.Addr.(*ssa.IndexAddr); ok {
									if k, ok := ssau.ConstInt(ia.Index); ok {
										en.idx = k
									}
								}
							}
						}
					}
				}
			}
		}
		ents = append(ents, en)
	}
	sort.Slice(ents, func(i, j int) bool { return ents[i].idx < ents[j].idx })
	typeFieldOfDesc := ""
	if f := recvFieldLoad(ctor, ts[0].Val); f != nil {
		typeFieldOfDesc = f.Name()
	}
	var facts []string
	bad := ""
	if len(ents) != ct.N {
		bad = fmt.Sprintf("header declares %d scalar properties, the body writes %d components per record", len(ents), ct.N)
	}
	for k, en := range ents {
		if en.idx != int64(k) {
			bad = "cannot order the declared properties"
			break
		}
		if en.typ == "" || en.typ != typeFieldOfDesc {
			bad = fmt.Sprintf("declared type of property #%d is not the writer's %s field (which sizes and dispatches the body)", k, typeFieldOfDesc)
		}
		if en.name == nil {
			bad = fmt.Sprintf("name of property #%d is not one of the writer's PlyProperty fields", k)
			continue
		}
		ax := AxisOf(en.name.Name())
		want := "S"
		if ct.N > 1 && k < len(AxisOrder) {
			want = AxisOrder[k]
		}
		if ax != want {
			bad = fmt.Sprintf("property #%d is named by %s but the body writes component %s in that slot", k, en.name.Name(), want)
		}
		facts = append(facts, fmt.Sprintf("#%d name=%s type=%s", k, en.name.Name(), en.typ))
	}
	if bad != "" {
		e.Violate(pf, rule, pconstruct, pf.Pos(), bad+": the header does not describe the body", facts...)
	} else {
		e.Hold(pf, rule, pconstruct, pf.Pos(), facts...)
	}
}

func asciiWriter(e *Env, ct CodecType, tab *CodecTable, emit bool) {
	fn := ct.Fn
	key := codecKey(ct)
	name := e.Name(fn)
	sw, _ := theSwitch(e, ct, "LAY-3")
	if sw == nil {
		return
	}
	tab.Cases[key] = sw.Consts()
	var scaled []string
	for _, c := range sw.Consts() {
		region := sw.Region(c)
		if mul, _ := scaleIn(fn, region); mul {
			scaled = append(scaled, c)
		}
		if !emit || ct.N == 1 {
			continue
		}
		// AXIS-3: order of the numbers appended to the text buffer
		var calls []*ssa.Call
		for _, b := range fn.Blocks {
			if !region[b] {
				continue
			}
			for _, in := range b.Instrs {
				if cl, ok := in.(*ssa.Call); ok {
					if _, callee := CallTo(cl); callee != nil && callee.Pkg() != nil && callee.Pkg().Path() == "strconv" && strings.HasPrefix(callee.Name(), "Append") {
						calls = append(calls, cl)
					}
				}
			}
		}
		construct := name + "/case:" + c
		ordered := true
		for i := 0; i+1 < len(calls); i++ {
			if !ssau.Before(calls[i], calls[i+1]) {
				ordered = false
			}
		}
		var seq []string
		for _, cl := range calls {
			cc, callee := CallTo(cl)
			seq = append(seq, strings.Join(accessorsIn(Arg(cc, callee, 1)), "|"))
		}
		want := strings.Join(AxisOrder[:ct.N], " ")
		pos := sw.TargetOf(c).Instrs[0].Pos()
		if len(calls) > 0 {
			pos = calls[0].Pos()
		}
		switch {
		case !ordered:
			e.Undecide(fn, "AXIS-3", construct, pos, "the appended numbers are not totally ordered by control flow")
		case strings.Join(seq, " ") != want:
			e.Violate(fn, "AXIS-3", construct, pos, fmt.Sprintf("numbers are written in component order [%s], header order is [%s]", strings.Join(seq, " "), want))
		default:
			e.Hold(fn, "AXIS-3", construct, pos, "components appended in order "+want)
		}
	}
	tab.ScaleSet[key] = scaled
	if emit {
		okIdx, n := true, 0
		ssau.AllInstrs(fn, func(in ssa.Instruction) {
			if c, ok := in.(*ssa.Call); ok {
				cc, callee := CallTo(c)
				if IsIterMethod(callee, "At") {
					n++
					if !paramIndexArg(fn, Arg(cc, callee, 0)) {
						okIdx = false
					}
				}
			}
		})
		if n > 0 && okIdx {
			e.Hold(fn, "REC-1", name+"/element", fn.Pos(), fmt.Sprintf("%d At calls, all subscripted with the record index parameter", n))
		} else if n > 0 {
			e.Violate(fn, "REC-1", name+"/element", fn.Pos(), "the element written for record i is not element i of the attribute")
		}
		if d := dupConsts(sw); len(d) > 0 {
			e.Violate(fn, "LAY-3", name, fn.Pos(), "constant tested twice in one dispatch: "+strings.Join(d, ","))
		}
	}
}

// offsetAxis: v loads one of the receiver's *Offset fields; returns its axis.
func offsetAxis(fn *ssa.Function, v ssa.Value) string {
	if v == nil {
		return ""
	}
	f := recvFieldLoad(fn, StripConv(v))
	if f == nil || !strings.HasSuffix(strings.ToLower(f.Name()), "offset") {
		return ""
	}
	return AxisOf(f.Name())
}

func wantAxes(n int) []string {
	if n == 1 {
		return []string{"S"}
	}
	return AxisOrder[:n]
}

// rec1Store checks the reader's output store: arr[i] = value, i the record index parameter.
func rec1Store(e *Env, ct CodecType) {
	fn := ct.Fn
	name := e.Name(fn)
	var stores []*ssa.Store
	ssau.AllInstrs(fn, func(in ssa.Instruction) {
		st, ok := in.(*ssa.Store)
		if !ok {
			return
		}
		ia, ok := st.Addr.(*ssa.IndexAddr)
		if !ok {
			return
		}
		if f := recvFieldLoad(fn, ia.X); f != nil {
			if sl, ok := f.Type().Underlying().(*types.Slice); ok && dimOf(sl.Elem()) == ct.N {
				stores = append(stores, st)
			}
		}
	})
	construct := name + "/output"
	if len(stores) == 0 {
		e.Violate(fn, "REC-1", construct, fn.Pos(), "the decoded value is never stored into the reader's output array")
		return
	}
	for _, st := range stores {
		ia := st.Addr.(*ssa.IndexAddr)
		if !paramIndexArg(fn, ia.Index) {
			e.Violate(fn, "REC-1", construct, st.Pos(), "output array is subscripted with "+ia.Index.String()+", not with the record index the caller passes: record i does not become vertex i")
			return
		}
		// the stored value must depend on the input buffer parameter
		buf := fn.Params[1]
		if len(SliceFind(st.Val, func(v ssa.Value) bool { return v == buf })) == 0 {
			e.Violate(fn, "REC-1", construct, st.Pos(), "stored value does not depend on the record buffer")
			return
		}
	}
	e.Hold(fn, "REC-1", construct, stores[0].Pos(), fmt.Sprintf("%d store(s) arr[i] = decode(buf), i = record index parameter", len(stores)))
}

// newArgsAxis checks AXIS-1 at the vectorN.New calls of a reader: argument k is
// derived from the access made at the offset field of axis k and from no other.
func newArgsAxis(e *Env, ct CodecType, region map[*ssa.BasicBlock]bool, label string, axisOfAccess map[ssa.Value]string) {
	fn := ct.Fn
	if ct.N == 1 {
		return
	}
	name := e.Name(fn)
	found := false
	for _, b := range fn.Blocks {
		if region != nil && !region[b] {
			continue
		}
		for _, in := range b.Instrs {
			cl, ok := in.(*ssa.Call)
			if !ok {
				continue
			}
			cc, callee := CallTo(cl)
			n, isNew := IsVectorNew(callee)
			if !isNew || n != ct.N {
				continue
			}
			found = true
			construct := name + label
			var facts []string
			bad := ""
			for k := 0; k < n; k++ {
				arg := cc.Args[k]
				m := map[string]bool{}
				BackSlice(arg, func(v ssa.Value) bool {
					if ax, ok := axisOfAccess[v]; ok {
						m[ax] = true
					}
					return true
				})
				got := SortedKeys(m)
				if len(got) != 1 || got[0] != AxisOrder[k] {
					bad = fmt.Sprintf("slot %s of the vector receives the value read at offset(s) of component [%s]", AxisOrder[k], strings.Join(got, ","))
				}
				facts = append(facts, fmt.Sprintf("slot %s ← value read at %sOffset", AxisOrder[k], strings.ToLower(strings.Join(got, ","))))
			}
			if bad != "" {
				e.Violate(fn, "AXIS-1", construct, cl.Pos(), bad+": components swapped on read", facts...)
			} else {
				e.Hold(fn, "AXIS-1", construct, cl.Pos(), facts...)
			}
		}
	}
	if !found {
		e.Undecide(fn, "AXIS-1", name+label, fn.Pos(), "no vector constructor found where the components are assembled")
	}
}

func binReader(e *Env, ct CodecType, sizes map[string]int64, tab *CodecTable) {
	fn := ct.Fn
	key := codecKey(ct)
	name := e.Name(fn)
	sw, _ := theSwitch(e, ct, "LAY-3")
	if sw == nil {
		return
	}
	tab.Cases[key] = sw.Consts()
	if len(fn.Params) < 3 {
		e.Undecide(fn, "LAY-1", name, fn.Pos(), "unexpected signature")
		return
	}
	buf := fn.Params[1]
	var gets []Access
	for _, a := range CollectAccesses(fn) {
		if !a.Put && a.Buf == buf {
			gets = append(gets, a)
		}
	}
	var scaled []string
	for _, c := range sw.Consts() {
		region := sw.Region(c)
		if _, div := scaleIn(fn, region); div {
			scaled = append(scaled, c)
		}
		construct := name + "/case:" + c
		w, haveSize := sizes[c]
		pos := sw.TargetOf(c).Instrs[0].Pos()
		if !haveSize {
			e.Violate(fn, "LAY-1", construct, pos, "case "+c+" has no entry in ScalarPropertyType.Size")
			continue
		}
		axisOf := map[ssa.Value]string{}
		seen := map[string]int{}
		bad := ""
		kind := ""
		var facts []string
		for _, a := range gets {
			if !region[a.In.Block()] {
				continue
			}
			ax := offsetAxis(fn, a.Off)
			if ax == "" || a.OffConst != 0 {
				bad = "a read at " + e.IPos(a.In) + " is not positioned by one of the reader's offset fields"
				continue
			}
			axisOf[a.Val] = ax
			seen[ax]++
			if a.Width != w {
				bad = fmt.Sprintf("component %s is read as %d bytes but a %s property occupies %d (the offsets were accumulated with Size())", ax, a.Width, c, w)
			}
			if kind == "" {
				kind = a.Kind
			} else if kind != a.Kind {
				bad = "components decoded differently (" + kind + " vs " + a.Kind + ")"
			}
			facts = append(facts, fmt.Sprintf("%s: %d bytes at %sOffset as %s", ax, a.Width, strings.ToLower(ax), a.Kind))
		}
		for _, ax := range wantAxes(ct.N) {
			if seen[ax] != 1 {
				bad = fmt.Sprintf("component %s is read %d times (expected once)", ax, seen[ax])
			}
		}
		sort.Strings(facts)
		tab.Kinds[key][c] = kind
		if bad != "" {
			e.Violate(fn, "LAY-1", construct, pos, bad, facts...)
		} else {
			e.Hold(fn, "LAY-1", construct, pos, facts...)
		}
		if want := SpecKind[c]; kind != want {
			e.Violate(fn, "LAY-2", construct, pos, fmt.Sprintf("type %s is decoded as %s; the format says %s", c, kind, want))
		} else {
			e.Hold(fn, "LAY-2", construct, pos, "wire kind "+kind)
		}
		newArgsAxis(e, ct, region, "/case:"+c, axisOf)
	}
	tab.ScaleSet[key] = scaled
	rec1Store(e, ct)
	if d := dupConsts(sw); len(d) > 0 {
		e.Violate(fn, "LAY-3", name, fn.Pos(), "constant tested twice in one dispatch: "+strings.Join(d, ","))
	}
}

func asciiReader(e *Env, ct CodecType, tab *CodecTable) {
	fn := ct.Fn
	key := codecKey(ct)
	name := e.Name(fn)
	if len(fn.Params) < 3 {
		e.Undecide(fn, "LAY-3", name, fn.Pos(), "unexpected signature")
		return
	}
	buf := fn.Params[1]
	// parse calls: strconv.Parse*(buf[offsetField], …)
	axisOf := map[ssa.Value]string{}
	seen := map[string]int{}
	var parseBlocks []*ssa.BasicBlock
	bad := ""
	ssau.AllInstrs(fn, func(in ssa.Instruction) {
		cl, ok := in.(*ssa.Call)
		if !ok {
			return
		}
		cc, callee := CallTo(cl)
		if callee == nil || callee.Pkg() == nil || callee.Pkg().Path() != "strconv" || !strings.HasPrefix(callee.Name(), "Parse") {
			return
		}
		u, ok := cc.Args[0].(*ssa.UnOp)
		if !ok {
			bad = "parsed text is not a column of the record"
			return
		}
		ia, ok := u.X.(*ssa.IndexAddr)
		if !ok || ia.X != buf {
			bad = "parsed text is not a column of the record"
			return
		}
		ax := offsetAxis(fn, ia.Index)
		if ax == "" {
			bad = "column at " + e.IPos(cl) + " is not selected by one of the reader's offset fields"
			return
		}
		axisOf[cl] = ax
		seen[ax]++
		parseBlocks = append(parseBlocks, cl.Block())
	})
	for _, ax := range wantAxes(ct.N) {
		if seen[ax] != 1 {
			bad = fmt.Sprintf("component %s is parsed %d times (expected once)", ax, seen[ax])
		}
	}
	// type dispatch: only the 8-bit scale test; parsing itself must not depend on the type
	sws := EnumSwitches(fn, IsNamedPly("ScalarPropertyType"))
	var scaled []string
	all := true
	for _, sw := range sws {
		for _, c := range sw.Consts() {
			region := sw.Region(c)
			if _, div := scaleIn(fn, region); div {
				scaled = append(scaled, c)
			}
		}
		// a parse inside a case region, or a panicking default, restricts the accepted types
		if sw.DefaultPanics() {
			all = false
		}
		for _, pb := range parseBlocks {
			for _, c := range sw.Consts() {
				if sw.Region(c)[pb] && !pb.Dominates(sw.Head()) {
					all = false
				}
			}
		}
	}
	sort.Strings(scaled)
	tab.ScaleSet[key] = scaled
	tab.AllTypes[key] = all
	if all {
		tab.Cases[key] = SortedKeys(SpecSize)
	}
	if bad != "" {
		e.Violate(fn, "AXIS-1", name+"/columns", fn.Pos(), bad)
	} else {
		e.Hold(fn, "AXIS-1", name+"/columns", fn.Pos(), fmt.Sprintf("%d columns, one per component, each selected by its own offset field", len(axisOf)))
	}
	// through Extract #0 the parsed value flows on
	ext := map[ssa.Value]string{}
	for v, ax := range axisOf {
		ext[v] = ax
	}
	newArgsAxis(e, ct, nil, "/assemble", ext)
	rec1Store(e, ct)
}
