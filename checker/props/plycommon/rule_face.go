package plycommon

import (
	"fmt"
	"go/token"
	"go/types"
	"sort"
	"strconv"
	"strings"

	"golang.org/x/tools/go/ssa"

	"polycheck/ssau"
)

// faceList is one `count items…` group of a binary face record.
type faceList struct {
	Count int64
	W     int64
	Kind  string
	Items []Access
}

// headerLists returns the ListProperty literals of MeshWriter.Write in header
// order, with the value of the "has texture coordinates" condition they need.
type hdrList struct {
	CountType, ListType string
	NeedsTex            bool
	Pos                 token.Pos
}

// texCondAt: is block b only reached when HasFloat2Attribute(TexCoord) is true / false?
func texCondAt(conds []Lit) (known bool, val bool) {
	for _, c := range conds {
		_, callee := CallTo(c.V)
		if IsMeshMethod(callee, "HasFloat2Attribute") {
			return true, c.Pos
		}
	}
	return false, false
}

func (e *Env) headerLists(mw *ssa.Function) []hdrList {
	var out []hdrList
	sites := literalSites(mw, func(t *types.Named) bool { return t.Obj().Name() == "ListProperty" && t.Obj().Pkg().Path() == PlyPath })
	for _, a := range sites {
		st := fieldStores(a)
		h := hdrList{Pos: sitePos(a)}
		if s := st["CountType"]; len(s) == 1 {
			h.CountType, _ = ConstStr(s[0].Val)
		}
		if s := st["ListType"]; len(s) == 1 {
			h.ListType, _ = ConstStr(s[0].Val)
		}
		if known, v := texCondAt(CondsAt(siteBlock(a))); known && v {
			h.NeedsTex = true
		}
		out = append(out, h)
	}
	sort.SliceStable(out, func(i, j int) bool { return !out[i].NeedsTex && out[j].NeedsTex })
	return out
}

// FaceBinary decides LAY-1 / HDR-1 / AXIS-3 / IDX for the binary face records.
func FaceBinary(e *Env) {
	fn := e.Fn("writeBinaryTriTopo")
	mw := e.Fn("MeshWriter.Write")
	sizes, _, _ := e.SizeTable()
	if fn == nil || mw == nil || sizes == nil {
		return
	}
	name := e.Name(fn)
	hdr := e.headerLists(mw)
	acc := CollectAccesses(fn)
	// sinks: out.Write(buf) with buf rooted at a fixed-size array
	type rec struct {
		sink  *ssa.Call
		root  ssa.Value
		total int64
	}
	var recs []rec
	ssau.AllInstrs(fn, func(in ssa.Instruction) {
		c, ok := in.(*ssa.Call)
		if !ok {
			return
		}
		cc, callee := CallTo(c)
		if callee == nil || callee.Name() != "Write" || !cc.IsInvoke() || !ssau.IsNamed(cc.Value.Type(), "io", "Writer") {
			return
		}
		root, off, k, ok := bufRoot(cc.Args[0])
		if !ok || off != nil || k != 0 {
			return
		}
		total := int64(-1)
		if a, isA := root.(*ssa.Alloc); isA {
			if arr, isArr := a.Type().Underlying().(*types.Pointer).Elem().Underlying().(*types.Array); isArr {
				total = arr.Len()
			}
		}
		if ms, isMS := root.(*ssa.MakeSlice); isMS {
			if k, ok := ssau.ConstInt(ms.Len); ok {
				total = k
			}
		}
		recs = append(recs, rec{c, root, total})
	})
	if len(recs) == 0 {
		e.Undecide(fn, "LAY-1", name, fn.Pos(), "no face record buffer written with out.Write found")
		return
	}
	sort.Slice(recs, func(i, j int) bool { return recs[i].total < recs[j].total })
	for _, r := range recs {
		construct := fmt.Sprintf("%s/record:%d", name, r.total)
		if r.total < 0 {
			e.Undecide(fn, "LAY-1", name+"/record:?", r.sink.Pos(), "face record buffer has no constant size")
			continue
		}
		var puts []Access
		cond := ""
		for _, a := range acc {
			if !a.Put || a.Buf != r.root {
				continue
			}
			if !a.In.Block().Dominates(r.sink.Block()) {
				cond = "a write at " + e.IPos(a.In) + " does not happen for every record"
			}
			puts = append(puts, a)
		}
		sort.Slice(puts, func(i, j int) bool { return puts[i].OffConst < puts[j].OffConst })
		var facts []string
		for _, a := range puts {
			facts = append(facts, fmt.Sprintf("[%d,%d) %s", a.OffConst, a.OffConst+a.Width, a.Kind))
		}
		okTile, why := Tile(puts, r.total)
		switch {
		case cond != "":
			e.Undecide(fn, "LAY-1", construct, r.sink.Pos(), cond, facts...)
			continue
		case !okTile:
			e.Violate(fn, "LAY-1", construct, r.sink.Pos(), fmt.Sprintf("the %d-byte face record is not tiled exactly: %s", r.total, why), facts...)
			continue
		}
		e.Hold(fn, "LAY-1", construct, r.sink.Pos(), facts...)
		// parse into lists
		var lists []faceList
		bad := ""
		for i := 0; i < len(puts); {
			a := puts[i]
			if a.Width != 1 || !strings.HasPrefix(a.Kind, "const:") {
				bad = fmt.Sprintf("byte %d should be a list count (constant byte), found %s", a.OffConst, a.Kind)
				break
			}
			n, _ := strconv.ParseInt(strings.TrimPrefix(a.Kind, "const:"), 10, 64)
			fl := faceList{Count: n}
			i++
			for k := int64(0); k < n; k++ {
				if i >= len(puts) {
					bad = fmt.Sprintf("count byte says %d items, only %d follow", n, k)
					break
				}
				it := puts[i]
				if fl.W == 0 {
					fl.W, fl.Kind = it.Width, it.Kind
				} else if fl.W != it.Width || fl.Kind != it.Kind {
					bad = "items of one list are encoded differently"
				}
				fl.Items = append(fl.Items, it)
				i++
			}
			if bad != "" {
				break
			}
			lists = append(lists, fl)
		}
		hc := construct + "/header"
		if bad != "" {
			e.Violate(fn, "HDR-1", hc, r.sink.Pos(), bad)
			continue
		}
		// which header lists apply on this branch
		known, hasTex := texCondAt(CondsAt(r.sink.Block()))
		var want []hdrList
		for _, h := range hdr {
			if !h.NeedsTex || (known && hasTex) {
				want = append(want, h)
			}
		}
		if len(lists) > 1 && !(known && hasTex) {
			e.Violate(fn, "HDR-1", hc, r.sink.Pos(), "a record with a texture-coordinate list is written on a path not guarded by HasFloat2Attribute(TexCoord), the condition under which the header declares that list")
			continue
		}
		if len(want) != len(lists) {
			e.Violate(fn, "HDR-1", hc, r.sink.Pos(), fmt.Sprintf("header declares %d list properties on this branch, the record carries %d lists", len(want), len(lists)))
			continue
		}
		var hf []string
		for k, l := range lists {
			h := want[k]
			if sizes[h.CountType] != 1 {
				bad = fmt.Sprintf("header count type %s is %d bytes, the body writes a 1-byte count", h.CountType, sizes[h.CountType])
			}
			if sizes[h.ListType] != l.W {
				bad = fmt.Sprintf("header item type %s is %d bytes, the body writes %d-byte items", h.ListType, sizes[h.ListType], l.W)
			}
			if SpecKind[h.ListType] != l.Kind {
				bad = fmt.Sprintf("header item type %s (%s) but the body encodes %s", h.ListType, SpecKind[h.ListType], l.Kind)
			}
			hf = append(hf, fmt.Sprintf("list %d: count %d as %s, items %s = %s", k, l.Count, h.CountType, h.ListType, l.Kind))
		}
		if bad != "" {
			e.Violate(fn, "HDR-1", hc, r.sink.Pos(), bad+": the header does not describe the body", hf...)
		} else {
			e.Hold(fn, "HDR-1", hc, r.sink.Pos(), hf...)
		}
		// corner order: list 0 item k = indices.At(i+k); list 1 item 2c+a = component a of corner c
		faceCorners(e, fn, construct, lists)
	}
}

// cornerOf: the constant added to the loop position in the (innermost) index-position expression of v's slice.
func cornerOf(e *Env, v ssa.Value) (int64, bool) {
	return cornerOfBound(e, v, nil)
}

// cornerOfBound: as cornerOf; bind maps the parameters of the helper / closure in which v
// lives to the caller's arguments (the loop position is then `argument + constant`).
func cornerOfBound(e *Env, v ssa.Value, bind map[ssa.Value]ssa.Value) (int64, bool) {
	var res []int64
	counterSym := func(v ssa.Value) (Lin, bool) {
		if phi, ok := v.(*ssa.Phi); ok && e.CounterOf(phi) != nil {
			return linSym(phi), true
		}
		return Lin{}, false
	}
	BackSlice(v, func(x ssa.Value) bool {
		cl, ok := x.(*ssa.Call)
		if !ok {
			return true
		}
		cc, callee := CallTo(cl)
		if !IsIterMethod(callee, "At") {
			return true
		}
		arg := Arg(cc, callee, 0)
		l := LinEval(arg, func(v ssa.Value) (Lin, bool) {
			if a, isBound := bind[v]; isBound {
				inner := LinEval(a, counterSym)
				if inner.Bad {
					return Lin{Bad: true}, true
				}
				return inner, true
			}
			return counterSym(v)
		})
		if !l.Bad && len(l.Coef) == 1 {
			res = append(res, l.K)
			return false
		}
		return true // e.g. At(indices.At(i+k)): descend
	})
	if len(res) == 0 {
		return 0, false
	}
	for _, r := range res[1:] {
		if r != res[0] {
			return 0, false
		}
	}
	return res[0], true
}

func faceCorners(e *Env, fn *ssa.Function, construct string, lists []faceList) {
	for li, l := range lists {
		per := int64(1)
		if li > 0 {
			per = 2
		}
		if l.Count%per != 0 {
			e.Violate(fn, "AXIS-3", fmt.Sprintf("%s/list%d", construct, li), l.Items[0].In.Pos(), "item count is not a multiple of the component count")
			continue
		}
		bad := ""
		var facts []string
		for k, it := range l.Items {
			corner, ok := cornerOf(e, it.Val)
			if it.InnerVal != nil {
				corner, ok = cornerOfBound(e, it.InnerVal, it.Bind)
			}
			wantCorner := int64(k) / per
			if !ok {
				bad = fmt.Sprintf("cannot see which corner item %d comes from", k)
				break
			}
			if corner != wantCorner {
				bad = fmt.Sprintf("item %d comes from corner %d, expected corner %d", k, corner, wantCorner)
			}
			if per == 2 {
				got := accessorsIn(it.Val)
				if it.InnerVal != nil {
					got = accessorsIn(it.InnerVal)
				}
				want := AxisOrder[k%2]
				if len(got) != 1 || got[0] != want {
					bad = fmt.Sprintf("item %d carries component [%s], expected %s", k, strings.Join(got, ","), want)
				}
				facts = append(facts, fmt.Sprintf("item %d = corner %d .%s", k, corner, want))
			} else {
				facts = append(facts, fmt.Sprintf("item %d = corner %d", k, corner))
			}
		}
		c := fmt.Sprintf("%s/list%d", construct, li)
		if bad != "" {
			e.Violate(fn, "AXIS-3", c, l.Items[0].In.Pos(), bad+": corners / components of a face are permuted on disk", facts...)
		} else {
			e.Hold(fn, "AXIS-3", c, l.Items[0].In.Pos(), facts...)
		}
	}
}

// FaceAscii decides the ordinal / component order of the ASCII face lines and
// that the literal counts agree with the numbers that follow.
func FaceAscii(e *Env) {
	fn := e.Fn("writeAsciiTriTopo")
	if fn == nil {
		return
	}
	name := e.Name(fn)
	isTxt := func(callee *types.Func, m string) bool {
		return ssau.IsMethod(callee, load_txt, "Writer", m)
	}
	loops := e.Loops(fn)
	if len(loops) == 0 {
		e.Undecide(fn, "AXIS-3", name, fn.Pos(), "no face loop found")
		return
	}
	sawTex, sawPlain := false, false
	for li, l := range loops {
		construct := fmt.Sprintf("%s/loop#%d", name, li+1)
		paths, okPaths := loopPaths(l, 64)
		if !okPaths || len(paths) == 0 {
			e.Undecide(fn, "AXIS-3", construct, l.Header.Instrs[0].Pos(), "too many paths through the face loop")
			continue
		}
		bad := ""
		var facts []string
		var pos token.Pos
		for _, p := range paths {
			// the text sink calls of this path, in execution order
			var calls []*ssa.Call
			for _, b := range p.blocks {
				for _, in := range b.Instrs {
					if cl, ok := in.(*ssa.Call); ok {
						if _, callee := CallTo(cl); callee != nil && ssau.IsMethod(callee, load_txt, "Writer", callee.Name()) {
							calls = append(calls, cl)
						}
					}
				}
			}
			if len(calls) == 0 {
				continue // e.g. an error / skip path that writes nothing
			}
			if !pos.IsValid() {
				pos = calls[0].Pos()
			}
			// is this path taken with / without texture coordinates?
			texKnown, hasTex := texCondAt(append(append([]Lit{}, p.lits...), CondsAt(l.Header)...))
			type seg struct {
				n     int64
				items []string
			}
			var segs []seg
			newlines := 0
			for _, cl := range calls {
				cc, callee := CallTo(cl)
				switch {
				case isTxt(callee, "String"):
					sv, ok := ConstStr(cc.Args[1])
					f := strings.Fields(sv)
					if !ok || len(f) != 1 {
						bad = "a text literal on the face line is not a single count token"
						continue
					}
					n, err := strconv.ParseInt(f[0], 10, 64)
					if err != nil {
						bad = "a text literal on the face line is not a number"
						continue
					}
					segs = append(segs, seg{n: n})
				case isTxt(callee, "Int"):
					if len(segs) == 0 {
						bad = "a number precedes the list count"
						continue
					}
					_, c2 := CallTo(cc.Args[1])
					item := "?"
					if c2 != nil && ssau.IsMethod(c2, ModelingPath, "Tri", c2.Name()) {
						item = c2.Name()
					}
					segs[len(segs)-1].items = append(segs[len(segs)-1].items, item)
				case isTxt(callee, "Float64"):
					if len(segs) == 0 {
						bad = "a number precedes the list count"
						continue
					}
					ax := accessorsIn(cc.Args[1])
					corner := "?"
					BackSlice(cc.Args[1], func(v ssa.Value) bool {
						if _, c2 := CallTo(v); c2 != nil && ssau.IsMethod(c2, ModelingPath, "Tri", c2.Name()) {
							if m := reTriAttr.FindStringSubmatch(c2.Name()); m != nil {
								corner = "P" + m[1]
							}
						}
						return true
					})
					segs[len(segs)-1].items = append(segs[len(segs)-1].items, corner+"."+strings.Join(ax, "|"))
				case isTxt(callee, "NewLine"):
					newlines++
				}
			}
			var pf []string
			for si, sg := range segs {
				pf = append(pf, fmt.Sprintf("%d: %s", sg.n, strings.Join(sg.items, " ")))
				if int64(len(sg.items)) != sg.n {
					bad = fmt.Sprintf("list %d announces %d items, %d numbers follow", si, sg.n, len(sg.items))
				}
				var want []string
				if si == 0 {
					want = []string{"P1", "P2", "P3"}
				} else {
					want = []string{"P1.X", "P1.Y", "P2.X", "P2.Y", "P3.X", "P3.Y"}
				}
				if strings.Join(sg.items, " ") != strings.Join(want, " ") {
					bad = fmt.Sprintf("list %d is written as [%s], expected [%s]", si, strings.Join(sg.items, " "), strings.Join(want, " "))
				}
			}
			if newlines != 1 {
				bad = fmt.Sprintf("%d line breaks per face (expected 1): the reader consumes one line per face", newlines)
			}
			// the texcoord list is written exactly when the header declares it
			switch {
			case len(segs) == 2 && !(texKnown && hasTex):
				bad = "a face line with a texture-coordinate list is written on a path not guarded by HasFloat2Attribute(TexCoord), the condition under which the header declares that list"
			case len(segs) == 1 && texKnown && hasTex:
				bad = "a face line without the texture-coordinate list is written although the header declares it (HasFloat2Attribute(TexCoord) holds on this path)"
			case len(segs) == 0 || len(segs) > 2:
				bad = fmt.Sprintf("%d lists on a face line (expected 1 or 2)", len(segs))
			}
			if len(segs) == 2 {
				sawTex = true
			} else if len(segs) == 1 {
				sawPlain = true
			}
			facts = append(facts, strings.Join(pf, " | "))
		}
		sort.Strings(facts)
		if !pos.IsValid() {
			pos = l.Header.Instrs[0].Pos()
		}
		if bad != "" {
			e.Violate(fn, "AXIS-3", construct, pos, bad, facts...)
		} else {
			e.Hold(fn, "AXIS-3", construct, pos, facts...)
		}
	}
	if !sawTex || !sawPlain {
		e.Violate(fn, "HDR-1", name+"/texcoord-list", fn.Pos(), "the ASCII face writer does not have both forms of a face line (with and without the texture-coordinate list the header may declare)")
	} else {
		e.Hold(fn, "HDR-1", name+"/texcoord-list", fn.Pos(), "texcoord list written exactly under HasFloat2Attribute(TexCoord)")
	}
}

const load_txt = "github.com/EliCDavis/polyform/formats/txt"
