package plycommon

import (
	"fmt"
	"go/token"
	"go/types"
	"strings"

	"golang.org/x/tools/go/ssa"

	"polycheck/ssau"
)

// appendWeb: does value `from` flow (through append / phi / slice) into `to`?
func flowsInto(from, to ssa.Value) bool {
	seen := map[ssa.Value]bool{}
	var walk func(v ssa.Value) bool
	walk = func(v ssa.Value) bool {
		if v == from {
			return true
		}
		if seen[v] {
			return false
		}
		seen[v] = true
		switch x := v.(type) {
		case *ssa.Phi:
			for _, ed := range x.Edges {
				if walk(ed) {
					return true
				}
			}
		case *ssa.Call:
			if ssau.Builtin(x) == "append" {
				for _, a := range x.Common().Args {
					if walk(a) {
						return true
					}
				}
			}
		case *ssa.Slice:
			return walk(x.X)
		case *ssa.Alloc:
			// varargs array: elements stored into it
			for _, r := range ssau.Refs(x) {
				if ia, ok := r.(*ssa.IndexAddr); ok {
					if ssa.Value(ia) == from {
						return true
					}
					for _, rr := range ssau.Refs(ia) {
						if st, ok := rr.(*ssa.Store); ok && st.Addr == ia && walk(st.Val) {
							return true
						}
					}
				}
			}
		case *ssa.MakeInterface:
			return walk(x.X)
		case *ssa.ChangeInterface:
			return walk(x.X)
		case *ssa.ChangeType:
			return walk(x.X)
		case *ssa.Convert:
			return walk(x.X)
		case *ssa.TypeAssert:
			return walk(x.X)
		case *ssa.Extract:
			return walk(x.Tuple)
		case *ssa.UnOp:
			if x.Op == token.MUL {
				return walk(x.X)
			}
		}
		return false
	}
	return walk(to)
}

// meshCall: v is a call of modeling.Mesh.<name>; returns the call.
func meshCall(v ssa.Value, name string) *ssa.Call {
	v = StripConv(v)
	c, ok := v.(*ssa.Call)
	if !ok {
		return nil
	}
	if _, callee := CallTo(c); IsMeshMethod(callee, name) {
		return c
	}
	return nil
}

// loopBound: the value a unit/strided counter is compared against with `<`.
func loopBound(c *Counter) (bound ssa.Value, op token.Token) {
	h := c.Loop.Header
	n := len(h.Instrs)
	if n == 0 {
		return nil, token.ILLEGAL
	}
	iff, ok := h.Instrs[n-1].(*ssa.If)
	if !ok {
		return nil, token.ILLEGAL
	}
	b, ok := iff.Cond.(*ssa.BinOp)
	if !ok {
		return nil, token.ILLEGAL
	}
	if b.X == c.Phi {
		// i <= n-1  ≡  i < n
		if b.Op == token.LEQ {
			if sub, ok := b.Y.(*ssa.BinOp); ok && sub.Op == token.SUB {
				if k, isK := ssau.ConstInt(sub.Y); isK && k == 1 {
					return sub.X, token.LSS
				}
			}
		}
		return b.Y, b.Op
	}
	// n > i  ≡  i < n
	if b.Y == c.Phi && b.Op == token.GTR {
		return b.X, token.LSS
	}
	return nil, token.ILLEGAL
}

func counterStep(c *Counter) (init, step int64, ok bool) {
	if len(c.Init) != 1 {
		return 0, 0, false
	}
	init, ok = ssau.ConstInt(c.Init[0])
	if !ok {
		return 0, 0, false
	}
	for i, lf := range c.Latch {
		bo, isB := lf.V.(*ssa.BinOp)
		if !isB || bo.Op != token.ADD || bo.X != c.Phi {
			return 0, 0, false
		}
		k, isK := ssau.ConstInt(bo.Y)
		if !isK || (i > 0 && k != step) {
			return 0, 0, false
		}
		step = k
	}
	return init, step, len(c.Latch) > 0
}

// HDR2 decides the header/body pairing of MeshWriter.Write (DESIGN §4 C04 (c)).
func HDR2(e *Env, ft *FormatTokens) {
	const rule = "HDR-2"
	fn := e.Fn("MeshWriter.Write")
	if fn == nil {
		return
	}
	name := e.Name(fn)
	// --- (a) properties and built writers come from the same description ---
	var builds, propsCalls []*ssa.Call
	var bodyWrites []*ssa.Call
	ssau.AllInstrs(fn, func(in ssa.Instruction) {
		c, ok := in.(*ssa.Call)
		if !ok || !c.Common().IsInvoke() {
			return
		}
		m := c.Common().Method
		if m.Pkg() == nil || m.Pkg().Path() != PlyPath {
			return
		}
		switch {
		case m.Name() == "build" && ssau.IsNamed(c.Common().Value.Type(), PlyPath, "PropertyWriter"):
			builds = append(builds, c)
		case m.Name() == "Properties" && ssau.IsNamed(c.Common().Value.Type(), PlyPath, "PropertyWriter"):
			propsCalls = append(propsCalls, c)
		case m.Name() == "Write" && ssau.IsNamed(c.Common().Value.Type(), PlyPath, "builtPropertyWriter"):
			bodyWrites = append(bodyWrites, c)
		}
	})
	// the vertex element literal: the Element that receives the result of Properties();
	// the face element: the one whose Count is PrimitiveCount()
	var vertexEl, faceEl ssa.Value
	var vertexCount, faceCount *ssa.Call
	for _, a := range literalSites(fn, func(t *types.Named) bool { return t.Obj().Name() == "Element" && t.Obj().Pkg().Path() == PlyPath }) {
		st := fieldStores(a)
		isVertex := false
		if s := st["Properties"]; len(s) == 1 {
			for _, p := range propsCalls {
				if flowsInto(p, s[0].Val) {
					isVertex = true
				}
			}
		}
		if s := st["Count"]; len(s) == 1 {
			if isVertex {
				vertexEl, vertexCount = a, meshCall(s[0].Val, "AttributeLength")
			} else if c := meshCall(s[0].Val, "PrimitiveCount"); c != nil {
				faceEl, faceCount = a, c
			} else if c := meshCall(s[0].Val, "AttributeLength"); c != nil && vertexEl == nil {
				vertexEl, vertexCount = a, c
			}
		}
	}
	pairC := name + "/pairing"
	switch {
	case len(builds) != 1 || len(propsCalls) != 1:
		e.Undecide(fn, rule, pairC, fn.Pos(), fmt.Sprintf("expected one build() and one Properties() call on the property writers, found %d and %d", len(builds), len(propsCalls)))
	default:
		b, p := builds[0], propsCalls[0]
		loops := e.Loops(fn)
		lb, lp := ssau.InnermostLoop(loops, b.Block()), ssau.InnermostLoop(loops, p.Block())
		bad := ""
		sameRecv := b.Common().Value == p.Common().Value
		if !sameRecv {
			// two loops over the same slice are equally fine
			ib, okb := loadOfIndex(b.Common().Value)
			ip, okp := loadOfIndex(p.Common().Value)
			if !(okb && okp && ib.X == ip.X) {
				bad = "build() and Properties() are called on different property writers: the header lists properties the body does not write"
			}
		}
		if lb == nil || lp == nil {
			bad = "build()/Properties() are not called in a loop over the writers"
		} else {
			for _, pair := range []struct {
				c *ssa.Call
				l *ssau.Loop
			}{{b, lb}, {p, lp}} {
				for _, latch := range pair.l.Latch {
					if !pair.c.Block().Dominates(latch) {
						bad = "a writer can be skipped by " + pair.c.Common().Method.Name() + "() but not by its sibling call: header and body get out of step"
					}
				}
			}
			if sameRecv && lb != lp {
				bad = "build() and Properties() of one writer happen in different loops"
			}
		}
		// where the results go
		if bad == "" {
			okBody := false
			for _, w := range bodyWrites {
				if ia, ok := loadOfIndex(w.Common().Value); ok && flowsInto(b, ia.X) {
					okBody = true
				}
			}
			if !okBody {
				bad = "the writers built by build() are not the ones whose Write produces the body"
			}
			okHdr := false
			if vertexEl != nil {
				if s := fieldStores(vertexEl)["Properties"]; len(s) == 1 && flowsInto(p, s[0].Val) {
					okHdr = true
				}
			}
			if !okHdr && bad == "" {
				bad = "the result of Properties() does not become the vertex element's property list"
			}
		}
		if bad != "" {
			e.Violate(fn, rule, pairC, b.Pos(), bad)
		} else {
			e.Hold(fn, rule, pairC, b.Pos(), "build() and Properties() on the same writer, unconditionally, in one loop; results feed the body loop and the vertex element")
		}
	}
	// --- (b) vertex count = bound of the body loop ---
	vc := name + "/vertex-count"
	switch {
	case vertexCount == nil:
		pos := fn.Pos()
		if vertexEl != nil {
			pos = sitePos(vertexEl)
		}
		e.Violate(fn, rule, vc, pos, "the vertex element's Count is not Mesh.AttributeLength(): header count and number of vertex records differ")
	case len(bodyWrites) != 1:
		e.Undecide(fn, rule, vc, fn.Pos(), fmt.Sprintf("expected one builtPropertyWriter.Write call site, found %d", len(bodyWrites)))
	default:
		w := bodyWrites[0]
		idx := Arg(w.Common(), w.Common().Method, 1)
		phi, _ := StripConv(idx).(*ssa.Phi)
		var c *Counter
		if phi != nil {
			c = e.CounterOf(phi)
		}
		bad := ""
		if c == nil {
			bad = "the record index passed to Write is not a loop counter"
		} else {
			init, step, ok := counterStep(c)
			bound, op := loopBound(c)
			bc := meshCall(bound, "AttributeLength")
			switch {
			case !ok || init != 0 || step != 1:
				bad = fmt.Sprintf("record index runs from %d in steps of %d (expected 0, 1)", init, step)
			case op != token.LSS:
				bad = "body loop is not `i < count`"
			case bc == nil:
				bad = "body loop is bounded by something other than Mesh.AttributeLength(), the value the header declares"
			case RecvArg(bc.Common()) != RecvArg(vertexCount.Common()):
				bad = "header count and body bound are AttributeLength() of different meshes"
			}
		}
		if bad != "" {
			e.Violate(fn, rule, vc, w.Pos(), bad)
		} else {
			e.Hold(fn, rule, vc, w.Pos(), "Count = int64(mesh.AttributeLength()); body: for i := 0; i < mesh.AttributeLength(); i++ { every built writer .Write(out, i) }")
		}
	}
	// --- (c) face count / face record loops ---
	fc := name + "/face-count"
	if faceCount == nil {
		pos := fn.Pos()
		if faceEl != nil {
			pos = sitePos(faceEl)
		}
		e.Violate(fn, rule, fc, pos, "no element whose Count is Mesh.PrimitiveCount(): the face count in the header is not the number of face records")
	} else {
		// declared only for triangle topology, and the face writers run under the same condition
		declTri, declPol := topoCond(CondsAt(siteBlock(faceEl)))
		bad := ""
		if !declTri || !declPol {
			bad = "the face element is not declared exactly when Topology() == TriangleTopology"
		}
		for _, callee := range []string{"writeAsciiTriTopo", "writeBinaryTriTopo"} {
			found := false
			ssau.AllInstrs(fn, func(in ssa.Instruction) {
				c, ok := in.(*ssa.Call)
				if !ok {
					return
				}
				if _, cal := CallTo(c); cal != nil && cal.Name() == callee && cal.Pkg().Path() == PlyPath {
					found = true
					isTri, pol := topoCond(CondsAt(c.Block()))
					if !isTri || !pol {
						bad = callee + " is not called exactly when Topology() == TriangleTopology (the condition under which the face element is declared)"
					}
				}
			})
			if !found {
				bad = "no call of " + callee
			}
		}
		if bad != "" {
			e.Violate(fn, rule, fc, sitePos(faceEl), bad)
		} else {
			e.Hold(fn, rule, fc, sitePos(faceEl), "face element declared with Count = PrimitiveCount() iff Topology() == TriangleTopology; both face writers called under the same condition")
		}
	}
	faceLoops(e)
	// --- (d) one format value everywhere ---
	fd := name + "/format"
	bad := ""
	var facts []string
	isMwFormat := func(v ssa.Value) bool {
		f := recvFieldLoad(fn, v)
		return f != nil && f.Name() == "Format"
	}
	for _, b := range builds {
		if !isMwFormat(Arg(b.Common(), b.Common().Method, 1)) {
			bad = "build() is given a format other than the writer's Format field"
		}
	}
	for _, a := range literalSites(fn, func(t *types.Named) bool { return t.Obj().Name() == "Header" && t.Obj().Pkg().Path() == PlyPath }) {
		if s := fieldStores(a)["Format"]; len(s) != 1 || !isMwFormat(s[0].Val) {
			bad = "the header's Format is not the writer's Format field"
		} else {
			facts = append(facts, "Header.Format = mw.Format")
		}
	}
	if ft.OK {
		for _, sw := range EnumSwitches(fn, IsNamedPly("Format")) {
			if !isMwFormat(sw.Tag) {
				continue
			}
			for _, c := range sw.Consts() {
				region := sw.Region(c)
				for _, b := range fn.Blocks {
					if !region[b] {
						continue
					}
					for _, in := range b.Instrs {
						cl, ok := in.(*ssa.Call)
						if !ok {
							continue
						}
						_, cal := CallTo(cl)
						if cal == nil || cal.Pkg() == nil || cal.Pkg().Path() != PlyPath {
							continue
						}
						switch cal.Name() {
						case "writeAsciiTriTopo":
							if c != ft.Ascii {
								bad = "ASCII face lines are written for a binary format"
							} else {
								facts = append(facts, "ASCII faces ⇐ format == ASCII")
							}
						case "writeBinaryTriTopo":
							if c == ft.Ascii {
								bad = "binary face records are written for the ASCII format"
							} else {
								facts = append(facts, "binary faces ⇐ format == "+e.ConstTable("Format")[c])
							}
							if !isMwFormat(cl.Common().Args[2]) {
								bad = "writeBinaryTriTopo is given a format other than the writer's Format field"
							}
						}
					}
				}
			}
			// every binary constant must reach the binary face writer, ASCII the ASCII one
			reach := func(c string, callee string) bool {
				region := sw.Region(c)
				ok := false
				for _, b := range fn.Blocks {
					if region[b] {
						for _, in := range b.Instrs {
							if cl, isC := in.(*ssa.Call); isC {
								if _, cal := CallTo(cl); cal != nil && cal.Name() == callee {
									ok = true
								}
							}
						}
					}
				}
				return ok
			}
			hasFaceCall := false
			for _, c := range sw.Consts() {
				if reach(c, "writeAsciiTriTopo") || reach(c, "writeBinaryTriTopo") {
					hasFaceCall = true
				}
			}
			if hasFaceCall {
				if !reach(ft.Ascii, "writeAsciiTriTopo") || !reach(ft.Big, "writeBinaryTriTopo") || !reach(ft.Little, "writeBinaryTriTopo") {
					bad = "not every format reaches its face writer: a triangle mesh is written without its declared face records"
				}
			}
		}
	}
	if bad != "" {
		e.Violate(fn, rule, fd, fn.Pos(), bad+": header and body are produced for different encodings", facts...)
	} else {
		e.Hold(fn, rule, fd, fn.Pos(), facts...)
	}
	// builders choose ASCII vs binary by the same test
	for _, n := range []string{"Vector1PropertyWriter.build", "Vector2PropertyWriter.build", "Vector3PropertyWriter.build", "Vector4PropertyWriter.build"} {
		bf := e.Fn(n)
		if bf == nil || !ft.OK {
			continue
		}
		construct := e.Name(bf) + "/format"
		bad := ""
		nsites := 0
		for _, a := range literalSites(bf, func(t *types.Named) bool {
			_, isSt := t.Underlying().(*types.Struct)
			return isSt && t.Obj().Pkg() != nil && t.Obj().Pkg().Path() == PlyPath
		}) {
			named := siteNamed(a)
			st, _ := named.Underlying().(*types.Struct)
			if st == nil || structDim(st) == 0 {
				continue
			}
			nsites++
			isBin := hasByteOrderField(st)
			// literal of the ASCII writer must be under format == ASCII, binary under != ASCII
			found := false
			for _, c := range CondsAt(siteBlock(a)) {
				x, k, eq, ok := c.EqConst()
				if !ok || !IsNamedPly("Format")(x.Type()) {
					continue
				}
				if s, _ := ConstStr(k); s == ft.Ascii {
					found = true
					if eq == isBin {
						bad = named.Obj().Name() + " is built for the wrong encoding"
					}
				}
			}
			if !found {
				bad = named.Obj().Name() + " is built without testing format against ASCII"
			}
		}
		if nsites != 2 {
			e.Undecide(bf, rule, construct, bf.Pos(), fmt.Sprintf("expected an ASCII and a binary writer literal, found %d", nsites))
		} else if bad != "" {
			e.Violate(bf, rule, construct, bf.Pos(), bad+": the body is written in an encoding the header does not announce")
		} else {
			e.Hold(bf, rule, construct, bf.Pos(), "ASCII writer ⇐ format == ASCII, binary writer otherwise")
		}
	}
}

func loadOfIndex(v ssa.Value) (*ssa.IndexAddr, bool) {
	u, ok := v.(*ssa.UnOp)
	if !ok || u.Op != token.MUL {
		return nil, false
	}
	ia, ok := u.X.(*ssa.IndexAddr)
	return ia, ok
}

// topoCond: the literals contain Topology() ==/!= TriangleTopology; returns (found, isTriangle).
func topoCond(conds []Lit) (bool, bool) {
	for _, c := range conds {
		x, k, eq, ok := c.EqConst()
		if !ok || meshCall(x, "Topology") == nil {
			continue
		}
		if v, isInt := ssau.ConstInt(k); isInt && v == triangleTopologyValue {
			return true, eq
		}
	}
	return false, false
}

// TriangleTopology is the zero value of modeling.Topology; read from the type-checked package.
var triangleTopologyValue int64 = 0

func (e *Env) initTopology() {
	pk := e.P.Pkg("modeling")
	if pk == nil {
		e.R.Failf("anchor package modeling not found")
		return
	}
	c, ok := pk.Types.Scope().Lookup("TriangleTopology").(*types.Const)
	if !ok {
		e.R.Failf("anchor modeling.TriangleTopology not found")
		return
	}
	if v, exact := constantInt(c); exact {
		triangleTopologyValue = v
	}
}

// faceLoops: each face writer emits one record per primitive.
func faceLoops(e *Env) {
	const rule = "HDR-2"
	if fn := e.Fn("writeBinaryTriTopo"); fn != nil {
		name := e.Name(fn)
		n := 0
		for _, l := range e.Loops(fn) {
			// the counter compared in the header
			var c *Counter
			for _, in := range l.Header.Instrs {
				if phi, ok := in.(*ssa.Phi); ok {
					if cc := e.CounterOf(phi); cc != nil {
						if b, _ := loopBound(cc); b != nil {
							c = cc
						}
					}
				}
			}
			if c == nil {
				continue
			}
			n++
			construct := fmt.Sprintf("%s/loop#%d", name, n)
			init, step, ok := counterStep(c)
			bound, op := loopBound(c)
			bad := ""
			isLen := false
			if cl, isCall := bound.(*ssa.Call); isCall {
				cc, callee := CallTo(cl)
				if IsIterMethod(callee, "Len") {
					if src := iterSource(RecvArg(cc)); src != nil {
						if _, sc := CallTo(src); IsMeshMethod(sc, "Indices") {
							isLen = true
						}
					}
				}
			}
			switch {
			case !ok || init != 0:
				bad = "face loop does not start at 0 with a constant stride"
			case op != token.LSS:
				bad = "face loop is not `i < bound`"
			case isLen && step != 3:
				bad = fmt.Sprintf("face loop walks the index array in steps of %d: it emits Len()/%d records, the header declares PrimitiveCount() = Len()/3", step, step)
			case !isLen && (meshCall(bound, "PrimitiveCount") == nil || step != 1):
				bad = "face loop is bounded neither by Indices().Len() (stride 3) nor by PrimitiveCount() (stride 1)"
			}
			// exactly one record per iteration
			sinks := 0
			for _, b := range fn.Blocks {
				if !l.Blocks[b] {
					continue
				}
				for _, in := range b.Instrs {
					if cl, isC := in.(*ssa.Call); isC && cl.Common().IsInvoke() && cl.Common().Method.Name() == "Write" && ssau.IsNamed(cl.Common().Value.Type(), "io", "Writer") {
						sinks++
						for _, latch := range l.Latch {
							if !b.Dominates(latch) {
								bad = "the record write can be skipped on the way to the next face"
							}
						}
					}
				}
			}
			if sinks != 1 && bad == "" {
				bad = fmt.Sprintf("%d record writes per iteration (expected 1)", sinks)
			}
			if bad != "" {
				e.Violate(fn, rule, construct, c.Phi.Pos(), bad)
			} else {
				e.Hold(fn, rule, construct, c.Phi.Pos(), fmt.Sprintf("i from 0 step %d while i < bound, one out.Write per iteration ⇒ PrimitiveCount() records", step))
			}
		}
		if n < 1 {
			e.Undecide(fn, rule, name+"/loops", fn.Pos(), "no face loop found")
		}
	}
	if fn := e.Fn("writeAsciiTriTopo"); fn != nil {
		name := e.Name(fn)
		n := 0
		for _, l := range e.Loops(fn) {
			var c *Counter
			for _, in := range l.Header.Instrs {
				if phi, ok := in.(*ssa.Phi); ok {
					if cc := e.CounterOf(phi); cc != nil {
						if b, _ := loopBound(cc); b != nil {
							c = cc
						}
					}
				}
			}
			if c == nil {
				continue
			}
			n++
			construct := fmt.Sprintf("%s/loop#%d/count", name, n)
			init, step, ok := counterStep(c)
			bound, op := loopBound(c)
			bad := ""
			switch {
			case !ok || init != 0 || step != 1 || op != token.LSS:
				bad = "face loop is not `for i := 0; i < n; i++`"
			case meshCall(bound, "PrimitiveCount") == nil:
				bad = "face loop is not bounded by PrimitiveCount(), the count the header declares"
			}
			// Tri(i) with the loop counter
			okTri := false
			for _, b := range fn.Blocks {
				if !l.Blocks[b] {
					continue
				}
				for _, in := range b.Instrs {
					if cl, isC := in.(*ssa.Call); isC {
						if cc, callee := CallTo(cl); IsMeshMethod(callee, "Tri") {
							if StripConv(Arg(cc, callee, 0)) == c.Phi {
								okTri = true
							} else {
								bad = "face i is not built from Tri(i)"
							}
						}
					}
				}
			}
			if !okTri && bad == "" {
				bad = "no Tri(i) in the face loop"
			}
			if bad != "" {
				e.Violate(fn, rule, construct, c.Phi.Pos(), bad)
			} else {
				e.Hold(fn, rule, construct, c.Phi.Pos(), "for i := 0; i < PrimitiveCount(); i++ { Tri(i) … one line }")
			}
		}
		if n < 1 {
			e.Undecide(fn, rule, name+"/loops", fn.Pos(), "no face loop found")
		}
	}
}

func constantInt(c *types.Const) (int64, bool) {
	s := c.Val().ExactString()
	var v int64
	_, err := fmt.Sscan(strings.TrimSpace(s), &v)
	return v, err == nil
}
