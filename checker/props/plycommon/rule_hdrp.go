package plycommon

import (
	"fmt"
	"go/token"
	"go/types"
	"strings"

	"golang.org/x/tools/go/ssa"

	"polycheck/ssau"
)

func isStringType(t types.Type) bool {
	b, ok := t.Underlying().(*types.Basic)
	return ok && b.Kind() == types.String
}

// fromLineReader: v is the text result of a call of readLine / scanToNextNonEmptyLine.
func fromLineReader(v ssa.Value) bool {
	ex, ok := v.(*ssa.Extract)
	if !ok || ex.Index != 0 {
		return false
	}
	_, callee := CallTo(ex.Tuple)
	return callee != nil && callee.Pkg() != nil && callee.Pkg().Path() == PlyPath && (callee.Name() == "readLine" || callee.Name() == "scanToNextNonEmptyLine")
}

// HDRP1 decides the header-parser clauses of C08.
func HDRP1(e *Env) {
	const rule = "HDRP-1"
	// ---- (1) readLine drops carriage returns -------------------------------
	if fn := e.Fn("readLine"); fn != nil {
		name := e.Name(fn)
		writes := 0
		bad := ""
		ssau.AllInstrs(fn, func(in ssa.Instruction) {
			cl, ok := in.(*ssa.Call)
			if !ok {
				return
			}
			_, callee := CallTo(cl)
			if callee == nil || callee.Pkg() == nil {
				return
			}
			p := callee.Pkg().Path()
			if !((p == "strings" || p == "bytes") && strings.HasPrefix(callee.Name(), "Write")) {
				return
			}
			writes++
			okCR := false
			for _, l := range CondsAt(cl.Block()) {
				_, k, eq, ok := l.EqConst()
				if !ok {
					continue
				}
				if v, isInt := ssau.ConstInt(k); isInt && v == 13 && !eq {
					okCR = true
				}
			}
			if !okCR {
				bad = "a byte is kept in the line without first excluding '\\r'"
			}
		})
		// alternative idiom: the returned text goes through a trim of "\r"
		trimmed := false
		ssau.AllInstrs(fn, func(in ssa.Instruction) {
			if cl, ok := in.(*ssa.Call); ok {
				cc, callee := CallTo(cl)
				if callee != nil && callee.Pkg() != nil && callee.Pkg().Path() == "strings" && strings.HasPrefix(callee.Name(), "Trim") {
					if callee.Name() == "TrimSpace" {
						trimmed = true
					}
					for _, a := range cc.Args {
						if s, ok := ConstStr(a); ok && strings.Contains(s, "\r") {
							trimmed = true
						}
					}
				}
			}
		})
		switch {
		case bad != "" && !trimmed:
			e.Violate(fn, rule, name+"/CR", fn.Pos(), bad+": with CRLF line endings \"end_header\\r\" never equals \"end_header\" and type names carry a trailing \\r")
		case writes == 0 && !trimmed:
			e.Undecide(fn, rule, name+"/CR", fn.Pos(), "cannot see how the line text is accumulated")
		default:
			e.Hold(fn, rule, name+"/CR", fn.Pos(), fmt.Sprintf("%d accumulation site(s), each on the `byte != '\\r'` side", writes))
		}
	}
	// ---- (2) ReadHeader ------------------------------------------------------
	fn := e.Fn("ReadHeader")
	if fn == nil {
		return
	}
	name := e.Name(fn)
	var sw *EnumSwitch
	for _, s := range EnumSwitches(fn, isStringType) {
		has := map[string]bool{}
		for _, c := range s.Consts() {
			has[c] = true
		}
		if has["element"] || has["property"] || has["comment"] {
			if sw != nil {
				// two separate chains: the arms are not decided on one value
				e.Violate(fn, rule, name+"/arms", s.Cases[0].Cmp.Pos(), "the comment / element / property arms are not equality tests of one and the same token: a comment line mentioning 'property' or 'element' can be mis-parsed")
				return
			}
			sw = s
		}
	}
	if sw == nil {
		e.Undecide(fn, rule, name+"/arms", fn.Pos(), "no dispatch on the first token of a header line found")
		return
	}
	// the tag is strings.Fields(line)[0], line from readLine
	var fieldsCall *ssa.Call
	okTag := false
	if u, ok := sw.Tag.(*ssa.UnOp); ok && u.Op == token.MUL {
		if ia, ok := u.X.(*ssa.IndexAddr); ok {
			if k, isK := ssau.ConstInt(ia.Index); isK && k == 0 {
				if cl, ok := ia.X.(*ssa.Call); ok {
					if _, callee := CallTo(cl); ssau.IsFunc(callee, "strings", "Fields") && fromLineReader(cl.Common().Args[0]) {
						fieldsCall, okTag = cl, true
					}
				}
			}
		}
	}
	has := map[string]bool{}
	for _, c := range sw.Consts() {
		has[c] = true
	}
	var facts []string
	bad := ""
	switch {
	case !okTag:
		bad = "the dispatch value is not the first whitespace-separated token of a line obtained from readLine (which strips \\r)"
	case !has["element"] || !has["property"]:
		bad = "no arm for 'element' / 'property' on the first token"
	}
	if bad == "" {
		facts = append(facts, "arms {"+strings.Join(sw.Consts(), ",")+"} are equality tests on strings.Fields(readLine())[0]: at most one arm per line, comment/obj_info lines cannot enter element/property")
		// default (obj_info, unknown keywords): goes back to the loop without side effects
		d := sw.Default
		loops := e.Loops(fn)
		l := ssau.InnermostLoop(loops, sw.Head())
		if l == nil {
			bad = "header lines are not parsed in a loop"
		} else {
			steps := 0
			for d != l.Header && steps < 4 {
				clean := true
				for _, in := range d.Instrs {
					switch in.(type) {
					case *ssa.Jump, *ssa.DebugRef:
					default:
						clean = false
					}
				}
				if !clean || len(d.Succs) != 1 {
					break
				}
				d = d.Succs[0]
				steps++
			}
			if d != l.Header {
				bad = "a line whose keyword matches no arm (obj_info …) is not simply skipped"
			} else {
				facts = append(facts, "unknown keywords (obj_info) fall back to the loop head")
			}
		}
	}
	if bad == "" {
		// blank line guard before token [0]
		okBlank := false
		for _, l := range CondsAt(sw.Head()) {
			x, k, eq, ok := l.EqConst()
			if ok && !eq {
				if s, isS := ConstStr(k); isS && s == "" {
					if cl, isC := x.(*ssa.Call); isC {
						if _, callee := CallTo(cl); ssau.IsFunc(callee, "strings", "TrimSpace") {
							okBlank = true
						}
					}
				}
			}
			if b, isB := l.V.(*ssa.BinOp); isB {
				if cl, isC := b.X.(*ssa.Call); isC && ssau.Builtin(cl) == "len" && cl.Common().Args[0] == ssa.Value(fieldsCall) {
					if k, isK := ssau.ConstInt(b.Y); isK && ((b.Op == token.EQL && k == 0 && !l.Pos) || (b.Op == token.GTR && k == 0 && l.Pos) || (b.Op == token.NEQ && k == 0 && l.Pos)) {
						okBlank = true
					}
				}
			}
		}
		if !okBlank {
			bad = "token [0] of a line is read without first excluding blank lines (index out of range on an empty line)"
		} else {
			facts = append(facts, "blank lines skipped before tokenising")
		}
	}
	if bad != "" {
		e.Violate(fn, rule, name+"/arms", sw.Cases[0].Cmp.Pos(), bad, facts...)
	} else {
		e.Hold(fn, rule, name+"/arms", sw.Cases[0].Cmp.Pos(), facts...)
	}
	// ---- (3) property attaches to the LAST element ---------------------------
	if has["property"] && okTag {
		region := sw.Region("property")
		construct := name + "/property→last-element"
		isElements := func(v ssa.Value) bool {
			_, f := LoadedField(v)
			return f != nil && f.Name() == "Elements"
		}
		lastForm := func(idx ssa.Value) bool {
			var lenSym ssa.Value
			l := LinEval(idx, func(v ssa.Value) (Lin, bool) {
				if cl, ok := v.(*ssa.Call); ok && ssau.Builtin(cl) == "len" && isElements(cl.Common().Args[0]) {
					if lenSym == nil {
						lenSym = cl
					}
					return linSym(lenSym), true
				}
				return Lin{}, false
			})
			return lenSym != nil && l.Equal(linSym(lenSym).add(linConst(-1), 1))
		}
		reads, writes := 0, 0
		bad := ""
		var prop *ssa.Call
		for _, b := range fn.Blocks {
			if !region[b] {
				continue
			}
			for _, in := range b.Instrs {
				switch x := in.(type) {
				case *ssa.Call:
					if _, callee := CallTo(x); callee != nil && callee.Name() == "readPlyProperty" && callee.Pkg().Path() == PlyPath {
						prop = x
						if x.Common().Args[0] != ssa.Value(fieldsCall) {
							bad = "the property is parsed from other tokens than the current line's"
						}
					}
				case *ssa.IndexAddr:
					if !isElements(x.X) {
						continue
					}
					if !lastForm(x.Index) {
						bad = "the element a property line is attached to is Elements[" + strings.TrimSpace(x.Index.String()) + "], not the last declared element (Elements[len-1])"
					}
					isWrite := false
					for _, r := range ssau.Refs(x) {
						if st, ok := r.(*ssa.Store); ok && st.Addr == x {
							isWrite = true
						}
					}
					if isWrite {
						writes++
					} else {
						reads++
					}
				}
			}
		}
		switch {
		case bad != "":
			e.Violate(fn, rule, construct, sw.TargetOf("property").Instrs[0].Pos(), bad+": properties of the face element would be added to the vertex element (or vice versa)")
		case prop == nil || reads+writes == 0:
			e.Undecide(fn, rule, construct, sw.TargetOf("property").Instrs[0].Pos(), "cannot see where a parsed property is stored")
		default:
			e.Hold(fn, rule, construct, prop.Pos(), fmt.Sprintf("%d read(s) and %d write(s) of header.Elements, all at index len-1", reads, writes))
		}
	}
	// ---- (4) element line: name = token 1, count = token 2 --------------------
	if has["element"] && okTag {
		region := sw.Region("element")
		construct := name + "/element-line"
		var site ssa.Value
		for _, a := range literalSites(fn, func(t *types.Named) bool { return t.Obj().Name() == "Element" && t.Obj().Pkg().Path() == PlyPath }) {
			if region[siteBlock(a)] {
				site = a
			}
		}
		if site == nil {
			e.Undecide(fn, rule, construct, fn.Pos(), "no Element literal under the element arm")
		} else {
			tok := func(v ssa.Value) string {
				m := map[string]bool{}
				BackSlice(v, func(x ssa.Value) bool {
					if ia, ok := x.(*ssa.IndexAddr); ok && ia.X == ssa.Value(fieldsCall) {
						if k, ok := ssau.ConstInt(ia.Index); ok {
							m[itoa(k)] = true
						}
					}
					return true
				})
				return strings.Join(SortedKeys(m), ",")
			}
			st := fieldStores(site)
			bad := ""
			if s := st["Name"]; len(s) != 1 || tok(s[0].Val) != "1" {
				bad = "element name is not token 1 of the line"
			}
			if s := st["Count"]; len(s) != 1 || tok(s[0].Val) != "2" {
				bad = "element count is not token 2 of the line"
			}
			// appended to header.Elements
			okApp := false
			ssau.AllInstrs(fn, func(in ssa.Instruction) {
				if cl, ok := in.(*ssa.Call); ok && ssau.Builtin(cl) == "append" && region[cl.Block()] {
					if flowsInto(site, cl.Common().Args[1]) {
						_, f := LoadedField(cl.Common().Args[0])
						if f != nil && f.Name() == "Elements" {
							okApp = true
						}
					}
				}
			})
			if !okApp && bad == "" {
				bad = "the new element is not appended to header.Elements"
			}
			if bad != "" {
				e.Violate(fn, rule, construct, sitePos(site), bad)
			} else {
				e.Hold(fn, rule, construct, sitePos(site), "Name ← token 1, Count ← token 2, appended at the end of header.Elements")
			}
		}
	}
}
