package plycommon

import (
	"fmt"
	"go/token"
	"regexp"
	"sort"
	"strings"

	"golang.org/x/tools/go/ssa"

	"polycheck/ssau"
)

var reFloatAttr = regexp.MustCompile(`^Float[1-4]Attribute$`)

// derefOf: v is X or *X.
func derefOf(v, x ssa.Value) bool {
	v = ssau.Strip(v)
	if v == x {
		return true
	}
	if u, ok := v.(*ssa.UnOp); ok && u.Op == token.MUL {
		return ssau.Strip(u.X) == x
	}
	return false
}

// iterSource: which call produced the iterator a method is invoked on.
func iterSource(recv ssa.Value) *ssa.Call {
	v := cellValue(ssau.Strip(recv))
	if u, ok := v.(*ssa.UnOp); ok && u.Op == token.MUL {
		v = cellValue(ssau.Strip(u.X))
	}
	c, _ := v.(*ssa.Call)
	return c
}

// cellValue reads through a variable that lives in a memory cell because a closure
// captures it (DESIGN Appendix A): a load of an Alloc that has exactly one Store is the
// stored value; inside the closure, a load of the FreeVar bound to such a cell likewise.
func cellValue(v ssa.Value) ssa.Value {
	for i := 0; i < 4; i++ {
		u, ok := v.(*ssa.UnOp)
		if !ok || u.Op != token.MUL {
			return v
		}
		var cell ssa.Value = u.X
		if fv, isFV := cell.(*ssa.FreeVar); isFV {
			cell = freeVarBinding(fv)
			if cell == nil {
				return v
			}
		}
		a, isA := cell.(*ssa.Alloc)
		if !isA {
			return v
		}
		var stored ssa.Value
		n := 0
		for _, r := range ssau.Refs(a) {
			if st, ok := r.(*ssa.Store); ok && st.Addr == ssa.Value(a) {
				n++
				stored = st.Val
			}
		}
		if n != 1 {
			return v
		}
		v = ssau.Strip(stored)
	}
	return v
}

// freeVarBinding: the value bound to a closure's free variable where the closure is made
// (nil unless the anonymous function is instantiated exactly once).
func freeVarBinding(fv *ssa.FreeVar) ssa.Value {
	fn := fv.Parent()
	parent := fn.Parent()
	if parent == nil {
		return nil
	}
	idx := -1
	for i, f := range fn.FreeVars {
		if f == fv {
			idx = i
		}
	}
	var bound ssa.Value
	n := 0
	ssau.AllInstrs(parent, func(in ssa.Instruction) {
		if mc, ok := in.(*ssa.MakeClosure); ok && mc.Fn == ssa.Value(fn) && idx >= 0 && idx < len(mc.Bindings) {
			n++
			bound = mc.Bindings[idx]
		}
	})
	if n != 1 {
		return nil
	}
	return bound
}

// IDX1 decides DESIGN §3.2 IDX-1 on every function of formats/ply: the argument of
// At on an attribute iterator (result of Mesh.FloatNAttribute) must not be a
// position in the index array (an induction variable bounded by Indices().Len(),
// closed under ±const, *const).
func IDX1(e *Env) {
	const rule = "IDX-1"
	sites := 0
	// parameters of in-package helpers / function literals that receive an index position
	// from a caller (one call level): filled by a first pass, used by the second
	pParams := map[ssa.Value]bool{}
	for pass := 0; pass < 2; pass++ {
		for _, fn := range e.All {
			// 1. index iterators and their Len() calls
			idxIters := map[*ssa.Call]bool{}
			ssau.AllInstrs(fn, func(in ssa.Instruction) {
				if c, ok := in.(*ssa.Call); ok {
					if _, callee := CallTo(c); IsMeshMethod(callee, "Indices") {
						idxIters[c] = true
					}
				}
			})
			lenOfIdx := map[ssa.Value]bool{}
			ssau.AllInstrs(fn, func(in ssa.Instruction) {
				c, ok := in.(*ssa.Call)
				if !ok {
					return
				}
				cc, callee := CallTo(c)
				if IsIterMethod(callee, "Len") {
					if src := iterSource(RecvArg(cc)); src != nil && idxIters[src] {
						lenOfIdx[c] = true
					}
				}
			})
			// 2. P variables: header phis compared against an index-array length
			pvars := map[*ssa.Phi]bool{}
			isPhi := func(v ssa.Value) bool { _, ok := v.(*ssa.Phi); return ok }
			ssau.AllInstrs(fn, func(in ssa.Instruction) {
				b, ok := in.(*ssa.BinOp)
				if !ok || !isCmp(b.Op) {
					return
				}
				for _, pair := range [][2]ssa.Value{{b.X, b.Y}, {b.Y, b.X}} {
					bound := SliceFind(pair[1], func(v ssa.Value) bool { return lenOfIdx[v] })
					if len(bound) == 0 {
						continue
					}
					l := LinEval(pair[0], func(v ssa.Value) (Lin, bool) {
						if isPhi(v) {
							return linSym(v), true
						}
						return Lin{}, false
					})
					if l.Bad || len(l.Coef) != 1 {
						continue
					}
					for s := range l.Coef {
						phi := s.(*ssa.Phi)
						if e.CounterOf(phi) != nil {
							pvars[phi] = true
						}
					}
				}
			})
			isP := func(v ssa.Value) (bool, string) {
				l := LinEval(v, func(x ssa.Value) (Lin, bool) {
					switch x.(type) {
					case *ssa.Phi, *ssa.Call, *ssa.Parameter:
						return linSym(x), true
					}
					return Lin{}, false
				})
				if l.Bad || len(l.Coef) != 1 {
					return false, ""
				}
				for s := range l.Coef {
					if phi, ok := s.(*ssa.Phi); ok && pvars[phi] {
						return true, l.String()
					}
					if pParams[s] {
						return true, l.String() + " (index position passed in by the caller)"
					}
				}
				return false, ""
			}
			if pass == 0 {
				ssau.AllInstrs(fn, func(in ssa.Instruction) {
					cl, ok := in.(*ssa.Call)
					if !ok {
						return
					}
					g := cl.Common().StaticCallee()
					if g == nil || g.Blocks == nil || cl.Common().IsInvoke() {
						return
					}
					if g.Pkg == nil || g.Pkg.Pkg.Path() != PlyPath {
						return
					}
					for i, a := range cl.Common().Args {
						if i < len(g.Params) {
							if p, _ := isP(a); p {
								pParams[g.Params[i]] = true
							}
						}
					}
				})
				continue
			}
			// 3. sinks: At on attribute iterators
			type group struct {
				bad, ok []string
				pos     token.Pos
				badPos  token.Pos
			}
			groups := map[string]*group{}
			ssau.AllInstrs(fn, func(in ssa.Instruction) {
				c, isCall := in.(*ssa.Call)
				if !isCall {
					return
				}
				cc, callee := CallTo(c)
				if !IsIterMethod(callee, "At") {
					return
				}
				src := iterSource(RecvArg(cc))
				if src == nil {
					return
				}
				_, srcCallee := CallTo(src)
				if srcCallee == nil || !ssau.IsMethod(srcCallee, ModelingPath, "Mesh", srcCallee.Name()) || !reFloatAttr.MatchString(srcCallee.Name()) {
					return
				}
				g := groups[srcCallee.Name()]
				if g == nil {
					g = &group{pos: c.Pos()}
					groups[srcCallee.Name()] = g
				}
				arg := Arg(cc, callee, 0)
				if p, form := isP(arg); p {
					g.bad = append(g.bad, fmt.Sprintf("%s: subscript %s is a position in the index array (bounded by Indices().Len())", e.IPos(c), form))
					if g.badPos == token.NoPos {
						g.badPos = c.Pos()
					}
				} else {
					kind := "not an index position"
					if len(SliceFind(arg, func(v ssa.Value) bool {
						if cc2, cal := CallTo(v); cal != nil && IsIterMethod(cal, "At") {
							if s := iterSource(RecvArg(cc2)); s != nil && idxIters[s] {
								return true
							}
						}
						return false
					})) > 0 {
						kind = "vertex id read from the index array"
					}
					g.ok = append(g.ok, fmt.Sprintf("%s: %s", e.IPos(c), kind))
				}
			})
			names := SortedKeys(groups)
			for _, n := range names {
				g := groups[n]
				sites++
				construct := e.Name(fn) + "→" + n + ".At"
				if len(g.bad) > 0 {
					e.Violate(fn, rule, construct, g.badPos,
						"attribute fetched by index POSITION instead of by VERTEX ID: on a welded mesh (indices ≠ 0..n-1) the wrong corner value is written, or At panics out of range; fetch with At(indices.At(p))",
						append(g.bad, g.ok...)...)
				} else {
					e.Hold(fn, rule, construct, g.pos, g.ok...)
				}
			}
		}
	}
	// lemma: the Tri corner accessors the ASCII face writer relies on fetch by vertex id
	triCalled := map[string]token.Pos{}
	for _, fn := range e.Repo {
		ssau.AllInstrs(fn, func(in ssa.Instruction) {
			if _, callee := CallTo(in); callee != nil && ssau.IsMethod(callee, ModelingPath, "Tri", callee.Name()) {
				if m := reTriAttr.FindStringSubmatch(callee.Name()); m != nil {
					triCalled[callee.Name()] = in.Pos()
				}
			}
		})
	}
	var tnames []string
	for n := range triCalled {
		tnames = append(tnames, n)
	}
	sort.Strings(tnames)
	for _, n := range tnames {
		m := reTriAttr.FindStringSubmatch(n)
		tf := e.P.Func("modeling", "Tri."+n)
		construct := "modeling.Tri." + n
		if tf == nil || tf.Blocks == nil {
			e.R.Failf("anchor %s not found", construct)
			continue
		}
		sites++
		ok, why := triAccessorByVertexID(tf, "P"+m[1])
		if ok {
			e.Hold(nil, rule, construct, tf.Pos(), why)
		} else {
			e.Violate(nil, rule, construct, tf.Pos(), "corner accessor used by the ASCII face writer does not subscript the attribute with the matching corner's vertex id: "+why)
		}
	}
	e.R.Extra["idx1_sites"] = sites
	e.CtlDone(rule, "IDX1")
}

var reTriAttr = regexp.MustCompile(`^P([123])Vec[1-4]Attr$`)

// triAccessorByVertexID: the returned element is attr[t.Pk()].
func triAccessorByVertexID(fn *ssa.Function, corner string) (bool, string) {
	found := false
	why := "no return of a subscripted attribute found"
	ssau.AllInstrs(fn, func(in ssa.Instruction) {
		r, ok := in.(*ssa.Return)
		if !ok || len(r.Results) != 1 {
			return
		}
		u, ok := r.Results[0].(*ssa.UnOp)
		if !ok || u.Op != token.MUL {
			return
		}
		ia, ok := u.X.(*ssa.IndexAddr)
		if !ok {
			return
		}
		_, callee := CallTo(ia.Index)
		if callee != nil && ssau.IsMethod(callee, ModelingPath, "Tri", corner) {
			found = true
			why = "returns attr[t." + corner + "()] — subscript is the corner's vertex id"
			return
		}
		why = "subscript is " + strings.TrimSpace(ia.Index.String()) + ", expected a call of Tri." + corner
	})
	return found, why
}
