package plycommon

import (
	"fmt"
	"go/token"
	"go/types"
	"sort"
	"strings"

	"golang.org/x/tools/go/ssa"

	"polycheck/ssau"
)

// headerListAddrs: IndexAddr instructions that address an element of a []Property or []Element.
func headerListAddrs(fn *ssa.Function) []*ssa.IndexAddr {
	var out []*ssa.IndexAddr
	ssau.AllInstrs(fn, func(in ssa.Instruction) {
		ia, ok := in.(*ssa.IndexAddr)
		if !ok {
			return
		}
		sl, ok := ia.X.Type().Underlying().(*types.Slice)
		if !ok {
			return
		}
		if IsNamedPly("Property")(sl.Elem()) || IsNamedPly("Element")(sl.Elem()) {
			out = append(out, ia)
		}
	})
	return out
}

// isErrorReturn: the return delivers a non-nil error (last result of type error that is not the nil constant).
func isErrorReturn(r *ssa.Return) bool {
	if len(r.Results) == 0 {
		return false
	}
	last := r.Results[len(r.Results)-1]
	if !types.Identical(last.Type(), types.Universe.Lookup("error").Type()) {
		return false
	}
	k, isC := last.(*ssa.Const)
	return !isC || !k.IsNil()
}

// foundLit: literal says `v is a captured offset` (v > -1, v >= 0, v != -1) ; returns v.
func foundLit(l Lit) (ssa.Value, bool) {
	b, ok := l.V.(*ssa.BinOp)
	if !ok {
		return nil, false
	}
	k, isK := ssau.ConstInt(b.Y)
	if !isK {
		return nil, false
	}
	switch {
	case b.Op == token.GTR && k == -1 && l.Pos,
		b.Op == token.GEQ && k == 0 && l.Pos,
		b.Op == token.NEQ && k == -1 && l.Pos,
		b.Op == token.EQL && k == -1 && !l.Pos,
		b.Op == token.LSS && k == 0 && !l.Pos,
		b.Op == token.LEQ && k == -1 && !l.Pos:
		return b.X, true
	}
	return nil, false
}

// LAY10 decides (beyond DESIGN; generalises LAY-4's "advance on every back edge"
// to "the scan visits every property"): every loop of the decode side that walks a
// header list ([]Property of an element, []Element of a header)
//
//   - starts at the first entry, advances by one and ends only when the list is
//     exhausted (`i < len(list)` / range), and
//   - is left early only (a) with an error, (b) by returning the reader of a
//     one-component group from the arm that just found that component, or (c) when
//     the branch conditions on the exit edge show that EVERY component of the
//     group has already been found (offset > -1 for each offset variable) — the only
//     case in which stopping cannot change which offsets are captured.
//
// Otherwise a header that lists the components in another order (w before x, a
// group's members after an unrelated property …) leaves offsets unset.
func LAY10(e *Env) {
	const rule = "LAY-10"
	built := e.builtReaderTypes()
	scope := e.DecodeScope()
	n := 0
	for _, fn := range scope {
		isCtl := e.IsCtl(fn)
		if isCtl && !strings.HasPrefix(fn.Name(), "verifControlLAY10") {
			continue
		}
		addrs := headerListAddrs(fn)
		if len(addrs) == 0 {
			continue
		}
		loops := e.Loops(fn)
		// group the element addresses by innermost loop
		byLoop := map[*ssau.Loop][]*ssa.IndexAddr{}
		var order []*ssau.Loop
		for _, ia := range addrs {
			l := ssau.InnermostLoop(loops, ia.Block())
			if l == nil {
				continue
			}
			if _, seen := byLoop[l]; !seen {
				order = append(order, l)
			}
			byLoop[l] = append(byLoop[l], ia)
		}
		sort.Slice(order, func(i, j int) bool { return order[i].Header.Index < order[j].Header.Index })
		// offset webs of the built readers constructed in this function
		type comp struct {
			axis string
			web  map[ssa.Value]bool
		}
		var comps []comp
		oneComponent := false
		for _, site := range literalSites(fn, func(t *types.Named) bool { return built[t] }) {
			st := siteNamed(site).Underlying().(*types.Struct)
			stores := fieldStores(site)
			cnt := 0
			for i := 0; i < st.NumFields(); i++ {
				f := st.Field(i)
				if AxisOf(f.Name()) == "" || !strings.HasSuffix(strings.ToLower(f.Name()), "offset") {
					continue
				}
				cnt++
				web := map[ssa.Value]bool{}
				for _, s := range stores[f.Name()] {
					var walk func(v ssa.Value)
					walk = func(v ssa.Value) {
						if web[v] {
							return
						}
						web[v] = true
						if phi, ok := v.(*ssa.Phi); ok && e.CounterOf(phi) == nil {
							for _, ed := range phi.Edges {
								walk(ed)
							}
						}
					}
					walk(s.Val)
				}
				comps = append(comps, comp{AxisOf(f.Name()), web})
			}
			if cnt == 1 {
				oneComponent = true
			}
		}
		for k, l := range order {
			ias := byLoop[l]
			// the loop must be driven by the index of this list: the index is a counter of l
			idx := ias[0].Index
			list := ias[0].X
			var ctr *Counter
			form := LinEval(idx, func(v ssa.Value) (Lin, bool) {
				if phi, ok := v.(*ssa.Phi); ok {
					if c := e.CounterOf(phi); c != nil && c.Loop == l {
						ctr = c
						return linSym(phi), true
					}
				}
				return Lin{}, false
			})
			if ctr == nil || form.Bad {
				continue // the list is merely subscripted inside some other loop (e.g. readers[indicesProp])
			}
			n++
			construct := fmt.Sprintf("%s/scan#%d", e.Name(fn), k+1)
			pos := ias[0].Pos()
			if !pos.IsValid() {
				pos = ssau.PosOf(ias[0])
			}
			bad, undec := "", ""
			var facts []string
			// ---- the whole list, not a part of it ----
			if sl, isSlice := list.(*ssa.Slice); isSlice && (sl.Low != nil || sl.High != nil) {
				whole := sl.Low == nil
				if k, isK := ssau.ConstInt(orZero(sl.Low)); isK && k == 0 {
					whole = true
				}
				if whole && sl.High != nil {
					cl, isCall := sl.High.(*ssa.Call)
					whole = isCall && ssau.Builtin(cl) == "len" && PathKey(cl.Common().Args[0]) == PathKey(sl.X)
				}
				if !whole {
					bad = "the scan walks only a part (a re-slice) of the header list: entries outside it are never looked at"
				}
			}
			// ---- first entry, step one ----
			init, step, okStep := counterStep(ctr)
			first := form.K + form.Coef[ctr.Phi]*init
			if bad != "" {
				// already decided
			} else if !okStep || step*form.Coef[ctr.Phi] != 1 {
				bad = "the scan does not advance by exactly one entry per iteration"
			} else if first != 0 {
				bad = fmt.Sprintf("the scan starts at entry %d, not at the first entry of the list", first)
			}
			// ---- exhaustion ----
			if bad == "" {
				hn := len(l.Header.Instrs)
				iff, _ := l.Header.Instrs[hn-1].(*ssa.If)
				var cmp *ssa.BinOp
				if iff != nil {
					cmp, _ = iff.Cond.(*ssa.BinOp)
				}
				okBound := false
				if cmp != nil && cmp.Op == token.LSS {
					lhs := LinEval(cmp.X, func(v ssa.Value) (Lin, bool) {
						if v == ssa.Value(ctr.Phi) {
							return linSym(ctr.Phi), true
						}
						return Lin{}, false
					})
					var lenSym ssa.Value
					rhs := LinEval(cmp.Y, func(v ssa.Value) (Lin, bool) {
						if cl, ok := v.(*ssa.Call); ok && ssau.Builtin(cl) == "len" {
							if cl.Common().Args[0] == list || PathKey(cl.Common().Args[0]) == PathKey(list) {
								lenSym = cl
								return linSym(cl), true
							}
						}
						return Lin{}, false
					})
					if !lhs.Bad && lhs.Equal(form) && lenSym != nil {
						if rhs.Equal(linSym(lenSym)) {
							okBound = true
							facts = append(facts, "entries 0 … len(list)-1, one per iteration")
						} else if !rhs.Bad {
							bad = "the scan stops at " + rhs.String() + " instead of the end of the list: the last entries are never looked at"
						}
					}
				}
				if !okBound && bad == "" {
					undec = "cannot see that the scan runs until the list is exhausted"
				}
			}
			// ---- early exits ----
			if bad == "" {
				type exit struct{ from, to *ssa.BasicBlock }
				var exits []exit
				for _, b := range fn.Blocks {
					if !l.Blocks[b] || b == l.Header {
						continue
					}
					for _, s := range b.Succs {
						if !l.Blocks[s] {
							exits = append(exits, exit{b, s})
						}
					}
				}
				for _, ex := range exits {
					// (a) error exit: everything reachable from the target returns an error or panics
					if onlyErrorExits(ex.to) {
						continue
					}
					conds := CondsOnEdge(ex.from, ex.to)
					// (b) the reader of a one-component group returned from the arm that found it
					if (oneComponent && len(comps) == 1) || (len(comps) == 0 && singleComponentDesc(fn)) {
						if n2 := len(ex.to.Instrs); n2 > 0 {
							if _, isRet := ex.to.Instrs[n2-1].(*ssa.Return); isRet {
								named := false
								for _, c := range append(CondsAt(ex.to), conds...) {
									if _, eq, ok := nameLiteral(c); ok && eq {
										named = true
									}
								}
								if named {
									facts = append(facts, "returns the single-component reader from the arm that found the component")
									continue
								}
							}
						}
					}
					// (c) every component already found
					if len(comps) > 0 {
						found := map[int]bool{}
						for _, c := range conds {
							if v, ok := foundLit(c); ok {
								for i, cp := range comps {
									if cp.web[v] {
										found[i] = true
									}
								}
							}
						}
						var missing []string
						for i, cp := range comps {
							if !found[i] {
								missing = append(missing, cp.axis)
							}
						}
						if len(missing) == 0 {
							facts = append(facts, "early exit only once every component's offset is known (> -1)")
							continue
						}
						sort.Strings(missing)
						bad = fmt.Sprintf("the scan can stop (b%d→b%d) before component(s) %s have been looked for: a header that lists them after this point (e.g. alpha before red green blue) leaves their offsets at -1 and the group is not read", ex.from.Index, ex.to.Index, strings.Join(missing, ","))
						continue
					}
					bad = fmt.Sprintf("the scan over the header list can be left early (b%d→b%d) without an error: later entries are never looked at", ex.from.Index, ex.to.Index)
				}
				if len(exits) == 0 {
					facts = append(facts, "no early exit")
				}
			}
			sort.Strings(facts)
			switch {
			case bad != "":
				e.Violate(fn, rule, construct, pos, bad, facts...)
			case undec != "":
				e.Undecide(fn, rule, construct, pos, undec, facts...)
			default:
				e.Hold(fn, rule, construct, pos, facts...)
			}
		}
	}
	e.R.Extra["lay10_scans"] = n
	e.CtlDone(rule, "LAY10")
}

// onlyErrorExits: every path from b ends in an error return or a panic.
func onlyErrorExits(b *ssa.BasicBlock) bool {
	seen := map[*ssa.BasicBlock]bool{}
	var walk func(b *ssa.BasicBlock, depth int) bool
	walk = func(b *ssa.BasicBlock, depth int) bool {
		if seen[b] {
			return true
		}
		seen[b] = true
		if depth > 6 {
			return false
		}
		if n := len(b.Instrs); n > 0 {
			switch t := b.Instrs[n-1].(type) {
			case *ssa.Return:
				return isErrorReturn(t)
			case *ssa.Panic:
				return true
			}
		}
		if len(b.Succs) == 0 {
			return false
		}
		for _, s := range b.Succs {
			if !walk(s, depth+1) {
				return false
			}
		}
		return true
	}
	return walk(b, 0)
}

// singleComponentDesc: fn is a method of a reader description with exactly one PlyProperty* field
// (a scalar property: once its name matched there is nothing left to look for).
func singleComponentDesc(fn *ssa.Function) bool {
	recv := fn.Signature.Recv()
	if recv == nil {
		return false
	}
	n := ssau.NamedOf(recv.Type())
	if n == nil {
		return false
	}
	st, ok := n.Underlying().(*types.Struct)
	if !ok {
		return false
	}
	cnt := 0
	for i := 0; i < st.NumFields(); i++ {
		if strings.HasPrefix(strings.ToLower(st.Field(i).Name()), "plyproperty") {
			cnt++
		}
	}
	return cnt == 1
}
