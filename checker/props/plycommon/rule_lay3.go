package plycommon

import (
	"fmt"
	"go/token"
	"go/types"
	"sort"
	"strings"

	"golang.org/x/tools/go/ssa"

	"polycheck/ssau"
)

func setEq(a, b []string) bool {
	if len(a) != len(b) {
		return false
	}
	for i := range a {
		if a[i] != b[i] {
			return false
		}
	}
	return true
}

func subset(a, b []string) (bool, []string) {
	m := map[string]bool{}
	for _, x := range b {
		m[x] = true
	}
	var miss []string
	for _, x := range a {
		if !m[x] {
			miss = append(miss, x)
		}
	}
	return len(miss) == 0, miss
}

// GrammarScalars etc.: the restricted grammar C08 quantifies over.
var (
	GrammarScalars = []string{"double", "float", "int", "uchar"}
	GrammarCounts  = []string{"int", "uchar", "uint"}
	GrammarIntList = []string{"int", "uint"}
	GrammarFltList = []string{"float"}
)

// EnumInventory records every ScalarPropertyType dispatch of formats/ply as a tabulated obligation.
func EnumInventory(e *Env) int {
	n := 0
	for _, fn := range e.Repo {
		sws := EnumSwitches(fn, IsNamedPly("ScalarPropertyType"))
		for k, sw := range sws {
			n++
			def := "falls through"
			if sw.DefaultPanics() {
				def = "panics (loud)"
			} else if sw.Default != nil {
				if l := len(sw.Default.Instrs); l > 0 {
					if _, isRet := sw.Default.Instrs[l-1].(*ssa.Return); isRet {
						def = "returns"
					}
				}
			}
			e.Hold(fn, "LAY-3", fmt.Sprintf("%s/dispatch#%d", e.Name(fn), k+1), sw.Cases[0].Cmp.Pos(),
				"tag "+sw.TagKey, "cases {"+strings.Join(sw.Consts(), ",")+"}", "default "+def)
		}
	}
	e.R.Extra["lay3_enum_dispatches"] = n
	return n
}

// LAY3RoundTrip: writer/reader case agreement (C04).
func LAY3RoundTrip(e *Env, tab *CodecTable) {
	for n := 1; n <= 4; n++ {
		wb, rb := fmt.Sprintf("v%d/binary/writer", n), fmt.Sprintf("v%d/binary/reader", n)
		wa, ra := fmt.Sprintf("v%d/ascii/writer", n), fmt.Sprintf("v%d/ascii/reader", n)
		for _, k := range []string{wb, rb, wa, ra} {
			if _, ok := tab.Types[k]; !ok {
				e.R.Failf("codec %s not found (type renamed or interface changed)", k)
				return
			}
		}
		wfn, rfn := tab.Types[wb].Fn, tab.Types[rb].Fn
		construct := fmt.Sprintf("formats/ply:v%d/binary", n)
		if setEq(tab.Cases[wb], tab.Cases[rb]) {
			e.Hold(wfn, "LAY-3", construct, wfn.Pos(), "writer cases = reader cases = {"+strings.Join(tab.Cases[wb], ",")+"}")
		} else {
			_, wOnly := subset(tab.Cases[wb], tab.Cases[rb])
			_, rOnly := subset(tab.Cases[rb], tab.Cases[wb])
			fn := wfn
			if len(wOnly) > 0 {
				fn = rfn
			}
			e.Violate(fn, "LAY-3", construct, fn.Pos(),
				fmt.Sprintf("binary writer and reader do not handle the same scalar types: writer-only {%s}, reader-only {%s}; a file the library writes cannot be read back (or a readable type cannot be produced)", strings.Join(wOnly, ","), strings.Join(rOnly, ",")))
		}
		// kinds per case
		for _, c := range tab.Cases[wb] {
			wk, rk := tab.Kinds[wb][c], tab.Kinds[rb][c]
			if rk == "" {
				continue
			}
			kc := fmt.Sprintf("%s/case:%s", construct, c)
			if wk == rk {
				e.Hold(wfn, "LAY-2", kc, wfn.Pos(), "written and read as "+wk)
			} else {
				e.Violate(wfn, "LAY-2", kc, wfn.Pos(), fmt.Sprintf("type %s is written as %s but read as %s", c, wk, rk))
			}
		}
		afn := tab.Types[wa].Fn
		construct = fmt.Sprintf("formats/ply:v%d/ascii", n)
		if ok, miss := subset(tab.Cases[wa], tab.Cases[ra]); ok {
			e.Hold(afn, "LAY-3", construct, afn.Pos(), "writer cases {"+strings.Join(tab.Cases[wa], ",")+"} ⊆ reader (parses every type as a decimal number)")
		} else {
			e.Violate(tab.Types[ra].Fn, "LAY-3", construct, tab.Types[ra].Fn.Pos(), "ASCII writer emits types the ASCII reader does not accept: "+strings.Join(miss, ","))
		}
		// 8-bit scaling: ×255 on write ⇔ ÷255 on read, in both encodings
		for _, enc := range []string{"binary", "ascii"} {
			w, r := fmt.Sprintf("v%d/%s/writer", n, enc), fmt.Sprintf("v%d/%s/reader", n, enc)
			construct := fmt.Sprintf("formats/ply:v%d/%s/scale", n, enc)
			fn := tab.Types[r].Fn
			if setEq(tab.ScaleSet[w], tab.ScaleSet[r]) {
				e.Hold(fn, "LAY-2", construct, fn.Pos(), "×255 on write and ÷255 on read under {"+strings.Join(tab.ScaleSet[w], ",")+"}")
			} else {
				e.Violate(fn, "LAY-2", construct, fn.Pos(),
					fmt.Sprintf("writer multiplies by 255 under {%s} but reader divides by 255 under {%s}: 8-bit values come back scaled", strings.Join(tab.ScaleSet[w], ","), strings.Join(tab.ScaleSet[r], ",")))
			}
		}
	}
}

// LAY3Foreign: reader tables against the restricted grammar (C08).
func LAY3Foreign(e *Env, tab *CodecTable) {
	for n := 1; n <= 4; n++ {
		rb, ra := fmt.Sprintf("v%d/binary/reader", n), fmt.Sprintf("v%d/ascii/reader", n)
		for _, k := range []string{rb, ra} {
			if _, ok := tab.Types[k]; !ok {
				e.R.Failf("codec %s not found (type renamed or interface changed)", k)
				return
			}
		}
		fn := tab.Types[rb].Fn
		construct := fmt.Sprintf("formats/ply:v%d/binary/grammar", n)
		if ok, miss := subset(GrammarScalars, tab.Cases[rb]); ok {
			e.Hold(fn, "LAY-3", construct, fn.Pos(), "cases {"+strings.Join(tab.Cases[rb], ",")+"} ⊇ grammar {"+strings.Join(GrammarScalars, ",")+"}")
		} else {
			e.Violate(fn, "LAY-3", construct, fn.Pos(), "binary reader has no case for scalar type(s) "+strings.Join(miss, ",")+" of the supported grammar: such a file panics 'unimplemented' instead of loading")
		}
		fn = tab.Types[ra].Fn
		construct = fmt.Sprintf("formats/ply:v%d/ascii/grammar", n)
		if tab.AllTypes[ra] {
			e.Hold(fn, "LAY-3", construct, fn.Pos(), "ASCII parse does not depend on the scalar type: every type accepted")
		} else if ok, miss := subset(GrammarScalars, tab.Cases[ra]); ok {
			e.Hold(fn, "LAY-3", construct, fn.Pos(), "cases ⊇ grammar")
		} else {
			e.Violate(fn, "LAY-3", construct, fn.Pos(), "ASCII reader rejects scalar type(s) "+strings.Join(miss, ",")+" of the supported grammar")
		}
		// ASCII and binary decode 8-bit values the same way
		construct = fmt.Sprintf("formats/ply:v%d/reader-scale", n)
		if setEq(tab.ScaleSet[ra], tab.ScaleSet[rb]) {
			e.Hold(fn, "LAY-2", construct, fn.Pos(), "÷255 under {"+strings.Join(tab.ScaleSet[rb], ",")+"} in both encodings")
		} else {
			e.Violate(fn, "LAY-2", construct, fn.Pos(), fmt.Sprintf("ASCII reader divides by 255 under {%s}, binary reader under {%s}: the same file content decodes differently per encoding", strings.Join(tab.ScaleSet[ra], ","), strings.Join(tab.ScaleSet[rb], ",")))
		}
	}
}

// listField: v loads field `name` of a ListProperty.
func listField(v ssa.Value, name string) bool {
	v = StripConv(v)
	switch x := v.(type) {
	case *ssa.UnOp:
		if fa, ok := x.X.(*ssa.FieldAddr); ok {
			f := ssau.FieldOf(fa)
			return f != nil && f.Name() == name && ssau.IsNamed(fa.X.Type(), PlyPath, "ListProperty")
		}
	case *ssa.Field:
		f := ssau.FieldOf(x)
		return f != nil && f.Name() == name && ssau.IsNamed(x.X.Type(), PlyPath, "ListProperty")
	}
	return false
}

// ListReaders decides LAY-3 / LAY-1 for the binary list reader (counts and lists
// of the face element) and the column arithmetic of the ASCII list reader.
func ListReaders(e *Env) {
	sizes, _, _ := e.SizeTable()
	if sizes == nil {
		return
	}
	type spec struct {
		fn      string
		field   string
		grammar []string
		loop    bool
	}
	for _, sp := range []spec{
		{"listBinaryPropertyReader.Count", "CountType", GrammarCounts, false},
		{"listBinaryPropertyReader.Int", "ListType", GrammarIntList, true},
		{"listBinaryPropertyReader.Float64", "ListType", GrammarFltList, true},
	} {
		fn := e.Fn(sp.fn)
		if fn == nil {
			continue
		}
		name := e.Name(fn)
		var sw *EnumSwitch
		for _, s := range EnumSwitches(fn, IsNamedPly("ScalarPropertyType")) {
			if listField(s.Tag, sp.field) {
				if sw != nil {
					sw = nil
					break
				}
				sw = s
			}
		}
		if sw == nil {
			e.Undecide(fn, "LAY-3", name, fn.Pos(), "expected exactly one dispatch on ListProperty."+sp.field)
			continue
		}
		if ok, miss := subset(sp.grammar, sw.Consts()); ok {
			e.Hold(fn, "LAY-3", name+"/grammar", fn.Pos(), "cases {"+strings.Join(sw.Consts(), ",")+"} ⊇ grammar {"+strings.Join(sp.grammar, ",")+"}")
		} else {
			e.Violate(fn, "LAY-3", name+"/grammar", fn.Pos(), "no case for "+sp.field+" "+strings.Join(miss, ",")+" of the supported grammar: such a face list is rejected (or silently left undecoded)")
		}
		gets := []Access{}
		for _, a := range CollectAccesses(fn) {
			if !a.Put {
				gets = append(gets, a)
			}
		}
		for _, c := range sw.Consts() {
			region := sw.Region(c)
			construct := name + "/case:" + c
			w := sizes[c]
			pos := sw.TargetOf(c).Instrs[0].Pos()
			var acc []Access
			for _, a := range gets {
				if region[a.In.Block()] {
					acc = append(acc, a)
				}
			}
			if len(acc) != 1 {
				e.Undecide(fn, "LAY-1", construct, pos, fmt.Sprintf("expected one decode of the buffer under case %s, found %d", c, len(acc)))
				continue
			}
			a := acc[0]
			bad := ""
			facts := []string{fmt.Sprintf("%d bytes decoded as %s", a.Width, a.Kind)}
			if a.Width != w {
				bad = fmt.Sprintf("%s occupies %d bytes but %d are decoded", c, w, a.Width)
			}
			if a.Kind != SpecKind[c] {
				bad = fmt.Sprintf("%s is decoded as %s, the format says %s", c, a.Kind, SpecKind[c])
			}
			if sp.loop {
				// stride: offset = i*Size(c)
				var iv ssa.Value
				form := LinEval(a.Off, func(v ssa.Value) (Lin, bool) {
					if phi, ok := v.(*ssa.Phi); ok && e.CounterOf(phi) != nil {
						iv = phi
						return linSym(phi), true
					}
					return Lin{}, false
				})
				if a.Off == nil || form.Bad || iv == nil || !form.Equal(linSym(iv).scale(w)) || a.OffConst != 0 {
					bad = fmt.Sprintf("element k of a %s list is read at byte %s, expected k×%d", c, form, w)
				} else {
					facts = append(facts, fmt.Sprintf("element k at byte k×%d", w))
					// out[k] with the same k
					okStore := false
					for _, b := range fn.Blocks {
						if !region[b] {
							continue
						}
						for _, in := range b.Instrs {
							if st, ok := in.(*ssa.Store); ok {
								if ia, ok := st.Addr.(*ssa.IndexAddr); ok && ia.Index == iv {
									if len(SliceFind(st.Val, func(v ssa.Value) bool { return v == a.Val })) > 0 {
										okStore = true
									}
								}
							}
						}
					}
					if !okStore {
						bad = "decoded element k is not stored into out[k]"
					}
				}
			} else {
				// Count: ReadFull into buf[:Size(c)]
				found := false
				for _, b := range fn.Blocks {
					if !region[b] {
						continue
					}
					for _, in := range b.Instrs {
						cl, ok := in.(*ssa.Call)
						if !ok {
							continue
						}
						cc, callee := CallTo(cl)
						if !ssau.IsFunc(callee, "io", "ReadFull") {
							continue
						}
						found = true
						sl, ok := cc.Args[1].(*ssa.Slice)
						h := int64(-1)
						if ok && sl.High != nil {
							h, _ = ssau.ConstInt(sl.High)
						}
						lo := int64(0)
						if ok && sl.Low != nil {
							lo, _ = ssau.ConstInt(sl.Low)
						}
						if !ok || h-lo != w {
							bad = fmt.Sprintf("%d bytes are consumed for a %s count (%d expected): every following record is misaligned", h-lo, c, w)
						} else {
							facts = append(facts, fmt.Sprintf("io.ReadFull of %d bytes", w))
						}
					}
				}
				if !found {
					bad = "no io.ReadFull under this case"
				}
			}
			if bad != "" {
				e.Violate(fn, "LAY-1", construct, pos, bad, facts...)
			} else {
				e.Hold(fn, "LAY-1", construct, pos, facts...)
			}
		}
	}
	// payload size of a binary list = count × Size(ListType)
	if fn := e.Fn("listBinaryPropertyReader.Read"); fn != nil {
		name := e.Name(fn)
		okMul := false
		var pos token.Pos = fn.Pos()
		ssau.AllInstrs(fn, func(in ssa.Instruction) {
			b, ok := in.(*ssa.BinOp)
			if !ok || b.Op != token.MUL {
				return
			}
			for _, p := range [][2]ssa.Value{{b.X, b.Y}, {b.Y, b.X}} {
				if c, ok := isSizeCall(p[0]); ok && listField(RecvArg(c.Common()), "ListType") {
					// the other factor derives from the Count call
					if len(SliceFind(p[1], func(v ssa.Value) bool {
						_, callee := CallTo(v)
						return IsPlyMethod(callee, "listBinaryPropertyReader", "Count")
					})) > 0 || len(SliceFind(p[1], func(v ssa.Value) bool {
						_, f := LoadedField(v)
						return f != nil && f.Name() == "lastReadListSize"
					})) > 0 {
						okMul = true
						pos = b.Pos()
					}
				}
			}
		})
		// the ReadFull slice high bound must be that product
		okRead := false
		ssau.AllInstrs(fn, func(in ssa.Instruction) {
			cl, ok := in.(*ssa.Call)
			if !ok {
				return
			}
			cc, callee := CallTo(cl)
			if !ssau.IsFunc(callee, "io", "ReadFull") {
				return
			}
			if sl, ok := cc.Args[1].(*ssa.Slice); ok && sl.High != nil && sl.Low == nil {
				if len(SliceFind(sl.High, func(v ssa.Value) bool {
					b, ok := v.(*ssa.BinOp)
					return ok && b.Op == token.MUL
				})) > 0 {
					okRead = true
				}
			}
		})
		if okMul && okRead {
			e.Hold(fn, "LAY-1", name+"/payload", pos, "payload = count × Size(ListType), read with io.ReadFull(buf[:payload])")
		} else {
			e.Violate(fn, "LAY-1", name+"/payload", pos, "bytes consumed for a list are not count × Size(ListType): the next list / record starts at the wrong byte")
		}
	}
	// ASCII list: consumes 1+count columns
	if fn := e.Fn("listAsciiPropertyReader.Read"); fn != nil {
		name := e.Name(fn)
		var count ssa.Value // the parsed count (Extract #0 of strconv.ParseInt(line[0]))
		ssau.AllInstrs(fn, func(in ssa.Instruction) {
			cl, ok := in.(*ssa.Call)
			if !ok {
				return
			}
			cc, callee := CallTo(cl)
			if callee == nil || callee.Pkg() == nil || callee.Pkg().Path() != "strconv" {
				return
			}
			if u, ok := cc.Args[0].(*ssa.UnOp); ok {
				if ia, ok := u.X.(*ssa.IndexAddr); ok && ia.X == fn.Params[1] {
					if k, ok := ssau.ConstInt(ia.Index); ok && k == 0 {
						count = cl
					}
				}
			}
		})
		bad := ""
		if count == nil {
			bad = "the count is not parsed from column 0"
		}
		isCount := func(v ssa.Value) bool {
			return len(SliceFind(v, func(x ssa.Value) bool { return x == count })) > 0
		}
		symLin := func(v ssa.Value) (Lin, bool) {
			switch x := v.(type) {
			case *ssa.Convert:
				if isCount(x.X) && !isBinOp(x.X) {
					return linSym(count), true
				}
			case *ssa.UnOp:
				if _, f := LoadedField(x); f != nil && f.Name() == "lastReadListSize" {
					return linSym(count), true
				}
			case *ssa.Extract:
				if x.Tuple == count {
					return linSym(count), true
				}
			}
			return Lin{}, false
		}
		if count != nil {
			want := linSym(count).add(linConst(1), 1)
			nret := 0
			ssau.AllInstrs(fn, func(in ssa.Instruction) {
				r, ok := in.(*ssa.Return)
				if !ok || len(r.Results) != 2 {
					return
				}
				if k, isK := ssau.ConstInt(r.Results[0]); isK && k < 0 {
					return // error return
				}
				nret++
				if got := LinEval(r.Results[0], symLin); !got.Equal(want) {
					bad = "returns " + got.String() + " consumed columns, a list occupies count+1"
				}
			})
			if nret == 0 {
				bad = "no success return found"
			}
			okCopy := false
			ssau.AllInstrs(fn, func(in ssa.Instruction) {
				sl, ok := in.(*ssa.Slice)
				if !ok || sl.X != fn.Params[1] {
					return
				}
				lo := LinEval(orZero(sl.Low), symLin)
				hi := Lin{Bad: true}
				if sl.High != nil {
					hi = LinEval(sl.High, symLin)
				}
				if lo.Equal(linConst(1)) && hi.Equal(want) {
					okCopy = true
				}
			})
			if !okCopy && bad == "" {
				bad = "the list items are not taken from columns [1, count+1)"
			}
		}
		if bad != "" {
			e.Violate(fn, "LAY-4", name, fn.Pos(), bad+": the second list of a face line (texcoord) is read from the wrong column")
		} else {
			e.Hold(fn, "LAY-4", name, fn.Pos(), "count = column 0, items = columns [1,count+1), consumed = count+1")
		}
	}
	// the face line walker advances by what each list consumed
	if fn := e.Fn("readAsciiFaceElement"); fn != nil {
		name := e.Name(fn)
		verdict, msg := asciiFaceColumns(e, fn)
		switch verdict {
		case "ok":
			e.Hold(fn, "LAY-4", name+"/columns", fn.Pos(), msg)
		case "bad":
			e.Violate(fn, "LAY-4", name+"/columns", fn.Pos(), msg)
		default:
			e.Undecide(fn, "LAY-4", name+"/columns", fn.Pos(), msg)
		}
	}
}

func isBinOp(v ssa.Value) bool { _, ok := v.(*ssa.BinOp); return ok }

func orZero(v ssa.Value) ssa.Value {
	if v == nil {
		return ssa.NewConst(constantZero, types.Typ[types.Int])
	}
	return v
}

// asciiFaceColumns: each list reader of a face line is given contents[col:], col
// starting at 0 for every line and advanced by exactly what the reader consumed.
func asciiFaceColumns(e *Env, fn *ssa.Function) (string, string) {
	var reads []*ssa.Call
	ssau.AllInstrs(fn, func(in ssa.Instruction) {
		if cl, ok := in.(*ssa.Call); ok {
			if _, callee := CallTo(cl); IsPlyMethod(callee, "listAsciiPropertyReader", "Read") {
				reads = append(reads, cl)
			}
		}
	})
	if len(reads) != 1 {
		return "undecided", fmt.Sprintf("expected one call of listAsciiPropertyReader.Read, found %d", len(reads))
	}
	cl := reads[0]
	cc, callee := CallTo(cl)
	arg := Arg(cc, callee, 0)
	sl, ok := arg.(*ssa.Slice)
	if !ok || sl.Low == nil {
		return "bad", "every list reader is handed the whole line: the second list (texcoord) would be decoded from the first list's columns"
	}
	phi, ok := sl.Low.(*ssa.Phi)
	if !ok {
		return "undecided", "column offset is not a loop-carried variable"
	}
	c := e.CounterOf(phi)
	if c == nil {
		return "bad", "column offset is never advanced"
	}
	for _, in := range c.Init {
		if k, ok := ssau.ConstInt(in); !ok || k != 0 {
			return "bad", "column offset does not restart at 0 for every face line"
		}
	}
	// restart per line: the counter's loop must be nested in the record loop
	outer := false
	for _, l := range e.Loops(fn) {
		if l != c.Loop && l.Blocks[c.Loop.Header] && len(l.Blocks) > len(c.Loop.Blocks) {
			outer = true
		}
	}
	if !outer {
		return "bad", "column offset is not reset per face line (it lives across records)"
	}
	var consumed ssa.Value
	for _, r := range ssau.Refs(cl) {
		if ex, ok := r.(*ssa.Extract); ok && ex.Index == 0 {
			consumed = ex
		}
	}
	if consumed == nil {
		return "bad", "the number of columns a list consumed is ignored"
	}
	want := linSym(phi).add(linSym(consumed), 1)
	for _, lf := range c.Latch {
		got := LinEval(lf.V, func(v ssa.Value) (Lin, bool) {
			if v == phi || v == consumed {
				return linSym(v), true
			}
			return Lin{}, false
		})
		if !got.Equal(want) {
			return "bad", "on some path to the next list the column offset is " + got.String() + " instead of previous + consumed"
		}
	}
	return "ok", "contents[col:], col starts at 0 per line and advances by the columns each list consumed"
}

// AliasTable decides the alias half of LAY-3: the name→type map used by the
// header parser contains both spec spellings of all eight scalar types.
func AliasTable(e *Env) {
	fn := e.Fn("ParseScalarPropertyType")
	if fn == nil {
		return
	}
	name := e.Name(fn)
	var g *ssa.Global
	ssau.AllInstrs(fn, func(in ssa.Instruction) {
		lk, ok := in.(*ssa.Lookup)
		if !ok {
			return
		}
		if u, ok := lk.X.(*ssa.UnOp); ok {
			if gg, ok := u.X.(*ssa.Global); ok {
				g = gg
			}
		}
	})
	if g == nil {
		e.Undecide(fn, "LAY-3", name+"/aliases", fn.Pos(), "type names are not resolved through a package-level map")
		return
	}
	initFn := e.Pkg.Func("init")
	got := map[string]string{}
	if initFn != nil {
		var m ssa.Value
		ssau.AllInstrs(initFn, func(in ssa.Instruction) {
			if st, ok := in.(*ssa.Store); ok && st.Addr == g {
				m = st.Val
			}
		})
		ssau.AllInstrs(initFn, func(in ssa.Instruction) {
			if mu, ok := in.(*ssa.MapUpdate); ok && mu.Map == m {
				k, ok1 := ConstStr(mu.Key)
				v, ok2 := ConstStr(mu.Value)
				if ok1 && ok2 {
					got[k] = v
				}
			}
		})
	}
	var bad []string
	for _, alias := range SortedKeys(SpecAlias) {
		v, ok := got[alias]
		if !ok {
			bad = append(bad, alias+": missing")
		} else if v != SpecAlias[alias] {
			bad = append(bad, alias+" → "+v+" (specification: "+SpecAlias[alias]+")")
		}
	}
	if len(bad) > 0 {
		e.Violate(fn, "LAY-3", name+"/aliases", g.Pos(), "type-name table is incomplete or wrong: "+strings.Join(bad, "; ")+" — a header using that spelling panics or is decoded with the wrong width")
	} else {
		e.Hold(fn, "LAY-3", name+"/aliases", g.Pos(), fmt.Sprintf("%d names, both spellings of all eight types map to the canonical type", len(got)))
	}
	// the lookup key derives from the function's argument
	okKey := false
	ssau.AllInstrs(fn, func(in ssa.Instruction) {
		if lk, ok := in.(*ssa.Lookup); ok {
			if len(SliceFind(lk.Index, func(v ssa.Value) bool { return v == fn.Params[0] })) > 0 {
				okKey = true
			}
		}
	})
	if !okKey {
		e.Violate(fn, "LAY-3", name+"/key", fn.Pos(), "the table is not looked up with the type name that was passed in")
	}
	// readPlyProperty: positions of the tokens on a property line
	if pf := e.Fn("readPlyProperty"); pf != nil {
		pname := e.Name(pf)
		tokenIdx := func(v ssa.Value) []string {
			m := map[string]bool{}
			BackSlice(v, func(x ssa.Value) bool {
				if ia, ok := x.(*ssa.IndexAddr); ok && ia.X == pf.Params[0] {
					if k, ok := ssau.ConstInt(ia.Index); ok {
						m[itoa(k)] = true
					}
				}
				return true
			})
			return SortedKeys(m)
		}
		want := map[string]map[string]string{
			"ListProperty":   {"CountType": "2", "ListType": "3", "PropertyName": "4"},
			"ScalarProperty": {"Type": "1", "PropertyName": "2"},
		}
		for _, tn := range []string{"ListProperty", "ScalarProperty"} {
			sites := literalSites(pf, func(t *types.Named) bool { return t.Obj().Name() == tn && t.Obj().Pkg().Path() == PlyPath })
			construct := pname + "→" + tn
			if len(sites) != 1 {
				e.Undecide(pf, "HDRP-1", construct, pf.Pos(), fmt.Sprintf("expected one %s literal, found %d", tn, len(sites)))
				continue
			}
			st := fieldStores(sites[0])
			var bad []string
			var facts []string
			for _, f := range SortedKeys(want[tn]) {
				ss := st[f]
				if len(ss) != 1 {
					bad = append(bad, f+" not assigned")
					continue
				}
				got := strings.Join(tokenIdx(ss[0].Val), ",")
				facts = append(facts, f+" ← token "+got)
				if got != want[tn][f] {
					bad = append(bad, fmt.Sprintf("%s is taken from token %s, the format puts it at token %s", f, got, want[tn][f]))
				}
				if strings.HasSuffix(f, "Type") {
					if len(SliceFind(ss[0].Val, func(v ssa.Value) bool {
						_, callee := CallTo(v)
						return callee != nil && callee.Name() == "ParseScalarPropertyType" && callee.Pkg().Path() == PlyPath
					})) == 0 {
						bad = append(bad, f+" does not go through the type-name table")
					}
				}
			}
			sort.Strings(facts)
			if len(bad) > 0 {
				e.Violate(pf, "HDRP-1", construct, sitePos(sites[0]), strings.Join(bad, "; "), facts...)
			} else {
				e.Hold(pf, "HDRP-1", construct, sitePos(sites[0]), facts...)
			}
		}
	}
}
