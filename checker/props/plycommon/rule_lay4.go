package plycommon

import (
	"fmt"
	"go/constant"
	"go/token"
	"go/types"
	"sort"
	"strings"

	"golang.org/x/tools/go/ssa"

	"polycheck/ssau"
)

// BuilderAnchors: the eight functions that turn a header element into a built reader.
var BuilderAnchors = []struct {
	Name   string
	Binary bool
}{
	{"Vector1PropertyReader.buildBinary", true}, {"Vector1PropertyReader.buildAscii", false},
	{"Vector2PropertyReader.buildBinary", true}, {"Vector2PropertyReader.buildAscii", false},
	{"Vector3PropertyReader.buildBinary", true}, {"Vector3PropertyReader.buildAscii", false},
	{"Vector4PropertyReader.buildBinary", true}, {"Vector4PropertyReader.buildAscii", false},
}

// isSizeCall: v = ScalarProperty.Size() / ScalarPropertyType.Size().
func isSizeCall(v ssa.Value) (*ssa.Call, bool) {
	c, ok := v.(*ssa.Call)
	if !ok {
		return nil, false
	}
	_, callee := CallTo(c)
	if IsPlyMethod(callee, "ScalarProperty", "Size") || IsPlyMethod(callee, "ScalarPropertyType", "Size") {
		return c, true
	}
	if _, ok := sizeHelperParam(c); ok {
		return c, true
	}
	return nil, false
}

// sizeHelperParam: c calls a formats/ply function whose every return is Size() of (something
// derived from) one of its parameters — `func sizeOf(p Property) int { return p.(ScalarProperty).Size() }`.
// Returns the index of that parameter.
func sizeHelperParam(c *ssa.Call) (int, bool) {
	g := c.Common().StaticCallee()
	if g == nil || g.Blocks == nil || g.Pkg == nil || g.Pkg.Pkg.Path() != PlyPath || g.Signature.Results().Len() != 1 {
		return 0, false
	}
	if !isInteger(g.Signature.Results().At(0).Type()) {
		return 0, false
	}
	param := -1
	ok := true
	nret := 0
	ssau.AllInstrs(g, func(in ssa.Instruction) {
		r, isR := in.(*ssa.Return)
		if !isR || !ok {
			return
		}
		nret++
		sc, isCall := StripConv(r.Results[0]).(*ssa.Call)
		if !isCall {
			ok = false
			return
		}
		_, callee := CallTo(sc)
		if !(IsPlyMethod(callee, "ScalarProperty", "Size") || IsPlyMethod(callee, "ScalarPropertyType", "Size")) {
			ok = false
			return
		}
		found := -1
		BackSlice(RecvArg(sc.Common()), func(x ssa.Value) bool {
			if p, isP := x.(*ssa.Parameter); isP {
				for i, gp := range g.Params {
					if gp == p {
						found = i
					}
				}
			}
			return true
		})
		if found < 0 || (param >= 0 && param != found) {
			ok = false
			return
		}
		param = found
	})
	if !ok || nret == 0 || param < 0 || param >= len(c.Common().Args) {
		return 0, false
	}
	return param, true
}

// sizeRecv: the value whose Size() the call delivers.
func sizeRecv(c *ssa.Call) ssa.Value {
	if k, ok := sizeHelperParam(c); ok {
		return c.Common().Args[k]
	}
	return RecvArg(c.Common())
}

// propElemAddrs: the IndexAddr instructions of fn that address an element of a []Property.
func propElemAddrs(fn *ssa.Function) []*ssa.IndexAddr {
	var out []*ssa.IndexAddr
	ssau.AllInstrs(fn, func(in ssa.Instruction) {
		ia, ok := in.(*ssa.IndexAddr)
		if !ok {
			return
		}
		sl, ok := ia.X.Type().Underlying().(*types.Slice)
		if !ok || !IsNamedPly("Property")(sl.Elem()) {
			return
		}
		out = append(out, ia)
	})
	return out
}

// nameLiteral recognises `scalar.PropertyName == recv.PlyPropertyC` (either order)
// and returns the axis C of the receiver field ("S" for the single scalar property).
func nameLiteral(l Lit) (axis string, eq bool, ok bool) {
	x, y, eq, isCmp := l.Cmp()
	if !isCmp {
		return "", false, false
	}
	for _, p := range [][2]ssa.Value{{x, y}, {y, x}} {
		_, f0 := LoadedField(p[0])
		_, f1 := LoadedField(p[1])
		if f0 == nil || f1 == nil {
			continue
		}
		if f0.Name() != "PropertyName" {
			continue
		}
		if a := AxisOf(f1.Name()); a != "" && strings.HasPrefix(strings.ToLower(f1.Name()), "plyproperty") {
			return a, eq, true
		}
	}
	return "", false, false
}

type builderCtx struct {
	e        *Env
	fn       *ssa.Function
	binary   bool
	elems    []*ssa.IndexAddr
	counters map[*ssa.Phi]*Counter
	sizeRep  ssa.Value // representative of Size(current element)
	iterSym  map[*ssau.Loop]ssa.Value
}

func (b *builderCtx) onCurrentElem(v ssa.Value) bool {
	found := false
	BackSlice(v, func(x ssa.Value) bool {
		if ia, ok := x.(*ssa.IndexAddr); ok {
			for _, el := range b.elems {
				if el == ia {
					found = true
				}
			}
		}
		return !found
	})
	return found
}

func (b *builderCtx) counter(phi *ssa.Phi) *Counter {
	if _, known := b.counters[phi]; !known {
		b.counters[phi] = b.e.CounterOf(phi)
	}
	return b.counters[phi]
}

// symLin gives the linear form of the symbols of the offset computation:
//   - Size(current property) calls are one symbol;
//   - a counter with constant start k0 and constant uniform step s is s·N + k0, N the
//     iteration number of its loop (so `for i, p := range ps` and a hand-kept `col++` agree);
//   - any other counter (the running byte size) is a symbol of its own.
func (b *builderCtx) symLin(v ssa.Value) (Lin, bool) {
	if c, ok := isSizeCall(v); ok {
		if b.onCurrentElem(sizeRecv(c)) {
			if b.sizeRep == nil {
				b.sizeRep = c
			}
			return linSym(b.sizeRep), true
		}
		return linSym(v), true
	}
	phi, ok := v.(*ssa.Phi)
	if !ok {
		return Lin{}, false
	}
	c := b.counter(phi)
	if c == nil {
		return Lin{}, false
	}
	if len(c.Init) == 1 {
		if init, ok := ssau.ConstInt(c.Init[0]); ok {
			step, uniform := int64(0), len(c.Latch) > 0
			for i, lf := range c.Latch {
				bo, isB := lf.V.(*ssa.BinOp)
				if !isB || bo.Op != token.ADD {
					uniform = false
					break
				}
				var k int64
				var isK bool
				if bo.X == phi {
					k, isK = ssau.ConstInt(bo.Y)
				} else if bo.Y == phi {
					k, isK = ssau.ConstInt(bo.X)
				}
				if !isK || (i > 0 && k != step) {
					uniform = false
					break
				}
				step = k
			}
			if uniform {
				n := b.iterSym[c.Loop]
				if n == nil {
					n = ssa.NewConst(constant.MakeInt64(int64(1000+len(b.iterSym))), types.Typ[types.Int])
					b.iterSym[c.Loop] = n
				}
				return linSym(n).scale(step).add(linConst(init), 1), true
			}
		}
	}
	return linSym(phi), true
}

func (b *builderCtx) isSym(v ssa.Value) bool {
	if phi, ok := v.(*ssa.Phi); ok {
		return b.counter(phi) != nil
	}
	return false
}

func (b *builderCtx) lin(v ssa.Value) Lin { return LinEval(v, b.symLin) }

// LAY4 decides DESIGN §3.6 LAY-4 (+ the builder half of AXIS-1) on the eight build* functions.
func LAY4(e *Env) {
	built := e.builtReaderTypes()
	type target struct {
		fn     *ssa.Function
		binary bool
	}
	var targets []target
	for _, a := range BuilderAnchors {
		if fn := e.Fn(a.Name); fn != nil {
			targets = append(targets, target{fn, a.Binary})
		}
	}
	nctl := 0
	for _, tag := range []string{"LAY4", "LAY4Axis"} {
		bad, good := e.CtlFns(tag)
		for _, f := range append(bad, good...) {
			targets = append(targets, target{f, !strings.Contains(f.Name(), "Ascii")})
			nctl++
		}
	}
	comps := 0
	for _, t := range targets {
		comps += lay4Builder(e, t.fn, t.binary, built)
	}
	e.R.Extra["lay4_builders"] = len(targets) - nctl
	e.R.Extra["lay4_components"] = comps
	e.CtlDone("LAY-4", "LAY4")
	e.CtlDone("AXIS-1", "LAY4Axis")
}

func lay4Builder(e *Env, fn *ssa.Function, binary bool, built map[*types.Named]bool) int {
	const rule = "LAY-4"
	name := e.Name(fn)
	b := &builderCtx{e: e, fn: fn, binary: binary, elems: propElemAddrs(fn), counters: map[*ssa.Phi]*Counter{}, iterSym: map[*ssau.Loop]ssa.Value{}}
	if len(b.elems) == 0 {
		e.Undecide(fn, rule, name, fn.Pos(), "no loop over the element's []Property found: the offset computation cannot be located")
		return 0
	}
	sites := literalSites(fn, func(t *types.Named) bool { return built[t] })
	if len(sites) == 0 {
		e.Undecide(fn, rule, name, fn.Pos(), "no built reader is constructed in this function")
		return 0
	}
	idxForm := b.lin(b.elems[0].Index)
	for _, el := range b.elems[1:] {
		if !b.lin(el.Index).Equal(idxForm) {
			e.Undecide(fn, rule, name, el.Pos(), "the property list is subscripted in more than one way; ordinal of the current property is ambiguous")
			return 0
		}
	}
	comps := 0
	usedCounters := map[*ssa.Phi]bool{}
	for _, a := range sites {
		named := siteNamed(a)
		stores := fieldStores(a)
		st := named.Underlying().(*types.Struct)
		for i := 0; i < st.NumFields(); i++ {
			f := st.Field(i)
			axis := AxisOf(f.Name())
			if axis == "" || !strings.HasSuffix(strings.ToLower(f.Name()), "offset") {
				continue
			}
			comps++
			construct := name + "→" + named.Obj().Name() + "." + f.Name()
			ss := stores[f.Name()]
			if len(ss) != 1 {
				e.Violate(fn, rule, construct, sitePos(a), fmt.Sprintf("offset field %s is assigned %d times where the reader is built (expected once): the component would be decoded from offset 0", f.Name(), len(ss)))
				continue
			}
			s := ss[0]
			leaves := PhiLeaves(s.Val, func(p *ssa.Phi) bool { return b.isSym(p) })
			captures := 0
			var facts []string
			undecHelper := ""
			verdictBad := ""
			axisBad := ""
			undec := ""
			for _, lf := range leaves {
				if k, ok := ssau.ConstInt(lf.V); ok {
					if k >= 0 {
						verdictBad = fmt.Sprintf("constant offset %d reaches %s", k, f.Name())
					}
					continue // sentinel
				}
				form := b.lin(lf.V)
				captures++
				where := "direct"
				if lf.From != nil {
					where = fmt.Sprintf("edge b%d→b%d", lf.From.Index, lf.To.Index)
				}
				if binary {
					// must be exactly one accumulator, coefficient 1, nothing else
					var acc *ssa.Phi
					okForm := !form.Bad && form.K == 0 && len(form.Coef) == 1
					if okForm {
						for sy, co := range form.Coef {
							p, isPhi := sy.(*ssa.Phi)
							if !isPhi || co != 1 {
								okForm = false
							} else {
								acc = p
							}
						}
					}
					if !okForm {
						if viaHelper(lf.V) {
							undecHelper = "the byte offset is computed by a helper function; the offset discipline is only analysed where the scan and the construction are in one function"
							continue
						}
						verdictBad = fmt.Sprintf("captured byte offset is %s, not the running size before the advance (%s)", form, where)
						continue
					}
					usedCounters[acc] = true
					facts = append(facts, fmt.Sprintf("captured = accumulator %s before its advance (%s)", acc.Name(), where))
				} else {
					if form.Bad || !form.Equal(idxForm) {
						verdictBad = fmt.Sprintf("captured column is %s but the property's ordinal is %s (%s)", form, idxForm, where)
						continue
					}
					facts = append(facts, fmt.Sprintf("captured = ordinal of the current property %s (%s)", idxForm, where))
				}
				// AXIS-1: which property name guards the capture
				conds := LeafConds(lf, s.Block())
				var axes []string
				for _, c := range conds {
					if ax, eq, ok := nameLiteral(c); ok && eq {
						axes = append(axes, ax)
					}
				}
				if len(axes) == 0 {
					undec = "capture (" + where + ") is not guarded by a comparison of the property name with one of the reader's PlyProperty fields"
				} else {
					match := false
					for _, ax := range axes {
						if ax == axis {
							match = true
						}
					}
					if !match {
						axisBad = fmt.Sprintf("%s receives the offset captured under the name test of component %s (%s)", f.Name(), strings.Join(axes, ","), where)
					} else {
						facts = append(facts, "capture guarded by PropertyName == PlyProperty"+strings.TrimPrefix(axis, "S"))
					}
				}
			}
			sort.Strings(facts)
			switch {
			case verdictBad == "" && undecHelper != "":
				e.Undecide(fn, rule, construct, s.Pos(), undecHelper, facts...)
			case verdictBad != "":
				e.Violate(fn, rule, construct, s.Pos(), verdictBad+": a file whose properties are laid out differently from the library's own writer is decoded from the wrong bytes/column", facts...)
			case captures == 0:
				e.Violate(fn, rule, construct, s.Pos(), "no header-derived offset ever reaches "+f.Name(), facts...)
			default:
				e.Hold(fn, rule, construct, s.Pos(), facts...)
			}
			// AXIS-1 obligation (builder half)
			axConstruct := construct
			switch {
			case axisBad != "":
				e.Violate(fn, "AXIS-1", axConstruct, s.Pos(), axisBad+": components swapped on read")
			case undec != "" && captures > 0:
				e.Undecide(fn, "AXIS-1", axConstruct, s.Pos(), undec)
			case captures > 0:
				e.Hold(fn, "AXIS-1", axConstruct, s.Pos(), "offset captured under the name test of its own component "+axis)
			}
		}
	}
	// accumulator discipline (binary)
	if binary {
		var accs []*ssa.Phi
		for p := range usedCounters {
			accs = append(accs, p)
		}
		sort.Slice(accs, func(i, j int) bool {
			return accs[i].Pos() < accs[j].Pos() || (accs[i].Pos() == accs[j].Pos() && accs[i].Name() < accs[j].Name())
		})
		for _, acc := range accs {
			c := b.counters[acc]
			construct := name + "/accumulator"
			okAcc := true
			var facts []string
			for _, in := range c.Init {
				if k, ok := ssau.ConstInt(in); !ok || k != 0 {
					okAcc = false
					e.Violate(fn, rule, construct, acc.Pos(), "running size does not start at 0 (starts at "+in.String()+")")
				}
			}
			// the loop must be the one walking the property list
			if !c.Loop.Blocks[b.elems[0].Block()] {
				okAcc = false
				e.Violate(fn, rule, construct, acc.Pos(), "running size is not advanced in the loop over the element's properties")
			}
			b.discoverSize()
			for _, lf := range c.Latch {
				got := b.lin(lf.V)
				want := Lin{Bad: true}
				if b.sizeRep != nil {
					want = linSym(acc).add(linSym(b.sizeRep), 1)
				}
				if !got.Equal(want) {
					okAcc = false
					e.Violate(fn, rule, construct, acc.Pos(),
						fmt.Sprintf("on the back edge b%d→b%d the running size is %s instead of (previous + Size(current property)): a property is skipped or counted twice, so every later offset is wrong", lf.From.Index, lf.To.Index, got),
						"expected "+want.String())
				} else {
					facts = append(facts, fmt.Sprintf("back edge b%d→b%d: previous + Size(current property)", lf.From.Index, lf.To.Index))
				}
			}
			if okAcc {
				sort.Strings(facts)
				e.Hold(fn, rule, construct, acc.Pos(), facts...)
			}
		}
	}
	return comps
}

// discoverSize makes sure the Size(current property) representative is known.
func (b *builderCtx) discoverSize() {
	ssau.AllInstrs(b.fn, func(in ssa.Instruction) {
		if v, ok := in.(ssa.Value); ok {
			if _, isS := isSizeCall(v); isS {
				b.symLin(v)
			}
		}
	})
}

// viaHelper: v is (an extracted result of) a call of a formats/ply function.
func viaHelper(v ssa.Value) bool {
	v = StripConv(v)
	if ex, ok := v.(*ssa.Extract); ok {
		v = ex.Tuple
	}
	cl, ok := v.(*ssa.Call)
	if !ok {
		return false
	}
	g := cl.Common().StaticCallee()
	return g != nil && g.Pkg != nil && g.Pkg.Pkg.Path() == PlyPath && g.Blocks != nil
}
