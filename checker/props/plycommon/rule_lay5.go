package plycommon

import (
	"fmt"
	"go/token"
	"go/types"
	"sort"
	"strings"

	"golang.org/x/tools/go/ssa"

	"polycheck/ssau"
)

// FormatTokens links the Format constants to the tokens of the `format` header
// line, from both directions (Header.Write and readPlyHeaderFormat).
type FormatTokens struct {
	Written map[string]string // Format constant value -> token written
	Parsed  map[string]string // token -> Format constant value returned
	Big     string            // constant value standing for binary_big_endian
	Little  string
	Ascii   string
	OK      bool
}

var wireTokens = []string{"ascii", "binary_big_endian", "binary_little_endian"}

// FormatTable builds the token tables and records the LAY-5 header obligations.
func FormatTable(e *Env, writerSide, readerSide bool) *FormatTokens {
	ft := &FormatTokens{Written: map[string]string{}, Parsed: map[string]string{}}
	names := e.ConstTable("Format")
	// --- writer: Header.Write
	hw := e.Fn("Header.Write")
	if hw != nil {
		for _, sw := range EnumSwitches(hw, IsNamedPly("Format")) {
			if recvFieldLoad(hw, sw.Tag) == nil {
				continue
			}
			for _, c := range sw.Consts() {
				region := sw.Region(c)
				for _, b := range hw.Blocks {
					if !region[b] {
						continue
					}
					for _, in := range b.Instrs {
						v, ok := in.(ssa.Value)
						if !ok {
							continue
						}
						for _, op := range in.Operands(nil) {
							if s, ok := ConstStr(*op); ok {
								f := strings.Fields(s)
								for i := 0; i+1 < len(f); i++ {
									if f[i] == "format" {
										ft.Written[c] = f[i+1]
									}
								}
							}
						}
						_ = v
					}
				}
			}
		}
	}
	// --- reader: readPlyHeaderFormat
	rf := e.Fn("readPlyHeaderFormat")
	if rf != nil {
		for _, sw := range EnumSwitches(rf, func(t types.Type) bool {
			b, ok := t.Underlying().(*types.Basic)
			return ok && b.Kind() == types.String
		}) {
			for _, cs := range sw.Cases {
				n := len(cs.Target.Instrs)
				if n == 0 {
					continue
				}
				ret, ok := cs.Target.Instrs[n-1].(*ssa.Return)
				if !ok || len(ret.Results) == 0 {
					continue
				}
				if !IsNamedPly("Format")(ret.Results[0].Type()) {
					continue
				}
				if v, ok := ConstStr(ret.Results[0]); ok {
					ft.Parsed[cs.Const] = v
				}
			}
		}
	}
	if hw == nil || rf == nil {
		return ft
	}
	var bad []string
	for _, tok := range wireTokens {
		c, ok := ft.Parsed[tok]
		if !ok {
			bad = append(bad, "header token "+tok+" is not recognised by readPlyHeaderFormat")
			continue
		}
		if ft.Written[c] != tok {
			bad = append(bad, fmt.Sprintf("token %s parses to %s, which Header.Write spells %q", tok, names[c], ft.Written[c]))
		}
	}
	for c, tok := range ft.Written {
		if ft.Parsed[tok] != c {
			bad = append(bad, fmt.Sprintf("%s is written as %q, which parses to %s", names[c], tok, names[ft.Parsed[tok]]))
		}
	}
	sort.Strings(bad)
	ft.Big, ft.Little, ft.Ascii = ft.Parsed["binary_big_endian"], ft.Parsed["binary_little_endian"], ft.Parsed["ascii"]
	if len(bad) > 0 {
		e.Violate(hw, "LAY-5", "formats/ply:format-tokens", hw.Pos(), "Header.Write and readPlyHeaderFormat disagree on the format line: "+strings.Join(bad, "; "))
		// the selection sites are still judged, against what the parser returns for each token
		ft.OK = ft.Big != "" && ft.Little != "" && ft.Ascii != ""
		return ft
	}
	ft.OK = true
	var facts []string
	for _, tok := range wireTokens {
		facts = append(facts, tok+" ↔ "+names[ft.Parsed[tok]])
	}
	e.Hold(hw, "LAY-5", "formats/ply:format-tokens", hw.Pos(), facts...)
	return ft
}

func globalLoadOf(v ssa.Value, pkg, name string) bool {
	mi, ok := v.(*ssa.MakeInterface)
	if !ok {
		return false
	}
	u, ok := mi.X.(*ssa.UnOp)
	if !ok || u.Op != token.MUL {
		return false
	}
	g, ok := u.X.(*ssa.Global)
	return ok && g.Name() == name && g.Pkg != nil && g.Pkg.Pkg.Path() == pkg
}

// hasFormatLit: the literals contain `x == bigConst` with the wanted polarity, x of type Format.
func hasFormatLit(conds []Lit, bigConst string, want bool) (found bool, opposite bool) {
	for _, c := range conds {
		x, k, eq, ok := c.EqConst()
		if !ok || !IsNamedPly("Format")(x.Type()) {
			continue
		}
		if s, isS := ConstStr(k); isS && s == bigConst {
			if eq == want {
				found = true
			} else {
				opposite = true
			}
		}
	}
	return
}

// LAY5 decides: binary.BigEndian is selected exactly where format == <the
// constant that is written and parsed as binary_big_endian>, and LittleEndian
// on the complementary edge, at every selection site of formats/ply.
func LAY5(e *Env, ft *FormatTokens, scope func(fn *ssa.Function) bool) {
	const rule = "LAY-5"
	if !ft.OK {
		return
	}
	names := e.ConstTable("Format")
	sites := 0
	for _, fn := range e.All {
		if !e.IsCtl(fn) && scope != nil && !scope(fn) {
			continue
		}
		var bigs []ssa.Value
		ssau.AllInstrs(fn, func(in ssa.Instruction) {
			if v, ok := in.(ssa.Value); ok && globalLoadOf(v, "encoding/binary", "BigEndian") {
				bigs = append(bigs, v)
			}
		})
		if len(bigs) == 0 {
			continue
		}
		sites++
		construct := e.Name(fn) + "/byte-order"
		bad, undec := "", ""
		var facts []string
		for _, big := range bigs {
			used := false
			for _, r := range ssau.Refs(big) {
				switch u := r.(type) {
				case *ssa.Phi:
					used = true
					for i, ed := range u.Edges {
						pred := u.Block().Preds[i]
						conds := CondsOnEdge(pred, u.Block())
						switch {
						case ed == big:
							ok, opp := hasFormatLit(conds, ft.Big, true)
							if opp {
								bad = "BigEndian is selected where the format is NOT " + names[ft.Big]
							} else if !ok {
								bad = "BigEndian is selected on an edge that is not guarded by format == " + names[ft.Big]
							} else {
								facts = append(facts, "BigEndian ⇐ format == "+names[ft.Big])
							}
						case globalLoadOf(ed, "encoding/binary", "LittleEndian"):
							ok, opp := hasFormatLit(conds, ft.Big, false)
							if opp {
								bad = "LittleEndian is selected where the format IS " + names[ft.Big]
							} else if !ok {
								bad = "LittleEndian is kept on an edge where the format may still be " + names[ft.Big]
							} else {
								facts = append(facts, "LittleEndian ⇐ format != "+names[ft.Big])
							}
						default:
							undec = "byte order joins with a value that is neither binary.BigEndian nor binary.LittleEndian"
						}
					}
				case *ssa.Return:
					used = true
					conds := CondsAt(u.Block())
					// a helper: the format it looks at must be its parameter, and no caller may pin it to a constant
					for _, c := range conds {
						x, k, _, ok := c.EqConst()
						if !ok || !IsNamedPly("Format")(x.Type()) {
							continue
						}
						if sv, _ := ConstStr(k); sv != ft.Big {
							continue
						}
						prm, isParam := StripConv(x).(*ssa.Parameter)
						if !isParam {
							continue
						}
						for _, caller := range e.All {
							ssau.AllInstrs(caller, func(in ssa.Instruction) {
								cl, ok := in.(*ssa.Call)
								if !ok || cl.Common().StaticCallee() != fn {
									return
								}
								for i, gp := range fn.Params {
									if gp == prm && i < len(cl.Common().Args) {
										if _, isConst := cl.Common().Args[i].(*ssa.Const); isConst {
											e.Violate(caller, rule, e.Name(caller)+"/byte-order", cl.Pos(), "the byte-order helper "+fn.Name()+" is called with a constant format: the byte order no longer follows the format of the file being written / read")
										} else if !e.IsCtl(caller) {
											facts = append(facts, "called from "+e.Name(caller)+" with its format value")
										}
									}
								}
							})
						}
					}
					if ok, _ := hasFormatLit(conds, ft.Big, true); !ok {
						bad = "BigEndian is returned on a path not guarded by format == " + names[ft.Big]
					} else {
						facts = append(facts, "returns BigEndian ⇐ format == "+names[ft.Big])
					}
					// sibling returns of LittleEndian
					ssau.AllInstrs(fn, func(in ssa.Instruction) {
						if r2, ok := in.(*ssa.Return); ok && r2 != u {
							for _, res := range r2.Results {
								if globalLoadOf(res, "encoding/binary", "LittleEndian") {
									if ok, _ := hasFormatLit(CondsAt(r2.Block()), ft.Big, false); !ok {
										bad = "LittleEndian is returned on a path where the format may be " + names[ft.Big]
									}
								}
							}
						}
					})
				case *ssa.DebugRef:
				default:
					used = true
					conds := CondsAt(big.(ssa.Instruction).Block())
					if ok, _ := hasFormatLit(conds, ft.Big, true); !ok {
						bad = "BigEndian is used without a dominating test format == " + names[ft.Big]
					}
				}
			}
			_ = used
		}
		sort.Strings(facts)
		pos := bigs[0].Pos()
		if !pos.IsValid() {
			pos = ssau.PosOf(bigs[0].(ssa.Instruction))
		}
		switch {
		case bad != "":
			e.Violate(fn, rule, construct, pos, bad+": big-endian files are produced / decoded with the wrong byte order", facts...)
		case undec != "":
			e.Undecide(fn, rule, construct, pos, undec)
		default:
			e.Hold(fn, rule, construct, pos, facts...)
		}
	}
	e.R.Extra["lay5_selection_sites"] = sites
	e.CtlDone(rule, "LAY5")
}
