package plycommon

import (
	"fmt"
	"go/token"
	"go/types"
	"sort"

	"golang.org/x/tools/go/ssa"

	"polycheck/ssau"
)

// builtReaderTypes: the struct types of formats/ply that implement builtPropertyReader.
func (e *Env) builtReaderTypes() map[*types.Named]bool {
	out := map[*types.Named]bool{}
	ifaceN := e.NamedType("builtPropertyReader")
	if ifaceN == nil {
		e.R.Failf("anchor %s.builtPropertyReader not found", PlyRel)
		return out
	}
	iface, _ := ifaceN.Underlying().(*types.Interface)
	if iface == nil {
		e.R.Failf("anchor %s.builtPropertyReader is not an interface", PlyRel)
		return out
	}
	sc := e.Pkg.Pkg.Scope()
	for _, n := range sc.Names() {
		tn, ok := sc.Lookup(n).(*types.TypeName)
		if !ok {
			continue
		}
		named, ok := tn.Type().(*types.Named)
		if !ok {
			continue
		}
		if _, isStruct := named.Underlying().(*types.Struct); !isStruct {
			continue
		}
		if types.Implements(named, iface) || types.Implements(types.NewPointer(named), iface) {
			out[named] = true
		}
	}
	return out
}

// isScalarTypeLoad: v reads field Type of a ply.ScalarProperty.
func isScalarTypeLoad(v ssa.Value) bool {
	_, f := LoadedField(v)
	if f == nil || f.Name() != "Type" {
		return false
	}
	// the field must belong to ScalarProperty
	switch x := ssau.Strip(v).(type) {
	case *ssa.UnOp:
		if fa, ok := x.X.(*ssa.FieldAddr); ok {
			return ssau.IsNamed(fa.X.Type(), PlyPath, "ScalarProperty")
		}
	case *ssa.Field:
		return ssau.IsNamed(x.X.Type(), PlyPath, "ScalarProperty")
	}
	return false
}

// literalSites returns the places in fn where a struct of one of the wanted
// named types is constructed field by field: the base address (an Alloc, an
// element of a slice literal, a field of an enclosing literal) of every group of
// field stores, except bases that first receive a whole-value copy (modified copies,
// spilled parameters).
func literalSites(fn *ssa.Function, want func(*types.Named) bool) []ssa.Value {
	var out []ssa.Value
	seen := map[ssa.Value]bool{}
	ssau.AllInstrs(fn, func(in ssa.Instruction) {
		fa, ok := in.(*ssa.FieldAddr)
		if !ok {
			return
		}
		base := fa.X
		if seen[base] {
			return
		}
		pt, ok := base.Type().Underlying().(*types.Pointer)
		if !ok {
			return
		}
		named, ok := types.Unalias(pt.Elem()).(*types.Named)
		if !ok || !want(named) {
			return
		}
		stored := false
		for _, r := range ssau.Refs(fa) {
			if st, ok := r.(*ssa.Store); ok && st.Addr == fa {
				stored = true
			}
		}
		if !stored {
			return
		}
		switch base.(type) {
		case *ssa.Alloc, *ssa.IndexAddr, *ssa.FieldAddr:
		default:
			return // a field of some other object is updated (x.f = v through a pointer): not a construction
		}
		for _, r := range ssau.Refs(base) {
			if st, ok := r.(*ssa.Store); ok && st.Addr == base {
				return // whole-value store: a copy of some other value that is then modified
			}
		}
		seen[base] = true
		out = append(out, base)
	})
	return out
}

// siteNamed returns the struct type constructed at a site.
func siteNamed(site ssa.Value) *types.Named {
	return types.Unalias(site.Type().Underlying().(*types.Pointer).Elem()).(*types.Named)
}

// siteBlock returns the block in which the site's address is formed.
func siteBlock(site ssa.Value) *ssa.BasicBlock {
	if in, ok := site.(ssa.Instruction); ok {
		return in.Block()
	}
	return nil
}

// sitePos returns a usable source position for the site.
func sitePos(site ssa.Value) token.Pos {
	if site.Pos().IsValid() {
		return site.Pos()
	}
	for _, ss := range fieldStores(site) {
		for _, s := range ss {
			if s.Pos().IsValid() {
				return s.Pos()
			}
		}
	}
	if in, ok := site.(ssa.Instruction); ok {
		return ssau.PosOf(in)
	}
	return token.NoPos
}

// fieldStores returns, per field name, the stores into the site's fields.
func fieldStores(a ssa.Value) map[string][]*ssa.Store {
	out := map[string][]*ssa.Store{}
	for _, r := range ssau.Refs(a) {
		fa, ok := r.(*ssa.FieldAddr)
		if !ok || fa.X != a {
			continue
		}
		f := ssau.FieldOf(fa)
		if f == nil {
			continue
		}
		for _, rr := range ssau.Refs(fa) {
			if st, ok := rr.(*ssa.Store); ok && st.Addr == fa {
				out[f.Name()] = append(out[f.Name()], st)
			}
		}
	}
	return out
}

// LAY7 decides DESIGN §3.6 LAY-7: wherever a built PLY property reader is
// constructed, each of its fields of type ScalarPropertyType receives a value
// that is data-dependent on a read of ScalarProperty.Type (never the zero value
// or a constant).
func LAY7(e *Env) {
	const rule = "LAY-7"
	built := e.builtReaderTypes()
	n := 0
	for _, fn := range e.All {
		sites := literalSites(fn, func(t *types.Named) bool { return built[t] })
		for _, a := range sites {
			named := siteNamed(a)
			st := named.Underlying().(*types.Struct)
			stores := fieldStores(a)
			for i := 0; i < st.NumFields(); i++ {
				f := st.Field(i)
				if !IsNamedPly("ScalarPropertyType")(f.Type()) {
					continue
				}
				n++
				construct := e.Name(fn) + "→" + named.Obj().Name() + "." + f.Name()
				ss := stores[f.Name()]
				if len(ss) == 0 {
					e.Violate(fn, rule, construct, sitePos(a),
						"field "+f.Name()+" is never assigned where the reader is built: it keeps the zero value, so the type-dependent decoding (uchar → /255) never applies")
					continue
				}
				ok := false
				var seen []string
				for _, s := range ss {
					for _, lf := range PhiLeaves(s.Val, nil) {
						if len(SliceFind(lf.V, isScalarTypeLoad)) > 0 {
							ok = true
							seen = append(seen, "derived from ScalarProperty.Type read at "+e.Pos(lf.V.Pos()))
						} else {
							seen = append(seen, "other source: "+lf.V.String())
						}
					}
				}
				sort.Strings(seen)
				if ok {
					e.Hold(fn, rule, construct, ss[0].Pos(), seen...)
				} else {
					e.Violate(fn, rule, construct, ss[0].Pos(),
						"field "+f.Name()+" never receives the header's ScalarProperty.Type (only the zero value / constants reach it): values of 8-bit properties are decoded differently from the sibling encoding",
						seen...)
				}
			}
		}
	}
	e.R.Extra["lay7_fields"] = n
	e.CtlDone(rule, "LAY7")
}

// ---------------------------------------------------------------------------
// IO-3

var inputPrims = map[string]bool{
	"io.ReadFull": true, "io.ReadAtLeast": true, "io.CopyN": true,
	"encoding/binary.Read": true,
	"strconv.ParseFloat":   true, "strconv.ParseInt": true, "strconv.ParseUint": true, "strconv.Atoi": true,
	"(io.Reader).Read": true, "(*bufio.Reader).ReadString": true, "(*bufio.Reader).ReadByte": true,
	"(*bufio.Reader).ReadBytes": true, "(*bufio.Reader).Read": true, "(*bufio.Reader).ReadLine": true,
}

// DecodeScope: functions of formats/ply reachable from the decode entry points
// (static calls, closures, and ply-interface method calls resolved to every ply
// implementation).
func (e *Env) DecodeScope() []*ssa.Function {
	roots := []string{"ReadHeader", "MeshReader.Read"}
	var work []*ssa.Function
	for _, r := range roots {
		if f := e.Fn(r); f != nil {
			work = append(work, f)
		}
	}
	for _, r := range []string{"ReadMesh", "MeshReader.Load", "Load"} {
		if f := e.FnOpt(r); f != nil {
			work = append(work, f)
		}
	}
	// controls are analysed as if they were decode functions
	for _, f := range e.All {
		if e.IsCtl(f) {
			work = append(work, f)
		}
	}
	byName := map[string][]*ssa.Function{}
	for _, f := range e.All {
		if f.Signature.Recv() != nil {
			byName[f.Name()] = append(byName[f.Name()], f)
		}
	}
	seen := map[*ssa.Function]bool{}
	for len(work) > 0 {
		f := work[len(work)-1]
		work = work[:len(work)-1]
		if f == nil || seen[f] || f.Blocks == nil {
			continue
		}
		if f.Pkg != e.Pkg && (f.Parent() == nil || f.Parent().Pkg != e.Pkg) {
			continue
		}
		seen[f] = true
		work = append(work, f.AnonFuncs...)
		ssau.AllInstrs(f, func(in ssa.Instruction) {
			ci, ok := in.(ssa.CallInstruction)
			if !ok {
				return
			}
			cc := ci.Common()
			if cc.IsInvoke() {
				if cc.Method.Pkg() != nil && cc.Method.Pkg().Path() == PlyPath {
					iface, _ := cc.Value.Type().Underlying().(*types.Interface)
					for _, m := range byName[cc.Method.Name()] {
						rt := m.Signature.Recv().Type()
						if iface == nil || types.Implements(rt, iface) || types.Implements(types.NewPointer(rt), iface) {
							work = append(work, m)
						}
					}
				}
				return
			}
			if callee := cc.StaticCallee(); callee != nil {
				work = append(work, callee)
			}
		})
	}
	var out []*ssa.Function
	for _, f := range e.All {
		if seen[f] {
			out = append(out, f)
		}
	}
	return out
}

func calleeLabel(cc *ssa.CallCommon, callee *types.Func) string {
	if callee == nil {
		return ""
	}
	if cc.IsInvoke() {
		if n := ssau.NamedOf(cc.Value.Type()); n != nil && n.Obj().Pkg() != nil {
			return "(" + n.Obj().Pkg().Path() + "." + n.Obj().Name() + ")." + callee.Name()
		}
		return callee.FullName()
	}
	return callee.FullName()
}

// IO3 decides DESIGN §3.5 IO-3 for the decode side of formats/ply: the error
// result of an input primitive or of a ply decode helper is never dropped.
func IO3(e *Env) {
	const rule = "IO-3"
	scope := e.DecodeScope()
	n := 0
	for _, fn := range scope {
		ord := map[string]int{}
		type site struct {
			in     ssa.CallInstruction
			callee *types.Func
			label  string
		}
		var sites []site
		ssau.AllInstrs(fn, func(in ssa.Instruction) {
			ci, ok := in.(ssa.CallInstruction)
			if !ok {
				return
			}
			cc, callee := CallTo(ci)
			if callee == nil {
				return
			}
			sig, ok := callee.Type().(*types.Signature)
			if !ok || sig.Results().Len() == 0 {
				return
			}
			last := sig.Results().At(sig.Results().Len() - 1).Type()
			if !types.Identical(last, types.Universe.Lookup("error").Type()) {
				return
			}
			label := calleeLabel(cc, callee)
			inPly := callee.Pkg() != nil && callee.Pkg().Path() == PlyPath
			prim := inputPrims[label] || inputPrims["("+recvString(callee)+")."+callee.Name()]
			if cc.IsInvoke() && callee.Name() == "Read" && callee.Pkg() != nil && callee.Pkg().Path() == "io" {
				prim = true
			}
			if !inPly && !prim {
				return
			}
			sites = append(sites, site{ci, callee, label})
		})
		sort.SliceStable(sites, func(i, j int) bool { return sites[i].in.Pos() < sites[j].in.Pos() })
		for _, s := range sites {
			key := s.callee.Name()
			ord[key]++
			n++
			construct := fmt.Sprintf("%s→%s#%d", e.Name(fn), key, ord[key])
			sig := s.callee.Type().(*types.Signature)
			dropped, how := errDropped(s.in, sig.Results().Len())
			if dropped {
				e.Violate(fn, rule, construct, s.in.Pos(),
					"error result of "+s.label+" is dropped ("+how+"): a failed decode continues with stale / zero data instead of rejecting the file",
					"callee "+s.label)
			} else {
				e.Hold(fn, rule, construct, s.in.Pos(), how)
			}
		}
	}
	e.R.Extra["io3_decode_functions"] = len(scope)
	e.R.Extra["io3_call_sites"] = n
	e.CtlDone(rule, "IO3")
}

func recvString(f *types.Func) string {
	sig, ok := f.Type().(*types.Signature)
	if !ok || sig.Recv() == nil {
		return ""
	}
	return types.TypeString(sig.Recv().Type(), nil)
}

// errDropped: the error (last result) of the call has no use.
func errDropped(ci ssa.CallInstruction, nres int) (bool, string) {
	v := ci.Value()
	if v == nil { // go / defer
		return true, "called in a go/defer statement"
	}
	uses := func(x ssa.Value) int {
		n := 0
		for _, r := range ssau.Refs(x) {
			if _, dbg := r.(*ssa.DebugRef); dbg {
				continue
			}
			n++
		}
		return n
	}
	if nres == 1 {
		if uses(v) == 0 {
			return true, "call used as a statement"
		}
		return false, "error result is used"
	}
	for _, r := range ssau.Refs(v) {
		if ex, ok := r.(*ssa.Extract); ok && ex.Index == nres-1 {
			if uses(ex) > 0 {
				return false, "error result is used"
			}
		}
	}
	return true, "error component never read"
}

var _ = token.NoPos
