package plycommon

import (
	"fmt"
	"go/token"
	"go/types"
	"sort"
	"strings"

	"golang.org/x/tools/go/ssa"

	"polycheck/ssau"
)

// webAppends collects the append calls that build the slice value v (following
// phis and the first argument of append backwards).
func webAppends(v ssa.Value) []*ssa.Call {
	var out []*ssa.Call
	seen := map[ssa.Value]bool{}
	var walk func(v ssa.Value)
	walk = func(v ssa.Value) {
		if v == nil || seen[v] {
			return
		}
		seen[v] = true
		switch x := v.(type) {
		case *ssa.Phi:
			for _, ed := range x.Edges {
				walk(ed)
			}
		case *ssa.Call:
			if ssau.Builtin(x) == "append" {
				out = append(out, x)
				walk(x.Common().Args[0])
			}
		}
	}
	walk(v)
	sort.Slice(out, func(i, j int) bool { return out[i].Pos() < out[j].Pos() })
	return out
}

// bufIndex: v loads buf[k] for a constant k.
func bufIndex(v ssa.Value, buf ssa.Value) (int64, bool) {
	u, ok := v.(*ssa.UnOp)
	if !ok || u.Op != token.MUL {
		return 0, false
	}
	ia, ok := u.X.(*ssa.IndexAddr)
	if !ok || ia.X != buf {
		return 0, false
	}
	return ssau.ConstInt(ia.Index)
}

// appendedCorners decodes what one append adds, as a sequence of corner numbers.
// intMode: elements are buf[c]; otherwise elements are vector2.New(buf[2c], buf[2c+1]).
func appendedCorners(cl *ssa.Call, buf ssa.Value, intMode bool) ([]int64, string) {
	arg := cl.Common().Args[1]
	sl, ok := arg.(*ssa.Slice)
	if !ok {
		return nil, "appended elements are not visible"
	}
	if sl.X == buf {
		lo, hi := int64(0), int64(-1)
		if sl.Low != nil {
			lo, _ = ssau.ConstInt(sl.Low)
		}
		if sl.High != nil {
			hi, _ = ssau.ConstInt(sl.High)
		}
		if hi < 0 || !intMode {
			return nil, "appended range of the buffer is not constant"
		}
		var out []int64
		for k := lo; k < hi; k++ {
			out = append(out, k)
		}
		return out, ""
	}
	a, ok := sl.X.(*ssa.Alloc)
	if !ok {
		return nil, "appended elements are not visible"
	}
	elems := map[int64]ssa.Value{}
	for _, r := range ssau.Refs(a) {
		ia, ok := r.(*ssa.IndexAddr)
		if !ok {
			continue
		}
		k, isK := ssau.ConstInt(ia.Index)
		if !isK {
			return nil, "appended elements are not at constant positions"
		}
		for _, rr := range ssau.Refs(ia) {
			if st, ok := rr.(*ssa.Store); ok && st.Addr == ia {
				elems[k] = st.Val
			}
		}
	}
	var out []int64
	for k := int64(0); k < int64(len(elems)); k++ {
		v, ok := elems[k]
		if !ok {
			return nil, "appended elements are not contiguous"
		}
		if intMode {
			c, ok := bufIndex(v, buf)
			if !ok {
				return nil, fmt.Sprintf("element %d is not read from the list buffer", k)
			}
			out = append(out, c)
			continue
		}
		call, ok := v.(*ssa.Call)
		if !ok {
			return nil, fmt.Sprintf("element %d is not a vector2.New(…)", k)
		}
		_, callee := CallTo(call)
		if n, isNew := IsVectorNew(callee); !isNew || n != 2 {
			return nil, fmt.Sprintf("element %d is not a vector2.New(…)", k)
		}
		x, okx := bufIndex(call.Common().Args[0], buf)
		y, oky := bufIndex(call.Common().Args[1], buf)
		if !okx || !oky {
			return nil, fmt.Sprintf("element %d is not built from the list buffer", k)
		}
		if x%2 != 0 || y != x+1 {
			return nil, fmt.Sprintf("element %d is (buf[%d], buf[%d]): u and v of one corner are items 2c and 2c+1", k, x, y)
		}
		out = append(out, x/2)
	}
	return out, ""
}

func seqStr(s []int64) string {
	var p []string
	for _, k := range s {
		p = append(p, itoa(k))
	}
	return "(" + strings.Join(p, ",") + ")"
}

// fanCtx is the frame in which the fan of one face reader is decided: the face
// reader itself, or an in-package helper it hands the list buffers to.
type fanCtx struct {
	fn      *ssa.Function
	via     string                         // "" or "via helper <name>"
	buf     [2]ssa.Value                   // index list buffer, texture-coordinate list buffer (in fn's terms)
	results [2][]ssa.Value                 // the values returned for the two lists
	sizeDep func(v ssa.Value) bool         // v depends on the size of the index list (or on the quad flag)
	isQuad  func(l Lit) (known, quad bool) // literal says: this face is / is not a quad
}

func dependsOnListSize(v ssa.Value) bool {
	return len(SliceFind(v, func(x ssa.Value) bool {
		_, f := LoadedField(x)
		return f != nil && f.Name() == "lastReadListSize"
	})) > 0
}

// quadValue: v is `size == 4` (size derived from lastReadListSize); neg for `size != 4`.
func quadValue(v ssa.Value, sizeDep func(ssa.Value) bool) (isQuadTest bool, neg bool) {
	l := normLit(v, true)
	x, k, eq, ok := l.EqConst()
	if !ok {
		return false, false
	}
	if n, isInt := ssau.ConstInt(k); !isInt || n != 4 || !sizeDep(x) {
		return false, false
	}
	return true, !eq
}

// webAppendsBase collects the appends that build v and the values the web starts from.
func webAppendsBase(v ssa.Value) (apps []*ssa.Call, base []ssa.Value) {
	seen := map[ssa.Value]bool{}
	var walk func(v ssa.Value)
	walk = func(v ssa.Value) {
		if v == nil || seen[v] {
			return
		}
		seen[v] = true
		switch x := v.(type) {
		case *ssa.Phi:
			for _, ed := range x.Edges {
				walk(ed)
			}
			return
		case *ssa.Call:
			if ssau.Builtin(x) == "append" {
				apps = append(apps, x)
				walk(x.Common().Args[0])
				return
			}
		}
		base = append(base, v)
	}
	walk(v)
	sort.Slice(apps, func(i, j int) bool { return apps[i].Pos() < apps[j].Pos() })
	return
}

// helperFrame binds an in-package helper that receives the accumulator and the list
// buffer of one web and returns the extended accumulator.
func helperFrame(c *fanCtx, web int) *fanCtx {
	// the web's value in c.fn comes (through phis) from result k of a static call
	var call *ssa.Call
	k := 0
	callerWeb := map[ssa.Value]bool{}
	for _, r := range c.results[web] {
		seen := map[ssa.Value]bool{}
		var walk func(v ssa.Value)
		walk = func(v ssa.Value) {
			if v == nil || seen[v] {
				return
			}
			seen[v] = true
			callerWeb[v] = true
			switch x := v.(type) {
			case *ssa.Phi:
				for _, ed := range x.Edges {
					walk(ed)
				}
			case *ssa.Extract:
				if cl, ok := x.Tuple.(*ssa.Call); ok {
					call, k = cl, x.Index
				}
			case *ssa.Call:
				if ssau.Builtin(x) == "" {
					call, k = x, 0
				}
			}
		}
		walk(r)
	}
	if call == nil {
		return nil
	}
	g := call.Common().StaticCallee()
	if g == nil || g.Blocks == nil || g.Pkg == nil || g.Pkg.Pkg.Path() != PlyPath || call.Common().IsInvoke() {
		return nil
	}
	args := call.Common().Args
	if len(args) != len(g.Params) {
		return nil
	}
	h := &fanCtx{fn: g, via: "via helper " + g.Name()}
	accParam := -1
	for i, a := range args {
		for w := 0; w < 2; w++ {
			if c.buf[w] != nil && a == c.buf[w] {
				h.buf[w] = g.Params[i]
			}
		}
		if callerWeb[a] {
			accParam = i
		}
	}
	if h.buf[web] == nil || accParam < 0 {
		return nil
	}
	// parameters that carry the list size / the quad flag
	sizeParam := map[ssa.Value]bool{}
	quadParam := map[ssa.Value]bool{} // value: negated?
	quadNeg := map[ssa.Value]bool{}
	for i, a := range args {
		if isQ, neg := quadValue(a, c.sizeDep); isQ {
			quadParam[g.Params[i]] = true
			quadNeg[g.Params[i]] = neg
			sizeParam[g.Params[i]] = true
		} else if c.sizeDep(a) {
			sizeParam[g.Params[i]] = true
		}
	}
	h.sizeDep = func(v ssa.Value) bool {
		return len(SliceFind(v, func(x ssa.Value) bool { return sizeParam[x] })) > 0
	}
	h.isQuad = func(l Lit) (bool, bool) {
		if quadParam[l.V] {
			return true, l.Pos != quadNeg[l.V]
		}
		if isQ, _ := quadValue(l.V, h.sizeDep); isQ {
			_, _, eq, _ := l.EqConst()
			return true, eq
		}
		return false, false
	}
	ssau.AllInstrs(g, func(in ssa.Instruction) {
		if r, ok := in.(*ssa.Return); ok && k < len(r.Results) {
			h.results[web] = append(h.results[web], r.Results[k])
		}
	})
	// the helper must extend the accumulator it was given
	for _, r := range h.results[web] {
		_, bs := webAppendsBase(r)
		for _, bv := range bs {
			if bv != ssa.Value(g.Params[accParam]) {
				if k2, isC := bv.(*ssa.Const); isC && k2.IsNil() {
					continue
				}
				return nil
			}
		}
	}
	return h
}

// decideFan decides one web (0 indices, 1 texture coordinates) in frame c.
func decideFan(e *Env, c *fanCtx, web int) (badMsg string, facts []string, pos token.Pos, found bool) {
	intMode := web == 0
	buf := c.buf[web]
	var apps []*ssa.Call
	seen := map[*ssa.Call]bool{}
	for _, r := range c.results[web] {
		as, _ := webAppendsBase(r)
		for _, a := range as {
			if !seen[a] {
				seen[a] = true
				apps = append(apps, a)
			}
		}
	}
	if len(apps) == 0 {
		return "", nil, token.NoPos, false
	}
	pos = apps[0].Pos()
	var tri, quad []*ssa.Call
	for _, a := range apps {
		isQ := false
		for _, l := range CondsAt(a.Block()) {
			if known, q := c.isQuad(l); known && q {
				isQ = true
			}
		}
		if isQ {
			quad = append(quad, a)
		} else {
			tri = append(tri, a)
		}
	}
	switch {
	case len(tri) != 1:
		badMsg = fmt.Sprintf("%d unconditional appends per face (expected one: the first triangle)", len(tri))
	case len(quad) != 1:
		badMsg = fmt.Sprintf("%d appends under `list size == 4` (expected one: the second fan triangle); a quad would contribute %d triangle(s)", len(quad), 1+len(quad))
	default:
		ts, why := appendedCorners(tri[0], buf, intMode)
		qs, why2 := appendedCorners(quad[0], buf, intMode)
		switch {
		case why != "":
			badMsg = "first triangle: " + why
		case why2 != "":
			badMsg = "second triangle: " + why2
		case seqStr(ts) != "(0,1,2)":
			badMsg = "every face contributes corners " + seqStr(ts) + ", expected (0,1,2)"
		case seqStr(qs) != "(0,2,3)":
			badMsg = "a quad's second triangle is " + seqStr(qs) + ", the fan over (0,1,2,3) is (0,1,2),(0,2,3)"
		case !tri[0].Block().Dominates(quad[0].Block()):
			badMsg = "the second fan triangle can be emitted without / before the first"
		}
		if badMsg == "" && !flowsInto(tri[0], quad[0].Common().Args[0]) {
			badMsg = "the second fan triangle is not appended after the first"
		}
		// the first triangle must not depend on the face being a quad or on the list size
		// (other than the 3..4 range check)
		if badMsg == "" {
			for _, l := range CondsAt(tri[0].Block()) {
				if known, _ := c.isQuad(l); known {
					badMsg = "the first triangle is appended only for one of the two face sizes"
					continue
				}
				if !c.sizeDep(l.V) || isLoopExitCond(e, c.fn, l, tri[0].Block()) {
					continue
				}
				b, isB := l.V.(*ssa.BinOp)
				okRange := false
				if isB {
					if k, isK := ssau.ConstInt(b.Y); isK {
						// the surviving side of `size < 3 || size > 4`
						okRange = (b.Op == token.LSS && k == 3 && !l.Pos) || (b.Op == token.GTR && k == 4 && !l.Pos) ||
							(b.Op == token.GEQ && k == 3 && l.Pos) || (b.Op == token.LEQ && k == 4 && l.Pos)
					}
				}
				if !okRange {
					badMsg = "the first triangle is appended under a condition on the list size other than the 3..4 range check"
				}
			}
		}
		facts = append(facts, "first "+seqStr(ts), "quad adds "+seqStr(qs))
	}
	if c.via != "" {
		facts = append(facts, c.via)
	}
	return badMsg, facts, pos, true
}

// LAY8 decides the quad fan of both face readers, following the tessellation into
// an in-package helper that receives the accumulator and the list buffer.
func LAY8(e *Env) {
	const rule = "LAY-8"
	var fns []*ssa.Function
	for _, n := range []string{"readAsciiFaceElement", "readBinaryFaceElement"} {
		if fn := e.Fn(n); fn != nil {
			fns = append(fns, fn)
		}
	}
	bad, good := e.CtlFns("LAY8")
	fns = append(fns, append(bad, good...)...)
	for _, fn := range fns {
		name := e.Name(fn)
		c := &fanCtx{fn: fn}
		ssau.AllInstrs(fn, func(in ssa.Instruction) {
			cl, ok := in.(*ssa.Call)
			if !ok {
				return
			}
			cc, callee := CallTo(cl)
			if callee == nil || callee.Pkg() == nil || callee.Pkg().Path() != PlyPath || ssau.RecvNamed(callee) == nil {
				return
			}
			if !strings.HasPrefix(ssau.RecvNamed(callee).Obj().Name(), "list") {
				return
			}
			switch callee.Name() {
			case "Int":
				c.buf[0] = Arg(cc, callee, 0)
			case "Float64":
				c.buf[1] = Arg(cc, callee, 0)
			}
		})
		ssau.AllInstrs(fn, func(in ssa.Instruction) {
			if r, ok := in.(*ssa.Return); ok && len(r.Results) >= 2 {
				if k, isC := r.Results[len(r.Results)-1].(*ssa.Const); isC && k.IsNil() {
					c.results[0] = append(c.results[0], r.Results[0])
					c.results[1] = append(c.results[1], r.Results[1])
				}
			}
		})
		c.sizeDep = dependsOnListSize
		c.isQuad = func(l Lit) (bool, bool) {
			if isQ, _ := quadValue(l.V, dependsOnListSize); isQ {
				_, _, eq, _ := l.EqConst()
				return true, eq
			}
			// a local boolean `isQuad := size == 4`
			return false, false
		}
		if c.buf[0] == nil || len(c.results[0]) == 0 {
			e.Undecide(fn, rule, name, fn.Pos(), "index list buffer or success return not found")
			continue
		}
		for web := 0; web < 2; web++ {
			label := "/indices"
			if web == 1 {
				label = "/texcoords"
			}
			construct := name + label
			if c.buf[web] == nil {
				e.Undecide(fn, rule, construct, fn.Pos(), "texture-coordinate list buffer not found")
				continue
			}
			badMsg, facts, pos, found := decideFan(e, c, web)
			if !found {
				if h := helperFrame(c, web); h != nil {
					badMsg, facts, pos, found = decideFan(e, h, web)
				}
			}
			if !found {
				badMsg, pos = "0 appends per face: the face lists are never collected (or are collected by code this rule cannot follow)", fn.Pos()
			}
			if badMsg != "" {
				e.Violate(fn, rule, construct, pos, badMsg+": quads are tessellated differently from what the file describes", facts...)
			} else {
				e.Hold(fn, rule, construct, pos, facts...)
			}
		}
	}
	e.CtlDone(rule, "LAY8")
}

// REC1Driver decides REC-1 on the two body loops of MeshReader.Read.
func REC1Driver(e *Env) {
	const rule = "REC-1"
	fn := e.Fn("MeshReader.Read")
	if fn == nil {
		return
	}
	name := e.Name(fn)
	loops := e.Loops(fn)
	// the element handed to the builders
	var elemRoots []ssa.Value
	ssau.AllInstrs(fn, func(in ssa.Instruction) {
		cl, ok := in.(*ssa.Call)
		if !ok {
			return
		}
		m := ""
		if cl.Common().IsInvoke() {
			m = cl.Common().Method.Name()
		} else if _, callee := CallTo(cl); callee != nil {
			m = callee.Name()
		}
		if m != "buildAscii" && m != "buildBinary" {
			return
		}
		var arg ssa.Value
		if cl.Common().IsInvoke() {
			arg = cl.Common().Args[0]
		} else {
			arg = cl.Common().Args[1]
		}
		if u, ok := arg.(*ssa.UnOp); ok && u.Op == token.MUL {
			elemRoots = append(elemRoots, u.X)
		}
	})
	sameElem := func(v ssa.Value) bool {
		for _, r := range elemRoots {
			if r != v {
				return false
			}
		}
		return len(elemRoots) > 0
	}
	for _, kind := range []string{"asciiPropertyReader", "binaryPropertyReader"} {
		construct := name + "/body:" + strings.TrimSuffix(kind, "PropertyReader")
		var reads []*ssa.Call
		ssau.AllInstrs(fn, func(in ssa.Instruction) {
			if cl, ok := in.(*ssa.Call); ok && cl.Common().IsInvoke() && cl.Common().Method.Name() == "Read" && ssau.IsNamed(cl.Common().Value.Type(), PlyPath, kind) {
				reads = append(reads, cl)
			}
		})
		if len(reads) != 1 {
			e.Undecide(fn, rule, construct, fn.Pos(), fmt.Sprintf("expected one %s.Read call site, found %d", kind, len(reads)))
			continue
		}
		r := reads[0]
		bad := ""
		var facts []string
		if kind == "binaryPropertyReader" {
			if handled, b, u, f := rec1Batched(e, fn, r, sameElem); handled {
				switch {
				case b != "":
					e.Violate(fn, rule, construct, r.Pos(), b, f...)
				case u != "":
					e.Undecide(fn, rule, construct, r.Pos(), u, f...)
				default:
					e.Hold(fn, rule, construct, r.Pos(), f...)
				}
				continue
			}
		}
		idx := StripConv(r.Common().Args[1])
		phi, _ := idx.(*ssa.Phi)
		var c *Counter
		if phi != nil {
			c = e.CounterOf(phi)
		}
		if c == nil {
			bad = "the record index handed to the readers is not the counter of the record loop"
		}
		if bad == "" {
			init, step, ok := counterStep(c)
			bound, op := loopBound(c)
			switch {
			case !ok || init != 0 || step != 1:
				bad = fmt.Sprintf("record index runs from %d in steps of %d (expected 0, 1): record i is not delivered as i", init, step)
			case op != token.LSS:
				bad = "record loop is not `i < Count`"
			default:
				fa, f := LoadedField(bound)
				if f == nil || f.Name() != "Count" || fa == nil || !ssau.IsNamed(fa.X.Type(), PlyPath, "Element") {
					bad = "record loop is not bounded by the element's Count"
				} else if !sameElem(fa.X) {
					bad = "record loop is bounded by the Count of a different element than the one the readers were built from (their output arrays have that other length)"
				} else {
					facts = append(facts, "for i := 0; i < element.Count; i++, same element as passed to every build*")
				}
			}
		}
		if bad == "" {
			// every reader of the list: the receiver is the element of a range over the reader list, inside the record loop
			inner := ssau.InnermostLoop(loops, r.Block())
			if inner == nil || inner == c.Loop || !c.Loop.Blocks[inner.Header] {
				bad = "Read is not called in a loop over the built readers nested in the record loop"
			} else if _, ok := loadOfIndex(r.Common().Value); !ok {
				bad = "Read is not called on each element of the reader list"
			}
		}
		if bad == "" {
			buf := r.Common().Args[0]
			if kind == "binaryPropertyReader" {
				// io.ReadFull(reader, buf) in the same iteration, dominating the delivery
				okRead := false
				for _, b := range fn.Blocks {
					if !c.Loop.Blocks[b] {
						continue
					}
					for _, in := range b.Instrs {
						if cl, ok := in.(*ssa.Call); ok {
							if cc, callee := CallTo(cl); ssau.IsFunc(callee, "io", "ReadFull") && cc.Args[1] == buf && cl.Block().Dominates(r.Block()) {
								okRead = true
							}
						}
					}
				}
				if !okRead {
					bad = "the buffer handed to the readers is not filled by an io.ReadFull of the same iteration"
				}
				// buffer length = Σ Size over all properties of the element
				if bad == "" {
					why := recordSize(e, fn, buf)
					if why != "" {
						bad = why
					} else {
						facts = append(facts, "record buffer = Σ Size(property) over every property of the element; filled by io.ReadFull each iteration")
					}
				}
			} else {
				// contents derive from scanner.Text() called in this iteration
				okText := false
				BackSlice(buf, func(v ssa.Value) bool {
					if cl, ok := v.(*ssa.Call); ok {
						if _, callee := CallTo(cl); callee != nil && callee.Name() == "Text" && c.Loop.Blocks[cl.Block()] {
							okText = true
						}
					}
					return true
				})
				if !okText {
					bad = "the columns handed to the readers are not the line read in the same iteration"
				} else {
					facts = append(facts, "columns = strings.Fields(scanner.Text()) of the same iteration")
				}
			}
		}
		if bad != "" {
			e.Violate(fn, rule, construct, r.Pos(), bad)
		} else {
			e.Hold(fn, rule, construct, r.Pos(), facts...)
		}
	}
	// output arrays sized by the element count (in the eight builders)
	built := e.builtReaderTypes()
	for _, a := range BuilderAnchors {
		bf := e.FnOpt(a.Name)
		if bf == nil {
			continue
		}
		for _, site := range literalSites(bf, func(t *types.Named) bool { return built[t] }) {
			named := siteNamed(site)
			construct := e.Name(bf) + "→" + named.Obj().Name() + ".arr"
			okLen := false
			for fname, ss := range fieldStores(site) {
				for _, s := range ss {
					ms, ok := s.Val.(*ssa.MakeSlice)
					if !ok {
						continue
					}
					_ = fname
					fa, f := LoadedField(StripConv(ms.Len))
					if f != nil && f.Name() == "Count" && fa != nil && ssau.IsNamed(fa.X.Type(), PlyPath, "Element") {
						okLen = true
					}
				}
			}
			if okLen {
				e.Hold(bf, rule, construct, sitePos(site), "output array = make([]T, element.Count)")
			} else {
				e.Violate(bf, rule, construct, sitePos(site), "the reader's output array is not sized by the element's Count: record i has no slot i (panic or truncated attribute)")
			}
		}
	}
}

// recordSize: buf = make([]byte, A) where A accumulates Size() of every property of the element.
func recordSize(e *Env, fn *ssa.Function, buf ssa.Value) string {
	ms, ok := buf.(*ssa.MakeSlice)
	if !ok {
		return "the record buffer is not a make([]byte, total)"
	}
	return accumulatedSize(e, fn, StripConv(ms.Len), 0)
}

// accumulatedSize: v is the running sum of Size() over every property of an element,
// computed in fn or (one level) in a formats/ply helper whose result v is.
func accumulatedSize(e *Env, fn *ssa.Function, v ssa.Value, depth int) string {
	if ex, isEx := v.(*ssa.Extract); isEx {
		if cl, isCall := ex.Tuple.(*ssa.Call); isCall {
			return helperSize(e, cl, ex.Index, depth)
		}
	}
	if cl, isCall := v.(*ssa.Call); isCall {
		return helperSize(e, cl, 0, depth)
	}
	phi, ok := v.(*ssa.Phi)
	if !ok {
		return "the record buffer's length is not the accumulated property size"
	}
	c := e.CounterOf(phi)
	if c == nil {
		return "the record buffer's length is not accumulated in a loop"
	}
	b := &builderCtx{e: e, fn: fn, binary: true, counters: map[*ssa.Phi]*Counter{}, iterSym: map[*ssau.Loop]ssa.Value{}}
	for _, ia := range propElemAddrs(fn) {
		if c.Loop.Blocks[ia.Block()] && ssau.InnermostLoop(e.Loops(fn), ia.Block()) == c.Loop {
			b.elems = append(b.elems, ia)
		}
	}
	if len(b.elems) == 0 {
		return "the record size is not accumulated over the element's property list"
	}
	for _, in := range c.Init {
		if k, ok := ssau.ConstInt(in); !ok || k != 0 {
			return "the record size does not start at 0"
		}
	}
	// Size calls of this loop only
	for _, bb := range fn.Blocks {
		if !c.Loop.Blocks[bb] {
			continue
		}
		for _, in := range bb.Instrs {
			if v, ok := in.(ssa.Value); ok {
				if _, isS := isSizeCall(v); isS {
					b.symLin(v)
				}
			}
		}
	}
	if b.sizeRep == nil {
		return "no Size() of the current property is added to the record size"
	}
	want := linSym(phi).add(linSym(b.sizeRep), 1)
	for _, lf := range c.Latch {
		if got := b.lin(lf.V); !got.Equal(want) {
			return "on some path the record size advances by " + got.String() + " instead of previous + Size(property): the record buffer is shorter/longer than a record"
		}
	}
	return ""
}

func helperSize(e *Env, cl *ssa.Call, idx int, depth int) string {
	callee := cl.Common().StaticCallee()
	if depth >= 2 || callee == nil || callee.Blocks == nil || callee.Pkg == nil || callee.Pkg.Pkg.Path() != PlyPath {
		return "the record buffer's length comes from a call that cannot be analysed"
	}
	n := 0
	why := ""
	ssau.AllInstrs(callee, func(in ssa.Instruction) {
		r, ok := in.(*ssa.Return)
		if !ok || idx >= len(r.Results) {
			return
		}
		// error returns (last result non-nil) do not deliver a size
		if last := r.Results[len(r.Results)-1]; len(r.Results) > 1 {
			if k, isC := last.(*ssa.Const); !isC || !k.IsNil() {
				return
			}
		}
		n++
		if w := accumulatedSize(e, callee, StripConv(r.Results[idx]), depth+1); w != "" {
			why = w
		}
	})
	if n == 0 {
		return "the size helper never returns successfully"
	}
	return why
}
