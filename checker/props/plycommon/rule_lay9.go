package plycommon

import (
	"fmt"
	"go/types"
	"sort"
	"strings"

	"golang.org/x/tools/go/ssa"

	"polycheck/ssau"
)

// LAY9 (beyond DESIGN; sibling-contradiction form of LAY-7): in a builder of a
// multi-component reader, the group's scalarType is established by the FIRST
// component found (`if scalarType == "" { scalarType = scalar.Type }`) and every
// component is then compared with it. An assignment that is not guarded by
// "still unset" lets a later component overwrite the type the earlier components
// were checked against, so a group with mixed types is decoded with the wrong
// width instead of being rejected (as the sibling encoding does).
func LAY9(e *Env) {
	const rule = "LAY-9"
	built := e.builtReaderTypes()
	var fns []*ssa.Function
	for _, a := range BuilderAnchors {
		if fn := e.Fn(a.Name); fn != nil {
			fns = append(fns, fn)
		}
	}
	bad, good := e.CtlFns("LAY9")
	fns = append(fns, append(bad, good...)...)
	n := 0
	for _, fn := range fns {
		for _, a := range literalSites(fn, func(t *types.Named) bool { return built[t] }) {
			named := siteNamed(a)
			st := named.Underlying().(*types.Struct)
			comps := 0
			for i := 0; i < st.NumFields(); i++ {
				if ax := AxisOf(st.Field(i).Name()); ax != "" && strings.HasSuffix(strings.ToLower(st.Field(i).Name()), "offset") {
					comps++
				}
			}
			if comps < 2 {
				continue
			}
			stores := fieldStores(a)
			for i := 0; i < st.NumFields(); i++ {
				f := st.Field(i)
				if !IsNamedPly("ScalarPropertyType")(f.Type()) {
					continue
				}
				ss := stores[f.Name()]
				if len(ss) != 1 {
					continue // LAY-7 reports
				}
				n++
				construct := e.Name(fn) + "→" + named.Obj().Name() + "." + f.Name()
				var unguarded []string
				guarded := 0
				for _, lf := range PhiLeaves(ss[0].Val, nil) {
					if len(SliceFind(lf.V, isScalarTypeLoad)) == 0 {
						continue // the initial zero value
					}
					ok := false
					for _, c := range LeafConds(lf, ss[0].Block()) {
						x, k, eq, isC := c.EqConst()
						if !isC || !eq {
							continue
						}
						if n, isInt := ssau.ConstInt(k); isInt && n == 0 {
							// len(scalarType) == 0
							if cl, isCall := x.(*ssa.Call); isCall && ssau.Builtin(cl) == "len" {
								if _, isPhi := StripConv(cl.Common().Args[0]).(*ssa.Phi); isPhi {
									ok = true
								}
							}
							continue
						}
						if s, isS := ConstStr(k); !isS || s != "" {
							continue
						}
						// the tested value must be the variable's previous value, not the one just loaded
						if _, isPhi := StripConv(x).(*ssa.Phi); isPhi {
							ok = true
						}
						if c0, isConst := StripConv(x).(*ssa.Const); isConst && c0 != nil {
							ok = true
						}
					}
					if ok {
						guarded++
					} else {
						unguarded = append(unguarded, e.Pos(lf.V.Pos()))
					}
				}
				sort.Strings(unguarded)
				// every component's arm establishes the type when it is the first one found,
				// and resets its offset when the type differs from the group's
				missing := ""
				if len(unguarded) == 0 {
					armsWithAssign := map[string]bool{}
					for _, lf := range PhiLeaves(ss[0].Val, nil) {
						if len(SliceFind(lf.V, isScalarTypeLoad)) == 0 {
							continue
						}
						for _, c := range LeafConds(lf, ss[0].Block()) {
							if ax, eq, ok := nameLiteral(c); ok && eq {
								armsWithAssign[ax] = true
							}
						}
					}
					for j := 0; j < st.NumFields(); j++ {
						of := st.Field(j)
						ax := AxisOf(of.Name())
						if ax == "" || !strings.HasSuffix(strings.ToLower(of.Name()), "offset") {
							continue
						}
						if !armsWithAssign[ax] {
							missing = fmt.Sprintf("the arm of component %s never establishes the group's type: when %s is the first component in the header its type is compared with the unset type and the whole group is rejected", ax, ax)
							continue
						}
						os := stores[of.Name()]
						if len(os) != 1 {
							continue
						}
						reset := false
						for _, lf := range PhiLeaves(os[0].Val, nil) {
							if k, isK := ssau.ConstInt(lf.V); !isK || k >= 0 {
								continue
							}
							nameOK, mismatchOK := false, false
							for _, c := range LeafConds(lf, os[0].Block()) {
								if a2, eq, ok := nameLiteral(c); ok && eq && a2 == ax {
									nameOK = true
								}
								if x, y, eq, ok := c.Cmp(); ok && !eq {
									if (isScalarTypeLoad(x) && IsNamedPly("ScalarPropertyType")(y.Type())) || (isScalarTypeLoad(y) && IsNamedPly("ScalarPropertyType")(x.Type())) {
										mismatchOK = true
									}
								}
							}
							if nameOK && mismatchOK {
								reset = true
							}
						}
						if !reset {
							missing = fmt.Sprintf("component %s is accepted without comparing its type with the group's: a group with mixed types is decoded with one width", ax)
						}
					}
				}
				if missing != "" {
					e.Violate(fn, rule, construct, ss[0].Pos(), missing, fmt.Sprintf("%d guarded assignment(s)", guarded))
					continue
				}
				if len(unguarded) > 0 {
					e.Violate(fn, rule, construct, ss[0].Pos(),
						fmt.Sprintf("the group's scalar type is overwritten without the `still unset` guard at %s: components found earlier were compared with a different type, so a group with mixed types is decoded with the wrong width instead of being rejected (the sibling encoding rejects it)", strings.Join(unguarded, ", ")),
						fmt.Sprintf("%d guarded assignment(s)", guarded))
				} else {
					e.Hold(fn, rule, construct, ss[0].Pos(), fmt.Sprintf("%d assignment(s) of the group type, each under `scalarType == \"\"`", guarded))
				}
			}
		}
	}
	e.R.Extra["lay9_groups"] = n
	e.CtlDone(rule, "LAY9")
}
