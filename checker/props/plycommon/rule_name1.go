package plycommon

import (
	"go/token"
	"go/types"
	"strings"

	"golang.org/x/tools/go/ssa"

	"polycheck/ssau"
)

// transformIn: the calls through which a string value passes between `from`-like sources and v.
func callsInSlice(v ssa.Value) []string {
	var out []string
	BackSlice(v, func(x ssa.Value) bool {
		if cl, ok := x.(*ssa.Call); ok {
			if _, callee := CallTo(cl); callee != nil {
				out = append(out, callee.FullName())
			} else if b := ssau.Builtin(cl); b != "" {
				out = append(out, b)
			} else {
				out = append(out, "a function value")
			}
		}
		return true
	})
	return out
}

// NAME1 decides (beyond DESIGN): the name of a scalar property travels unchanged
// between the mesh attribute, the header model and the header text, in both
// directions — scalar property names become attribute names, so any case / trim /
// rename on the way makes a user-named attribute come back under another name.
//
//	(a) readPlyProperty stores token 2 of the line itself in ScalarProperty.PropertyName;
//	(b) ScalarProperty.Name returns the field; ScalarProperty.Write prints the field;
//	(c) the write-unspecified scalar writer and the load-unspecified scalar reader use the
//	    attribute / property name itself for both the model attribute and the PLY property.
func NAME1(e *Env) {
	const rule = "NAME-1"
	isSP := func(t *types.Named) bool {
		return t.Obj().Name() == "ScalarProperty" && t.Obj().Pkg().Path() == PlyPath
	}
	// (a)
	if fn := e.Fn("readPlyProperty"); fn != nil {
		construct := e.Name(fn) + "→ScalarProperty.PropertyName"
		sites := literalSites(fn, isSP)
		if len(sites) != 1 {
			e.Undecide(fn, rule, construct, fn.Pos(), "expected one ScalarProperty literal")
		} else {
			ss := fieldStores(sites[0])["PropertyName"]
			switch {
			case len(ss) != 1:
				e.Violate(fn, rule, construct, sitePos(sites[0]), "the property name is not stored in the header model")
			default:
				v := ss[0].Val
				for {
					if c, ok := v.(*ssa.ChangeType); ok {
						v = c.X
						continue
					}
					break
				}
				direct := false
				if u, ok := v.(*ssa.UnOp); ok && u.Op == token.MUL {
					if ia, ok := u.X.(*ssa.IndexAddr); ok && ia.X == ssa.Value(fn.Params[0]) {
						if k, isK := ssau.ConstInt(ia.Index); isK && k == 2 {
							direct = true
						}
					}
				}
				if direct {
					e.Hold(fn, rule, construct, ss[0].Pos(), "PropertyName = token 2 of the property line, unchanged")
				} else if calls := callsInSlice(ss[0].Val); len(calls) > 0 {
					e.Violate(fn, rule, construct, ss[0].Pos(), "the scalar property name is passed through "+strings.Join(calls, ", ")+" before it is stored: an attribute written as \"Intensity\" is read back under another name (names of scalar properties become attribute names and must round-trip exactly)")
				} else {
					e.Undecide(fn, rule, construct, ss[0].Pos(), "cannot see that the stored name is token 2 of the line itself")
				}
			}
		}
	}
	// (b)
	fieldItself := func(fn *ssa.Function, v ssa.Value) bool {
		for {
			switch x := v.(type) {
			case *ssa.MakeInterface:
				v = x.X
				continue
			case *ssa.ChangeType:
				v = x.X
				continue
			}
			break
		}
		f := recvFieldLoad(fn, v)
		return f != nil && f.Name() == "PropertyName"
	}
	if fn := e.Fn("ScalarProperty.Name"); fn != nil {
		ok := false
		ssau.AllInstrs(fn, func(in ssa.Instruction) {
			if r, isR := in.(*ssa.Return); isR && len(r.Results) == 1 && fieldItself(fn, r.Results[0]) {
				ok = true
			}
		})
		if ok {
			e.Hold(fn, rule, e.Name(fn), fn.Pos(), "returns PropertyName unchanged")
		} else {
			e.Violate(fn, rule, e.Name(fn), fn.Pos(), "Name() does not return the stored property name itself: readers match and name attributes with a different string than the header carries")
		}
	}
	if fn := e.Fn("ScalarProperty.Write"); fn != nil {
		ok := false
		ssau.AllInstrs(fn, func(in ssa.Instruction) {
			cl, isCall := in.(*ssa.Call)
			if !isCall || len(fn.Params) < 2 {
				return
			}
			cc := cl.Common()
			toOut := false
			for _, a := range cc.Args {
				if a == ssa.Value(fn.Params[1]) {
					toOut = true
				}
			}
			if cc.IsInvoke() && cc.Value == ssa.Value(fn.Params[1]) {
				toOut = true
			}
			if !toOut {
				return
			}
			// an operand of the write to `out` is the field itself (directly, or as an element of its variadic list)
			for _, a := range cc.Args {
				if fieldItself(fn, a) {
					ok = true
				}
				if sl, isSl := a.(*ssa.Slice); isSl {
					if arr, isA := sl.X.(*ssa.Alloc); isA {
						for _, r := range ssau.Refs(arr) {
							if ia, isIA := r.(*ssa.IndexAddr); isIA {
								for _, rr := range ssau.Refs(ia) {
									if st, isSt := rr.(*ssa.Store); isSt && st.Addr == ia && fieldItself(fn, st.Val) {
										ok = true
									}
								}
							}
						}
					}
				}
			}
		})
		if ok {
			e.Hold(fn, rule, e.Name(fn), fn.Pos(), "prints PropertyName unchanged")
		} else {
			e.Violate(fn, rule, e.Name(fn), fn.Pos(), "the header line is not printed from the stored property name itself")
		}
	}
	// (c) unspecified scalar writer / reader literals
	check := func(fnName, typeName string, isKey func(fn *ssa.Function, v ssa.Value) bool, what string) {
		fn := e.Fn(fnName)
		if fn == nil {
			return
		}
		sites := literalSites(fn, func(t *types.Named) bool { return t.Obj().Name() == typeName && t.Obj().Pkg().Path() == PlyPath })
		for k, site := range sites {
			construct := e.Name(fn) + "→" + typeName + "#" + itoa(int64(k+1))
			st := fieldStores(site)
			bad := ""
			for _, fname := range []string{"ModelAttribute", "PlyProperty"} {
				ss := st[fname]
				if len(ss) != 1 {
					bad = fname + " is not assigned"
					continue
				}
				if !isKey(fn, ss[0].Val) {
					if calls := callsInSlice(ss[0].Val); len(calls) > 0 {
						bad = fname + " is derived through " + strings.Join(calls, ", ") + " instead of being " + what + " itself"
					} else {
						bad = fname + " is not " + what + " itself"
					}
				}
			}
			if bad != "" {
				e.Violate(fn, rule, construct, sitePos(site), bad+": the scalar attribute comes back under another name")
			} else {
				e.Hold(fn, rule, construct, sitePos(site), "ModelAttribute and PlyProperty are both "+what)
			}
		}
		if len(sites) == 0 {
			e.Undecide(fn, rule, e.Name(fn)+"→"+typeName, fn.Pos(), "no "+typeName+" literal found")
		}
	}
	check("MeshWriter.Write", "Vector1PropertyWriter", func(fn *ssa.Function, v ssa.Value) bool {
		// an element of Mesh.Float1Attributes()
		u, ok := v.(*ssa.UnOp)
		if !ok || u.Op != token.MUL {
			return false
		}
		ia, ok := u.X.(*ssa.IndexAddr)
		if !ok {
			return false
		}
		_, callee := CallTo(ia.X)
		return IsMeshMethod(callee, "Float1Attributes")
	}, "the attribute's name")
	check("MeshReader.Read", "Vector1PropertyReader", func(fn *ssa.Function, v ssa.Value) bool {
		cl, ok := v.(*ssa.Call)
		if !ok || !cl.Common().IsInvoke() || cl.Common().Method.Name() != "Name" {
			return false
		}
		_, isEl := loadOfIndex(cl.Common().Value)
		return isEl
	}, "the property's Name()")
}
