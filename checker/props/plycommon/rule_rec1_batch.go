package plycommon

import (
	"fmt"
	"go/token"

	"golang.org/x/tools/go/ssa"

	"polycheck/ssau"
)

// enclosingLoops returns the loops containing block b, outermost first.
func enclosingLoops(loops []*ssau.Loop, b *ssa.BasicBlock) []*ssau.Loop {
	var out []*ssau.Loop
	for _, l := range loops {
		if l.Blocks[b] {
			out = append(out, l)
		}
	}
	for i := 0; i < len(out); i++ {
		for j := i + 1; j < len(out); j++ {
			if len(out[j].Blocks) > len(out[i].Blocks) {
				out[i], out[j] = out[j], out[i]
			}
		}
	}
	return out
}

// loopCounters: the counters (header phis advanced by self-addition) of loop l.
func loopCounters(e *Env, l *ssau.Loop) []*Counter {
	var out []*Counter
	for _, in := range l.Header.Instrs {
		if phi, ok := in.(*ssa.Phi); ok {
			if c := e.CounterOf(phi); c != nil && c.Loop == l {
				out = append(out, c)
			}
		}
	}
	return out
}

// stepOf: the per-iteration advance of a counter: a constant, or one SSA value.
func stepOf(c *Counter) (k int64, v ssa.Value, ok bool) {
	for i, lf := range c.Latch {
		bo, isB := lf.V.(*ssa.BinOp)
		if !isB || bo.Op != token.ADD {
			return 0, nil, false
		}
		var other ssa.Value
		switch {
		case bo.X == ssa.Value(c.Phi):
			other = bo.Y
		case bo.Y == ssa.Value(c.Phi):
			other = bo.X
		default:
			return 0, nil, false
		}
		if kk, isK := ssau.ConstInt(other); isK {
			if i > 0 && (v != nil || kk != k) {
				return 0, nil, false
			}
			k = kk
		} else {
			o := StripConv(other)
			if i > 0 && v != o {
				return 0, nil, false
			}
			v = o
		}
	}
	return k, v, len(c.Latch) > 0
}

// timesT evaluates v as T·L with L linear over opaque symbols (counters, other values):
// the byte position of "record number L" in a buffer of records of T bytes.
func timesT(v ssa.Value, isT func(ssa.Value) bool, depth int) (Lin, bool) {
	if depth > 8 {
		return Lin{}, false
	}
	v = StripConv(v)
	if isT(v) {
		return linConst(1), true
	}
	opaque := func(x ssa.Value) (Lin, bool) {
		x = StripConv(x)
		switch x.(type) {
		case *ssa.Const, *ssa.BinOp, *ssa.Convert, *ssa.ChangeType:
			return Lin{}, false
		}
		return linSym(x), true
	}
	b, ok := v.(*ssa.BinOp)
	if !ok {
		return Lin{}, false
	}
	switch b.Op {
	case token.MUL:
		for _, p := range [][2]ssa.Value{{b.X, b.Y}, {b.Y, b.X}} {
			if isT(StripConv(p[1])) {
				l := LinEval(StripConvDeep(p[0]), opaque)
				if !l.Bad {
					return l, true
				}
			}
			if l, ok := timesT(p[1], isT, depth+1); ok {
				if k, isK := ssau.ConstInt(p[0]); isK {
					return l.scale(k), true
				}
			}
		}
	case token.ADD, token.SUB:
		x, okx := timesT(b.X, isT, depth+1)
		y, oky := timesT(b.Y, isT, depth+1)
		if okx && oky {
			sign := int64(1)
			if b.Op == token.SUB {
				sign = -1
			}
			return x.add(y, sign), true
		}
	}
	return Lin{}, false
}

// StripConvDeep rebuilds nothing; LinEval already looks through integer conversions. Kept for clarity.
func StripConvDeep(v ssa.Value) ssa.Value { return v }

// rec1Batched decides REC-1 for a body that consumes several records per read:
//
//	for start := 0; start < Count; start += K {          // or += batch
//	    batch := min(K, Count-start)
//	    io.ReadFull(in, buf[:batch*T])
//	    for i := 0; i < batch; i++ { every reader .Read(buf[i*T:(i+1)*T], start+i) }
//	}
//
// The slot handed to the readers must be the number of records consumed before this
// one: the sum of the counters of EVERY enclosing record loop (each starting at 0, the
// innermost advancing by one), the outer loop bounded by Count, the inner bound clamped
// to the remaining records and to the outer step, the record bytes those of record i of
// the batch just read.
func rec1Batched(e *Env, fn *ssa.Function, r *ssa.Call, sameElem func(ssa.Value) bool) (handled bool, bad string, undec string, facts []string) {
	loops := e.Loops(fn)
	enc := enclosingLoops(loops, r.Block())
	// the innermost loop ranges over the reader list (its counter subscripts the list the receiver is loaded from)
	if len(enc) < 2 {
		return false, "", "", nil
	}
	rec := enc[:len(enc)-1]
	if _, ok := loadOfIndex(r.Common().Value); !ok {
		return false, "", "", nil
	}
	idx := r.Common().Args[1]
	ctrOf := map[ssa.Value]*Counter{}
	form := LinEval(idx, func(v ssa.Value) (Lin, bool) {
		if phi, ok := v.(*ssa.Phi); ok {
			if c := e.CounterOf(phi); c != nil {
				ctrOf[phi] = c
				return linSym(phi), true
			}
		}
		return Lin{}, false
	})
	if form.Bad {
		return false, "", "", nil
	}
	if len(rec) == 1 && len(form.Coef) == 1 {
		return false, "", "", nil // the plain one-record-per-iteration form: decided by the caller
	}
	handled = true
	// every enclosing record loop must move the slot
	for _, l := range rec {
		moves := false
		for sy := range form.Coef {
			if c := ctrOf[sy]; c != nil && c.Loop == l {
				moves = true
			}
		}
		if !moves {
			pos := e.Pos(l.Header.Instrs[0].Pos())
			return true, fmt.Sprintf("the slot handed to the readers (%s) does not advance with the enclosing loop at %s: every pass of that loop writes the same slots again, so record i of the file does not become vertex i (only the last batch survives)", form, pos), "", nil
		}
	}
	if form.K != 0 {
		return true, fmt.Sprintf("the slot handed to the readers is %s: it does not start at 0", form), "", nil
	}
	for sy, co := range form.Coef {
		if co != 1 || ctrOf[sy] == nil {
			return true, fmt.Sprintf("the slot handed to the readers is %s: not the number of records consumed so far", form), "", nil
		}
	}
	if len(rec) != 2 || len(form.Coef) != 2 {
		return true, "", "record numbering over more than two nested loops is not analysed", nil
	}
	var co, cn *Counter
	for sy := range form.Coef {
		c := ctrOf[sy]
		switch c.Loop {
		case rec[0]:
			co = c
		case rec[1]:
			cn = c
		}
	}
	if co == nil || cn == nil {
		return true, "", "the slot is not the sum of the batch base and the in-batch counter", nil
	}
	// inner: 0, +1, < B
	if init, step, ok := counterStep(cn); !ok || init != 0 || step != 1 {
		return true, "the in-batch counter does not run 0,1,2,…", "", nil
	}
	bn, opn := loopBound(cn)
	if bn == nil || opn != token.LSS {
		return true, "", "the in-batch loop is not `i < batch`", nil
	}
	// outer: 0, +K or +batch, < Count
	for _, in := range co.Init {
		if k, ok := ssau.ConstInt(in); !ok || k != 0 {
			return true, "the batch base does not start at 0", "", nil
		}
	}
	k, sv, okStep := stepOf(co)
	if !okStep {
		return true, "", "the batch base is not advanced uniformly", nil
	}
	bo, opo := loopBound(co)
	fa, f := LoadedField(StripConv(bo))
	if bo == nil || opo != token.LSS || f == nil || f.Name() != "Count" || fa == nil || !ssau.IsNamed(fa.X.Type(), PlyPath, "Element") || !sameElem(fa.X) {
		return true, "the batch loop is not bounded by the Count of the element the readers were built from", "", nil
	}
	// the batch size: clamped to the records that remain, and equal to the advance of the base
	bnv := StripConv(bn)
	// dependence of the in-batch bound, not looking through the batch base (whose own advance mentions the step)
	dependsOn := func(v ssa.Value, pred func(ssa.Value) bool) bool {
		found := false
		BackSlice(v, func(x ssa.Value) bool {
			if pred(x) {
				found = true
			}
			return !found && x != ssa.Value(co.Phi)
		})
		return found
	}
	isCount := func(v ssa.Value) bool {
		fa2, f2 := LoadedField(v)
		return f2 != nil && f2.Name() == "Count" && fa2 != nil && fa2.X == fa.X
	}
	if !dependsOn(bnv, isCount) || !dependsOn(bnv, func(v ssa.Value) bool { return v == ssa.Value(co.Phi) }) {
		return true, "the in-batch bound is not clamped to the records that remain (Count - base): the last batch runs past the element", "", nil
	}
	if sv != nil {
		if sv != bnv {
			return true, "the batch base advances by something other than the number of records delivered per batch", "", nil
		}
	} else {
		if !dependsOn(bnv, func(v ssa.Value) bool { c, ok := ssau.ConstInt(v); return ok && c == k }) {
			return true, fmt.Sprintf("the batch base advances by %d but the in-batch bound is not limited by %d: records are skipped or delivered twice", k, k), "", nil
		}
	}
	facts = append(facts, "slot = batch base + in-batch counter; base 0,+step while < Count; in-batch 0..min(step, Count-base)")
	// the bytes: ReadFull of batch·T into the buffer, record = buffer[i·T : (i+1)·T]
	isT := func(v ssa.Value) bool { return accumulatedSize(e, fn, StripConv(v), 0) == "" }
	recArg := r.Common().Args[0]
	sl, ok := recArg.(*ssa.Slice)
	if !ok || sl.High == nil {
		return true, "", "the record handed to the readers is not a [i*size:(i+1)*size] window of the batch buffer", facts
	}
	lo, okLo := linConst(0), true
	if sl.Low != nil {
		if k, isK := ssau.ConstInt(sl.Low); isK && k == 0 {
			lo = linConst(0)
		} else {
			lo, okLo = timesT(sl.Low, isT, 0)
		}
	}
	hi, okHi := timesT(sl.High, isT, 0)
	if !okLo || !okHi {
		return true, "", "cannot express the record window in units of the record size", facts
	}
	if !lo.Equal(linSym(cn.Phi)) || !hi.Equal(linSym(cn.Phi).add(linConst(1), 1)) {
		return true, fmt.Sprintf("record i of the batch is taken from bytes [%s, %s)·size instead of [i, i+1)·size", lo, hi), "", facts
	}
	root, _, _, _ := bufRoot(recArg)
	okRead := false
	why := "no io.ReadFull into the batch buffer precedes the delivery in the same batch"
	for _, b := range fn.Blocks {
		if !rec[0].Blocks[b] || rec[1].Blocks[b] {
			continue
		}
		for _, in := range b.Instrs {
			cl, isCall := in.(*ssa.Call)
			if !isCall {
				continue
			}
			cc, callee := CallTo(cl)
			if !ssau.IsFunc(callee, "io", "ReadFull") || !cl.Block().Dominates(r.Block()) {
				continue
			}
			rroot, off, kk, okRoot := bufRoot(cc.Args[1])
			if !okRoot || rroot != root || off != nil || kk != 0 {
				continue
			}
			rs, isSlice := cc.Args[1].(*ssa.Slice)
			if !isSlice || rs.High == nil {
				why = "the batch read does not limit itself to batch·size bytes"
				continue
			}
			l, okL := timesT(rs.High, isT, 0)
			if !okL || !l.Equal(linSym(bnv)) {
				why = "the batch read consumes a number of bytes other than (records in the batch)·size"
				continue
			}
			okRead = true
		}
	}
	if !okRead {
		return true, why, "", facts
	}
	facts = append(facts, "io.ReadFull(buf[:batch·size]) per batch; record = buf[i·size:(i+1)·size], size = Σ Size(property)")
	return true, "", "", facts
}
