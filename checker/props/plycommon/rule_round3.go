package plycommon

import (
	"fmt"
	"go/token"
	"go/types"
	"sort"
	"strings"

	"golang.org/x/tools/go/ssa"

	"polycheck/ssau"
)

// ---------------------------------------------------------------------------
// SENT-1: sentinel discipline of the component offsets.

func cmpHolds(op token.Token, v, k int64) bool {
	switch op {
	case token.EQL:
		return v == k
	case token.NEQ:
		return v != k
	case token.LSS:
		return v < k
	case token.LEQ:
		return v <= k
	case token.GTR:
		return v > k
	case token.GEQ:
		return v >= k
	}
	return false
}

// SENT1 decides (beyond DESIGN): in every build* of a multi-component reader each
// offset variable is initialised / reset only to the sentinel -1, and every test of
// an offset variable against a constant accepts exactly the found values (v ≥ 0) or
// exactly their complement — so byte offset 0 / column 0 (the group's component is
// the element's first property) counts as found.
func SENT1(e *Env) {
	const rule = "SENT-1"
	built := e.builtReaderTypes()
	var fns []*ssa.Function
	for _, a := range BuilderAnchors {
		if fn := e.Fn(a.Name); fn != nil {
			fns = append(fns, fn)
		}
	}
	bad, good := e.CtlFns("SENT1")
	fns = append(fns, append(bad, good...)...)
	n := 0
	for _, fn := range fns {
		for _, site := range literalSites(fn, func(t *types.Named) bool { return built[t] }) {
			named := siteNamed(site)
			st := named.Underlying().(*types.Struct)
			stores := fieldStores(site)
			for i := 0; i < st.NumFields(); i++ {
				f := st.Field(i)
				if AxisOf(f.Name()) == "" || !strings.HasSuffix(strings.ToLower(f.Name()), "offset") {
					continue
				}
				ss := stores[f.Name()]
				if len(ss) != 1 {
					continue
				}
				// the variable's phi web and its constant leaves
				web := map[ssa.Value]bool{}
				var consts []int64
				var walk func(v ssa.Value)
				walk = func(v ssa.Value) {
					if web[v] {
						return
					}
					if k, isK := ssau.ConstInt(v); isK {
						consts = append(consts, k)
						return
					}
					phi, ok := v.(*ssa.Phi)
					if !ok || e.CounterOf(phi) != nil {
						return
					}
					web[v] = true
					for _, ed := range phi.Edges {
						walk(ed)
					}
				}
				walk(ss[0].Val)
				if len(web) == 0 {
					continue // a single-component reader built in the arm that found it: no sentinel
				}
				n++
				construct := e.Name(fn) + "→" + named.Obj().Name() + "." + f.Name() + "/sentinel"
				badMsg := ""
				var facts []string
				for _, k := range consts {
					if k != -1 {
						badMsg = fmt.Sprintf("the offset variable is initialised / reset to %d, not to the sentinel -1: a legitimate offset cannot be told from 'not found'", k)
					}
				}
				guards := 0
				ssau.AllInstrs(fn, func(in ssa.Instruction) {
					b, ok := in.(*ssa.BinOp)
					if !ok || !isCmp(b.Op) {
						return
					}
					var k int64
					var isK bool
					op := b.Op
					switch {
					case web[b.X]:
						k, isK = ssau.ConstInt(b.Y)
					case web[b.Y]:
						k, isK = ssau.ConstInt(b.X)
						// K op v  ≡  v op' K
						switch op {
						case token.LSS:
							op = token.GTR
						case token.LEQ:
							op = token.GEQ
						case token.GTR:
							op = token.LSS
						case token.GEQ:
							op = token.LEQ
						}
					default:
						return
					}
					if !isK {
						return
					}
					guards++
					isFound, isMissing := true, true
					for v := int64(-1); v <= 4; v++ { // the variable only ever holds the sentinel -1 or a captured offset ≥ 0
						h := cmpHolds(op, v, k)
						if h != (v >= 0) {
							isFound = false
						}
						if h != (v < 0) {
							isMissing = false
						}
					}
					switch {
					case isFound || isMissing:
						facts = append(facts, fmt.Sprintf("%s: test `%s %d` separates exactly the found offsets (≥ 0) from the sentinel", e.IPos(b), op, k))
					case !cmpHolds(op, 0, k) && cmpHolds(op, 1, k):
						badMsg = fmt.Sprintf("the test `%s %d` at %s treats offset 0 as 'component missing': when the group's component is the first property of the element (byte offset / column 0) the whole group is not read", op, k, e.IPos(b))
					default:
						badMsg = fmt.Sprintf("the test `%s %d` at %s does not separate the found offsets (≥ 0) from the sentinel -1", op, k, e.IPos(b))
					}
				})
				sort.Strings(facts)
				switch {
				case badMsg != "":
					e.Violate(fn, rule, construct, ss[0].Pos(), badMsg, facts...)
				case guards == 0:
					e.Violate(fn, rule, construct, ss[0].Pos(), "the offset variable is never tested against its sentinel before the reader is built: a missing component is decoded from offset -1")
				default:
					e.Hold(fn, rule, construct, ss[0].Pos(), facts...)
				}
			}
		}
	}
	e.R.Extra["sent1_offsets"] = n
	// position variables outside the builders (face readers, element search, …)
	isBuilder := map[*ssa.Function]bool{}
	for _, fn := range fns {
		if len(literalSites(fn, func(t *types.Named) bool { return built[t] })) > 0 {
			isBuilder[fn] = true // its offsets were decided above
		}
	}
	m := 0
	for _, fn := range e.DecodeScope() {
		if isBuilder[fn] {
			continue
		}
		if e.IsCtl(fn) && !strings.HasPrefix(fn.Name(), "verifControlSENT1") {
			continue
		}
		m += sentIndexVars(e, fn)
	}
	e.R.Extra["sent1_positions"] = m
	e.CtlDone(rule, "SENT1")
}

// ---------------------------------------------------------------------------
// LINE-1: every path of the header line reader strips the line terminators.

func isCRTrim(cl *ssa.Call) bool {
	cc, callee := CallTo(cl)
	if callee == nil || callee.Pkg() == nil || callee.Pkg().Path() != "strings" {
		return false
	}
	switch callee.Name() {
	case "TrimSpace":
		return true
	case "TrimRight", "TrimSuffix", "Trim":
		if len(cc.Args) == 2 {
			if s, ok := ConstStr(cc.Args[1]); ok && strings.Contains(s, "\r") {
				return true
			}
		}
	}
	return false
}

// builderDropsCR: every byte / string appended to the builder whose String() v is was tested != '\r'.
func builderDropsCR(fn *ssa.Function, str *ssa.Call) (bool, string) {
	recv := RecvArg(str.Common())
	key := PathKey(recv)
	ok, writes := true, 0
	ssau.AllInstrs(fn, func(in ssa.Instruction) {
		cl, isCall := in.(*ssa.Call)
		if !isCall {
			return
		}
		cc, callee := CallTo(cl)
		if callee == nil || callee.Pkg() == nil || !strings.HasPrefix(callee.Name(), "Write") {
			return
		}
		if p := callee.Pkg().Path(); p != "strings" && p != "bytes" {
			return
		}
		if PathKey(RecvArg(cc)) != key {
			return
		}
		writes++
		guarded := false
		for _, l := range CondsAt(cl.Block()) {
			_, k, eq, isC := l.EqConst()
			if !isC {
				continue
			}
			if v, isInt := ssau.ConstInt(k); isInt && v == 13 && !eq {
				guarded = true
			}
		}
		if !guarded {
			ok = false
		}
	})
	if writes == 0 {
		return false, "nothing is accumulated into the returned builder"
	}
	if !ok {
		return false, "a byte is appended to the line without first excluding '\\r'"
	}
	return true, fmt.Sprintf("%d accumulation site(s), each on the byte != '\\r' side", writes)
}

func lineValueClean(fn *ssa.Function, v ssa.Value, seen map[ssa.Value]bool) (bool, string) {
	if seen[v] {
		return true, ""
	}
	seen[v] = true
	switch x := v.(type) {
	case *ssa.Phi:
		for _, ed := range x.Edges {
			if ok, why := lineValueClean(fn, ed, seen); !ok {
				return false, why
			}
		}
		return true, "all joined values stripped"
	case *ssa.Extract:
		if _, callee := CallTo(x.Tuple); callee != nil && callee.Pkg() != nil && callee.Pkg().Path() == PlyPath && (callee.Name() == "readLine" || callee.Name() == "scanToNextNonEmptyLine") && x.Index == 0 {
			return true, "a line obtained from " + callee.Name()
		}
		if cl, ok := x.Tuple.(*ssa.Call); ok {
			if _, callee := CallTo(cl); callee != nil {
				return false, "the text returned comes straight from " + callee.FullName() + " (which keeps '\\r')"
			}
		}
	case *ssa.Call:
		if isCRTrim(x) {
			return true, "passes through a trim of '\\r'"
		}
		_, callee := CallTo(x)
		if callee != nil && callee.Name() == "String" && callee.Pkg() != nil && (callee.Pkg().Path() == "strings" || callee.Pkg().Path() == "bytes") {
			return builderDropsCR(fn, x)
		}
		if callee != nil {
			return false, "the text returned comes from " + callee.FullName() + " without a trim of '\\r'"
		}
	case *ssa.Slice:
		// cutting a fixed number of bytes off the end removes "\n" but not a preceding "\r"
		return false, "the text returned is a re-slice of the raw line: only a fixed number of terminator bytes is cut, a preceding '\\r' stays"
	case *ssa.Const:
		return true, "constant"
	}
	return false, "cannot see that '\\r' is removed from the returned text"
}

// LINE1 decides: EVERY successful return of readLine / scanToNextNonEmptyLine delivers a
// string from which the carriage return was removed (sibling-path agreement).
func LINE1(e *Env) {
	const rule = "LINE-1"
	for _, name := range []string{"readLine", "scanToNextNonEmptyLine"} {
		fn := e.Fn(name)
		if fn == nil {
			continue
		}
		k := 0
		var rets []*ssa.Return
		ssau.AllInstrs(fn, func(in ssa.Instruction) {
			if r, ok := in.(*ssa.Return); ok && len(r.Results) == 2 && !isErrorReturn(r) {
				rets = append(rets, r)
			}
		})
		sort.Slice(rets, func(i, j int) bool { return rets[i].Pos() < rets[j].Pos() })
		for _, r := range rets {
			k++
			construct := fmt.Sprintf("%s/return#%d", e.Name(fn), k)
			ok, why := lineValueClean(fn, r.Results[0], map[ssa.Value]bool{})
			if ok {
				e.Hold(fn, rule, construct, r.Pos(), why)
			} else {
				e.Violate(fn, rule, construct, r.Pos(), why+": a header with CRLF line endings read through this path fails (\"ply\\r\" is not the magic number, \"end_header\\r\" never ends the header)")
			}
		}
		if k == 0 {
			e.Undecide(fn, rule, e.Name(fn), fn.Pos(), "no successful return found")
		}
	}
}

// ---------------------------------------------------------------------------
// BYTES-1: the payload handed to the decoder is the input, byte for byte.

var readerCtors = map[string]bool{"bytes.NewReader": true, "bytes.NewBuffer": true, "bytes.NewBufferString": true, "strings.NewReader": true}

// BYTES1 decides: wherever formats/ply wraps in-memory data in a reader
// (bytes.NewReader / NewBuffer / strings.NewReader) the data is the untouched
// input: no re-slice and no bytes./strings. transformation between the value the
// data came from (a call outside bytes/strings, a parameter, a field) and the reader —
// a PLY body is binary and opaque, trimming "white space" cuts records.
func BYTES1(e *Env) {
	const rule = "BYTES-1"
	n := 0
	for _, fn := range e.All {
		isCtl := e.IsCtl(fn)
		if isCtl && !strings.HasPrefix(fn.Name(), "verifControlBYTES1") {
			continue
		}
		if e.P.IsTestFile(fn.Pos()) {
			continue
		}
		k := 0
		ssau.AllInstrs(fn, func(in ssa.Instruction) {
			cl, ok := in.(*ssa.Call)
			if !ok {
				return
			}
			cc, callee := CallTo(cl)
			if callee == nil || callee.Pkg() == nil || !readerCtors[callee.Pkg().Path()+"."+callee.Name()] {
				return
			}
			k++
			n++
			construct := fmt.Sprintf("%s→%s#%d", e.Name(fn), callee.Name(), k)
			bad := ""
			src := ""
			seen := map[ssa.Value]bool{}
			var walk func(v ssa.Value)
			walk = func(v ssa.Value) {
				if v == nil || seen[v] || bad != "" {
					return
				}
				seen[v] = true
				switch x := v.(type) {
				case *ssa.Phi:
					for _, ed := range x.Edges {
						walk(ed)
					}
				case *ssa.ChangeType:
					walk(x.X)
				case *ssa.Convert:
					walk(x.X) // string(bytes) / []byte(string) keep every byte
				case *ssa.MakeInterface:
					walk(x.X)
				case *ssa.Extract:
					walk(x.Tuple)
				case *ssa.Slice:
					if x.Low != nil || x.High != nil {
						bad = "the data is re-sliced before it is handed to the decoder"
						return
					}
					walk(x.X)
				case *ssa.Call:
					_, c2 := CallTo(x)
					if b := ssau.Builtin(x); b == "append" {
						for _, a := range x.Common().Args {
							walk(a)
						}
						return
					}
					if c2 != nil && c2.Pkg() != nil {
						switch c2.Pkg().Path() {
						case "bytes", "strings", "unicode", "regexp":
							bad = "the data passes through " + c2.FullName() + " before it is handed to the decoder"
							return
						}
						src = c2.FullName()
					}
				default:
					// parameter, field load, global: a source
				}
			}
			walk(cc.Args[0])
			if bad != "" {
				e.Violate(fn, rule, construct, cl.Pos(), bad+": a PLY body is binary — bytes that happen to look like white space (0x09–0x0D, 0x20) or letters belong to records, so the file is cut short or altered")
			} else {
				fact := "the reader wraps the input bytes themselves"
				if src != "" {
					fact += " (result of " + src + ")"
				}
				e.Hold(fn, rule, construct, cl.Pos(), fact)
			}
		})
	}
	e.R.Extra["bytes1_sites"] = n
	e.CtlDone(rule, "BYTES1")
}

// ---------------------------------------------------------------------------
// TOKSEP-1: text rows are split on runs of white space.

// tokenSource classifies the producer of a []string of tokens.
func tokenSource(v ssa.Value, seen map[ssa.Value]bool) (verdict string, what string) {
	if v == nil || seen[v] {
		return "ok", ""
	}
	seen[v] = true
	switch x := v.(type) {
	case *ssa.Slice:
		return tokenSource(x.X, seen)
	case *ssa.Phi:
		worst, w := "ok", ""
		for _, ed := range x.Edges {
			vd, wh := tokenSource(ed, seen)
			if vd == "bad" {
				return vd, wh
			}
			if vd == "undecided" {
				worst, w = vd, wh
			} else if w == "" {
				w = wh
			}
		}
		return worst, w
	case *ssa.Call:
		cc, callee := CallTo(x)
		if callee == nil || callee.Pkg() == nil {
			return "undecided", "tokens come from a function value"
		}
		full := callee.Pkg().Path() + "." + callee.Name()
		switch {
		case full == "strings.Fields":
			return "ok", "strings.Fields"
		case full == "strings.FieldsFunc":
			if len(cc.Args) == 2 {
				if f, ok := cc.Args[1].(*ssa.Function); ok && f.Pkg != nil && f.Pkg.Pkg.Path() == "unicode" && f.Name() == "IsSpace" {
					return "ok", "strings.FieldsFunc(unicode.IsSpace)"
				}
			}
			return "undecided", "strings.FieldsFunc with a separator predicate that is not unicode.IsSpace"
		case callee.Pkg().Path() == "strings" && strings.HasPrefix(callee.Name(), "Split"):
			sep := "?"
			if len(cc.Args) >= 2 {
				if s, ok := ConstStr(cc.Args[1]); ok {
					sep = fmt.Sprintf("%q", s)
				}
			}
			return "bad", "strings." + callee.Name() + " on the fixed separator " + sep
		case callee.Pkg().Path() == "regexp":
			return "undecided", "tokens come from a regular expression"
		}
		return "undecided", "tokens come from " + callee.FullName()
	case *ssa.Parameter:
		return "param", x.Name()
	}
	return "undecided", "cannot see how the row is split"
}

// TOKSEP1 decides: the tokens handed to every ASCII consumer of formats/ply (vertex
// row readers, face list readers, the header's property / element / format parsing)
// are produced by strings.Fields (or FieldsFunc(unicode.IsSpace)) — the format says
// "separated by white space": tabs, several blanks and leading blanks are legal.
func TOKSEP1(e *Env) {
	const rule = "TOKSEP-1"
	type consumer struct {
		fn   *ssa.Function
		call ssa.Instruction
		arg  ssa.Value
		what string
	}
	var cons []consumer
	for _, fn := range e.DecodeScope() {
		isCtl := e.IsCtl(fn)
		if isCtl && !strings.HasPrefix(fn.Name(), "verifControlTOKSEP1") {
			continue
		}
		ssau.AllInstrs(fn, func(in ssa.Instruction) {
			switch x := in.(type) {
			case *ssa.Call:
				cc := x.Common()
				if cc.IsInvoke() && cc.Method.Name() == "Read" && ssau.IsNamed(cc.Value.Type(), PlyPath, "asciiPropertyReader") {
					cons = append(cons, consumer{fn, x, cc.Args[0], "vertex-row"})
					return
				}
				_, callee := CallTo(x)
				if IsPlyMethod(callee, "listAsciiPropertyReader", "Read") {
					cons = append(cons, consumer{fn, x, Arg(cc, callee, 0), "face-row"})
				}
				if callee != nil && callee.Pkg() != nil && callee.Pkg().Path() == PlyPath && callee.Name() == "readPlyProperty" {
					cons = append(cons, consumer{fn, x, cc.Args[0], "property-line"})
				}
			case *ssa.IndexAddr:
				// header parsing: contents[k] where contents is a []string local of the header functions
				if fn.Name() != "ReadHeader" && fn.Name() != "readPlyHeaderFormat" {
					return
				}
				sl, ok := x.X.Type().Underlying().(*types.Slice)
				if !ok {
					return
				}
				if b, ok := sl.Elem().Underlying().(*types.Basic); !ok || b.Kind() != types.String {
					return
				}
				if _, isK := ssau.ConstInt(x.Index); !isK {
					return
				}
				if _, isCall := x.X.(*ssa.Call); isCall || isPhi(x.X) {
					cons = append(cons, consumer{fn, x, x.X, "header-line"})
				}
			}
		})
	}
	type key struct {
		fn   *ssa.Function
		what string
	}
	groups := map[key][]consumer{}
	var order []key
	for _, c := range cons {
		k := key{c.fn, c.what}
		if _, ok := groups[k]; !ok {
			order = append(order, k)
		}
		groups[k] = append(groups[k], c)
	}
	sort.Slice(order, func(i, j int) bool {
		if order[i].fn.Pos() != order[j].fn.Pos() {
			return order[i].fn.Pos() < order[j].fn.Pos()
		}
		return order[i].what < order[j].what
	})
	n := 0
	for _, k := range order {
		verdict, what := "ok", ""
		var pos token.Pos
		for _, c := range groups[k] {
			pos = c.call.Pos()
			if !pos.IsValid() {
				pos = ssau.PosOf(c.call)
			}
			vd, wh := tokenSource(c.arg, map[ssa.Value]bool{})
			if vd == "param" {
				continue // split by the caller, judged there
			}
			if vd == "bad" || (vd == "undecided" && verdict == "ok") {
				verdict, what = vd, wh
			} else if what == "" {
				what = wh
			}
		}
		if what == "" {
			continue
		}
		n++
		construct := e.Name(k.fn) + "/" + k.what
		switch verdict {
		case "ok":
			e.Hold(k.fn, rule, construct, pos, "tokens produced by "+what)
		case "bad":
			e.Violate(k.fn, rule, construct, pos, "the "+k.what+" tokens are produced by "+what+": rows that separate values with tabs, several blanks, or start with a blank (all legal: \"separated by white space\") are rejected or mis-columned")
		default:
			e.Undecide(k.fn, rule, construct, pos, what)
		}
	}
	e.R.Extra["toksep1_tokenisers"] = n
	e.CtlDone(rule, "TOKSEP1")
}

func isPhi(v ssa.Value) bool { _, ok := v.(*ssa.Phi); return ok }

// ---------------------------------------------------------------------------
// SENT-1, second part: "position of a property / list in the header, or -1" variables
// outside the builders (list index of vertex_indices / texcoord in the face readers, …).

// sentIndexVars decides the sentinel discipline for every integer variable of fn that is
// assigned only constants and the index of a header-list scan (`for i, p := range
// element.Properties { if … { v = i } }`).
func sentIndexVars(e *Env, fn *ssa.Function) int {
	const rule = "SENT-1"
	loops := e.Loops(fn)
	// the index values of header-list scans
	scanIdx := map[ssa.Value]bool{}
	for _, ia := range headerListAddrs(fn) {
		l := ssau.InnermostLoop(loops, ia.Block())
		if l == nil {
			continue
		}
		isCtr := false
		LinEval(ia.Index, func(v ssa.Value) (Lin, bool) {
			if phi, ok := v.(*ssa.Phi); ok {
				if c := e.CounterOf(phi); c != nil && c.Loop == l {
					isCtr = true
					return linSym(phi), true
				}
			}
			return Lin{}, false
		})
		if isCtr {
			scanIdx[ia.Index] = true
		}
	}
	if len(scanIdx) == 0 {
		return 0
	}
	// integer, non-counter phis grouped into variables (connected through phi edges)
	var phis []*ssa.Phi
	ssau.AllInstrs(fn, func(in ssa.Instruction) {
		if phi, ok := in.(*ssa.Phi); ok && isInteger(phi.Type()) && e.CounterOf(phi) == nil {
			phis = append(phis, phi)
		}
	})
	comp := map[*ssa.Phi]*ssa.Phi{}
	var find func(p *ssa.Phi) *ssa.Phi
	find = func(p *ssa.Phi) *ssa.Phi {
		if comp[p] == nil || comp[p] == p {
			comp[p] = p
			return p
		}
		r := find(comp[p])
		comp[p] = r
		return r
	}
	isVarPhi := map[ssa.Value]bool{}
	for _, p := range phis {
		isVarPhi[p] = true
	}
	for _, p := range phis {
		for _, ed := range p.Edges {
			if q, ok := ed.(*ssa.Phi); ok && isVarPhi[q] {
				a, b := find(p), find(q)
				if a != b {
					comp[a] = b
				}
			}
		}
	}
	groups := map[*ssa.Phi][]*ssa.Phi{}
	var roots []*ssa.Phi
	for _, p := range phis {
		r := find(p)
		if _, ok := groups[r]; !ok {
			roots = append(roots, r)
		}
		groups[r] = append(groups[r], p)
	}
	sort.Slice(roots, func(i, j int) bool {
		return firstPos(groups[roots[i]]) < firstPos(groups[roots[j]])
	})
	n := 0
	ord := 0
	for _, r := range roots {
		web := map[ssa.Value]bool{}
		var consts []int64
		captures, others := 0, 0
		var names []string
		for _, p := range groups[r] {
			web[p] = true
		}
		for _, p := range groups[r] {
			for i, ed := range p.Edges {
				if web[ed] {
					continue
				}
				if k, isK := ssau.ConstInt(ed); isK {
					consts = append(consts, k)
					continue
				}
				if scanIdx[ed] || scanIdx[StripConv(ed)] {
					captures++
					// which header names lead to the capture: string constants tested on the way in
					pred := p.Block().Preds[i]
					for _, b := range append([]*ssa.BasicBlock{pred}, pred.Preds...) {
						if nn := len(b.Instrs); nn > 0 {
							if iff, ok := b.Instrs[nn-1].(*ssa.If); ok {
								if _, k, _, ok := normLit(iff.Cond, true).EqConst(); ok {
									if s, isS := ConstStr(k); isS && s != "" {
										names = append(names, s)
									}
								}
							}
						}
					}
					continue
				}
				others++
			}
		}
		if captures == 0 || others > 0 {
			continue
		}
		ord++
		n++
		sort.Strings(names)
		names = dedup(names)
		label := fmt.Sprintf("#%d", ord)
		if len(names) > 0 {
			label = ":" + strings.Join(names, "|")
		}
		construct := e.Name(fn) + "/index-of" + label
		pos := groups[r][0].Pos()
		badMsg := ""
		var facts []string
		for _, k := range consts {
			if k != -1 {
				badMsg = fmt.Sprintf("the found-index variable is initialised to %d, not to the sentinel -1: position %d cannot be told from 'absent'", k, k)
			}
		}
		guards := 0
		ssau.AllInstrs(fn, func(in ssa.Instruction) {
			b, ok := in.(*ssa.BinOp)
			if !ok || !isCmp(b.Op) {
				return
			}
			var k int64
			var isK bool
			op := b.Op
			switch {
			case web[b.X]:
				k, isK = ssau.ConstInt(b.Y)
			case web[b.Y]:
				k, isK = ssau.ConstInt(b.X)
				switch op {
				case token.LSS:
					op = token.GTR
				case token.LEQ:
					op = token.GEQ
				case token.GTR:
					op = token.LSS
				case token.GEQ:
					op = token.LEQ
				}
			default:
				return
			}
			if !isK {
				return
			}
			guards++
			isFound, isMissing := true, true
			for v := int64(-1); v <= 4; v++ {
				h := cmpHolds(op, v, k)
				if h != (v >= 0) {
					isFound = false
				}
				if h != (v < 0) {
					isMissing = false
				}
			}
			switch {
			case isFound || isMissing:
				facts = append(facts, fmt.Sprintf("%s: test `%s %d` separates exactly the found positions (≥ 0) from the sentinel", e.IPos(b), op, k))
			case !cmpHolds(op, 0, k) && cmpHolds(op, 1, k):
				badMsg = fmt.Sprintf("the test `%s %d` at %s treats position 0 as 'absent': a property / list that comes FIRST in its element is consumed but its data is dropped", op, k, e.IPos(b))
			default:
				badMsg = fmt.Sprintf("the test `%s %d` at %s does not separate the found positions (≥ 0) from the sentinel -1", op, k, e.IPos(b))
			}
		})
		sort.Strings(facts)
		switch {
		case badMsg != "":
			e.Violate(fn, rule, construct, pos, badMsg, facts...)
		case guards == 0:
			e.Hold(fn, rule, construct, pos, "position variable with sentinel -1; only compared with other positions")
		default:
			e.Hold(fn, rule, construct, pos, facts...)
		}
	}
	return n
}

func firstPos(ps []*ssa.Phi) token.Pos {
	best := token.Pos(0)
	for _, p := range ps {
		if best == 0 || (p.Pos().IsValid() && p.Pos() < best) {
			best = p.Pos()
		}
	}
	return best
}

func dedup(s []string) []string {
	var out []string
	for i, x := range s {
		if i == 0 || x != s[i-1] {
			out = append(out, x)
		}
	}
	return out
}
