package plycommon

import (
	"fmt"
	"go/token"
	"go/types"
	"sort"
	"strings"

	"golang.org/x/tools/go/ssa"

	"polycheck/ssau"
)

const MeshopsPath = "github.com/EliCDavis/polyform/modeling/meshops"

// ---------------------------------------------------------------------------
// UNW-1: per-corner texture coordinates force the per-corner rebuild.

// isUnweldCall: v = mesh.Transform(…, meshops.UnweldTransformer{}, …) or meshops.Unweld(mesh).
func isUnweldCall(v ssa.Value) bool {
	cl, ok := v.(*ssa.Call)
	if !ok {
		return false
	}
	cc, callee := CallTo(cl)
	if callee == nil {
		return false
	}
	if ssau.IsFunc(callee, MeshopsPath, "Unweld") {
		return true
	}
	if !IsMeshMethod(callee, "Transform") {
		return false
	}
	found := false
	for _, a := range cc.Args[1:] {
		BackSlice(a, func(x ssa.Value) bool {
			if mi, ok := x.(*ssa.MakeInterface); ok && ssau.IsNamed(mi.X.Type(), MeshopsPath, "UnweldTransformer") {
				found = true
			}
			return !found
		})
	}
	return found
}

// reachingStores: the stores to alloc a whose value a load at `at` may observe.
func reachingStores(a *ssa.Alloc, at ssa.Instruction) []*ssa.Store {
	var all []*ssa.Store
	for _, r := range ssau.Refs(a) {
		if st, ok := r.(*ssa.Store); ok && st.Addr == a {
			all = append(all, st)
		}
	}
	var out []*ssa.Store
	for _, s := range all {
		if !ssau.CanFollow(s, at) {
			continue
		}
		killed := false
		for _, k := range all {
			if k == s {
				continue
			}
			// k executes on every path to `at`, and s cannot execute after k: k overwrites s
			if ssau.Before(k, at) && !ssau.CanFollow(k, s) {
				killed = true
			}
		}
		if !killed {
			out = append(out, s)
		}
	}
	return out
}

// unwelded decides whether the mesh value v has, on every path, gone through the per-corner rebuild.
func unwelded(v ssa.Value, at ssa.Instruction, seen map[ssa.Value]bool) (bool, string) {
	if seen[v] {
		return true, ""
	}
	seen[v] = true
	if isUnweldCall(v) {
		return true, ""
	}
	switch x := v.(type) {
	case *ssa.Phi:
		for _, ed := range x.Edges {
			if ok, why := unwelded(ed, at, seen); !ok {
				return false, why
			}
		}
		return true, ""
	case *ssa.Extract:
		return unwelded(x.Tuple, at, seen)
	case *ssa.Call:
		cc, callee := CallTo(x)
		// further mesh operations applied to an already rebuilt mesh keep it rebuilt
		if callee != nil && ssau.IsMethod(callee, ModelingPath, "Mesh", callee.Name()) && len(cc.Args) > 0 && ssau.IsNamed(x.Type(), ModelingPath, "Mesh") {
			return unwelded(cc.Args[0], x, seen)
		}
		return false, "the mesh comes from " + callee.Name() + " without the per-corner rebuild"
	case *ssa.UnOp:
		if x.Op != token.MUL {
			break
		}
		a, ok := x.X.(*ssa.Alloc)
		if !ok {
			break
		}
		rs := reachingStores(a, x)
		if len(rs) == 0 {
			return false, "no assignment of the mesh reaches this point"
		}
		for _, s := range rs {
			if ok, why := unwelded(s.Val, s, seen); !ok {
				return false, why
			}
		}
		return true, ""
	}
	return false, "the welded mesh (as indexed by the file) reaches the texture-coordinate assignment on some path"
}

// UNW1 decides: wherever the per-corner texture coordinates returned by a face
// reader are stored as the TexCoord attribute, the mesh they are stored on has
// been rebuilt per corner (Unweld) on EVERY path, and the decision to store them
// depends only on the lengths of the two lists the face reader returned.
func UNW1(e *Env) {
	const rule = "UNW-1"
	var fns []*ssa.Function
	if fn := e.Fn("MeshReader.Read"); fn != nil {
		fns = append(fns, fn)
	}
	bad, good := e.CtlFns("UNW1")
	fns = append(fns, append(bad, good...)...)
	tex := e.texCoordName()
	for _, fn := range fns {
		name := e.Name(fn)
		// values returned by the face readers
		idxWeb, uvWeb := map[ssa.Value]bool{}, map[ssa.Value]bool{}
		ssau.AllInstrs(fn, func(in ssa.Instruction) {
			ex, ok := in.(*ssa.Extract)
			if !ok {
				return
			}
			_, callee := CallTo(ex.Tuple)
			if callee == nil || callee.Pkg() == nil || callee.Pkg().Path() != PlyPath || !strings.HasSuffix(callee.Name(), "FaceElement") {
				return
			}
			switch ex.Index {
			case 0:
				idxWeb[ex] = true
			case 1:
				uvWeb[ex] = true
			}
		})
		inWeb := func(v ssa.Value, web map[ssa.Value]bool) bool {
			for _, lf := range PhiLeaves(v, nil) {
				if web[lf.V] {
					return true
				}
			}
			return false
		}
		construct := name + "/texcoord-unweld"
		if len(uvWeb) == 0 {
			e.Undecide(fn, rule, construct, fn.Pos(), "no face reader result found")
			continue
		}
		var sets []*ssa.Call
		ssau.AllInstrs(fn, func(in ssa.Instruction) {
			cl, ok := in.(*ssa.Call)
			if !ok {
				return
			}
			cc, callee := CallTo(cl)
			if !IsMeshMethod(callee, "SetFloat2Attribute") || len(cc.Args) < 3 {
				return
			}
			if s, isS := ConstStr(cc.Args[1]); !isS || s != tex {
				return
			}
			if inWeb(cc.Args[2], uvWeb) {
				sets = append(sets, cl)
			}
		})
		if len(sets) == 0 {
			e.Violate(fn, rule, construct, fn.Pos(), "the per-corner texture coordinates a face reader returns are never stored as the "+tex+" attribute")
			continue
		}
		badMsg := ""
		var facts []string
		var pos token.Pos
		for _, c := range sets {
			pos = c.Pos()
			ok, why := unwelded(c.Common().Args[0], c, map[ssa.Value]bool{})
			if !ok {
				badMsg = "per-corner texture coordinates are stored on a mesh that was not rebuilt per corner on every path (" + why + "): with any non-identity index list (shared vertices, flipped winding) corner k's coordinates land on vertex k"
				break
			}
			facts = append(facts, "receiver of SetFloat2Attribute("+tex+", uvs) is the result of the Unweld transform on every path")
			// guards introduced after the face lists are known may only compare the lengths of those lists
			base := map[ssa.Value]bool{}
			ssau.AllInstrs(fn, func(in ssa.Instruction) {
				if ex, ok := in.(*ssa.Extract); ok && uvWeb[ex] {
					for _, l := range CondsAt(ex.Block()) {
						base[l.V] = true
					}
				}
			})
			for _, l := range CondsAt(c.Block()) {
				if base[l.V] || isLoopExitCond(e, fn, l, c.Block()) {
					continue
				}
				// conditions that already hold where the face readers are called are about the header, fine
				dependsOnFaces := false
				BackSlice(l.V, func(x ssa.Value) bool {
					if idxWeb[x] || uvWeb[x] {
						dependsOnFaces = true
					}
					return !dependsOnFaces
				})
				if !dependsOnFaces {
					// not about the lists: must not be introduced between reading them and storing them
					if !condDominatesFaces(l, fn, uvWeb) {
						badMsg = "storing the texture coordinates is additionally guarded by a condition that is not about the two face lists: files for which it is false lose their texture coordinates"
					}
					continue
				}
				b, isB := l.V.(*ssa.BinOp)
				okForm := isB
				if isB {
					for _, op := range []ssa.Value{b.X, b.Y} {
						if _, isC := op.(*ssa.Const); isC {
							continue
						}
						cl, isCall := op.(*ssa.Call)
						if isCall && ssau.Builtin(cl) == "len" && (inWeb(cl.Common().Args[0], uvWeb) || inWeb(cl.Common().Args[0], idxWeb)) {
							continue
						}
						okForm = false
					}
				}
				if !okForm {
					badMsg = "the decision to store the texture coordinates looks at more than the lengths of the index and texture-coordinate lists"
				} else {
					facts = append(facts, "guard compares only len(uvs) / len(indices)")
				}
			}
		}
		sort.Strings(facts)
		if badMsg != "" {
			e.Violate(fn, rule, construct, pos, badMsg, facts...)
		} else {
			e.Hold(fn, rule, construct, pos, facts...)
		}
	}
	e.CtlDone(rule, "UNW1")
}

// isLoopExitCond: the literal is the exhaustion test of a loop that block b lies behind
// (true for every terminating run, so it guards nothing).
func isLoopExitCond(e *Env, fn *ssa.Function, l Lit, b *ssa.BasicBlock) bool {
	for _, lp := range e.Loops(fn) {
		if lp.Blocks[b] {
			continue
		}
		h := lp.Header
		if n := len(h.Instrs); n > 0 {
			if iff, ok := h.Instrs[n-1].(*ssa.If); ok && normLit(iff.Cond, true).V == l.V {
				return true
			}
		}
	}
	return false
}

// condDominatesFaces: the branch deciding literal l is taken before any face reader is called.
func condDominatesFaces(l Lit, fn *ssa.Function, uvWeb map[ssa.Value]bool) bool {
	in, ok := l.V.(ssa.Instruction)
	if !ok {
		return true
	}
	okAll := true
	for v := range uvWeb {
		ex := v.(*ssa.Extract)
		if !in.Block().Dominates(ex.Block()) {
			okAll = false
		}
	}
	return okAll
}

// ---------------------------------------------------------------------------
// CFG-1: shared configuration is never written.

var cfgTypes = map[string]bool{"MeshWriter": true, "MeshReader": true, "Header": true, "Element": true}
var cfgElemTypes = map[string]bool{"PropertyWriter": true, "PropertyReader": true, "Property": true, "Element": true}

func isCfgNamed(t types.Type) bool {
	n := ssau.NamedOf(t)
	return n != nil && n.Obj().Pkg() != nil && n.Obj().Pkg().Path() == PlyPath && cfgTypes[n.Obj().Name()]
}

func isCfgCollection(t types.Type) bool {
	switch u := t.Underlying().(type) {
	case *types.Slice:
		n := ssau.NamedOf(u.Elem())
		return n != nil && n.Obj().Pkg() != nil && n.Obj().Pkg().Path() == PlyPath && cfgElemTypes[n.Obj().Name()]
	}
	return false
}

// addrKey distinguishes "visited as an address" from "visited as a value" in the shared seen set.
type addrKey struct{ ssa.Value }

type cfgAnalysis struct {
	e    *Env
	memo map[string]int // callee/param -> 0 in progress, 1 no, 2 mutates
}

// sharedRoot reports whether the slice / map value v may share storage with a
// caller-owned or package-level configuration, and names that configuration.
func (c *cfgAnalysis) sharedRoot(v ssa.Value, extra map[ssa.Value]bool, seen map[ssa.Value]bool) (bool, string) {
	if v == nil || seen[v] {
		return false, ""
	}
	seen[v] = true
	if extra[v] {
		return true, "parameter " + v.Name()
	}
	switch x := v.(type) {
	case *ssa.Const:
		return false, ""
	case *ssa.Parameter:
		if isCfgNamed(x.Type()) {
			return true, "parameter " + x.Name()
		}
		if isCfgCollection(x.Type()) {
			return true, "slice parameter " + x.Name()
		}
		return false, ""
	case *ssa.FreeVar:
		return true, "captured variable " + x.Name()
	case *ssa.Global:
		if x.Pkg != nil && x.Pkg.Pkg.Path() == PlyPath {
			return true, "package variable " + x.Name()
		}
		return false, ""
	case *ssa.Slice:
		// a full slice expression with zero capacity left cannot reach the backing array by append;
		// element stores still can, so only the append sink consults this (see freshBySliceCap)
		return c.sharedRoot(x.X, extra, seen)
	case *ssa.Phi:
		for _, ed := range x.Edges {
			if ok, why := c.sharedRoot(ed, extra, seen); ok {
				return true, why
			}
		}
		return false, ""
	case *ssa.ChangeType:
		return c.sharedRoot(x.X, extra, seen)
	case *ssa.Convert:
		return c.sharedRoot(x.X, extra, seen)
	case *ssa.Field:
		return c.sharedRoot(x.X, extra, seen)
	case *ssa.Index:
		return c.sharedRoot(x.X, extra, seen)
	case *ssa.Extract:
		return false, "" // call results: other packages' storage is not this rule's business
	case *ssa.Call:
		if ssau.Builtin(x) == "append" {
			// append(a, …) may return a's array
			return c.sharedRoot(x.Common().Args[0], extra, seen)
		}
		return false, ""
	case *ssa.MakeSlice, *ssa.MakeMap:
		return false, ""
	case *ssa.UnOp:
		if x.Op != token.MUL {
			return false, ""
		}
		return c.sharedAddr(x.X, x, extra, seen)
	}
	return false, ""
}

// sharedAddr: the memory at address p (read at instruction at) belongs to shared configuration.
func (c *cfgAnalysis) sharedAddr(p ssa.Value, at ssa.Instruction, extra map[ssa.Value]bool, seen map[ssa.Value]bool) (bool, string) {
	if p == nil || seen[addrKey{p}] {
		return false, ""
	}
	seen[addrKey{p}] = true
	switch a := p.(type) {
	case *ssa.Global:
		if a.Pkg != nil && a.Pkg.Pkg.Path() == PlyPath {
			return true, "package variable " + a.Name()
		}
		return false, ""
	case *ssa.Parameter:
		if isCfgNamed(a.Type()) {
			return true, "parameter " + a.Name()
		}
		return false, ""
	case *ssa.FieldAddr:
		// a field of a local struct that was re-assigned locally takes the assigned value
		if base, ok := a.X.(*ssa.Alloc); ok {
			var latest *ssa.Store
			for _, r := range ssau.Refs(base) {
				fa, ok := r.(*ssa.FieldAddr)
				if !ok || fa.X != base || fa.Field != a.Field {
					continue
				}
				for _, rr := range ssau.Refs(fa) {
					if st, ok := rr.(*ssa.Store); ok && st.Addr == fa && ssau.Before(st, at) {
						if latest == nil || ssau.Before(latest, st) {
							latest = st
						}
					}
				}
			}
			if latest != nil {
				return c.sharedRoot(latest.Val, extra, seen)
			}
		}
		return c.sharedAddr(a.X, at, extra, seen)
	case *ssa.IndexAddr:
		if _, isPtr := a.X.Type().Underlying().(*types.Pointer); isPtr {
			return c.sharedAddr(a.X, at, extra, seen)
		}
		return c.sharedRoot(a.X, extra, seen)
	case *ssa.Alloc:
		// what was stored into the local: a copy of a parameter / global struct still shares its slices
		for _, st := range reachingStores(a, at) {
			if ok, why := c.sharedRoot(st.Val, extra, seen); ok {
				return true, why
			}
		}
		return false, ""
	case *ssa.UnOp:
		if a.Op == token.MUL {
			return c.sharedAddr(a.X, at, extra, seen)
		}
	case *ssa.Phi:
		for _, ed := range a.Edges {
			if ok, why := c.sharedAddr(ed, at, extra, seen); ok {
				return true, why
			}
		}
	}
	return false, ""
}

// freshBySliceCap: append(x[lo:hi:max], …) with max == hi cannot write x's array.
func freshBySliceCap(v ssa.Value) bool {
	s, ok := v.(*ssa.Slice)
	if !ok || s.Max == nil {
		return false
	}
	if s.High == nil {
		return false
	}
	return sameIntValue(s.Max, s.High)
}

// sameIntValue: identical SSA value, equal constants, or len() of the same memory.
func sameIntValue(a, b ssa.Value) bool {
	if a == b {
		return true
	}
	if x, okA := ssau.ConstInt(a); okA {
		y, okB := ssau.ConstInt(b)
		return okB && x == y
	}
	ca, okA := a.(*ssa.Call)
	cb, okB := b.(*ssa.Call)
	if okA && okB && ssau.Builtin(ca) == "len" && ssau.Builtin(cb) == "len" {
		return PathKey(ca.Common().Args[0]) == PathKey(cb.Common().Args[0])
	}
	return false
}

type cfgSink struct {
	in   ssa.Instruction
	what string
	root string
}

var sortFuncs = map[string]bool{
	"sort.Slice": true, "sort.SliceStable": true, "sort.Sort": true, "sort.Stable": true, "sort.Strings": true, "sort.Ints": true, "sort.Float64s": true,
	"slices.Sort": true, "slices.SortFunc": true, "slices.SortStableFunc": true, "slices.Reverse": true,
}

func (c *cfgAnalysis) sinks(fn *ssa.Function, extra map[ssa.Value]bool, depth int) []cfgSink {
	var out []cfgSink
	root := func(v ssa.Value) (bool, string) { return c.sharedRoot(v, extra, map[ssa.Value]bool{}) }
	ssau.AllInstrs(fn, func(in ssa.Instruction) {
		switch x := in.(type) {
		case *ssa.Store:
			ia, ok := x.Addr.(*ssa.IndexAddr)
			if !ok {
				return
			}
			if _, isPtr := ia.X.Type().Underlying().(*types.Pointer); isPtr {
				if ok, why := c.sharedAddr(ia.X, x, extra, map[ssa.Value]bool{}); ok {
					out = append(out, cfgSink{x, "element store", why})
				}
				return
			}
			if ok, why := root(ia.X); ok {
				out = append(out, cfgSink{x, "element store", why})
			}
		case *ssa.MapUpdate:
			if ok, why := root(x.Map); ok {
				out = append(out, cfgSink{x, "map update", why})
			}
		case *ssa.Call:
			cc := x.Common()
			switch ssau.Builtin(x) {
			case "append":
				if freshBySliceCap(cc.Args[0]) {
					return
				}
				if ok, why := root(cc.Args[0]); ok {
					how := "append onto"
					if s, isS := cc.Args[0].(*ssa.Slice); isS && s.High != nil {
						how = "append onto a re-slice (which keeps the backing array) of"
					}
					out = append(out, cfgSink{x, how, why})
				}
				return
			case "copy", "clear", "delete":
				if ok, why := root(cc.Args[0]); ok {
					out = append(out, cfgSink{x, ssau.Builtin(x) + " into", why})
				}
				return
			case "":
			default:
				return
			}
			_, callee := CallTo(x)
			if callee != nil && callee.Pkg() != nil && sortFuncs[callee.Pkg().Path()+"."+callee.Name()] && len(cc.Args) > 0 {
				arg := cc.Args[0]
				if mi, ok := arg.(*ssa.MakeInterface); ok {
					arg = mi.X
				}
				if ok, why := root(arg); ok {
					out = append(out, cfgSink{x, "in-place " + callee.Name() + " of", why})
				}
				return
			}
			// a formats/ply callee that writes through a slice parameter we hand it
			sc := cc.StaticCallee()
			if sc == nil || sc.Blocks == nil || sc.Pkg == nil || sc.Pkg.Pkg.Path() != PlyPath || depth >= 2 {
				return
			}
			for i, a := range cc.Args {
				if i >= len(sc.Params) {
					break
				}
				switch a.Type().Underlying().(type) {
				case *types.Slice, *types.Map:
				default:
					continue
				}
				if ok, why := root(a); ok && c.mutatesParam(sc, i, depth+1) {
					out = append(out, cfgSink{x, "passed to " + sc.Name() + ", which writes", why})
				}
			}
		}
	})
	return out
}

func (c *cfgAnalysis) mutatesParam(fn *ssa.Function, i int, depth int) bool {
	key := fmt.Sprintf("%p/%d", fn, i)
	if r, ok := c.memo[key]; ok {
		return r == 2
	}
	c.memo[key] = 0
	res := 1
	if len(c.sinks(fn, map[ssa.Value]bool{fn.Params[i]: true}, depth)) > 0 {
		res = 2
	}
	c.memo[key] = res
	return res == 2
}

// touchesConfig: fn reads a slice / map out of shared configuration at all (so that the obligation is not vacuous).
func (c *cfgAnalysis) touchesConfig(fn *ssa.Function) bool {
	found := false
	ssau.AllInstrs(fn, func(in ssa.Instruction) {
		if found {
			return
		}
		v, ok := in.(ssa.Value)
		if !ok {
			return
		}
		switch v.Type().Underlying().(type) {
		case *types.Slice, *types.Map:
		default:
			return
		}
		if _, isLoad := v.(*ssa.UnOp); !isLoad {
			if _, isF := v.(*ssa.Field); !isF {
				return
			}
		}
		if ok, _ := c.sharedRoot(v, nil, map[ssa.Value]bool{}); ok {
			found = true
		}
	})
	return found
}

// CFG1 decides: no function of formats/ply (in scope) writes storage that may
// belong to a caller-owned or package-level writer/reader configuration:
// slices and maps reachable from a MeshWriter / MeshReader / Header / Element
// parameter or receiver (by value or pointer), from a []PropertyWriter /
// []PropertyReader / []Property / []Element parameter, or from a package
// variable. Sinks: element store, append (onto the value or any re-slice of it,
// except a full slice expression with max == high), copy/clear/delete, map
// update, in-place sorts, and passing it to a formats/ply function that does one
// of these to that parameter (two call levels). Package initialisers are exempt.
func CFG1(e *Env, scope func(fn *ssa.Function) bool) {
	const rule = "CFG-1"
	c := &cfgAnalysis{e: e, memo: map[string]int{}}
	n := 0
	for _, fn := range e.All {
		if fn.Name() == "init" || strings.HasPrefix(fn.Name(), "init#") || fn.Synthetic != "" {
			continue
		}
		isCtl := e.IsCtl(fn)
		if isCtl && !strings.HasPrefix(fn.Name(), "verifControlCFG1") {
			continue
		}
		if !isCtl && scope != nil && !scope(fn) {
			continue
		}
		sk := c.sinks(fn, nil, 0)
		if len(sk) == 0 {
			if c.touchesConfig(fn) {
				n++
				e.Hold(fn, rule, e.Name(fn), fn.Pos(), "reads writer/reader configuration; no element store, append, copy, sort or map update reaches its storage")
			}
			continue
		}
		n++
		var facts []string
		for _, s := range sk {
			facts = append(facts, fmt.Sprintf("%s: %s %s", e.IPos(s.in), s.what, s.root))
		}
		sort.Strings(facts)
		e.Violate(fn, rule, e.Name(fn), sk[0].in.Pos(),
			"shared configuration is written: "+sk[0].what+" "+sk[0].root+" — the caller's (or the package default) property list is modified, so the next write/read in the same process sees different properties",
			facts...)
	}
	e.R.Extra["cfg1_functions"] = n
	e.CtlDone(rule, "CFG1")
}
