package plycommon

import (
	"os"
	"testing"

	"polycheck/load"
	"polycheck/ob"
	"polycheck/props"
)

func TestDebug(t *testing.T) {
	repo := os.Getenv("DBG_REPO")
	if repo == "" {
		repo = "/repo"
	}
	p, err := load.Load(load.Config{Repo: repo})
	if err != nil {
		t.Fatal(err)
	}
	c := &props.Ctx{P: p, R: ob.NewRun("X", "quick", 0, "/tmp/verif_c04")}
	e := New(c)
	fn := e.Fn(os.Getenv("DBG_FN"))
	fn.WriteTo(os.Stdout)
}
