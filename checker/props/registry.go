// Package props: one file per property, each assembling its obligations from the rule engines.
package props

import (
	"sort"

	"polycheck/load"
	"polycheck/ob"
)

// Ctx is what a property check sees.
type Ctx struct {
	P    *load.Program
	R    *ob.Run
	Tier string
}

// Prop is one registered property check.
type Prop struct {
	ID          string
	Explanation string
	Assumptions []string
	// Controls returns overlay files (module-relative path -> content) holding
	// positive/negative self-test controls analysed together with the repository.
	Controls func() map[string]string
	Run      func(c *Ctx)
}

var registry = map[string]*Prop{}

func Register(p *Prop) { registry[p.ID] = p }

func Get(id string) *Prop { return registry[id] }

func IDs() []string {
	var ids []string
	for id := range registry {
		ids = append(ids, id)
	}
	sort.Strings(ids)
	return ids
}
